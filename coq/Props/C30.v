(* C30  NTS-KE messages are parsed totally, boundedly and round-trip.
   Property theorems only; proofs are in Proofs/NtsRecord.v and Proofs/NtsMsg.v.

   Parsers return (outcome, bytes left unread); "bytes consumed" is the prefix
   c with input = c ++ unread.  Bytes are Z; no theorem needs them in 0..255. *)
From V Require Import Model.NtsRecord Model.NtsMsg Proofs.NtsRecord Proofs.NtsMsg Gen.ConstNts.

(* ---- totality: no input makes a parser panic (the model's panic sites are the
   two guarded indexings `algorithms[0]` / `protocols[0]` of Request::parse and
   the exhaustion of the loop fuel, i.e. non-termination of the record loop) ---- *)
Theorem C30_total_record : forall b s, fst (parse_record b) <> Panic s.
Proof. exact parse_record_total. Qed.

Theorem C30_total_request : forall b s, fst (parse_request b) <> Panic s.
Proof. exact parse_request_total. Qed.

Theorem C30_total_response : forall b s, fst (parse_response b) <> Panic s.
Proof. exact parse_response_total. Qed.

(* ---- boundedness: in every outcome (accepted or rejected) what was consumed is
   a prefix of at most 4096 bytes, and the outcome is the outcome on the first
   4096 bytes of the stream ---- *)
Theorem C30_bounded_request : forall b x rest,
  parse_request b = (x, rest) -> exists c, b = c ++ rest /\ zlen c <= 4096.
Proof. exact parse_request_bounded. Qed.

Theorem C30_bounded_response : forall b x rest,
  parse_response b = (x, rest) -> exists c, b = c ++ rest /\ zlen c <= 4096.
Proof. exact parse_response_bounded. Qed.

Theorem C30_request_sees_4096 : forall b,
  fst (parse_request b) = fst (parse_request (firstn 4096 b)) /\
  snd (parse_request b) = snd (parse_request (firstn 4096 b)) ++ skipn 4096 b.
Proof. exact parse_request_prefix. Qed.

Theorem C30_response_sees_4096 : forall b,
  fst (parse_response b) = fst (parse_response (firstn 4096 b)) /\
  snd (parse_response b) = snd (parse_response (firstn 4096 b)) ++ skipn 4096 b.
Proof. exact parse_response_prefix. Qed.

(* a single record: what is left unread is a suffix of the input, in every outcome *)
Theorem C30_record_consumes_prefix : forall b x rest,
  parse_record b = (x, rest) -> exists c, b = c ++ rest.
Proof. exact parse_record_suffix. Qed.

(* ---- round trips: whatever a parser accepts re-serialises to bytes that parse
   back to the same value, whatever follows them in the stream; the
   re-serialisation is never longer than what was consumed, so it passes the
   cap again ---- *)
Theorem C30_record_roundtrip : forall b r rest,
  parse_record b = (Ok r, rest) -> forall t, parse_record (ser_record r ++ t) = (Ok r, t).
Proof. exact record_reparse. Qed.

Theorem C30_record_reserialisation_not_longer : forall b r rest,
  parse_record b = (Ok r, rest) ->
  wf_record r /\ exists c, b = c ++ rest /\ zlen (ser_record r) <= zlen c.
Proof. exact parse_record_ok. Qed.

Theorem C30_request_roundtrip : forall b q rest,
  parse_request b = (Ok q, rest) -> forall t, parse_request (ser_request q ++ t) = (Ok q, t).
Proof. exact request_reparse. Qed.

Theorem C30_request_reserialisation_fits : forall b q rest,
  parse_request b = (Ok q, rest) -> wf_request q /\ zlen (ser_request q) <= 4096.
Proof. exact parse_request_ok. Qed.

Theorem C30_response_roundtrip : forall b p rest,
  parse_response b = (Ok p, rest) -> forall t, parse_response (ser_response p ++ t) = (Ok p, t).
Proof. exact response_reparse. Qed.

Theorem C30_response_reserialisation_fits : forall b p rest,
  parse_response b = (Ok p, rest) -> wf_response p /\ zlen (ser_response p) <= 4096.
Proof. exact parse_response_ok. Qed.

(* the constructs the model mirrors are still the ones counted in the sources *)
Theorem C30_site_census :
  TAKE_MAX_COUNT = 2 /\ PARSE_DISPATCH_ARMS = 14 /\ MSG_INDEX0_SITES = 3 /\ MSG_LEN_GUARD = 1
  /\ MAX_MESSAGE_SIZE = 4096.
Proof. exact nts_census. Qed.

(* non-vacuity: a key-exchange request with a denied server and an ignored
   record, a fixed-key request, a response with a cookie and a port are accepted;
   an unknown critical record and an over-long message are rejected *)
Example C30_nonvacuous :
  parse_request [128;1;0;4;128;1;0;0; 128;4;0;2;0;15; 0;13;0;1;97; 0;99;0;1;7; 128;0;0;0; 42]
    = (Ok (KeyExchange [15] [32769; 0] [[97]]), [42])
  /\ fst (parse_request ([0;14;0;2;104;105; 128;12;0;64] ++ repeat 7 64 ++ [128;1;0;2;0;0; 128;4;0;2;0;15; 0;8;0;0; 128;0;0;0]))
    = Ok (FixedKey [104;105] (repeat 7 32) (repeat 7 32) 15 0 true)
  /\ parse_response [128;1;0;2;0;0; 128;4;0;2;0;17; 0;5;0;3;1;2;3; 128;7;0;2;17;108; 128;0;0;0]
    = (Ok (mkResp 0 17 [[1;2;3]] None (Some 4460) false), [])
  /\ fst (parse_request [128;99;0;0; 128;0;0;0]) = Err E_CRITICAL
  /\ parse_record [128;6;0;2;195;40] = (Err E_DATA, [])
  /\ fst (parse_request (flat_map (fun _ => [0;8;0;0]) (repeat tt 1024) ++ [128;0;0;0])) = Err E_EOF.
Proof. vm_compute. repeat split. Qed.

Print Assumptions C30_total_record.
Print Assumptions C30_total_request.
Print Assumptions C30_total_response.
Print Assumptions C30_bounded_request.
Print Assumptions C30_bounded_response.
Print Assumptions C30_request_sees_4096.
Print Assumptions C30_response_sees_4096.
Print Assumptions C30_record_consumes_prefix.
Print Assumptions C30_record_roundtrip.
Print Assumptions C30_record_reserialisation_not_longer.
Print Assumptions C30_request_roundtrip.
Print Assumptions C30_request_reserialisation_fits.
Print Assumptions C30_response_roundtrip.
Print Assumptions C30_response_reserialisation_fits.
Print Assumptions C30_site_census.
