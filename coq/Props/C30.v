From V Require Import Model.NtsRecord Model.NtsMsg Proofs.NtsRecord.
Theorem C30_placeholder : True. Proof. exact placeholder_nts. Qed.
Print Assumptions C30_placeholder.
