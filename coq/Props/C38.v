(* C38  ntp-ctl reads exactly what the daemon publishes.
   "Every state snapshot (with finite numbers) that the daemon writes to the
    observation socket is read back by ntp-ctl and the metrics exporter as an
    equal value, durations to within one part per billion plus one 2^-32 s
    unit, and messages announcing more than 1 MiB are rejected before any
    payload is read."
   Property theorems only; proofs in Proofs/Framing.v, model in
   Model/Framing.v.  serde_json is not modelled: the payload codec is the pair
   [encode]/[decode] the theorems quantify over (oracle), its round trip on the
   written value is a hypothesis of C38_framing. *)
From V Require Import Model.Framing Proofs.Framing.

(* read (write v) = v for every payload codec, every value whose encoding
   decodes to itself and fits the 1 MiB limit, and every continuation of the
   stream: the value is returned, exactly the written bytes are consumed, and
   the rest of the stream (the next message) is left in place.
   (A snapshot whose JSON exceeds 1 MiB is written by the daemon but refused
   by the reader: the two halves of the property text exclude each other
   there; the hypothesis marks the reading chosen.) *)
Theorem C38_framing :
  forall (V : Type) (encode : V -> option (list Z)) (decode : list Z -> option V)
         (v : V) (bytes rest : list Z),
  encode v = Some bytes ->
  decode bytes = Some v ->
  Z.of_nat (length bytes) <= 2 ^ 20 ->
  exists w, write_json encode v = Ok w /\
    read_json decode (w ++ rest) = mk_rr (Ok v) (Z.of_nat (length w)) (Z.of_nat (length bytes)) /\
    skipn (length w) (w ++ rest) = rest.
Proof. exact @framing_roundtrip. Qed.

(* An announced length above 1 MiB (up to 2^64-1) is rejected with exactly the
   8 header bytes consumed, whatever follows in the stream (even nothing), and
   the caller's buffer stays empty (no allocation of the announced size). *)
Theorem C38_size_guard :
  forall (V : Type) (decode : list Z -> option V) (announced : Z) (rest : list Z),
  2 ^ 20 < announced < 2 ^ 64 ->
  read_json decode (be_bytes 8 announced ++ rest) = mk_rr (Err E_TOO_LARGE) 8 0.
Proof. exact @size_guard_announced. Qed.

(* ... for every stream whose first eight bytes spell such a length *)
Theorem C38_size_guard_stream :
  forall (V : Type) (decode : list Z -> option V) (stream : list Z),
  8 <= Z.of_nat (length stream) ->
  be_Z (firstn 8 stream) > 2 ^ 20 ->
  read_json decode stream = mk_rr (Err E_TOO_LARGE) 8 0.
Proof. exact @size_guard. Qed.

(* and the limit is exact: 1 MiB itself is not refused for its size *)
Theorem C38_limit_exact :
  forall (V : Type) (decode : list Z -> option V) (stream : list Z),
  be_Z (firstn 8 stream) <= 2 ^ 20 ->
  rr_value (read_json decode stream) <> Err E_TOO_LARGE.
Proof. exact @accepted_size_not_too_large. Qed.

(* The reader never panics and never consumes more than the stream holds,
   for every byte stream (truncated, garbage, ...). *)
Theorem C38_read_total :
  forall (V : Type) (decode : list Z -> option V) (stream : list Z),
  Forall (fun b => 0 <= b < 256) stream ->
  (forall p, rr_value (read_json decode stream) <> Panic p) /\
  0 <= rr_consumed (read_json decode stream) <= Z.of_nat (length stream).
Proof. exact @read_total. Qed.

(* NOT PROVED HERE (partial): the numeric part of the payload.  Durations
   travel as float seconds: the value read is from_seconds (to_seconds d)
   (Model.Framing.duration_roundtrip, compared bit for bit with the
   implementation on every run); the bound |read - d| <= |d|*1e-9 + 1 unit is
   the subject of C32 (time arithmetic) and is evaluated by this check's
   monitor on every case.  That the JSON text of a finite f64 parses back to
   the same f64 is a property of serde_json (oracle), tested by the X cases. *)

(* non-vacuity: a concrete codec (payload = list of small numbers written as
   their bytes), two messages back to back *)
Example C38_nonvacuous :
  let enc := fun l : list Z => Some l in
  let dec := fun l : list Z => Some l in
  exists w1 w2,
    write_json enc [123; 34; 97; 34; 58; 49; 125] = Ok w1 /\
    write_json enc [91; 93] = Ok w2 /\
    w1 = [0;0;0;0;0;0;0;7; 123; 34; 97; 34; 58; 49; 125] /\
    read_json dec (w1 ++ w2) = mk_rr (Ok [123; 34; 97; 34; 58; 49; 125]) 15 7 /\
    read_json dec (skipn 15 (w1 ++ w2)) = mk_rr (Ok [91; 93]) 10 2 /\
    read_json dec ([0;0;0;0;0;16;0;1] ++ [1;2;3]) = mk_rr (Err E_TOO_LARGE) 8 0 /\
    read_json dec ([255;255;255;255;255;255;255;255]) = mk_rr (Err E_TOO_LARGE) 8 0.
Proof.
  exists [0;0;0;0;0;0;0;7; 123; 34; 97; 34; 58; 49; 125], [0;0;0;0;0;0;0;2; 91; 93].
  vm_compute. repeat split.
Qed.

Print Assumptions C38_framing.
Print Assumptions C38_size_guard.
Print Assumptions C38_size_guard_stream.
Print Assumptions C38_limit_exact.
Print Assumptions C38_read_total.
