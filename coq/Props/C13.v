(* C13  NTS cookies are used once, oldest first, and never hoarded.
   Property theorems only; proofs are in Proofs/CookieStash.v and
   Proofs/SrcCore.v.  The model (Model/CookieStash.v, Model/SrcCore.v) is
   polymorphic in the cookie type C: the code never inspects a cookie except
   for its length [clen]; [dflt] is the empty vector left behind by
   std::mem::take.  A history is any list of events
     Timer | Usable cs | DenyKiss | Other | StoreCookie c
   (see Model/SrcCore.v), from a source created with an empty stash. *)
From V Require Import Model.CookieStash Model.SrcCore Model.SrcSpec
  Proofs.CookieStash Proofs.SrcCore.
From V Require Import Gen.ConstSource.

(* --- the ring buffer implements a bounded FIFO --- *)

(* store appends; when eight cookies are held the oldest one is dropped *)
Theorem C13_store_keeps_newest : forall (C : Type) (dflt : C) (s : stash C) (c : C),
  stash_inv s ->
  stash_inv (store s c) /\
  abs dflt (store s c) = lastn NCOOK (abs dflt s ++ [c]).
Proof. intros. split; [apply inv_store; auto|apply abs_store; auto]. Qed.

(* get yields the oldest cookie held, removes it, and nothing else changes *)
Theorem C13_get_oldest : forall (C : Type) (dflt : C) (s : stash C),
  stash_inv s ->
  stash_inv (snd (get dflt s)) /\
  fst (get dflt s) = hd_error (abs dflt s) /\
  abs dflt (snd (get dflt s)) = tl (abs dflt s).
Proof. intros. split; [apply inv_get; auto|apply abs_get; auto]. Qed.

(* gap() is the number of cookies missing to eight, len() the number held *)
Theorem C13_gap : forall (C : Type) (dflt : C) (s : stash C),
  stash_inv s ->
  gap s = MAX_COOKIES - Z.of_nat (length (abs dflt s)) /\
  stash_len s = Z.of_nat (length (abs dflt s)) /\
  (length (abs dflt s) <= NCOOK)%nat.
Proof. intros. split; [apply gap_abs; auto|split; [apply len_abs|apply abs_bounded; auto]]. Qed.

(* --- over all histories of a source --- *)

(* Used once, oldest first: the sequence of cookies put into requests is
   obtained from the sequence of cookies that arrived by deleting elements
   (every cookie sent is matched to its own arrival, in the same order). *)
Theorem C13_once_fifo : forall (C : Type) (dflt : C) (clen : C -> Z) (with_nts : bool)
    (evs : list (event C)),
  subseq (sent_cookies (run dflt clen (src_new dflt with_nts) evs)) (delivered evs).
Proof. intros. apply sent_subseq_new. Qed.

(* The same with cookies labelled by their arrival number: labels of the
   cookies sent strictly increase, in particular no label is sent twice. *)
Theorem C13_tags_increase : forall (C : Type) (dflt : C) (clen : C -> Z) (tag : C -> Z)
    (with_nts : bool) (evs : list (event C)),
  StronglySorted Z.lt (map tag (delivered evs)) ->
  StronglySorted Z.lt (map tag (sent_cookies (run dflt clen (src_new dflt with_nts) evs))).
Proof. intros. apply sent_tags_increase; auto. Qed.

Theorem C13_once : forall (C : Type) (dflt : C) (clen : C -> Z) (with_nts : bool)
    (evs : list (event C)),
  NoDup (delivered evs) ->
  NoDup (sent_cookies (run dflt clen (src_new dflt with_nts) evs)).
Proof. intros. apply sent_once; auto. Qed.

(* At most eight are kept, and those kept are the newest of all that were
   stored (a suffix of the stored sequence). *)
Theorem C13_bounded : forall (C : Type) (dflt : C) (clen : C -> Z) (with_nts : bool)
    (evs : list (event C)),
  let st0 := src_new dflt with_nts in
  (length (held dflt (final dflt clen st0 evs)) <= NCOOK)%nat /\
  exists older, stored dflt clen st0 evs = older ++ held dflt (final dflt clen st0 evs).
Proof.
  intros. split; [apply held_bounded|].
  destruct (held_newest dflt clen evs st0 (inv_new dflt clen with_nts)) as [p Hp].
  exists p. destruct with_nts; exact Hp.
Qed.

(* One step on the list of held cookies: a timer that polls takes the oldest;
   every other event appends what it stores and keeps the newest eight. *)
Theorem C13_step : forall (C : Type) (dflt : C) (clen : C -> Z) (st : src C) (e : event C),
  src_inv st ->
  src_inv (snd (step dflt clen st e)) /\
  held dflt (snd (step dflt clen st e)) =
  match e with
  | Timer => if reset_due st then held dflt st else tl (held dflt st)
  | _ => lastn NCOOK (held dflt st ++ stored_by st e)
  end.
Proof. intros. split; [apply inv_step; auto|apply held_step; auto]. Qed.

(* Each request carries the oldest cookie held and asks for exactly as many
   new cookies as are missing after taking it (the cookie itself counts for
   one, each placeholder for one more), limited only by
   floor(724 / max(len,1)) (capped at 255); when that limit is 0 (cookie longer
   than 724 bytes) or no cookie is held, the source is reset instead and
   nothing is sent. *)
Theorem C13_asks_for_missing : forall (C : Type) (dflt : C) (clen : C -> Z) (st : src C)
    (s : stash C),
  src_inv st -> nts st = Some s -> reset_due st = false ->
  match held dflt st with
  | [] => fst (handle_timer dflt clen st) = [Reset] /\
          held dflt (snd (handle_timer dflt clen st)) = []
  | c :: rest =>
      held dflt (snd (handle_timer dflt clen st)) = rest /\
      fst (handle_timer dflt clen st) =
        (if cookie_cap clen c =? 0 then [Reset]
         else [SendNts c (Z.min (MAX_COOKIES - Z.of_nat (length rest)) (cookie_cap clen c) - 1)])
  end.
Proof. intros. eapply timer_nts; eauto. Qed.

(* non-vacuity: ten cookies arrive, the two oldest are dropped, requests carry
   tags 3 then 4 and ask for 1 resp. 2 cookies (one placeholder); a 728-byte
   cookie is taken but not sent *)
Example C13_nonvacuous :
  let evs := map E_store [(1,100);(2,100);(3,100);(4,100);(5,100);(6,100);(7,100);(8,100);(9,100);(10,100)]
             ++ [E_timer; E_timer] in
  map (fun o => fst o) (run tc_dflt tc_len (src_new tc_dflt true) evs)
    = repeat [] 10 ++ [[SendNts (3,100) 0]; [SendNts (4,100) 1]]
  /\ StronglySorted Z.lt (map fst (delivered evs))
  /\ fst (handle_timer tc_dflt tc_len (final tc_dflt tc_len (src_new tc_dflt true) [E_store (1,728)])) = [Reset].
Proof. vm_compute. repeat split; repeat constructor. Qed.

Print Assumptions C13_store_keeps_newest.
Print Assumptions C13_get_oldest.
Print Assumptions C13_gap.
Print Assumptions C13_once_fifo.
Print Assumptions C13_tags_increase.
Print Assumptions C13_once.
Print Assumptions C13_bounded.
Print Assumptions C13_step.
Print Assumptions C13_asks_for_missing.
