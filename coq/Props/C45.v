(* C45  CSPTP servers answer only requests, with correct echoes.
   Property theorems only; proofs are in Proofs/Csptp.v.  The model (Model/Csptp.v) is
   handle_packet over byte strings: the datagram is parsed by the model of
   CsptpMessage::deserialize (Model/CsptpMsg.v, Model/PtpWire.v); the result lists the datagrams
   handed to ServerSocket::send_event (channel 0) and send_general (channel 1).  The server
   state (grandmaster data, flags, leap indicator) and the result of send_event are arbitrary. *)
From V Require Import Model.Csptp Proofs.Csptp.

(* every datagram, reception time, server state and send_event result: no panic site is reached *)
Theorem C45_total : forall st pkt recv_ts se, exists l, handle_packet st pkt recv_ts se = Ok l.
Proof. exact handle_packet_total. Qed.

(* anything is sent only for a well-formed CSPTP request: the datagram parses as a PTP message
   with sdoId 0x300 and major version 2, a Sync body, exactly one CSPTP request TLV (with a flags
   octet) and no CSPTP response TLV (wf_request, Proofs/Csptp.v) *)
Theorem C45_only_requests : forall st pkt recv_ts se l,
  handle_packet st pkt recv_ts se = Ok l -> l <> [] -> exists req, wf_request pkt req.
Proof. exact only_requests. Qed.

(* the answer is the serialisation of a Sync with sdoId 0x300, the request's domain and sequence
   id, the two-step flag, and whose first TLV is a response TLV that reads back as (reception time
   of the request, correction field of the request); it goes to send_event *)
Theorem C45_echo : forall st pkt recv_ts se ch d1 rest,
  handle_packet st pkt recv_ts se = Ok ((ch, d1) :: rest) -> ts_ok recv_ts ->
  exists req resp extra,
    wf_request pkt req /\ ch = CH_EVENT
    /\ msg_serialize resp (zero_buf Gen.ConstCsptp.MAX_MESSAGE_SIZE) = Ok d1
    /\ h_sdo (m_header resp) = 768
    /\ h_domain (m_header resp) = h_domain (m_header req)
    /\ h_seq (m_header resp) = h_seq (m_header req)
    /\ h_two_step (m_header resp) = true
    /\ (exists origin, m_body resp = Sync origin)
    /\ tlvs (m_suffix resp) = Ok (resp_tlv_make (mkRespTlv recv_ts (h_correction (m_header req))) :: extra)
    /\ find_map resp_tlv_try (resp_tlv_make (mkRespTlv recv_ts (h_correction (m_header req))) :: extra)
       = Some (mkRespTlv recv_ts (h_correction (m_header req))).
Proof. exact echo. Qed.

(* when send_event fails nothing else is sent; when it reports the send time, exactly one more
   datagram goes to send_general: the serialisation of a follow-up with sdoId 0x300, the
   request's domain and sequence id, the two-step flag, no TLVs, carrying that send time *)
Theorem C45_follow_up : forall st pkt recv_ts se l,
  handle_packet st pkt recv_ts se = Ok l -> l <> [] ->
  match se with
  | None => exists d1, l = [(CH_EVENT, d1)]
  | Some send_ts =>
      exists req d1 d2 fu,
        wf_request pkt req /\ l = [(CH_EVENT, d1); (CH_GENERAL, d2)]
        /\ msg_serialize fu (zero_buf Gen.ConstCsptp.MAX_MESSAGE_SIZE) = Ok d2
        /\ m_body fu = FollowUp send_ts /\ m_suffix fu = []
        /\ h_sdo (m_header fu) = 768
        /\ h_domain (m_header fu) = h_domain (m_header req)
        /\ h_seq (m_header fu) = h_seq (m_header req)
        /\ h_two_step (m_header fu) = true
  end.
Proof. exact follow_up. Qed.

(* non-vacuity: the client's own request (domain 128, sequence id 7) is answered with two
   datagrams; the same bytes with sdoId 0x301 are not answered *)
Definition ex_state : server_state := mkSrv 128 (mkCq 6 (AccNamed 33) 20000) 128 1 [1;2;3;4;5;6;7;8] true true false 1.
Definition ex_request : bytes :=
  ser_header (csptp_header 128 7) 0 52 ++ ts_ser (mkTs 0 0) ++ tlv_ser (req_tlv_make true false).
Example C45_nonvacuous :
  (exists d1 d2, handle_packet ex_state ex_request (mkTs 1700000000 5) (Some (mkTs 1700000000 900)) = Ok [(0, d1); (1, d2)]
                 /\ length d1 = 88%nat /\ length d2 = 44%nat)
  /\ handle_packet ex_state (ser_header (mkHeader 769 2 1 128 false false true false false false false false false false false false 0 zero_pid 7 127) 0 52
                             ++ ts_ser (mkTs 0 0) ++ tlv_ser (req_tlv_make true false)) (mkTs 1700000000 5) None = Ok [].
Proof.
  split; [do 2 eexists; split; [vm_compute; reflexivity|split; reflexivity]|vm_compute; reflexivity].
Qed.

Print Assumptions C45_total.
Print Assumptions C45_only_requests.
Print Assumptions C45_echo.
Print Assumptions C45_follow_up.
