(* C17  A request-sized buffer always suffices for the server's answer.
   Property theorems only; proofs are in Proofs/ResponseFit.v, the model in Model/Response.v.

   The statement as documented on Server::handle is FALSE for the code (known finding): the
   witnesses below (the C17_refuted theorems) are answered with a 1024-byte buffer and dropped with a buffer
   as long as the request.  What holds is the statement outside the class
     known_class_C17 q k :=
        (a) an echoed unique-identifier field is shorter on the wire than the minimum size its place
            in the answer imposes (16; 28 for the last field of a plain NTPv4 answer), or
        (b) NTS answer and an NTS authenticator of the request has a nonce shorter than 16 bytes, or
        (c) NTPv5 request without the draft identification whose authenticator fails (NAK / DENY
            answers add the 28-byte draft field; the decoder skips its draft check on that path). *)
From V Require Import Model.Response Proofs.Response Proofs.ResponseFit Proofs.ResponseFit5 Gen.ConstResponse.
Local Open Scope Z_scope.

(* Outside the class, whenever the server's policy decides to answer a (decoder-reported, wf_request)
   request -- NTPv3, NTPv4 or NTPv5, plain or NTS, any answer kind (time, DENY, NTS-NAK), any
   cookie / placeholder / unique-identifier layout, any reference-id requests, any server state,
   both shapes of the cookie loop (tf) -- handle, given the daemon's buffer of exactly the request's
   length, sends that answer (with the statistics of the decision: it is not turned into InternalError). *)
Theorem C17_fits : forall tf cfg st q recv now k alg stats,
  wf_request q = true -> wf_env st recv now -> (c_intended cfg = 1 \/ c_intended cfg = 3) ->
  decision cfg q = inl (Some (k, alg, stats)) -> known_class_C17 q k = false ->
  exists w, handle tf cfg st q recv now (request_len q) (request_len q) = ORespond stats w.
Proof. exact fits_all. Qed.

(* the 73-byte request: header, 16-byte unique-identifier field, 9 trailing bytes read as a MAC *)
Theorem C17_refuted_uid : exists q,
  wf_request q = true /\ request_len q = 73 /\ known_class_C17 q KTime = true /\
  (exists w, handle false witness_cfg witness_st q witness_t witness_t 73 1024 = ORespond [4; 0; 4; 3] w /\ wire_len w = 76) /\
  handle false witness_cfg witness_st q witness_t witness_t 73 73 = OIgnore [4; 0; 3; 2].
Proof.
  exists (plain_req 4 [FUid [1;2;3;4;5;6;7;8;9;10;11;12]] 9). vm_compute. repeat split; eauto.
Qed.

(* the 84-byte request: header, two 8-byte unique-identifier fields, 20-byte MAC *)
Theorem C17_refuted_uid2 : exists q,
  wf_request q = true /\ request_len q = 84 /\ known_class_C17 q KTime = true /\
  (exists w, handle false witness_cfg witness_st q witness_t witness_t 84 1024 = ORespond [4; 0; 4; 3] w /\ wire_len w = 92) /\
  handle false witness_cfg witness_st q witness_t witness_t 84 84 = OIgnore [4; 0; 3; 2].
Proof.
  exists (plain_req 4 [FUid [1;2;3;4]; FUid [5;6;7;8]] 20). vm_compute. repeat split; eauto.
Qed.

(* NTS request (32-byte unique identifier, cookie, authenticator with an 8-byte nonce) *)
Theorem C17_refuted_nonce : exists q,
  wf_request q = true /\ request_len q = 224 /\ known_class_C17 q KNtsTime = true /\
  (exists w, handle false witness_cfg witness_st q witness_t witness_t 224 1024 = ORespond [4; 1; 4; 3] w /\ wire_len w = 232) /\
  handle false witness_cfg witness_st q witness_t witness_t 224 224 = OIgnore [4; 1; 3; 2].
Proof.
  exists {| q_version := 4; q_mode := 3; q_poll := 6; q_xmit := [1;2;3;4;5;6;7;8]; q_upgrade := false;
            q_untrusted := []; q_auth := [FUid (repeat 7 32); FCookie 104]; q_enc := []; q_mac := 0;
            q_cookie := Some 15; q_decrypt_failed := false; q_auths := [(8, 16, 32)] |}.
  vm_compute. repeat split; eauto.
Qed.

(* NTPv5 request without draft identification whose 8-byte authenticator cannot be decrypted: 56 bytes, NAK of 76 *)
Theorem C17_refuted_v5_nak : exists q,
  wf_request q = true /\ request_len q = 56 /\ known_class_C17 q KNak = true /\
  (exists w, handle false witness_cfg witness_st q witness_t witness_t 56 1024 = ORespond [5; 1; 2; 0] w /\ wire_len w = 76) /\
  handle false witness_cfg witness_st q witness_t witness_t 56 56 = OIgnore [5; 1; 3; 2].
Proof.
  exists {| q_version := 5; q_mode := 3; q_poll := 6; q_xmit := [1;2;3;4;5;6;7;8]; q_upgrade := false;
            q_untrusted := [FInvalidNts]; q_auth := []; q_enc := []; q_mac := 0;
            q_cookie := None; q_decrypt_failed := true; q_auths := [(0, 0, 8)] |}.
  vm_compute. repeat split; eauto.
Qed.

(* non-vacuity: requests outside the class that are answered with a request-sized buffer *)
Example C17_nonvacuous :
  let q1 := plain_req 4 [FUid [1;2;3;4;5;6;7;8;9;10;11;12]; FUid (repeat 7 24)] 0 in
  let q2 := {| q_version := 4; q_mode := 3; q_poll := 6; q_xmit := [1;2;3;4;5;6;7;8]; q_upgrade := false;
               q_untrusted := []; q_auth := [FUid (repeat 7 32); FCookie 104; FPlaceholder 104]; q_enc := []; q_mac := 0;
               q_cookie := Some 15; q_decrypt_failed := false; q_auths := [(16, 16, 40)] |} in
  wf_request q1 = true /\ known_class_C17 q1 KTime = false /\ wf_request q2 = true /\ known_class_C17 q2 KNtsTime = false
  /\ (exists w, handle false witness_cfg witness_st q1 witness_t witness_t (request_len q1) (request_len q1) = ORespond [4; 0; 4; 3] w)
  /\ (exists w, handle false witness_cfg witness_st q2 witness_t witness_t (request_len q2) (request_len q2) = ORespond [4; 1; 4; 3] w)
  /\ wf_env witness_st witness_t witness_t.
Proof. vm_compute. repeat split; eauto. Qed.

Print Assumptions C17_fits.
Print Assumptions C17_refuted_uid.
Print Assumptions C17_refuted_uid2.
Print Assumptions C17_refuted_nonce.
Print Assumptions C17_refuted_v5_nak.
