(* C11  Unreachable sources are reset, responsive sources are kept.
   Property theorems only; proofs are in Proofs/SrcReach.v.  Model:
   Model/SrcCore.v (reach register, tries, deny flag, outstanding request of
   NtpSource; datagram classes Usable / DenyKiss / Other are inputs).
   Vocabulary (Model/SrcSpec.v): [hist_run] is the ghost record of poll
   attempts of a history, newest first, each marked with whether a usable
   answer followed it before the next attempt; [bits 8 h] is the number whose
   binary digits are the first eight marks; [since_last h] the attempts since
   the last usable answer. *)
From V Require Import Model.SrcCore Model.SrcSpec Proofs.SrcCore Proofs.SrcReach.
From V Require Import Gen.ConstSource.

(* The register is the 8-attempt window of the record (bit i = was the i-th most
   recent attempt answered), tries counts the attempts, and the reported number
   of missed polls is the number of attempts since the last usable answer,
   at most 8 (and 8 as long as there never was one). *)
Theorem C11_reach_abs : forall (C : Type) (dflt : C) (clen : C -> Z)
    (evs : list (event C)) (with_nts : bool),
  let st := final dflt clen (src_new dflt with_nts) evs in
  let h := hist_run dflt clen [] (src_new dflt with_nts) evs in
  reach st = bits 8 h /\
  tries st = Z.min (Z.of_nat (length h)) usize_max /\
  unanswered_polls st = match since_last h with Some k => Z.min 8 k | None => 8 end.
Proof. exact @reach_is_record. Qed.

Theorem C11_bits_are_marks : forall n h i, (i < n)%nat ->
  Z.testbit (bits n h) (Z.of_nat i) = nth i h false.
Proof. exact bits_testbit. Qed.

(* The reset is due exactly when at least three attempts were made and none of
   the last eight was answered usably; on reachable states that means: the
   first three attempts all went unanswered, or the last eight did. *)
Theorem C11_reset_conditions : forall (C : Type) (dflt : C) (clen : C -> Z)
    (evs : list (event C)) (with_nts : bool),
  let st := final dflt clen (src_new dflt with_nts) evs in
  let h := hist_run dflt clen [] (src_new dflt with_nts) evs in
  (reset_due st = true <-> (3 <= length h)%nat /\ none_answered 8 h) /\
  ((3 <= length h)%nat /\ none_answered 8 h <->
   h = [false; false; false] \/ ((8 <= length h)%nat /\ none_answered 8 h)).
Proof. exact @reset_due_iff. Qed.

(* When it is due, the next timer returns exactly Reset, or Demobilize if the
   deny flag is set, and changes nothing ... *)
Theorem C11_reset : forall (C : Type) (dflt : C) (clen : C -> Z) (st : src C),
  reset_due st = true ->
  handle_timer dflt clen st = ((if deny st then [Demobilize] else [Reset]), st).
Proof. exact @reset_action. Qed.

(* ... and until a usable answer arrives nothing further is sent: every later
   event yields no action, or the single action Reset / Demobilize. *)
Theorem C11_nothing_further : forall (C : Type) (dflt : C) (clen : C -> Z)
    (evs : list (event C)) (st : src C),
  reset_due st = true -> no_usable evs ->
  forall a s', In (a, s') (run dflt clen st evs) -> a = [] \/ a = [Reset] \/ a = [Demobilize].
Proof. exact @reset_silent_timer. Qed.

(* The deny flag of a plain source is set iff a DENY/RSTR answer to the
   outstanding request was seen and no usable answer since (for an NTS source
   such an answer is authenticated and demobilises at once: Model/SrcCore.v
   handle_deny). *)
Theorem C11_deny_flag : forall (C : Type) (dflt : C) (clen : C -> Z) (evs : list (event C)),
  let st0 := src_new dflt false in
  deny (final dflt clen st0 evs) = true <->
  exists e1 e2, evs = e1 ++ DenyKiss :: e2 /\ pending (final dflt clen st0 e1) = true /\ no_usable e2.
Proof. exact @deny_flag_iff. Qed.

(* A plain source, after any history: its next timer resets (demobilises if
   denied) without changing state iff three attempts were made and none of the
   last eight was answered; in every other case it sends a request. *)
Theorem C11_plain_timer : forall (C : Type) (dflt : C) (clen : C -> Z) (evs : list (event C)),
  let st := final dflt clen (src_new dflt false) evs in
  let h := hist_run dflt clen [] (src_new dflt false) evs in
  (fst (handle_timer dflt clen st) = (if deny st then [Demobilize] else [Reset]) /\
   snd (handle_timer dflt clen st) = st
   <-> (3 <= length h)%nat /\ none_answered 8 h) /\
  (~ ((3 <= length h)%nat /\ none_answered 8 h) -> fst (handle_timer dflt clen st) = [SendPlain]).
Proof. exact @plain_timer_reset_iff. Qed.

(* A plain source whose every request is answered usably before the next timer
   is never reset or demobilised, whatever else arrives in between. *)
Theorem C11_never_reset_if_answering : forall (C : Type) (dflt : C) (clen : C -> Z)
    (evs : list (event C)),
  prompt false evs ->
  forall o, In o (run dflt clen (src_new dflt false) evs) -> existsb is_reset (fst o) = false.
Proof. exact @prompt_never_reset. Qed.

(* non-vacuity: three unanswered polls -> Reset at the fourth timer; one answer,
   then eight unanswered polls -> Reset at the ninth; with a DENY in between ->
   Demobilize; the register reads 0b00000100 two polls after an answer *)
Example C11_nonvacuous :
  let out evs := map (fun o => fst o) (run tc_dflt tc_len (src_new tc_dflt false) evs) in
  out [E_timer; E_timer; E_timer; E_timer] = [[SendPlain]; [SendPlain]; [SendPlain]; [Reset]]
  /\ nth 9 (out ([E_timer; E_usable []] ++ repeat E_timer 9)) [] = [SendPlain]
  /\ nth 10 (out ([E_timer; E_usable []] ++ repeat E_timer 9)) [] = [Reset]
  /\ nth 11 (out ([E_timer; E_usable []; E_timer; E_deny] ++ repeat E_timer 8)) [] = [Demobilize]
  /\ reach (final tc_dflt tc_len (src_new tc_dflt false) [E_timer; E_usable []; E_timer; E_timer]) = 4
  /\ prompt false [E_timer; E_other; E_usable []; E_timer; E_usable []; E_deny].
Proof. vm_compute. repeat split. Qed.

Print Assumptions C11_reach_abs.
Print Assumptions C11_bits_are_marks.
Print Assumptions C11_reset_conditions.
Print Assumptions C11_reset.
Print Assumptions C11_nothing_further.
Print Assumptions C11_deny_flag.
Print Assumptions C11_plain_timer.
Print Assumptions C11_never_reset_if_answering.
