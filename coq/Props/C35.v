(* C35  Pool sources are distinct, bounded and respect the ignore list.
   Property theorems only; proofs are in Proofs/Pool.v.

   Model: Model/Pool.v, the PoolSpawner of ntpd/src/daemon/spawn/pool.rs WITH the repair of
   branch fix-c35 (an address taken from known_ips that already has an active source is skipped).
   A history is any list of operations  TrySpawn dns  (one spawn round; [dns] is what lookup_host
   would answer in that round: None = error, Some l = any list, with duplicates, overlaps, ignored
   addresses)  and  Removed id reason  (any id, any reason, any order).  [trace c ops] is what is
   observable from outside: the SpawnEvents sent and the removal notifications received, in
   order; [active t] is the set of sources created and not yet removed after the events [t],
   computed from the trace alone.  All statements hold after EVERY prefix of the trace, i.e. also
   between two SpawnEvents of the same spawn round. *)
From V Require Import Model.Pool Proofs.Pool.

(* never more active sources than the configured count *)
Theorem C35_bounded : forall c ops t1 t2,
  trace c ops = t1 ++ t2 -> (length (active t1) <= count c)%nat.
Proof. exact pool_bounded. Qed.

(* never two active sources for the same server address (ip and port) *)
Theorem C35_distinct : forall c ops t1 t2,
  trace c ops = t1 ++ t2 -> NoDup (cur_addrs (active t1)).
Proof. exact pool_distinct. Qed.

(* never a source created for an ignored address *)
Theorem C35_no_ignored : forall c ops i a,
  In (Spawned i a) (trace c ops) -> ~ In (fst a) (ignore c).
Proof. exact pool_no_ignored_event. Qed.

(* the three together, as one invariant over all prefixes *)
Theorem C35_always_safe : forall c ops, always (Safe c) (trace c ops) [].
Proof. exact pool_always_safe. Qed.

(* the spawner's own bookkeeping (current_sources) is exactly the active set of the trace, and
   is_complete reports exactly "count reached" *)
Theorem C35_state_is_active : forall c ops,
  current (fst (exec c ops pool0)) = active (trace c ops).
Proof. exact pool_state_is_active. Qed.

Theorem C35_complete_iff : forall c ops,
  let st := fst (exec c ops pool0) in
  is_complete c st = true <-> length (active (trace c ops)) = count c.
Proof. exact pool_complete_iff. Qed.

(* The system processes the SpawnEvents later and removes sources before the spawner hears of
   it: its set of active sources is a filtered sub-list of [active t1] for the prefix t1 ending
   with the last event it processed; the three requirements survive filtering. *)
Theorem C35_system_view : forall c act g, Safe c act -> Safe c (filter g act).
Proof. exact Safe_filter. Qed.

(* The code before the repair (same model, loop without the membership test) violates
   distinctness: count = 2 and the DNS answer [A; A].  This is the finding replayed by the check
   on a tree without fix-c35. *)
Theorem C35_distinct_refuted_before_fix :
  exists c ops, ~ NoDup (cur_addrs (active (trace_unrepaired c ops))).
Proof. exact pool_unrepaired_not_distinct. Qed.

(* NTS pool (nts_pool.rs), PARTIAL.  The TCP connection, the TLS key exchange and the resolution
   of the server named by the key exchange are oracle outcomes per loop iteration of try_spawn.
   Proved: never more than count sources and never two sources with the same remote name (the key
   the code uses: the SRV record name or else the server name returned by the key exchange).
   Tie (harness/ntpd/c35n.rs): the real NtsPoolSpawner against real key exchange servers on
   loopback ports whose behaviour per connection is scripted; compared with run_nts (no SRV
   resolution: the script is the list of oracle outcomes) and run_srv (SRV resolution: the
   scripted queue known_resolutions determines the outcomes through the model of lookup(),
   srv_lookup / srv_outcomes); the two theorems after this one say that these functions run the
   very nts_exec of this theorem.
   What is missing, hence _partial: the C35 statement speaks of server ADDRESSES; that two
   different remote names do not resolve to the same socket address is NOT proved, and is not
   enforced by the code: the harness observes runs of the real spawner with two current sources
   at one socket address (the names "localhost" and "127.0.0.1"; two SRV names whose servers
   name the same NTP server).  The NTS pool configuration has no ignore list.  Not covered by the
   tie: the DNS / SRV lookup itself (resolve_ke) and queue entries left over from a previous
   round (the harness replaces the queue before every round). *)
Theorem C35_nts_pool_bounded_distinct_names_partial : forall n ops,
  let cur := ncurrent (nts_exec n ops (mkntspool [] 0)) in
  (length cur <= n)%nat /\ NoDup (map snd cur).
Proof. exact nts_pool_safe_from_start. Qed.

(* the functions the implementation is compared with end with the encoding (nts_final) of the
   state the previous theorem speaks about: for the same history (no SRV resolution), and for the
   history of oracle outcomes the scripted resolution queues determine (SRV resolution) *)
Theorem C35_nts_tie_runs_the_model : forall n ops,
  exists pre, run_nts (n, ops) = pre ++ nts_final (nts_exec n ops (mkntspool [] 0)).
Proof. exact run_nts_final. Qed.

Theorem C35_nts_srv_tie_runs_the_model : forall n ops,
  exists pre, run_srv (n, ops)
              = pre ++ nts_final (nts_exec n (srv_to_nts n ops (mkntspool [] 0)) (mkntspool [] 0)).
Proof. exact run_srv_final. Qed.

(* non-vacuity: count 2, ignore ip 3; answer [A;A;C(ignored);B]: sources on B then A (popped from
   the end), the second A stays in known_ips; after B is removed the next round finds that A
   (enough known addresses, so no lookup), skips it, and spawns nothing; the round after that
   resolves again ([A;B]) and refills with B *)
Example C35_nonvacuous :
  let c := mkcfg 2 [3] in
  let ops := [TrySpawn (Some [(1,123); (1,123); (3,123); (2,123)]); Removed 0 NetworkIssue;
              TrySpawn (Some [(1,123); (2,123)]); TrySpawn (Some [(1,123); (2,123)])] in
  trace c ops = [Spawned 0 (2,123); Spawned 1 (1,123); Gone 0; Spawned 2 (2,123)]
  /\ active (trace c ops) = [(1, (1,123)); (2, (2,123))]
  /\ trace_unrepaired c [TrySpawn (Some [(1,123); (1,123)])] = [Spawned 0 (1,123); Spawned 1 (1,123)].
Proof. vm_compute. repeat split. Qed.

Example C35_nonvacuous_nts :
  ncurrent (nts_exec 2 [NtsTrySpawn [KeOk None 7 true; KeOk None 7 true]; NtsTrySpawn [KeTimeout]; NtsTrySpawn [KeOk (Some 8) 7 true]]
                     (mkntspool [] 0)) = [(0, 7); (1, 8)].
Proof. vm_compute. reflexivity. Qed.

(* SRV resolution, count 3: the second resolution (SRV name 20002) is answered by the same NTP
   server 7 as the first: a second source (the key is the SRV name); the third resolution carries
   the name of the first source and is skipped without using up a loop iteration; the fourth has
   no SRV name and its answer names server 7: filed under 7; the closed port ends the queue *)
Example C35_nonvacuous_nts_srv :
  run_srv (3%nat, [SrvTrySpawn [(Some 20001, SbOk 7 true); (Some 20002, SbOk 7 true); (Some 20001, SbOk 8 true);
                                (None, SbOk 7 true); (None, SbRefused)]])
  = [3; 3; 0; 20001; 1; 20002; 2; 7; 1; 1; 3; 0; 20001; 1; 20002; 2; 7].
Proof. vm_compute. reflexivity. Qed.

Print Assumptions C35_bounded.
Print Assumptions C35_distinct.
Print Assumptions C35_no_ignored.
Print Assumptions C35_always_safe.
Print Assumptions C35_state_is_active.
Print Assumptions C35_complete_iff.
Print Assumptions C35_system_view.
Print Assumptions C35_distinct_refuted_before_fix.
Print Assumptions C35_nts_pool_bounded_distinct_names_partial.
Print Assumptions C35_nts_tie_runs_the_model.
Print Assumptions C35_nts_srv_tie_runs_the_model.
