(* C35  Pool sources are distinct, bounded and respect the ignore list.
   Property theorems only; proofs are in Proofs/Pool.v.

   Model: Model/Pool.v, the PoolSpawner of ntpd/src/daemon/spawn/pool.rs WITH the repair of
   branch fix-c35 (an address taken from known_ips that already has an active source is skipped).
   A history is any list of operations  TrySpawn dns  (one spawn round; [dns] is what lookup_host
   would answer in that round: None = error, Some l = any list, with duplicates, overlaps, ignored
   addresses)  and  Removed id reason  (any id, any reason, any order).  [trace c ops] is what is
   observable from outside: the SpawnEvents sent and the removal notifications received, in
   order; [active t] is the set of sources created and not yet removed after the events [t],
   computed from the trace alone.  All statements hold after EVERY prefix of the trace, i.e. also
   between two SpawnEvents of the same spawn round. *)
From V Require Import Model.Pool Proofs.Pool.

(* never more active sources than the configured count *)
Theorem C35_bounded : forall c ops t1 t2,
  trace c ops = t1 ++ t2 -> (length (active t1) <= count c)%nat.
Proof. exact pool_bounded. Qed.

(* never two active sources for the same server address (ip and port) *)
Theorem C35_distinct : forall c ops t1 t2,
  trace c ops = t1 ++ t2 -> NoDup (cur_addrs (active t1)).
Proof. exact pool_distinct. Qed.

(* never a source created for an ignored address *)
Theorem C35_no_ignored : forall c ops i a,
  In (Spawned i a) (trace c ops) -> ~ In (fst a) (ignore c).
Proof. exact pool_no_ignored_event. Qed.

(* the three together, as one invariant over all prefixes *)
Theorem C35_always_safe : forall c ops, always (Safe c) (trace c ops) [].
Proof. exact pool_always_safe. Qed.

(* the spawner's own bookkeeping (current_sources) is exactly the active set of the trace, and
   is_complete reports exactly "count reached" *)
Theorem C35_state_is_active : forall c ops,
  current (fst (exec c ops pool0)) = active (trace c ops).
Proof. exact pool_state_is_active. Qed.

Theorem C35_complete_iff : forall c ops,
  let st := fst (exec c ops pool0) in
  is_complete c st = true <-> length (active (trace c ops)) = count c.
Proof. exact pool_complete_iff. Qed.

(* The system processes the SpawnEvents later and removes sources before the spawner hears of
   it: its set of active sources is a filtered sub-list of [active t1] for the prefix t1 ending
   with the last event it processed; the three requirements survive filtering. *)
Theorem C35_system_view : forall c act g, Safe c act -> Safe c (filter g act).
Proof. exact Safe_filter. Qed.

(* The code before the repair (same model, loop without the membership test) violates
   distinctness: count = 2 and the DNS answer [A; A].  This is the finding replayed by the check
   on a tree without fix-c35. *)
Theorem C35_distinct_refuted_before_fix :
  exists c ops, ~ NoDup (cur_addrs (active (trace_unrepaired c ops))).
Proof. exact pool_unrepaired_not_distinct. Qed.

(* NTS pool (nts_pool.rs).  Model: the NtsPoolSpawner WITH the repair of branch fix-c35-nts (the
   resolved socket address is kept per source; a key exchange result whose resolved address
   already has a source is skipped).  The TCP connection, the TLS key exchange and the resolution
   of the server named by the key exchange are oracle outcomes per loop iteration of try_spawn:
   any outcome, any name, any resolved address ([ops] is any history of such rounds and of
   removals of any id).  Proved: never more than count sources, never two sources with the same
   remote name (the SRV record name or else the server name returned by the key exchange) and
   never two sources with the same socket address.  The NTS pool configuration has no ignore
   list.
   Tie (harness/ntpd/c35n.rs): the real NtsPoolSpawner against real key exchange servers on
   loopback ports whose behaviour per connection is scripted; compared with run_nts (no SRV
   resolution: the script is the list of oracle outcomes) and run_srv (SRV resolution: the
   scripted queue known_resolutions determines the outcomes through the model of lookup(),
   srv_lookup / srv_outcomes); the two theorems after the next one say that these functions run
   the very nts_exec of this theorem.  Not covered by the tie: the DNS / SRV lookup itself
   (resolve_ke) and queue entries left over from a previous round (the harness replaces the queue
   before every round). *)
Theorem C35_nts_pool_bounded_distinct : forall n ops,
  let cur := ncurrent (nts_exec n ops (mkntspool [] 0)) in
  (length cur <= n)%nat /\ NoDup (nnames cur) /\ NoDup (naddrs cur).
Proof. exact nts_pool_safe_from_start. Qed.

(* The code before the repair (same model, loop without the address test) violates address
   distinctness: count = 2 and two key exchanges that name different servers resolving to one
   socket address.  This is the finding (class C35-nts-pool-same-address) the check reports on a
   tree without fix-c35-nts. *)
Theorem C35_nts_pool_distinct_refuted_before_fix :
  exists n ops, ~ NoDup (naddrs (ncurrent (nts_exec_unrepaired n ops (mkntspool [] 0)))).
Proof. exact nts_pool_unrepaired_not_distinct. Qed.

(* the functions the implementation is compared with end with the encoding (nts_final) of the
   state C35_nts_pool_bounded_distinct speaks about: for the same history (no SRV resolution), and for the
   history of oracle outcomes the scripted resolution queues determine (SRV resolution) *)
Theorem C35_nts_tie_runs_the_model : forall n ops,
  exists pre, run_nts (n, ops) = pre ++ nts_final (nts_exec n ops (mkntspool [] 0)).
Proof. exact run_nts_final. Qed.

Theorem C35_nts_srv_tie_runs_the_model : forall n ops,
  exists pre, run_srv (n, ops)
              = pre ++ nts_final (nts_exec n (srv_to_nts n ops (mkntspool [] 0)) (mkntspool [] 0)).
Proof. exact run_srv_final. Qed.

(* non-vacuity: count 2, ignore ip 3; answer [A;A;C(ignored);B]: sources on B then A (popped from
   the end), the second A stays in known_ips; after B is removed the next round finds that A
   (enough known addresses, so no lookup), skips it, and spawns nothing; the round after that
   resolves again ([A;B]) and refills with B *)
Example C35_nonvacuous :
  let c := mkcfg 2 [3] in
  let ops := [TrySpawn (Some [(1,123); (1,123); (3,123); (2,123)]); Removed 0 NetworkIssue;
              TrySpawn (Some [(1,123); (2,123)]); TrySpawn (Some [(1,123); (2,123)])] in
  trace c ops = [Spawned 0 (2,123); Spawned 1 (1,123); Gone 0; Spawned 2 (2,123)]
  /\ active (trace c ops) = [(1, (1,123)); (2, (2,123))]
  /\ trace_unrepaired c [TrySpawn (Some [(1,123); (1,123)])] = [Spawned 0 (1,123); Spawned 1 (1,123)].
Proof. vm_compute. repeat split. Qed.

Example C35_nonvacuous_nts :
  ncurrent (nts_exec 3 [NtsTrySpawn [KeOk None 7 (Some 70); KeOk None 7 (Some 70); KeOk None 9 (Some 70)];
                        NtsTrySpawn [KeTimeout]; NtsTrySpawn [KeOk (Some 8) 7 (Some 71); KeOk None 6 None]]
                     (mkntspool [] 0)) = [(0, (7, 70)); (1, (8, 71))].
Proof. vm_compute. reflexivity. Qed.

(* SRV resolution, count 3: the second resolution (SRV name 20002) is answered by the same NTP
   server 7 (address 70) as the first: skipped by the address test (a loop iteration is used up);
   the third resolution carries the name of the first source and is dropped by lookup() without
   using up a loop iteration; the fourth has no SRV name and its answer names server 8: filed
   under 8 in the third and last iteration; the closed port that ends the queue is left (1) *)
Example C35_nonvacuous_nts_srv :
  run_srv (3%nat, [SrvTrySpawn [(Some 20001, SbOk 7 (Some 70)); (Some 20002, SbOk 7 (Some 70)); (Some 20001, SbOk 9 (Some 90));
                                (None, SbOk 8 (Some 80)); (None, SbRefused)]])
  = [3; 2; 0; 20001; 70; 1; 8; 80; 0; 1; 2; 0; 20001; 70; 1; 8; 80].
Proof. vm_compute. reflexivity. Qed.

Print Assumptions C35_bounded.
Print Assumptions C35_distinct.
Print Assumptions C35_no_ignored.
Print Assumptions C35_always_safe.
Print Assumptions C35_state_is_active.
Print Assumptions C35_complete_iff.
Print Assumptions C35_system_view.
Print Assumptions C35_distinct_refuted_before_fix.
Print Assumptions C35_nts_pool_bounded_distinct.
Print Assumptions C35_nts_pool_distinct_refuted_before_fix.
Print Assumptions C35_nts_tie_runs_the_model.
Print Assumptions C35_nts_srv_tie_runs_the_model.
