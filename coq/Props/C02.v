(* C02  Frequency corrections stay within the configured maximum.
   Property theorems only; proofs are in Proofs/ControllerFreq.v (Flocq bridge
   to Coq's primitive binary64 floats), the model in Model/Controller.v.

   Histories, configurations and states are those of Props/C01.v: any list of
   controller operations with arbitrary f64 estimates / requests (NaN,
   infinities, subnormals included), any configuration, ANY starting state --
   in particular any freq_offset, i.e. any frequency reported by the kernel at
   startup.  All comparisons are the hardware comparisons of binary64
   ([PrimFloat.leb] = Rust `<=`), so "f <= M" below is literally what a Rust
   `assert!(f <= M)` would test.

   [freq_in_range c f]: f is NaN, or -M <= f and f <= M for
   M = maximum_frequency_steer. *)
From V Require Import Model.TimeTypes Model.Controller Proofs.Controller Proofs.ControllerFreq.
From Coq Require Import Floats.
Open Scope Z_scope.

(* f64::clamp as the code uses it: NaN goes to NaN, every other argument lands in [lo, hi] *)
Theorem C02_clamp_range : forall x lo hi r,
  f_clamp x lo hi = Ok r ->
  (f_is_nan x = true /\ f_is_nan r = true) \/
  (f_is_nan x = false /\ PrimFloat.leb lo r = true /\ PrimFloat.leb r hi = true).
Proof. exact clamp_range. Qed.

(* its `assert!(min <= max)` fires exactly when not (lo <= hi): for lo = -M, hi = M that is
   M negative or NaN -- not a configuration "with positive limits"; the model then says Panic *)
Theorem C02_clamp_panic_iff : forall x lo hi,
  (exists p, f_clamp x lo hi = Panic p) <-> PrimFloat.leb lo hi = false.
Proof. exact clamp_panic_iff. Qed.

(* Every frequency the controller applies (every set_frequency argument of every history,
   from any starting state, under any configuration) is NaN or lies within +-M.  No hypothesis
   on the kernel frequency: the first applied value is already a clamp output. *)
Theorem C02_set_frequency : forall ar c ops s,
  Forall (freq_in_range c) (freqs_of (fst (run ar c s ops))).
Proof. exact run_freqs_in_range. Qed.

(* The state variable freq_offset is the kernel's value until the first set_frequency and a
   clamp output (hence in range) from then on. *)
Theorem C02_freq_offset_state : forall ar c ops s s',
  snd (run ar c s ops) = Ok s' ->
  (freqs_of (fst (run ar c s ops)) = [] /\ freq_offset s' = freq_offset s) \/
  (freqs_of (fst (run ar c s ops)) <> [] /\ clamped c (freq_offset s')).
Proof. exact run_freq_offset. Qed.

(* NaN is applied only if the clamp argument (1+f)(1+c)-1 was NaN (C02_clamp_range, first
   disjunct).  PARTIAL: that this argument is not NaN whenever the applied frequency f is in
   range with M < 1 and the requested change c is not NaN (1+f is then finite and non-zero, so
   the product can only be NaN through c) is NOT proved here; the correspondence sweeps it
   (monitor: NaN applied although no input of the history was NaN). *)

(* f64::min with a non-NaN first operand never exceeds it (a NaN second operand is ignored) *)
Theorem C02_min_bound : forall s q,
  f_is_nan s = false -> PrimFloat.leb (f_min s q) s = true.
Proof. exact min_bound. Qed.

(* Every slew: the frequency chosen is at most slew_maximum_frequency_offset, whatever the
   request and the minimum duration ... *)
Theorem C02_slew_frequency : forall c ch,
  f_is_nan (c_slew_max c) = false ->
  PrimFloat.leb (slew_freq c ch) (c_slew_max c) = true.
Proof. exact slew_freq_bound. Qed.

(* ... a slew is started only for a non-NaN request, with desired_freq = -freq * signum(request),
   signum(request) = +-1.0 ... *)
Theorem C02_slew_partial : forall ar c s ch fd cs s',
  PrimFloat.ltb (c_step_threshold c) (PrimFloat.abs ch) = false ->
  steer_offset ar c s ch fd = (cs, Ok s') ->
  desired_freq s' = PrimFloat.mul (PrimFloat.opp (slew_freq c ch)) (f_signum ch) /\
  f_is_nan ch = false.
Proof. exact slew_started. Qed.
(* PARTIAL: the full statement |desired_freq| <= slew_max additionally needs that multiplying by
   +-1.0 is exact and that freq >= 0 (|request| / duration >= 0 for a positive duration and a
   non-negative slew_max); both are IEEE facts not proved here; the correspondence compares
   desired_freq bit for bit and the monitor checks |desired_freq| <= slew_max on every run. *)

(* ... and time_update ends it. *)
Theorem C02_slew_ends : forall c s cs s',
  change_desired_frequency c s fzero fzero = (cs, Ok s') -> desired_freq s' = fzero.
Proof. exact time_update_ends_slew. Qed.

(* non-vacuity: a kernel frequency far outside the limit, a huge request and an infinite one are
   all clamped to +-M; a slew above and one below slew_max *)
Example C02_nonvacuous :
  let c := witness_cfg in
  let s := init_st 0.25%float in
  freqs_of (fst (run repo_arith c s [SteerFreq 1e-9%float; SteerFreq (-3)%float; SteerFreq infinity]))
    = [c_max_freq c; PrimFloat.opp (c_max_freq c); c_max_freq c] /\
  slew_freq c 0.009%float = c_slew_max c /\
  PrimFloat.ltb (slew_freq c 0.0001%float) (c_slew_max c) = true /\
  (exists cs s', steer_offset repo_arith c s 0.009%float 0%float = (cs, Ok s') /\
                 desired_freq s' = PrimFloat.opp (c_slew_max c)).
Proof.
  vm_compute. repeat split. eexists. eexists. split; reflexivity.
Qed.

Print Assumptions C02_clamp_range.
Print Assumptions C02_clamp_panic_iff.
Print Assumptions C02_set_frequency.
Print Assumptions C02_freq_offset_state.
Print Assumptions C02_min_bound.
Print Assumptions C02_slew_frequency.
Print Assumptions C02_slew_partial.
Print Assumptions C02_slew_ends.
