(* C02  Frequency corrections stay within the configured maximum.
   Property theorems only; proofs are in Proofs/ControllerFreq.v (Flocq bridge
   to Coq's primitive binary64 floats), the model in Model/Controller.v.

   Histories, configurations and states are those of Props/C01.v: any list of
   controller operations with arbitrary f64 estimates / requests (NaN,
   infinities, subnormals included), any configuration, ANY starting state --
   in particular any freq_offset, i.e. any frequency reported by the kernel at
   startup.  All comparisons are the hardware comparisons of binary64
   ([PrimFloat.leb] = Rust `<=`), so "f <= M" below is literally what a Rust
   `assert!(f <= M)` would test.

   [freq_in_range c f]: f is NaN, or -M <= f and f <= M for
   M = maximum_frequency_steer. *)
From V Require Import Model.TimeTypes Model.Controller Proofs.Controller Proofs.ControllerFreq
  Proofs.ControllerNan.
From Coq Require Import Floats List.
Import ListNotations.
Open Scope Z_scope.

(* f64::clamp as the code uses it: NaN goes to NaN, every other argument lands in [lo, hi] *)
Theorem C02_clamp_range : forall x lo hi r,
  f_clamp x lo hi = Ok r ->
  (f_is_nan x = true /\ f_is_nan r = true) \/
  (f_is_nan x = false /\ PrimFloat.leb lo r = true /\ PrimFloat.leb r hi = true).
Proof. exact clamp_range. Qed.

(* its `assert!(min <= max)` fires exactly when not (lo <= hi): for lo = -M, hi = M that is
   M negative or NaN -- not a configuration "with positive limits"; the model then says Panic *)
Theorem C02_clamp_panic_iff : forall x lo hi,
  (exists p, f_clamp x lo hi = Panic p) <-> PrimFloat.leb lo hi = false.
Proof. exact clamp_panic_iff. Qed.

(* Every frequency the controller applies (every set_frequency argument of every history,
   from any starting state, under any configuration) is NaN or lies within +-M.  No hypothesis
   on the kernel frequency: the first applied value is already a clamp output. *)
Theorem C02_set_frequency : forall ar c ops s,
  Forall (freq_in_range c) (freqs_of (fst (run ar c s ops))).
Proof. exact run_freqs_in_range. Qed.

(* The state variable freq_offset is the kernel's value until the first set_frequency and a
   clamp output (hence in range) from then on. *)
Theorem C02_freq_offset_state : forall ar c ops s s',
  snd (run ar c s ops) = Ok s' ->
  (freqs_of (fst (run ar c s ops)) = [] /\ freq_offset s' = freq_offset s) \/
  (freqs_of (fst (run ar c s ops)) <> [] /\ clamped c (freq_offset s')).
Proof. exact run_freq_offset. Qed.

(* ---- no NaN is ever applied ------------------------------------------------------------
   Vocabulary (Proofs/ControllerNan.v), all hardware comparisons:
     f_finite x   := |x| < inf                                   (Rust x.is_finite())
     freq_ok s    := f_finite (freq_offset s) /\ -1 < freq_offset s      (the kernel frequency)
     slew_ok c s  := |desired_freq s| <= slew_max                 (true of init_st: desired_freq = 0)
     slew_cfg c   := 0 <= slew_max /\ 0 < slew_minimum_duration   (+inf allowed for both)
     nan_cfg c    := 0 < M /\ M < 1 /\ slew_cfg c /\ f_finite slew_max /\ f_finite steer_frequency_leftover
     op_ok c o    := SteerFreq ch: ch not NaN (+-inf allowed);  SteerOffset ch fd: fd finite (ch arbitrary);
                     Update (Some e): e_p11 finite and |e_freq| + slew_max < inf (float addition; true for
                     every finite e_freq as soon as slew_max <= 2^970); nothing for TimeUpdate/Update None.
     freq_within c f := f not NaN /\ -M <= f /\ f <= M.
   The other configuration fields (step_threshold, the offset thresholds/leftover, steer_frequency_threshold,
   the panic thresholds) and the offset part of an estimate are unconstrained (NaN, inf, negative included). *)

(* the clamp argument (1+f)(1+c)-1: not NaN for a finite f above -1 and a non-NaN c.  1+f is finite (no overflow
   for any finite f) and non-zero, so the product can only be NaN through c; inf - 1 = inf. *)
Theorem C02_clamp_arg_not_nan : forall f c,
  f_finite f = true -> PrimFloat.ltb (-1)%float f = true -> f_is_nan c = false ->
  f_is_nan (PrimFloat.sub (PrimFloat.mul (PrimFloat.add fone f) (PrimFloat.add fone c)) fone) = false.
Proof. exact arg_nn. Qed.

(* Every history: every set_frequency argument is a number (not NaN) within +-M, and (second conjunct of
   freq_ok preserved) the controller never leaves the finite frequencies above -1. *)
Theorem C02_no_nan : forall ar c ops s,
  nan_cfg c -> freq_ok s -> slew_ok c s -> Forall (op_ok c) ops ->
  Forall (freq_within c) (freqs_of (fst (run ar c s ops))).
Proof. exact run_freqs_within. Qed.

(* The hypothesis |e_freq| + slew_max < inf of op_ok cannot be dropped: "every input finite, every configuration
   value finite and positive, M < 1, kernel frequency 0" is NOT enough.  With slew_max = 1e308,
   steer_frequency_leftover = 1e200: a slew request of 1.5e308 s sets desired_freq = -1e308; a consensus update
   with frequency estimate 1e308, frequency variance 1e300 then forms freq_delta = 1e308 - (-1e308) = +inf and
   sqrt(1e300) * 1e200 = +inf, and requests inf - inf = NaN: set_frequency(NaN).  (Only this double overflow
   can produce a NaN: C02_no_nan.)  The same inputs on the implementation (harness/ntp-proto/c02.rs,
   reports/K1_C02_nan_witness.json) give set_frequency(NaN) as well. *)
Theorem C02_no_nan_refuted :
  exists c f0 ops,
    forallb f_finite (cfg_floats c) = true /\
    forallb (PrimFloat.ltb 0%float) (cfg_floats c) = true /\
    PrimFloat.ltb (c_max_freq c) 1%float = true /\
    f_finite f0 = true /\ PrimFloat.ltb (-1)%float f0 = true /\
    forallb f_finite (flat_map op_floats ops) = true /\
    existsb f_is_nan (freqs_of (fst (run repo_arith c (init_st f0) ops))) = true.
Proof. exact no_nan_refuted. Qed.

(* f64::min with a non-NaN first operand never exceeds it (a NaN second operand is ignored) *)
Theorem C02_min_bound : forall s q,
  f_is_nan s = false -> PrimFloat.leb (f_min s q) s = true.
Proof. exact min_bound. Qed.

(* Every slew: the frequency chosen is at most slew_maximum_frequency_offset, whatever the
   request and the minimum duration ... *)
Theorem C02_slew_frequency : forall c ch,
  f_is_nan (c_slew_max c) = false ->
  PrimFloat.leb (slew_freq c ch) (c_slew_max c) = true.
Proof. exact slew_freq_bound. Qed.

(* ... a slew is started only for a non-NaN request, with desired_freq = -freq * signum(request),
   signum(request) = +-1.0 ... *)
Theorem C02_slew_desired : forall ar c s ch fd cs s',
  PrimFloat.ltb (c_step_threshold c) (PrimFloat.abs ch) = false ->
  steer_offset ar c s ch fd = (cs, Ok s') ->
  desired_freq s' = PrimFloat.mul (PrimFloat.opp (slew_freq c ch)) (f_signum ch) /\
  f_is_nan ch = false.
Proof. exact slew_started. Qed.
(* ... whose magnitude is the slew frequency (multiplying by +-1.0 and negating are exact) ... *)
Theorem C02_slew_exact : forall fr ch, f_is_nan ch = false ->
  PrimFloat.abs (PrimFloat.mul (PrimFloat.opp fr) (f_signum ch)) = PrimFloat.abs fr.
Proof. exact desired_abs. Qed.

(* ... which lies in [0, slew_max] under positive slew limits (|change| / duration has its sign bit clear or is
   NaN, and f64::min ignores the NaN) ... *)
Theorem C02_slew_frequency_abs : forall c ch,
  PrimFloat.leb 0%float (c_slew_max c) = true -> PrimFloat.ltb 0%float (c_slew_min_dur c) = true ->
  PrimFloat.leb (PrimFloat.abs (slew_freq c ch)) (c_slew_max c) = true.
Proof. exact slew_freq_abs. Qed.

(* ... so every slew started leaves |desired_freq| <= slew_max: for the single call from any state ... *)
Theorem C02_slew_started_bound : forall ar c s ch fd cs s',
  slew_cfg c ->
  PrimFloat.ltb (c_step_threshold c) (PrimFloat.abs ch) = false ->
  steer_offset ar c s ch fd = (cs, Ok s') ->
  slew_ok c s'.
Proof. exact slew_started_bound. Qed.

(* ... and along every history (any operations, estimates and requests, NaN/inf included): every state an
   operation starts in, and the final state, satisfy |desired_freq| <= slew_max.  Hypotheses: positive slew
   limits only (0 <= slew_max, 0 < slew_minimum_duration; a duration of -0.0 or below gives freq = -inf). *)
Theorem C02_slew_bound : forall ar c ops s,
  slew_cfg c -> slew_ok c s ->
  Forall (fun x => slew_ok c (fst x)) (fst (trace ar c s ops)) /\
  (forall s', snd (run ar c s ops) = Ok s' -> slew_ok c s').
Proof. exact slew_bound_all. Qed.

(* ... and time_update ends it. *)
Theorem C02_slew_ends : forall c s cs s',
  change_desired_frequency c s fzero fzero = (cs, Ok s') -> desired_freq s' = fzero.
Proof. exact time_update_ends_slew. Qed.

(* non-vacuity: a kernel frequency far outside the limit, a huge request and an infinite one are
   all clamped to +-M; a slew above and one below slew_max *)
Example C02_nonvacuous :
  let c := witness_cfg in
  let s := init_st 0.25%float in
  freqs_of (fst (run repo_arith c s [SteerFreq 1e-9%float; SteerFreq (-3)%float; SteerFreq infinity]))
    = [c_max_freq c; PrimFloat.opp (c_max_freq c); c_max_freq c] /\
  slew_freq c 0.009%float = c_slew_max c /\
  PrimFloat.ltb (slew_freq c 0.0001%float) (c_slew_max c) = true /\
  (exists cs s', steer_offset repo_arith c s 0.009%float 0%float = (cs, Ok s') /\
                 desired_freq s' = PrimFloat.opp (c_slew_max c)).
Proof.
  vm_compute. repeat split. eexists. eexists. split; reflexivity.
Qed.

(* non-vacuity of C02_no_nan / C02_slew_bound: the default-like configuration, a kernel frequency of 10 ppm,
   a history with a frequency steer, a slew at slew_max, a consensus update during the slew, the end of the slew
   and two infinite requests satisfy the hypotheses; six frequencies are applied, the last two are the limits *)
Example C02_nonvacuous_no_nan :
  let c := witness_cfg in
  let s := init_st 0.00001%float in
  nan_cfg c /\ slew_cfg c /\ freq_ok s /\ slew_ok c s /\ Forall (op_ok c) nv_ops /\
  length (freqs_of (fst (run repo_arith c s nv_ops))) = 6%nat /\
  skipn 4 (freqs_of (fst (run repo_arith c s nv_ops))) = [c_max_freq c; PrimFloat.opp (c_max_freq c)] /\
  (exists s1, snd (run repo_arith c s (firstn 2 nv_ops)) = Ok s1 /\
              desired_freq s1 = PrimFloat.opp (c_slew_max c)).
Proof.
  vm_compute. repeat split; repeat constructor. eexists. split; reflexivity.
Qed.

Print Assumptions C02_clamp_range.
Print Assumptions C02_clamp_panic_iff.
Print Assumptions C02_set_frequency.
Print Assumptions C02_freq_offset_state.
Print Assumptions C02_clamp_arg_not_nan.
Print Assumptions C02_no_nan.
Print Assumptions C02_no_nan_refuted.
Print Assumptions C02_min_bound.
Print Assumptions C02_slew_frequency.
Print Assumptions C02_slew_desired.
Print Assumptions C02_slew_exact.
Print Assumptions C02_slew_frequency_abs.
Print Assumptions C02_slew_started_bound.
Print Assumptions C02_slew_bound.
Print Assumptions C02_slew_ends.
