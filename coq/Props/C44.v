(* C44  CSPTP clients survive any server traffic and only use matching answers.
   Property theorems only; proofs are in Proofs/CsptpSource.v.  The model is
   Model/CsptpSource.v over the byte-level parser models Model/CsptpMsg.v and Model/PtpWire.v:
   every datagram is a byte string, parsed by the model of CsptpMessage::deserialize. *)
From V Require Import Model.CsptpSource Proofs.CsptpSource.

(* No sequence of datagrams crashes the daemon: for every configuration (domain, whether this
   source is the active one, current CSPTP state, next sequence id) and every script of polls
   -- per poll the result of send_event and any list of receive results (errors, datagrams of
   arbitrary bytes, with or without timestamp) before the response timeout -- the poll loop of
   CsptpSource::run completes every poll without reaching a panic site. *)
Theorem C44_total : forall polls domain active cs seq,
  exists outs, run_polls domain active cs seq polls = Ok outs.
Proof. exact run_polls_ok. Qed.

(* A raw measurement comes only from a timestamped datagram of this socket that parses as a
   CSPTP Sync with the request's domain and sequence id and a valid response TLV, from which the
   request reception time, the request correction, leap flags and status are taken; for a
   two-step answer additionally from a follow-up of this socket with the same domain and
   sequence id, which supplies the send time (corrections added with saturation); for a
   one-step answer the send time is the Sync's origin timestamp. *)
Theorem C44_matching_only : forall domain reqid send_ts events r,
  collect domain reqid send_ts WaitingForResponse events = Ok (Some r) ->
  justified domain reqid send_ts events r.
Proof. exact collect_matching_only. Qed.

(* At most one measurement per request, made from that request's own traffic: the k-th poll
   yields at most one measurement (po_meas is an option; the harness checks that it reaches the
   controller as exactly one pair of handle_measurement calls), and when it does, it is computed
   from the raw measurement collected on the k-th poll's socket with the k-th sequence id (ids
   count up from the first one and wrap at 2^16), both corrected times being PTP timestamps. *)
Theorem C44_once_per_request : forall polls domain active cs seq outs,
  run_polls domain active cs seq polls = Ok outs ->
  length outs = length polls /\
  forall k p o, nth_error polls k = Some p -> nth_error outs k = Some o ->
    outcome_of domain (seq_after seq k) p o.
Proof. exact run_polls_per_request. Qed.

(* the repaired add_correction answers only with PTP timestamps (48-bit seconds, nanoseconds
   below 10^9), for every timestamp and correction whatsoever *)
Theorem C44_correction_in_range : forall ts c t,
  add_correction ts c = Some t -> 0 <= ts_secs t < 2 ^ 48 /\ 0 <= ts_nanos t < 1000000000.
Proof. exact add_correction_range. Qed.

(* non-vacuity: a one-step answer is measured; a two-step answer needs its follow-up; the
   confirmed defect input (follow-up seconds 2^48-1, +2 s correction) is collected and then
   dropped by the repaired add_correction instead of panicking *)
Definition ex_resp (two : bool) : bytes :=
  ser_header (with_flags (csptp_header 128 0) false false false false false two) 0 66
  ++ ts_ser (mkTs 60 1)
  ++ tlv_ser (Gen.ConstCsptp.TLV_CSPTP_RESPONSE, ts_ser (mkTs 50 7) ++ be 8 0).
Definition ex_fu (secs corr : Z) : bytes :=
  ser_header (mkHeader 768 2 1 128 false true true false false false false false false false false false
                       corr zero_pid 0 127) 8 44 ++ ts_ser (mkTs secs 0).
Example C44_nonvacuous :
  (exists r, collect 128 0 (mkTs 1000 0) WaitingForResponse [Datagram (ex_resp false) (Some (mkTs 70 0))] = Ok (Some r)
             /\ rm_resp_send r = mkTs 60 1)
  /\ collect 128 0 (mkTs 1000 0) WaitingForResponse [Datagram (ex_resp true) (Some (mkTs 70 0))] = Ok None
  /\ (exists r, collect 128 0 (mkTs 1000 0) WaitingForResponse
                  [Datagram (ex_resp true) (Some (mkTs 70 0)); Datagram (ex_fu (2 ^ 48 - 1) (2000000000 * 65536)) None] = Ok (Some r)
                /\ rm_resp_send r = mkTs (2 ^ 48 - 1) 0
                /\ add_correction (rm_resp_send r) (rm_resp_corr r) = None)
  /\ collect 128 1 (mkTs 1000 0) WaitingForResponse [Datagram (ex_resp false) (Some (mkTs 70 0))] = Ok None.
Proof.
  split; [eexists; split; [vm_compute; reflexivity|reflexivity]|].
  split; [vm_compute; reflexivity|].
  split; [eexists; split; [vm_compute; reflexivity|split; vm_compute; reflexivity]|].
  vm_compute; reflexivity.
Qed.

Print Assumptions C44_total.
Print Assumptions C44_matching_only.
Print Assumptions C44_once_per_request.
Print Assumptions C44_correction_in_range.
