(* C26  Server cookies are confidential, tamper-evident and rotate on schedule.
   Property theorems only; proofs are in Proofs/KeySet.v, the model of
   ntp-proto/src/keyset.rs in Model/KeySet.v.

   Every theorem is closed over the AEAD: [enc]/[dec] are universally
   quantified and the assumptions about them appear as premises
   (aead_correct, aead_sound, aead_tag16, aead_bytes: facts of AES-SIV;
   aead_key_separation and the [unforged] premise of C26_tamper: the
   idealisation "forgery probability zero").  Confidentiality proper (nothing
   about the session keys can be computed from a cookie without the server
   key) is the AEAD's and is NOT proved here. *)
From V Require Import Model.KeySet Proofs.KeySet.

(* A cookie decodes, under the key set that issued it, to exactly the session
   keys and algorithm it was made from (every key set with a valid primary
   index, every well-formed cookie, every nonce). *)
Theorem C26_roundtrip : forall (enc : enc_t) (dec : dec_t),
  aead_correct enc dec -> aead_tag16 enc ->
  forall ks c nonce, KeysOk ks -> wf_cookie c -> lenZ nonce = 16 ->
  exists b, encode_cookie enc ks c nonce = Ok b /\ decode_cookie dec ks b = Ok c.
Proof. exact roundtrip. Qed.

(* The rotation window.  Start from any key set whose primary is its newest
   key ([new_keyset], or a restored one), rotate |fs1| times, issue a cookie,
   rotate |fs2| more times with history [h] (any h, 0 included; any fresh
   keys, fewer than 2^32 keys in total): the cookie decodes to its content
   iff |fs2| <= h, and is rejected with DecryptError otherwise. *)
Theorem C26_window : forall (enc : enc_t) (dec : dec_t),
  aead_correct enc dec -> aead_tag16 enc ->
  forall (h : nat) ks0 (fs1 fs2 : list bytes) c nonce,
  newest ks0 -> wf_cookie c -> lenZ nonce = 16 ->
  lenZ (keys ks0) + lenZ fs1 + lenZ fs2 < 2 ^ 32 ->
  let ks1 := rotate_many h ks0 fs1 in
  let ks2 := rotate_many h ks1 fs2 in
  exists b, encode_cookie enc ks1 c nonce = Ok b /\
    decode_cookie dec ks2 b = if (length fs2 <=? h)%nat then Ok c else Err err_decrypt.
Proof. exact window. Qed.

(* The same for a cookie issued under any valid primary index (a restored key
   set need not have its newest key as primary): it survives exactly as long
   as the issuing key has not been dropped. *)
Theorem C26_window_any_primary : forall (enc : enc_t) (dec : dec_t),
  aead_correct enc dec -> aead_tag16 enc ->
  forall (h : nat) ks (fs : list bytes) c nonce,
  KeysOk ks -> wf_cookie c -> lenZ nonce = 16 -> lenZ (keys ks) + lenZ fs < 2 ^ 32 ->
  exists b, encode_cookie enc ks c nonce = Ok b /\
    decode_cookie dec (rotate_many h ks fs) b =
      if (match fs with
          | [] => true
          | _ => (length (keys ks) + length fs - (h + 1) <=? Z.to_nat (primary ks))%nat
          end)
      then Ok c else Err err_decrypt.
Proof. exact window_general. Qed.

(* Whatever decodes is, within its declared length, byte for byte the encoding
   under one of the current keys of exactly what it decodes to (no premise on
   the bytes presented, no idealisation). *)
Theorem C26_decodes_only_genuine : forall (enc : enc_t) (dec : dec_t),
  aead_sound enc dec -> aead_bytes dec ->
  forall ks b c, decode_cookie dec ks b = Ok c ->
  exists i k, nth_error (keys ks) i = Some k /\
    Z.of_nat i = wrap 32 (ck_id b - id_offset ks) /\
    hdr_len <= lenZ b /\ ck_len b <= lenZ (skipn (Z.to_nat hdr_len) b) /\
    dec k (ck_nonce b) [] (ck_ct b) = Some (plaintext c) /\
    ck_ct b = enc k (ck_nonce b) [] (plaintext c) /\ wf_cookie c.
Proof. exact decode_genuine. Qed.

(* Tamper evidence.  [b] is a cookie issued by [ks]; [b'] is any byte string
   that differs from [b] somewhere within [b]'s length (a modified, truncated
   or modified-and-extended cookie; its 6 header bytes are bytes).  If [b']
   carries no forged ciphertext -- i.e. whenever its ciphertext part is valid
   under a server key it is the (key, nonce, ciphertext) of [b] itself
   ([unforged], INT-CTXT for one observed cookie) -- then [b'] is rejected.
   In particular a change of the unauthenticated id or length field, or of the
   nonce, is always caught.  The keys of the set must be distinct. *)
Theorem C26_tamper : forall (enc : enc_t) (dec : dec_t),
  aead_sound enc dec -> aead_tag16 enc -> aead_bytes dec ->
  forall ks c nonce b b',
  KeysOk ks -> NoDup (keys ks) -> wf_cookie c -> lenZ nonce = 16 ->
  encode_cookie enc ks c nonce = Ok b ->
  bytes_ok (firstn 6 b') -> firstn (length b) b' <> b ->
  (forall k, nth_error (keys ks) (Z.to_nat (primary ks)) = Some k ->
     unforged dec ks [(k, nonce, enc k nonce [] (plaintext c))] b') ->
  decode_cookie dec ks b' = Err err_decrypt.
Proof. exact tamper. Qed.

(* A cookie issued under a key that is not among the current keys does not
   decode (needs the key-separation idealisation). *)
Theorem C26_foreign : forall (enc : enc_t) (dec : dec_t),
  aead_tag16 enc -> aead_key_separation enc dec ->
  forall ks ksf c nonce b,
  KeysOk ksf -> wf_cookie c -> lenZ nonce = 16 ->
  encode_cookie enc ksf c nonce = Ok b ->
  Forall bytes_ok (keys ks) -> Forall bytes_ok (keys ksf) ->
  (forall k, nth_error (keys ksf) (Z.to_nat (primary ksf)) = Some k -> ~ In k (keys ks)) ->
  decode_cookie dec ks b = Err err_decrypt.
Proof. exact foreign. Qed.

(* After every rotation the primary key is the newest key (the one just
   generated), and encode_cookie encrypts under it. *)
Theorem C26_newest_key : forall (enc : enc_t) (dec : dec_t) (h : nat) ks (fs : list bytes) f c nonce,
  lenZ (keys ks) + lenZ fs + 1 < 2 ^ 32 ->
  let ks' := rotate_many h ks (fs ++ [f]) in
  newest ks' /\ last (keys ks') [] = f /\
  encode_cookie enc ks' c nonce =
    Ok (be_enc 4 (wrap 32 (primary ks' + id_offset ks'))
        ++ be_enc 2 (wrap 16 (lenZ (enc f nonce [] (plaintext c)))) ++ nonce ++ enc f nonce [] (plaintext c)).
Proof. exact newest_key. Qed.

(* the initial key set of KeySetProvider::new is of that form too *)
Theorem C26_new_is_newest : forall k, newest (new_keyset k).
Proof. exact new_keyset_newest. Qed.

(* decode_cookie never panics and has a single error; encode_cookie panics
   exactly when [primary] does not index a key (excluded by KeysOk; this is
   the C27 defect when such a set is loaded from a file). *)
Theorem C26_decode_total : forall (enc : enc_t) (dec : dec_t) ks b,
  decode_cookie dec ks b = Err err_decrypt \/ exists c, decode_cookie dec ks b = Ok c.
Proof. exact decode_total. Qed.

Theorem C26_encode_panic_iff : forall (enc : enc_t) (dec : dec_t) ks c nonce,
  0 <= primary ks ->
  ((exists s, encode_cookie enc ks c nonce = Panic s) <-> lenZ (keys ks) <= primary ks).
Proof. exact encode_panic_iff. Qed.

(* the five AEAD hypotheses are jointly satisfiable *)
Theorem C26_hypotheses_satisfiable :
  aead_correct toy_enc toy_dec /\ aead_sound toy_enc toy_dec /\ aead_tag16 toy_enc /\
  aead_bytes toy_dec /\ aead_key_separation toy_enc toy_dec.
Proof. exact toy_aead. Qed.

(* non-vacuity: history 1, three rotations of a one-key set; the cookie issued
   after the first rotation decodes after one more rotation and not after two;
   a flipped id byte and a flipped length byte are rejected *)
Example C26_nonvacuous :
  let c := {| c_alg := 15; c_s2c := repeat 7 32; c_c2s := repeat 9 32 |} in
  let nonce := repeat 3 16 in
  let ks1 := rotate_many 1 (new_keyset [1]) [[2]] in
  match encode_cookie toy_enc ks1 c nonce with
  | Ok b =>
      decode_cookie toy_dec ks1 b = Ok c /\
      decode_cookie toy_dec (rotate_many 1 ks1 [[3]]) b = Ok c /\
      decode_cookie toy_dec (rotate_many 1 ks1 [[3]; [4]]) b = Err err_decrypt /\
      decode_cookie toy_dec ks1 (set_nth b 3 0) = Err err_decrypt /\
      decode_cookie toy_dec ks1 (set_nth b 5 81) = Err err_decrypt /\
      decode_cookie toy_dec (new_keyset [5]) b = Err err_decrypt /\
      length b = 104%nat
  | _ => False
  end.
Proof. vm_compute. repeat split. Qed.

Print Assumptions C26_roundtrip.
Print Assumptions C26_window.
Print Assumptions C26_window_any_primary.
Print Assumptions C26_decodes_only_genuine.
Print Assumptions C26_tamper.
Print Assumptions C26_foreign.
Print Assumptions C26_newest_key.
Print Assumptions C26_new_is_newest.
Print Assumptions C26_decode_total.
Print Assumptions C26_encode_panic_iff.
Print Assumptions C26_hypotheses_satisfiable.
