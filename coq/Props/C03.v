(* C03  The clock is only steered on a majority consensus of usable sources.
   Property theorems only; proofs are in Proofs/Select.v (selection) and
   Proofs/MsgLoop.v (controller level: who is a candidate, when the clock is
   steered, including the wrapper's timer path time_update).

   Vocabulary (Model/Select.v).  Every f64 is represented by the integer key
   of f64::total_cmp, so [<=] on keys is the order the code sorts by and
   fle/fgt are the IEEE comparisons of the two filters.
     voter cf c       c contributes a pair of bounds to the sweep: non-periodic,
                      synchronised, not (radius > maximum_source_uncertainty)
     qualifying cf c  synchronised and radius <= maximum_source_uncertainty
     wellformed       lo <= hi for every voter (a radius that is not negative)
     small            fewer than 2^61 candidates (a slice that fits in memory)
     nonan            neither the limit nor any radius is NaN (then a voter is
                      exactly a non-periodic qualifying candidate) *)
From V Require Import Model.Select Proofs.Select Model.MsgLoop Proofs.MsgLoop.

(* A non-empty selection (the only case in which update_clock touches the
   clock, see C03_steer_only_on_consensus) implies a consensus: there is a point
   t such that the voters whose closed interval contains t number at least
   minimum_agreeing_sources (and at least one) and are a strict majority of
   all voters. *)
Theorem C03_consensus : forall cf cands sel,
  wellformed cf cands -> small cands ->
  select cf cands = Ok sel -> sel <> [] ->
  exists t,
    let S := filter (agreeing cf t) cands in
    let V := filter (voter cf) cands in
    1 <= Z.of_nat (length S) /\
    min_agreeing cf <= Z.of_nat (length S) /\
    Z.of_nat (length V) < 2 * Z.of_nat (length S) /\
    (forall s, In s S -> In s V /\ c_lo s <= t <= c_hi s).
Proof. exact select_consensus. Qed.

(* Without NaNs the voters are exactly the non-periodic, synchronised
   candidates whose uncertainty is acceptable. *)
Theorem C03_voters_are_the_qualifying_nonperiodic : forall cf c,
  isnan (max_unc cf) = false -> isnan (c_radius c) = false ->
  voter cf c = negb (c_periodic c) && (c_sync c && fle (c_radius c) (max_unc cf)).
Proof. exact voter_qualifying. Qed.

(* Every returned snapshot is one of the candidates (the result is a
   sub-list of the candidate list), is synchronised and has an acceptable,
   non-NaN radius. *)
Theorem C03_members_qualify : forall cf cands sel,
  select cf cands = Ok sel ->
  (exists f, sel = filter f cands) /\
  forall s, In s sel ->
    In s cands /\ c_sync s = true /\ fle (c_radius s) (max_unc cf) = true /\
    isnan (c_radius s) = false.
Proof. exact select_members. Qed.

(* Unsynchronised or too uncertain candidates never contribute: removing
   them from the candidate list changes nothing in the result. *)
Theorem C03_unqualified_irrelevant : forall cf cands,
  nonan cf cands ->
  select cf (filter (qualifying cf) cands) = select cf cands.
Proof. exact select_unqualified_irrelevant. Qed.

(* With well-formed intervals the sweep is balanced: `cur -= 1` is never
   executed at 0 (no usize wrap), the sweep ends at 0 and
   assert_eq!(maxlow, maxhigh) holds, so select cannot panic. *)
Theorem C03_sweep_balanced : forall cf cands,
  wellformed cf cands -> small cands ->
  let st := sweep (sort_bounds (bounds_of cf cands)) in
  maxlow st = maxhigh st /\ underflow st = false /\ cur st = 0.
Proof. exact sweep_balanced. Qed.

Theorem C03_select_never_panics : forall cf cands,
  wellformed cf cands -> small cands ->
  forall site, select cf cands <> Panic site.
Proof. exact select_no_panic. Qed.

(* Controller level (Model/MsgLoop.v, tied to the real controller and message loop by C37's
   harness).  Whenever update_clock reaches select (handling ev after the schedule prefix pre), the
   candidates are exactly the latest snapshots of the sources that are registered, were last
   reported usable and have delivered a snapshot: unusable sources never reach the selection. *)
Theorem C03_only_usable : forall W pre ev L,
  select_input (state_after W pre) ev = Some L ->
  forall k, In k (map snap_core L) <->
            exists j, src_view (ops_of j (pre ++ [ev])) = Some (Some k, true).
Proof. exact select_input_spec. Qed.

(* The same with timer expiries in the schedule (they do not touch the source map). *)
Theorem C03_only_usable_with_timer : forall W pre ev L,
  select_input (l_ctl (tstate_after W pre)) ev = Some L ->
  forall k, In k (map snap_core L) <->
            exists j, src_view (ops_of j (msgs (pre ++ [Msg ev]))) = Some (Some k, true).
Proof. exact select_input_spec_timed. Qed.

(* A handled message makes clock calls (disable_ntp_algorithm, step_clock, set_frequency,
   error_estimate_update, status_update) only in the branch where select was reached and returned
   a non-empty selection, and reports exactly that selection as used.  (Statement about one
   handled message, any controller state; the loop with its timer is the next theorem.) *)
Theorem C03_message_calls_need_consensus : forall W c ev c' o,
  handle W c ev = (c', o) -> o_clock o <> [] ->
  exists L sel, select_input c ev = Some L /\ w_select W L = sel /\ sel <> [] /\
                o_used o = Some (map snap_id sel).
Proof. exact clock_calls_need_selection. Qed.

(* The whole loop of TimeSyncControllerWrapper::run, with its timer: for every world (selection
   function, outcome of the float comparisons of every steering decision, vote), every schedule
   [pre] of messages and timer expiries handled from the initial state, and every next event [te]:
   if handling [te] makes any clock call, then
   EITHER [te] is a source message for which select was reached and returned a non-empty
     selection, which is what is reported as used,
   OR [te] is the expiry of the wrapper's timer (time_update), the only call is ONE
     set_frequency (code 5: change_desired_frequency(0.0, 0.0) ends the slew), no sources are
     reported, the timer is not re-armed, a slew was in progress (desired_freq != 0) and is over
     afterwards, and that slew was started under a consensus: the schedule contains an earlier
     source message [ev], with no timer expiry between it and [te], for which select returned a
     non-empty selection [sel] (reported as used), whose handling called set_frequency, turned
     desired_freq from zero to non-zero and returned next_update = Some (which is what arms the
     timer).
   So the clock is touched only on a consensus, or to end a slew that a consensus started. *)
Theorem C03_steer_only_on_consensus : forall W pre te s' o,
  thandle W (tstate_after W pre) te = (s', o) -> o_clock o <> [] ->
  (exists ev L sel, te = Msg ev /\ select_input (l_ctl (tstate_after W pre)) ev = Some L /\
                    w_select W L = sel /\ sel <> [] /\ o_used o = Some (map snap_id sel))
  \/
  (te = TimeUpdate /\ o_clock o = [5] /\ o_used o = None /\ o_next o = false /\
   c_slew (l_ctl (tstate_after W pre)) = true /\ c_slew (l_ctl s') = false /\ l_timer s' = false /\
   exists pre1 ev post L sel c1 o1,
     pre = pre1 ++ Msg ev :: post /\ (forall x, In x post -> x <> TimeUpdate) /\
     select_input (l_ctl (tstate_after W pre1)) ev = Some L /\ w_select W L = sel /\ sel <> [] /\
     handle W (l_ctl (tstate_after W pre1)) ev = (c1, o1) /\
     o_used o1 = Some (map snap_id sel) /\ o_next o1 = true /\ In 5 (o_clock o1) /\
     c_slew (l_ctl (tstate_after W pre1)) = false /\ c_slew c1 = true).
Proof. exact clock_calls_consensus_or_slew_end. Qed.

(* one step of the loop from ANY loop state (reachable or not): clock calls need a consensus
   message or an expiry of an enabled timer, which makes exactly one set_frequency call and
   leaves the timer disabled; a timer expiry with the timer disabled does nothing *)
Theorem C03_loop_step_calls : forall W s te s' o,
  thandle W s te = (s', o) -> o_clock o <> [] ->
  (exists ev L sel, te = Msg ev /\ select_input (l_ctl s) ev = Some L /\ w_select W L = sel /\ sel <> [] /\
                    o_used o = Some (map snap_id sel))
  \/ (te = TimeUpdate /\ l_timer s = true /\ o_clock o = [5] /\ o_used o = None /\ l_timer s' = false).
Proof. exact thandle_calls. Qed.

(* non-vacuity: three agreeing voters out of four with minimum 3 are selected,
   a 2-2 tie is not, and the sweep of the first case reaches 3 *)
Example C03_nonvacuous :
  let c i lo hi := mkCand i false true 10 lo hi in
  let cf := mkCfg 3 100 in
  select cf [c 1 0 20; c 2 10 30; c 3 15 40; c 4 90 95] = Ok [c 1 0 20; c 2 10 30; c 3 15 40]
  /\ select (mkCfg 1 100) [c 1 0 20; c 2 10 30; c 3 50 60; c 4 55 70] = Ok []
  /\ wellformed cf [c 1 0 20; c 2 10 30; c 3 15 40; c 4 90 95]
  /\ maxlow (sweep (sort_bounds (bounds_of cf [c 1 0 20; c 2 10 30; c 3 15 40; c 4 90 95]))) = 3.
Proof.
  cbv zeta. split; [vm_compute; reflexivity|]. split; [vm_compute; reflexivity|]. split; [|vm_compute; reflexivity].
  intros x Hin _. cbn [In] in Hin.
  repeat (destruct Hin as [Hx | Hin]; [subst x; cbn [c_lo c_hi]; lia|]). destruct Hin.
Qed.

(* non-vacuity of the timer disjunct: one usable source; its first measurement reaches a
   consensus whose steering decision (oracle code 2) starts a slew: disable_ntp_algorithm,
   set_frequency, error estimate, status; next_update = Some arms the timer.  The first timer
   expiry ends the slew with one set_frequency, a second expiry does nothing; the next consensus
   (oracle code 1: frequency correction) calls set_frequency without arming, and the expiry after
   it does nothing. *)
Example C03_nonvacuous_timer :
  let s n := mkSnap n 100 100 0 (mkCand 1 false true 10 0 20) in
  let W := tape_world (mkCfg 1 100) [2; 1] in
  let pre := [Msg (1, None); Msg (1, Some (SetUsable true)); Msg (1, Some (Measure (s 7)))] in
  map (fun o => (o_clock o, o_used o, o_next o))
      (snd (trun_from W l_init (pre ++ [TimeUpdate; TimeUpdate; Msg (1, Some (Measure (s 8))); TimeUpdate])))
  = [([], None, false); ([], None, false); ([1; 5; 2; 30], Some [1], true); ([5], None, false);
     ([], None, false); ([5; 2; 30], Some [1], false); ([], None, false)]
  /\ (l_timer (tstate_after W pre), c_slew (l_ctl (tstate_after W pre))) = (true, true)
  /\ (l_timer (tstate_after W (pre ++ [TimeUpdate])), c_slew (l_ctl (tstate_after W (pre ++ [TimeUpdate])))) = (false, false).
Proof. vm_compute. repeat split; reflexivity. Qed.

Print Assumptions C03_consensus.
Print Assumptions C03_voters_are_the_qualifying_nonperiodic.
Print Assumptions C03_members_qualify.
Print Assumptions C03_unqualified_irrelevant.
Print Assumptions C03_sweep_balanced.
Print Assumptions C03_select_never_panics.
Print Assumptions C03_only_usable.
Print Assumptions C03_only_usable_with_timer.
Print Assumptions C03_message_calls_need_consensus.
Print Assumptions C03_steer_only_on_consensus.
Print Assumptions C03_loop_step_calls.
