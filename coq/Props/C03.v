(* C03  The clock is only steered on a majority consensus of usable sources.
   Property theorems only; proofs are in Proofs/Select.v (selection) and
   Proofs/MsgLoop.v (controller level: who is a candidate, when the clock is
   steered).

   Vocabulary (Model/Select.v).  Every f64 is represented by the integer key
   of f64::total_cmp, so [<=] on keys is the order the code sorts by and
   fle/fgt are the IEEE comparisons of the two filters.
     voter cf c       c contributes a pair of bounds to the sweep: non-periodic,
                      synchronised, not (radius > maximum_source_uncertainty)
     qualifying cf c  synchronised and radius <= maximum_source_uncertainty
     wellformed       lo <= hi for every voter (a radius that is not negative)
     small            fewer than 2^61 candidates (a slice that fits in memory)
     nonan            neither the limit nor any radius is NaN (then a voter is
                      exactly a non-periodic qualifying candidate) *)
From V Require Import Model.Select Proofs.Select Model.MsgLoop Proofs.MsgLoop.

(* A non-empty selection (the only case in which update_clock touches the
   clock, see C03_steer_only_on_consensus) implies a consensus: there is a point
   t such that the voters whose closed interval contains t number at least
   minimum_agreeing_sources (and at least one) and are a strict majority of
   all voters. *)
Theorem C03_consensus : forall cf cands sel,
  wellformed cf cands -> small cands ->
  select cf cands = Ok sel -> sel <> [] ->
  exists t,
    let S := filter (agreeing cf t) cands in
    let V := filter (voter cf) cands in
    1 <= Z.of_nat (length S) /\
    min_agreeing cf <= Z.of_nat (length S) /\
    Z.of_nat (length V) < 2 * Z.of_nat (length S) /\
    (forall s, In s S -> In s V /\ c_lo s <= t <= c_hi s).
Proof. exact select_consensus. Qed.

(* Without NaNs the voters are exactly the non-periodic, synchronised
   candidates whose uncertainty is acceptable. *)
Theorem C03_voters_are_the_qualifying_nonperiodic : forall cf c,
  isnan (max_unc cf) = false -> isnan (c_radius c) = false ->
  voter cf c = negb (c_periodic c) && (c_sync c && fle (c_radius c) (max_unc cf)).
Proof. exact voter_qualifying. Qed.

(* Every returned snapshot is one of the candidates (the result is a
   sub-list of the candidate list), is synchronised and has an acceptable,
   non-NaN radius. *)
Theorem C03_members_qualify : forall cf cands sel,
  select cf cands = Ok sel ->
  (exists f, sel = filter f cands) /\
  forall s, In s sel ->
    In s cands /\ c_sync s = true /\ fle (c_radius s) (max_unc cf) = true /\
    isnan (c_radius s) = false.
Proof. exact select_members. Qed.

(* Unsynchronised or too uncertain candidates never contribute: removing
   them from the candidate list changes nothing in the result. *)
Theorem C03_unqualified_irrelevant : forall cf cands,
  nonan cf cands ->
  select cf (filter (qualifying cf) cands) = select cf cands.
Proof. exact select_unqualified_irrelevant. Qed.

(* With well-formed intervals the sweep is balanced: `cur -= 1` is never
   executed at 0 (no usize wrap), the sweep ends at 0 and
   assert_eq!(maxlow, maxhigh) holds, so select cannot panic. *)
Theorem C03_sweep_balanced : forall cf cands,
  wellformed cf cands -> small cands ->
  let st := sweep (sort_bounds (bounds_of cf cands)) in
  maxlow st = maxhigh st /\ underflow st = false /\ cur st = 0.
Proof. exact sweep_balanced. Qed.

Theorem C03_select_never_panics : forall cf cands,
  wellformed cf cands -> small cands ->
  forall site, select cf cands <> Panic site.
Proof. exact select_no_panic. Qed.

(* Controller level (Model/MsgLoop.v, tied to the real controller and message loop by C37's
   harness).  Whenever update_clock reaches select (handling ev after the schedule prefix pre), the
   candidates are exactly the latest snapshots of the sources that are registered, were last
   reported usable and have delivered a snapshot: unusable sources never reach the selection. *)
Theorem C03_only_usable : forall W pre ev L,
  select_input (state_after W pre) ev = Some L ->
  forall k, In k (map snap_core L) <->
            exists j, src_view (ops_of j (pre ++ [ev])) = Some (Some k, true).
Proof. exact select_input_spec. Qed.

(* A handled message makes clock calls (disable_ntp_algorithm, step_clock, set_frequency,
   error_estimate_update, status_update) only in the branch where select was reached and returned
   a non-empty selection, and reports exactly that selection as used.
   _partial: the wrapper's timer path (time_update -> set_frequency(desired 0), which ends a slew
   whose timer was armed by the next_update of such a consensus step) is not in the model. *)
Theorem C03_steer_only_on_consensus_partial : forall W c ev c' o,
  handle W c ev = (c', o) -> o_clock o <> [] ->
  exists L sel, select_input c ev = Some L /\ w_select W L = sel /\ sel <> [] /\
                o_used o = Some (map snap_id sel).
Proof. exact clock_calls_need_selection. Qed.

(* non-vacuity: three agreeing voters out of four with minimum 3 are selected,
   a 2-2 tie is not, and the sweep of the first case reaches 3 *)
Example C03_nonvacuous :
  let c i lo hi := mkCand i false true 10 lo hi in
  let cf := mkCfg 3 100 in
  select cf [c 1 0 20; c 2 10 30; c 3 15 40; c 4 90 95] = Ok [c 1 0 20; c 2 10 30; c 3 15 40]
  /\ select (mkCfg 1 100) [c 1 0 20; c 2 10 30; c 3 50 60; c 4 55 70] = Ok []
  /\ wellformed cf [c 1 0 20; c 2 10 30; c 3 15 40; c 4 90 95]
  /\ maxlow (sweep (sort_bounds (bounds_of cf [c 1 0 20; c 2 10 30; c 3 15 40; c 4 90 95]))) = 3.
Proof.
  cbv zeta. split; [vm_compute; reflexivity|]. split; [vm_compute; reflexivity|]. split; [|vm_compute; reflexivity].
  intros x Hin _. cbn [In] in Hin.
  repeat (destruct Hin as [Hx | Hin]; [subst x; cbn [c_lo c_hi]; lia|]). destruct Hin.
Qed.

Print Assumptions C03_consensus.
Print Assumptions C03_voters_are_the_qualifying_nonperiodic.
Print Assumptions C03_members_qualify.
Print Assumptions C03_unqualified_irrelevant.
Print Assumptions C03_sweep_balanced.
Print Assumptions C03_select_never_panics.
Print Assumptions C03_only_usable.
Print Assumptions C03_steer_only_on_consensus_partial.
