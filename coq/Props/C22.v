(* C22  No datagram can crash the NTP server.
   Property theorems only; proofs are in Proofs/Server.v.

   Scope.  [handle] (Model/Server.v) is the decision structure of Server::handle with every panic
   site that lies in ntp-proto/src/server.rs, or that is reachable from it through the answer
   builders, made explicit:
     2001 `self.elements[index]` (rate-limit cache)      2002 `server_info.read().unwrap()`
     2003 `ServerResponse::Ignore => unreachable!()`     2004 `unreachable!("NTS shouldn't work with NTPv3")`
     2005 `clock.now().expect("Failed to read time")`    2006 `self.keys[self.primary as usize]` / `expect("Failed to encrypt cookie")`
     2007 `assert!(self.duration >= 0)` (root delay, in to_bits_short / to_bits_time32)
   The byte-level decoder (C23: NtpPacket::deserialize is total) and the serialiser of the answer
   (C16-C19) are not part of this model: the datagram enters as the decoder's result summary, so the
   theorems below carry the property for the handler's own control flow and are `_partial` with
   respect to the property text ("all byte strings"): what is missing is totality of the decoder and
   of `NtpPacket::serialize`, which the correspondence exercises on every run (malformed, truncated,
   bit-flipped and length-lying datagrams through the real `Server::handle`; the implementation must
   not panic where the model does not) but which is proved elsewhere (C23) or not at all (serialiser). *)
From V Require Import Model.RateCache Model.Server Proofs.RateCache Proofs.Server.
From V Require Import Gen.ConstServer.

(* For every address, configuration, cache state, hash function, buffer outcome and datagram
   summary: if the lock is not poisoned, the clock readable, the key set usable and the published
   root delay non-negative ([env_ok]), and the summary is one the decoder can produce ([req_ok]: an
   NTPv3 packet has neither a cookie nor a failed authenticator), `handle` returns normally. *)
Theorem C22_total_partial : forall h cfg c e rq,
  env_ok e -> req_ok rq -> exists r, handle h cfg c e rq = Ok r.
Proof. exact handle_total. Qed.

(* The same over any history of datagrams through one server. *)
Theorem C22_history_total_partial : forall h cfg l c,
  Forall (fun x => env_ok (fst x) /\ req_ok (snd x)) l ->
  exists c' rs, handle_all h cfg c l = Ok (c', rs) /\ length rs = length l.
Proof. intros h cfg l. exact (handle_all_total h cfg l). Qed.

(* Exactly which sites can be reached, and why: only the four environment sites, each under the
   negation of its hypothesis, and the NTPv3 site under a summary the decoder never produces.  The
   cache index (2001) and the `unreachable!()` of the Ignore arm (2003) are never reached, whatever
   the inputs. *)
Theorem C22_panic_sites : forall h cfg c e rq s,
  handle h cfg c e rq = Panic s ->
  (s = panic_lock_poisoned /\ e_lock_ok e = false) \/
  (s = panic_clock /\ e_clock_ok e = false) \/
  (s = panic_keys /\ e_keys_ok e = false) \/
  (s = panic_root_delay /\ e_root_delay_nonneg e = false) \/
  (s = panic_nts_v3 /\ r_ver rq = V3 /\ (r_parse rq = PDecrypt \/ (r_parse rq = POk /\ r_cookie rq = true))).
Proof. exact handle_panic_sites. Qed.

(* The rate-limit cache alone never panics, from any cache contents. *)
Theorem C22_cache_total : forall h c a t cutoff,
  exists c' b, is_allowed h c a t cutoff = Ok (c', b) /\ length c' = length c.
Proof. exact is_allowed_total. Qed.

(* non-vacuity: the hypotheses are needed -- a negative published root delay makes the time answer
   panic (site 2007), an unreadable clock too (2005); with them the same request is served. *)
Definition nv22_cfg : config :=
  {| c_deny_action := FDeny; c_allow_action := FIgnore; c_require_nts := None; c_accepted := [V4]; c_cutoff := 0 |}.
Definition nv22_env (clock root : bool) : env :=
  {| e_addr := 1; e_in_deny := false; e_in_allow := true; e_now := 0; e_ser_ok := true; e_buf_ge4 := true;
     e_lock_ok := true; e_clock_ok := clock; e_keys_ok := true; e_root_delay_nonneg := root |}.
Definition nv22_req : request := {| r_fbv := 4; r_parse := POk; r_ver := V4; r_client := true; r_cookie := false |}.
Example C22_nonvacuous :
  handle (fun a => a) nv22_cfg (new_cache 1) (nv22_env true false) nv22_req = Panic panic_root_delay
  /\ handle (fun a => a) nv22_cfg (new_cache 1) (nv22_env false true) nv22_req = Panic panic_clock
  /\ (exists r, handle (fun a => a) nv22_cfg (new_cache 1) (nv22_env true true) nv22_req = Ok r /\ o_out r = ORespond ATime)
  /\ env_ok (nv22_env true true) /\ req_ok nv22_req.
Proof.
  split; [vm_compute; reflexivity|]. split; [vm_compute; reflexivity|].
  split; [eexists; split; [vm_compute; reflexivity|reflexivity]|].
  split; [repeat split|]. intros H; discriminate H.
Qed.

(* census of the panic sites the model makes explicit, regenerated from the sources on every run: a new
   `unwrap`/`expect`/`unreachable!`/`assert!`/indexing in the handler changes one of these counts and breaks
   this example (the model must then be revisited).  server.rs (non-test part): one `unreachable!()`, one
   `.unwrap()` (the lock), no `expect`/`panic!`/`assert!`, two `self.elements[..]`, one `% len`, one
   `[..length]` on the cursor's buffer (position <= len by Cursor); the answer builders: four
   "NTS shouldn't work with NTPv3" sites (three on this path), one clock `expect` per header version, two
   `assert!(duration >= 0)`, one `keys[primary]`; the daemon receives at most 1024 bytes. *)
Example C22_site_census :
  SRV_UNREACHABLE = 1 /\ SRV_UNWRAP = 1 /\ SRV_EXPECT = 0 /\ SRV_PANIC_ASSERT = 0 /\ SRV_CACHE_INDEXING = 2 /\
  SRV_SLICE_TO_LENGTH = 1 /\ SRV_MODULO = 1 /\ PKT_NTS_V3_UNREACHABLE = 4 /\ PKT_CLOCK_EXPECT = 1 /\
  PKT5_CLOCK_EXPECT = 1 /\ DUR_NONNEG_ASSERT = 2 /\ KEYSET_PRIMARY_INDEX = 1 /\ DAEMON_MAX_PACKET_SIZE = 1024.
Proof. repeat split; reflexivity. Qed.

Print Assumptions C22_total_partial.
Print Assumptions C22_history_total_partial.
Print Assumptions C22_panic_sites.
Print Assumptions C22_cache_total.
