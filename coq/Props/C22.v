(* C22  No datagram can crash the NTP server.
   Property theorems only; proofs are in Proofs/Server.v, Proofs/ServerBytes.v, Proofs/ServerAnswer.v.

   Three layers, and what is proved about each:
   (1) the byte-level decoder NtpPacket::deserialize with the server's key set (Model/Packet.v, every
       panic site explicit, AEAD = oracle argument): total (C23_total);
   (2) the decision structure of Server::handle (Model/Server.v [handle]) over the decoder's result
       summary, with every panic site that lies in ntp-proto/src/server.rs, or that is reachable from it
       through the answer builders via the ENVIRONMENT, made explicit:
         2001 `self.elements[index]` (rate-limit cache)      2002 `server_info.read().unwrap()`
         2003 `ServerResponse::Ignore => unreachable!()`     2004 `unreachable!("NTS shouldn't work with NTPv3")`
         2005 `clock.now().expect("Failed to read time")`    2006 `self.keys[self.primary as usize]` / `expect("Failed to encrypt cookie")`
         2007 `assert!(self.duration >= 0)` (root delay, in to_bits_short / to_bits_time32)
   (3) the answer construction (response builders, NtpPacket::serialize into the caller's buffer).

   C22_total_decode_and_decide_partial composes (1) and (2): Model/ServerBytes.v [handle_bytes] runs the
   decoder on the BYTES, computes the summary from the decoded packet and runs the decision model on it;
   the theorem is over all byte strings, all decryption oracles, all key sets.  The precondition [req_ok]
   of the older theorems (an NTPv3 packet has neither a cookie nor a failed authenticator) is no longer a
   hypothesis: it is proved of the decoder (C22_decoder_v3).

   What remains `_partial` with respect to the property text: layer (3).  In [handle_bytes] the answer
   construction still enters as the environment bits e_ser_ok / e_buf_ge4 ("the built answer fits"), i.e. it
   is assumed to RETURN (Ok or WriteZero error); only its environment-triggered panics (2004-2007) are in
   the composed theorem.  Separately, C22_answer_sites_partial shows that the five panic sites which
   Model/Response.v (P2b's model of the builders and the serialiser over PARSED requests) makes explicit
   are unreachable; that model is not panic-site complete (the slice arithmetic of encode_encrypted
   (split_at_mut, copy_within, [..padding]), Cipher::encrypt and the Cursor are not modelled as
   panic-capable; it models the bounded cursor as one final length test), it is not composed with the
   byte decoder (its requests are a different abstraction of the decoded packet), and so totality of
   the real answer construction is exercised by the correspondence on every run (malformed, truncated,
   bit-flipped and length-lying datagrams through the real `Server::handle`: the implementation must not
   panic where the model does not) but not proved. *)
From V Require Import Model.RateCache Model.Server Proofs.RateCache Proofs.Server.
From V Require Import Model.Packet Model.ServerBytes Proofs.Packet Proofs.ServerBytes.
From V Require Model.Response Proofs.ServerAnswer.
From V Require Import Gen.ConstServer.

(* For every address, configuration, cache state, hash function, buffer outcome and datagram
   summary: if the lock is not poisoned, the clock readable, the key set usable and the published
   root delay non-negative ([env_ok]), and the summary is one the decoder can produce ([req_ok]: an
   NTPv3 packet has neither a cookie nor a failed authenticator), `handle` returns normally. *)
Theorem C22_total_partial : forall h cfg c e rq,
  env_ok e -> req_ok rq -> exists r, handle h cfg c e rq = Ok r.
Proof. exact handle_total. Qed.

(* The same over any history of datagrams through one server. *)
Theorem C22_history_total_partial : forall h cfg l c,
  Forall (fun x => env_ok (fst x) /\ req_ok (snd x)) l ->
  exists c' rs, handle_all h cfg c l = Ok (c', rs) /\ length rs = length l.
Proof. intros h cfg l. exact (handle_all_total h cfg l). Qed.

(* Exactly which sites can be reached, and why: only the four environment sites, each under the
   negation of its hypothesis, and the NTPv3 site under a summary the decoder never produces.  The
   cache index (2001) and the `unreachable!()` of the Ignore arm (2003) are never reached, whatever
   the inputs. *)
Theorem C22_panic_sites : forall h cfg c e rq s,
  handle h cfg c e rq = Panic s ->
  (s = panic_lock_poisoned /\ e_lock_ok e = false) \/
  (s = panic_clock /\ e_clock_ok e = false) \/
  (s = panic_keys /\ e_keys_ok e = false) \/
  (s = panic_root_delay /\ e_root_delay_nonneg e = false) \/
  (s = panic_nts_v3 /\ r_ver rq = V3 /\ (r_parse rq = PDecrypt \/ (r_parse rq = POk /\ r_cookie rq = true))).
Proof. exact handle_panic_sites. Qed.

(* The rate-limit cache alone never panics, from any cache contents. *)
Theorem C22_cache_total : forall h c a t cutoff,
  exists c' b, is_allowed h c a t cutoff = Ok (c', b) /\ length c' = length c.
Proof. exact is_allowed_total. Qed.

(* ---- from the bytes of the datagram (decoder ; summary ; decision) ------------------------------- *)

(* For every datagram (any byte string), every AEAD behaviour [dec] (the only hypothesis: what it returns
   is a byte string), every key set, address, configuration, cache state, hash function and buffer
   outcome: if the lock is not poisoned, the clock readable, the key set usable and the published root
   delay non-negative, decoding the datagram and deciding about it returns normally. *)
Theorem C22_total_decode_and_decide_partial : forall h cfg c e (dec : oracle) keys id_offset (data : bytes),
  wf_bytes data -> oracle_wf dec -> env_ok e ->
  exists r, handle_bytes h cfg c e dec keys id_offset data = Ok r.
Proof. exact handle_bytes_total. Qed.

(* the same in the form of the property text *)
Theorem C22_no_panic_decode_and_decide_partial : forall h cfg c e (dec : oracle) keys id_offset (data : bytes),
  wf_bytes data -> oracle_wf dec -> env_ok e ->
  forall site, handle_bytes h cfg c e dec keys id_offset data <> Panic site.
Proof. exact handle_bytes_no_panic. Qed.

(* ... over any history of datagrams through one server *)
Theorem C22_history_decode_and_decide_partial : forall h cfg (dec : oracle) keys id_offset l c,
  Forall (fun x => env_ok (fst x) /\ wf_bytes (snd x)) l -> oracle_wf dec ->
  exists c' rs, handle_all_bytes h cfg c dec keys id_offset l = Ok (c', rs) /\ length rs = length l.
Proof. intros h cfg dec keys id_offset l. exact (handle_all_bytes_total h cfg dec keys id_offset l). Qed.

(* Exactly which sites can be reached from the bytes: only the four environment sites, each under the
   negation of its hypothesis.  No site of the decoder, not the cache index, not the `unreachable!()` of the
   Ignore arm, and (new with respect to C22_panic_sites) not the NTPv3 site. *)
Theorem C22_panic_sites_bytes : forall h cfg c e (dec : oracle) keys id_offset (data : bytes) s,
  wf_bytes data -> oracle_wf dec ->
  handle_bytes h cfg c e dec keys id_offset data = Panic s ->
  (s = panic_lock_poisoned /\ e_lock_ok e = false) \/
  (s = panic_clock /\ e_clock_ok e = false) \/
  (s = panic_keys /\ e_keys_ok e = false) \/
  (s = panic_root_delay /\ e_root_delay_nonneg e = false).
Proof. exact handle_bytes_panic_sites. Qed.

(* the decoder fact that discharges [req_ok]: whatever the bytes, keys and cipher, a decoded NTPv3 packet
   is accepted without a cookie, never returned inside a decrypt error *)
Theorem C22_decoder_v3 : forall (dec : oracle) (cx : ctx) (data : bytes) o,
  deserialize dec cx data = Ok o ->
  packet_version (outcome_packet o) = V3 -> exists p, o = Accept p None.
Proof. exact deserialize_v3. Qed.

(* ---- the answer construction, as far as Model/Response.v makes its panic sites explicit --------- *)

(* For every parsed request whose NTPv3 form carries neither a cookie nor a failed authenticator, every
   configuration that reaches the parser (intended action Deny = 1 or ProvideTime = 3), every server state
   whose reference-id filter is at most 65535 bytes (it is 512), every reception time, clock reading,
   datagram length and buffer size: building and serialising the answer reaches none of the five sites
   of that model (assert_eq!(payload_len % 4, 0) in ReferenceIdRequest::serialize,
   len().try_into().unwrap() in ReferenceIdResponse::serialize, three "NTS shouldn't work with NTPv3"). *)
Theorem C22_answer_sites_partial : forall tf cfg st q recv now mlen B s,
  (Model.Response.q_version q = 3 \/ Model.Response.q_version q = 4 \/ Model.Response.q_version q = 5) ->
  (Model.Response.q_version q = 3 ->
     Model.Response.q_cookie q = None /\ Model.Response.q_decrypt_failed q = false) ->
  (Model.Response.c_intended cfg = 1 \/ Model.Response.c_intended cfg = 3) ->
  Model.Response.len (Model.Response.s_filter st) <= 65535 ->
  Model.Response.handle tf cfg st q recv now mlen B <> Model.Response.OPanic s.
Proof. exact Proofs.ServerAnswer.answer_no_panic. Qed.

(* non-vacuity: the hypotheses are needed -- a negative published root delay makes the time answer
   panic (site 2007), an unreadable clock too (2005); with them the same request is served. *)
Definition nv22_cfg : config :=
  {| c_deny_action := FDeny; c_allow_action := FIgnore; c_require_nts := None; c_accepted := [V4]; c_cutoff := 0 |}.
Definition nv22_env (clock root : bool) : env :=
  {| e_addr := 1; e_in_deny := false; e_in_allow := true; e_now := 0; e_ser_ok := true; e_buf_ge4 := true;
     e_lock_ok := true; e_clock_ok := clock; e_keys_ok := true; e_root_delay_nonneg := root |}.
Definition nv22_req : request := {| r_fbv := 4; r_parse := POk; r_ver := V4; r_client := true; r_cookie := false |}.
Example C22_nonvacuous :
  handle (fun a => a) nv22_cfg (new_cache 1) (nv22_env true false) nv22_req = Panic panic_root_delay
  /\ handle (fun a => a) nv22_cfg (new_cache 1) (nv22_env false true) nv22_req = Panic panic_clock
  /\ (exists r, handle (fun a => a) nv22_cfg (new_cache 1) (nv22_env true true) nv22_req = Ok r /\ o_out r = ORespond ATime)
  /\ env_ok (nv22_env true true) /\ req_ok nv22_req.
Proof.
  split; [vm_compute; reflexivity|]. split; [vm_compute; reflexivity|].
  split; [eexists; split; [vm_compute; reflexivity|reflexivity]|].
  split; [repeat split|]. intros H; discriminate H.
Qed.

(* non-vacuity from the bytes: a 48-byte NTPv4 client request is served; the NTPv4 datagram of
   C23_nonvacuous (one NTS authenticator field, no cookie) is a decrypt error under the server's keys and
   gets the NTS NAK; one garbage byte is ignored; with an unreadable clock the first datagram panics at
   site 2005; the hypotheses hold of these values *)
Definition nv22_plain : bytes := 35 :: repeat 0 47.
Definition nv22_nts : bytes := 35 :: repeat 0 47 ++ [4; 4; 0; 28] ++ repeat 0 24.
Definition nv22_dec : oracle := fun _ _ _ _ => Some [1; 4; 0; 8; 9; 9; 9; 9].
Example C22_nonvacuous_bytes :
  (exists r, handle_bytes (fun a => a) nv22_cfg (new_cache 1) (nv22_env true true) nv22_dec [repeat 1 64] 0 nv22_plain = Ok r
             /\ o_out r = ORespond ATime /\ o_regs r = [(4, false, Policy, RProvideTime)])
  /\ (exists r, handle_bytes (fun a => a) nv22_cfg (new_cache 1) (nv22_env true true) nv22_dec [repeat 1 64] 0 nv22_nts = Ok r
             /\ o_out r = ORespond ANak /\ o_regs r = [(4, true, InvalidCrypto, RNak)])
  /\ (exists r, handle_bytes (fun a => a) nv22_cfg (new_cache 1) (nv22_env true true) nv22_dec [repeat 1 64] 0 [255] = Ok r
             /\ o_out r = OIgnore /\ o_regs r = [(7, false, ParseError, RIgnore)])
  /\ handle_bytes (fun a => a) nv22_cfg (new_cache 1) (nv22_env false true) nv22_dec [repeat 1 64] 0 nv22_plain = Panic panic_clock
  /\ wf_bytes nv22_plain /\ wf_bytes nv22_nts /\ oracle_wf nv22_dec.
Proof.
  split; [eexists; split; [vm_compute; reflexivity|split; reflexivity]|].
  split; [eexists; split; [vm_compute; reflexivity|split; reflexivity]|].
  split; [eexists; split; [vm_compute; reflexivity|split; reflexivity]|].
  split; [vm_compute; reflexivity|].
  split; [apply wf_bytes_check; vm_compute; reflexivity|].
  split; [apply wf_bytes_check; vm_compute; reflexivity|].
  intros k n a c p H; inversion H; subst; apply wf_bytes_check; vm_compute; reflexivity.
Qed.

(* non-vacuity of C22_answer_sites_partial: an NTPv5 request with a reference-id request field and the
   draft identification satisfies the hypotheses and is answered (the answer carries a reference-id
   response, whose encoder has site 2); the hypothesis on NTPv3 is needed: a version-3 request reported
   with a failed authenticator reaches site 4 *)
Definition nv22_q (ver : Z) (failed : bool) : Model.Response.request :=
  {| Model.Response.q_version := ver; Model.Response.q_mode := 3; Model.Response.q_poll := 6;
     Model.Response.q_xmit := [1; 2; 3; 4; 5; 6; 7; 8]; Model.Response.q_upgrade := false;
     Model.Response.q_untrusted := if ver =? 5 then [Model.Response.FRefReq 8 0; Model.Response.FDraft Model.Response.draft_bytes] else [];
     Model.Response.q_auth := []; Model.Response.q_enc := []; Model.Response.q_mac := 0;
     Model.Response.q_cookie := None; Model.Response.q_decrypt_failed := failed; Model.Response.q_auths := [] |}.
Definition nv22_st : Model.Response.sstate :=
  {| Model.Response.s_stratum := 2; Model.Response.s_leap := 0; Model.Response.s_refid := [0; 0; 0; 0];
     Model.Response.s_precision := 230; Model.Response.s_rdelay_short := [0; 0; 0; 0];
     Model.Response.s_rdisp_short := [0; 0; 0; 0]; Model.Response.s_rdelay_t32 := [0; 0; 0; 0];
     Model.Response.s_rdisp_t32 := [0; 0; 0; 0]; Model.Response.s_filter := repeat 7 512 |}.
Definition nv22_rcfg : Model.Response.config :=
  {| Model.Response.c_intended := 3; Model.Response.c_require_nts := 0; Model.Response.c_accepted := [3; 4; 5] |}.
Example C22_nonvacuous_answer :
  (exists st w, Model.Response.handle true nv22_rcfg nv22_st (nv22_q 5 false) (repeat 0 8) (repeat 0 8) 88 1024
                = Model.Response.ORespond st w)
  /\ Model.Response.wf_request (nv22_q 5 false) = true
  /\ Model.Response.len (Model.Response.s_filter nv22_st) <= 65535
  /\ Model.Response.handle true nv22_rcfg nv22_st (nv22_q 3 true) (repeat 0 8) (repeat 0 8) 48 1024
      = Model.Response.OPanic 4.
Proof.
  split; [do 2 eexists; vm_compute; reflexivity|].
  split; [vm_compute; reflexivity|].
  split; [vm_compute; discriminate|].
  vm_compute; reflexivity.
Qed.

(* census of the panic sites the model makes explicit, regenerated from the sources on every run: a new
   `unwrap`/`expect`/`unreachable!`/`assert!`/indexing in the handler changes one of these counts and breaks
   this example (the model must then be revisited).  server.rs (non-test part): one `unreachable!()`, one
   `.unwrap()` (the lock), no `expect`/`panic!`/`assert!`, two `self.elements[..]`, one `% len`, one
   `[..length]` on the cursor's buffer (position <= len by Cursor); the answer builders: four
   "NTS shouldn't work with NTPv3" sites (three on this path), one clock `expect` per header version, two
   `assert!(duration >= 0)`, one `keys[primary]`; the daemon receives at most 1024 bytes. *)
Example C22_site_census :
  SRV_UNREACHABLE = 1 /\ SRV_UNWRAP = 1 /\ SRV_EXPECT = 0 /\ SRV_PANIC_ASSERT = 0 /\ SRV_CACHE_INDEXING = 2 /\
  SRV_SLICE_TO_LENGTH = 1 /\ SRV_MODULO = 1 /\ PKT_NTS_V3_UNREACHABLE = 4 /\ PKT_CLOCK_EXPECT = 1 /\
  PKT5_CLOCK_EXPECT = 1 /\ DUR_NONNEG_ASSERT = 2 /\ KEYSET_PRIMARY_INDEX = 1 /\ DAEMON_MAX_PACKET_SIZE = 1024.
Proof. repeat split; reflexivity. Qed.

Print Assumptions C22_total_partial.
Print Assumptions C22_history_total_partial.
Print Assumptions C22_panic_sites.
Print Assumptions C22_cache_total.
Print Assumptions C22_total_decode_and_decide_partial.
Print Assumptions C22_no_panic_decode_and_decide_partial.
Print Assumptions C22_history_decode_and_decide_partial.
Print Assumptions C22_panic_sites_bytes.
Print Assumptions C22_decoder_v3.
Print Assumptions C22_answer_sites_partial.
