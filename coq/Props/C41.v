(* C41  PTP messages survive a serialise/parse round trip.
   Property theorems only; proofs are in Proofs/PtpWire*.v, Proofs/TlvSet.v, Proofs/CsptpMsg.v.
   Model: Model/PtpWire.v (34-byte header, all ten message bodies, TLV sets as validated byte
   strings, the TLV set builder), of the repaired code (branch fix-c41). *)
From V Require Import Model.PtpWire Proofs.TlvSet Proofs.CsptpMsg Proofs.PtpWireSerDe Proofs.PtpWireDeSer4.

(* Serialise then parse.  For every header, body (all ten types) and list of TLVs whose fields
   are within the ranges of their Rust types (header_ok, body_ok, tlv_ok: no other hypothesis --
   in particular enumeration values without a wire code and TLV values of odd length are
   allowed, the repaired serialiser and builder refuse them), every size of the builder's backing
   buffer, every output buffer (any length, any previous content) and any bytes following the
   written message: if the builder accepts the TLVs and the message serialises, the written
   bytes parse back to exactly that message.  TLV sets ending in an empty-valued TLV are
   included (C41_nonvacuous). *)
Theorem C41_ser_de : forall h b ts cap set buf out pad,
  header_ok h -> body_ok b -> Forall tlv_ok ts ->
  build_tlvs cap ts = Ok set ->
  msg_serialize (mkMsg h b set) buf = Ok out ->
  msg_deserialize (out ++ pad) = Ok (mkMsg h b set).
Proof. exact ser_de_built. Qed.

(* the same for any validated TLV set (what the parser returns, TlvSet::default()) *)
Theorem C41_ser_de_valid_set : forall h b set buf out pad,
  header_ok h -> body_ok b -> tlv_valid set ->
  msg_serialize (mkMsg h b set) buf = Ok out ->
  msg_deserialize (out ++ pad) = Ok (mkMsg h b set).
Proof. exact ser_de_valid. Qed.

(* Parsing any byte string (no length bound) terminates without a panic: the result is an error
   or a message whose TLV set is valid, and iterating that set never reaches the iterator's unwrap *)
Theorem C41_total : forall buf,
  (exists e, msg_deserialize buf = Err e) \/
  (exists m, msg_deserialize buf = Ok m /\ tlv_valid (m_suffix m) /\ exists l, tlvs (m_suffix m) = Ok l).
Proof.
  intros buf. destruct (msg_deserialize_cases buf) as [E|[m [E V]]]; [left; exact E|].
  right. exists m. split; [exact E|]. split; [exact V|]. apply tlvs_valid_ok. exact V.
Qed.

(* Parse then serialise.  For every byte string (bytes 0..255, any length) that parses, the parsed
   message serialises into any zeroed buffer that is long enough, and the result is the parsed
   prefix (the first message_length bytes) under the fixed mask [normalise] of Model/PtpWire.v:
   header flag bits 3, 4, 7 of byte 6 and bit 7 of byte 7, bytes 16-19 and the control byte 32 are
   written as zero; so are bytes 44-53 of a peer-delay request, byte 46 of an announce and byte
   44 of a management message; byte 49 of an announce (clock accuracy) and byte 47 of a
   management message (action) are written with the code of the value they were read as
   (reserved accuracies as 0, actions above 5 as 5); every other position, including all TLVs,
   is reproduced exactly. *)
Theorem C41_de_ser : forall buf m n,
  bytes_ok buf -> msg_deserialize buf = Ok m -> (message_length buf <= n)%nat ->
  msg_serialize m (repeat 0 n) = Ok (normalise (firstn (message_length buf) buf)).
Proof. intros buf m n Hb H Hn. exact (proj1 (de_ser buf m n Hb H Hn)). Qed.

(* literal equality when the input has the reserved positions zero and canonical codes *)
Theorem C41_de_ser_literal : forall buf m n,
  bytes_ok buf -> msg_deserialize buf = Ok m -> (message_length buf <= n)%nat ->
  normalise (firstn (message_length buf) buf) = firstn (message_length buf) buf ->
  msg_serialize m (repeat 0 n) = Ok (firstn (message_length buf) buf).
Proof. intros buf m n Hb H Hn E. rewrite <- E. apply C41_de_ser; assumption. Qed.

(* parse, serialise, parse again: the same message *)
Theorem C41_deser_ser_deser : forall buf m n,
  bytes_ok buf -> msg_deserialize buf = Ok m -> (message_length buf <= n)%nat ->
  exists out, msg_serialize m (repeat 0 n) = Ok out /\ msg_deserialize out = Ok m.
Proof. exact de_ser_de. Qed.

(* non-vacuity: a Sync with a TLV set [type 3, value 01 02][Pad, empty value] -- the set that the
   unrepaired parser rejected -- is built, serialised into a dirty buffer and parsed back; an
   odd-length value is refused by the builder; an announce message whose time source has no wire
   code is refused by the serialiser *)
Definition ex_header : header :=
  mkHeader 768 2 1 128 false true true false false true false false true false false false (-65536)
           (mkPid [1; 2; 3; 4; 5; 6; 7; 8] 9) 513 127.
Example C41_nonvacuous :
  (exists set out, build_tlvs 10 [(3, [1; 2]); (32776, [])] = Ok set
     /\ msg_serialize (mkMsg ex_header (Sync (mkTs (2 ^ 48 - 1) 1000000000)) set) (repeat 165 60) = Ok out
     /\ length out = 54%nat
     /\ msg_deserialize (out ++ [9; 9]) = Ok (mkMsg ex_header (Sync (mkTs (2 ^ 48 - 1) 1000000000)) set))
  /\ build_tlvs 10 [(3, [1; 2; 3])] = Err E_INVALID
  /\ msg_serialize (mkMsg ex_header (Announce (mkTs 1 2) 37 1 (mkCq 6 (AccNamed 33) 100) 2 [1;2;3;4;5;6;7;8] 3 (TsReserved 16)) [])
                   (repeat 0 64) = Err E_INVALID.
Proof.
  split; [do 2 eexists; split; [vm_compute; reflexivity|split; [vm_compute; reflexivity|split; vm_compute; reflexivity]]|].
  split; vm_compute; reflexivity.
Qed.

(* a management message with reserved bits and bytes set, an action code above 5 and two bytes of
   padding parses; it re-serialises to the masked prefix, which differs from the input *)
Definition ex_mgmt : bytes :=
  [13; 18; 0; 52; 7; 0; 255; 255; 0; 0; 0; 0; 0; 1; 0; 0; 9; 9; 9; 9; 1; 2; 3; 4; 5; 6; 7; 8; 0; 1; 0; 5; 9; 250;
   8; 7; 6; 5; 4; 3; 2; 1; 0; 2; 77; 3; 2; 200; 0; 3; 0; 0; 99; 99].
Example C41_nonvacuous_de_ser :
  exists m, msg_deserialize ex_mgmt = Ok m
    /\ msg_serialize m (repeat 0 52) = Ok (normalise (firstn (message_length ex_mgmt) ex_mgmt))
    /\ normalise (firstn (message_length ex_mgmt) ex_mgmt) <> firstn (message_length ex_mgmt) ex_mgmt
    /\ length (normalise (firstn (message_length ex_mgmt) ex_mgmt)) = 52%nat.
Proof. eexists. split; [vm_compute; reflexivity|]. split; [vm_compute; reflexivity|]. split; [vm_compute; discriminate|vm_compute; reflexivity]. Qed.

Print Assumptions C41_ser_de.
Print Assumptions C41_ser_de_valid_set.
Print Assumptions C41_total.
Print Assumptions C41_de_ser.
Print Assumptions C41_de_ser_literal.
Print Assumptions C41_deser_ser_deser.
