(* C41  PTP messages survive a serialise/parse round trip.
   Property theorems only; proofs are in Proofs/PtpWire*.v, Proofs/TlvSet.v, Proofs/CsptpMsg.v.
   Model: Model/PtpWire.v (34-byte header, all ten message bodies, TLV sets as validated byte
   strings, the TLV set builder), of the repaired code (branch fix-c41). *)
From V Require Import Model.PtpWire Proofs.TlvSet Proofs.CsptpMsg Proofs.PtpWireSerDe.

(* Serialise then parse.  For every header, body (all ten types) and list of TLVs whose fields
   are within the ranges of their Rust types (header_ok, body_ok, tlv_ok: no other hypothesis --
   in particular enumeration values without a wire code and TLV values of odd length are
   allowed, the repaired serialiser and builder refuse them), every size of the builder's backing
   buffer, every output buffer (any length, any previous content) and any bytes following the
   written message: if the builder accepts the TLVs and the message serialises, the written
   bytes parse back to exactly that message.  TLV sets ending in an empty-valued TLV are
   included (C41_nonvacuous). *)
Theorem C41_ser_de : forall h b ts cap set buf out pad,
  header_ok h -> body_ok b -> Forall tlv_ok ts ->
  build_tlvs cap ts = Ok set ->
  msg_serialize (mkMsg h b set) buf = Ok out ->
  msg_deserialize (out ++ pad) = Ok (mkMsg h b set).
Proof. exact ser_de_built. Qed.

(* the same for any validated TLV set (what the parser returns, TlvSet::default()) *)
Theorem C41_ser_de_valid_set : forall h b set buf out pad,
  header_ok h -> body_ok b -> tlv_valid set ->
  msg_serialize (mkMsg h b set) buf = Ok out ->
  msg_deserialize (out ++ pad) = Ok (mkMsg h b set).
Proof. exact ser_de_valid. Qed.

(* Parsing any byte string (no length bound) terminates without a panic: the result is an error
   or a message whose TLV set is valid, and iterating that set never reaches the iterator's unwrap *)
Theorem C41_total : forall buf,
  (exists e, msg_deserialize buf = Err e) \/
  (exists m, msg_deserialize buf = Ok m /\ tlv_valid (m_suffix m) /\ exists l, tlvs (m_suffix m) = Ok l).
Proof.
  intros buf. destruct (msg_deserialize_cases buf) as [E|[m [E V]]]; [left; exact E|].
  right. exists m. split; [exact E|]. split; [exact V|]. apply tlvs_valid_ok. exact V.
Qed.

(* non-vacuity: a Sync with a TLV set [type 3, value 01 02][Pad, empty value] -- the set that the
   unrepaired parser rejected -- is built, serialised into a dirty buffer and parsed back; an
   odd-length value is refused by the builder; an announce message whose time source has no wire
   code is refused by the serialiser *)
Definition ex_header : header :=
  mkHeader 768 2 1 128 false true true false false true false false true false false false (-65536)
           (mkPid [1; 2; 3; 4; 5; 6; 7; 8] 9) 513 127.
Example C41_nonvacuous :
  (exists set out, build_tlvs 10 [(3, [1; 2]); (32776, [])] = Ok set
     /\ msg_serialize (mkMsg ex_header (Sync (mkTs (2 ^ 48 - 1) 1000000000)) set) (repeat 165 60) = Ok out
     /\ length out = 54%nat
     /\ msg_deserialize (out ++ [9; 9]) = Ok (mkMsg ex_header (Sync (mkTs (2 ^ 48 - 1) 1000000000)) set))
  /\ build_tlvs 10 [(3, [1; 2; 3])] = Err E_INVALID
  /\ msg_serialize (mkMsg ex_header (Announce (mkTs 1 2) 37 1 (mkCq 6 (AccNamed 33) 100) 2 [1;2;3;4;5;6;7;8] 3 (TsReserved 16)) [])
                   (repeat 0 64) = Err E_INVALID.
Proof.
  split; [do 2 eexists; split; [vm_compute; reflexivity|split; [vm_compute; reflexivity|split; vm_compute; reflexivity]]|].
  split; vm_compute; reflexivity.
Qed.

Print Assumptions C41_ser_de.
Print Assumptions C41_ser_de_valid_set.
Print Assumptions C41_total.
