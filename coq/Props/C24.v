(* C24  NTP packets survive a decode/encode round trip.
   Every packet the decoder accepts (without keys) can be encoded again without
   error, and after one normalising round the encoding is stable.
   Property theorems only; proofs are in Proofs/RoundTrip.v and Proofs/FixedPoint.v.

   The model is the tree WITH the C24 repair (branch fix-c24: a v5 reference-id
   request whose payload is not a whole number of words is rejected by the
   decoder).  On the unrepaired tree the correspondence differs on exactly that
   class and the check's monitor reports the datagram whose re-encoding panics. *)
From V Require Import Model.Packet Proofs.Packet Proofs.RoundTrip Proofs.FixedPoint.

(* Whatever the decoder accepts without keys (any byte string, NTPv3/v4/v5,
   any extension fields, any MAC) is encoded by [serialize] without error and
   without panic into any buffer that is large enough; the bytes do not depend
   on the buffer.  (No cookie is ever returned without keys.) *)
Theorem C24_reencode_ok : forall (dec : oracle) (data : bytes) (p : packet) (c : option cookie),
  wf_bytes data ->
  deserialize dec NoKeys data = Ok (Accept p c) ->
  c = None /\
  exists b1, forall enc cap, blen b1 <= cap -> serialize enc None cap None p = Ok b1.
Proof. exact reencode_ok. Qed.

(* ... and after that one normalising round the encoding is stable: the bytes b1
   produced from the accepted packet decode (without keys) to a packet p1 which
   encodes to exactly b1 again; hence decoding the re-encoded packet yields the
   same packet p1 and encoding it again yields the same bytes (reading of
   "one normalising round", DESIGN.md section 5: b1 is a fixed point of
   encode . decode and p1 of decode . encode).  All versions, all field kinds
   incl. unknown type ids, padding to the RFC 7822 minimum sizes, MACs. *)
Theorem C24_fixed_point : forall (dec : oracle) (data : bytes) (p : packet) (c : option cookie),
  wf_bytes data ->
  deserialize dec NoKeys data = Ok (Accept p c) ->
  exists b1 p1,
    (forall enc cap, blen b1 <= cap -> serialize enc None cap None p = Ok b1) /\
    deserialize dec NoKeys b1 = Ok (Accept p1 None) /\
    (forall enc cap, blen b1 <= cap -> serialize enc None cap None p1 = Ok b1).
Proof. exact fixed_point. Qed.

(* non-vacuity and the fixed point on a concrete NTPv5 datagram with a draft
   identification and a reference-id request of 8 octets: accepted, re-encoded,
   the re-encoding decodes to the same packet and encodes to the same bytes *)
Example C24_nonvacuous :
  let data := [43] ++ repeat 0 13 ++ [0; 1] ++ repeat 0 32
              ++ [245; 255; 0; 27] ++ draft_version_bytes ++ [0]
              ++ [245; 3; 0; 12; 0; 4; 7; 7; 7; 7; 7; 7] in
  wf_bytes data /\
  exists p b1, deserialize (table_dec []) NoKeys data = Ok (Accept p None)
    /\ serialize no_enc None 200 None p = Ok b1
    /\ b1 <> data
    /\ deserialize (table_dec []) NoKeys b1 = Ok (Accept p None).
Proof.
  cbv zeta. split; [apply wf_bytes_check; vm_compute; reflexivity|].
  eexists. eexists. split; [vm_compute; reflexivity|].
  split; [vm_compute; reflexivity|]. split; [vm_compute; discriminate|vm_compute; reflexivity].
Qed.

Print Assumptions C24_reencode_ok.
Print Assumptions C24_fixed_point.
