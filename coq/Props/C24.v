(* C24 stub (theorems follow) *)
From V Require Import Model.Packet Proofs.Packet.
Theorem C24_census : census_ok = true.
Proof. exact census_holds. Qed.
Print Assumptions C24_census.
