(* C33  Advertised stratum and loop avoidance are consistent.
   Property theorems only; proofs in Proofs/Stratum.v; model Model/Stratum.v
   (accept_synchronization WITH the reference-id comparison of branch fix-c33,
   from_used_sources, update_used_sources).  [ids] = the ReferenceIds of the
   local addresses (from_ip is an oracle); [s_bloom s = Some b] with
   b = "the source's complete Bloom filter contains our server id". *)
From V Require Import Model.Bloom Model.Stratum Proofs.Bloom Proofs.Stratum.
From V Require Import Gen.ConstSource.

(* A source is usable for synchronisation exactly when its stratum is below the
   local stratum, it is reachable, its Bloom filter (if complete) does not
   contain our server id, and - unless its stratum is 1 - neither its own id
   nor the reference id it reports is one of our addresses. *)
Theorem C33_usable_iff : forall ls ids s,
  accept_synchronization ls ids s = None <->
  s_stratum s < ls /\
  (s_stratum s <> 1 -> ~ In (s_source_id s) ids /\ ~ In (s_reference_id s) ids) /\
  s_bloom s <> Some true /\
  s_reach s <> 0.
Proof. exact accept_ok_iff. Qed.

(* and the error reported names a true reason *)
Theorem C33_error_reason : forall ls ids s e,
  accept_synchronization ls ids s = Some e ->
  match e with
  | Stratum => ls <= s_stratum s
  | Loop => (s_stratum s <> 1 /\ (In (s_source_id s) ids \/ In (s_reference_id s) ids)) \/ s_bloom s = Some true
  | ServerUnreachable => s_reach s = 0
  | Distance => False
  end.
Proof. exact accept_error_cases. Qed.

(* "if it is this daemon itself" is implemented for sources of stratum other than
   1 only: a reachable stratum-1 source at one of our own addresses is accepted.
   (The stated property has no such exception; no safe small repair: a stratum-1
   server on the same host, reached over a loopback or local address, is a
   legitimate source.) *)
Theorem C33_self_stratum1_refuted :
  exists ls ids s, In (s_source_id s) ids /\ s_stratum s = 1 /\ accept_synchronization ls ids s = None.
Proof. exact self_stratum1_accepted. Qed.

(* The advertisement computed from the used sources: stratum one more than the
   first (primary) source, saturating at 255, with that source's id as reference
   id; with no source the configured local stratum and the id XNON.  The
   advertised Bloom filter contains our own server id and every id contained in
   a used source's filter; nothing panics. *)
Theorem C33_advertise : forall ls sid used,
  id_ok sid -> Forall (fun g => length g = NBYTES) (filters_of used) ->
  exists p, from_used_sources ls sid used = Ok p /\
    (a_stratum p, a_reference_id p) =
      match used with
      | [] => (ls, REFID_NONE)
      | x :: _ => (Z.min (fst (first_of x) + 1) 255, snd (first_of x))
      end /\
    length (a_filter p) = NBYTES /\
    contains_id (a_filter p) sid = Ok true /\
    (forall g id, In g (filters_of used) -> id_ok id -> contains_id g id = Ok true ->
                  contains_id (a_filter p) id = Ok true).
Proof. exact from_used_sources_spec. Qed.

(* "Once its used sources have reported": when every used NTP source has a
   snapshot the daemon publishes the advertisement of the resolved list (PPS,
   sock and CSPTP sources count as stratum 0 with ids PPS, SOCK, CPTP); if one
   has not, the previously published snapshot stays. *)
Theorem C33_published : forall ls sid table pub used,
  (all_reported table used ->
     exists l, resolve table used = Some l /\
       update_used_sources ls sid table pub used = from_used_sources ls sid l) /\
  (~ all_reported table used -> update_used_sources ls sid table pub used = Ok pub).
Proof. exact update_used_sources_spec. Qed.

Theorem C33_primary : forall table id ty r l, resolve table ((id, ty) :: r) = Some l ->
  exists x l', l = x :: l' /\
    x = match ty with
        | TPps => SExternal 0 REFID_PPS
        | TSock => SExternal 0 REFID_SOCK
        | TCsptp => SExternal 0 REFID_CSPTP
        | TNtp => match lookup table id with Some v => v | None => x end
        end.
Proof. exact resolve_first. Qed.

(* non-vacuity: the confirmed defect's input is now refused; a clean source is
   accepted; advertisement of a stratum-2 primary, of a PPS primary, saturation *)
Example C33_nonvacuous :
  let me := 3232235777 (* 192.168.1.1 *) in
  accept_synchronization 16 [me] (mkSnap 2 167772161 me 1 None) = Some Loop
  /\ accept_synchronization 16 [me] (mkSnap 2 167772161 167772162 1 (Some false)) = None
  /\ accept_synchronization 16 [me] (mkSnap 1 167772161 me 1 None) = None
  /\ accept_synchronization 16 [me] (mkSnap 2 167772161 167772162 1 (Some true)) = Some Loop
  /\ run_c33 (CAdvertise 16 [(1,(2,77));(2,(255,78))] [[(1,2);(2,2)]; [(3,2)]; []; [(9,0);(1,2)]; [(2,2)]])
     = [3; 77; 1; 3; 77; 1; 16; REFID_NONE; 1; 1; REFID_PPS; 1; 255; 78; 1]
  /\ run_c33 (CEndToEnd 16 [me] [(1, 167772161, 2, 2, me); (2, 167772162, 2, 3, 5); (3, 167772163, 1, 0, 0)] [[(2,2);(1,2)]; [(3,2)]])
     = [0; 0; 0; 1; 0; -1; 4; 167772162; 1; 17; 167772163; 1].
Proof. vm_compute. repeat split. Qed.

Print Assumptions C33_usable_iff.
Print Assumptions C33_error_reason.
Print Assumptions C33_self_stratum1_refuted.
Print Assumptions C33_advertise.
Print Assumptions C33_published.
Print Assumptions C33_primary.
