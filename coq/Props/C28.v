(* C28  NTS key exchange negotiates only mutually supported parameters.
   Property theorems only; proofs are in Proofs/NtsKe.v.

   The TLS exporter is an arbitrary function  export protocol algorithm = (c2s, s2c)
   shared by both ends of one session; a server cookie is symbolic (RCookie alg
   c2s s2c = a NewCookie record that decodes under the key set to these keys).
   The client model is the REPAIRED client (branch fix-c28: membership test). *)
From V Require Import Model.NtsKe Proofs.NtsKe Proofs.NtsMsg Gen.ConstNts.

(* The server's choice, for every client preference list and every accepted set:
   the first client-listed protocol it accepts and the first client-listed
   algorithm it supports; the no-overlap answers otherwise. *)
Theorem C28_server_choice : forall cfg export permit als ps dn,
  (forall p a, first_such (accepts cfg) ps p -> first_such known_algorithm als a ->
     handle_new cfg export permit (Ok (KeyExchange als ps dn)) =
     (ke_response cfg p a (cookies_for a (fst (export p a)) (snd (export p a))) false, Closed 0, false))
  /\ ((forall p, In p ps -> accepts cfg p = false) ->
     handle_new cfg export permit (Ok (KeyExchange als ps dn)) =
     ([RRec (NextProtocolR []); RRec EndOfMessage], Closed E_NO_PROTOCOL, false))
  /\ (forall p, first_such (accepts cfg) ps p -> (forall a, In a als -> known_algorithm a = false) ->
     handle_new cfg export permit (Ok (KeyExchange als ps dn)) =
     ([RRec (NextProtocolR [p]); RRec (AeadAlgorithmR []); RRec EndOfMessage], Closed E_NO_ALGORITHM, false)).
Proof. exact server_choice. Qed.

Theorem C28_accepts_supported : forall cfg p a,
  (accepts cfg p = true <-> In p (c_protocols cfg))
  /\ (known_algorithm a = true <-> a = AEAD_AES_SIV_CMAC_256 \/ a = AEAD_AES_SIV_CMAC_512).
Proof. intros cfg p a. split; [exact (accepts_in cfg p)|exact (known_algorithm_iff a)]. Qed.

(* Whatever the server answers to a key-exchange request, every cookie in it is
   one of exactly eight, each carrying the keys exported for the chosen pair. *)
Theorem C28_server_cookies : forall cfg export permit als ps dn resp e asked,
  handle_new cfg export permit (Ok (KeyExchange als ps dn)) = (resp, e, asked) ->
  forall i, In i resp -> is_cookie i = true ->
  exists p a, first_such (accepts cfg) ps p /\ first_such known_algorithm als a
              /\ i = RCookie a (fst (export p a)) (snd (export p a))
              /\ length (filter is_cookie resp) = 8%nat.
Proof. exact server_cookies. Qed.

(* The client (repaired): for EVERY response byte stream, a successful exchange
   returns a protocol and an algorithm the client offered, the keys exported
   for exactly that pair, the matching protocol version, at least one cookie. *)
Theorem C28_client_offered : forall protos algs export name resp k,
  client_process protos algs export name resp = Ok k ->
  In (k_protocol k) protos /\ In (k_algorithm k) algs
  /\ (k_c2s k, k_s2c k) = export (k_protocol k) (k_algorithm k)
  /\ known_algorithm (k_algorithm k) = true
  /\ ((k_version k = 4 /\ k_protocol k = PROTO_NTPV4) \/ (k_version k = 5 /\ k_protocol k = PROTO_DRAFT_NTPV5))
  /\ k_cookies k <> [].
Proof. exact client_offered. Qed.

(* The client's request is a key-exchange request with exactly its lists. *)
Theorem C28_client_request : forall protos algs denied t,
  Forall utf8_ok denied -> zlen (client_request protos algs denied) <= 4096 ->
  parse_request (client_request protos algs denied ++ t) = (Ok (KeyExchange algs protos denied), t).
Proof. exact client_request_parses. Qed.

(* Client and server over one session (one exporter), for every cookie codec
   with the C26 round trip (enc/dec: the key set's encode/decode with the i-th
   nonce): if the exchange succeeds the client has adopted the server's choice,
   holds the exported keys for it, and its eight cookies decode to exactly
   those keys.  Hypotheses: the configured server name is valid UTF-8 (it is a
   String), the response fits the 4096-byte cap. *)
Theorem C28_same_keys : forall (enc_cookie : nat -> Z -> list Z -> list Z -> list Z)
    (dec_cookie : list Z -> option (Z * list Z * list Z)),
  (forall i a c s, dec_cookie (enc_cookie i a c s) = Some (a, c, s)) ->
  forall cfg export protos algs denied name k resp e asked,
  (forall n, c_server cfg = Some n -> utf8_ok n) ->
  handle_new cfg export false (Ok (KeyExchange algs protos denied)) = (resp, e, asked) ->
  zlen (wire enc_cookie resp) <= 4096 ->
  client_process protos algs export name (wire enc_cookie resp) = Ok k ->
  first_such (accepts cfg) protos (k_protocol k) /\ first_such known_algorithm algs (k_algorithm k)
  /\ (k_c2s k, k_s2c k) = export (k_protocol k) (k_algorithm k)
  /\ length (k_cookies k) = 8%nat
  /\ (forall ck, In ck (k_cookies k) -> dec_cookie ck = Some (k_algorithm k, k_c2s k, k_s2c k))
  /\ e = Closed 0.
Proof. exact same_keys. Qed.

Theorem C28_site_census :
  TOKEN_TESTS = 2 /\ PROTOCOL_FIND = 1 /\ ALGORITHM_FIND = 1 /\ DEFAULT_NUMBER_OF_COOKIES = 8.
Proof. exact ntske_census. Qed.

(* non-vacuity: a server accepting only NTPv4 picks NTPv4 from [NTPv5; NTPv4]
   and the first known algorithm from [99; 17; 15]; a client that offered only
   NTPv4 accepts a response naming NTPv4 and rejects one naming NTPv5 *)
Definition ex_export : export_t := fun p a => ([p; a; 0], [p; a; 1]).
Definition ex_resp (p : Z) : list Z :=
  [128;1;0;2] ++ be16 p ++ [128;4;0;2;0;15; 0;5;0;1;7; 128;0;0;0].
Example C28_nonvacuous :
  (let '(resp, e, _) := handle_new (mkCfg [0] [] None None) ex_export false (Ok (KeyExchange [99; 17; 15] [32769; 0] [])) in
   (firstn 3 resp, e)) = ([RRec (NextProtocolR [0]); RRec (AeadAlgorithmR [17]); RCookie 17 [0; 17; 0] [0; 17; 1]], Closed 0)
  /\ client_process [0] [17; 15] ex_export [120] (ex_resp 0) = Ok (mkKex 4 0 15 123 [120] [0; 15; 0] [0; 15; 1] [[7]])
  /\ client_process [0] [17; 15] ex_export [120] (ex_resp 32769) = Err E_INVALID
  /\ client_process [32769; 0] [17; 15] ex_export [120] (ex_resp 32769) = Ok (mkKex 5 32769 15 123 [120] [32769; 15; 0] [32769; 15; 1] [[7]]).
Proof. vm_compute. repeat split. Qed.

Print Assumptions C28_server_choice.
Print Assumptions C28_accepts_supported.
Print Assumptions C28_server_cookies.
Print Assumptions C28_client_offered.
Print Assumptions C28_client_request.
Print Assumptions C28_same_keys.
Print Assumptions C28_site_census.
