(* C37  Only registered, usable sources influence the clock.
   Property theorems only; proofs are in Proofs/MsgLoop.v.

   Model/MsgLoop.v: the controller map id -> (option snapshot, usable), the handlers of the
   message loop, and schedules.  A schedule is a list of events (id, None) [the system calls
   add_source(id)] and (id, Some op) [the message of source task id: Measure s | SetUsable b |
   DropSrc], handled one at a time in channel (FIFO) order.  [interleaving scripts tr] says that
   the projection of tr on every id is that source's task (add_source, then its script, order
   preserved): the set of all such tr is the set of all interleavings of the source tasks.
   [src_view os] folds ONE source's own events: None = not registered, Some (last snapshot,
   last usability report).  Theorems hold for every world W (any selection / steering / vote
   function) and every schedule -- the first three even for ill-formed ones.  The wrapper's timer
   (time_update) is an extra event kind of the loop model [thandle]; it never changes the source
   map (last three theorems). *)
From V Require Import Model.Select Model.MsgLoop Proofs.MsgLoop.

(* Whatever the interleaving, what the controller holds for source j is determined by the
   events of source j alone, taken in the order j produced them (no other source, and no
   ordering between sources, can change it). *)
Theorem C37_state_is_per_source : forall W j tr,
  view_of j (state_after W tr) = src_view (ops_of j tr).
Proof. exact view_state_after. Qed.

(* Whenever the selection is computed (handling ev after the schedule prefix pre), the candidate
   list it gets consists exactly of the latest snapshots of the sources that are currently
   registered, were last reported usable, and have delivered a snapshot. *)
Theorem C37_candidates : forall W pre ev L,
  select_input (state_after W pre) ev = Some L ->
  forall k, In k (map snap_core L) <->
            exists j, src_view (ops_of j (pre ++ [ev])) = Some (Some k, true).
Proof. exact select_input_spec. Qed.

(* The sources reported as used for a clock update are among those candidates (for any selection
   function that returns some of its arguments, as select does: C03_members_qualify). *)
Theorem C37_used_sources_are_candidates : forall W pre ev L c' o u,
  (forall l s, In s (w_select W l) -> In s l) ->
  select_input (state_after W pre) ev = Some L ->
  handle W (state_after W pre) ev = (c', o) -> o_used o = Some u ->
  forall i, In i u -> exists s, In s L /\ snap_id s = i.
Proof. exact used_sources_are_candidates. Qed.

(* A message for a source that is not registered changes nothing and emits nothing ... *)
Theorem C37_ignored_when_unregistered : forall W tr i o,
  src_view (ops_of i tr) = None ->
  handle W (state_after W tr) (i, Some o) = (state_after W tr, out0).
Proof. exact ignored_when_unregistered. Qed.

(* ... in particular anything arriving for a source after its removal (ids are never added twice). *)
Theorem C37_after_removal : forall W tr1 tr2 i o,
  (forall ev, In ev tr2 -> ev <> (i, None)) ->
  handle W (state_after W (tr1 ++ (i, Some DropSrc) :: tr2)) (i, Some o)
  = (state_after W (tr1 ++ (i, Some DropSrc) :: tr2), out0).
Proof. exact ignored_after_removal. Qed.

(* In every interleaving of the source tasks, the snapshots the controller stores for source j
   are exactly the measurements of j's script, in the order j produced them. *)
Theorem C37_per_source_order : forall W scripts tr j sc,
  interleaving scripts tr -> scripts j = Some sc -> script_ok sc ->
  map snd (filter (fun p => fst p =? j) (stored_log W ctl_init tr)) = measures sc.
Proof. exact per_source_order. Qed.

(* Timer expiries (TimeUpdate events of the wrapper's loop, Model/MsgLoop.v [thandle]) are invisible
   to the source map: after any schedule of messages and timer expiries the map is the one after
   the schedule's messages alone, so every theorem above reads on [msgs tr] ... *)
Theorem C37_timer_leaves_sources_alone : forall W tr,
  c_map (l_ctl (tstate_after W tr)) = c_map (state_after W (msgs tr)).
Proof. exact tstate_map. Qed.

(* ... e.g. the per-source view and the candidates of a selection, with timer expiries anywhere. *)
Theorem C37_state_is_per_source_with_timer : forall W j tr,
  view_of j (l_ctl (tstate_after W tr)) = src_view (ops_of j (msgs tr)).
Proof. exact view_tstate_after. Qed.

Theorem C37_candidates_with_timer : forall W pre ev L,
  select_input (l_ctl (tstate_after W pre)) ev = Some L ->
  forall k, In k (map snap_core L) <->
            exists j, src_view (ops_of j (msgs (pre ++ [Msg ev]))) = Some (Some k, true).
Proof. exact select_input_spec_timed. Qed.

(* non-vacuity: two sources, an interleaving of their scripts, both usable with snapshots at the
   third-last event; after 1 is dropped a late message for 1 is ignored *)
Example C37_nonvacuous :
  let s i n := mkSnap n 100 100 0 (mkCand i false true 10 0 20) in
  let scripts i := if i =? 1 then Some [SetUsable true; Measure (s 1 7); DropSrc]
                   else if i =? 2 then Some [Measure (s 2 8); SetUsable true; Measure (s 2 9)] else None in
  let tr := [(1, None); (2, None); (2, Some (Measure (s 2 8))); (1, Some (SetUsable true));
             (2, Some (SetUsable true)); (1, Some (Measure (s 1 7))); (2, Some (Measure (s 2 9)));
             (1, Some DropSrc)] in
  let W := real_world (mkCfg 1 100) in
  (forall i, ops_of i tr = match scripts i with Some sc => task_events sc | None => [] end)
  /\ option_map (map snap_serial) (select_input (state_after W (firstn 6 tr)) (2, Some (Measure (s 2 9)))) = Some [9; 7]
  /\ snd (handle W (state_after W (firstn 6 tr)) (2, Some (Measure (s 2 9)))) = mkOut [2; 30] (Some [2; 1]) false
  /\ stored_log W ctl_init tr = [(2, 8); (1, 7); (2, 9)]
  /\ handle W (state_after W tr) (1, Some (Measure (s 1 10))) = (state_after W tr, out0).
Proof.
  cbv zeta. split; [|vm_compute; repeat split].
  intros i. unfold ops_of. cbn [filter fst].
  destruct (Z.eqb_spec 1 i) as [<-|H1]; [reflexivity|].
  destruct (Z.eqb_spec 2 i) as [<-|H2]; [reflexivity|].
  cbn. destruct (Z.eqb_spec i 1); [lia|]. destruct (Z.eqb_spec i 2); [lia|]. reflexivity.
Qed.

Print Assumptions C37_state_is_per_source.
Print Assumptions C37_candidates.
Print Assumptions C37_used_sources_are_candidates.
Print Assumptions C37_ignored_when_unregistered.
Print Assumptions C37_after_removal.
Print Assumptions C37_per_source_order.
Print Assumptions C37_timer_leaves_sources_alone.
Print Assumptions C37_state_is_per_source_with_timer.
Print Assumptions C37_candidates_with_timer.
