(* C01  Clock steps never exceed the configured panic thresholds.
   Property theorems only; proofs are in Proofs/Controller.v, the model in
   Model/Controller.v.

   Vocabulary (Model/Controller.v).  A history is a list of controller
   operations: [Update (Some e) leap] (update_clock reached a consensus with the
   combined estimate e -- ANY four floats: the theorems quantify over every
   estimate, hence over every measurement history that could produce it),
   [Update None _] (no consensus / early return), [TimeUpdate], and the direct
   calls [SteerOffset change freq_delta], [SteerFreq change] with any f64
   arguments (a superset of what update_clock can ask for).  [trace ar c s ops]
   runs the history from state s under configuration c and returns, per
   operation, the state it ran in and the clock calls it made, and the final
   state or the exit/panic that ended the history.  [startup_steps t] are the
   arguments of step_clock made while in_startup was set ("has not yet
   synchronised": the flag is cleared exactly by the first completed consensus
   update, C01_startup_flag), [later_steps t] those made afterwards.
   [within t d]: d < forward and -backward < d in Z (None = unbounded).

   [ar : arith] says which NtpDuration::abs / Neg is in the tree (wrapping =
   unrepaired, saturating = repaired, C32); every theorem is proved for both.
   The correspondence check runs the model with [repo_arith], read from the
   sources by the constants translator.

   [cfg_wf c] only says that the thresholds are i64 values.  Thresholds may be
   None, zero, negative, asymmetric; the algorithm floats (step_threshold, ...)
   are arbitrary, NaN and infinities included.  The starting state s is
   arbitrary as well (any kernel frequency, in_startup set or cleared). *)
From V Require Import Model.TimeTypes Model.Controller Proofs.Controller.
From Coq Require Import Floats.
Open Scope Z_scope.

(* Every step made before the first consensus lies inside the startup threshold.
   [neg_ok]: with the unrepaired wrapping Neg the statement excludes the single
   configuration backward = i64::MIN (a negative threshold of -2^31 s, which only
   the unvalidated per-direction form of C39 can produce); no exclusion for the
   saturating Neg. *)
Theorem C01_startup_steps : forall ar c ops s,
  cfg_wf c -> neg_ok ar (c_startup c) ->
  Forall (within (c_startup c)) (startup_steps (fst (trace ar c s ops))).
Proof. exact startup_steps_within. Qed.

(* Every later step lies inside the single-step threshold. *)
Theorem C01_single_steps : forall ar c ops s,
  cfg_wf c -> neg_ok ar (c_single c) ->
  Forall (within (c_single c)) (later_steps (fst (trace ar c s ops))).
Proof. exact later_steps_within. Qed.

(* The mathematical sum of |d| over the later steps never exceeds the accumulated
   threshold a (0 <= a < i64::MAX: a threshold of >= 2^31 s saturates the duration
   type and is "no bound representable", DESIGN.md 5).  For the saturating abs
   (repaired tree) unconditionally; for the wrapping abs of the unrepaired tree
   under the hypothesis that no later step is i64::MIN -- see C01_accumulated_refuted. *)
Theorem C01_accumulated : forall ar c ops s a,
  acc s = 0 -> c_acc c = Some a -> 0 <= a < i64_max ->
  (sat_abs ar = true \/
   Forall (fun d => d <> i64_min) (later_steps (fst (trace ar c s ops)))) ->
  sum_abs (later_steps (fst (trace ar c s ops))) <= a.
Proof. exact accumulated_bound. Qed.

(* The repaired arithmetic: no side condition at all. *)
Theorem C01_accumulated_saturating : forall c ops s a,
  acc s = 0 -> c_acc c = Some a -> 0 <= a < i64_max ->
  sum_abs (later_steps (fst (trace sat_arith c s ops))) <= a.
Proof. exact accumulated_bound_saturating. Qed.

(* Also for the unrepaired arithmetic whenever the single-step threshold bounds
   backward steps at all (then a step of i64::MIN cannot pass). *)
Theorem C01_accumulated_finite_backward : forall ar c ops s a b,
  cfg_wf c -> neg_ok ar (c_single c) ->
  bwd (c_single c) = Some b -> b <> i64_min ->
  acc s = 0 -> c_acc c = Some a -> 0 <= a < i64_max ->
  sum_abs (later_steps (fst (trace ar c s ops))) <= a.
Proof. exact accumulated_bound_finite_backward. Qed.

(* The faithful model of the UNREPAIRED tree refutes the unconditional statement:
   backward threshold inf, accumulated threshold 1800 s, requests -2^31 s, +1000 s,
   -1000 s after startup: all three steps are made, their sum is far above 1800 s and
   accumulated_steps ends negative (abs(i64::MIN) wraps).  DESIGN.md 4 row 1; replayed
   on the implementation by the check's corpus. *)
Theorem C01_accumulated_refuted :
  let t := fst (trace wrap_arith witness_cfg running_st witness_ops) in
  later_steps t = [i64_min; 1000 * 2 ^ 32; - (1000 * 2 ^ 32)] /\
  sum_abs (later_steps t) > 1800 * 2 ^ 32 /\
  exists s', snd (trace wrap_arith witness_cfg running_st witness_ops) = Ok s' /\ acc s' < 0.
Proof. exact accumulated_refuted_wrapping. Qed.

(* accumulated_steps is exactly that sum (clipped at i64::MAX). *)
Theorem C01_accumulated_is_sum : forall ar c ops s,
  acc_ok s ->
  (sat_abs ar = true \/
   Forall (fun d => d <> i64_min) (later_steps (fst (trace ar c s ops)))) ->
  (forall s', snd (trace ar c s ops) = Ok s' ->
     acc s' = Z.min (acc s + sum_abs (later_steps (fst (trace ar c s ops)))) i64_max) /\
  (forall a, c_acc c = Some a -> a < i64_max -> acc s <= a ->
     acc s + sum_abs (later_steps (fst (trace ar c s ops))) <= a).
Proof. exact accumulated_invariant. Qed.

(* When a correction would violate a threshold the daemon stops instead of stepping:
   a request above step_threshold either violates a threshold (startup threshold while
   in startup; afterwards the single-step threshold or the accumulated one) and then the
   operation makes no clock call at all and ends in the exit, or it does not and then
   exactly one step of the converted request is made. *)
Theorem C01_exit_instead_of_step : forall ar c s ch fd,
  cfg_wf c -> neg_ok ar (c_startup c) -> neg_ok ar (c_single c) -> acc_ok s ->
  PrimFloat.ltb (c_step_threshold c) (PrimFloat.abs ch) = true ->
  (sat_abs ar = true \/ from_seconds ch <> i64_min) ->
  (violates c s (from_seconds ch) /\
   exists p, steer_offset ar c s ch fd = ([], Panic p) /\ is_exit p = true) \/
  (~ violates c s (from_seconds ch) /\
   steer_offset ar c s ch fd =
     ([Step (from_seconds ch)],
      Ok (if in_startup s then s
          else set_acc s (Z.min (acc s + Z.abs (from_seconds ch)) i64_max)))).
Proof. exact steer_offset_spec. Qed.

(* No operation that ends in the exit (or in a panic) has stepped the clock, whatever
   the operation ... *)
Theorem C01_no_step_when_stopping : forall ar c s o cs r,
  step ar c s o = (cs, r) -> (forall s', r <> Ok s') -> steps_of cs = [].
Proof. exact step_not_ok_no_step. Qed.

(* ... a request at or below step_threshold never steps ... *)
Theorem C01_slew_does_not_step : forall ar c s ch fd cs r,
  PrimFloat.ltb (c_step_threshold c) (PrimFloat.abs ch) = false ->
  steer_offset ar c s ch fd = (cs, r) -> steps_of cs = [].
Proof. exact steer_offset_slew_no_step. Qed.

(* ... and nothing at all happens after the exit. *)
Theorem C01_nothing_after_exit : forall ar c ops1 ops2 s,
  (forall s', snd (run ar c s ops1) <> Ok s') ->
  run ar c s (ops1 ++ ops2) = run ar c s ops1.
Proof. exact run_stops. Qed.

(* "Has not yet synchronised" is the in_startup flag: an operation clears it exactly when it
   is a completed consensus update, and nothing sets it. *)
Theorem C01_startup_flag : forall ar c s o cs s',
  step ar c s o = (cs, Ok s') ->
  in_startup s' = in_startup s && negb (is_consensus_update o).
Proof. exact startup_flag. Qed.

(* The flat call list the correspondence compares is the trace without its annotation. *)
Theorem C01_trace_is_run : forall ar c ops s,
  run ar c s ops = (flat_map snd (fst (trace ar c s ops)), snd (trace ar c s ops)).
Proof. exact run_trace. Qed.

(* What ntpd/src/daemon/clock.rs hands to the kernel: (seconds, nanos) of
   as_seconds_nanos is the step rounded down to a whole nanosecond. *)
Theorem C01_kernel_step : forall d, in_i64 d ->
  let (s, n) := d_secs_nanos d in
  s * 1000000000 + n = (d * 1000000000) / 2 ^ 32 /\ 0 <= n < 1000000000 /\
  - 2 ^ 31 <= s < 2 ^ 31.
Proof. exact kernel_step. Qed.

(* non-vacuity: asymmetric thresholds, startup step then later steps up to the accumulated
   threshold, then the exit *)
Example C01_nonvacuous :
  let c := {| c_startup := {| fwd := None; bwd := Some (1800 * 2 ^ 32) |};
              c_single := {| fwd := Some (1000 * 2 ^ 32 + 1); bwd := Some (500 * 2 ^ 32) |};
              c_acc := Some (1500 * 2 ^ 32);
              c_step_threshold := c_step_threshold witness_cfg; c_slew_max := c_slew_max witness_cfg;
              c_slew_min_dur := 8%float; c_max_freq := c_max_freq witness_cfg; c_off_thr := 2%float;
              c_off_left := 1%float; c_freq_thr := 0%float; c_freq_left := 0%float |} in
  let ops := [Update (Some {| e_off := 1700%float; e_freq := 0%float; e_p00 := 1%float; e_p11 := 0%float |}) true;
              SteerOffset 1000%float 0%float; SteerOffset (-499)%float 0%float; SteerOffset 2%float 0%float] in
  let t := trace repo_arith c (init_st 0%float) ops in
  cfg_wf c /\ neg_ok repo_arith (c_startup c) /\ neg_ok repo_arith (c_single c) /\
  startup_steps (fst t) = [1699 * 2 ^ 32] /\
  later_steps (fst t) = [1000 * 2 ^ 32; - (499 * 2 ^ 32)] /\
  (exists p, snd t = Panic p /\ is_exit p = true).
Proof.
  vm_compute. repeat split; try discriminate; try (right; discriminate).
  eexists; split; reflexivity.
Qed.

Print Assumptions C01_startup_steps.
Print Assumptions C01_single_steps.
Print Assumptions C01_accumulated.
Print Assumptions C01_accumulated_saturating.
Print Assumptions C01_accumulated_finite_backward.
Print Assumptions C01_accumulated_refuted.
Print Assumptions C01_accumulated_is_sum.
Print Assumptions C01_exit_instead_of_step.
Print Assumptions C01_no_step_when_stopping.
Print Assumptions C01_slew_does_not_step.
Print Assumptions C01_nothing_after_exit.
Print Assumptions C01_startup_flag.
Print Assumptions C01_trace_is_run.
Print Assumptions C01_kernel_step.
