(* C05  Offset and delay follow the NTP on-wire formulas.
   Property theorems only; proofs are in Proofs/Measure.v and Proofs/TimeTypes.v.

   Conventions.  t1..t4 : Z are the TRUE instants (unbounded, in units of
   2^-32 s since some origin): client send, server receive, server transmit,
   client receive.  What the code sees are the 64-bit NTP timestamps
   Ti = ti mod 2^64 (era number lost).  [in_i64 x] (-2^63 <= x < 2^63) is
   "x is representable in the 64-bit duration type".  Reading of the
   statement's "whenever the true differences are representable" (DESIGN.md
   section 5): the two differences and their combination are representable;
   otherwise the documented saturation applies (C05_saturation).  The
   halving truncates toward zero (C05_halving). *)
From V Require Import Model.TimeTypes Model.Measure Proofs.TimeTypes Proofs.Measure.

(* era safety of a single timestamp difference *)
Theorem C05_era : forall ta tb,
  in_i64 (ta - tb) -> tsub (ta mod 2 ^ 64) (tb mod 2 ^ 64) = ta - tb.
Proof. exact tsub_era. Qed.

(* what one accepted server response makes the wrapper hand to the clock
   filter (the inner source controller): from ANY prior wrapper state [s]
   (so for every exchange of every history), exactly one measurement, whose
   offset is ((t2-t1)+(t3-t4))/2, whose delay is (t4-t1)-(t3-t2) and whose
   local time is T4.  [exchange_meas id T1 T2 T3 T4] is
   measurements_from_packet with send_time = T1, the packet's receive
   timestamp = T2, the packet's transmit timestamp = T3, recv_time = T4
   (the wiring of the four fields), fed outgoing first as process_message does. *)
Theorem C05_exchange : forall s id t1 t2 t3 t4,
  id <> clock_system ->
  in_i64 (t2 - t1) -> in_i64 (t3 - t4) -> in_i64 ((t2 - t1) + (t3 - t4)) ->
  in_i64 (t4 - t1) -> in_i64 (t3 - t2) -> in_i64 ((t4 - t1) - (t3 - t2)) ->
  twoway_run s (exchange_meas id (t1 mod 2 ^ 64) (t2 mod 2 ^ 64) (t3 mod 2 ^ 64) (t4 mod 2 ^ 64)) =
  Ok [mkIMeas (Some ((t4 - t1) - (t3 - t2))) (Z.quot ((t2 - t1) + (t3 - t4)) 2) (t4 mod 2 ^ 64)].
Proof. exact exchange_delivers_formulas. Qed.

(* offset and delay separately, each under its own representability hypotheses *)
Theorem C05_offset : forall t1 t2 t3 t4,
  in_i64 (t2 - t1) -> in_i64 (t3 - t4) -> in_i64 ((t2 - t1) + (t3 - t4)) ->
  wire_offset (t1 mod 2 ^ 64) (t2 mod 2 ^ 64) (t3 mod 2 ^ 64) (t4 mod 2 ^ 64)
  = Z.quot ((t2 - t1) + (t3 - t4)) 2.
Proof. exact wire_offset_exact. Qed.

Theorem C05_delay : forall t1 t2 t3 t4,
  in_i64 (t4 - t1) -> in_i64 (t3 - t2) -> in_i64 ((t4 - t1) - (t3 - t2)) ->
  wire_delay (t1 mod 2 ^ 64) (t2 mod 2 ^ 64) (t3 mod 2 ^ 64) (t4 mod 2 ^ 64)
  = (t4 - t1) - (t3 - t2).
Proof. exact wire_delay_exact. Qed.

(* every exchange of every history of one source: the delivered measurements
   are, one per exchange and in order, the wire_delay / wire_offset of that
   exchange's own four timestamps (no leakage between exchanges), for all
   64-bit timestamp quadruples without any representability hypothesis *)
Theorem C05_history : forall id exs s,
  id <> clock_system ->
  twoway_run s (flat_map (fun e => exchange_meas id (ex_t1 e) (ex_t2 e) (ex_t3 e) (ex_t4 e)) exs)
  = Ok (map exchange_result exs).
Proof. exact twoway_history. Qed.

(* outside the representable combination: saturation with the sign of the true value *)
Theorem C05_saturation : forall t1 t2 t3 t4,
  (in_i64 (t2 - t1) -> in_i64 (t3 - t4) ->
     ((t2 - t1) + (t3 - t4) >= 2 ^ 63 ->
        wire_offset (t1 mod 2 ^ 64) (t2 mod 2 ^ 64) (t3 mod 2 ^ 64) (t4 mod 2 ^ 64) = Z.quot (2 ^ 63 - 1) 2) /\
     ((t2 - t1) + (t3 - t4) < - 2 ^ 63 ->
        wire_offset (t1 mod 2 ^ 64) (t2 mod 2 ^ 64) (t3 mod 2 ^ 64) (t4 mod 2 ^ 64) = Z.quot (- 2 ^ 63) 2)) /\
  (in_i64 (t4 - t1) -> in_i64 (t3 - t2) ->
     ((t4 - t1) - (t3 - t2) >= 2 ^ 63 ->
        wire_delay (t1 mod 2 ^ 64) (t2 mod 2 ^ 64) (t3 mod 2 ^ 64) (t4 mod 2 ^ 64) = 2 ^ 63 - 1) /\
     ((t4 - t1) - (t3 - t2) < - 2 ^ 63 ->
        wire_delay (t1 mod 2 ^ 64) (t2 mod 2 ^ 64) (t3 mod 2 ^ 64) (t4 mod 2 ^ 64) = - 2 ^ 63)).
Proof. exact wire_saturation. Qed.

(* the halving: truncation toward zero, at most one unit (2^-32 s) lost, exact on even sums *)
Theorem C05_halving : forall s,
  Z.abs (s - 2 * Z.quot s 2) <= 1 /\ Z.abs (2 * Z.quot s 2) <= Z.abs s /\
  (Z.even s = true -> 2 * Z.quot s 2 = s).
Proof. exact quot2_spec. Qed.

(* the wrapper cannot panic, for any sequence of measurements in any order *)
Theorem C05_no_panic : forall ms s, exists r, twoway_run s ms = Ok r.
Proof. exact twoway_run_no_panic. Qed.

(* one-way sources (GPSd, PPS): offset = remote (sender) time minus local
   (receiver) time, local time = receiver time *)
Theorem C05_oneway : forall ts tr id,
  in_i64 (ts - tr) ->
  oneway_handle (mkMeas id (ts mod 2 ^ 64) (tr mod 2 ^ 64)) = mkIMeas None (ts - tr) (tr mod 2 ^ 64).
Proof. exact oneway_offset. Qed.

(* non-vacuity: an exchange across an era boundary (t1, t2 just before 2^64,
   t3, t4 just after), odd sum, negative offset; a saturating quadruple *)
Example C05_nonvacuous :
  let t1 := 2 ^ 64 - 1000 in let t2 := 2 ^ 64 - 1400 in
  let t3 := 2 ^ 64 + 99 in let t4 := 2 ^ 64 + 600 in
  twoway_run None (exchange_meas 7 (t1 mod 2 ^ 64) (t2 mod 2 ^ 64) (t3 mod 2 ^ 64) (t4 mod 2 ^ 64))
    = Ok [mkIMeas (Some 101) (-450) 600]
  /\ in_i64 ((t2 - t1) + (t3 - t4)) /\ in_i64 ((t4 - t1) - (t3 - t2))
  /\ wire_offset 0 (2 ^ 63 - 1) (2 ^ 63 - 1) 0 = 2 ^ 62 - 1
  /\ wire_delay (2 ^ 63) 0 0 (2 ^ 63 - 1) = -1.
Proof. vm_compute. repeat split; congruence. Qed.

Print Assumptions C05_era.
Print Assumptions C05_exchange.
Print Assumptions C05_offset.
Print Assumptions C05_delay.
Print Assumptions C05_history.
Print Assumptions C05_saturation.
Print Assumptions C05_halving.
Print Assumptions C05_no_panic.
Print Assumptions C05_oneway.
