(* C04  Leap-second announcements follow a strict majority of the selected
   sources.  Property theorems only; proofs are in Proofs/Combine.v. *)
From V Require Import Model.Combine Proofs.Combine.
From Coq Require Import Permutation.

(* The vote announces L exactly when L is a real indicator, no selected
   source is unsynchronised, and strictly more than half of the selected
   sources with a known leap status report L. *)
Theorem C04_majority : forall sel L,
  vote_leap sel = Ok (Some L) <->
  (votable L /\ ~ In Unsynchronized sel /\
   2 * count L sel > Z.of_nat (length sel) - count Unknown sel).
Proof. exact vote_majority. Qed.

(* Otherwise (and only otherwise) there is no announcement ... *)
Theorem C04_none : forall sel,
  vote_leap sel = Ok None <->
  (~ In Unsynchronized sel /\ forall L, votable L -> ~ majority L sel).
Proof. exact vote_none. Qed.

(* ... and the previous indicator is kept, with no status_update call. *)
Theorem C04_applied : forall prev v,
  apply_vote prev v = match v with Some l => (l, [l]) | None => (prev, []) end.
Proof. exact apply_vote_spec. Qed.

(* At most one indicator can have the majority, so the order in which the
   code tests the three candidates is immaterial. *)
Theorem C04_unique : forall L1 L2 sel,
  votable L1 -> votable L2 -> majority L1 sel -> majority L2 sel -> L1 = L2.
Proof. exact majority_unique. Qed.

(* The panic site is reached exactly when an unsynchronised source is selected
   (excluded by selection, C03_members_qualify). *)
Theorem C04_panic_iff : forall sel,
  (exists s, vote_leap sel = Panic s) <-> In Unsynchronized sel.
Proof. exact vote_panic_iff. Qed.

(* The vote depends on the multiset of the selected sources' indicators only:
   not on their order, and on nothing outside the selection (the function has
   no other argument). *)
Theorem C04_multiset_only : forall s1 s2,
  Permutation s1 s2 -> vote_leap s1 = vote_leap s2.
Proof. exact vote_perm. Qed.

(* non-vacuity: a 2-of-3 majority with one unknown vote removed *)
Example C04_nonvacuous :
  vote_leap [Leap61; Unknown; Leap61; NoWarning] = Ok (Some Leap61)
  /\ vote_leap [Leap61; NoWarning] = Ok None
  /\ vote_leap [Unknown; Unknown] = Ok None.
Proof. vm_compute. repeat split. Qed.

Print Assumptions C04_majority.
Print Assumptions C04_none.
Print Assumptions C04_applied.
Print Assumptions C04_unique.
Print Assumptions C04_panic_iff.
Print Assumptions C04_multiset_only.
