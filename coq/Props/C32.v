(* C32  Time arithmetic is exact, era-safe and never panics.
   Property theorems only; proofs are in Proofs/TimeTypes.v and Proofs/FloatConv.v.

   The model (Model/TimeTypes.v) is that of the REPAIRED code (branch fix-c32:
   saturating_neg / saturating_abs / saturating_div in NtpDuration,
   saturating_add/sub(1) in PollInterval::inc/dec).  On the unrepaired tree the
   correspondence fails at i64::MIN and the check reports the concrete input
   (C32_unrepaired_refuted is the same fact inside the model).

   [saturates_i64 exact result]: result = exact when exact fits i64, i64::MAX
   when exact is above, i64::MIN when below (saturates_i128 likewise).
   [no_wrap exact result]: result has the sign of exact and is no larger in
   magnitude.  Division by the scalar 0 panics in the code (as integer
   division does, also in statime-base's saturating_div); reading chosen: the
   property's "scaling never panics" is about non-zero scalars
   (C32_div states the panic happens exactly for k = 0). *)
From V Require Import Model.TimeTypes Model.FloatConv Model.TimeRun Proofs.TimeTypes Proofs.FloatConv Proofs.FloatConvSat.
(* Model.TimeRun is the dispatcher the correspondence check evaluates; importing it keeps it in the cone *)

(* Subtracting two NTP timestamps yields the shortest signed difference
   across era boundaries: the result is in the i64 range, congruent to a - b
   modulo 2^64, of minimal magnitude among all representatives, and the only
   such value *)
Theorem C32_sub_shortest : forall a b,
  in_i64 (tsub a b) /\
  (exists k, tsub a b = (a - b) + k * 2 ^ 64) /\
  (forall k, Z.abs (tsub a b) <= Z.abs ((a - b) + k * 2 ^ 64)) /\
  (forall d, in_i64 d -> (exists k, d = (a - b) + k * 2 ^ 64) -> d = tsub a b).
Proof. exact tsub_shortest_difference. Qed.

(* era safety on true (unbounded) instants *)
Theorem C32_sub_era : forall ta tb,
  in_i64 (ta - tb) -> tsub (ta mod 2 ^ 64) (tb mod 2 ^ 64) = ta - tb.
Proof. exact tsub_era. Qed.

(* ... and adding it back restores the timestamp (all 64-bit timestamps) *)
Theorem C32_add_back : forall a b, in_u64 a -> in_u64 b ->
  tadd b (tsub a b) = a /\ tsubd a (tsub a b) = b.
Proof. exact tsub_add_back. Qed.

Theorem C32_add_then_sub : forall t d, in_u64 t -> in_i64 d ->
  in_u64 (tadd t d) /\ in_u64 (tsubd t d) /\
  tsub (tadd t d) t = d /\ tsubd (tadd t d) d = t.
Proof. exact tadd_then_tsub. Qed.

(* duration addition, subtraction and scaling saturate instead of wrapping
   (total functions in the model: no panic site) *)
Theorem C32_dur_saturating : forall a b k,
  saturates_i64 (a + b) (dadd a b) /\ saturates_i64 (a - b) (dsub a b) /\
  saturates_i64 (a * k) (dmul a k) /\
  no_wrap (a + b) (dadd a b) /\ no_wrap (a - b) (dsub a b) /\ no_wrap (a * k) (dmul a k).
Proof. exact duration_ops_saturate. Qed.

(* negation and absolute value saturate (repaired code) *)
Theorem C32_neg_abs : forall a,
  saturates_i64 (- a) (dneg a) /\ saturates_i64 (Z.abs a) (dabs a) /\
  0 <= dabs a /\ no_wrap (- a) (dneg a).
Proof. exact neg_abs_saturate. Qed.

Theorem C32_abs_diff : forall a b, in_i64 a -> in_i64 b ->
  saturates_i64 (Z.abs (a - b)) (dabs_diff a b) /\ 0 <= dabs_diff a b.
Proof. exact abs_diff_saturates. Qed.

(* division by a scalar: saturates (only i64::MIN / -1 is affected), panics
   exactly when the scalar is zero *)
Theorem C32_div : forall a k,
  (k <> 0 -> exists r, ddiv a k = Ok r /\ saturates_i64 (Z.quot a k) r) /\
  ((exists s, ddiv a k = Panic s) <-> k = 0) /\
  (in_i64 a -> k <> 0 -> ~ (a = - 2 ^ 63 /\ k = -1) -> ddiv a k = Ok (Z.quot a k)).
Proof. exact div_saturates_and_panics_only_on_zero. Qed.

(* the code before the repair violates the three statements above at i64::MIN *)
Theorem C32_unrepaired_refuted :
  (exists a, in_i64 a /\ ~ saturates_i64 (- a) (dneg_wrap a)) /\
  (exists a, in_i64 a /\ ~ saturates_i64 (Z.abs a) (dabs_wrap a) /\ dabs_wrap a < 0) /\
  (exists a k, in_i64 a /\ k <> 0 /\ exists s, ddiv_unrepaired a k = Panic s).
Proof. exact unrepaired_neg_abs_div_refuted. Qed.

(* non-negative durations that fit the short (16.16) and time32 (4.28) wire
   formats encode and decode to within one unit of those formats; larger ones
   saturate; decoding then encoding is the identity; the only panic site is
   the assertion on negative durations *)
Theorem C32_short_time32 :
  (forall d, 0 <= d < 2 ^ 48 ->
     exists w, d_to_short d = Ok w /\ in_u32 w /\ d_from_short w <= d < d_from_short w + 2 ^ 16) /\
  (forall d, 0 <= d < 2 ^ 36 ->
     exists w, d_to_time32 d = Ok w /\ in_u32 w /\ d_from_time32 w <= d < d_from_time32 w + 2 ^ 4) /\
  (forall w, in_u32 w -> d_to_short (d_from_short w) = Ok w /\ d_to_time32 (d_from_time32 w) = Ok w) /\
  (forall d, 2 ^ 48 <= d -> d_to_short d = Ok (2 ^ 32 - 1)) /\
  (forall d, 2 ^ 36 <= d -> d_to_time32 d = Ok (2 ^ 32 - 1)) /\
  (forall d, ((exists s, d_to_short d = Panic s) <-> d < 0) /\
             ((exists s, d_to_time32 d = Panic s) <-> d < 0)).
Proof. exact wire_formats_roundtrip. Qed.

(* poll intervals: inc/dec/force_inc stay within i8 and the limits, never wrap *)
Theorem C32_poll : forall p lmin lmax, in_i8 p -> in_i8 lmin -> in_i8 lmax ->
  (in_i8 (poll_inc p lmax) /\ poll_inc p lmax <= lmax /\
   (p < lmax -> poll_inc p lmax = p + 1) /\ (lmax <= p -> poll_inc p lmax = lmax)) /\
  (in_i8 (poll_dec p lmin) /\ lmin <= poll_dec p lmin /\
   (lmin < p -> poll_dec p lmin = p - 1) /\ (p <= lmin -> poll_dec p lmin = lmin)) /\
  (in_i8 (poll_force_inc p) /\ p <= poll_force_inc p /\
   (p < 127 -> poll_force_inc p = p + 1) /\ (p = 127 -> poll_force_inc p = 127)) /\
  (1 <= poll_as_duration p <= 2 ^ 62 /\ (-32 <= p <= 30 -> poll_as_duration p = 2 ^ (p + 32))).
Proof. exact poll_ops_saturate. Qed.

(* The PTP timestamp and duration types obey the same wrapping and saturating
   laws (128 bit) *)
Theorem C32_ptp : forall a b k,
  (in_i128 (ptsub a b) /\ (exists j, ptsub a b = (a - b) + j * 2 ^ 128) /\
   (forall j, Z.abs (ptsub a b) <= Z.abs ((a - b) + j * 2 ^ 128))) /\
  (in_u128 a -> in_u128 b -> ptadd b (ptsub a b) = a /\ ptsubd a (ptsub a b) = b) /\
  (in_i128 b -> ptsub (ptadd a b) a = b) /\
  saturates_i128 (a + b) (pdadd a b) /\ saturates_i128 (a - b) (pdsub a b) /\
  saturates_i128 (a * k) (pdmul a k) /\
  (k <> 0 -> exists r, pddiv a k = Ok r /\ saturates_i128 (Z.quot a k) r) /\
  ((exists s, pddiv a k = Panic s) <-> k = 0).
Proof. exact ptp_laws. Qed.

(* PARTIAL.  Full statement wanted: for the binary64 model,
     forall d, in_i64 d -> ~ KnownClass_C32_roundtrip d ->
       Z.abs (from_seconds (to_seconds d) - d) * 10^9 < Z.abs d + 10^9
   (without the class exclusion it is refuted, see C32_roundtrip_refuted),
   (sign preservation and saturation of from_seconds ARE proved on the
   binary64 model for all doubles: C32_from_seconds_saturates, C32_from_seconds_sign).
   Proved here: the bound for the same computation in EXACT arithmetic
   ([roundtrip_exact]: seconds = d/(2^32-1), floor, fraction times 2^32-1,
   same saturation tests), i.e. the part of the error that is designed in
   (dividing by 2^32-1 and reassembling with 2^32; about 2.3e-10 |d|), and
   sign preservation of that exact round trip.  Missing: the rounding errors
   of the four binary64 operations (relative 2^-53 each, i.e. below
   |d| 2^-50 units) are not bounded by a theorem; the binary64 model
   ([to_seconds], [from_seconds], bit-exact, executable) is compared with the
   code on every run and the driver's monitor evaluates the 1e-9 bound on
   every round-trip case. *)
Theorem C32_roundtrip_partial : forall d, in_i64 d ->
  Z.abs (roundtrip_exact d - d) * 10 ^ 9 < Z.abs d + 10 ^ 9 /\
  (0 <= d -> d <= roundtrip_exact d) /\ (d < 0 -> roundtrip_exact d < 0).
Proof. exact roundtrip_exact_bound_sign. Qed.

(* REFUTED on the code (new finding, not in DESIGN.md section 4).  The statement
   "converting a duration to seconds and back changes it by less than one part
   per billion plus one unit", i.e. [roundtrip_bound d] for all d, is FALSE for
   the code: the bit-exact binary64 model returns d - 2 for d = -2100223
   (-0.49 ms), where the allowance is 1.002 units; the implementation returns
   the same (replayed by the driver on every run).  About 4e7 durations fail,
   all in [KnownClass_C32_roundtrip] = (-10^9, -2^21] units; an exhaustive
   run of the same arithmetic over [-2*10^9, 3*10^9) finds no failure outside
   the class and none with an error above 2 units.  Not repaired by fix-c32
   (see the builder's report for a candidate one-line repair: round the
   fractional product instead of truncating it). *)
Theorem C32_roundtrip_refuted :
  exists d, in_i64 d /\ KnownClass_C32_roundtrip d /\
            from_seconds (to_seconds d) = d - 2 /\ ~ roundtrip_bound d.
Proof. exact roundtrip_refuted. Qed.

(* conversion from seconds on the binary64 model at the boundary values, by
   evaluation (instances of the two theorems below, plus the exact values
   next to the thresholds): 2^31 s and f64::MAX saturate to i64::MAX,
   the double just below 2^31 does not, -2^31 s and below give i64::MIN,
   signs of the smallest subnormals and of the zeros are preserved *)
Theorem C32_from_seconds_boundaries :
  from_seconds (sf_of_bits f64_bits_2p31) = i64_max /\
  from_seconds (sf_of_bits f64_bits_below_2p31) = 2 ^ 63 - 2 ^ 32 + 4294966271 /\
  from_seconds (sf_of_bits f64_bits_m2p31) = i64_min /\
  from_seconds (sf_of_bits f64_bits_below_m2p31) = i64_min /\
  from_seconds (sf_of_bits f64_bits_max) = i64_max /\
  from_seconds (sf_of_bits (f64_bits_max + 2 ^ 63)) = i64_min /\
  from_seconds (sf_of_bits f64_bits_min_pos) = 0 /\
  from_seconds (sf_of_bits f64_bits_neg_tiny) = -1 /\
  from_seconds (sf_of_bits 0) = 0 /\ from_seconds (sf_of_bits (2 ^ 63)) = 0.
Proof. exact from_seconds_boundaries. Qed.

(* Conversion from seconds saturates and preserves the sign, on the bit-exact
   binary64 model, for EVERY 64-bit pattern b (all finite floating-point
   seconds; infinities included in the first theorem, NaN excluded):
   - magnitude >= 2^31 s (biased exponent field >= 1023+31): the result is
     i64::MAX for positive and i64::MIN for negative inputs;
   - every finite input: the result is non-negative for a clear sign bit and
     non-positive for a set sign bit (in particular +-0 -> 0), and the code's
     `(i << 32) | frac` never leaves the i64 range.
   The proof follows the code: floor, the rounded subtraction x - floor x
   stays in [0,1], the rounded product with 2^32-1 stays in [0, 2^32-1]
   (monotonicity of rounding, Flocq), truncation, shift and or. *)
Theorem C32_from_seconds_saturates : forall b, 0 <= b < 2 ^ 64 ->
  1054 <= (b / 2 ^ 52) mod 2 ^ 11 ->
  ((b / 2 ^ 52) mod 2 ^ 11 = 2047 -> b mod 2 ^ 52 = 0) ->
  from_seconds (sf_of_bits b) = if Z.testbit b 63 then i64_min else i64_max.
Proof. exact from_seconds_saturates_bits. Qed.

Theorem C32_from_seconds_sign : forall b, 0 <= b < 2 ^ 64 ->
  (b / 2 ^ 52) mod 2 ^ 11 <> 2047 ->
  let r := from_seconds (sf_of_bits b) in
  in_i64 r /\ (if Z.testbit b 63 then r <= 0 else 0 <= r).
Proof. exact from_seconds_sign_bits. Qed.

(* non-vacuity: an era-crossing difference, saturating sums, i64::MIN *)
Example C32_nonvacuous :
  tsub 5 (2 ^ 64 - 7) = 12 /\ tadd (2 ^ 64 - 7) 12 = 5 /\
  tsub 0 (2 ^ 63) = - 2 ^ 63 /\
  dadd (2 ^ 63 - 1) 1 = 2 ^ 63 - 1 /\ dsub (- 2 ^ 63) 1 = - 2 ^ 63 /\
  dmul (2 ^ 62) (-3) = - 2 ^ 63 /\
  dneg (- 2 ^ 63) = 2 ^ 63 - 1 /\ dabs (- 2 ^ 63) = 2 ^ 63 - 1 /\
  ddiv (- 2 ^ 63) (-1) = Ok (2 ^ 63 - 1) /\ ddiv 7 0 = Panic 1 /\ ddiv (-7) 2 = Ok (-3) /\
  d_to_short (2 ^ 32 + 2 ^ 15) = Ok (2 ^ 16) /\
  poll_inc 127 10 = 10 /\ poll_dec (-128) 4 = 4 /\
  pdadd (2 ^ 127 - 1) 5 = 2 ^ 127 - 1 /\ pddiv (- 2 ^ 127) (-1) = Ok (2 ^ 127 - 1) /\
  roundtrip_exact (-1) = -2 /\ from_seconds (to_seconds (-1)) = -2 /\
  from_seconds (to_seconds (2 ^ 40 + 12345)) = 2 ^ 40 + 12345 + 255 /\ roundtrip_exact (2 ^ 40 + 12345) = 2 ^ 40 + 12345 + 256.
Proof. vm_compute. repeat split; reflexivity. Qed.

Print Assumptions C32_sub_shortest.
Print Assumptions C32_sub_era.
Print Assumptions C32_add_back.
Print Assumptions C32_add_then_sub.
Print Assumptions C32_dur_saturating.
Print Assumptions C32_neg_abs.
Print Assumptions C32_abs_diff.
Print Assumptions C32_div.
Print Assumptions C32_unrepaired_refuted.
Print Assumptions C32_short_time32.
Print Assumptions C32_poll.
Print Assumptions C32_ptp.
Print Assumptions C32_roundtrip_partial.
Print Assumptions C32_roundtrip_refuted.
Print Assumptions C32_from_seconds_boundaries.
Print Assumptions C32_from_seconds_saturates.
Print Assumptions C32_from_seconds_sign.
