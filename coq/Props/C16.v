(* C16  Server responses are never larger than the request.
   Property theorems only; proofs are in Proofs/Response.v, the model in Model/Response.v. *)
From V Require Import Model.Response Proofs.Response Gen.ConstResponse.
From Coq Require Import String.
Local Open Scope Z_scope.

(* Every answer Server::handle produces fits the buffer it was given: whatever the request
   (any parsed request, well-formed or not), configuration, server state, clock and key/cookie
   algorithm, and for both shapes of the cookie loop (tf). *)
Theorem C16_cursor : forall tf cfg st q recv now mlen B stats w,
  handle tf cfg st q recv now mlen B = ORespond stats w -> wire_len w <= B.
Proof. exact handle_le. Qed.

(* the same for any response builder followed by serialize *)
Theorem C16_serialize_bounded : forall a B w, serialize a B = Ok w -> wire_len w <= B.
Proof. exact serialize_le. Qed.

(* The daemon's server task hands handle the receive buffer cut to the received length and a send
   buffer cut to the same length, and sends exactly the slice handle returns (the quoted source
   text is re-extracted from ntpd/src/daemon/server.rs and ntp-proto/src/server.rs on every run);
   so the datagram it sends is at most as long as the one it answers. *)
Theorem C16_daemon :
  (DAEMON_HANDLE_ARGS = "source_addr.ip(), convert_net_timestamp(timestamp), &buf[..length], &mut send_buf[..length], &mut self.stats, "%string
   /\ DAEMON_LENGTH_BINDING = "bytes_read: length"%string
   /\ DAEMON_RECV_CALL = "socket.recv(&mut buf)"%string
   /\ DAEMON_SEND_BUF_DECL = "let mut send_buf = [0u8; MAX_PACKET_SIZE];"%string
   /\ DAEMON_SEND_ARG = "send_from_to(message, local_addr, source_addr)"%string
   /\ DAEMON_HANDLE_CALLS = 1
   /\ HANDLE_CURSOR = "Cursor::new(buffer)"%string
   /\ HANDLE_RESULT_SLICE = "&cursor.into_inner()[..length as _]"%string) /\
  forall tf cfg st q recv now stats w,
    daemon_reply tf cfg st q recv now = ORespond stats w -> wire_len w <= request_len q.
Proof. split; [repeat split; reflexivity | exact daemon_le]. Qed.

(* NTPv5 padding: when the unpadded answer is not longer than the desired size and both are
   multiples of four, the answer is exactly as long as desired (= the request); when it is
   longer, nothing is added. *)
Theorem C16_v5_padding_exact : forall a B w w0 d,
  a_ver a = 5 -> a_desired a = Some d -> 0 <= d < 2 ^ 64 ->
  unpadded a = Ok w0 -> 0 <= wire_len w0 -> wire_len w0 mod 4 = 0 -> d mod 4 = 0 ->
  serialize a B = Ok w ->
  (wire_len w0 <= d -> wire_len w = d) /\ (d <= wire_len w0 -> w = w0).
Proof. exact serialize_v5_exact. Qed.

(* ... and a remainder of 1..3 bytes is never rounded up past the target: serialize fails *)
Theorem C16_v5_no_rounding : forall a B w w0 d,
  a_ver a = 5 -> a_desired a = Some d -> unpadded a = Ok w0 ->
  0 < d - wire_len w0 < 4 -> serialize a B = Ok w -> False.
Proof. exact serialize_v5_no_rounding. Qed.

(* every encoded list of (non-padding) extension fields has a length divisible by four *)
Theorem C16_mod4 : forall v5 minf fs b,
  Forall not_padding fs -> encode_fields v5 minf fs = Ok b -> len b mod 4 = 0.
Proof. exact encode_fields_mod4. Qed.

(* non-vacuity: a 73-byte-long-enough buffer gives an answer, a 75-byte buffer does not *)
Example C16_nonvacuous :
  let q := {| q_version := 4; q_mode := 3; q_poll := 6; q_xmit := [1;2;3;4;5;6;7;8]; q_upgrade := false;
              q_untrusted := [FUid [1;2;3;4;5;6;7;8;9;10;11;12]]; q_auth := []; q_enc := []; q_mac := 9;
              q_cookie := None; q_decrypt_failed := false; q_auths := [] |} in
  let cfg := {| c_intended := 3; c_require_nts := 0; c_accepted := [3; 4; 5] |} in
  let st := {| s_stratum := 2; s_leap := 0; s_refid := [1;2;3;4]; s_precision := 238; s_rdelay_short := [0;0;0;0];
               s_rdisp_short := [0;0;0;2]; s_rdelay_t32 := [0;0;0;0]; s_rdisp_t32 := [0;0;0;0]; s_filter := [] |} in
  let t := [0;0;0;100;0;0;0;0] in
  (exists s w, handle false cfg st q t t 73 1024 = ORespond s w /\ wire_len w = 76)
  /\ (exists s, handle false cfg st q t t 73 73 = OIgnore s)
  /\ request_len q = 73.
Proof. vm_compute. repeat split; eauto. Qed.

Print Assumptions C16_cursor.
Print Assumptions C16_serialize_bounded.
Print Assumptions C16_daemon.
Print Assumptions C16_v5_padding_exact.
Print Assumptions C16_v5_no_rounding.
Print Assumptions C16_mod4.
