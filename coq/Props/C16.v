(* C16  (stub while the correspondence is brought up) *)
From V Require Import Model.Response Proofs.Response.
Example C16_nonvacuous : next4 5 = 8. Proof. reflexivity. Qed.
