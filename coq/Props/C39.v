(* C39  Configuration loading never crashes and rejects unsafe thresholds.
   "Loading any configuration text either fails with an error or yields a
    configuration; it never crashes the daemon or ntp-ctl validate.  Accepted
    step thresholds are never negative or NaN, in either the single-number or
    the per-direction form."
   Property theorems only; proofs in Proofs/ConfigNum.v, model in
   Model/ConfigNum.v (the repaired code: the per-direction visitor validates
   like the single-number visitor).  The quantification is over every value a
   self-describing serde format can hand to the visitors (floats as arbitrary
   64-bit patterns, i64/u64 integers, strings, booleans, maps with arbitrary
   key sequences, sequences); the TOML/JSON text parsers are NOT modelled
   (partial: see C39_no_crash_partial). *)
From V Require Import Model.ConfigNum Proofs.ConfigNum Base.D3FloatFacts.
From Coq Require Import Floats.

(* Single-number form: accepted only as the string "inf" (no limit) or as a
   number that is not NaN, not infinite and not below zero; both directions
   then carry its conversion. *)
Theorem C39_single_form : forall debug s st,
  step_threshold_of debug (TScalar s) = Ok st ->
  (s = SStr true /\ st_forward st = None /\ st_backward st = None) \/
  (exists f, number_of_scalar s = Some f /\
     (f64_is_nan f = false /\ f64_is_infinite f = false /\ f64_lt0 f = false) /\
     st_forward st = Some (from_seconds f) /\ st_backward st = Some (from_seconds f)).
Proof. exact single_form_ok. Qed.

(* Per-direction form (and in fact every accepted threshold value, map or
   not): each direction is "no limit" or the conversion of a number that is
   not NaN, not infinite and not below zero. *)
Theorem C39_parts : forall debug v st,
  step_threshold_of debug v = Ok st ->
  (st_forward st = None \/ exists f, (f64_is_nan f = false /\ f64_is_infinite f = false /\ f64_lt0 f = false)
                                      /\ st_forward st = Some (from_seconds f)) /\
  (st_backward st = None \/ exists f, (f64_is_nan f = false /\ f64_is_infinite f = false /\ f64_lt0 f = false)
                                       /\ st_backward st = Some (from_seconds f)).
Proof. exact step_threshold_good. Qed.

(* One part: a limit-less direction comes only from the string "inf". *)
Theorem C39_part_accept : forall debug v o,
  threshold_part debug v = Ok o ->
  (v = PScalar (SStr true) /\ o = None) \/
  (exists s f, v = PScalar s /\ number_of_scalar s = Some f /\
     (f64_is_nan f = false /\ f64_is_infinite f = false /\ f64_lt0 f = false) /\
     o = Some (from_seconds f)).
Proof. exact threshold_part_ok. Qed.

(* On the wire, a float is acceptable iff its exponent field is not all ones
   and its sign bit is clear (or it is -0.0). *)
Theorem C39_good_number_bits : forall b,
  (f64_is_nan (f64_of_bits b) = false /\ f64_is_infinite (f64_of_bits b) = false /\
   f64_lt0 (f64_of_bits b) = false) <->
  (f64_exp_field b <> 2047 /\
   (f64_sign_bit b = false \/ (f64_exp_field b = 0 /\ f64_man_field b = 0))).
Proof. exact good_number_bits. Qed.

(* The thresholds of a loaded [synchronization] section (defaults included)
   are good whatever the order and number of the entries. *)
Theorem C39_loaded_section : forall debug fs c,
  load_sync debug fs default_sync = Ok c ->
  good_threshold (c_single c) /\ good_threshold (c_startup c).
Proof. exact loaded_section_good. Qed.

(* Never crashes, numeric part: no value reaches the only panic site of these
   paths (the debug assertion of NtpDuration::from_seconds), in either build
   profile; debug and release builds compute the same result.
   PARTIAL with respect to the property text: the TOML parser, the other
   fields of the document and Config::check are outside the model; they are
   exercised by the document stream of the check (generated and byte-mutated
   configuration texts under catch_unwind), which is testing, not proof. *)
Theorem C39_no_crash_partial : forall debug,
  (forall v p, step_threshold_of debug v <> Panic p) /\
  (forall v p, threshold_part debug v <> Panic p) /\
  (forall s p, duration_of debug s <> Panic p) /\
  (forall s p, accumulated_of debug s <> Panic p) /\
  (forall fs c p, load_sync debug fs c <> Panic p).
Proof. exact no_crash_all. Qed.

Theorem C39_profiles_agree : forall v,
  step_threshold_of true v = step_threshold_of false v.
Proof. exact step_threshold_profiles. Qed.

(* The converted value is a non-negative NtpDuration: for every float that is
   not NaN, not infinite and not below zero, from_seconds (floor, subtraction,
   multiplication and the two saturating casts on binary64) is >= 0; hence
   every direction of every accepted threshold is absent or >= 0. *)
Theorem C39_duration_nonneg : forall f,
  f64_is_nan f = false -> f64_is_infinite f = false -> f64_lt0 f = false ->
  0 <= from_seconds f.
Proof. exact duration_nonneg. Qed.

Theorem C39_thresholds_nonneg : forall debug v st,
  step_threshold_of debug v = Ok st ->
  (forall d, st_forward st = Some d -> 0 <= d) /\ (forall d, st_backward st = Some d -> 0 <= d).
Proof. exact thresholds_nonneg. Qed.

(* non-vacuity: { forward = 10, backward = 20 } and 0.5 are accepted with the
   expected durations; { forward = -5 }, { forward = nan }, { backward = -inf }
   and the single number -1 are rejected (the first three are the inputs the
   unrepaired code accepts) *)
Example C39_nonvacuous :
  step_threshold_of false (TMap [(KForward, PScalar (SInt 10)); (KBackward, PScalar (SInt 20))])
    = Ok {| st_forward := Some (10 * 2 ^ 32); st_backward := Some (20 * 2 ^ 32) |}
  /\ step_threshold_of false (TScalar (SFloat 0x3FE0000000000000))
    = Ok {| st_forward := Some (2 ^ 31 - 1); st_backward := Some (2 ^ 31 - 1) |}
  /\ step_threshold_of false (TMap [(KForward, PScalar (SInt (-5)))]) = Err EV_INVALID_VALUE
  /\ step_threshold_of true (TMap [(KForward, PScalar (SFloat 0x7FF8000000000000))]) = Err EV_INVALID_VALUE
  /\ step_threshold_of false (TMap [(KBackward, PScalar (SFloat 0xFFF0000000000000))]) = Err EV_INVALID_VALUE
  /\ step_threshold_of false (TScalar (SInt (-1))) = Err EV_INVALID_VALUE
  /\ step_threshold_of false (TMap [(KForward, PScalar (SStr true))])
    = Ok {| st_forward := None; st_backward := None |}.
Proof. vm_compute. repeat split. Qed.

Print Assumptions C39_single_form.
Print Assumptions C39_parts.
Print Assumptions C39_part_accept.
Print Assumptions C39_good_number_bits.
Print Assumptions C39_loaded_section.
Print Assumptions C39_no_crash_partial.
Print Assumptions C39_profiles_agree.
Print Assumptions C39_duration_nonneg.
Print Assumptions C39_thresholds_nonneg.
