(* C36  Source (re)spawning is paced and follows removal reasons.
   Property theorems only; proofs are in Proofs/Spawner.v.

   Model: Model/Spawner.v.  [task P fuel t0 s evs tc ties] is the log of one run of spawner_task
   (spawn/mod.rs) started at time t0 (milliseconds) around ANY spawner P (a state machine with
   is_complete, try_spawn returning a duration >= 0 and Ok/Err, the two handlers) in state s,
   for ANY schedule: events [evs] with arbitrary arrival times, the channel closed at [tc], any
   resolution [ties] of the races between a message and the timeout expiring at the same
   instant, any number [fuel] of loop iterations.  W = NETWORK_WAIT_PERIOD = 1000 ms.
   Log entries: Try t f info (try_spawn called at t, returned at f), Handled t e, IdleAt t (the
   timeout fired), Closed t.  Assumed, not verified: the handlers take no time (none of the
   repository's handlers contains a pending await) and tokio's timer semantics (a timeout fires
   exactly at its deadline on the clock the loop reads). *)
From V Require Import Model.Spawner Proofs.Spawner.

(* at most one attempt per wait period: any two attempts of a run start at least W apart; more
   precisely the later one starts at least W after the earlier one RETURNED *)
Theorem C36_pace : forall S (P : spawner S) fuel t0 s evs tc ties pre t1 f1 i1 mid t2 f2 i2 post,
  task P fuel t0 s evs tc ties = pre ++ Try t1 f1 i1 :: mid ++ Try t2 f2 i2 :: post ->
  f1 + W <= t2 /\ t1 + W <= t2.
Proof. exact task_pace. Qed.

(* while incomplete, keeps attempting at that pace.  PARTIAL as a statement about whole runs: it is
   proved for spawners that stay incomplete for the whole run (is_complete false in every state).
   For those, whatever the events: the first attempt is made at the start, every further one
   exactly W after the previous one returned; everything else the loop does in between (handling
   events, noticing the closed channel) happens no later than that deadline, a timeout is followed
   at once by the attempt, and the log ends only with the channel closed, try_spawn failing, or
   the cut-off of the model ([periodic], Model/Spawner.v).
   Missing: the same run-level statement for a spawner that alternates between complete and
   incomplete (next attempt at max(instant it is seen incomplete, previous return + W)); for such
   spawners only the three per-iteration theorems below are proved (they are what the run-level
   proof is made of), and the correspondence exercises alternating spawners on every run. *)
Theorem C36_keeps_trying_partial : forall S (P : spawner S) fuel t0 s evs tc ties,
  (forall x, sp_complete P x = false) -> periodic t0 None (task P fuel t0 s evs tc ties).
Proof. exact task_periodic. Qed.

(* the two facts behind it, for every spawner and every state at the top of the loop: an
   incomplete spawner is tried at once if a ticket is held or W has passed since the last attempt
   returned; otherwise no attempt is made *)
Theorem C36_attempt_when_due : forall S (P : spawner S) (st : lstate S),
  sp_complete P (sp st) = false -> (has_ticket st = true \/ last st + W <= now st) ->
  exists f i st1 failed, attempt_step P st = ([Try (now st) f i], st1, failed)
                         /\ has_ticket st1 = false /\ last st1 = f /\ now st1 = f /\ now st <= f.
Proof. exact attempt_when_due. Qed.

Theorem C36_no_attempt_otherwise : forall S (P : spawner S) (st : lstate S),
  sp_complete P (sp st) = true \/ (has_ticket st = false /\ now st < last st + W) ->
  fst (fst (attempt_step P st)) = [].
Proof. exact no_attempt_otherwise. Qed.

(* and the wait without a ticket never lasts beyond last + W; a timeout is exactly there *)
Theorem C36_wait_bounded : forall l n evs tc ties,
  l <= n -> n <= l + W ->
  let w := wait_step false l n evs tc ties in
  wait_time w <= l + W /\ (forall t ties', w = WIdle t ties' -> t = l + W).
Proof. exact wait_deadline. Qed.

(* The plain single-server spawner (standard.rs) inside the loop, for every DNS oracle and every
   schedule: an attempt is only ever made before the first source exists or after a removal for a
   reason other than Demobilized since the last source was spawned ([std_ok]): a demobilised
   source is never respawned. *)
Theorem C36_no_respawn_demobilized : forall dns fuel t0 evs tc ties,
  std_ok true (task (Std dns) fuel t0 std0 evs tc ties).
Proof. exact task_std_ok. Qed.

(* ... and after an Unreachable removal the next source is spawned on an address resolved anew
   (fresh = 1), while otherwise the address resolved before is used again without a lookup
   ([reresolves]). *)
Theorem C36_reresolve_unreachable : forall dns fuel t0 evs tc ties,
  reresolves None (task (Std dns) fuel t0 std0 evs tc ties).
Proof. exact task_reresolves. Qed.

(* Observation, not part of the property (it speaks of the plain spawner): the NTS single-server
   spawner (nts.rs) clears has_spawned on EVERY removal, so it does respawn (with a new key
   exchange) a source that was demobilised. *)
Theorem C36_nts_respawns_after_demobilized_observation : forall ke s,
  sp_complete (Nts ke) (sp_removed (Nts ke) s RDemobilized) = false.
Proof. exact nts_respawns_after_demobilized. Qed.

(* non-vacuity: a mock spawner failing twice (200 ms each) then succeeding, a burst of events
   before the first deadline, a removal that makes it incomplete again *)
Example C36_nonvacuous :
  task Mock 50 0 (mkmock false [(200, 0); (200, 0); (0, 1)])
       [(250, EvRegistered); (300, EvIdle); (900, EvRegistered); (5000, EvRemoved RNetworkIssue)] 7000 []
  = [Try 0 200 (Some [0]); Handled 250 EvRegistered; Handled 300 EvIdle; Handled 900 EvRegistered;
     IdleAt 1200; Try 1200 1400 (Some [0]); IdleAt 2400; Try 2400 2400 (Some [1]); IdleAt 3400;
     Handled 5000 (EvRemoved RNetworkIssue); Try 5000 5000 (Some [1]); IdleAt 6000; Closed 7000].
Proof. vm_compute. reflexivity. Qed.

(* standard spawner with the test resolver [1;2;3]: Demobilized does not respawn, NetworkIssue
   respawns on the cached address, Unreachable resolves again *)
Example C36_nonvacuous_std :
  task (Std (rot_dns [1; 2; 3])) 50 0 std0
       [(500, EvRemoved RDemobilized); (2500, EvRemoved RNetworkIssue); (2600, EvRemoved RUnreachable)] 9000 []
  = [Try 0 0 (Some [3; 1]); Handled 500 (EvRemoved RDemobilized); IdleAt 1000;
     Handled 2500 (EvRemoved RNetworkIssue); Try 2500 2500 (Some [3; 0]);
     Handled 2600 (EvRemoved RUnreachable); IdleAt 3500; Try 3500 3500 (Some [2; 1]); IdleAt 4500; Closed 9000].
Proof. vm_compute. reflexivity. Qed.

(* the two resolutions of a tie: an event arriving exactly when the timeout expires *)
Example C36_nonvacuous_tie :
  task Mock 50 0 (mkmock false [(0, 0); (0, 1)]) [(1000, EvRegistered)] 3000 [true]
  = [Try 0 0 (Some [0]); IdleAt 1000; Try 1000 1000 (Some [1]); Handled 1000 EvRegistered; IdleAt 2000; Closed 3000]
  /\ task Mock 50 0 (mkmock false [(0, 0); (0, 1)]) [(1000, EvRegistered)] 3000 [false]
  = [Try 0 0 (Some [0]); Handled 1000 EvRegistered; Try 1000 1000 (Some [1]); IdleAt 2000; Closed 3000].
Proof. vm_compute. split; reflexivity. Qed.

Print Assumptions C36_pace.
Print Assumptions C36_keeps_trying_partial.
Print Assumptions C36_attempt_when_due.
Print Assumptions C36_no_attempt_otherwise.
Print Assumptions C36_wait_bounded.
Print Assumptions C36_no_respawn_demobilized.
Print Assumptions C36_reresolve_unreachable.
Print Assumptions C36_nts_respawns_after_demobilized_observation.
