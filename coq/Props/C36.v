(* C36  Source (re)spawning is paced and follows removal reasons.
   Property theorems only; proofs are in Proofs/Spawner.v.

   Model: Model/Spawner.v.  [task P fuel t0 s evs tc ties] is the log of one run of spawner_task
   (spawn/mod.rs) started at time t0 (milliseconds) around ANY spawner P (a state machine with
   is_complete, try_spawn returning a duration >= 0 and Ok/Err, the two handlers) in state s,
   for ANY schedule: events [evs] with arbitrary arrival times, the channel closed at [tc], any
   resolution [ties] of the races between a message and the timeout expiring at the same
   instant, any number [fuel] of loop iterations.  W = NETWORK_WAIT_PERIOD = 1000 ms.
   Log entries: Try t f info (try_spawn called at t, returned at f), Handled t e, IdleAt t (the
   timeout fired), Closed t.  Assumed, not verified: the handlers take no time (none of the
   repository's handlers contains a pending await) and tokio's timer semantics (a timeout fires
   exactly at its deadline on the clock the loop reads). *)
From V Require Import Model.Spawner Proofs.Spawner.

(* at most one attempt per wait period: any two attempts of a run start at least W apart; more
   precisely the later one starts at least W after the earlier one RETURNED *)
Theorem C36_pace : forall S (P : spawner S) fuel t0 s evs tc ties pre t1 f1 i1 mid t2 f2 i2 post,
  task P fuel t0 s evs tc ties = pre ++ Try t1 f1 i1 :: mid ++ Try t2 f2 i2 :: post ->
  f1 + W <= t2 /\ t1 + W <= t2.
Proof. exact task_pace. Qed.

(* while incomplete, keeps attempting at that pace: for EVERY spawner (also one that alternates
   between complete and incomplete through try_spawn and the handlers), every schedule, every tie
   resolution, every fuel, the whole log satisfies [keeps] (Model/Spawner.v).  [keeps] follows the
   log together with the spawner's state (try_spawn / the handlers applied as the log says), the
   instant l at which the previous attempt RETURNED and the instant cur of the previous entry, and
   demands at every point of the run (start of the task, after every attempt, after every handled
   event, after every timeout):
     - spawner incomplete and an attempt due (no attempt made yet, or l + W <= cur): the next
       entry is the attempt, at cur itself;
     - an attempt not due (cur < l + W): the next entry (an event handled, the channel found closed,
       the timeout) is at an instant <= l + W, a timeout exactly at l + W, and it is not an attempt
       (so when that entry leaves the spawner incomplete at l + W the first case applies: the
       attempt starts at l + W; events arriving before l + W are handled in between);
     - an attempt is made only while the spawner is incomplete and due, it returns no earlier than
       it starts, and its result is the one try_spawn gave;
     - the log never simply stops: it ends with Closed (channel closed), with an attempt that
       returned Err, or with the cut-off of the model.
   Hence the loop never stops trying while the spawner is incomplete, until the channel closes or
   try_spawn fails. *)
Theorem C36_keeps_trying : forall S (P : spawner S) fuel t0 s evs tc ties,
  keeps P s None t0 (task P fuel t0 s evs tc ties).
Proof. exact task_keeps. Qed.

(* the same, read off at an arbitrary point of a run: if after the prefix [pre] (ghost values by
   [replay]: spawner state s', previous return lastf, instant cur) the spawner is incomplete, the
   next entry x is the attempt at cur when due, and otherwise something at an instant <= l + W
   (a timeout: exactly l + W); the log does not end there *)
Theorem C36_keeps_trying_next : forall S (P : spawner S) fuel t0 s evs tc ties pre x rest s' lastf cur,
  task P fuel t0 s evs tc ties = pre ++ x :: rest ->
  replay P s None t0 pre = (s', lastf, cur) -> sp_complete P s' = false ->
  match x with
  | Try t _ _ => t = cur /\ due lastf cur = true
  | Handled t _ | Closed t => exists l, lastf = Some l /\ cur < l + W /\ cur <= t <= l + W
  | IdleAt t => exists l, lastf = Some l /\ cur < l + W /\ t = l + W
  | OutOfFuel => rest = []
  end.
Proof. exact task_keeps_next. Qed.

(* the instant of the next attempt: if from some point of the run (after [pre]) up to the next
   attempt the spawner is incomplete at every loop top ([waiting]: before and after every entry of
   [mid], which contains no attempt), that attempt starts exactly at
   [deadline] = max(that point, previous return + W) (= that point if no attempt was made yet),
   and nothing the loop does in between is later *)
Theorem C36_next_attempt_instant : forall S (P : spawner S) fuel t0 s evs tc ties pre mid t f i post s' lastf cur,
  task P fuel t0 s evs tc ties = pre ++ mid ++ Try t f i :: post ->
  replay P s None t0 pre = (s', lastf, cur) -> waiting P s' mid ->
  t = deadline lastf cur /\ Forall (not_after t) mid.
Proof. exact task_next_attempt. Qed.

(* special case kept from the first version: a spawner that is never complete is tried exactly
   periodically: at the start, then exactly W after the previous attempt returned; everything else
   the loop does in between happens no later than that deadline, a timeout is followed at once by
   the attempt, and the log ends only with the channel closed, try_spawn failing, or the cut-off
   of the model ([periodic], Model/Spawner.v) *)
Theorem C36_keeps_trying_never_complete : forall S (P : spawner S) fuel t0 s evs tc ties,
  (forall x, sp_complete P x = false) -> periodic t0 None (task P fuel t0 s evs tc ties).
Proof. exact task_periodic. Qed.

(* the per-iteration facts, for every spawner and every state at the top of the loop: an
   incomplete spawner is tried at once if a ticket is held or W has passed since the last attempt
   returned; otherwise no attempt is made *)
Theorem C36_attempt_when_due : forall S (P : spawner S) (st : lstate S),
  sp_complete P (sp st) = false -> (has_ticket st = true \/ last st + W <= now st) ->
  exists f i st1 failed, attempt_step P st = ([Try (now st) f i], st1, failed)
                         /\ has_ticket st1 = false /\ last st1 = f /\ now st1 = f /\ now st <= f.
Proof. exact attempt_when_due. Qed.

Theorem C36_no_attempt_otherwise : forall S (P : spawner S) (st : lstate S),
  sp_complete P (sp st) = true \/ (has_ticket st = false /\ now st < last st + W) ->
  fst (fst (attempt_step P st)) = [].
Proof. exact no_attempt_otherwise. Qed.

(* and the wait without a ticket never lasts beyond last + W; a timeout is exactly there *)
Theorem C36_wait_bounded : forall l n evs tc ties,
  l <= n -> n <= l + W ->
  let w := wait_step false l n evs tc ties in
  wait_time w <= l + W /\ (forall t ties', w = WIdle t ties' -> t = l + W).
Proof. exact wait_deadline. Qed.

(* The plain single-server spawner (standard.rs) inside the loop, for every DNS oracle and every
   schedule: an attempt is only ever made before the first source exists or after a removal for a
   reason other than Demobilized since the last source was spawned ([std_ok]): a demobilised
   source is never respawned. *)
Theorem C36_no_respawn_demobilized : forall dns fuel t0 evs tc ties,
  std_ok true (task (Std dns) fuel t0 std0 evs tc ties).
Proof. exact task_std_ok. Qed.

(* ... and after an Unreachable removal the next source is spawned on an address resolved anew
   (fresh = 1), while otherwise the address resolved before is used again without a lookup
   ([reresolves]). *)
Theorem C36_reresolve_unreachable : forall dns fuel t0 evs tc ties,
  reresolves None (task (Std dns) fuel t0 std0 evs tc ties).
Proof. exact task_reresolves. Qed.

(* Observation, not part of the property (it speaks of the plain spawner): the NTS single-server
   spawner (nts.rs) clears has_spawned on EVERY removal, so it does respawn (with a new key
   exchange) a source that was demobilised. *)
Theorem C36_nts_respawns_after_demobilized_observation : forall ke s,
  sp_complete (Nts ke) (sp_removed (Nts ke) s RDemobilized) = false.
Proof. exact nts_respawns_after_demobilized. Qed.

(* non-vacuity: a mock spawner failing twice (200 ms each) then succeeding, a burst of events
   before the first deadline, a removal that makes it incomplete again *)
Example C36_nonvacuous :
  task Mock 50 0 (mkmock false [(200, 0); (200, 0); (0, 1)])
       [(250, EvRegistered); (300, EvIdle); (900, EvRegistered); (5000, EvRemoved RNetworkIssue)] 7000 []
  = [Try 0 200 (Some [0]); Handled 250 EvRegistered; Handled 300 EvIdle; Handled 900 EvRegistered;
     IdleAt 1200; Try 1200 1400 (Some [0]); IdleAt 2400; Try 2400 2400 (Some [1]); IdleAt 3400;
     Handled 5000 (EvRemoved RNetworkIssue); Try 5000 5000 (Some [1]); IdleAt 6000; Closed 7000].
Proof. vm_compute. reflexivity. Qed.

(* non-vacuity of C36_keeps_trying_next / C36_next_attempt_instant on the run above (an alternating
   spawner): after the prefix ending with the removal at 5000 the mock is incomplete, an attempt is
   due (2400 + W <= 5000) and is the next entry; after the first attempt (returned at 200) the
   three events are handled before the deadline 1200 and the attempt starts exactly there *)
Example C36_nonvacuous_alternating :
  let pre := [Try 0 200 (Some [0]); Handled 250 EvRegistered; Handled 300 EvIdle; Handled 900 EvRegistered;
              IdleAt 1200; Try 1200 1400 (Some [0]); IdleAt 2400; Try 2400 2400 (Some [1]); IdleAt 3400;
              Handled 5000 (EvRemoved RNetworkIssue)] in
  let s0 := mkmock false [(200, 0); (200, 0); (0, 1)] in
  replay Mock s0 None 0 pre = (mkmock false [], Some 2400, 5000)
  /\ sp_complete Mock (mkmock false []) = false
  /\ sp_complete Mock (fst (fst (replay Mock s0 None 0 (firstn 9 pre)))) = true
  /\ replay Mock s0 None 0 (firstn 1 pre) = (mkmock false [(200, 0); (0, 1)], Some 200, 200)
  /\ waiting Mock (mkmock false [(200, 0); (0, 1)])
       [Handled 250 EvRegistered; Handled 300 EvIdle; Handled 900 EvRegistered; IdleAt 1200]
  /\ deadline (Some 200) 200 = 1200 /\ deadline (Some 2400) 5000 = 5000.
Proof. vm_compute. repeat split; reflexivity. Qed.

(* standard spawner with the test resolver [1;2;3]: Demobilized does not respawn, NetworkIssue
   respawns on the cached address, Unreachable resolves again *)
Example C36_nonvacuous_std :
  task (Std (rot_dns [1; 2; 3])) 50 0 std0
       [(500, EvRemoved RDemobilized); (2500, EvRemoved RNetworkIssue); (2600, EvRemoved RUnreachable)] 9000 []
  = [Try 0 0 (Some [3; 1]); Handled 500 (EvRemoved RDemobilized); IdleAt 1000;
     Handled 2500 (EvRemoved RNetworkIssue); Try 2500 2500 (Some [3; 0]);
     Handled 2600 (EvRemoved RUnreachable); IdleAt 3500; Try 3500 3500 (Some [2; 1]); IdleAt 4500; Closed 9000].
Proof. vm_compute. reflexivity. Qed.

(* the two resolutions of a tie: an event arriving exactly when the timeout expires *)
Example C36_nonvacuous_tie :
  task Mock 50 0 (mkmock false [(0, 0); (0, 1)]) [(1000, EvRegistered)] 3000 [true]
  = [Try 0 0 (Some [0]); IdleAt 1000; Try 1000 1000 (Some [1]); Handled 1000 EvRegistered; IdleAt 2000; Closed 3000]
  /\ task Mock 50 0 (mkmock false [(0, 0); (0, 1)]) [(1000, EvRegistered)] 3000 [false]
  = [Try 0 0 (Some [0]); Handled 1000 EvRegistered; Try 1000 1000 (Some [1]); IdleAt 2000; Closed 3000].
Proof. vm_compute. split; reflexivity. Qed.

Print Assumptions C36_pace.
Print Assumptions C36_keeps_trying.
Print Assumptions C36_keeps_trying_next.
Print Assumptions C36_next_attempt_instant.
Print Assumptions C36_keeps_trying_never_complete.
Print Assumptions C36_attempt_when_due.
Print Assumptions C36_no_attempt_otherwise.
Print Assumptions C36_wait_bounded.
Print Assumptions C36_no_respawn_demobilized.
Print Assumptions C36_reresolve_unreachable.
Print Assumptions C36_nts_respawns_after_demobilized_observation.
