(* C09  Kiss-o'-death codes are handled conservatively.
   Property theorems only; proofs are in Proofs/SourceIncoming.v.

   A "valid answer" is a decoded packet accepted for the pending request:
   [accepts s now p = Some id] (pending, inside the window, expected version,
   valid_server_response).  [vstate s p] is [s] with only the version
   negotiation state advanced (C12).  Kiss predicates as in packet/mod.rs:
   NTPv3/4 by reference id; NTPv5: DENY = poll NEVER, RATE = poll above the
   interval just used, NTS NAK = authnak flag.  The statements are about the
   tree with branch fix-c07: a packet that is an NTS NAK is handled as NAK only. *)
From V Require Import Model.Source Gen.ConstSource Proofs.SourceBase Proofs.SourceIncoming.

(* RATE: no action; the remote minimum becomes at least the interval just used
   and at least one step above the old remote minimum (up to the configured
   maximum); nothing else of the polling / reachability state moves *)
Theorem C09_rate_step : forall c s now p id s' acts,
  accepts s now p = Some id -> is_kiss_ntsn p = false -> is_kiss_rate p (s_last_poll s) = true ->
  step_incoming c s now (Some p) = (s', acts) ->
  acts = [] /\ s_last_poll s <= s_remote_min s'
  /\ (in_i8 (s_remote_min s) -> s_remote_min s < 127 -> Z.min (s_remote_min s + 1) (c_max c) <= s_remote_min s')
  /\ s_last_poll s' = s_last_poll s /\ s_req s' = s_req s /\ s_deny s' = s_deny s
  /\ s_reach s' = s_reach s /\ s_stash s' = s_stash s.
Proof. exact rate_lengthens. Qed.

(* After a valid RATE answer the source never polls faster than it just did:
   every request of every continuation has a poll exponent >= the one of the
   request the RATE answered.  ([rate_inv]: the invariant of C09_remote_min_monotone,
   true after NtpSource::new; [wf_event]: poll fields and controller desires are i8.) *)
Theorem C09_rate_monotone : forall c s now p id s1 a evs s' tr,
  cfg_ok c -> rate_inv c s -> in_i8 (p_poll p) ->
  accepts s now p = Some id -> is_kiss_ntsn p = false -> is_kiss_rate p (s_last_poll s) = true ->
  step_incoming c s now (Some p) = (s1, a) ->
  Forall wf_event evs -> run c s1 evs = Ok (s', tr) ->
  Forall (fun x => match x with Send r => s_last_poll s <= r_poll r | _ => True end) (concat tr).
Proof. exact rate_never_faster. Qed.

(* the remote minimum never decreases, and every request polls at least that slowly *)
Theorem C09_remote_min_monotone : forall c evs s s' tr,
  cfg_ok c -> Forall wf_event evs -> rate_inv c s -> run c s evs = Ok (s', tr) ->
  rate_inv c s' /\ s_remote_min s <= s_remote_min s'
  /\ Forall (fun a => match a with Send r => s_remote_min s <= r_poll r | _ => True end) (concat tr).
Proof. exact remote_min_monotone. Qed.

Theorem C09_rate_inv_initially : forall c nts stash v, cfg_ok c -> rate_inv c (init c nts stash v).
Proof. exact init_rate_inv. Qed.

(* DENY / RSTR: an NTS source is demobilised at once ... *)
Theorem C09_deny_nts : forall c s now p id,
  accepts s now p = Some id -> is_kiss_ntsn p = false ->
  is_kiss_rstr p || is_kiss_deny p = true -> s_nts s = true ->
  step_incoming c s now (Some p) = (vstate s p, [Demobilize]).
Proof. exact deny_nts. Qed.

(* ... an unauthenticated source only remembers it ... *)
Theorem C09_deny_plain : forall c s now p id,
  accepts s now p = Some id -> is_kiss_ntsn p = false ->
  is_kiss_rstr p || is_kiss_deny p = true -> s_nts s = false ->
  step_incoming c s now (Some p) = (set_deny (vstate s p) true, []).
Proof. exact deny_plain. Qed.

(* ... and is demobilised solely by a timer that finds it unreachable (no usable
   answer in the register, at least three tries) with that memory set; every
   usable answer clears the memory *)
Theorem C09_plain_demobilize_only_if : forall c s e s' acts,
  s_nts s = false -> step c s e = Ok (s', acts) -> In Demobilize acts ->
  exists now d, e = Timer now d /\ s_reach s = 0 /\ STARTUP_TRIES_THRESHOLD <= s_tries s /\ s_deny s = true.
Proof. exact plain_demobilize_iff. Qed.

Theorem C09_demobilize_sources : forall c s e s' acts,
  step c s e = Ok (s', acts) -> In Demobilize acts ->
  (exists now d, e = Timer now d /\ s_reach s = 0 /\ STARTUP_TRIES_THRESHOLD <= s_tries s /\ s_deny s = true) \/
  (exists now p id, e = Incoming now (Some p) /\ s_nts s = true /\ accepts s now p = Some id
     /\ is_kiss_ntsn p = false /\ is_kiss_rstr p || is_kiss_deny p = true).
Proof. exact demobilize_sources. Qed.

Theorem C09_answer_clears_deny : forall c s now op s' acts id,
  step_incoming c s now op = (s', acts) -> In (Measure id) acts ->
  s_deny s' = false /\ s_reach s' = reach_received (s_reach s).
Proof. exact measure_clears_deny. Qed.

(* NTS NAK, or a kiss code that is none of RATE / DENY / RSTR: no action, and no
   field of the synchronisation, polling or demobilisation state changes
   ([vstate s p] differs from [s] in the version negotiation state only) *)
Theorem C09_ntsn_unknown_noop : forall c s now p id,
  accepts s now p = Some id ->
  is_kiss_ntsn p = true \/
  (is_kiss p = true /\ is_kiss_rate p (s_last_poll s) = false /\ is_kiss_rstr p = false /\ is_kiss_deny p = false) ->
  step_incoming c s now (Some p) = (vstate s p, []).
Proof. exact ntsn_unknown_noop. Qed.

(* non-vacuity: a plain NTPv4 source; RATE raises the remote minimum 4 -> 5, the next
   poll uses 5; DENY sets the memory; three silent polls later the timer demobilises *)
Example C09_nonvacuous :
  let c := mkCfg 4 10 in
  let kiss k o := Some (mkPkt 4 4 0 4 k false o false None [] []) in
  exists s', run c (init c false [] V4)
      [Timer 0 4; Incoming 10 (kiss KISS_RATE 0); Incoming 20 (kiss KISS_NTSN 0); Incoming 30 (kiss KISS_DENY 0);
       Timer 16000 4; Timer 32000 4; Timer 32000 4]
    = Ok (s', [[Send (mkReq 0 4 false 4 None 0 48); SetTimer 16]; []; []; [];
               [Send (mkReq 1 4 false 5 None 0 48); SetTimer 32];
               [Send (mkReq 2 4 false 5 None 0 48); SetTimer 32]; [Demobilize]]).
Proof. eexists. vm_compute. reflexivity. Qed.

Print Assumptions C09_rate_step.
Print Assumptions C09_rate_monotone.
Print Assumptions C09_remote_min_monotone.
Print Assumptions C09_rate_inv_initially.
Print Assumptions C09_deny_nts.
Print Assumptions C09_deny_plain.
Print Assumptions C09_plain_demobilize_only_if.
Print Assumptions C09_demobilize_sources.
Print Assumptions C09_answer_clears_deny.
Print Assumptions C09_ntsn_unknown_noop.
