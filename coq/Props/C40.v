(* C40  GPSd samples are validated before use.
   "A datagram on the GPSd socket becomes a measurement only if it has the exact
    sample size, the correct magic number, a zero pulse flag and a finite
    offset; any other datagram is rejected without crashing the daemon."
   Property theorems only; proofs are in Proofs/SockSample.v, the model in
   Model/SockSample.v (the repaired code: finite check, receive buffer one byte
   larger than a sample).  A datagram is any list of bytes, of any length. *)
From V Require Import Model.SockSample Proofs.SockSample Base.D3FloatFacts.
From Coq Require Import Floats.

(* The loop iteration (recv into the fixed buffer, receive_sample,
   deserialize_sample) yields a sample exactly when the DATAGRAM has 40 bytes,
   magic 0x534f434b at bytes 36..40, pulse 0 at 24..28 and a finite binary64 at
   16..24 (little endian); the sample is then the datagram's fields. *)
Theorem C40_accept_iff : forall (d : list Z) (s : sample),
  handle_datagram d = Ok s <->
  (length d = 40%nat /\ s = sample_of_buf d /\ s_magic s = 0x534f434b /\ s_pulse s = 0 /\
   f64_is_finite (f64_of_bits (s_offset s)) = true).
Proof. exact handle_accept_iff. Qed.

(* The same for the function deserialize_sample itself, for every reported
   receive result (None = I/O error) and every 40-byte buffer. *)
Theorem C40_deserialize_accept_iff : forall (r : option Z) (buf : list Z) (s : sample),
  length buf = 40%nat ->
  (deserialize_sample r buf = Ok s <->
   (r = Some 40 /\ s = sample_of_buf buf /\ s_magic s = 0x534f434b /\ s_pulse s = 0 /\
    f64_is_finite (f64_of_bits (s_offset s)) = true)).
Proof. exact deserialize_accept_iff. Qed.

(* "finite" on the wire: the exponent field of the pattern is not all ones;
   equivalently neither is_nan nor is_infinite (the two predicates of the
   debug assertion in NtpDuration::from_seconds) holds. *)
Theorem C40_finite_bits : forall b,
  f64_is_finite (f64_of_bits b) = true <-> (b / 2 ^ 52) mod 2 ^ 11 <> 2047.
Proof. exact accepted_offset_bits. Qed.

Theorem C40_finite_not_nan_inf : forall b,
  f64_is_finite (f64_of_bits b) = true <->
  (f64_is_nan (f64_of_bits b) = false /\ f64_is_infinite (f64_of_bits b) = false).
Proof. exact accepted_offset_not_nan_inf. Qed.

(* A datagram of any other length -- in particular a longer one, which recv
   truncates -- is rejected with WrongSize. *)
Theorem C40_wrong_length_rejected : forall d,
  length d <> 40%nat -> handle_datagram d = Err E_SIZE.
Proof. exact handle_wrong_length. Qed.

(* The controller is handed a measurement exactly for accepted samples ... *)
Theorem C40_measurement_only_if_accepted : forall time d m,
  task_step time d = Some m <->
  exists s, handle_datagram d = Ok s /\ m = measurement_of time s.
Proof. exact task_step_some. Qed.

(* ... and the offset the controller derives from it (sender - receiver,
   wrapping) is the negated conversion of the sample's offset by
   NtpDuration::from_seconds, the receive time being the clock reading. *)
Theorem C40_measurement : forall time s,
  m_receiver_ts (measurement_of time s) = time /\
  measured_offset (measurement_of time s) =
    to_signed 64 (- from_seconds (f64_of_bits (s_offset s))).
Proof. exact measurement_spec. Qed.

(* No datagram reaches a panic site (slice ranges, copy_from_slice). *)
Theorem C40_total : forall d p, handle_datagram d <> Panic p.
Proof. exact handle_no_panic. Qed.

Theorem C40_deserialize_total : forall r buf p,
  length buf = 40%nat -> deserialize_sample r buf <> Panic p.
Proof. exact deserialize_no_panic. Qed.

(* non-vacuity: the sample of the repository's unit test is accepted and gives
   the measurement offset -318975.70479866 s; the same datagram with an
   infinite offset, and a 50-byte datagram starting with it, are rejected *)
Example C40_nonvacuous :
  (exists s, handle_datagram example_dgram = Ok s /\
     s_offset s = 0x411377fed1b6bd7d /\
     measured_offset (measurement_of 12345 s) = -1369990220328798)
  /\ handle_datagram (firstn 16 example_dgram ++ [0;0;0;0;0;0;240;127] ++ skipn 24 example_dgram)
     = Err E_OFFSET
  /\ handle_datagram (example_dgram ++ repeat 0 10) = Err E_SIZE.
Proof. split; [eexists; split; [vm_compute; reflexivity| split; vm_compute; reflexivity] | split; vm_compute; reflexivity]. Qed.

Print Assumptions C40_accept_iff.
Print Assumptions C40_deserialize_accept_iff.
Print Assumptions C40_finite_bits.
Print Assumptions C40_finite_not_nan_inf.
Print Assumptions C40_wrong_length_rejected.
Print Assumptions C40_measurement_only_if_accepted.
Print Assumptions C40_measurement.
Print Assumptions C40_total.
Print Assumptions C40_deserialize_total.
