(* C19  NTS server answers are authenticated and carry valid fresh cookies.
   Property theorems only; proofs are in Proofs/Response.v, the model in Model/Response.v.

   nts_timestamp_response exists in two shapes (parameter tf of the model, read from the tree by the
   constants translator: TAKE_BEFORE_FILTER_SITES / TAKE_AFTER_FILTER_SITES).  With take(MAX_COOKIES)
   applied to the fields looked at (tf = false, the tree before `fix: count cookies, not request fields`)
   the statement "every time answer to an authenticated request can be authenticated" is FALSE
   (C19_unauthenticated_refuted); with the limit applied to the cookies handed out (tf = true) it holds
   (C19_answer_authenticates), and C19_tree_counts_cookies pins the tree to that shape. *)
From V Require Import Model.Response Proofs.Response Gen.ConstResponse.
Local Open Scope Z_scope.

(* A request whose NTS authentication fails is never answered with time: only an NTS-NAK, or a DENY
   when the access policy denies the client. *)
Theorem C19_no_time_on_auth_failure : forall cfg q k alg stats,
  q_decrypt_failed q = true -> decision cfg q = inl (Some (k, alg, stats)) ->
  (k = KNak /\ stats = [q_version q; 1; 2; 0]) \/ (k = KDeny /\ c_intended cfg = 1).
Proof. exact decision_decrypt_failed. Qed.

(* An NTS time answer is only given to a client-mode request whose authenticator decrypted under the
   keys of its cookie. *)
Theorem C19_time_needs_authentication : forall cfg q alg stats,
  decision cfg q = inl (Some (KNtsTime, alg, stats)) ->
  q_decrypt_failed q = false /\ q_cookie q = Some alg /\ q_mode q = 3 /\ stats = [q_version q; 1; 4; c_intended cfg].
Proof. exact decision_nts_time. Qed.

(* the tree has the shape in which the limit counts cookies *)
Example C19_tree_counts_cookies : TAKE_AFTER_FILTER_SITES = 2 /\ TAKE_BEFORE_FILTER_SITES = 0 /\ tree_tf = true.
Proof. repeat split; reflexivity. Qed.

(* With that shape every NTS time answer has a non-empty encrypted part: the request's own cookie
   (an authenticated field at least as long as a fresh cookie, wf_request) yields a fresh one ... *)
Theorem C19_fresh_cookie_present : forall alg q,
  existsb (fun f => match f with FCookie n => cookie_len alg <=? n | _ => false end) (q_auth q) = true ->
  fresh_cookies true alg q <> [].
Proof. exact fresh_nonempty. Qed.

(* ... and an answer with a non-empty encrypted part is serialized with the session's server-to-client
   cipher and carries the NTS authenticator field (16-byte nonce) whose plaintext holds exactly those cookies;
   all unique identifiers precede it (C18_fields_subset: a_untrusted = [], they are authenticated). *)
Theorem C19_answer_authenticates : forall a B w,
  a_ver a <> 3 -> a_enc a <> [] -> serialize a B = Ok w ->
  a_cipher a = true /\
  exists fl ct, w_auth w = Some (fl, NONCE_LEN_256, ct, map cookie_code (a_enc a)).
Proof. exact serialize_auth_present. Qed.

(* Without it the statement fails: an NTPv4 NTS request without unique identifier whose cookie is the
   ninth field gets a time answer (statistics: nts = 1, ProvideTime) that is a bare 48-byte header. *)
Theorem C19_unauthenticated_refuted : exists cfg st q recv now,
  wf_request q = true /\ q_cookie q = Some 15 /\ q_decrypt_failed q = false /\
  exists w, handle false cfg st q recv now (request_len q) (request_len q) = ORespond [4; 1; 4; 3] w
    /\ w_auth w = None /\ wire_len w = 48.
Proof.
  exists {| c_intended := 3; c_require_nts := 0; c_accepted := [3; 4; 5] |}.
  exists {| s_stratum := 2; s_leap := 0; s_refid := [1;2;3;4]; s_precision := 238; s_rdelay_short := [0;0;0;0];
            s_rdisp_short := [0;0;0;2]; s_rdelay_t32 := [0;0;0;0]; s_rdisp_t32 := [0;0;0;0]; s_filter := [] |}.
  exists {| q_version := 4; q_mode := 3; q_poll := 6; q_xmit := [1;2;3;4;5;6;7;8]; q_upgrade := false;
            q_untrusted := [];
            q_auth := [FUnknown 9 12; FUnknown 9 12; FUnknown 9 12; FUnknown 9 12; FUnknown 9 12; FUnknown 9 12;
                       FUnknown 9 12; FUnknown 9 12; FCookie 104];
            q_enc := []; q_mac := 0; q_cookie := Some 15; q_decrypt_failed := false; q_auths := [(16, 16, 40)] |}.
  exists [0;0;0;100;0;0;0;0], [0;0;0;100;0;0;0;1].
  vm_compute. repeat split; eauto.
Qed.

(* At most one fresh cookie per cookie or placeholder of the request that is at least as long as a
   fresh cookie, never more than eight, and every one of them is a cookie of the session's algorithm
   (its length is that of KeySet::encode_cookie for that algorithm) -- for both shapes. *)
Theorem C19_cookie_bounds : forall tf alg q,
  len (fresh_cookies tf alg q) <= RESP_MAX_COOKIES
  /\ len (fresh_cookies tf alg q) <= len (filter (big_slot (cookie_len alg)) (q_auth q ++ q_enc q))
  /\ Forall (fun f => f = FCookie (cookie_len alg)) (fresh_cookies tf alg q).
Proof. exact fresh_cookies_bounds. Qed.

(* Every fresh cookie is made by encode_cookie from the decoded cookie of the request (algorithm and
   both session keys): under an ideal AEAD (Section hypothesis dec_enc, visible below) it decodes under
   the same key set to the same algorithm and keys.  keys[primary] out of range is the panic site of C27. *)
Theorem C19_cookie_keys : forall (key nonce : Type) (enc : key -> nonce -> list Z -> list Z)
    (dec : key -> nonce -> list Z -> option (list Z)),
  (forall k n p, dec k n (enc k n p) = Some p) ->
  forall (ks : keyset key) n alg s2c c2s c,
  0 <= ks_primary key ks < 2 ^ 32 -> 0 <= ks_offset key ks < 2 ^ 32 ->
  encode_cookie key nonce enc ks n alg s2c c2s = Ok c ->
  decode_cookie key nonce dec ks c = Some (cookie_plain alg s2c c2s).
Proof. exact cookie_roundtrip. Qed.

Example C19_nonvacuous :
  let q := {| q_version := 4; q_mode := 3; q_poll := 6; q_xmit := [1;2;3;4;5;6;7;8]; q_upgrade := false;
              q_untrusted := []; q_auth := [FUid [1;2;3;4;5;6;7;8;9;10;11;12]; FCookie 104; FPlaceholder 104; FPlaceholder 100];
              q_enc := [FPlaceholder 104]; q_mac := 0; q_cookie := Some 15; q_decrypt_failed := false;
              q_auths := [(16, 124, 148)] |} in
  wf_request q = true /\ fresh_cookies true 15 q = [FCookie 104; FCookie 104; FCookie 104]
  /\ fresh_cookies false 15 q = [FCookie 104; FCookie 104; FCookie 104].
Proof. vm_compute. repeat split. Qed.

Print Assumptions C19_no_time_on_auth_failure.
Print Assumptions C19_time_needs_authentication.
Print Assumptions C19_fresh_cookie_present.
Print Assumptions C19_answer_authenticates.
Print Assumptions C19_unauthenticated_refuted.
Print Assumptions C19_cookie_bounds.
Print Assumptions C19_cookie_keys.
