(* C10  Poll intervals stay within configured and requested bounds.
   Property theorems only; proofs are in Proofs/SourcePoll.v.

   [cfg_ok c]: -128 < min <= max < 127 (the property's configurations have
   0 <= min <= initial <= max <= 17).  The float tests of update_desired_poll
   (weight, period ratio, step threshold) are inputs of the model: the theorem
   holds whatever they evaluate to. *)
From V Require Import Model.Source Gen.ConstSource Gen.ConstSourceS2 Proofs.SourceBase Proofs.SourceIncoming Proofs.SourcePoll.

(* The clock filter's own desired interval always lies within the configured
   limits: in the initial phase it is the minimum, the stable filter starts at
   the configured initial interval and moves by clamped steps. *)
Theorem C10_filter_desire : forall c initial hyst evs,
  cfg_ok c -> within c initial ->
  within c (get_desired_poll c (fold_left (dstep c initial hyst) evs DInitial)).
Proof. exact filter_desire_initial. Qed.

Theorem C10_filter_desire_any_phase : forall c initial hyst evs ph,
  cfg_ok c -> within c initial -> desire_ok c ph ->
  desire_ok c (fold_left (dstep c initial hyst) evs ph).
Proof. exact filter_desire. Qed.

(* Every request of a source created by NtpSource::new, in every history whose
   timers are handed a desire within the limits (C10_filter_desire): the poll
   exponent is at least the configured minimum and at most the larger of the
   configured maximum and the intervals asked for by the NTPv5 answers the
   source accepted so far (RATE answers never push it beyond that bound). *)
Theorem C10_poll_bounds : forall c nts stash v evs s' tr,
  c_min c <= c_max c -> Forall (desire_in c) evs ->
  run c (init c nts stash v) evs = Ok (s', tr) ->
  Forall (send_within (c_min c)
            (fold_right Z.max (c_max c) (accepted_polls c (init c nts stash v) evs)))
         (concat tr).
Proof. exact poll_bounds. Qed.

(* general form, from any state and any bound B that dominates the maximum, the
   current remote minimum / last interval and every accepted request *)
Theorem C10_poll_bounds_from : forall c evs s s' tr B,
  Forall (desire_in c) evs -> c_max c <= B -> s_remote_min s <= B -> s_last_poll s <= B ->
  run c s evs = Ok (s', tr) ->
  Forall (fun q => q <= B) (accepted_polls c s evs) ->
  Forall (send_within (c_min c) B) (concat tr).
Proof. exact poll_bounds_gen. Qed.

(* The timer armed with a request of exponent p is jitter * 2^p seconds for
   0 <= p <= 31, the exponent being clamped to that range otherwise (DESIGN.md
   section 5); the jitter is drawn by the implementation from [1.01, 1.05] --
   [C10_timer_window] is the window the correspondence check enforces on the
   real timer (nanoseconds, +- 1 ns for Duration::mul_f64's rounding). *)
Theorem C10_timer : forall c s now d s' acts r b,
  step_timer c s now d = Ok (s', acts) -> In (Send r) acts -> In (SetTimer b) acts ->
  b = 2 ^ Z.max 0 (Z.min SYSTEM_DURATION_MAX_SHIFT (r_poll r)).
Proof. exact timer_value. Qed.

Theorem C10_timer_window : forall b ns,
  obs_eqb (OTimer b) (OTimer ns) = true <->
  (100 + JITTER_LO_PERCENT) * 10000000 * b - 1 <= ns <= (100 + JITTER_HI_PERCENT) * 10000000 * b + 1.
Proof. exact timer_window. Qed.

(* non-vacuity: limits 4..6; the filter walks up to the maximum and is clamped; an
   NTPv5 answer asking for 9 makes the next request use 9 (> max), bounded by it *)
Example C10_nonvacuous :
  let c := mkCfg 4 6 in
  get_desired_poll c (fold_left (dstep c 5 1)
     [DBecomeStable; DUpdate true false false; DUpdate true false false; DUpdate true false false] DInitial) = 6
  /\ (let ans := Some (mkPkt 5 4 2 9 0 false 0 false None [] []) in
      exists s', run c (init c false [] V5) [Timer 0 4; Incoming 10 ans; Timer 16000 5]
        = Ok (s', [[Send (mkReq 0 5 false 4 None 0 96); SetTimer 16]; [Measure 0];
                   [Send (mkReq 1 5 false 9 None 0 96); SetTimer 512]])
      /\ accepted_polls c (init c false [] V5) [Timer 0 4; Incoming 10 ans; Timer 16000 5] = [9]).
Proof. vm_compute. split; [reflexivity|]. eexists. split; reflexivity. Qed.

Print Assumptions C10_filter_desire.
Print Assumptions C10_filter_desire_any_phase.
Print Assumptions C10_poll_bounds.
Print Assumptions C10_poll_bounds_from.
Print Assumptions C10_timer.
Print Assumptions C10_timer_window.
