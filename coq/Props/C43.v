(* C43 placeholder while the tie is being set up; replaced by the real theorems *)
From V Require Import Model.PtpControllerRun.
Theorem C43_placeholder_partial : True. Proof. exact I. Qed.
Example C43_nonvacuous : True. Proof. exact I. Qed.
Print Assumptions C43_placeholder_partial.
