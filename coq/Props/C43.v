(* C43  The PTP clock controller reports and steers consistently.
   Property theorems only; proofs are in Proofs/PtpController.v, Proofs/PtpControllerInv.v,
   Proofs/EstimatorAbsorb.v and Proofs/F64Clamp.v.  Model: Model/PtpController.v (LinkFilter,
   KalmanController and KalmanControllerState::steer_clocks of statime-algo over binary64, on
   top of Model/Estimator.v), as the code is AFTER the repair of KalmanController::clock_frequency
   (branch fix-c43; the unrepaired code returns the offset estimate).

   Vocabulary.  [qo f id] / [qf f id] are the filter's offset / frequency query of clock id
   (value, uncertainty).  [bumped F ch r r'] : r = Ok (v, u) and r' = Ok (v + ch, u), one
   binary64 addition.  [steer_decision old k id a] is what steer_clocks decides for the k-th
   steered clock from the filter [old] and the clock's answers a = (get_frequency, max_frequency):
   the call made on the clock and the change handed to the filter.  [effect chg id flt flt'] : the
   filter's reports for clock id move from flt to flt' by exactly that change.  [fnan] = is NaN.
   All arithmetic is Coq's primitive binary64 (the same IEEE 754 operations the code executes). *)
From V Require Import Model.PtpControllerRun Proofs.Estimator Proofs.EstimatorAbsorb Proofs.F64Clamp
  Proofs.PtpController Proofs.PtpControllerInv.

(* The frequency query reports the frequency entry of the requested clock (row base_index + 1 of
   the state, and the square root of its variance), the offset query the offset entry (row
   base_index); for an unknown clock the query fails. *)
Theorem C43_frequency_query : forall (c : ctl) id ci,
  WF (f_est (c_filter c)) -> get_clock_info (f_est (c_filter c)) id = Some ci ->
  ctl_clock_frequency c id =
    Ok (mget FO (e_state (f_est (c_filter c))) (ci_base ci + 1) 0,
        sqrt (mget FO (e_unc (f_est (c_filter c))) (ci_base ci + 1) (ci_base ci + 1))) /\
  ctl_clock_offset c id =
    Ok (mget FO (e_state (f_est (c_filter c))) (ci_base ci) 0,
        sqrt (mget FO (e_unc (f_est (c_filter c))) (ci_base ci) (ci_base ci))).
Proof. exact ctl_clock_frequency_spec. Qed.

Theorem C43_frequency_query_unknown : forall (c : ctl) id,
  get_clock_info (f_est (c_filter c)) id = None -> ctl_clock_frequency c id = Err E_UnknownClock.
Proof. exact ctl_clock_frequency_unknown. Qed.

(* Every frequency handed to a clock by a completed steer_clocks: the clock is the k-th steered
   clock; with its answers a = (cur, max) and the filter's estimates (offset, freq) before the
   call, wanted = cur - freq - offset/8; max is not NaN (otherwise f64::clamp panics and nothing
   is set), the frequency set is NaN exactly when wanted is NaN, and otherwise lies in [-max, max]. *)
Theorem C43_clamped : forall now ans (c c' : ctl) calls id f,
  WF (f_est (c_filter c)) -> NoDup (c_clocks c) ->
  steer_clocks now ans c = Ok (c', calls) -> In (SetFrequency id f) calls ->
  exists k offset ou freq fu,
    nth_error (c_clocks c) k = Some id /\
    qo (c_filter c) id = Ok (offset, ou) /\ qf (c_filter c) id = Ok (freq, fu) /\
    let a := nth k ans no_answers in
    let wanted := wanted_steer a freq offset in
    fnan (ca_max a) = false /\
    (fnan wanted = true -> fnan f = true) /\
    (fnan wanted = false ->
       fnan f = false /\ (- ca_max a <=? f)%float = true /\ (f <=? ca_max a)%float = true).
Proof. exact steer_frequency_clamped. Qed.

(* the clamp itself, for all binary64 values *)
Theorem C43_clamp_range : forall x lo hi r, f64_clamp x lo hi = Ok r ->
  (lo <=? hi)%float = true /\
  (fnan x = true -> fnan r = true) /\
  (fnan x = false -> fnan r = false /\ (lo <=? r)%float = true /\ (r <=? hi)%float = true).
Proof. exact clamp_in_range. Qed.

(* A completed steer_clocks: the filter is first progressed to `now` (flt); every steered clock
   gets exactly one call, in order; and for the k-th clock the controller's own estimate moves
   from flt to the final filter by exactly the change that belongs to that call:
   set_frequency(f) with get_frequency() = cur  ->  frequency estimate + (f - cur), offset unchanged;
   step_clock(d) on the system clock            ->  offset estimate + d as seconds, frequency unchanged;
   step_clock(trunc(-offset 2^64)) on another   ->  offset estimate + (-offset), frequency unchanged
   (one binary64 addition each); the estimates of all other clocks are those of flt. *)
Theorem C43_absorbed : forall now ans (c c' : ctl) calls,
  WF (f_est (c_filter c)) -> NoDup (c_clocks c) ->
  steer_clocks now ans c = Ok (c', calls) ->
  exists flt (dcs : list (call * change)),
    f_progress_time now (c_filter c) = Ok flt /\
    c_clocks c' = c_clocks c /\ WF (f_est (c_filter c')) /\
    calls = map fst dcs /\ length dcs = length (c_clocks c) /\
    (forall id, ~ In id (c_clocks c) ->
       qo (c_filter c') id = qo flt id /\ qf (c_filter c') id = qf flt id) /\
    forall k id, nth_error (c_clocks c) k = Some id ->
      exists dc, nth_error dcs k = Some dc /\
        steer_decision (c_filter c) k id (nth k ans no_answers) = Ok dc /\
        effect (snd dc) id flt (c_filter c').
Proof. exact steer_clocks_spec. Qed.

(* which call goes with which change *)
Theorem C43_decision : forall old index id a dc, steer_decision old index id a = Ok dc ->
  exists offset ou, qo old id = Ok (offset, ou) /\
  ((exists freq fu actual, qf old id = Ok (freq, fu) /\
      f64_clamp (wanted_steer a freq offset) (- ca_max a)%float (ca_max a) = Ok actual /\
      dc = (SetFrequency id actual, FreqChange (actual - ca_cur a)%float)) \/
   (let step := duration_from_f64_seconds (- offset)%float in
    dc = (StepClock id step, if (index =? 0)%nat then SystemStep step else OffsetChange (- offset)%float))).
Proof. exact steer_decision_cases. Qed.

(* The hypotheses of the two theorems above hold after every history of controller operations
   (creation and removal of clocks, external clocks and links, external data updates,
   measurements with any oracle values, steering, time progression), starting from
   KalmanController::new. *)
Theorem C43_invariant : forall now id maxf w c (ops : list cop),
  ctl_new now id maxf w = Ok c ->
  let c' := cstate ops c in
  WF (f_est (c_filter c')) /\ NoDup (c_clocks c') /\
  (forall x, In x (c_clocks c') -> is_internal_clock (f_est (c_filter c')) x = true).
Proof.
  intros now id maxf w c ops H. destruct (history_CtlWF now id maxf w c ops H) as [H1 H2 H3]. auto.
Qed.

(* non-vacuity: a clock with offset estimate 0.5 s +- 1 ms, frequency estimate 2e-6, current steer
   0 and max 1e-7 is set to -1e-7 (clamped), and the filter's frequency estimate becomes
   2e-6 + (-1e-7 - 0); the system clock (offset 0 +- 1e18) is stepped by 0 *)
Example C43_nonvacuous :
  match ctl_new 1000 0 0x1p-20 0x1p-30 with
  | Ok c0 =>
      match cstep (CACX 1 0.5 0x1p-10 0x1p-19 0x1p-23 0x1p-30) c0 with
      | (c1, _) =>
          match steer_clocks 1000 [{| ca_cur := 0; ca_max := 0x1p-20 |}; {| ca_cur := 0; ca_max := 0x1p-23 |}] c1 with
          | Ok (c2, calls) =>
              calls = [StepClock 0 0; SetFrequency 1 (-0x1p-23)] /\
              option_map fst (match qf (c_filter c2) 1 with Ok x => Some x | _ => None end)
                = Some (0x1p-19 + (-0x1p-23 - 0))%float
          | _ => False
          end
      end
  | _ => False
  end.
Proof. vm_compute. split; reflexivity. Qed.

Print Assumptions C43_frequency_query.
Print Assumptions C43_frequency_query_unknown.
Print Assumptions C43_clamped.
Print Assumptions C43_clamp_range.
Print Assumptions C43_absorbed.
Print Assumptions C43_decision.
Print Assumptions C43_invariant.
