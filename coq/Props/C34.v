(* C34  NTPv5 Bloom filters are transferred faithfully.
   Property theorems only; proofs are in Proofs/Bloom.v; model Model/Bloom.v
   (a filter = its 512 bytes, a server id = its ten 12-bit indices, a client
   cookie = an integer). *)
From V Require Import Model.Bloom Proofs.Bloom.
From V Require Import Gen.ConstSource.

(* No false negatives, and adding never removes: after add_id the id is
   reported, every id reported before still is, and nothing panics. *)
Theorem C34_no_false_negative : forall f id, length f = NBYTES -> id_ok id ->
  exists f', add_id f id = Ok f' /\ length f' = NBYTES /\
    contains_id f' id = Ok true /\
    (forall id', id_ok id' -> contains_id f id' = Ok true -> contains_id f' id' = Ok true).
Proof. exact add_id_contains. Qed.

(* ... and the same for the union of two filters (BloomFilter::add), both ways *)
Theorem C34_union_keeps_members : forall f g id,
  length f = NBYTES -> length g = NBYTES -> id_ok id ->
  length (bf_add f g) = NBYTES /\
  (contains_id f id = Ok true -> contains_id (bf_add f g) id = Ok true) /\
  (contains_id g id = Ok true -> contains_id (bf_add f g) id = Ok true).
Proof. exact bf_add_contains. Qed.

(* The server answers a chunk request with exactly the requested bytes of its
   filter, or not at all (when the request reaches beyond byte 512). *)
Theorem C34_server_chunk : forall f plen off, length f = NBYTES -> 0 <= plen -> 0 <= off ->
  to_response (mkReq plen off) f =
    (if off + plen <=? BLOOM_BYTES then Some (slice f (Z.to_nat off) (Z.to_nat plen)) else None) /\
  (forall b, to_response (mkReq plen off) f = Some b -> Z.of_nat (length b) = plen).
Proof. exact to_response_spec. Qed.

(* RemoteBloomFilter::new accepts exactly the chunk sizes that are multiples of
   4, in 1..512, dividing 512 *)
Theorem C34_chunk_sizes : forall cs, 0 <= cs < 65536 ->
  (valid_chunk cs <-> exists r, rbf_new cs = Some r) /\
  (forall r, rbf_new cs = Some r -> r = mkRbf bf_new cs None 0 false).
Proof. exact rbf_new_some. Qed.

(* A chunk is accepted only for the request currently outstanding (same client
   cookie) and only in the requested size; handle_response cannot panic. *)
Theorem C34_accept_only_current : forall cs r c b, valid_chunk cs -> rinv cs r ->
  (accepted r (Resp c b) = true <->
     exists off, last_req r = Some (off, c) /\ Z.of_nat (length b) = chunk r) /\
  (forall s, handle_response r c b <> Panic s).
Proof. exact accept_iff. Qed.

(* Every history of requests and responses (genuine, stale, duplicated, wrong
   cookie, wrong size, in any order), provided that whatever passes the two
   acceptance tests is the server's answer to the outstanding request
   ([honest]): the run never panics; full_filter is Some exactly when 512/chunk
   answers were accepted, and then it is the server's filter; before that
   the bytes below next_to_request already agree with the server's. *)
Theorem C34_complete : forall cs f evs r0, 0 <= cs < 65536 -> length f = NBYTES ->
  rbf_new cs = Some r0 -> honest f r0 evs ->
  exists r, brun r0 evs = Ok r /\
    (filled r = true <-> 512 / cs <= Z.of_nat (n_accepted r0 evs)) /\
    (forall g, full_filter r = Some g -> g = f) /\
    (filled r = false -> next r = Z.of_nat (n_accepted r0 evs) * cs /\
        firstn (Z.to_nat (next r)) (filter r) = firstn (Z.to_nat (next r)) f).
Proof. exact transfer_new. Qed.

(* [honest] follows from the protocol discipline: requests use fresh client
   cookies, and a response carrying the cookie of an earlier request carries
   the server's answer to that request (or has the wrong size). *)
Theorem C34_discipline_suffices : forall cs f evs r0, 0 <= cs < 65536 -> length f = NBYTES ->
  rbf_new cs = Some r0 -> disciplined f cs r0 [] evs -> honest f r0 evs.
Proof. exact disciplined_transfer. Qed.

(* non-vacuity: chunk 256, two rounds with a stale answer in between *)
Example C34_nonvacuous :
  let f := unsparse [0; 255; 300; 7; 511; 128] bf_new in
  let a0 := slice f 0 256 in let a1 := slice f 256 256 in
  let evs := [Req 5; Resp 5 a0; Req 6; Resp 5 a0; Resp 6 (junk 1 8); Resp 6 a1; Resp 6 a1] in
  exists r0 r, rbf_new 256 = Some r0 /\ disciplined f 256 r0 [] evs /\ brun r0 evs = Ok r /\
    n_accepted r0 evs = 2%nat /\ full_filter r = Some f /\
    brun r0 (firstn 5 evs) = Ok (mkRbf (splice bf_new 0 a0) 256 (Some (256, 6)) 256 false) /\
    contains_id f [7; 6; 5; 4; 3; 2; 1; 0; 2401; 2402] = Ok true.
Proof.
  intros f a0 a1 evs. eexists. eexists. split; [reflexivity|]. split.
  - unfold evs.
    step_disc. split; [intros H; destruct H|].
    step_disc. split; [solve_ans|].
    step_disc. split; [intros H; vm_compute in H; intuition congruence|].
    step_disc. split; [solve_ans|].
    step_disc. split; [solve_ans|].
    step_disc. split; [solve_ans|].
    step_disc. split; [solve_ans|]. exact I.
  - vm_compute. repeat split.
Qed.

Print Assumptions C34_no_false_negative.
Print Assumptions C34_union_keeps_members.
Print Assumptions C34_server_chunk.
Print Assumptions C34_chunk_sizes.
Print Assumptions C34_accept_only_current.
Print Assumptions C34_complete.
Print Assumptions C34_discipline_suffices.
