(* C06  Clock filter output stays finite and well-formed.  Property theorems only; the
   proofs are in Proofs/Kalman.v.  The Kalman model (Model/Kalman.v) is written once against
   a numeric interface; it is executed at binary64 (bit-exact with the Rust code, checked by
   the correspondence on every run) and the theorems below are about the SAME code at the
   real numbers ([ROps fs rem]; [fs] = NtpDuration::from_seconds and [rem] = f64 `%` are
   arbitrary functions there).  [sp m Q] = every side condition recorded by [m] (divisor <> 0,
   sqrt argument >= 0 -- every division and square root of the model records one) holds, and
   the result satisfies Q.  [Inv P] = P is symmetric positive semidefinite.
   What is NOT proved: that the rounded binary64 computation keeps these invariants (named
   partial gap; attacked at run time by the adversarial histories of tools/props/c06.py). *)
From V Require Import Model.Kalman Model.KalmanRun Proofs.Kalman Proofs.KalmanSource Proofs.KalmanTie Gen.ConstKalman.
From Coq Require Import Reals Lra String.
Close Scope float_scope.
Open Scope R_scope.

(* time update: covariance stays PSD for wander >= 0 at any (non-negative, guarded) time step;
   it becomes strictly positive when wander > 0 and time really advanced *)
Theorem C06_progress_exact : forall fs rem fuel k time w per,
  Inv (unc k) -> 0 <= w ->
  sp (progress_time (ROps fs rem) fuel k time w per)
     (fun k' => Inv (unc k') /\ (0 < w -> (0 < ts_sub time (ktime k))%Z -> 0 < a00 (unc k'))).
Proof. exact progress_sp. Qed.

(* measurement update as used by the source filter (H = [1 0]): innovation variance
   P00 + R > 0 suffices for 1/S, chi_1's sqrt and 1/(1+P x) to be defined; result PSD *)
Theorem C06_absorb_exact : forall fs rem fuel k value nz per corr e,
  Inv (unc k) -> 0 <= nz -> 0 < a00 (unc k) + nz ->
  sp (absorb (ROps fs rem) fuel k (Kalman.c1 (ROps fs rem)) (Kalman.c0 (ROps fs rem)) value nz per corr e)
     (fun r => Inv (unc (fst (fst r))) /\ ktime (fst (fst r)) = ktime k).
Proof. exact absorb_sp. Qed.

(* combination of two estimates: defined and PSD when det(P1+P2) > 0 *)
Theorem C06_merge_exact : forall fs rem k1 k2,
  Inv (unc k1) -> Inv (unc k2) ->
  0 < det2 (ROps fs rem) (madd2 (ROps fs rem) (unc k1) (unc k2)) ->
  sp (merge (ROps fs rem) k1 k2) (fun k' => Inv (unc k') /\ ktime k' = ktime k1).
Proof. exact merge_sp. Qed.

Theorem C06_dispersion_exact : forall fs rem k disp,
  Inv (unc k) ->
  Inv (unc (add_server_dispersion (ROps fs rem) k disp)) /\
  a00 (unc k) <= a00 (unc (add_server_dispersion (ROps fs rem) k disp)).
Proof. exact dispersion_inv. Qed.

Theorem C06_offset_steering_exact : forall fs rem fuel k steer per,
  sp (k_offset_steering (ROps fs rem) fuel k steer per) (fun k' => unc k' = unc k).
Proof. exact offset_steering_sp. Qed.

Theorem C06_frequency_steering_exact : forall fs rem fuel k time steer w per,
  Inv (unc k) -> 0 <= w ->
  sp (k_frequency_steering (ROps fs rem) fuel k time steer w per) (fun k' => Inv (unc k')).
Proof. exact frequency_steering_sp. Qed.

(* TimeSnapshot::root_dispersion: the sqrt argument is non-negative for a PSD (base, linear,
   quadratic) and cubic >= 0 whenever `now` is not before the base time *)
Theorem C06_root_dispersion_exact : forall fs rem base lin quad cubic t0 now,
  0 <= base -> 0 <= quad -> 0 <= base * quad - lin * lin -> 0 <= cubic -> is_before now t0 = false ->
  sp (root_dispersion (ROps fs rem) base lin quad cubic t0 now) (fun _ => True).
Proof. exact root_dispersion_sp. Qed.

(* ---- whole histories of a source controller (KalmanSourceController: two-way with the delay
   buffer, one-way with a fixed noise >= 0; periodic or not) ----
   For EVERY configuration with initial_wander <> 0, EVERY list of events -- measurements with
   arbitrary offsets, delays, times and oracle values, Step and FreqChange messages of the
   clock controller with arbitrary arguments (the steering fed back) -- such that no
   measurement is taken at exactly the instant the filter state is at ([hist_ok]; this is
   weaker than "strictly increasing local times": measurements from the past are allowed, they
   are ignored by the code), in exact arithmetic:
     * every divisor met is non-zero and every sqrt argument is non-negative, in every step and
       in every report (observe) made after it  ([run_obligs] collects all of them), and
     * every state reached satisfies the invariant [SInv] (covariance symmetric PSD, wander > 0).
   PARTIAL with respect to the property text: this is the model at the reals.  That the rounded
   binary64 run keeps every reported number finite is NOT proved (research-grade; observation
   O-1 shows the internal state can even become NaN after ~7800 noise-free samples while the
   observables stay finite); the clock controller (select/combine/steer, mod.rs) is covered by
   C06_merge_exact / C06_dispersion_exact / C06_root_dispersion_exact under their hypotheses and
   by the run-time monitor only. *)
Theorem C06_welldefined_exact_partial : forall fs rem cfg per n evs,
  cfg_ok cfg -> NoiseInv n ->
  hist_ok fs rem cfg per (source_new (ROps fs rem) n) evs ->
  Forall holds (run_obligs fs rem cfg per (source_new (ROps fs rem) n) evs) /\
  Forall SInv (run_states fs rem cfg per (source_new (ROps fs rem) n) evs).
Proof. intros. apply welldefined_exact; auto. Qed.

(* the same from any state satisfying the invariant (e.g. in the middle of a run) *)
Theorem C06_welldefined_exact_from : forall fs rem cfg per s evs,
  cfg_ok cfg -> SInv s -> hist_ok fs rem cfg per s evs ->
  Forall holds (run_obligs fs rem cfg per s evs) /\ Forall SInv (run_states fs rem cfg per s evs).
Proof. exact welldefined_exact. Qed.

(* what a source reports: the uncertainty is the square root of a non-negative variance *)
Theorem C06_reported_uncertainty_exact : forall fs rem cfg s,
  SInv s -> forall sn, fst (source_snapshot (ROps fs rem) cfg s) = Some sn ->
  0 <= a00 (unc (sn_state sn)) /\ 0 <= sqrt (a00 (unc (sn_state sn))).
Proof. exact reported_uncertainty. Qed.

(* the model's constants are the ones the code has now *)
Theorem C06_model_constants :
  Kalman.MIN_DELAY = (2 ^ (32 + KALMAN_MIN_DELAY_EXP))%Z
  /\ KALMAN_AVG_BUF_LEN = 8%Z /\ KALMAN_STABLE_AFTER = 8%Z /\ KALMAN_INIT_FREQ_UNC = 100%Z
  /\ KALMAN_CHI_CONSTS = " const P: f64 = 0.3275911; const A1: f64 = 0.254829592; const A2: f64 = -0.284496736; const A3: f64 = 1.421413741; const A4: f64 = -1.453152027; const A5: f64 = 1.061405429; "%string
  /\ (KALMAN_SQRT_SITES_SOURCE, KALMAN_INVERSE_SITES_SOURCE, KALMAN_DIV_SITES_SOURCE,
      KALMAN_DIV_SITES_MATRIX, KALMAN_SQRT_SITES_MOD) = (6, 3, 26, 3, 5)%Z
  /\ ((TT_FROM_SECONDS_ROUNDS + TT_FROM_SECONDS_TRUNCS, TT_ABS_SATURATES + TT_ABS_WRAPS,
       TT_POLL_INC_SATURATES + TT_POLL_INC_WRAPS, TT_POLL_DEC_SATURATES + TT_POLL_DEC_WRAPS) = (1, 1, 1, 1))%Z.
Proof. exact kalman_constants_tie. Qed.

(* non-vacuity: a positive definite covariance satisfies the hypotheses of all of the above *)
Example C06_nonvacuous :
  Inv (mkMat 4 1 1 1) /\ 0 < a00 (mkMat 4 1 1 1) + 0 /\
  (forall fs rem, 0 < det2 (ROps fs rem) (madd2 (ROps fs rem) (mkMat 4 1 1 1) (mkMat 0 0 0 0))).
Proof. unfold Inv, InvR; simpl. repeat split; try lra. intros; simpl; lra. Qed.

(* non-vacuity of the history theorem: the initial state satisfies the invariant, a history with
   measurements and a step is admissible, and a Kalman-stage state with singular covariance
   (P00 = 0, as after a noise-free measurement) satisfies the invariant and admits a later
   measurement *)
Example C06_nonvacuous_history : forall fs rem,
  let cfg := mkCfg R 0 0 16 0 0 0 16 0 5 1 1 0 4 10 4 O in
  cfg_ok cfg /\ NoiseInv (NBuf (repeat 0 8) 0) /\ NoiseInv (NFixed 0 1) /\
  hist_ok fs rem cfg None (source_new (ROps fs rem) (NBuf (repeat 0 8) 0))
          [Measure (mkMeas 100 5 1000 0 0) 0%Z 1; Step (1 / 2); Measure (mkMeas 100 7 2000 0 0) 0%Z 1] /\
  SInv (Stable (mkSF (mkK 0 0 (mkMat 0 0 0 1) 5000%Z) 1 (NFixed 0 1) 0 0 4 (mkMeas 0 0 5000 0 0) false 5000%Z)) /\
  meas_ok (Stable (mkSF (mkK 0 0 (mkMat 0 0 0 1) 5000%Z) 1 (NFixed 0 1) 0 0 4 (mkMeas 0 0 5000 0 0) false 5000%Z))
          (mkMeas 0 3 6000 0 0).
Proof.
  intros. unfold cfg_ok, NoiseInv, nonnegl, SInv, FInv, Inv, InvR, meas_ok; simpl.
  repeat split; try lra; try (repeat constructor; lra). discriminate.
Qed.

(* the binary64 instance that the correspondence executes is the same code: one time step and one
   conversion evaluated with primitive floats (1.5 s = 0x1_7FFFFFFF in 2^-32 s units) *)
Example C06_nonvacuous_float :
  run (9%Z, [4609434218613702656%Z]) = [6442450943%Z]
  /\ run (10%Z, [4294967296%Z]) = [4607182418801065984%Z].
Proof. vm_compute. split; reflexivity. Qed.

Print Assumptions C06_progress_exact.
Print Assumptions C06_absorb_exact.
Print Assumptions C06_merge_exact.
Print Assumptions C06_dispersion_exact.
Print Assumptions C06_offset_steering_exact.
Print Assumptions C06_frequency_steering_exact.
Print Assumptions C06_root_dispersion_exact.
Print Assumptions C06_welldefined_exact_partial.
Print Assumptions C06_welldefined_exact_from.
Print Assumptions C06_reported_uncertainty_exact.
Print Assumptions C06_model_constants.
