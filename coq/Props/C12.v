(* C12  NTP version negotiation follows the upgrade protocol.
   Property theorems only; proofs are in Proofs/SourceVersion.v.

   [s_ver] is NtpSource::protocol_version: V4 | Upgrading tries_left |
   Upgraded | V5.  [accepts s now p = Some id]: the decoded packet is accepted
   for the pending request (inside the window, expected version,
   valid_server_response) -- a "matching answer". *)
From V Require Import Model.Source Gen.ConstSource Gen.ConstSourceS2 Proofs.SourceBase Proofs.SourceIncoming Proofs.SourceVersion.

(* A source in state V4 (V5) -- configured so, fallen back / confirmed, or an NTS
   source with that negotiated version -- stays there in every history and every
   request it sends is NTPv4 (NTPv5) without the upgrade marker. *)
Theorem C12_fixed_version : forall c evs s s' tr v,
  v = V4 \/ v = V5 -> s_ver s = v -> run c s evs = Ok (s', tr) ->
  s_ver s' = v /\ Forall (send_ok (match v with V4 => 4 | _ => 5 end) false) (concat tr).
Proof. exact fixed_version. Qed.

(* an NTS source uses, and keeps, the version negotiated during key exchange *)
Theorem C12_nts_version : forall c evs s s' tr,
  nts_ver_ok s -> s_nts s = true -> run c s evs = Ok (s', tr) -> s_ver s' = s_ver s /\ nts_ver_ok s'.
Proof. exact nts_version. Qed.

(* automatic mode: requests are NTPv4 carrying the upgrade marker *)
Theorem C12_upgrading_sends_v4_marker : forall c s now d s' acts t r,
  s_nts s = false -> s_ver s = Upgrading t -> step_timer c s now d = Ok (s', acts) ->
  In (Send r) acts -> r_ver r = 4 /\ r_upgrade r = true /\ s_ver s' = Upgrading t.
Proof. exact upgrading_sends_v4_marker. Qed.

(* the switch to NTPv5 happens exactly on a matching answer carrying the marker *)
Theorem C12_switch_only_on_marker : forall c s e s' acts t,
  s_ver s = Upgrading t -> step c s e = Ok (s', acts) ->
  (s_ver s' = Upgraded <->
   exists now p id, e = Incoming now (Some p) /\ accepts s now p = Some id /\ is_upgrade p = true).
Proof. exact switch_only_on_marker. Qed.

(* a matching answer without the marker counts down; timers and everything that is
   not a matching answer leave the counter alone *)
Theorem C12_countdown : forall c s now p id s' acts t,
  s_ver s = Upgrading t -> accepts s now p = Some id -> is_upgrade p = false ->
  step_incoming c s now (Some p) = (s', acts) ->
  s_ver s' = if t <=? 1 then V4 else Upgrading (t - 1).
Proof. exact upgrading_countdown. Qed.

Theorem C12_upgrading_unchanged : forall c s e s' acts t,
  s_ver s = Upgrading t -> step c s e = Ok (s', acts) ->
  (forall now p, e = Incoming now (Some p) -> accepts s now p = None) ->
  s_ver s' = Upgrading t.
Proof. exact upgrading_unchanged. Qed.

(* hence plain NTPv4 is resumed exactly at the t-th matching answer without marker;
   t = DEFAULT_UPGRADE_TRIES = 8 for a freshly configured source *)
Theorem C12_give_up_after : forall ps t,
  1 <= t -> Forall (fun p => is_upgrade p = false) ps ->
  fold_left ver_after_valid ps (Upgrading t) =
  if Z.of_nat (length ps) <? t then Upgrading (t - Z.of_nat (length ps)) else V4.
Proof. exact give_up_after. Qed.

(* the upgraded association: the first matching (NTPv5) answer confirms it ... *)
Theorem C12_upgraded_to_v5 : forall c s now p id s' acts,
  s_ver s = Upgraded -> accepts s now p = Some id ->
  step_incoming c s now (Some p) = (s', acts) -> s_ver s' = V5 /\ p_ver p = 5.
Proof. exact upgraded_to_v5. Qed.

(* ... a timer falls back to NTPv4 exactly when it goes on to poll and the last two
   polls were not answered (two low bits of the reach register zero); then that
   very request is plain NTPv4, otherwise it is NTPv5 *)
Theorem C12_fallback_two_misses : forall c s now d s' acts,
  s_ver s = Upgraded -> step_timer c s now d = Ok (s', acts) ->
  (s_ver s' = V4 <-> timer_polls s = true /\ s_reach s mod 2 ^ AFTER_UPGRADE_TRIES_THRESHOLD = 0)
  /\ (s_ver s' = V4 \/ s_ver s' = Upgraded).
Proof. exact fallback_two_misses. Qed.

Theorem C12_fallback_request : forall c s now d s' acts r,
  s_nts s = false -> s_ver s = Upgraded -> step_timer c s now d = Ok (s', acts) -> In (Send r) acts ->
  if s_reach s mod 2 ^ AFTER_UPGRADE_TRIES_THRESHOLD =? 0
  then r_ver r = 4 /\ r_upgrade r = false /\ s_ver s' = V4
  else r_ver r = 5 /\ r_upgrade r = false /\ s_ver s' = Upgraded.
Proof. exact fallback_request. Qed.

(* the register: two polls in a row without an accepted answer zero the two low
   bits; an accepted answer, also one poll ago, keeps one of them set *)
Theorem C12_reach_two_misses : forall r, reach_poll (reach_poll r) mod 4 = 0.
Proof. exact reach_two_misses. Qed.
Theorem C12_reach_answered : forall r, 0 <= r < 256 -> reach_received r mod 4 <> 0.
Proof. exact reach_answered. Qed.
Theorem C12_reach_one_miss : forall r, 0 <= r < 256 -> reach_poll (reach_received r) mod 4 <> 0.
Proof. exact reach_one_miss. Qed.

Theorem C12_upgraded_moves : forall c s e s' acts,
  s_ver s = Upgraded -> step c s e = Ok (s', acts) ->
  s_ver s' = Upgraded \/ s_ver s' = V4 \/ s_ver s' = V5.
Proof. exact upgraded_moves. Qed.

(* the version only ever moves on a timer or a matching answer, as tabulated *)
Theorem C12_incoming_ver : forall c s now op s' acts,
  step_incoming c s now op = (s', acts) ->
  s_ver s' = match op with
             | Some p => match accepts s now p with
                         | Some _ => ver_after_valid (s_ver s) p
                         | None => s_ver s
                         end
             | None => s_ver s
             end.
Proof. exact incoming_ver. Qed.

(* A source only ever accepts answers of the version it currently expects
   (V4 also accepts NTPv3 answers, DESIGN.md section 5) *)
Theorem C12_expected_only : forall c s now p,
  expected (s_ver s) (p_ver p) = false -> step_incoming c s now (Some p) = (s, []).
Proof. exact expected_only. Qed.

Theorem C12_expected_table : forall v pv,
  expected v pv = true <->
  match v with
  | V4 => pv = 4 \/ pv = 3
  | Upgrading _ => pv = 4
  | Upgraded | V5 => pv = 5
  end.
Proof. exact expected_table. Qed.

(* non-vacuity: automatic mode; marker answer -> Upgraded, an NTPv5 request, two
   unanswered polls, fallback to plain NTPv4 *)
Example C12_nonvacuous :
  let c := mkCfg 4 10 in
  let ans o := Some (mkPkt 4 4 2 4 0 false o true None [] []) in
  exists s', run c (init c false [] (Upgrading DEFAULT_UPGRADE_TRIES))
      [Timer 0 4; Incoming 10 (ans 0); Timer 16000 4; Timer 16000 4; Timer 16000 4]
    = Ok (s', [[Send (mkReq 0 4 true 4 None 0 48); SetTimer 16]; [Measure 0];
               [Send (mkReq 1 5 false 4 None 0 96); SetTimer 16];
               [Send (mkReq 2 5 false 4 None 0 96); SetTimer 16];
               [Send (mkReq 3 4 false 4 None 0 48); SetTimer 16]])
    /\ s_ver s' = V4.
Proof. eexists. vm_compute. split; reflexivity. Qed.

Print Assumptions C12_fixed_version.
Print Assumptions C12_nts_version.
Print Assumptions C12_upgrading_sends_v4_marker.
Print Assumptions C12_switch_only_on_marker.
Print Assumptions C12_countdown.
Print Assumptions C12_upgrading_unchanged.
Print Assumptions C12_give_up_after.
Print Assumptions C12_upgraded_to_v5.
Print Assumptions C12_fallback_two_misses.
Print Assumptions C12_fallback_request.
Print Assumptions C12_reach_two_misses.
Print Assumptions C12_reach_answered.
Print Assumptions C12_reach_one_miss.
Print Assumptions C12_upgraded_moves.
Print Assumptions C12_incoming_ver.
Print Assumptions C12_expected_only.
Print Assumptions C12_expected_table.
