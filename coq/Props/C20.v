(* C20  Rate limiting answers to the client's own request rate.
   Property theorems only; proofs are in Proofs/RateCache.v and Proofs/Server.v.

   Vocabulary (Model/RateCache.v, Model/Server.v):
   - a history is a list of calls (address, instant); [h] is the cache's hash function
     (std RandomState: arbitrary, universally quantified), [n] the configured cache size,
     [cutoff] the configured cutoff; [slot_of h n a = h a mod n];
   - [dur_since t t'] = max 0 (t - t'), the saturating Instant::duration_since;
   - [refused h n cutoff pre a t post]: in the history pre ++ (a,t) :: post, run from the
     empty cache, the call (a,t) gets the verdict "not allowed";
   - [last_on_slot h n s pre]: the most recent call of [pre] whose address hashes to slot s. *)
From V Require Import Model.RateCache Model.Server Proofs.RateCache Proofs.Server.
From V Require Import Gen.ConstServer.

(* Every history runs without panic and yields one verdict per call
   (the only indexing, `elements[index]`, is in range because index = hash mod len). *)
Theorem C20_total : forall h n cutoff calls,
  exists vs, verdicts h n cutoff calls = Ok vs /\ length vs = length calls.
Proof. exact verdicts_total. Qed.

(* Exact characterisation, for every history, hash function, size and cutoff:
   a call is refused iff the cache is enabled and the most recent earlier call on the same
   slot was made by the same address less than the cutoff before.  (Every call, refused
   or not, overwrites its slot.) *)
Theorem C20_refused_iff : forall h n cutoff pre a t post,
  refused h n cutoff pre a t post <->
  (0 < n /\ exists t', last_on_slot h n (slot_of h n a) pre = Some (a, t') /\ dur_since t t' < cutoff).
Proof. exact refused_iff. Qed.

(* A client is never rate-limited unless its own previous request (the most recent earlier
   call from the same address) was within the cutoff. *)
Theorem C20_own_rate_only : forall h n cutoff pre a t post,
  refused h n cutoff pre a t post ->
  exists p1 t' p2, pre = p1 ++ (a, t') :: p2
                   /\ (forall y, In y p2 -> fst y <> a)
                   /\ dur_since t t' < cutoff.
Proof. exact own_rate_only. Qed.

(* A client that called less than the cutoff ago from the same address, with no other
   address using the same slot in between (its own intermediate calls, at instants not
   before that call, are allowed), is refused. *)
Theorem C20_must_limit : forall h n cutoff p1 a t' p2 t post,
  0 < n ->
  dur_since t t' < cutoff ->
  (forall y, In y p2 -> slot_of h n (fst y) = slot_of h n a -> fst y = a /\ t' <= snd y) ->
  refused h n cutoff (p1 ++ (a, t') :: p2) a t post.
Proof. exact must_limit. Qed.

(* With the cache size set to zero no call is ever refused. *)
Theorem C20_size_zero : forall h n cutoff calls,
  n <= 0 -> verdicts h n cutoff calls = Ok (map (fun _ => true) calls).
Proof. exact size_zero. Qed.

(* Position of the rate limit in the server's policy (decision model of Server::handle):
   a datagram from an address on the deny list or not on the allow list leaves the cache
   untouched and is never registered as rate-limited ... *)
Theorem C20_position_lists_first : forall h cfg c e rq r,
  passes e = false -> handle h cfg c e rq = Ok r ->
  o_cache r = c /\ rate_refused r = false.
Proof. exact cache_untouched. Qed.

(* ... a datagram that passes both lists makes exactly one `is_allowed` call, whatever the
   datagram contains (even if it is malformed); it is registered as rate-limited iff that
   call said no, and then nothing is sent. *)
Theorem C20_position : forall h cfg c e rq r,
  passes e = true -> handle h cfg c e rq = Ok r ->
  exists b, is_allowed h c (e_addr e) (e_now e) (c_cutoff cfg) = Ok (o_cache r, b)
            /\ b = negb (rate_refused r)
            /\ (b = false -> o_out r = OIgnore /\ o_regs r = [(r_fbv rq, false, RateLimit, RIgnore)]).
Proof. exact cache_consulted. Qed.

(* Hence, over any history of datagrams through one server, the cache sees exactly the
   sub-history of list-passing datagrams ... *)
Theorem C20_position_history : forall h cfg l c c' rs,
  handle_all h cfg c l = Ok (c', rs) ->
  length rs = length l /\
  run_from h (c_cutoff cfg) c (map call_of (passing l)) = Ok (c', passing_verdicts l rs).
Proof. intros h cfg l. exact (position_history h cfg l). Qed.

(* ... and the server-level statement of the property: a list-passing datagram is
   rate-limited iff the most recent earlier list-passing datagram on its slot came from
   the same address less than the cutoff before. *)
Theorem C20_server_refused_iff : forall h cfg n pre e rq post c' rs r,
  handle_all h cfg (new_cache n) (pre ++ (e, rq) :: post) = Ok (c', rs) ->
  passes e = true ->
  nth_error rs (length pre) = Some r ->
  (rate_refused r = true <->
   0 < n /\ exists t', last_on_slot h n (slot_of h n (e_addr e)) (map call_of (passing pre)) = Some (e_addr e, t')
                       /\ dur_since (e_now e) t' < c_cutoff cfg).
Proof. exact server_refused_iff. Qed.

(* non-vacuity: 2 slots, addresses 1 and 3 share slot 1, address 2 has slot 0, cutoff 10:
   the second call of 1 (5 later) is refused, its third call (exactly 10 after the second) is
   allowed, then 3 evicts 1, so 1's next call is allowed although only 2 after its previous one,
   and its call 1 later is refused again. *)
Example C20_nonvacuous :
  verdicts (fun a => a) 2 10 [(1, 0); (1, 5); (1, 15); (2, 15); (3, 16); (1, 17); (1, 18)]
    = Ok [true; false; true; true; true; true; false]
  /\ refused (fun a => a) 2 10 [(1, 0)] 1 5 []
  /\ verdicts (fun a => a) 0 10 [(1, 0); (1, 0)] = Ok [true; true].
Proof.
  split; [vm_compute; reflexivity|]. split; [|vm_compute; reflexivity].
  exists [true; false]. split; vm_compute; reflexivity.
Qed.

(* census, regenerated from the sources on every run: one call of intended_action per datagram, one call of
   is_allowed (in its third branch), the slot is read and written once each, one `% len`. *)
Example C20_site_census :
  SRV_INTENDED_ACTION_CALLS = 1 /\ SRV_IS_ALLOWED_CALLS = 1 /\ SRV_CACHE_INDEXING = 2 /\ SRV_MODULO = 1.
Proof. repeat split; reflexivity. Qed.

Print Assumptions C20_total.
Print Assumptions C20_refused_iff.
Print Assumptions C20_own_rate_only.
Print Assumptions C20_must_limit.
Print Assumptions C20_size_zero.
Print Assumptions C20_position_lists_first.
Print Assumptions C20_position.
Print Assumptions C20_position_history.
Print Assumptions C20_server_refused_iff.
