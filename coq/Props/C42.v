(* C42 placeholder while the tie is being set up; replaced by the real theorems *)
From V Require Import Model.EstimatorRun.
Theorem C42_placeholder_partial : True. Proof. exact I. Qed.
Example C42_nonvacuous : True. Proof. exact I. Qed.
Print Assumptions C42_placeholder_partial.
