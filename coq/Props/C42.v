(* C42  The multi-clock estimator keeps unrelated estimates intact.
   Property theorems only; proofs are in Proofs/Estimator.v.  Model: Model/Estimator.v
   (EstimatorState of statime-algo/src/estimator.rs with the Matrix of matrix.rs),
   generic in the element type A and its arithmetic F (the theorems hold for every
   arithmetic, in particular for binary64 with all its NaN/rounding behaviour).

   A history is a list of operations (progress_time, the three absorb operations,
   measurement, add/remove of clocks, external clocks and links) applied to the
   empty estimator the way every user in lib.rs applies them: on a clone, keeping
   the old state when the operation fails ([apply_keep], [run_ops]). *)
From V Require Import Model.Estimator Proofs.Estimator.

(* Invariant: after every history the state vector is n x 1, the covariance n x n,
   identifiers are unique, and the index blocks (2 rows per clock, 1 per link) lie
   in 0..n, are pairwise disjoint and their sizes add up to n (a partition of 0..n). *)
Theorem C42_invariant : forall (A : Type) (F : Ops A) t (ops : list (@op A)),
  WF (run_ops F ops (empty F t)).
Proof. exact @WF_reachable. Qed.

(* Adding or removing a clock, an external clock or a link after any history leaves
   the reported offset and frequency (value and uncertainty) of every OTHER clock and
   the reported delay of every OTHER link exactly as they were (the same results of
   the queries, including "unknown" for identifiers that are not present). *)
Theorem C42_unrelated_kept : forall (A : Type) (F : Ops A) t (ops : list (@op A)) (o : @op A) st',
  apply F o (run_ops F ops (empty F t)) = Ok st' ->
  unrelated_kept F o (run_ops F ops (empty F t)) st'.
Proof. exact @history_unrelated_kept. Qed.

(* the same, per operation, for any well-formed state, with what the operation does to
   its own identifier, the time and the external clocks *)
Theorem C42_add_clock_preserves : forall (A : Type) (F : Ops A) st id ov ou fv fu w st',
  WF st -> add_clock F id ov ou fv fu w st = Ok st' ->
  same_estimates_except_clock F st st' id /\ e_time st' = e_time st /\ e_ext st' = e_ext st /\
  clock_offset F st' id = Ok (ov, fsqrt F (sq F ou)) /\
  clock_frequency F st' id = Ok (fv, fsqrt F (sq F fu)).
Proof. exact @add_clock_preserves. Qed.

Theorem C42_remove_clock_preserves : forall (A : Type) (F : Ops A) st id st',
  WF st -> remove_clock F id st = Ok st' ->
  same_estimates_except_clock F st st' id /\ e_time st' = e_time st /\ e_ext st' = e_ext st /\
  clock_offset F st' id = Err E_UnknownClock /\ clock_frequency F st' id = Err E_UnknownClock.
Proof. exact @remove_clock_preserves. Qed.

Theorem C42_add_link_preserves : forall (A : Type) (F : Ops A) st id dv du dc st',
  WF st -> add_link F id dv du dc st = Ok st' ->
  same_estimates_except_link F st st' id /\ e_time st' = e_time st /\ e_ext st' = e_ext st /\
  link_delay F st' id = Ok (dv, fsqrt F (sq F du)).
Proof. exact @add_link_preserves. Qed.

Theorem C42_remove_link_preserves : forall (A : Type) (F : Ops A) st id st',
  WF st -> remove_link F id st = Ok st' ->
  same_estimates_except_link F st st' id /\ e_time st' = e_time st /\ e_ext st' = e_ext st /\
  link_delay F st' id = Err E_UnknownLink.
Proof. exact @remove_link_preserves. Qed.

Theorem C42_external_preserves : forall (A : Type) (F : Ops A) (st : @est A) id st',
  add_external_clock id st = Ok st' \/ remove_external_clock id st = Ok st' ->
  same_estimates F st st' /\ e_time st' = e_time st /\ e_state st' = e_state st /\ e_unc st' = e_unc st.
Proof.
  intros A F st id st' [H|H];
    [exact (add_external_preserves F st id st' H)|exact (remove_external_preserves F st id st' H)].
Qed.

(* Exactly which additions/removals succeed. *)
Theorem C42_success_conditions : forall (A : Type) (F : Ops A) (st : @est A), WF st ->
  (forall id ov ou fv fu w, (exists st', add_clock F id ov ou fv fu w st = Ok st') <-> is_known_clock st id = false) /\
  (forall id, (exists st', add_external_clock id st = Ok st') <-> is_known_clock st id = false) /\
  (forall id, (exists st', remove_clock F id st = Ok st') <-> is_internal_clock st id = true) /\
  (forall id, (exists st', remove_external_clock id st = Ok st') <-> is_external_clock st id = true) /\
  (forall id dv du dc, (exists st', add_link F id dv du dc st = Ok st') <->
     (is_known_clock st (link_first id) = true /\ is_known_clock st (link_second id) = true /\
      existsb (fun l => linkid_eqb (li_id l) id) (e_links st) = false)) /\
  (forall id, (exists st', remove_link F id st = Ok st') <->
     existsb (fun l => linkid_eqb (li_id l) id) (e_links st) = true).
Proof.
  intros A F st W. split; [|split; [|split; [|split; [|split]]]]; intros.
  - apply add_clock_ok_iff; auto.
  - apply add_external_ok_iff.
  - apply remove_clock_ok_iff; auto.
  - apply remove_external_ok_iff.
  - apply add_link_ok_iff; auto.
  - apply remove_link_ok_iff; auto.
Qed.

(* An operation that names an unknown identifier (clock, external clock, link) or adds a
   duplicate one fails with an error after any history, and the estimator handle keeps
   exactly the state it had (clone-then-replace). *)
Theorem C42_errors_leave_state : forall (A : Type) (F : Ops A) t (ops : list (@op A)) (o : @op A),
  let st := run_ops F ops (empty F t) in
  bad_ident o st = true -> (exists e, apply F o st = Err e) /\ apply_keep F o st = st.
Proof. exact @history_bad_ident_refused. Qed.

(* ... and so does every operation that fails for any other reason. *)
Theorem C42_failed_keeps_state : forall (A : Type) (F : Ops A) (o : @op A) (st : @est A),
  (forall st', apply F o st <> Ok st') -> apply_keep F o st = st.
Proof. exact @apply_keep_failed. Qed.

(* Time: after any history, progress_time to an earlier time (wrapping 128-bit difference
   negative) fails and leaves the state, to a later or equal time it succeeds and sets
   exactly that time; every other operation keeps the time, except the absorption of a
   step of the system clock, which shifts the time scale by that step (by design). *)
Theorem C42_time_monotone : forall (A : Type) (F : Ops A) t (ops : list (@op A)) (o : @op A),
  let st := run_ops F ops (empty F t) in
  match o with
  | OpProgress new =>
      (ts_sub new (e_time st) < 0 -> apply F o st = Err E_NonMonotonic /\ apply_keep F o st = st) /\
      (0 <= ts_sub new (e_time st) -> exists st', apply F o st = Ok st' /\ e_time st' = new)
  | OpAbsorbSystem _ d => forall st', apply F o st = Ok st' -> e_time st' = ts_add (e_time st) d
  | _ => forall st', apply F o st = Ok st' -> e_time st' = e_time st
  end.
Proof. exact @history_time. Qed.

(* the wrapping difference is the ordinary one for timestamps below 2^127 (2^63 s) *)
Theorem C42_time_difference : forall a b,
  0 <= a < 2 ^ 127 -> 0 <= b < 2 ^ 127 -> ts_sub a b = a - b.
Proof. exact ts_sub_small. Qed.

(* non-vacuity: a history with two clocks, an external clock and a link; removing the first
   clock moves the second clock's rows from 2,3 to 0,1 and the link's row from 4 to 2, and
   the reports of the second clock and of the link are unchanged *)
Example C42_nonvacuous :
  let h := [OpAddClock 10 100 3 101 4 1; OpAddExternal 30; OpAddClock 20 200 5 201 6 1;
            OpAddLink (20, 30, 0) 300 7 1] in
  let st := run_ops z_ops h (empty z_ops 1000) in
  map (@ci_base Z) (e_clocks st) = [0%nat; 2%nat] /\ map (@li_index Z) (e_links st) = [4%nat] /\
  clock_frequency z_ops st 20 = Ok (201, 6) /\ link_delay z_ops st (20, 30, 0) = Ok (300, 7) /\
  match apply z_ops (OpRemoveClock 10) st with
  | Ok st' => map (@ci_base Z) (e_clocks st') = [0%nat] /\ map (@li_index Z) (e_links st') = [2%nat] /\
              clock_frequency z_ops st' 20 = Ok (201, 6) /\ link_delay z_ops st' (20, 30, 0) = Ok (300, 7) /\
              clock_offset z_ops st' 10 = Err E_UnknownClock
  | _ => False
  end /\
  bad_ident (OpAddClock 30 0 0 0 0 0) st = true /\ bad_ident (OpRemoveLink (20, 30, 1)) st = true /\
  apply z_ops (OpProgress 999) st = Err E_NonMonotonic /\
  (exists st', apply z_ops (OpProgress 1001) st = Ok st' /\ e_time st' = 1001).
Proof. vm_compute. repeat split. eexists. split; reflexivity. Qed.

Print Assumptions C42_invariant.
Print Assumptions C42_unrelated_kept.
Print Assumptions C42_add_clock_preserves.
Print Assumptions C42_remove_clock_preserves.
Print Assumptions C42_add_link_preserves.
Print Assumptions C42_remove_link_preserves.
Print Assumptions C42_external_preserves.
Print Assumptions C42_success_conditions.
Print Assumptions C42_errors_leave_state.
Print Assumptions C42_failed_keeps_state.
Print Assumptions C42_time_monotone.
Print Assumptions C42_time_difference.
