(* C14  Building a poll request never fails.
   Property theorems only; proofs are in Proofs/SourcePoll.v.

   The only panic site on the poll-building path is
   `.expect("Internal error: could not serialize packet")` in handle_timer; the
   model's [step_timer] returns [Panic] exactly when serialisation into the
   1024-byte buffer would fail: the request does not fit, or a field value is
   longer than u16::MAX - 4.  [stash_ok]: at most MAX_COOKIES cookies, each of a
   length >= 0 -- any lengths. *)
From V Require Import Model.Source Gen.ConstSource Gen.ConstSourceS2 Proofs.SourceBase Proofs.SourceIncoming Proofs.SourcePoll.

(* whatever cookies the client holds, whatever the version, NTS or not: handle_timer
   yields a request, Reset or Demobilize -- never the panic *)
Theorem C14_total : forall c s now d x,
  stash_ok (s_stash s) -> step_timer c s now d <> Panic x.
Proof. exact timer_total. Qed.

(* ... and a request that is sent fits the send buffer *)
Theorem C14_fits : forall c s now d s' acts r,
  step_timer c s now d = Ok (s', acts) -> In (Send r) acts -> r_len r <= SEND_BUFFER_SIZE.
Proof. exact send_fits. Qed.

(* along whole histories: the stash stays well formed (cookies of any non-negative
   length arriving), so no history reaches the panic, and every request fits *)
Theorem C14_run_total : forall c evs s x,
  stash_ok (s_stash s) -> Forall cookies_ok evs -> run c s evs <> Panic x.
Proof. exact run_total. Qed.

Theorem C14_run_fits : forall c evs s s' tr,
  run c s evs = Ok (s', tr) ->
  Forall (fun a => match a with Send r => r_len r <= SEND_BUFFER_SIZE | _ => True end) (concat tr).
Proof. exact run_sends_fit. Qed.

(* the size arithmetic: closed formula for the serialised request, and its bound
   for every cookie length and every number n of cookie fields (1 cookie + n-1
   placeholders) the margin computation of handle_timer lets through *)
Theorem C14_size_formula : forall nts v5 clen n,
  request_size nts v5 clen n =
  48 + (if nts then 36 + n * (((Z.max 16 (clen + 4) + 3) / 4) * 4) + (if v5 then 48 else 0) + 40
        else if v5 then 48 else 0).
Proof. exact request_size_formula. Qed.

Theorem C14_size_bound : forall v5 clen n,
  0 <= clen -> 1 <= n <= 8 -> n <= (SEND_BUFFER_SIZE - COOKIE_MARGIN) / Z.max clen 1 ->
  request_size true v5 clen n <= MAX_REQUEST /\ clen <= SEND_BUFFER_SIZE - COOKIE_MARGIN.
Proof. exact request_fits. Qed.

(* non-vacuity: the longest request (NTPv5, cookies of 90 bytes, empty stash after the
   get: 8 cookie fields) has 940 bytes; a 725-byte cookie asks for a reset; a 724-byte one is sent *)
Example C14_nonvacuous :
  c14_case (1, 2, 90, 1) = (0, 940) /\ c14_case (1, 2, 725, 8) = (1, 0) /\ c14_case (1, 0, 724, 8) = (0, 852)
  /\ c14_case (0, 2, 0, 0) = (0, 96) /\ MAX_REQUEST <= SEND_BUFFER_SIZE.
Proof. vm_compute. repeat split; discriminate. Qed.

(* census of the panic sites the model accounts for on the poll-building path (regenerated from the
   sources on every run): one `expect` on serialize in handle_timer; the reference-id request of the
   NTPv5 poll has a payload of BLOOM_CHUNK_SIZE bytes, a multiple of 4 (ReferenceIdRequest::serialize asserts it) *)
Example C14_panic_site_census : TIMER_EXPECT_SITES = 1 /\ BLOOM_CHUNK_SIZE mod 4 = 0 /\ SEND_BUFFER_SIZE_NEW = SEND_BUFFER_SIZE.
Proof. repeat split; reflexivity. Qed.

Print Assumptions C14_total.
Print Assumptions C14_fits.
Print Assumptions C14_run_total.
Print Assumptions C14_run_fits.
Print Assumptions C14_size_formula.
Print Assumptions C14_size_bound.
