(* C18  Server answers echo the request correctly and reflect nothing else.
   Property theorems only; proofs are in Proofs/Response.v, the model in Model/Response.v.

   The model's request type carries, of every extension field, its kind and length and -- only for
   unique identifiers, draft identifications and reference-id responses -- its bytes; of the header
   only version, mode, poll, the transmit timestamp / client cookie and the upgrade marker; of an
   NTS authenticator that failed nothing at all (FInvalidNts).  Everything else in the datagram
   (other header fields, payloads of other fields, MAC, ciphertexts) is not an input of the model,
   so the correspondence check (byte-for-byte comparison of the clear part of every answer) is what
   shows that the real builders do not look at it either. *)
From V Require Import Model.Response Proofs.Response Gen.ConstResponse.
Local Open Scope Z_scope.

(* Every answer Server::handle sends is a builder's answer for the decision taken, serialized. *)
Theorem C18_answers_are_built : forall tf cfg st q recv now mlen B stats w,
  handle tf cfg st q recv now mlen B = ORespond stats w ->
  exists k alg a, decision cfg q = inl (Some (k, alg, stats))
    /\ build tf k alg st q recv now mlen = Ok a /\ serialize a B = Ok w.
Proof. exact handle_respond_inv. Qed.

(* ... and starts with that answer's 48 header bytes. *)
Theorem C18_header_first : forall a B w, serialize a B = Ok w -> exists rest, w_prefix w = a_header a ++ rest.
Proof. exact serialize_prefix. Qed.

(* Time answers (plain and NTS): server mode (4), the request's version, the request's poll, the
   server's leap / stratum / precision / root delay / root dispersion / reference id, reference
   timestamp = reception time truncated to 2^7 s (the upgrade marker iff a plain NTPv4 request carried it),
   origin = the request's transmit timestamp (NTPv5: client cookie), receive = reception time, transmit =
   clock; NTPv5: timescale 0, era 0, flags = synchronized iff stratum < 16, server cookie fresh (zeros here). *)
Theorem C18_time_answer : forall tf k alg st q recv now mlen a,
  (q_version q = 3 \/ q_version q = 4 \/ q_version q = 5) -> is_time_kind k = true ->
  build tf k alg st q recv now mlen = Ok a ->
  a_ver a = q_version q /\
  a_header a =
    if q_version q =? 5 then
      [leap_bits (s_leap st) * 64 + 5 * 8 + 4; s_stratum st; q_poll q; s_precision st]
      ++ s_rdelay_t32 st ++ s_rdisp_t32 st ++ [0; 0; 0; if s_stratum st <? 16 then 1 else 0]
      ++ zeros 8 ++ q_xmit q ++ recv ++ now
    else
      [leap_bits (s_leap st) * 64 + q_version q * 8 + 4; s_stratum st; q_poll q; s_precision st]
      ++ s_rdelay_short st ++ s_rdisp_short st ++ s_refid st
      ++ (if (q_version q =? 4) && q_upgrade q && (match k with KTime => true | _ => false end)
          then bytes_of_string UPGRADE_TIMESTAMP else truncate_ref recv)
      ++ q_xmit q ++ recv ++ now.
Proof. exact build_time_header. Qed.

(* DENY, RATE and NTS-NAK answers: server mode, the request's version, stratum 0, leap 0, precision 0,
   root delay/dispersion 0, reference/receive/transmit timestamps 0, origin (client cookie) echoed;
   NTPv3/4: poll 0 and the kiss code as reference id; NTPv5: poll 127 (DENY), poll+1 saturating (RATE),
   0 with the authnak flag (NAK). *)
Theorem C18_kiss : forall tf k alg st q recv now mlen a,
  (q_version q = 3 \/ q_version q = 4 \/ q_version q = 5) -> is_time_kind k = false ->
  build tf k alg st q recv now mlen = Ok a ->
  a_ver a = q_version q /\
  a_header a =
    if q_version q =? 5 then
      [5 * 8 + 4; 0;
       match k with KDeny | KNtsDeny => 127 | KRate | KNtsRate => poll_force_inc (q_poll q) | _ => 0 end; 0]
      ++ zeros 4 ++ zeros 4 ++ [0; 0; 0; match k with KNak => 4 | _ => 0 end]
      ++ zeros 8 ++ q_xmit q ++ zeros 8 ++ zeros 8
    else
      [q_version q * 8 + 4; 0; 0; 0] ++ zeros 4 ++ zeros 4
      ++ bytes_of_string (match k with KDeny | KNtsDeny => KISS_DENY | KRate | KNtsRate => KISS_RATE | _ => KISS_NTSN end)
      ++ zeros 8 ++ q_xmit q ++ zeros 8 ++ zeros 8.
Proof. exact build_kiss_header. Qed.

(* The extension fields of any answer: in the clear / authenticated part only unique identifiers that
   are fields of the request's untrusted or authenticated lists (NTS answers: of the authenticated list,
   and they stay authenticated; never of the encrypted list), reference-id responses cut from the server's
   filter for a reference-id request of the request (NTPv5 time answers), and the draft identification
   (NTPv5); in the encrypted part only fresh cookies, only in NTS time answers, each for a cookie or
   placeholder of the request that is at least as long. *)
Theorem C18_fields_subset : forall tf k alg st q recv now mlen a,
  (q_version q = 3 \/ q_version q = 4 \/ q_version q = 5) ->
  build tf k alg st q recv now mlen = Ok a ->
  a_ver a = q_version q
  /\ Forall (allowed_field k alg st q) (a_untrusted a ++ a_auth a)
  /\ Forall (fun f => k = KNtsTime /\ f = FCookie (cookie_len alg) /\
        exists x, In x (q_auth q ++ q_enc q) /\
          ((exists n, x = FCookie n /\ cookie_len alg <= n) \/ (exists n, x = FPlaceholder n /\ cookie_len alg <= n)))
       (a_enc a)
  /\ (is_nts_kind k = true -> a_untrusted a = [] /\ a_cipher a = true /\
        Forall (fun f => (exists d, f = FUid d) -> In f (q_auth q)) (a_auth a))
  /\ (is_nts_kind k = false -> a_auth a = [] /\ a_enc a = [] /\ a_cipher a = false).
Proof. exact build_fields. Qed.

(* Nothing of the encrypted part of a request influences the decision, nor any answer other than
   the NTS time answer (which only counts and measures the cookies and placeholders in it). *)
Theorem C18_ignores_encrypted : forall tf k alg st q recv now mlen e,
  k <> KNtsTime -> build tf k alg st (with_enc q e) recv now mlen = build tf k alg st q recv now mlen.
Proof. exact build_ignores_encrypted. Qed.

(* A request whose authenticator could not be decrypted is answered, if at all, with an NTS-NAK or a
   DENY (C18_kiss, C18_fields_subset: header zeros, echoed unique identifiers and the draft id only). *)
Theorem C18_nothing_undecryptable : forall cfg q k alg stats,
  q_decrypt_failed q = true -> decision cfg q = inl (Some (k, alg, stats)) ->
  (k = KNak /\ stats = [q_version q; 1; 2; 0]) \/ (k = KDeny /\ c_intended cfg = 1).
Proof. exact decision_decrypt_failed. Qed.

Example C18_nonvacuous :
  let q := {| q_version := 5; q_mode := 3; q_poll := 6; q_xmit := [1;2;3;4;5;6;7;8]; q_upgrade := false;
              q_untrusted := [FUnknown 9 12; FUid [9;9;9;9]; FRefReq 4 2; FDraft draft_bytes; FPlaceholder 104];
              q_auth := []; q_enc := []; q_mac := 0; q_cookie := None; q_decrypt_failed := false; q_auths := [] |} in
  let st := {| s_stratum := 2; s_leap := 1; s_refid := [1;2;3;4]; s_precision := 238; s_rdelay_short := [0;0;0;0];
               s_rdisp_short := [0;0;0;2]; s_rdelay_t32 := [0;0;0;1]; s_rdisp_t32 := [0;0;0;3]; s_filter := [10;11;12;13;14;15;16;17] |} in
  wf_request q = true /\
  match build false KTime 0 st q [0;0;0;255;1;1;1;1] [7;7;7;7;7;7;7;7] 132 with
  | Ok a => a_untrusted a = [FUid [9;9;9;9]; FRefResp [12;13;14;15]; FDraft draft_bytes]
            /\ firstn 4 (a_header a) = [108; 2; 6; 238]
  | _ => False
  end.
Proof. vm_compute. repeat split. Qed.

Print Assumptions C18_answers_are_built.
Print Assumptions C18_header_first.
Print Assumptions C18_time_answer.
Print Assumptions C18_kiss.
Print Assumptions C18_fields_subset.
Print Assumptions C18_ignores_encrypted.
Print Assumptions C18_nothing_undecryptable.
