(* C27  Server cookie keys persist safely across restarts and crashes.
   Property theorems only; proofs in Proofs/KeyFile.v, model of
   KeySetProvider::{store, load} (ntp-proto/src/keyset.rs) and of the "load or
   start fresh" of ntpd/src/daemon/nts_key_provider.rs in Model/KeyFile.v.
   The model is the REPAIRED load (branch fix-c27: `primary >= len` and an
   unrepresentable time stamp are rejected).

   Not proved, observed at run time by the harness: the 0600 mode of a newly
   created file.  Assumed: a crash during `store` leaves a prefix of the bytes
   that the sequential write_all calls were writing (file-system behaviour). *)
From V Require Import Model.KeySet Model.KeyFile Proofs.KeySet Proofs.KeyFile.

(* Every key set the daemon can hold (valid primary, 64-byte keys, fewer than
   2^32 keys), stored at any representable time, loads back identically --
   also when followed by trailing bytes. *)
Theorem C27_roundtrip : forall ks t tail,
  FileOk ks -> 0 <= t <= i64_max -> load (store ks t ++ tail) = Ok (ks, t).
Proof. exact load_store. Qed.

(* ... so the restarted daemon holds exactly the stored key set and every
   cookie issued before the restart still decodes to its content *)
Theorem C27_restart_keeps_cookies : forall (enc : enc_t) (dec : dec_t) ks t fresh now c nonce b,
  aead_correct enc dec -> aead_tag16 enc ->
  FileOk ks -> 0 <= t <= i64_max -> wf_cookie c -> lenZ nonce = 16 ->
  encode_cookie enc ks c nonce = Ok b ->
  exists ks', start (Some (store ks t)) fresh now = Ok (ks', t) /\ ks' = ks /\ decode_cookie dec ks' b = Ok c.
Proof. exact restart_keeps_cookies. Qed.

(* Crash points: EVERY proper prefix of the bytes being stored (the empty file
   after the truncating open included) is rejected by load ... *)
Theorem C27_crash : forall ks t p,
  FileOk ks -> proper_prefix p (store ks t) -> exists e, load p = Err e.
Proof. exact load_proper_prefix. Qed.

(* ... so after a crash at any point of the store the next start has exactly
   the key set being stored, or fresh keys. *)
Theorem C27_crash_restart : forall ks t p fresh now,
  FileOk ks -> 0 <= t <= i64_max -> prefix_of p (store ks t) ->
  start (Some p) fresh now = Ok (ks, t) \/ start (Some p) fresh now = Ok (new_keyset fresh, now).
Proof. exact start_crash. Qed.

(* Any file whatsoever (truncated, corrupted in any header field or key byte,
   arbitrary bytes): what load accepts is a well-formed key set that can issue
   a cookie and decode it back (no panic site is reachable: KeysOk excludes
   the only one, C26_encode_panic_iff) ... *)
Theorem C27_loaded_usable : forall (enc : enc_t) (dec : dec_t) b ks t,
  aead_correct enc dec -> aead_tag16 enc ->
  bytes_ok b -> load b = Ok (ks, t) -> KeysOk ks /\ usable enc dec ks.
Proof. exact loaded_usable. Qed.

Theorem C27_loaded_wellformed : forall b ks t,
  bytes_ok b -> load b = Ok (ks, t) ->
  KeysOk ks /\ Forall key_ok (keys ks) /\ lenZ (keys ks) < 2 ^ 32 /\ 0 <= t <= i64_max.
Proof. exact load_ok_inv. Qed.

(* ... load itself never panics ... *)
Theorem C27_load_total : forall b, (exists e, load b = Err e) \/ (exists r, load b = Ok r).
Proof. exact load_total. Qed.

(* ... and the daemon therefore always starts (missing file, unreadable file,
   any content) with a usable key set: the loaded one or fresh keys. *)
Theorem C27_start_usable : forall (enc : enc_t) (dec : dec_t) file fresh now,
  aead_correct enc dec -> aead_tag16 enc ->
  (forall b, file = Some b -> bytes_ok b) -> key_ok fresh ->
  exists ks t, start file fresh now = Ok (ks, t) /\ KeysOk ks /\ usable enc dec ks.
Proof. exact start_usable. Qed.

(* non-vacuity: a two-key set stored and reloaded; its 147-byte prefix and its
   20-byte header are rejected; the 20-byte file with len = 0 that the
   unrepaired code accepted is rejected; a time stamp of 2^63 is rejected *)
Example C27_nonvacuous :
  let ks := {| keys := [repeat 1 64; repeat 2 64]; id_offset := 7; primary := 1 |} in
  load (store ks 1700000000) = Ok (ks, 1700000000) /\
  lenZ (store ks 1700000000) = 148 /\
  load (firstn 147 (store ks 1700000000)) = Err err_eof /\
  load (firstn 20 (store ks 1700000000)) = Err err_eof /\
  load (firstn 19 (store ks 1700000000)) = Err err_eof /\
  load (repeat 0 20) = Err err_other /\
  load (store ks (2 ^ 63)) = Err err_other /\
  load (store {| keys := keys ks; id_offset := 7; primary := 2 |} 5) = Err err_other.
Proof. vm_compute. repeat split. Qed.

Example C27_nonvacuous_fileok :
  FileOk {| keys := [repeat 1 64; repeat 2 64]; id_offset := 7; primary := 1 |}.
Proof.
  unfold FileOk, KeysOk, lenZ. cbn [keys id_offset primary length].
  repeat split; try (vm_compute; congruence).
  repeat constructor; try (vm_compute; congruence); apply Forall_forall; intros x Hx; apply repeat_spec in Hx; subst; unfold is_byte; lia.
Qed.

Print Assumptions C27_roundtrip.
Print Assumptions C27_restart_keeps_cookies.
Print Assumptions C27_crash.
Print Assumptions C27_crash_restart.
Print Assumptions C27_loaded_usable.
Print Assumptions C27_loaded_wellformed.
Print Assumptions C27_load_total.
Print Assumptions C27_start_usable.
