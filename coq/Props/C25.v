(* C25 stub (theorems follow) *)
From V Require Import Model.Packet Proofs.Packet.
Theorem C25_census : census_ok = true.
Proof. exact census_holds. Qed.
Print Assumptions C25_census.
