(* C25  Tampered NTS packets are never accepted as authentic.
   Property theorems only; proofs are in Proofs/Tamper.v.

   Cryptography is an ideal AEAD, given as an oracle [dec key nonce aad ct].
   The hypothesis [genuine] is the idealisation (forgery probability zero, one
   NTS-protected packet in flight): apart from cookie encryptions, which are
   made with EMPTY associated data, the only tuple that decrypts (under any
   key) is the genuine authenticator tuple (n0, a0, c0) = (nonce, associated
   data, ciphertext) of the valid packet; it is visible in every statement.

   [agrees n0 a0 c0 data] says that [data] carries a0 in [0,|a0|) (the header
   and every extension field before the authenticator field), n0 at
   [|a0|+8, |a0|+8+|n0|) (the authenticator's nonce) and c0 at
   [|a0|+8+pad4|n0|, ..+|c0|) (its ciphertext): i.e. that [data] was NOT changed
   in any bit of the ranges the property names.

   [reports_trusted r]: the decode result r carries a non-empty authenticated or
   encrypted field list, or recovered cookie keys (also when the result is the
   packet returned inside a decrypt error). *)
From V Require Import Model.Packet Proofs.Packet Proofs.Tamper.

Definition genuine (dec : oracle) (n0 a0 c0 : bytes) : Prop :=
  forall key n a c p, dec key n a c = Some p -> a = [] \/ (n = n0 /\ a = a0 /\ c = c0).

(* First sentence of the property, for all three key contexts and every byte
   string (any length, any number of changed bits): if anything is reported as
   authenticated or encrypted, or cookie keys are recovered, then the datagram
   agrees with the genuine packet on the header, on every field before the
   authenticator, on the nonce and on the ciphertext. *)
Theorem C25_protected : forall (dec : oracle) (n0 a0 c0 : bytes), genuine dec n0 a0 c0 ->
  forall (cx : ctx) (data : bytes),
  reports_trusted (deserialize dec cx data) -> agrees n0 a0 c0 data.
Proof. exact tamper_protected. Qed.

(* the same, as the property words it *)
Theorem C25_tampered_rejected : forall (dec : oracle) (n0 a0 c0 : bytes), genuine dec n0 a0 c0 ->
  forall (cx : ctx) (data : bytes),
  ~ agrees n0 a0 c0 data -> ~ reports_trusted (deserialize dec cx data).
Proof. intros dec n0 a0 c0 Hg cx data Hn Hr. apply Hn. eapply tamper_protected; eassumption. Qed.

(* Second sentence ("any other change never makes different content appear
   authenticated or encrypted"): NOT proved as a theorem here (it needs the
   determinism of the parse of the unchanged prefix); it is covered by the
   correspondence check and its monitor (tools/props/c25.py), which compares the
   reported lists with those of the unmodified packet at every byte position.
   C25_rest_harmless is therefore missing: this file is _partial for C25. *)

(* non-vacuity: a one-entry table oracle is [genuine]; the NTPv4 datagram
   header ++ unique-identifier field ++ authenticator field authenticates under
   it (the identifier is reported as authenticated) and agrees; with one header
   bit flipped nothing is reported as authenticated any more *)
Example C25_nonvacuous :
  let hdr := 35 :: repeat 0 47 in
  let a0 := hdr ++ [1; 4; 0; 16] ++ repeat 5 12 in
  let n0 := [1; 2; 3; 4] in
  let c0 := [9; 9; 9; 9] in
  let auth := [4; 4; 0; 28; 0; 4; 0; 4] ++ n0 ++ c0 ++ repeat 0 12 in
  let dec := table_dec [([7], n0, a0, c0, [])] in
  genuine dec n0 a0 c0 /\
  reports_trusted (deserialize dec (ClientKey [7]) (a0 ++ auth)) /\
  agrees n0 a0 c0 (a0 ++ auth) /\
  ~ reports_trusted (deserialize dec (ClientKey [7]) ((35 :: 1 :: repeat 0 46) ++ [1; 4; 0; 16] ++ repeat 5 12 ++ auth)).
Proof.
  cbv zeta. split; [intros key n a c p; apply table_single_genuine|].
  split; [vm_compute; left; discriminate|].
  split; [vm_compute; repeat split; reflexivity|].
  vm_compute. intros [H|H]; apply H; reflexivity.
Qed.

Print Assumptions C25_protected.
Print Assumptions C25_tampered_rejected.
