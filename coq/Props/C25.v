(* C25  Tampered NTS packets are never accepted as authentic.
   Property theorems only; proofs are in Proofs/Tamper.v (first sentence) and
   Proofs/Tamper2.v (second sentence).

   Cryptography is an ideal AEAD, given as an oracle [dec key nonce aad ct].
   The hypothesis [genuine] is the idealisation (forgery probability zero, one
   NTS-protected packet in flight): apart from cookie encryptions, which are
   made with EMPTY associated data, the only tuple that decrypts (under any
   key) is the genuine authenticator tuple (n0, a0, c0) = (nonce, associated
   data, ciphertext) of the valid packet; it is visible in every statement.

   [agrees n0 a0 c0 data] says that [data] carries a0 in [0,|a0|) (the header
   and every extension field before the authenticator field), n0 at
   [|a0|+8, |a0|+8+|n0|) (the authenticator's nonce) and c0 at
   [|a0|+8+pad4|n0|, ..+|c0|) (its ciphertext): i.e. that [data] was NOT changed
   in any bit of the ranges the property names.

   [reports_trusted r]: the decode result r carries a non-empty authenticated or
   encrypted field list, or recovered cookie keys (also when the result is the
   packet returned inside a decrypt error).

   [auth_of r], [enc_of r], [keys_of r]: the authenticated field list, the
   encrypted field list (of an accepted packet or of the packet inside a decrypt
   error; [] for any other result) and the recovered cookie keys (of an accepted
   packet; None otherwise) of a decode result (Proofs/Tamper2.v).

   [authenticator_at n0 a0 c0 b]: b carries a0 in [0,|a0|), 48 <= |a0|, and at
   offset |a0| the decoder's own field streamer (the one the version in b's first
   byte selects) reads an NTS authenticator field whose nonce is n0 and whose
   ciphertext is c0: b is a packet produced for the tuple (n0, a0, c0). *)
From V Require Import Model.Packet Proofs.Packet Proofs.Tamper Proofs.Tamper2.

Definition genuine (dec : oracle) (n0 a0 c0 : bytes) : Prop :=
  forall key n a c p, dec key n a c = Some p -> a = [] \/ (n = n0 /\ a = a0 /\ c = c0).

(* First sentence of the property, for all three key contexts and every byte
   string (any length, any number of changed bits): if anything is reported as
   authenticated or encrypted, or cookie keys are recovered, then the datagram
   agrees with the genuine packet on the header, on every field before the
   authenticator, on the nonce and on the ciphertext. *)
Theorem C25_protected : forall (dec : oracle) (n0 a0 c0 : bytes), genuine dec n0 a0 c0 ->
  forall (cx : ctx) (data : bytes),
  reports_trusted (deserialize dec cx data) -> agrees n0 a0 c0 data.
Proof. exact tamper_protected. Qed.

(* the same, as the property words it *)
Theorem C25_tampered_rejected : forall (dec : oracle) (n0 a0 c0 : bytes), genuine dec n0 a0 c0 ->
  forall (cx : ctx) (data : bytes),
  ~ agrees n0 a0 c0 data -> ~ reports_trusted (deserialize dec cx data).
Proof. intros dec n0 a0 c0 Hg cx data Hn Hr. apply Hn. eapply tamper_protected; eassumption. Qed.

(* Second sentence ("any other change never makes different content appear
   authenticated or encrypted"), for all three key contexts.  b is the genuine
   packet: it carries a0 and then its authenticator with n0 and c0, and it
   decodes without error to o (accepted, or a decrypt error).  b' is ANY byte
   string of the same length that agrees with it on the protected ranges (it may
   differ in the authenticator's type / length / nonce-length / ciphertext-length
   bytes, in its padding, and anywhere after it).  Then every field b' reports
   as authenticated is one b reports as authenticated, every field b' reports as
   encrypted is one b reports as encrypted (also inside a decrypt error), and
   cookie keys recovered from b' are the ones recovered from b.
   No assumption that b itself authenticates: if the receiver holds the wrong
   key, or b's trusted content is empty, b' reports nothing either.
   (The hypothesis [agrees n0 a0 c0 b'] is the property's wording; the proof
   does not need it, see C25_rest_exact: a b' that does not agree reports
   nothing, by C25_protected.)
   Cookie keys: when b is a decrypt error (o = DecryptFailed, e.g. a second,
   bad authenticator follows the genuine one) its result carries no keys, and
   the last clause says nothing; a b' that repairs the part after the genuine
   authenticator is then accepted with the keys of the genuine cookie. *)
Theorem C25_rest_harmless : forall (dec : oracle) (n0 a0 c0 : bytes), genuine dec n0 a0 c0 ->
  forall (cx : ctx) (b b' : bytes) (o : outcome),
  authenticator_at n0 a0 c0 b -> deserialize dec cx b = Ok o ->
  blen b' = blen b -> agrees n0 a0 c0 b' ->
  (forall f, In f (auth_of (deserialize dec cx b')) -> In f (auth_of (Ok o))) /\
  (forall f, In f (enc_of (deserialize dec cx b')) -> In f (enc_of (Ok o))) /\
  (forall k, keys_of (deserialize dec cx b') = Some k -> forall p ck, o = Accept p ck -> ck = Some k).
Proof. exact rest_harmless. Qed.

(* the same, all or nothing, for EVERY b' of the same length: if b' reports
   anything as trusted, its authenticated list and its encrypted list are exactly
   those of b, and its cookie keys are those of b (or absent: decrypt error) *)
Theorem C25_rest_exact : forall (dec : oracle) (n0 a0 c0 : bytes), genuine dec n0 a0 c0 ->
  forall (cx : ctx) (b b' : bytes) (o : outcome),
  authenticator_at n0 a0 c0 b -> deserialize dec cx b = Ok o -> blen b' = blen b ->
  reports_trusted (deserialize dec cx b') ->
  auth_of (deserialize dec cx b') = auth_of (Ok o) /\
  enc_of (deserialize dec cx b') = enc_of (Ok o) /\
  (forall p ck, o = Accept p ck ->
     keys_of (deserialize dec cx b') = ck \/ keys_of (deserialize dec cx b') = None).
Proof. exact rest_exact. Qed.

(* without describing b by its bytes: any two byte strings of the same length
   that both report something as trusted report the same lists (under the ideal
   AEAD there is one genuine content per datagram length) *)
Theorem C25_rest_equal : forall (dec : oracle) (n0 a0 c0 : bytes), genuine dec n0 a0 c0 ->
  forall (cx : ctx) (b b' : bytes),
  reports_trusted (deserialize dec cx b) -> blen b' = blen b ->
  reports_trusted (deserialize dec cx b') ->
  auth_of (deserialize dec cx b') = auth_of (deserialize dec cx b) /\
  enc_of (deserialize dec cx b') = enc_of (deserialize dec cx b) /\
  (forall p ck, deserialize dec cx b = Ok (Accept p ck) ->
     keys_of (deserialize dec cx b') = ck \/ keys_of (deserialize dec cx b') = None).
Proof. exact rest_equal. Qed.

(* non-vacuity: a one-entry table oracle is [genuine]; the NTPv4 datagram
   header ++ unique-identifier field ++ authenticator field authenticates under
   it (the identifier is reported as authenticated) and agrees; with one header
   bit flipped nothing is reported as authenticated any more *)
Example C25_nonvacuous :
  let hdr := 35 :: repeat 0 47 in
  let a0 := hdr ++ [1; 4; 0; 16] ++ repeat 5 12 in
  let n0 := [1; 2; 3; 4] in
  let c0 := [9; 9; 9; 9] in
  let auth := [4; 4; 0; 28; 0; 4; 0; 4] ++ n0 ++ c0 ++ repeat 0 12 in
  let dec := table_dec [([7], n0, a0, c0, [])] in
  genuine dec n0 a0 c0 /\
  reports_trusted (deserialize dec (ClientKey [7]) (a0 ++ auth)) /\
  agrees n0 a0 c0 (a0 ++ auth) /\
  ~ reports_trusted (deserialize dec (ClientKey [7]) ((35 :: 1 :: repeat 0 46) ++ [1; 4; 0; 16] ++ repeat 5 12 ++ auth)).
Proof.
  cbv zeta. split; [intros key n a c p; apply table_single_genuine|].
  split; [vm_compute; left; discriminate|].
  split; [vm_compute; repeat split; reflexivity|].
  vm_compute. intros [H|H]; apply H; reflexivity.
Qed.

(* non-vacuity of the second sentence: the same genuine packet b carries its
   authenticator at |a0| and is accepted with the identifier authenticated; b1
   (a padding byte of the authenticator changed) has the same length, agrees,
   differs from b and still reports exactly that field; b2 (the authenticator's
   ciphertext-length byte changed) agrees too and reports nothing any more *)
Example C25_rest_nonvacuous :
  let hdr := 35 :: repeat 0 47 in
  let a0 := hdr ++ [1; 4; 0; 16] ++ repeat 5 12 in
  let n0 := [1; 2; 3; 4] in
  let c0 := [9; 9; 9; 9] in
  let b := a0 ++ [4; 4; 0; 28; 0; 4; 0; 4] ++ n0 ++ c0 ++ repeat 0 12 in
  let b1 := a0 ++ [4; 4; 0; 28; 0; 4; 0; 4] ++ n0 ++ c0 ++ 7 :: repeat 0 11 in
  let b2 := a0 ++ [4; 4; 0; 28; 0; 4; 0; 5] ++ n0 ++ c0 ++ repeat 0 12 in
  let dec := table_dec [([7], n0, a0, c0, [])] in
  let cx := ClientKey [7] in
  genuine dec n0 a0 c0 /\ authenticator_at n0 a0 c0 b /\
  (exists p ck, deserialize dec cx b = Ok (Accept p ck) /\ authenticated (p_ef p) = [EfUid (repeat 5 12)]) /\
  blen b1 = blen b /\ agrees n0 a0 c0 b1 /\ b1 <> b /\
  auth_of (deserialize dec cx b1) = [EfUid (repeat 5 12)] /\
  blen b2 = blen b /\ agrees n0 a0 c0 b2 /\ ~ reports_trusted (deserialize dec cx b2).
Proof.
  cbv zeta. split; [intros key n a c p; apply table_single_genuine|].
  split.
  { split; [vm_compute; reflexivity|]. split; [vm_compute; discriminate|].
    do 3 eexists. split; [vm_compute; reflexivity|]. split; [vm_compute; reflexivity|]. vm_compute; reflexivity. }
  split; [do 2 eexists; split; [vm_compute; reflexivity|]; vm_compute; reflexivity|].
  split; [vm_compute; reflexivity|].
  split; [vm_compute; repeat split; reflexivity|].
  split; [vm_compute; discriminate|].
  split; [vm_compute; reflexivity|].
  split; [vm_compute; reflexivity|].
  split; [vm_compute; repeat split; reflexivity|].
  vm_compute. intros [H|H]; apply H; reflexivity.
Qed.

Print Assumptions C25_protected.
Print Assumptions C25_tampered_rejected.
Print Assumptions C25_rest_harmless.
Print Assumptions C25_rest_exact.
Print Assumptions C25_rest_equal.
