(* C15  Server access policy is enforced in order.
   Property theorems only; proofs are in Proofs/Server.v.

   The theorems are about the decision model [handle] of Server::handle (Model/Server.v), over the
   summary of the parsed datagram [request] (outcome class of the decoder incl. authentication
   failure, version, mode, cookie present), the two list-membership bits, the rate-limit cache, and
   every configuration (list actions, require-nts, accepted versions, cutoff).  Byte-level decoding
   (C23/C24), list membership (C31) and answer construction (C16-C19) are inputs of this model.
   [o_out r] is what is sent: nothing, a time answer, a DENY kiss, or an NTS NAK.

   The model is of the REPAIRED handler (commit "fix: never answer non-client packets whose NTS field
   fails to authenticate", prepared as branch fix-c15-nonclient-nak): a datagram whose NTS field fails
   to authenticate is only answered when its mode is `client`.  Before that commit such non-client
   datagrams were answered with a NAK (or DENY); see C15_unanswered. *)
From V Require Import Model.RateCache Model.Server Proofs.RateCache Proofs.Server.

(* The deny list is tested first: for a client on the deny list the outcome does not depend on the
   allow list at all, ... *)
Theorem C15_deny_first : forall h cfg c e rq b,
  e_in_deny e = true -> handle h cfg c (with_allow e b) rq = handle h cfg c e rq.
Proof. exact deny_ignores_allow. Qed.

(* ... it never receives time nor a NAK: with action `ignore` nothing is sent (registered as
   Policy/Ignore), with action `deny` at most a DENY kiss (registered as Policy/Deny); the
   rate-limit cache is not touched. *)
Theorem C15_denied : forall h cfg c e rq r,
  e_in_deny e = true -> handle h cfg c e rq = Ok r ->
  o_cache r = c /\
  match c_deny_action cfg with
  | FIgnore => o_out r = OIgnore /\ o_regs r = [(r_fbv rq, false, Policy, RIgnore)]
  | FDeny => o_out r = OIgnore \/ (o_out r = ORespond ADenyKiss /\ exists v n, o_regs r = [(v, n, Policy, RDeny)])
  end.
Proof. exact denied_outcome. Qed.

(* The same for a client that is not on the deny list and not on the allow list, with the allow
   list's action. *)
Theorem C15_not_allowed : forall h cfg c e rq r,
  e_in_deny e = false -> e_in_allow e = false -> handle h cfg c e rq = Ok r ->
  o_cache r = c /\
  match c_allow_action cfg with
  | FIgnore => o_out r = OIgnore /\ o_regs r = [(r_fbv rq, false, Policy, RIgnore)]
  | FDeny => o_out r = OIgnore \/ (o_out r = ORespond ADenyKiss /\ exists v n, o_regs r = [(v, n, Policy, RDeny)])
  end.
Proof. exact not_allowed_outcome. Qed.

(* Whatever made the intended action `Ignore` (a list, or the rate limit): nothing is sent, whatever
   the datagram contains. *)
Theorem C15_ignore_is_silent : forall h cfg c e rq c' w r,
  intended_action h cfg c e = Ok (c', RIgnore, w) -> handle h cfg c e rq = Ok r ->
  o_out r = OIgnore /\ o_regs r = [(r_fbv rq, false, w, RIgnore)].
Proof. exact ignore_is_silent. Qed.

(* Intended action `Deny`: the output is nothing or a DENY kiss -- never time and never a NAK; in
   particular an authentication failure does not change the action. *)
Theorem C15_deny_at_most_deny : forall h cfg c e rq c' w r,
  intended_action h cfg c e = Ok (c', RDeny, w) -> handle h cfg c e rq = Ok r ->
  o_out r = OIgnore \/ o_out r = ORespond ADenyKiss.
Proof. exact deny_at_most_deny. Qed.

(* Malformed datagrams (decoder error other than an authentication failure), non-client packets
   (also when their NTS field fails to authenticate) and requests in non-accepted versions are never
   answered. *)
Theorem C15_unanswered : forall h cfg c e rq r,
  (r_parse rq = PErr \/ r_client rq = false \/ existsb (version_eqb (r_ver rq)) (c_accepted cfg) = false) ->
  handle h cfg c e rq = Ok r -> o_out r = OIgnore.
Proof. exact unanswered. Qed.

(* NTS required: a request without a cookie that authenticates never receives time; a plain
   request (decoded, no cookie) gets nothing under `ignore` and at most a DENY kiss under `deny`. *)
Theorem C15_require_nts : forall h cfg c e rq r a,
  c_require_nts cfg = Some a -> (r_parse rq = POk -> r_cookie rq = false) ->
  handle h cfg c e rq = Ok r ->
  never_time r /\
  (r_parse rq = POk ->
   match a with FIgnore => o_out r = OIgnore | FDeny => o_out r = OIgnore \/ o_out r = ORespond ADenyKiss end).
Proof. exact require_nts_outcome. Qed.

(* A decoded client request of an accepted version, from a client that passes both lists and is not
   rate-limited, authenticated if NTS is required, receives time and is registered as
   Policy/ProvideTime with the NTS flag = cookie present -- provided the answer fits the caller's
   buffer ([e_ser_ok]; properties C16/C17), the clock can be read, the key set is usable and the
   published root delay is not negative ([env_ok]; see C22).  (NTPv3 requests never carry a cookie:
   the decoder does not parse extension fields for them.) *)
Theorem C15_served : forall h cfg c e rq c',
  e_in_deny e = false -> e_in_allow e = true ->
  is_allowed h c (e_addr e) (e_now e) (c_cutoff cfg) = Ok (c', true) ->
  r_parse rq = POk -> r_client rq = true ->
  existsb (version_eqb (r_ver rq)) (c_accepted cfg) = true ->
  (c_require_nts cfg = None \/ r_cookie rq = true) ->
  (r_ver rq = V3 -> r_cookie rq = false) ->
  env_ok e -> e_ser_ok e = true ->
  handle h cfg c e rq =
    Ok {| o_cache := c'; o_regs := [(version_u8 (r_ver rq), r_cookie rq, Policy, RProvideTime)]; o_out := ORespond ATime |}.
Proof. exact served. Qed.

Definition nv_cfg : config :=
  {| c_deny_action := FDeny; c_allow_action := FIgnore; c_require_nts := Some FDeny;
     c_accepted := [V4; V5]; c_cutoff := 1000 |}.
Definition nv_env (d a : bool) : env :=
  {| e_addr := 7; e_in_deny := d; e_in_allow := a; e_now := 5; e_ser_ok := true; e_buf_ge4 := true;
     e_lock_ok := true; e_clock_ok := true; e_keys_ok := true; e_root_delay_nonneg := true |}.
Definition nv_req (p : parse) (v : version) (cl ck : bool) : request :=
  {| r_fbv := version_u8 v; r_parse := p; r_ver := v; r_client := cl; r_cookie := ck |}.

(* non-vacuity: an allowed NTS client gets time; a plain one a DENY kiss (NTS required, action deny);
   a denied client with a broken authenticator gets the DENY kiss, not a NAK; an allowed one the NAK;
   a server-mode datagram with a broken authenticator, an NTPv3 request and a client outside the
   allow list get nothing. *)
Example C15_nonvacuous :
  (exists r, handle (fun a => a) nv_cfg (new_cache 2) (nv_env false true) (nv_req POk V4 true true) = Ok r /\ o_out r = ORespond ATime)
  /\ (exists r, handle (fun a => a) nv_cfg (new_cache 2) (nv_env false true) (nv_req POk V4 true false) = Ok r /\ o_out r = ORespond ADenyKiss)
  /\ (exists r, handle (fun a => a) nv_cfg (new_cache 2) (nv_env true true) (nv_req PDecrypt V5 true false) = Ok r /\ o_out r = ORespond ADenyKiss)
  /\ (exists r, handle (fun a => a) nv_cfg (new_cache 2) (nv_env false true) (nv_req PDecrypt V5 true false) = Ok r /\ o_out r = ORespond ANak)
  /\ (exists r, handle (fun a => a) nv_cfg (new_cache 2) (nv_env false true) (nv_req PDecrypt V5 false false) = Ok r /\ o_out r = OIgnore)
  /\ (exists r, handle (fun a => a) nv_cfg (new_cache 2) (nv_env false true) (nv_req POk V3 true false) = Ok r /\ o_out r = OIgnore)
  /\ (exists r, handle (fun a => a) nv_cfg (new_cache 2) (nv_env false false) (nv_req POk V4 true true) = Ok r /\ o_out r = OIgnore).
Proof. repeat split; eexists; (split; [vm_compute; reflexivity|reflexivity]). Qed.

Print Assumptions C15_deny_first.
Print Assumptions C15_denied.
Print Assumptions C15_not_allowed.
Print Assumptions C15_ignore_is_silent.
Print Assumptions C15_deny_at_most_deny.
Print Assumptions C15_unanswered.
Print Assumptions C15_require_nts.
Print Assumptions C15_served.
