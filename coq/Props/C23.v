(* C23  The NTP packet decoder is total.
   Decoding any byte string as an NTP packet, with no keys, with client session
   keys or with the server's cookie keys, terminates with a packet or an error
   and never panics.  Property theorems only; proofs are in Proofs/Packet.v.

   The model (Model/ExtField.v, Model/Packet.v) is a total Gallina function;
   every Rust panic site on the decode path (indexing and slicing, the
   try_into().unwrap()s, unreachable!, expect) is an explicit [Panic site]
   guarded by the same condition, and running out of the model's loop fuel is
   a Panic as well, so "<> Panic" also says that the loops terminate within
   the number of bytes present.  [cx] ranges over the three key contexts
   (NoKeys | ClientKey k | ServerKeys keys id_offset); the AEAD decryption is an
   arbitrary function [dec] (the only hypothesis: what it returns is a byte
   string), so the theorem covers every cipher behaviour, including plaintexts
   that are themselves malformed field sequences. *)
From V Require Import Model.Packet Proofs.Packet.

Theorem C23_total : forall (dec : oracle) (cx : ctx) (data : bytes),
  wf_bytes data -> oracle_wf dec ->
  forall site, deserialize dec cx data <> Panic site.
Proof. exact deserialize_total. Qed.

(* ... hence the result is a packet (accepted, or returned inside a decrypt
   error) or an error class *)
Theorem C23_packet_or_error : forall (dec : oracle) (cx : ctx) (data : bytes),
  wf_bytes data -> oracle_wf dec ->
  (exists o, deserialize dec cx data = Ok o) \/ (exists e, deserialize dec cx data = Err e).
Proof. exact deserialize_outcome. Qed.

(* the oracles used by the correspondence check (finite tables of genuine
   encryptions) satisfy the hypothesis *)
Theorem C23_table_oracles_wf : forall t,
  forallb (fun e => wf_bytes_b (snd e)) t = true -> oracle_wf (table_dec t).
Proof. exact table_dec_wf. Qed.

(* the site census the model was written against still matches the sources *)
Theorem C23_census : census_ok = true.
Proof. exact census_holds. Qed.

(* non-vacuity: a well-formed NTPv4 datagram with an NTS authenticator field,
   decoded in the client-key context with an oracle that returns a plaintext
   holding one unique-identifier field: accepted, the field is reported as
   encrypted; the same datagram without keys is a decrypt error; a v5 datagram
   in the server context without cookie is a decrypt error too *)
Example C23_nonvacuous :
  let data := 35 :: repeat 0 47 ++ [4; 4; 0; 28] ++ repeat 0 24 in
  let dec : oracle := fun _ _ _ _ => Some [1; 4; 0; 8; 9; 9; 9; 9] in
  wf_bytes data /\ oracle_wf dec /\
  (exists p, deserialize dec (ClientKey [7]) data = Ok (Accept p None)
             /\ encrypted (p_ef p) = [EfUid [9; 9; 9; 9]]) /\
  (exists p, deserialize dec NoKeys data = Ok (DecryptFailed p)) /\
  (exists p, deserialize dec (ServerKeys [repeat 1 64] 0) data = Ok (DecryptFailed p)).
Proof.
  cbv zeta. split; [apply wf_bytes_check; vm_compute; reflexivity|].
  split; [intros k n a c p H; inversion H; subst; apply wf_bytes_check; vm_compute; reflexivity|].
  split; [eexists; split; vm_compute; reflexivity|].
  split; eexists; vm_compute; reflexivity.
Qed.

Print Assumptions C23_total.
Print Assumptions C23_packet_or_error.
Print Assumptions C23_table_oracles_wf.
Print Assumptions C23_census.
