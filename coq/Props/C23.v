(* C23 stub *)
From V Require Import Model.Packet Proofs.Packet.
Theorem C23_census : census_ok = true.
Proof. exact census_holds. Qed.
Print Assumptions C23_census.
