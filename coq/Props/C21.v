(* C21  Server statistics account for every datagram exactly once.
   Property theorems only; proofs are in Proofs/Server.v.

   [handle] is the decision model of Server::handle (Model/Server.v) over the summary of the parsed
   datagram, every policy configuration, cache state and buffer outcome ([e_ser_ok e] = the answer
   fits the caller's buffer); [o_regs r] are the ServerStatHandler::register calls of one `handle`,
   [o_out r] is what was sent.  [register]/[register_all] model ServerStats::register of the daemon
   (eleven AtomicU64 counters, wrapping at 2^64). *)
From V Require Import Model.RateCache Model.Server Proofs.RateCache Proofs.Server.
From V Require Import Gen.ConstServer.

(* Exactly one registration on every path (early ignore, parse error, wrong mode, version not
   accepted, NTS required, answer sent, serialisation failure), and its response kind is what was
   actually done. *)
Theorem C21_exactly_one : forall h cfg c e rq r,
  handle h cfg c e rq = Ok r -> length (o_regs r) = 1%nat.
Proof.
  intros h cfg c e rq r H. destruct (handle_one_registration _ _ _ _ _ _ H) as (v & n & w & a & Hr & _).
  rewrite Hr. reflexivity.
Qed.

Theorem C21_kind_matches : forall h cfg c e rq r,
  handle h cfg c e rq = Ok r ->
  exists v n w a, o_regs r = [(v, n, w, a)] /\
    (a = RProvideTime <-> o_out r = ORespond ATime) /\
    (a = RDeny <-> o_out r = ORespond ADenyKiss) /\
    (a = RNak <-> o_out r = ORespond ANak) /\
    (a = RIgnore <-> o_out r = OIgnore).
Proof. exact handle_one_registration. Qed.

(* The NTS flag: never set for an undecodable datagram nor for a plain request (decoded, no cookie);
   set for every NTS request (decoded with a cookie that authenticates) that is answered; for a
   request whose authenticator fails it is set when the NAK is sent and not when policy answers with a
   DENY kiss -- and also when the NAK could not be serialised (then nothing is sent and the reason is
   InternalError; reading of DESIGN.md section 5). *)
Theorem C21_nts_flag : forall h cfg c e rq r v n w a,
  handle h cfg c e rq = Ok r -> o_regs r = [(v, n, w, a)] ->
  (r_parse rq = PErr -> n = false) /\
  (r_parse rq = POk -> r_cookie rq = false -> n = false) /\
  (r_parse rq = POk -> r_cookie rq = true -> o_out r <> OIgnore -> n = true) /\
  (r_parse rq = PDecrypt ->
     (o_out r = ORespond ANak -> n = true) /\
     (o_out r = ORespond ADenyKiss -> n = false) /\
     (n = true -> o_out r = ORespond ANak \/ (o_out r = OIgnore /\ w = InternalError))).
Proof. exact nts_flag. Qed.

(* The daemon's counters after any sequence of registrations, from zero: each is the number of
   registrations of its class (mod 2^64); response_send_errors is not touched by `register`. *)
Theorem C21_counters : forall l,
  let s := register_all stats0 l in
  received s = wrap 64 (Z.of_nat (count p_all l)) /\
  accepted s = wrap 64 (Z.of_nat (count p_accepted l)) /\
  denied s = wrap 64 (Z.of_nat (count p_denied l)) /\
  ignored s = wrap 64 (Z.of_nat (count p_ignored l)) /\
  rate_limited s = wrap 64 (Z.of_nat (count p_rate l)) /\
  nts_nak s = wrap 64 (Z.of_nat (count p_nak l)) /\
  nts_received s = wrap 64 (Z.of_nat (count p_nts l)) /\
  nts_accepted s = wrap 64 (Z.of_nat (count p_nts_accepted l)) /\
  nts_denied s = wrap 64 (Z.of_nat (count p_nts_denied l)) /\
  nts_rate_limited s = wrap 64 (Z.of_nat (count p_nts_rate l)) /\
  send_errors s = 0.
Proof. exact counters. Qed.

(* Every registration is counted in `received` and in exactly one of accepted / denied / ignored /
   rate-limited / nak; the NTS counters count sub-populations. *)
Theorem C21_counters_partition : forall l,
  (count p_all l = length l)%nat /\
  (count p_accepted l + count p_denied l + count p_ignored l + count p_rate l + count p_nak l = length l)%nat /\
  (count p_nts_accepted l <= count p_accepted l)%nat /\
  (count p_nts_denied l <= count p_denied l)%nat /\
  (count p_nts_rate l <= count p_rate l)%nat /\
  (count p_nts_accepted l + count p_nts_denied l + count p_nts_rate l <= count p_nts l)%nat.
Proof. exact counters_partition. Qed.

(* Over any history of datagrams through one server: as many registrations as datagrams, and the
   class counts equal the number of time answers, DENY kisses, NAKs and unanswered datagrams. *)
Theorem C21_history : forall h cfg l c c' rs,
  handle_all h cfg c l = Ok (c', rs) ->
  let regs := flat_map o_regs rs in
  length regs = length l /\
  count p_accepted regs = length (filter (out_is (ORespond ATime)) rs) /\
  count p_denied regs = length (filter (out_is (ORespond ADenyKiss)) rs) /\
  count p_nak regs = length (filter (out_is (ORespond ANak)) rs) /\
  (count p_ignored regs + count p_rate regs)%nat = length (filter (out_is OIgnore) rs).
Proof. exact history_counts. Qed.

(* non-vacuity: a NAK that does not fit the buffer is registered once, as InternalError/Ignore with the
   NTS flag; counters after four registrations. *)
Example C21_nonvacuous :
  (exists r, handle (fun a => a)
       {| c_deny_action := FDeny; c_allow_action := FIgnore; c_require_nts := None; c_accepted := [V4]; c_cutoff := 0 |}
       (new_cache 0)
       {| e_addr := 1; e_in_deny := false; e_in_allow := true; e_now := 0; e_ser_ok := false; e_buf_ge4 := true;
          e_lock_ok := true; e_clock_ok := true; e_keys_ok := true; e_root_delay_nonneg := true |}
       {| r_fbv := 4; r_parse := PDecrypt; r_ver := V4; r_client := true; r_cookie := false |} = Ok r
     /\ o_regs r = [(4, true, InternalError, RIgnore)] /\ o_out r = OIgnore)
  /\ stats_run [(1, 4, 3); (0, 0, 2); (1, 2, 0); (0, 4, 1)] = [4; 1; 1; 0; 1; 0; 2; 1; 0; 0; 1].
Proof. split; [eexists; split; [vm_compute; reflexivity|split; reflexivity]|vm_compute; reflexivity]. Qed.

(* census, regenerated from the sources on every run: the handler has one registration call per modelled exit
   (6 early exits of handle_inner + both arms of the serialisation match in `handle`), the daemon has eleven
   counters and one call of Server::handle. *)
Example C21_site_census :
  SRV_REGISTER_CALLS = 8 /\ SRV_HANDLE_REGISTER_CALLS = 2 /\ DAEMON_STATS_COUNTERS = 11 /\ DAEMON_HANDLE_CALLS = 1.
Proof. repeat split; reflexivity. Qed.

Print Assumptions C21_exactly_one.
Print Assumptions C21_kind_matches.
Print Assumptions C21_nts_flag.
Print Assumptions C21_counters.
Print Assumptions C21_counters_partition.
Print Assumptions C21_history.
