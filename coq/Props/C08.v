(* C08  A source only accepts fresh answers to its own pending request.
   Property theorems only; proofs are in Proofs/SourceIncoming.v.

   Vocabulary (Model/Source.v): [step_incoming c s now op] is handle_incoming on
   the decoder's result [op] ([None]: rejected by the decoder); [Measure id] is
   the hand-over of the two measurements of request number [id] to the clock
   filter (process_message); [s_req s] is current_request_identifier (request
   number, deadline); requests are numbered in the order they are built, a
   packet's [p_origin] / unique-identifier entries name the request whose random
   origin timestamp (NTPv5: client cookie) / identifier they equal. *)
From V Require Import Model.Source Gen.ConstSource Proofs.SourceBase Proofs.SourceIncoming.

(* A measurement is taken only from a decodable packet that answers the pending
   (= most recent) request: inside the poll window, of the expected protocol
   version, echoing the request's origin timestamp / client cookie and -- for NTS
   sources, whose requests carry one -- its unique identifier under the
   authenticator (at least one copy, none contradicting); it is not a kiss code,
   has stratum at most 16 and server mode.  Nothing else is emitted with it, and
   the request identifier is consumed. *)
Theorem C08_measure_only_if : forall c s now op s' acts id,
  step_incoming c s now op = (s', acts) -> In (Measure id) acts ->
  exists p dl, op = Some p /\ s_req s = Some (id, dl) /\ now <= dl
    /\ expected (s_ver s) (p_ver p) = true
    /\ p_origin p = id
    /\ (s_nts s = true -> uid_bound p id)
    /\ p_stratum p <> 0 /\ p_stratum p <= MAX_STRATUM /\ p_mode p = MODE_SERVER
    /\ acts = [Measure id] /\ s_req s' = None.
Proof. exact measure_only_if. Qed.

(* one-shot identifier *)
Theorem C08_one_shot : forall c s now op s' acts id,
  step_incoming c s now op = (s', acts) -> In (Measure id) acts -> s_req s' = None.
Proof. exact one_shot. Qed.

(* Each request yields at most one measurement: in every run, from every state,
   no two Measure actions occur without a Send in between ([m] says whether a
   measurement was already taken for the request pending in [s]; then nothing is
   pending).  Replays and duplicates therefore produce nothing. *)
Theorem C08_at_most_one : forall c evs s s' tr m,
  run c s evs = Ok (s', tr) -> (m = true -> s_req s = None) ->
  one_per_request m (concat tr) = true.
Proof. exact at_most_one. Qed.

Theorem C08_at_most_one_from_start : forall c nts stash v evs s' tr,
  run c (init c nts stash v) evs = Ok (s', tr) -> one_per_request false (concat tr) = true.
Proof. exact at_most_one_init. Qed.

(* timers never produce measurements; datagrams never produce requests *)
Theorem C08_incoming_actions : forall c s now op s' acts,
  step_incoming c s now op = (s', acts) ->
  (acts = [] \/ acts = [Demobilize]) /\ s_req s' = s_req s \/
  (exists id dl, acts = [Measure id] /\ s_req s = Some (id, dl) /\ s_req s' = None).
Proof. exact step_incoming_req. Qed.

(* non-vacuity: a plain NTPv4 source polls, a genuine answer is measured, its
   byte-identical replay and a late answer to the next poll are ignored *)
Example C08_nonvacuous :
  let c := mkCfg 4 10 in
  let ans o := Some (mkPkt 4 4 2 4 0 false o false None [] []) in
  exists s' , run c (init c false [] V4)
      [Timer 0 4; Incoming 10 (ans 0); Incoming 11 (ans 0); Timer 16000 4; Incoming 21001 (ans 1); Incoming 21000 (ans 1)]
    = Ok (s', [[Send (mkReq 0 4 false 4 None 0 48); SetTimer 16]; [Measure 0]; [];
               [Send (mkReq 1 4 false 4 None 0 48); SetTimer 16]; []; [Measure 1]]).
Proof. eexists. vm_compute. reflexivity. Qed.

Print Assumptions C08_measure_only_if.
Print Assumptions C08_one_shot.
Print Assumptions C08_at_most_one.
Print Assumptions C08_at_most_one_from_start.
Print Assumptions C08_incoming_actions.
