(* C31 IP filters match exactly the configured subnets (work in progress). *)
From V Require Import Model.IpFilter Proofs.IpFilter.
Example C31_nonvacuous : run_parse (1, (6, 65535*2^32+5), 100) = [0; 4; 5; 4].
Proof. vm_compute. reflexivity. Qed.
Print Assumptions C31_nonvacuous.
