(* C31  IP filters match exactly the configured subnets.
   Property theorems only; the model is Model/IpFilter.v (nibble trie of
   ntp-proto/src/ipfilter.rs: create with mask + sort, fill_node with the
   counts/split_at buckets, the <= 4-bit run of nibbles, the union-coverage
   sweep, children indexed by popcount in one shared node array, lookup with
   fuel; IpFilter::new / is_in with IPv4 in the top 32 bits and IPv4-mapped
   canonicalisation; IpSubnet::from_str over the results of the std parsers).
   Proofs: Proofs/IpFilterArith.v, IpFilterPrefix.v, IpFilterNode.v, IpFilter.v. *)
From V Require Import Model.IpFilter Gen.ConstIpFilter.
From V Require Import Proofs.IpFilterArith Proofs.IpFilterNode Proofs.IpFilter.

(* Main theorem.  For EVERY list of subnets whose masks fit their family
   (IPv4 /0../32, IPv6 /0../128 -- what from_str accepts, C31_parse_wf below) --
   overlapping, nested, adjacent, duplicated, unmasked host bits, in any order --
   and EVERY address (IPv4, IPv6, IPv4-mapped IPv6), building the filter and
   looking the address up succeeds (no panic: the three indexing sites and
   split_at_mut are never out of bounds; no fuel exhaustion: 33 levels suffice)
   and answers exactly "some configured subnet contains the address", where
   containment is the naive mask comparison of the repository's own fuzz oracle
   (an IPv4-mapped IPv6 address is the IPv4 address it embeds).
   The only further hypothesis is the size of the list: child offsets are u32 in
   the code (`child_offset as u32`), the trie has at most 1 + 32 * n nodes, so
   the statement is proved for lists of fewer than 130 150 524 subnets
   (1 + 33 n < 2^32); beyond that the code itself truncates the offsets. *)
Theorem C31_lookup_spec : forall subnets a,
  Forall wf_subnet subnets -> wf_addr a ->
  1 + 33 * Z.of_nat (length subnets) < 2 ^ 32 ->
  (do f <- filter_new subnets; is_in f a) = Ok (existsb (fun s => contains s a) subnets).
Proof. exact lookup_spec. Qed.

(* The same one level down, for the trie itself on arbitrary 128-bit prefixes
   (any value, any length 0..128): create followed by lookup is the naive test. *)
Theorem C31_tree_spec : forall data, Forall entry_in_range data ->
  1 + 33 * Z.of_nat (length data) < 2 ^ 32 ->
  exists nodes, create data = Ok nodes /\
    forall a, in128 a -> lookup nodes a = Ok (existsb (naive a) data).
Proof. exact create_spec. Qed.

(* IPv4-mapped IPv6 addresses: ::ffff:a.b.c.d is looked up as a.b.c.d. *)
Theorem C31_mapped : forall f x, 0 <= x < 2 ^ 32 ->
  is_in f (V6 (65535 * 2 ^ 32 + x)) = is_in f (V4 x).
Proof. exact mapped_is_in. Qed.

(* Subnet strings: with split = "the string contains a '/'", addr / mask = the
   results of the standard parsers on the two halves (oracles, any values), the
   string is accepted exactly when both parse and the mask fits the address
   family after canonicalisation (IPv4: <= 32; IPv6: <= 128; IPv4-mapped IPv6
   ::ffff:a.b.c.d/m: 96 <= m <= 128), and the result is the canonical subnet
   (a.b.c.d/(m-96) for the mapped form). *)
Theorem C31_parse : forall split addr mask s,
  from_str split addr mask = Ok s <->
  split = true /\ exists a m, addr = Some a /\ mask = Some m /\ mask_fits a m /\ s = canonical_subnet a m.
Proof. exact from_str_spec. Qed.

(* ... which error is reported otherwise (syntax, address, mask, and the
   "mask overflows the IPv4 range" error for a mapped address with m < 96). *)
Theorem C31_parse_errors : forall split addr mask,
  (split = false -> from_str split addr mask = Err E_SUBNET) /\
  (split = true -> addr = None -> from_str split addr mask = Err E_IP) /\
  (forall a, split = true -> addr = Some a -> mask = None -> from_str split addr mask = Err E_MASK) /\
  (forall x m, split = true -> addr = Some (V6 x) -> mask = Some m -> x / 2 ^ 32 = 65535 -> m < 96 ->
     from_str split addr mask = Err E_MASK_V4_RANGE).
Proof. exact from_str_errors. Qed.

(* Every accepted subnet satisfies the hypothesis of C31_lookup_spec and is in
   canonical form (never an IPv4-mapped IPv6 subnet). *)
Theorem C31_parse_wf : forall split a m s, wf_addr a -> 0 <= m < 256 ->
  from_str split (Some a) (Some m) = Ok s -> wf_subnet s /\ to_canonical (s_addr s) = s_addr s.
Proof. exact from_str_wf. Qed.

(* non-vacuity: /0, a duplicate, nested prefixes, two adjacent /5 halves that
   together cover the nibble 0x1, a /128, IPv4 next to IPv6, and mapped lookups *)
Definition ex_subnets : list subnet :=
  [ mk_subnet (V4 (127 * 2 ^ 24)) 8; mk_subnet (V4 (127 * 2 ^ 24 + 5)) 8;
    mk_subnet (V4 (10 * 2 ^ 24)) 7; mk_subnet (V4 (10 * 2 ^ 24 + 3 * 2 ^ 16)) 16;
    mk_subnet (V6 (16 * 2 ^ 120)) 5; mk_subnet (V6 (24 * 2 ^ 120)) 5;
    mk_subnet (V6 (2 ^ 128 - 1)) 128; mk_subnet (V6 (65535 * 2 ^ 32 + 9 * 2 ^ 24)) 104 ].

Example C31_nonvacuous :
  Forall wf_subnet ex_subnets /\
  map (fun a => do f <- filter_new ex_subnets; is_in f a)
      [V4 (127 * 2 ^ 24 + 1); V4 (11 * 2 ^ 24 + 7); V4 (12 * 2 ^ 24); V6 (65535 * 2 ^ 32 + 10 * 2 ^ 24 + 1);
       V6 (65535 * 2 ^ 32 + 9 * 2 ^ 24 + 1); V6 (16 * 2 ^ 120 + 1); V6 (31 * 2 ^ 120); V6 (32 * 2 ^ 120);
       V6 (2 ^ 128 - 1); V6 (2 ^ 128 - 2)]
  = map Ok [true; true; false; true; false; true; true; false; true; false] /\
  (do f <- filter_new [mk_subnet (V4 5) 0]; is_in f (V4 (2 ^ 32 - 1))) = Ok true /\
  from_str true (Some (V6 (65535 * 2 ^ 32 + 192 * 2 ^ 24))) (Some 120) = Ok (mk_subnet (V4 (192 * 2 ^ 24)) 24) /\
  from_str true (Some (V6 (65535 * 2 ^ 32 + 192 * 2 ^ 24))) (Some 95) = Err E_MASK_V4_RANGE.
Proof.
  split. { repeat constructor; vm_compute; intuition discriminate. }
  vm_compute. repeat split.
Qed.

Print Assumptions C31_lookup_spec.
Print Assumptions C31_tree_spec.
Print Assumptions C31_mapped.
Print Assumptions C31_parse.
Print Assumptions C31_parse_errors.
Print Assumptions C31_parse_wf.
