(* Lemmas about Model/TimeTypes.v: wrapping timestamps, saturating durations,
   poll intervals, wire formats, PTP 128-bit types. *)
From V Require Import Model.TimeTypes.
From Coq Require Import ZifyBool.

Local Open Scope Z_scope.

(* ------------------------------------------------------------------ *)
(* wrap / to_signed at a fixed width: the k-form that lia can use      *)

Lemma wrap_spec : forall bits z, 0 < bits ->
  exists k, wrap bits z = z + k * 2 ^ bits /\ 0 <= wrap bits z < 2 ^ bits.
Proof.
  intros bits z Hb. unfold wrap.
  assert (Hp : 0 < 2 ^ bits) by (apply Z.pow_pos_nonneg; lia).
  exists (- (z / 2 ^ bits)). split.
  - pose proof (Z.div_mod z (2 ^ bits)). lia.
  - apply Z.mod_pos_bound; lia.
Qed.

Lemma to_signed_spec : forall bits z, 0 < bits ->
  exists k, to_signed bits z = z + k * 2 ^ bits /\
            - 2 ^ (bits - 1) <= to_signed bits z < 2 ^ (bits - 1).
Proof.
  intros bits z Hb. unfold to_signed.
  destruct (wrap_spec bits z Hb) as [k [Hk Hr]]. unfold wrap in *.
  assert (H2 : 2 ^ bits = 2 * 2 ^ (bits - 1)).
  { replace bits with (Z.succ (bits - 1)) at 1 by lia. rewrite Z.pow_succ_r; lia. }
  cbv zeta. destruct (z mod 2 ^ bits <? 2 ^ (bits - 1)) eqn:E.
  - exists k. split; [exact Hk|]. apply Z.ltb_lt in E. lia.
  - exists (k - 1). apply Z.ltb_ge in E. split; lia.
Qed.

Definition M64 : Z := 18446744073709551616.
Definition H64 : Z := 9223372036854775808.
Definition M128 : Z := 340282366920938463463374607431768211456.
Definition H128 : Z := 170141183460469231731687303715884105728.

Lemma wrap64_spec : forall z,
  exists k, wrap 64 z = z + k * 18446744073709551616 /\ 0 <= wrap 64 z < 18446744073709551616.
Proof. intro z. destruct (wrap_spec 64 z) as [k H]; [lia|]. exists k. exact H. Qed.

Lemma to_signed64_spec : forall z,
  exists k, to_signed 64 z = z + k * 18446744073709551616 /\
            - 9223372036854775808 <= to_signed 64 z < 9223372036854775808.
Proof. intro z. destruct (to_signed_spec 64 z) as [k H]; [lia|]. exists k. exact H. Qed.

Lemma wrap128_spec : forall z,
  exists k, wrap 128 z = z + k * 340282366920938463463374607431768211456 /\
            0 <= wrap 128 z < 340282366920938463463374607431768211456.
Proof. intro z. destruct (wrap_spec 128 z) as [k H]; [lia|]. exists k. exact H. Qed.

Lemma to_signed128_spec : forall z,
  exists k, to_signed 128 z = z + k * 340282366920938463463374607431768211456 /\
            - 170141183460469231731687303715884105728 <= to_signed 128 z
              < 170141183460469231731687303715884105728.
Proof. intro z. destruct (to_signed_spec 128 z) as [k H]; [lia|]. exists k. exact H. Qed.

Lemma wrap8_spec : forall z, exists k, wrap 8 z = z + k * 256 /\ 0 <= wrap 8 z < 256.
Proof. intro z. destruct (wrap_spec 8 z) as [k H]; [lia|]. exists k. exact H. Qed.

Lemma to_signed8_spec : forall z,
  exists k, to_signed 8 z = z + k * 256 /\ - 128 <= to_signed 8 z < 128.
Proof. intro z. destruct (to_signed_spec 8 z) as [k H]; [lia|]. exists k. exact H. Qed.

(* introduce the k-form of every wrap/to_signed occurrence in the goal,
   innermost occurrences first *)
Ltac inner_free z :=
  lazymatch z with
  | context [wrap _ _] => fail
  | context [to_signed _ _] => fail
  | _ => idtac
  end.

Ltac spec_with lem t :=
  let k := fresh "k" in let E := fresh "E" in let R := fresh "R" in
  destruct lem as [k [E R]]; generalize dependent t; intros.

Ltac spec_one :=
  match goal with
  | |- context [to_signed 64 ?z] => inner_free z; spec_with (to_signed64_spec z) (to_signed 64 z)
  | |- context [wrap 64 ?z] => inner_free z; spec_with (wrap64_spec z) (wrap 64 z)
  | |- context [to_signed 128 ?z] => inner_free z; spec_with (to_signed128_spec z) (to_signed 128 z)
  | |- context [wrap 128 ?z] => inner_free z; spec_with (wrap128_spec z) (wrap 128 z)
  | |- context [to_signed 8 ?z] => inner_free z; spec_with (to_signed8_spec z) (to_signed 8 z)
  | |- context [wrap 8 ?z] => inner_free z; spec_with (wrap8_spec z) (wrap 8 z)
  end.

Ltac pows :=
  change (2 ^ 64) with 18446744073709551616 in *;
  change (2 ^ 63) with 9223372036854775808 in *;
  change (2 ^ 128) with 340282366920938463463374607431768211456 in *;
  change (2 ^ 127) with 170141183460469231731687303715884105728 in *;
  change (2 ^ 32) with 4294967296 in *;
  change (2 ^ 48) with 281474976710656 in *;
  change (2 ^ 16) with 65536 in *;
  change (2 ^ 4) with 16 in *.

Ltac unfold_ranges :=
  unfold in_u64, in_i64, in_u32, in_i8, in_u128, in_i128, sat_i64, sat_i8, sat_i128,
         clampZ, i64_min, i64_max, i8_min, i8_max, i128_min, i128_max, u64_max in *.

Ltac wsolve := unfold_ranges; pows; repeat spec_one; intros; lia.

(* ------------------------------------------------------------------ *)
(* NtpTimestamp                                                        *)

Lemma tsub_range : forall a b, in_i64 (tsub a b).
Proof. intros. unfold tsub. wsolve. Qed.

Lemma tsub_congruent : forall a b, exists k, tsub a b = (a - b) + k * 2 ^ 64.
Proof.
  intros. unfold tsub. pows.
  destruct (to_signed64_spec (wrap 64 (a - b))) as [k1 [E1 _]].
  destruct (wrap64_spec (a - b)) as [k2 [E2 _]].
  exists (k1 + k2). lia.
Qed.

(* the unique representative of a - b modulo 2^64 in the signed range *)
Lemma tsub_unique : forall a b d,
  in_i64 d -> (exists k, d = (a - b) + k * 2 ^ 64) -> d = tsub a b.
Proof.
  intros a b d Hd [k Hk]. destruct (tsub_congruent a b) as [k' Hk'].
  pose proof (tsub_range a b). unfold_ranges. pows. lia.
Qed.

(* shortest: no other representative of the difference has smaller magnitude *)
Lemma tsub_shortest : forall a b k,
  Z.abs (tsub a b) <= Z.abs ((a - b) + k * 2 ^ 64).
Proof.
  intros. destruct (tsub_congruent a b) as [k' Hk'].
  pose proof (tsub_range a b). unfold_ranges. pows. lia.
Qed.

(* era safety: true instants ta tb (unbounded), observed modulo 2^64 *)
Lemma tsub_era : forall ta tb,
  in_i64 (ta - tb) -> tsub (ta mod 2 ^ 64) (tb mod 2 ^ 64) = ta - tb.
Proof.
  intros ta tb H. symmetry. apply tsub_unique; [exact H|].
  fold (wrap 64 ta). fold (wrap 64 tb).
  destruct (wrap64_spec ta) as [k1 [E1 _]]. destruct (wrap64_spec tb) as [k2 [E2 _]].
  exists (k2 - k1). pows. lia.
Qed.

Lemma tadd_range : forall t d, in_u64 (tadd t d).
Proof. intros. unfold tadd. wsolve. Qed.

Lemma tsubd_range : forall t d, in_u64 (tsubd t d).
Proof. intros. unfold tsubd. wsolve. Qed.

Lemma tadd_tsub : forall a b, in_u64 a -> tadd b (tsub a b) = a.
Proof. intros a b Ha. unfold tadd, tsub. wsolve. Qed.

Lemma tsubd_tsub : forall a b, in_u64 b -> tsubd a (tsub a b) = b.
Proof. intros a b Hb. unfold tsubd, tsub. wsolve. Qed.

Lemma tsub_tadd : forall t d, in_i64 d -> tsub (tadd t d) t = d.
Proof. intros t d Hd. unfold tadd, tsub. wsolve. Qed.

Lemma tsubd_tadd : forall t d, in_u64 t -> tsubd (tadd t d) d = t.
Proof. intros t d Ht. unfold tadd, tsubd. wsolve. Qed.

Lemma tadd_era : forall t d, tadd (t mod 2 ^ 64) d = (t + d) mod 2 ^ 64.
Proof.
  intros. unfold tadd. fold (wrap 64 t). fold (wrap 64 (t + d)). wsolve.
Qed.

Lemma tsub_antisym : forall a b, tsub a b <> - 2 ^ 63 -> tsub b a = - tsub a b.
Proof. intros a b. unfold tsub. wsolve. Qed.

Lemma tbefore_spec : forall ta tb,
  in_i64 (ta - tb) -> tbefore (ta mod 2 ^ 64) (tb mod 2 ^ 64) = (ta <? tb).
Proof. intros. unfold tbefore. rewrite tsub_era by assumption. lia. Qed.

(* ------------------------------------------------------------------ *)
(* NtpDuration: saturating operations                                  *)

(* the three-way description of a saturating result; [exact] is the
   mathematical result of the operation *)
Definition saturates_i64 (exact result : Z) : Prop :=
  (in_i64 exact -> result = exact) /\
  (exact >= 2 ^ 63 -> result = 2 ^ 63 - 1) /\
  (exact < - 2 ^ 63 -> result = - 2 ^ 63).

Lemma sat_i64_saturates : forall z, saturates_i64 z (sat_i64 z).
Proof. intro z. unfold saturates_i64. unfold_ranges. pows. lia. Qed.

Lemma sat_i64_range : forall z, in_i64 (sat_i64 z).
Proof. intro. unfold_ranges. pows. lia. Qed.

Lemma dadd_saturates : forall a b, saturates_i64 (a + b) (dadd a b).
Proof. intros. apply sat_i64_saturates. Qed.
Lemma dsub_saturates : forall a b, saturates_i64 (a - b) (dsub a b).
Proof. intros. apply sat_i64_saturates. Qed.
Lemma dmul_saturates : forall a k, saturates_i64 (a * k) (dmul a k).
Proof. intros. apply sat_i64_saturates. Qed.
Lemma dneg_saturates : forall a, saturates_i64 (- a) (dneg a).
Proof. intros. apply sat_i64_saturates. Qed.
Lemma dabs_saturates : forall a, saturates_i64 (Z.abs a) (dabs a).
Proof. intros. apply sat_i64_saturates. Qed.

Lemma dadd_range : forall a b, in_i64 (dadd a b).
Proof. intros. apply sat_i64_range. Qed.
Lemma dsub_range : forall a b, in_i64 (dsub a b).
Proof. intros. apply sat_i64_range. Qed.
Lemma dmul_range : forall a k, in_i64 (dmul a k).
Proof. intros. apply sat_i64_range. Qed.
Lemma dneg_range : forall a, in_i64 (dneg a).
Proof. intros. apply sat_i64_range. Qed.
Lemma dabs_range : forall a, in_i64 (dabs a).
Proof. intros. apply sat_i64_range. Qed.

(* never wrapping: the sign of the result is never opposite to the sign of the
   exact value, and the result never moves away from zero *)
Definition no_wrap (exact result : Z) : Prop :=
  (0 <= exact -> 0 <= result <= exact) /\ (exact <= 0 -> exact <= result <= 0).

Lemma sat_i64_no_wrap : forall z, no_wrap z (sat_i64 z).
Proof. intro. unfold no_wrap. unfold_ranges. pows. lia. Qed.

Lemma sat_i64_monotone : forall x y, x <= y -> sat_i64 x <= sat_i64 y.
Proof. intros. unfold_ranges. lia. Qed.

Lemma dneg_involutive_but_min : forall a, in_i64 a -> a <> - 2 ^ 63 -> dneg (dneg a) = a.
Proof. intros a Ha Hn. unfold dneg. unfold_ranges. pows. lia. Qed.

Lemma dneg_min : dneg (- 2 ^ 63) = 2 ^ 63 - 1.
Proof. reflexivity. Qed.

Lemma dabs_nonneg : forall a, 0 <= dabs a.
Proof. intros. unfold dabs. unfold_ranges. pows. lia. Qed.

Lemma dabs_exact : forall a, in_i64 a -> a <> - 2 ^ 63 -> dabs a = Z.abs a.
Proof. intros a Ha Hn. unfold dabs. unfold_ranges. pows. lia. Qed.

Lemma dabs_min : dabs (- 2 ^ 63) = 2 ^ 63 - 1.
Proof. reflexivity. Qed.

Lemma dabs_ge : forall a, in_i64 a -> a <= dabs a /\ - a - 1 <= dabs a.
Proof. intros a Ha. unfold dabs. unfold_ranges. pows. lia. Qed.

(* the unrepaired operations wrap exactly at MIN *)
Lemma dneg_wrap_min : dneg_wrap (- 2 ^ 63) = - 2 ^ 63.
Proof. reflexivity. Qed.
Lemma dabs_wrap_min : dabs_wrap (- 2 ^ 63) = - 2 ^ 63.
Proof. reflexivity. Qed.
Lemma dneg_wrap_agrees : forall a, in_i64 a -> a <> - 2 ^ 63 -> dneg_wrap a = dneg a.
Proof. intros a Ha Hn. unfold dneg_wrap, dneg. wsolve. Qed.
Lemma dabs_wrap_agrees : forall a, in_i64 a -> a <> - 2 ^ 63 -> dabs_wrap a = dabs a.
Proof. intros a Ha Hn. unfold dabs_wrap, dabs. wsolve. Qed.

(* division *)
Lemma quot_in_i64 : forall a k, in_i64 a -> k <> 0 -> ~ (a = - 2 ^ 63 /\ k = -1) ->
  in_i64 (Z.quot a k).
Proof.
  intros a k Ha Hk Hn. unfold_ranges. pows.
  assert (Habs : Z.abs (Z.quot a k) <= Z.abs a).
  { rewrite <- (Z.quot_abs a k) by lia.
    destruct (Z.eq_dec (Z.abs k) 1) as [E|E].
    - rewrite E, Z.quot_1_r. lia.
    - assert (Z.abs a ÷ Z.abs k <= Z.abs a).
      { destruct (Z.eq_dec (Z.abs a) 0) as [E0|E0].
        - rewrite E0. rewrite Z.quot_0_l by lia. lia.
        - apply Z.lt_le_incl. apply Z.quot_lt; lia. }
      lia. }
  destruct (Z.eq_dec a (-9223372036854775808)) as [Ea|Ea].
  - subst a. assert (k <> -1) by lia.
    destruct (Z.eq_dec k 1) as [->|K1]. { rewrite Z.quot_1_r. lia. }
    assert (Z.abs ((-9223372036854775808) ÷ k) < 9223372036854775808).
    { rewrite <- Z.quot_abs by lia.
      change (Z.abs (-9223372036854775808)) with 9223372036854775808.
      apply Z.quot_lt; lia. }
    lia.
  - lia.
Qed.

Lemma ddiv_no_panic : forall a k, k <> 0 -> exists r, ddiv a k = Ok r.
Proof. intros a k Hk. unfold ddiv. destruct (Z.eqb_spec k 0); [lia|]. eauto. Qed.

Lemma ddiv_saturates : forall a k, k <> 0 ->
  exists r, ddiv a k = Ok r /\ saturates_i64 (Z.quot a k) r.
Proof.
  intros a k Hk. unfold ddiv. destruct (Z.eqb_spec k 0); [lia|].
  eexists; split; [reflexivity|]. apply sat_i64_saturates.
Qed.

Lemma ddiv_exact : forall a k, in_i64 a -> k <> 0 -> ~ (a = - 2 ^ 63 /\ k = -1) ->
  ddiv a k = Ok (Z.quot a k).
Proof.
  intros a k Ha Hk Hn. unfold ddiv. destruct (Z.eqb_spec k 0); [lia|].
  f_equal. pose proof (quot_in_i64 a k Ha Hk Hn). unfold_ranges. pows. lia.
Qed.

Lemma ddiv_min_neg1 : ddiv (- 2 ^ 63) (-1) = Ok (2 ^ 63 - 1).
Proof. reflexivity. Qed.

Lemma ddiv_panic_iff : forall a k, (exists s, ddiv a k = Panic s) <-> k = 0.
Proof.
  intros. unfold ddiv. destruct (Z.eqb_spec k 0); split; intros; eauto; try lia.
  destruct H as [s H]. discriminate.
Qed.

Lemma ddiv_2 : forall a, in_i64 a -> ddiv a 2 = Ok (ddiv2 a).
Proof. intros a Ha. unfold ddiv2. apply ddiv_exact; [exact Ha|lia|lia]. Qed.

Lemma ddiv_unrepaired_agrees : forall a k, in_i64 a -> k <> 0 ->
  ~ (a = - 2 ^ 63 /\ k = -1) -> ddiv_unrepaired a k = ddiv a k.
Proof.
  intros a k Ha Hk Hn. rewrite ddiv_exact by assumption. unfold ddiv_unrepaired.
  destruct (Z.eqb_spec k 0); [lia|].
  destruct (Z.eqb_spec a i64_min); destruct (Z.eqb_spec k (-1)); cbn [andb]; try reflexivity.
  exfalso. apply Hn. split; [|assumption]. subst a. reflexivity.
Qed.

(* ------------------------------------------------------------------ *)
(* wire formats                                                        *)

Lemma short_roundtrip : forall d, 0 <= d < 2 ^ 48 ->
  exists w, d_to_short d = Ok w /\ in_u32 w /\
            d_from_short w <= d < d_from_short w + 2 ^ 16.
Proof.
  intros d Hd. unfold d_to_short, d_from_short. pows.
  destruct (Z.ltb_spec d 0); [lia|].
  destruct (d >? 281474976710656 - 1) eqn:E; [lia|].
  eexists; split; [reflexivity|]. unfold in_u32. pows.
  rewrite Z.mod_small by lia.
  pose proof (Z.div_mod d 65536). pose proof (Z.mod_pos_bound d 65536).
  assert (d / 65536 < 4294967296) by (apply Z.div_lt_upper_bound; lia).
  assert (0 <= d / 65536) by (apply Z.div_pos; lia).
  lia.
Qed.

Lemma short_saturates : forall d, 2 ^ 48 <= d -> d_to_short d = Ok (2 ^ 32 - 1).
Proof.
  intros d Hd. unfold d_to_short. pows.
  destruct (Z.ltb_spec d 0); [lia|].
  destruct (d >? 281474976710656 - 1) eqn:E; [reflexivity|lia].
Qed.

Lemma short_decode_encode : forall w, in_u32 w -> d_to_short (d_from_short w) = Ok w.
Proof.
  intros w Hw. unfold d_to_short, d_from_short, in_u32 in *. pows.
  destruct (Z.ltb_spec (w * 65536) 0); [lia|].
  destruct (w * 65536 >? 281474976710656 - 1) eqn:E; [lia|].
  rewrite Z.mod_small by lia. rewrite Z.div_mul by lia. reflexivity.
Qed.

Lemma short_panic_iff : forall d, (exists s, d_to_short d = Panic s) <-> d < 0.
Proof.
  intros. unfold d_to_short. destruct (Z.ltb_spec d 0).
  - split; eauto.
  - split; [|lia]. intros [s H']. destruct (d >? 2 ^ 48 - 1); discriminate.
Qed.

Lemma time32_roundtrip : forall d, 0 <= d < 2 ^ 36 ->
  exists w, d_to_time32 d = Ok w /\ in_u32 w /\
            d_from_time32 w <= d < d_from_time32 w + 2 ^ 4.
Proof.
  intros d Hd. unfold d_to_time32, d_from_time32.
  change (2 ^ 36) with 68719476736 in *. pows.
  destruct (Z.ltb_spec d 0); [lia|]. cbv zeta.
  assert (d / 16 < 4294967296) by (apply Z.div_lt_upper_bound; lia).
  assert (0 <= d / 16) by (apply Z.div_pos; lia).
  destruct (Z.ltb_spec (d / 16) 4294967296); [|lia].
  eexists; split; [reflexivity|]. unfold in_u32. pows.
  pose proof (Z.div_mod d 16). pose proof (Z.mod_pos_bound d 16). lia.
Qed.

Lemma time32_saturates : forall d, 2 ^ 36 <= d -> d_to_time32 d = Ok (2 ^ 32 - 1).
Proof.
  intros d Hd. unfold d_to_time32. change (2 ^ 36) with 68719476736 in *. pows.
  destruct (Z.ltb_spec d 0); [lia|]. cbv zeta.
  assert (4294967296 <= d / 16) by (apply Z.div_le_lower_bound; lia).
  destruct (Z.ltb_spec (d / 16) 4294967296); [lia|reflexivity].
Qed.

Lemma time32_decode_encode : forall w, in_u32 w -> d_to_time32 (d_from_time32 w) = Ok w.
Proof.
  intros w Hw. unfold d_to_time32, d_from_time32, in_u32 in *. pows.
  destruct (Z.ltb_spec (w * 16) 0); [lia|]. cbv zeta.
  rewrite Z.div_mul by lia.
  destruct (Z.ltb_spec w 4294967296); [reflexivity|lia].
Qed.

Lemma time32_panic_iff : forall d, (exists s, d_to_time32 d = Panic s) <-> d < 0.
Proof.
  intros. unfold d_to_time32. destruct (Z.ltb_spec d 0).
  - split; eauto.
  - split; [|lia]. intros [s H']. cbv zeta in H'.
    destruct (d / 2 ^ 4 <? 2 ^ 32); discriminate.
Qed.

(* ------------------------------------------------------------------ *)
(* PollInterval                                                        *)

Lemma poll_inc_spec : forall p lmax, in_i8 p -> in_i8 lmax ->
  in_i8 (poll_inc p lmax) /\ poll_inc p lmax <= lmax /\
  (p < lmax -> poll_inc p lmax = p + 1) /\ (lmax <= p -> poll_inc p lmax = lmax).
Proof. intros. unfold poll_inc. unfold_ranges. lia. Qed.

Lemma poll_dec_spec : forall p lmin, in_i8 p -> in_i8 lmin ->
  in_i8 (poll_dec p lmin) /\ lmin <= poll_dec p lmin /\
  (lmin < p -> poll_dec p lmin = p - 1) /\ (p <= lmin -> poll_dec p lmin = lmin).
Proof. intros. unfold poll_dec. unfold_ranges. lia. Qed.

Lemma poll_force_inc_spec : forall p, in_i8 p ->
  in_i8 (poll_force_inc p) /\ p <= poll_force_inc p /\
  (p < 127 -> poll_force_inc p = p + 1) /\ (p = 127 -> poll_force_inc p = 127).
Proof. intros. unfold poll_force_inc. unfold_ranges. lia. Qed.

Lemma poll_inc_wrap_never : forall lmax, in_i8 lmax -> poll_inc_wrap 127 lmax = -128.
Proof. intros. unfold poll_inc_wrap. change (to_signed 8 (127 + 1)) with (-128). unfold in_i8 in *. lia. Qed.

Lemma poll_dec_wrap_min : forall lmin, in_i8 lmin -> poll_dec_wrap (-128) lmin = 127.
Proof. intros. unfold poll_dec_wrap. change (to_signed 8 (-128 - 1)) with 127. unfold in_i8 in *. lia. Qed.

Lemma poll_as_duration_range : forall p, in_i8 p ->
  1 <= poll_as_duration p <= 2 ^ 62 /\
  (-32 <= p <= 30 -> poll_as_duration p = 2 ^ (p + 32)).
Proof.
  intros p Hp. unfold poll_as_duration. cbv zeta.
  set (b := sat_i8 (p + 32)).
  assert (Hb : b = Z.min 127 (p + 32)) by (unfold b; unfold_ranges; lia).
  split.
  - destruct (Z.ltb_spec b 0). { change (2 ^ 0) with 1. change (2^62) with 4611686018427387904. lia. }
    destruct (b >? 62) eqn:E. { lia. }
    split.
    + assert (0 < 2 ^ b) by (apply Z.pow_pos_nonneg; lia). lia.
    + apply Z.pow_le_mono_r; lia.
  - intros Hr. destruct (Z.ltb_spec b 0); [lia|].
    destruct (b >? 62) eqn:E; [lia|]. f_equal. unfold in_i8 in Hp. lia.
Qed.

(* ------------------------------------------------------------------ *)
(* PTP 128-bit                                                         *)

Definition saturates_i128 (exact result : Z) : Prop :=
  (in_i128 exact -> result = exact) /\
  (exact >= 2 ^ 127 -> result = 2 ^ 127 - 1) /\
  (exact < - 2 ^ 127 -> result = - 2 ^ 127).

Lemma sat_i128_saturates : forall z, saturates_i128 z (sat_i128 z).
Proof. intro z. unfold saturates_i128. unfold_ranges. pows. lia. Qed.
Lemma sat_i128_range : forall z, in_i128 (sat_i128 z).
Proof. intro. unfold_ranges. pows. lia. Qed.
Lemma sat_i128_no_wrap : forall z, no_wrap z (sat_i128 z).
Proof. intro. unfold no_wrap. unfold_ranges. pows. lia. Qed.

Lemma ptsub_range : forall a b, in_i128 (ptsub a b).
Proof. intros. unfold ptsub. wsolve. Qed.

Lemma ptsub_congruent : forall a b, exists k, ptsub a b = (a - b) + k * 2 ^ 128.
Proof.
  intros. unfold ptsub. pows.
  destruct (to_signed128_spec (wrap 128 (a - b))) as [k1 [E1 _]].
  destruct (wrap128_spec (a - b)) as [k2 [E2 _]].
  exists (k1 + k2). lia.
Qed.

Lemma ptsub_unique : forall a b d,
  in_i128 d -> (exists k, d = (a - b) + k * 2 ^ 128) -> d = ptsub a b.
Proof.
  intros a b d Hd [k Hk]. destruct (ptsub_congruent a b) as [k' Hk'].
  pose proof (ptsub_range a b). unfold_ranges. pows. lia.
Qed.

Lemma ptsub_shortest : forall a b k,
  Z.abs (ptsub a b) <= Z.abs ((a - b) + k * 2 ^ 128).
Proof.
  intros. destruct (ptsub_congruent a b) as [k' Hk'].
  pose proof (ptsub_range a b). unfold_ranges. pows. lia.
Qed.

Lemma ptadd_ptsub : forall a b, in_u128 a -> ptadd b (ptsub a b) = a.
Proof. intros a b Ha. unfold ptadd, ptsub. wsolve. Qed.
Lemma ptsubd_ptsub : forall a b, in_u128 b -> ptsubd a (ptsub a b) = b.
Proof. intros a b Hb. unfold ptsubd, ptsub. wsolve. Qed.
Lemma ptsub_ptadd : forall t d, in_i128 d -> ptsub (ptadd t d) t = d.
Proof. intros t d Hd. unfold ptadd, ptsub. wsolve. Qed.
Lemma ptadd_range : forall t d, in_u128 (ptadd t d).
Proof. intros. unfold ptadd. wsolve. Qed.
Lemma ptsubd_range : forall t d, in_u128 (ptsubd t d).
Proof. intros. unfold ptsubd. wsolve. Qed.

Lemma pdadd_saturates : forall a b, saturates_i128 (a + b) (pdadd a b).
Proof. intros. apply sat_i128_saturates. Qed.
Lemma pdsub_saturates : forall a b, saturates_i128 (a - b) (pdsub a b).
Proof. intros. apply sat_i128_saturates. Qed.
Lemma pdmul_saturates : forall a k, saturates_i128 (a * k) (pdmul a k).
Proof. intros. apply sat_i128_saturates. Qed.
Lemma pddiv_saturates : forall a k, k <> 0 ->
  exists r, pddiv a k = Ok r /\ saturates_i128 (Z.quot a k) r.
Proof.
  intros a k Hk. unfold pddiv. destruct (Z.eqb_spec k 0); [lia|].
  eexists; split; [reflexivity|]. apply sat_i128_saturates.
Qed.
Lemma pddiv_panic_iff : forall a k, (exists s, pddiv a k = Panic s) <-> k = 0.
Proof.
  intros. unfold pddiv. destruct (Z.eqb_spec k 0); split; intros; eauto; try lia.
  destruct H as [s H]. discriminate.
Qed.
Lemma pddiv_min_neg1 : pddiv (- 2 ^ 127) (-1) = Ok (2 ^ 127 - 1).
Proof. reflexivity. Qed.

(* ------------------------------------------------------------------ *)
(* combined statements used by Props/C32.v                             *)

Lemma tsub_shortest_difference : forall a b,
  in_i64 (tsub a b) /\
  (exists k, tsub a b = (a - b) + k * 2 ^ 64) /\
  (forall k, Z.abs (tsub a b) <= Z.abs ((a - b) + k * 2 ^ 64)) /\
  (forall d, in_i64 d -> (exists k, d = (a - b) + k * 2 ^ 64) -> d = tsub a b).
Proof.
  intros a b. split; [apply tsub_range|]. split; [apply tsub_congruent|].
  split; [intro k; apply tsub_shortest|]. intros d Hd Hk. apply tsub_unique; assumption.
Qed.

Lemma tsub_add_back : forall a b, in_u64 a -> in_u64 b ->
  tadd b (tsub a b) = a /\ tsubd a (tsub a b) = b.
Proof. intros a b Ha Hb. split; [apply tadd_tsub|apply tsubd_tsub]; assumption. Qed.

Lemma tadd_then_tsub : forall t d, in_u64 t -> in_i64 d ->
  in_u64 (tadd t d) /\ in_u64 (tsubd t d) /\
  tsub (tadd t d) t = d /\ tsubd (tadd t d) d = t.
Proof.
  intros t d Ht Hd. split; [apply tadd_range|]. split; [apply tsubd_range|].
  split; [apply tsub_tadd; assumption|apply tsubd_tadd; assumption].
Qed.

Lemma duration_ops_saturate : forall a b k,
  saturates_i64 (a + b) (dadd a b) /\ saturates_i64 (a - b) (dsub a b) /\
  saturates_i64 (a * k) (dmul a k) /\
  no_wrap (a + b) (dadd a b) /\ no_wrap (a - b) (dsub a b) /\ no_wrap (a * k) (dmul a k).
Proof.
  intros. split; [apply sat_i64_saturates|]. split; [apply sat_i64_saturates|].
  split; [apply sat_i64_saturates|]. split; [apply sat_i64_no_wrap|].
  split; apply sat_i64_no_wrap.
Qed.

Lemma neg_abs_saturate : forall a,
  saturates_i64 (- a) (dneg a) /\ saturates_i64 (Z.abs a) (dabs a) /\
  0 <= dabs a /\ no_wrap (- a) (dneg a).
Proof.
  intros. split; [apply sat_i64_saturates|]. split; [apply sat_i64_saturates|].
  split; [apply dabs_nonneg|apply sat_i64_no_wrap].
Qed.

Lemma abs_diff_saturates : forall a b, in_i64 a -> in_i64 b ->
  saturates_i64 (Z.abs (a - b)) (dabs_diff a b) /\ 0 <= dabs_diff a b.
Proof.
  intros a b Ha Hb. unfold dabs_diff, dabs, dsub, saturates_i64. unfold_ranges. pows. lia.
Qed.

Lemma div_saturates_and_panics_only_on_zero : forall a k,
  (k <> 0 -> exists r, ddiv a k = Ok r /\ saturates_i64 (Z.quot a k) r) /\
  ((exists s, ddiv a k = Panic s) <-> k = 0) /\
  (in_i64 a -> k <> 0 -> ~ (a = - 2 ^ 63 /\ k = -1) -> ddiv a k = Ok (Z.quot a k)).
Proof.
  intros a k. split; [apply ddiv_saturates|]. split; [apply ddiv_panic_iff|apply ddiv_exact].
Qed.

(* the operations of the unrepaired code do not saturate: the witness is i64::MIN *)
Lemma unrepaired_neg_abs_div_refuted :
  (exists a, in_i64 a /\ ~ saturates_i64 (- a) (dneg_wrap a)) /\
  (exists a, in_i64 a /\ ~ saturates_i64 (Z.abs a) (dabs_wrap a) /\ dabs_wrap a < 0) /\
  (exists a k, in_i64 a /\ k <> 0 /\ exists s, ddiv_unrepaired a k = Panic s).
Proof.
  split; [|split].
  - exists (- 2 ^ 63). split; [unfold in_i64; pows; lia|].
    intros [_ [H _]]. specialize (H ltac:(pows; lia)). vm_compute in H. discriminate.
  - exists (- 2 ^ 63). split; [unfold in_i64; pows; lia|]. split.
    + intros [_ [H _]]. specialize (H ltac:(pows; lia)). vm_compute in H. discriminate.
    + vm_compute. reflexivity.
  - exists (- 2 ^ 63), (-1). split; [unfold in_i64; pows; lia|]. split; [lia|].
    exists 2. reflexivity.
Qed.

Lemma wire_formats_roundtrip :
  (forall d, 0 <= d < 2 ^ 48 ->
     exists w, d_to_short d = Ok w /\ in_u32 w /\ d_from_short w <= d < d_from_short w + 2 ^ 16) /\
  (forall d, 0 <= d < 2 ^ 36 ->
     exists w, d_to_time32 d = Ok w /\ in_u32 w /\ d_from_time32 w <= d < d_from_time32 w + 2 ^ 4) /\
  (forall w, in_u32 w -> d_to_short (d_from_short w) = Ok w /\ d_to_time32 (d_from_time32 w) = Ok w) /\
  (forall d, 2 ^ 48 <= d -> d_to_short d = Ok (2 ^ 32 - 1)) /\
  (forall d, 2 ^ 36 <= d -> d_to_time32 d = Ok (2 ^ 32 - 1)) /\
  (forall d, ((exists s, d_to_short d = Panic s) <-> d < 0) /\
             ((exists s, d_to_time32 d = Panic s) <-> d < 0)).
Proof.
  split; [exact short_roundtrip|]. split; [exact time32_roundtrip|].
  split; [intros w Hw; split; [apply short_decode_encode|apply time32_decode_encode]; assumption|].
  split; [exact short_saturates|]. split; [exact time32_saturates|].
  intro d. split; [apply short_panic_iff|apply time32_panic_iff].
Qed.

Lemma poll_ops_saturate : forall p lmin lmax, in_i8 p -> in_i8 lmin -> in_i8 lmax ->
  (in_i8 (poll_inc p lmax) /\ poll_inc p lmax <= lmax /\
   (p < lmax -> poll_inc p lmax = p + 1) /\ (lmax <= p -> poll_inc p lmax = lmax)) /\
  (in_i8 (poll_dec p lmin) /\ lmin <= poll_dec p lmin /\
   (lmin < p -> poll_dec p lmin = p - 1) /\ (p <= lmin -> poll_dec p lmin = lmin)) /\
  (in_i8 (poll_force_inc p) /\ p <= poll_force_inc p /\
   (p < 127 -> poll_force_inc p = p + 1) /\ (p = 127 -> poll_force_inc p = 127)) /\
  (1 <= poll_as_duration p <= 2 ^ 62 /\ (-32 <= p <= 30 -> poll_as_duration p = 2 ^ (p + 32))).
Proof.
  intros p lmin lmax Hp Hmin Hmax.
  split; [apply poll_inc_spec; assumption|]. split; [apply poll_dec_spec; assumption|].
  split; [apply poll_force_inc_spec; assumption|apply poll_as_duration_range; assumption].
Qed.

Lemma ptp_laws : forall a b k,
  (* wrapping timestamps *)
  (in_i128 (ptsub a b) /\ (exists j, ptsub a b = (a - b) + j * 2 ^ 128) /\
   (forall j, Z.abs (ptsub a b) <= Z.abs ((a - b) + j * 2 ^ 128))) /\
  (in_u128 a -> in_u128 b -> ptadd b (ptsub a b) = a /\ ptsubd a (ptsub a b) = b) /\
  (in_i128 b -> ptsub (ptadd a b) a = b) /\
  (* saturating durations *)
  saturates_i128 (a + b) (pdadd a b) /\ saturates_i128 (a - b) (pdsub a b) /\
  saturates_i128 (a * k) (pdmul a k) /\
  (k <> 0 -> exists r, pddiv a k = Ok r /\ saturates_i128 (Z.quot a k) r) /\
  ((exists s, pddiv a k = Panic s) <-> k = 0).
Proof.
  intros a b k.
  split. { split; [apply ptsub_range|]. split; [apply ptsub_congruent|intro j; apply ptsub_shortest]. }
  split. { intros Ha Hb. split; [apply ptadd_ptsub|apply ptsubd_ptsub]; assumption. }
  split. { apply ptsub_ptadd. }
  split; [apply sat_i128_saturates|]. split; [apply sat_i128_saturates|].
  split; [apply sat_i128_saturates|]. split; [apply pddiv_saturates|apply pddiv_panic_iff].
Qed.
