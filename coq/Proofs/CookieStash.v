(* Refinement of the ring buffer (Model/CookieStash.v) to a list of cookies,
   oldest first. *)
From V Require Import Model.CookieStash.
From V Require Import Gen.ConstSource.
From Coq Require Import Arith PeanoNat.

Local Arguments Nat.modulo : simpl never.
Local Arguments Nat.div : simpl never.
Local Arguments Nat.sub : simpl nomatch.

Lemma NCOOK_8 : NCOOK = 8%nat.
Proof. reflexivity. Qed.

Section StashProofs.
Context {C : Type}.
Variable dflt : C.

Lemma length_upd : forall (l : list C) i x, length (upd i x l) = length l.
Proof. induction l; destruct i; simpl; auto. Qed.

Lemma nth_upd_eq : forall (l : list C) i x d, (i < length l)%nat -> nth i (upd i x l) d = x.
Proof. induction l; destruct i; simpl; intros; try lia; auto. apply IHl. lia. Qed.

Lemma nth_upd_neq : forall (l : list C) i j x d, i <> j -> nth j (upd i x l) d = nth j l d.
Proof.
  induction l; destruct i; destruct j; simpl; intros; try congruence; auto.
Qed.

Lemma length_abs : forall s : stash C, length (abs dflt s) = valid s.
Proof. intros. unfold abs. rewrite map_length, seq_length. reflexivity. Qed.

Lemma inv_default : stash_inv (stash_default dflt).
Proof. unfold stash_inv, stash_default; cbn [cookies rd valid]. rewrite repeat_length, NCOOK_8. lia. Qed.

Lemma abs_default : abs dflt (stash_default dflt) = [].
Proof. reflexivity. Qed.

Lemma inv_store : forall (s : stash C) c, stash_inv s -> stash_inv (store s c).
Proof.
  unfold stash_inv, store. intros s c (Hl & Hr & Hv). rewrite NCOOK_8 in *. rewrite Hl.
  destruct (Nat.ltb_spec (valid s) 8); simpl; rewrite length_upd, Hl; repeat split; try lia.
  apply Nat.mod_upper_bound. lia.
Qed.

Lemma inv_get : forall s : stash C, stash_inv s -> stash_inv (snd (get dflt s)).
Proof.
  unfold stash_inv, get. intros s (Hl & Hr & Hv). rewrite NCOOK_8 in *.
  destruct (valid s) eqn:E; simpl; [rewrite E; auto|].
  rewrite length_upd, Hl. repeat split; try lia. apply Nat.mod_upper_bound. lia.
Qed.

Lemma lastn_short : forall (l : list C) n, (length l <= n)%nat -> lastn n l = l.
Proof. intros. unfold lastn. replace (length l - n)%nat with 0%nat by lia. reflexivity. Qed.

Lemma lastn_length : forall (l : list C) n, length (lastn n l) = Nat.min n (length l).
Proof. intros. unfold lastn. rewrite skipn_length. lia. Qed.

Lemma lastn_suffix : forall (l : list C) n, exists p, l = p ++ lastn n l.
Proof. intros. exists (firstn (length l - n) l). unfold lastn. symmetry. apply firstn_skipn. Qed.

Lemma lastn_full_snoc : forall (l : list C) c n,
  length l = n -> (0 < n)%nat -> lastn n (l ++ [c]) = tl l ++ [c].
Proof.
  intros. unfold lastn. rewrite app_length. simpl.
  replace (length l + 1 - n)%nat with 1%nat by lia.
  destruct l; simpl in *; [lia|reflexivity].
Qed.

(* Under the invariant the buffer is one of 8 * 9 concrete shapes over eight
   abstract cells, so the two refinement facts are checked shape by shape. *)
(* store appends, and drops the oldest cookie when eight are already held *)
Lemma abs_store : forall (s : stash C) c, stash_inv s ->
  abs dflt (store s c) = lastn NCOOK (abs dflt s ++ [c]).
Proof.
  intros s c H. destruct s as [cs r v]; destruct H as (Hl & Hr & Hv);
  cbn [cookies rd valid] in *; rewrite NCOOK_8 in *;
  do 9 (destruct cs as [|? cs]; [simpl in Hl; try lia|]); simpl in Hl; try lia;
  clear Hl;
  assert (r = 0 \/ r = 1 \/ r = 2 \/ r = 3 \/ r = 4 \/ r = 5 \/ r = 6 \/ r = 7)%nat as Hr' by lia;
  assert (v = 0 \/ v = 1 \/ v = 2 \/ v = 3 \/ v = 4 \/ v = 5 \/ v = 6 \/ v = 7 \/ v = 8)%nat as Hv' by lia;
  clear Hr Hv;
  destruct Hr' as [-> | [-> | [-> | [-> | [-> | [-> | [-> | ->]]]]]]];
  destruct Hv' as [-> | [-> | [-> | [-> | [-> | [-> | [-> | [-> | ->]]]]]]]];
  reflexivity.
Qed.

(* get yields the oldest cookie and removes it *)
Lemma abs_get : forall s : stash C, stash_inv s ->
  fst (get dflt s) = hd_error (abs dflt s) /\ abs dflt (snd (get dflt s)) = tl (abs dflt s).
Proof.
  intros s H. destruct s as [cs r v]; destruct H as (Hl & Hr & Hv);
  cbn [cookies rd valid] in *; rewrite NCOOK_8 in *;
  do 9 (destruct cs as [|? cs]; [simpl in Hl; try lia|]); simpl in Hl; try lia;
  clear Hl;
  assert (r = 0 \/ r = 1 \/ r = 2 \/ r = 3 \/ r = 4 \/ r = 5 \/ r = 6 \/ r = 7)%nat as Hr' by lia;
  assert (v = 0 \/ v = 1 \/ v = 2 \/ v = 3 \/ v = 4 \/ v = 5 \/ v = 6 \/ v = 7 \/ v = 8)%nat as Hv' by lia;
  clear Hr Hv;
  destruct Hr' as [-> | [-> | [-> | [-> | [-> | [-> | [-> | ->]]]]]]];
  destruct Hv' as [-> | [-> | [-> | [-> | [-> | [-> | [-> | [-> | ->]]]]]]]];
  split; reflexivity.
Qed.

Lemma gap_abs : forall s : stash C, stash_inv s ->
  gap s = MAX_COOKIES - Z.of_nat (length (abs dflt s)).
Proof.
  unfold stash_inv, gap. intros s (Hl & Hr & Hv). rewrite length_abs, Hl.
  rewrite NCOOK_8 in *. unfold MAX_COOKIES. apply Z.mod_small. lia.
Qed.

Lemma len_abs : forall s : stash C, stash_len s = Z.of_nat (length (abs dflt s)).
Proof. intros. unfold stash_len. rewrite length_abs. reflexivity. Qed.

Lemma abs_bounded : forall s : stash C, stash_inv s -> (length (abs dflt s) <= NCOOK)%nat.
Proof. unfold stash_inv. intros s (_ & _ & Hv). rewrite length_abs. exact Hv. Qed.

(* several cookies stored in a row: the newest eight of everything survive *)
Lemma lastn_lastn_app : forall (l m : list C) n,
  lastn n (lastn n l ++ m) = lastn n (l ++ m).
Proof.
  intros. destruct (Nat.le_gt_cases (length l) n) as [H|H].
  - rewrite (lastn_short l) by lia. reflexivity.
  - unfold lastn at 1 3. rewrite !app_length, lastn_length.
    replace (Nat.min n (length l) + length m - n)%nat with (length m) by lia.
    unfold lastn. set (k := (length l - n)%nat).
    assert (length (firstn k l) = k) as Hk by (rewrite firstn_length; lia).
    assert (l ++ m = firstn k l ++ (skipn k l ++ m)) as E
      by (rewrite app_assoc, firstn_skipn; reflexivity).
    rewrite E.
    rewrite (skipn_app (length l + length m - n)).
    rewrite Hk.
    assert (skipn (length l + length m - n) (firstn k l) = []) as E2.
    { apply skipn_all2. rewrite Hk. subst k. lia. }
    rewrite E2. simpl. f_equal. subst k. lia.
Qed.

Lemma inv_store_many : forall cs (s : stash C), stash_inv s -> stash_inv (fold_left store cs s).
Proof. induction cs; simpl; intros; auto. apply IHcs. apply inv_store; auto. Qed.

Lemma abs_store_many : forall cs (s : stash C), stash_inv s ->
  abs dflt (fold_left store cs s) = lastn NCOOK (abs dflt s ++ cs).
Proof.
  induction cs; simpl; intros s Hs.
  - rewrite app_nil_r. symmetry. apply lastn_short. apply abs_bounded; auto.
  - rewrite IHcs by (apply inv_store; auto). rewrite abs_store by auto.
    rewrite lastn_lastn_app. rewrite <- app_assoc. reflexivity.
Qed.

End StashProofs.
