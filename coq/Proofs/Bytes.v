(* Lemmas about the byte-string kit of Model/Bytes.v. *)
From V Require Import Model.Bytes.
From Coq Require Import ZifyBool.
Ltac Zify.zify_post_hook ::= Z.div_mod_to_equations.

Lemma blen_nonneg : forall b, 0 <= blen b.
Proof. intros; unfold blen; lia. Qed.

Lemma blen_nil : blen [] = 0.
Proof. reflexivity. Qed.

Lemma blen_cons : forall x b, blen (x :: b) = 1 + blen b.
Proof. intros; unfold blen; cbn [length]; lia. Qed.

Lemma blen_app : forall a b, blen (a ++ b) = blen a + blen b.
Proof. intros; unfold blen; rewrite app_length; lia. Qed.

Lemma blen_zero_nil : forall b, blen b = 0 -> b = [].
Proof. intros [|x b] H; [reflexivity|]. rewrite blen_cons in H. pose proof (blen_nonneg b). lia. Qed.

Lemma blen_bdrop : forall n b, 0 <= n <= blen b -> blen (bdrop n b) = blen b - n.
Proof. intros; unfold blen, bdrop in *; rewrite skipn_length; lia. Qed.

Lemma blen_bdrop_le : forall n b, blen (bdrop n b) <= blen b.
Proof. intros; unfold blen, bdrop; rewrite skipn_length; lia. Qed.

Lemma blen_btake : forall n b, 0 <= n <= blen b -> blen (btake n b) = n.
Proof. intros; unfold blen, btake in *; rewrite firstn_length; lia. Qed.

Lemma blen_btake_le : forall n b, blen (btake n b) <= blen b.
Proof. intros; unfold blen, btake; rewrite firstn_length; lia. Qed.

Lemma bdrop_0 : forall b, bdrop 0 b = b.
Proof. reflexivity. Qed.

Lemma btake_all : forall b, btake (blen b) b = b.
Proof. intros; unfold btake, blen; rewrite Nat2Z.id; apply firstn_all. Qed.

Lemma slice_some : forall b lo hi s, slice b lo hi = Some s ->
  0 <= lo /\ lo <= hi /\ hi <= blen b /\ s = btake (hi - lo) (bdrop lo b) /\ blen s = hi - lo.
Proof.
  unfold slice; intros b lo hi s H.
  destruct ((0 <=? lo) && (lo <=? hi) && (hi <=? blen b)) eqn:E; [|discriminate].
  inversion H; subst; clear H.
  assert (0 <= lo /\ lo <= hi /\ hi <= blen b) as (H1 & H2 & H3) by lia.
  repeat split; try assumption.
  rewrite blen_btake; [reflexivity|]. rewrite blen_bdrop; lia.
Qed.

Lemma slice_in : forall b lo hi, 0 <= lo -> lo <= hi -> hi <= blen b ->
  slice b lo hi = Some (btake (hi - lo) (bdrop lo b)).
Proof.
  intros; unfold slice.
  replace ((0 <=? lo) && (lo <=? hi) && (hi <=? blen b)) with true by lia. reflexivity.
Qed.

Lemma slice_none : forall b lo hi, slice b lo hi = None -> lo < 0 \/ hi < lo \/ blen b < hi.
Proof.
  unfold slice; intros b lo hi H.
  destruct ((0 <=? lo) && (lo <=? hi) && (hi <=? blen b)) eqn:E; [discriminate|]. lia.
Qed.

Lemma range_ok : forall b lo hi site, 0 <= lo -> lo <= hi -> hi <= blen b ->
  range b lo hi site = Ok (btake (hi - lo) (bdrop lo b)).
Proof. intros; unfold range; rewrite slice_in by assumption; reflexivity. Qed.

Lemma range_inv : forall b lo hi site s, range b lo hi site = Ok s ->
  0 <= lo /\ lo <= hi /\ hi <= blen b /\ s = btake (hi - lo) (bdrop lo b) /\ blen s = hi - lo.
Proof.
  unfold range; intros b lo hi site s H. destruct (slice b lo hi) eqn:E; [|discriminate].
  inversion H; subst. eapply slice_some; eassumption.
Qed.

Lemma idx_ok : forall b i site, 0 <= i < blen b -> exists x, idx b i site = Ok x /\ In x b.
Proof.
  intros b i site H. unfold idx.
  destruct (nth_error b (Z.to_nat i)) eqn:E.
  - exists z. replace (0 <=? i) with true by lia. split; [reflexivity|]. eapply nth_error_In; eassumption.
  - apply nth_error_None in E. unfold blen in H. lia.
Qed.

Lemma idx_inv : forall b i site x, idx b i site = Ok x -> In x b.
Proof.
  unfold idx; intros b i site x H. destruct (nth_error b (Z.to_nat i)) eqn:E; [|discriminate].
  destruct (0 <=? i); inversion H; subst. eapply nth_error_In; eassumption.
Qed.

(* well-formed bytes *)
Lemma wf_bdrop : forall n b, wf_bytes b -> wf_bytes (bdrop n b).
Proof.
  intros n b H; unfold wf_bytes, bdrop in *. rewrite Forall_forall in *.
  intros x Hx. apply H. rewrite <- (firstn_skipn (Z.to_nat n) b). apply in_or_app; right; assumption.
Qed.

Lemma wf_btake : forall n b, wf_bytes b -> wf_bytes (btake n b).
Proof.
  intros n b H; unfold wf_bytes, btake in *. rewrite Forall_forall in *.
  intros x Hx. apply H. rewrite <- (firstn_skipn (Z.to_nat n) b). apply in_or_app; left; assumption.
Qed.

Lemma wf_slice : forall b lo hi s, wf_bytes b -> slice b lo hi = Some s -> wf_bytes s.
Proof.
  intros b lo hi s H E. apply slice_some in E. destruct E as (_ & _ & _ & -> & _).
  apply wf_btake, wf_bdrop, H.
Qed.

Lemma wf_app : forall a b, wf_bytes a -> wf_bytes b -> wf_bytes (a ++ b).
Proof. intros; unfold wf_bytes in *; apply Forall_app; split; assumption. Qed.

Lemma wf_app_inv : forall a b, wf_bytes (a ++ b) -> wf_bytes a /\ wf_bytes b.
Proof. intros a b H; unfold wf_bytes in *; apply Forall_app in H; exact H. Qed.

Lemma wf_zeros : forall n, wf_bytes (zeros n).
Proof.
  intros; unfold wf_bytes, zeros. rewrite Forall_forall. intros x Hx.
  apply repeat_spec in Hx. subst. unfold is_byte; lia.
Qed.

Lemma blen_zeros : forall n, 0 <= n -> blen (zeros n) = n.
Proof. intros; unfold blen, zeros; rewrite repeat_length; lia. Qed.

Lemma nm4_ge : forall x, x <= nm4 x.
Proof. intros; unfold nm4. destruct (x mod 4) eqn:E; lia. Qed.

Lemma nm4_lt : forall x, nm4 x < x + 4.
Proof. intros; unfold nm4. destruct (x mod 4) eqn:E; lia. Qed.

Lemma nm4_mod : forall x, nm4 x mod 4 = 0.
Proof. intros; unfold nm4. destruct (x mod 4) eqn:E; lia. Qed.

Lemma nm4_fix : forall x, x mod 4 = 0 -> nm4 x = x.
Proof. intros x H; unfold nm4; rewrite H; reflexivity. Qed.
