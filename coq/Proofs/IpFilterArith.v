(* C31, part 1: machine-level lemmas of the trie model -- nibbles, bitmaps,
   masks, and the interval reading of prefixes. *)
From V Require Import Model.IpFilter Gen.ConstIpFilter.
From Coq Require Import ZifyBool.

Local Ltac dm := Z.div_mod_to_equations.

(* ---- range and prefix vocabulary ---- *)
Definition in128 (a : Z) : Prop := 0 <= a < 2 ^ 128.

(* prefix size of a length *)
Definition psize (len : Z) : Z := 2 ^ (128 - len).

Definition wf_entry (e : entry) : Prop :=
  in128 (fst e) /\ 0 <= snd e <= 128 /\ fst e mod psize (snd e) = 0.

(* interval reading of "address a lies in prefix e" (for masked values) *)
Definition econtains (a : Z) (e : entry) : bool :=
  (fst e <=? a) && (a <? fst e + psize (snd e)).

Lemma psize_pos : forall len, 0 <= len <= 128 -> 0 < psize len.
Proof. intros. unfold psize. apply Z.pow_pos_nonneg; lia. Qed.

Lemma two124 : 2 ^ 124 = 21267647932558653966460912964485513216. Proof. reflexivity. Qed.
Lemma two128 : 2 ^ 128 = 340282366920938463463374607431768211456. Proof. reflexivity. Qed.

(* ---- top nibble ---- *)
Lemma top_nibble_div : forall v, in128 v -> top_nibble v = v / 2 ^ 124.
Proof.
  intros v H. unfold top_nibble, TOP_SHIFT. rewrite Z.shiftr_div_pow2 by lia.
  change 15 with (Z.ones 4). rewrite Z.land_ones by lia.
  apply Z.mod_small. unfold in128 in H. rewrite two128 in H. rewrite two124. change (2^4) with 16. dm. lia.
Qed.

Lemma top_nibble_range : forall v, in128 v -> 0 <= top_nibble v < 16.
Proof.
  intros v H. rewrite top_nibble_div by exact H. unfold in128 in H. rewrite two128 in H. rewrite two124. dm. lia.
Qed.

(* ---- shifts ---- *)
Lemma shl16_one : forall i, 0 <= i < 16 -> shl 16 1 i = 2 ^ i.
Proof.
  intros i H. unfold shl, wrap. rewrite (Z.mod_small i 16) by lia. rewrite Z.mul_1_l.
  apply Z.mod_small. split. apply Z.pow_nonneg; lia. apply Z.pow_lt_mono_r; lia.
Qed.

Lemma shl128_4 : forall v, shl 128 v 4 = (v * 16) mod 2 ^ 128.
Proof. intros. reflexivity. Qed.

Lemma shl128_top : forall i, 0 <= i < 16 -> shl 128 i TOP_SHIFT = i * 2 ^ 124.
Proof.
  intros i H. unfold shl, wrap, TOP_SHIFT. change (124 mod 128) with 124.
  apply Z.mod_small. rewrite two124, two128. lia.
Qed.

Lemma shl128_psize : forall len, 1 <= len <= 128 -> shl 128 1 (wrap 8 (128 - len)) = psize len.
Proof.
  intros len H. unfold shl, wrap, psize. rewrite (Z.mod_small (128 - len)) by (change (2^8) with 256; lia).
  rewrite (Z.mod_small (128 - len) 128) by lia. rewrite Z.mul_1_l.
  apply Z.mod_small. split. apply Z.pow_nonneg; lia. apply Z.pow_lt_mono_r; lia.
Qed.

(* ---- u16 bitmaps ---- *)
Lemma land_pow2_zero : forall x i, 0 <= i -> (Z.land x (2 ^ i) =? 0) = negb (Z.testbit x i).
Proof.
  intros x i Hi. destruct (Z.testbit x i) eqn:E; simpl.
  - apply Z.eqb_neq. intro H. assert (Z.testbit (Z.land x (2 ^ i)) i = false) by (rewrite H; apply Z.bits_0).
    rewrite Z.land_spec, E, Z.pow2_bits_true in H0 by lia. discriminate.
  - apply Z.eqb_eq. apply Z.bits_inj'. intros n Hn. rewrite Z.bits_0, Z.land_spec, Z.pow2_bits_eqb by lia.
    destruct (Z.eqb_spec i n); subst; rewrite ?E; auto using andb_false_r.
Qed.

Lemma bit16_testbit : forall x i, 0 <= i < 16 -> bit16 x i = Z.testbit x i.
Proof.
  intros. unfold bit16. rewrite shl16_one, land_pow2_zero by lia. apply negb_involutive.
Qed.

Lemma lookup_bit : forall x i, 0 <= i < 16 -> negb (Z.land x (shl 16 1 i) =? 0) = Z.testbit x i.
Proof. intros. apply bit16_testbit; auto. Qed.

Lemma not16_spec : forall x k, 0 <= k < 16 -> Z.testbit (not16 x) k = negb (Z.testbit x k).
Proof.
  intros. unfold not16. rewrite Z.lxor_spec. change 65535 with (Z.ones 16).
  rewrite Z.ones_spec_low by lia. apply xorb_true_r.
Qed.

Lemma wrap16_ones : forall n, 0 <= n < 16 -> wrap 16 (shl 16 1 n - 1) = Z.ones n.
Proof.
  intros. rewrite shl16_one by lia. rewrite Z.ones_equiv. unfold wrap.
  apply Z.mod_small. assert (0 < 2 ^ n) by (apply Z.pow_pos_nonneg; lia).
  assert (2 ^ n < 2 ^ 16) by (apply Z.pow_lt_mono_r; lia). lia.
Qed.

(* number of set bits among the first n positions *)
Definition bcount (g : Z -> bool) (n : nat) : Z :=
  fold_right (fun k acc => (if g k then 1 else 0) + acc) 0 (zseq n).

Lemma zseq_S : forall n, zseq (S n) = zseq n ++ [Z.of_nat n].
Proof. intros. unfold zseq. rewrite seq_S, map_app. reflexivity. Qed.

Lemma zseq_length : forall n, length (zseq n) = n.
Proof. intros. unfold zseq. rewrite map_length, seq_length. reflexivity. Qed.

Lemma in_zseq : forall n k, In k (zseq n) <-> 0 <= k < Z.of_nat n.
Proof.
  intros. unfold zseq. rewrite in_map_iff. split.
  - intros (x & <- & Hx). apply in_seq in Hx. lia.
  - intros H. exists (Z.to_nat k). split. lia. apply in_seq. lia.
Qed.

Lemma bcount_app_aux : forall (g : Z -> bool) l1 l2,
  fold_right (fun k acc => (if g k then 1 else 0) + acc) 0 (l1 ++ l2) =
  fold_right (fun k acc => (if g k then 1 else 0) + acc) 0 l1 +
  fold_right (fun k acc => (if g k then 1 else 0) + acc) 0 l2.
Proof. induction l1; simpl; intros. reflexivity. rewrite IHl1. lia. Qed.

Lemma bcount_S : forall g n, bcount g (S n) = bcount g n + (if g (Z.of_nat n) then 1 else 0).
Proof. intros. unfold bcount. rewrite zseq_S, bcount_app_aux. simpl. lia. Qed.

Lemma bcount_ext : forall g h n, (forall k, 0 <= k < Z.of_nat n -> g k = h k) -> bcount g n = bcount h n.
Proof.
  induction n; intros. reflexivity.
  rewrite !bcount_S, IHn, H by (intros; try apply H; lia). reflexivity.
Qed.

Lemma bcount_filter : forall g n, bcount g n = Z.of_nat (length (filter g (zseq n))).
Proof.
  induction n. reflexivity.
  rewrite bcount_S, zseq_S, filter_app, app_length, IHn. simpl. destruct (g (Z.of_nat n)); simpl; lia.
Qed.

Lemma bcount_range : forall g n, 0 <= bcount g n <= Z.of_nat n.
Proof. induction n. cbv; split; discriminate. rewrite bcount_S. destruct (g (Z.of_nat n)); lia. Qed.

(* cutting a count at n *)
Lemma bcount_cut : forall g (n m : nat), (n <= m)%nat ->
  bcount (fun k => g k && (k <? Z.of_nat n)) m = bcount g n.
Proof.
  intros g n m H. induction m.
  - assert (n = O) by lia. subst. reflexivity.
  - destruct (Nat.eq_dec n (S m)).
    + subst. apply bcount_ext. intros. destruct (Z.ltb_spec k (Z.of_nat (S m))). apply andb_true_r. lia.
    + rewrite bcount_S, IHm by lia. destruct (Z.ltb_spec (Z.of_nat m) (Z.of_nat n)). lia.
      rewrite andb_false_r. lia.
Qed.

Lemma popcount16_bcount : forall x, popcount16 x = bcount (Z.testbit x) 16.
Proof. reflexivity. Qed.

(* the child rank computed by lookup *)
Lemma rank_spec : forall known n, 0 <= n < 16 ->
  popcount16 (Z.land (not16 known) (wrap 16 (shl 16 1 n - 1))) =
  bcount (fun k => negb (Z.testbit known k)) (Z.to_nat n).
Proof.
  intros. rewrite wrap16_ones, popcount16_bcount by lia.
  rewrite <- (bcount_cut (fun k => negb (Z.testbit known k)) (Z.to_nat n) 16) by lia.
  apply bcount_ext. intros k Hk. rewrite Z.land_spec, not16_spec, Z.testbit_ones_nonneg by lia.
  rewrite Z2Nat.id by lia. reflexivity.
Qed.

Lemma count_zeros16_spec : forall x,
  count_zeros16 x = bcount (fun k => negb (Z.testbit x k)) 16.
Proof.
  intros. unfold count_zeros16. rewrite popcount16_bcount.
  assert (G : forall n, bcount (Z.testbit x) n + bcount (fun k => negb (Z.testbit x k)) n = Z.of_nat n).
  { induction n. reflexivity. rewrite !bcount_S. destruct (Z.testbit x (Z.of_nat n)); simpl; lia. }
  specialize (G 16%nat). lia.
Qed.

(* ---- apply_mask ---- *)
Lemma testbit_high128 : forall v n, in128 v -> 128 <= n -> Z.testbit v n = false.
Proof.
  intros v n [H0 H1] Hn. destruct (Z.eq_dec v 0). subst; apply Z.bits_0.
  apply Z.bits_above_log2. lia. assert (Z.log2 v < 128) by (apply Z.log2_lt_pow2; lia). lia.
Qed.

Lemma apply_mask_spec : forall v len, in128 v -> 0 <= len <= 128 ->
  apply_mask v len = v / psize len * psize len.
Proof.
  intros v len Hv Hl. unfold apply_mask, psize, wrap.
  rewrite (Z.mod_small (128 - len)) by (change (2^8) with 256; lia).
  destruct (Z.ltb_spec (128 - len) 128).
  - set (sh := 128 - len) in *. apply Z.bits_inj'. intros n Hn.
    rewrite Z.land_spec, Z.testbit_mod_pow2, !Z.mul_pow2_bits by lia.
    change u128_max with (Z.ones 128).
    destruct (Z.ltb_spec n sh).
    + rewrite (Z.testbit_neg_r _ (n - sh)) by lia. rewrite (Z.testbit_neg_r _ (n - sh)) by lia.
      rewrite andb_false_r. apply andb_false_r.
    + rewrite Z.div_pow2_bits by lia. replace (n - sh + sh) with n by lia.
      destruct (Z.ltb_spec n 128).
      * rewrite Z.ones_spec_low by lia. simpl. apply andb_true_r.
      * rewrite testbit_high128 by (auto; lia). reflexivity.
  - assert (len = 0) by lia. subst. replace (128 - 0) with 128 by lia.
    rewrite Z.div_small by exact Hv. reflexivity.
Qed.

Lemma apply_mask_wf : forall v len, in128 v -> 0 <= len <= 128 -> wf_entry (apply_mask v len, len).
Proof.
  intros v len Hv Hl. rewrite apply_mask_spec by auto. pose proof (psize_pos len Hl).
  unfold wf_entry; simpl. repeat split; try lia.
  - apply Z.mul_nonneg_nonneg. apply Z.div_pos; unfold in128 in Hv; lia. lia.
  - assert (v / psize len * psize len <= v). { rewrite Z.mul_comm. apply Z.mul_div_le. lia. }
    unfold in128 in Hv. lia.
  - apply Z_mod_mult.
Qed.

(* naive mask comparison = interval membership of the masked value *)
Lemma contains_interval : forall v len a, in128 v -> in128 a -> 0 <= len <= 128 ->
  (v / psize len =? a / psize len) = econtains a (apply_mask v len, len).
Proof.
  intros v len a Hv Ha Hl. rewrite apply_mask_spec by auto. unfold econtains; simpl.
  pose proof (psize_pos len Hl) as HP. set (P := psize len) in *.
  pose proof (Z.div_mod a P ltac:(lia)). pose proof (Z.mod_pos_bound a P HP).
  set (q := v / P) in *. set (q' := a / P) in *.
  destruct (Z.eqb_spec q q').
  - subst q'. symmetry. apply andb_true_intro. split. apply Z.leb_le. nia. apply Z.ltb_lt. nia.
  - symmetry. apply andb_false_iff. destruct (Z.lt_ge_cases q' q).
    + left. apply Z.leb_gt. nia.
    + right. apply Z.ltb_ge. nia.
Qed.
