(* Totality facts on the parser models shared by C44 and C45. *)
From V Require Import Model.CsptpMsg Proofs.TlvSet.

Ltac destr_if H := match type of H with (if ?c then _ else _) = _ => destruct c eqn:? end.

Lemma ts_de_no_panic : forall b s, ts_de b <> Panic s.
Proof. intros b s. unfold ts_de. repeat (destruct (_ <? _)%nat; [discriminate|]). destruct (_ >? _); discriminate. Qed.

Lemma de_body_no_panic : forall ty b s, de_body ty b <> Panic s.
Proof.
  intros ty b s. unfold de_body.
  destruct (_ <? _)%nat; [discriminate|].
  repeat (destruct (ty =? _);
          [ match goal with |- context [ts_de ?x] =>
              let E := fresh in destruct (ts_de x) eqn:E; cbn; try discriminate;
              intro HH; inversion HH; subst; eapply ts_de_no_panic; eauto
            | _ => discriminate end |]).
  discriminate.
Qed.

Lemma msg_deserialize_cases : forall buf,
  (exists e, msg_deserialize buf = Err e) \/
  (exists m, msg_deserialize buf = Ok m /\ tlv_valid (m_suffix m)).
Proof.
  intros buf. unfold msg_deserialize.
  destruct (_ <? _)%nat; [left; eauto|].
  destruct (de_header buf) as [[h ty] mlen].
  destruct (negb _); [left; eauto|].
  destruct (mlen <? 34); [left; eauto|].
  destruct (_ <? _)%nat; [left; eauto|].
  destruct (de_body ty _) as [b|e|s] eqn:Eb; cbn.
  - destruct (tlvset_de _) as [sf|e|s] eqn:Et; cbn.
    + right. eexists; split; [reflexivity|]. cbn. apply tlvset_de_ok in Et. destruct Et as [-> V]. exact V.
    + left; eauto.
    + exfalso. eapply tlvset_de_no_panic; eauto.
  - left; eauto.
  - exfalso. eapply de_body_no_panic; eauto.
Qed.

Lemma msg_deserialize_no_panic : forall buf s, msg_deserialize buf <> Panic s.
Proof.
  intros buf s H. destruct (msg_deserialize_cases buf) as [[e E]|[m [E _]]]; congruence.
Qed.

Lemma msg_deserialize_valid : forall buf m, msg_deserialize buf = Ok m -> tlv_valid (m_suffix m).
Proof.
  intros buf m H. destruct (msg_deserialize_cases buf) as [[e E]|[m' [E V]]]; [congruence|].
  rewrite H in E. inversion E; subst. exact V.
Qed.

(* CsptpMessage::deserialize: never panics; what it accepts is a parsed message with a valid set *)
Lemma csptp_deserialize_ok : forall buf m,
  csptp_deserialize buf = Ok m ->
  msg_deserialize buf = Ok m /\ tlv_valid (m_suffix m)
  /\ h_sdo (m_header m) = Gen.ConstCsptp.CSPTP_SDO_ID_CHECK /\ h_vmajor (m_header m) = Gen.ConstCsptp.CSPTP_VERSION_CHECK.
Proof.
  intros buf m H. unfold csptp_deserialize in H.
  destruct (msg_deserialize buf) as [m0|e|s] eqn:E; cbn [res_bind negb orb] in H; try discriminate.
  pose proof (msg_deserialize_valid _ _ E) as V.
  destruct (h_sdo (m_header m0) =? _) eqn:E1; cbn [res_bind negb orb] in H; [|discriminate].
  destruct (h_vmajor (m_header m0) =? _) eqn:E2; cbn [res_bind negb orb] in H; [|discriminate].
  apply Z.eqb_eq in E1, E2.
  assert (m0 = m) as ->.
  { destruct (m_body m0); try discriminate.
    - destruct (tlvs (m_suffix m0)); cbn [res_bind negb orb] in H; try discriminate.
      cbv zeta in H. destr_if H; [discriminate|]. inversion H; reflexivity.
    - inversion H; reflexivity. }
  auto.
Qed.

Lemma csptp_deserialize_no_panic : forall buf s, csptp_deserialize buf <> Panic s.
Proof.
  intros buf s H. unfold csptp_deserialize in H.
  destruct (msg_deserialize buf) as [m0|e|s0] eqn:E; cbn [res_bind negb orb] in H; try discriminate.
  - pose proof (msg_deserialize_valid _ _ E) as V. destruct (tlvs_valid_ok _ V) as [l Hl].
    destr_if H; [discriminate|].
    destruct (m_body m0); try discriminate.
    rewrite Hl in H. cbn [res_bind negb orb] in H. cbv zeta in H. destr_if H; discriminate.
  - eapply msg_deserialize_no_panic; eauto.
Qed.

Lemma msg_deserialize_header : forall buf m,
  msg_deserialize buf = Ok m -> m_header m = fst (fst (de_header buf)).
Proof.
  intros buf m H. unfold msg_deserialize in H.
  destruct (_ <? _)%nat; [discriminate|].
  destruct (de_header buf) as [[h ty] mlen]. cbn [fst].
  destruct (negb _); [discriminate|]. destruct (mlen <? 34); [discriminate|].
  destruct (_ <? _)%nat; [discriminate|].
  destruct (de_body ty _); cbn [res_bind] in H; try discriminate.
  destruct (tlvset_de _); cbn [res_bind] in H; try discriminate.
  inversion H; reflexivity.
Qed.

(* what CsptpMessage::deserialize demands of a Sync *)
Lemma csptp_deserialize_sync : forall buf m origin,
  csptp_deserialize buf = Ok m -> m_body m = Sync origin ->
  exists ts, tlvs (m_suffix m) = Ok ts
    /\ Nat.add (count_if (fun t : tlv => Z.eqb (fst t) Gen.ConstCsptp.TLV_CSPTP_REQUEST) ts)
               (count_if (fun t : tlv => Z.eqb (fst t) Gen.ConstCsptp.TLV_CSPTP_RESPONSE) ts) = 1%nat
    /\ count_if (fun t : tlv => Z.eqb (fst t) Gen.ConstCsptp.TLV_CSPTP_REQUEST) ts = count_if (fun t => is_some (req_tlv_try t)) ts
    /\ count_if (fun t : tlv => Z.eqb (fst t) Gen.ConstCsptp.TLV_CSPTP_RESPONSE) ts = count_if (fun t => is_some (resp_tlv_try t)) ts.
Proof.
  intros buf m origin H Hb. pose proof (csptp_deserialize_ok _ _ H) as (E & V & _).
  unfold csptp_deserialize in H. rewrite E in H. cbn [res_bind] in H.
  destr_if H; [discriminate|]. rewrite Hb in H.
  destruct (tlvs_valid_ok _ V) as [ts Hts]. rewrite Hts in H. cbn [res_bind] in H. cbv zeta in H.
  destr_if H; [discriminate|].
  exists ts. split; [exact Hts|].
  apply orb_false_iff in Heqb0. destruct Heqb0 as [A C]. apply orb_false_iff in A. destruct A as [A B].
  apply negb_false_iff in A, B, C. apply Nat.eqb_eq in A, B, C. auto.
Qed.
