From V Require Import Model.ConfigNum Gen.ConstConfigNum Base.D3FloatFacts.
From Coq Require Import Floats.

(* census (constants translator): the same finite-and-non-negative test opens
   visit_f64 of both visitors (the translator fails if either is missing), no
   third visit_f64 or further from_seconds call appeared in config.rs *)
Example config_census :
  CFG_PART_TEST = CFG_SINGLE_TEST /\ CFG_VISIT_F64 = 2 /\ CFG_FROM_SECONDS_CALLS = 4.
Proof. repeat split. Qed.

(* good_number f (Base/D3FloatFacts.v): f is not NaN, not infinite, not below zero *)

Lemma bad_threshold_false f : bad_threshold f = false <-> good_number f.
Proof.
  unfold bad_threshold, good_number.
  destruct (f64_is_nan f), (f64_is_infinite f), (f64_lt0 f); cbn; intuition congruence.
Qed.

(* one direction of an accepted threshold: no limit (only from the string
   "inf"), or the conversion of a good number *)
Definition good_part (o : option Z) : Prop :=
  o = None \/ exists f, good_number f /\ o = Some (from_seconds f).

Lemma from_seconds_profile_good dbg f :
  f64_is_nan f = false -> f64_is_infinite f = false ->
  from_seconds_profile dbg f = Ok (from_seconds f).
Proof.
  intros H1 H2. unfold from_seconds_profile. rewrite H1, H2.
  destruct dbg; reflexivity.
Qed.

Lemma threshold_part_ok dbg v o :
  threshold_part dbg v = Ok o ->
  (v = PScalar (SStr true) /\ o = None) \/
  (exists s f, v = PScalar s /\ number_of_scalar s = Some f /\ good_number f /\
               o = Some (from_seconds f)).
Proof.
  unfold threshold_part. destruct v as [s|]; [|discriminate].
  destruct s as [b|z|z|[|]|]; try discriminate;
    try (intros H; inversion H; left; split; reflexivity).
  all: cbn [number_of_scalar];
    match goal with |- context [bad_threshold ?f] => destruct (bad_threshold f) eqn:B end;
    try discriminate;
    apply bad_threshold_false in B; pose proof B as (N & I & _);
    rewrite (from_seconds_profile_good dbg _ N I); cbn [res_bind];
    intros H; inversion H; right; eexists _, _; repeat split; eauto; apply B.
Qed.

Lemma threshold_part_good dbg v o : threshold_part dbg v = Ok o -> good_part o.
Proof.
  intros H. destruct (threshold_part_ok _ _ _ H) as [[_ ->] | (s & f & _ & _ & G & ->)].
  - left; reflexivity.
  - right; eauto.
Qed.

Lemma threshold_part_no_panic dbg v p : threshold_part dbg v <> Panic p.
Proof.
  unfold threshold_part. destruct v as [s|]; [|discriminate].
  destruct s as [b|z|z|[|]|]; try discriminate.
  all: cbn [number_of_scalar];
    match goal with |- context [bad_threshold ?f] => destruct (bad_threshold f) eqn:B end;
    try discriminate;
    apply bad_threshold_false in B; destruct B as (N & I & _);
    rewrite (from_seconds_profile_good dbg _ N I); discriminate.
Qed.

Lemma threshold_part_profiles v : threshold_part true v = threshold_part false v.
Proof.
  unfold threshold_part. destruct v as [s|]; [|reflexivity].
  destruct s as [b|z|z|[|]|]; try reflexivity.
  all: cbn [number_of_scalar];
    match goal with |- context [bad_threshold ?f] => destruct (bad_threshold f) eqn:B end;
    try reflexivity;
    apply bad_threshold_false in B; destruct B as (N & I & _);
    rewrite !(from_seconds_profile_good _ _ N I); reflexivity.
Qed.

Definition good_acc (a : option (option Z)) : Prop :=
  match a with None => True | Some o => good_part o end.

Lemma threshold_map_good dbg es : forall fw bw st,
  good_acc fw -> good_acc bw ->
  threshold_map dbg es fw bw = Ok st ->
  good_part (st_forward st) /\ good_part (st_backward st).
Proof.
  induction es as [|[k v] r IH]; intros fw bw st Gf Gb H.
  - cbn in H. inversion H; subst; cbn. split.
    + destruct fw as [o|]; [exact Gf | left; reflexivity].
    + destruct bw as [o|]; [exact Gb | left; reflexivity].
  - cbn [threshold_map] in H. destruct k.
    + destruct fw; [discriminate|].
      destruct (threshold_part dbg v) as [p| |] eqn:P; cbn [res_bind] in H; try discriminate.
      apply (IH (Some p) bw st (threshold_part_good _ _ _ P) Gb H).
    + destruct bw; [discriminate|].
      destruct (threshold_part dbg v) as [p| |] eqn:P; cbn [res_bind] in H; try discriminate.
      apply (IH fw (Some p) st Gf (threshold_part_good _ _ _ P) H).
    + discriminate.
Qed.

Lemma threshold_map_no_panic dbg es : forall fw bw p, threshold_map dbg es fw bw <> Panic p.
Proof.
  induction es as [|[k v] r IH]; intros fw bw p; cbn [threshold_map]; [discriminate|].
  destruct k.
  - destruct fw; [discriminate|].
    destruct (threshold_part dbg v) as [q| |] eqn:P; cbn [res_bind]; try discriminate.
    + apply IH.
    + exfalso. exact (threshold_part_no_panic _ _ _ P).
  - destruct bw; [discriminate|].
    destruct (threshold_part dbg v) as [q| |] eqn:P; cbn [res_bind]; try discriminate.
    + apply IH.
    + exfalso. exact (threshold_part_no_panic _ _ _ P).
  - discriminate.
Qed.

Lemma threshold_map_profiles es : forall fw bw,
  threshold_map true es fw bw = threshold_map false es fw bw.
Proof.
  induction es as [|[k v] r IH]; intros fw bw; cbn [threshold_map]; [reflexivity|].
  destruct k; try reflexivity.
  - destruct fw; [reflexivity|]. rewrite threshold_part_profiles.
    destruct (threshold_part false v); cbn [res_bind]; try reflexivity. apply IH.
  - destruct bw; [reflexivity|]. rewrite threshold_part_profiles.
    destruct (threshold_part false v); cbn [res_bind]; try reflexivity. apply IH.
Qed.

(* each key may appear once, so the accepted directions come from the entries *)
Lemma single_form_ok dbg s st :
  step_threshold_of dbg (TScalar s) = Ok st ->
  (s = SStr true /\ st_forward st = None /\ st_backward st = None) \/
  (exists f, number_of_scalar s = Some f /\ good_number f /\
             st_forward st = Some (from_seconds f) /\ st_backward st = Some (from_seconds f)).
Proof.
  unfold step_threshold_of.
  destruct s as [b|z|z|[|]|]; try discriminate;
    try (intros H; inversion H; left; repeat split; reflexivity).
  all: cbn [number_of_scalar];
    match goal with |- context [bad_threshold ?f] => destruct (bad_threshold f) eqn:B end;
    try discriminate;
    apply bad_threshold_false in B; pose proof B as (N & I & _);
    rewrite (from_seconds_profile_good dbg _ N I); cbn [res_bind];
    intros H; inversion H; right; eexists; repeat split; eauto; apply B.
Qed.

Lemma step_threshold_good dbg v st :
  step_threshold_of dbg v = Ok st -> good_part (st_forward st) /\ good_part (st_backward st).
Proof.
  destruct v as [s|es|].
  - intros H. destruct (single_form_ok _ _ _ H) as [(_ & -> & ->) | (f & _ & G & -> & ->)].
    + split; left; reflexivity.
    + split; right; eauto.
  - cbn. apply threshold_map_good; exact I.
  - discriminate.
Qed.

Lemma step_threshold_no_panic dbg v p : step_threshold_of dbg v <> Panic p.
Proof.
  destruct v as [s|es|]; [| apply threshold_map_no_panic | discriminate].
  unfold step_threshold_of.
  destruct s as [b|z|z|[|]|]; try discriminate.
  all: cbn [number_of_scalar];
    match goal with |- context [bad_threshold ?f] => destruct (bad_threshold f) eqn:B end;
    try discriminate;
    apply bad_threshold_false in B; destruct B as (N & I & _);
    rewrite (from_seconds_profile_good dbg _ N I); discriminate.
Qed.

Lemma step_threshold_profiles v : step_threshold_of true v = step_threshold_of false v.
Proof.
  destruct v as [s|es|]; [| apply threshold_map_profiles | reflexivity].
  unfold step_threshold_of.
  destruct s as [b|z|z|[|]|]; try reflexivity.
  all: cbn [number_of_scalar];
    match goal with |- context [bad_threshold ?f] => destruct (bad_threshold f) eqn:B end;
    try reflexivity;
    apply bad_threshold_false in B; destruct B as (N & I & _);
    rewrite !(from_seconds_profile_good _ _ N I); reflexivity.
Qed.

(* durations (accumulated threshold and every other NtpDuration field) *)
Lemma duration_ok dbg s d :
  duration_of dbg s = Ok d ->
  exists f, number_of_scalar s = Some f /\ f64_is_nan f = false /\ f64_is_infinite f = false /\
            d = from_seconds f.
Proof.
  unfold duration_of. destruct (number_of_scalar s) as [f|]; [|discriminate].
  destruct (f64_is_nan f) eqn:N; [discriminate|].
  destruct (f64_is_infinite f) eqn:I; [discriminate|]. cbn [orb].
  rewrite (from_seconds_profile_good dbg _ N I). intros H; inversion H. eauto.
Qed.

Lemma duration_no_panic dbg s p : duration_of dbg s <> Panic p.
Proof.
  unfold duration_of. destruct (number_of_scalar s) as [f|]; [|discriminate].
  destruct (f64_is_nan f) eqn:N; [discriminate|].
  destruct (f64_is_infinite f) eqn:I; [discriminate|]. cbn [orb].
  rewrite (from_seconds_profile_good dbg _ N I). discriminate.
Qed.

Lemma accumulated_no_panic dbg s p : accumulated_of dbg s <> Panic p.
Proof.
  unfold accumulated_of. destruct (duration_of dbg s) eqn:D; cbn [res_bind]; try discriminate.
  exfalso. exact (duration_no_panic _ _ _ D).
Qed.

(* a good number on the wire: exponent field not all ones, and sign bit clear
   unless the value is the negative zero *)
Lemma good_number_bits b :
  good_number (f64_of_bits b) <->
  (f64_exp_field b <> 2047 /\
   (f64_sign_bit b = false \/ (f64_exp_field b = 0 /\ f64_man_field b = 0))).
Proof.
  unfold good_number. rewrite f64_lt0_bits, f64_is_nan_bits, f64_is_infinite_bits.
  destruct (Z.eqb_spec (f64_exp_field b) 2047) as [E|E];
  destruct (Z.eqb_spec (f64_man_field b) 0) as [M|M];
  destruct (Z.eqb_spec (f64_exp_field b) 0) as [E0|E0];
  destruct (f64_sign_bit b); cbn; split; intros; intuition (try congruence; try lia).
Qed.

(* ---- the [synchronization] section ---- *)
Definition good_threshold (st : step_threshold) : Prop :=
  good_part (st_forward st) /\ good_part (st_backward st).
Definition good_sync (c : sync_cfg) : Prop :=
  good_threshold (c_single c) /\ good_threshold (c_startup c).

Lemma default_sync_good : good_sync default_sync.
Proof.
  unfold good_sync, good_threshold, default_sync; cbn [c_single c_startup st_forward st_backward].
  assert (G1 : good_number (f64_of_Z ConstConfigNum.CFG_DEFAULT_SINGLE_STEP_SECS))
    by (repeat split; vm_compute; reflexivity).
  assert (G2 : good_number (f64_of_Z ConstConfigNum.CFG_DEFAULT_STARTUP_BACKWARD_SECS))
    by (repeat split; vm_compute; reflexivity).
  repeat split; try (left; reflexivity); right; eauto.
Qed.

Lemma load_sync_good dbg fs : forall c c',
  good_sync c -> load_sync dbg fs c = Ok c' -> good_sync c'.
Proof.
  induction fs as [|f r IH]; intros c c' G H.
  - cbn in H. inversion H; subst; exact G.
  - cbn [load_sync] in H. destruct G as [G1 G2]. destruct f as [v|v|v].
    + destruct (step_threshold_of dbg v) as [st| |] eqn:S; cbn [res_bind] in H; try discriminate.
      refine (IH _ _ _ H). split; [exact (step_threshold_good _ _ _ S) | exact G2].
    + destruct (step_threshold_of dbg v) as [st| |] eqn:S; cbn [res_bind] in H; try discriminate.
      refine (IH _ _ _ H). split; [exact G1 | exact (step_threshold_good _ _ _ S)].
    + destruct (match v with TScalar s => accumulated_of dbg s | _ => Err EV_INVALID_TYPE end)
        as [a| |]; cbn [res_bind] in H; try discriminate.
      refine (IH _ _ _ H). split; [exact G1 | exact G2].
Qed.

Lemma load_sync_no_panic dbg fs : forall c p, load_sync dbg fs c <> Panic p.
Proof.
  induction fs as [|f r IH]; intros c p; cbn [load_sync]; [discriminate|].
  destruct f as [v|v|v].
  - destruct (step_threshold_of dbg v) as [st| |] eqn:S; cbn [res_bind]; try discriminate.
    + apply IH.
    + exfalso. exact (step_threshold_no_panic _ _ _ S).
  - destruct (step_threshold_of dbg v) as [st| |] eqn:S; cbn [res_bind]; try discriminate.
    + apply IH.
    + exfalso. exact (step_threshold_no_panic _ _ _ S).
  - destruct v as [s|es|]; cbn [res_bind]; try discriminate.
    destruct (accumulated_of dbg s) as [a| |] eqn:A; cbn [res_bind]; try discriminate.
    + apply IH.
    + exfalso. exact (accumulated_no_panic _ _ _ A).
Qed.

Lemma loaded_section_good debug fs c :
  load_sync debug fs default_sync = Ok c ->
  good_threshold (c_single c) /\ good_threshold (c_startup c).
Proof. exact (load_sync_good debug fs default_sync c default_sync_good). Qed.

Lemma no_crash_all debug :
  (forall v p, step_threshold_of debug v <> Panic p) /\
  (forall v p, threshold_part debug v <> Panic p) /\
  (forall s p, duration_of debug s <> Panic p) /\
  (forall s p, accumulated_of debug s <> Panic p) /\
  (forall fs c p, load_sync debug fs c <> Panic p).
Proof.
  repeat split; intros.
  - apply step_threshold_no_panic.
  - apply threshold_part_no_panic.
  - apply duration_no_panic.
  - apply accumulated_no_panic.
  - apply load_sync_no_panic.
Qed.

(* the converted thresholds are non-negative durations *)
Lemma duration_nonneg f :
  f64_is_nan f = false -> f64_is_infinite f = false -> f64_lt0 f = false -> 0 <= from_seconds f.
Proof. intros N I L. apply from_seconds_nonneg. repeat split; assumption. Qed.

Lemma good_part_nonneg o d : good_part o -> o = Some d -> 0 <= d.
Proof.
  intros [-> | (f & G & ->)] E; [discriminate|]. inversion E; subst. apply from_seconds_nonneg, G.
Qed.

Lemma thresholds_nonneg dbg v st :
  step_threshold_of dbg v = Ok st ->
  (forall d, st_forward st = Some d -> 0 <= d) /\ (forall d, st_backward st = Some d -> 0 <= d).
Proof.
  intros H. destruct (step_threshold_good _ _ _ H) as [F B].
  split; intros d E; [exact (good_part_nonneg _ _ F E) | exact (good_part_nonneg _ _ B E)].
Qed.
