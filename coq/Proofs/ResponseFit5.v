(* C17 for NTPv5 requests (builder P2b). *)
From V Require Import Model.Response Proofs.Response Proofs.ResponseFit Gen.ConstResponse.
From Coq Require Import ZifyBool.
Ltac Zify.zify_post_hook ::= Z.div_mod_to_equations.

Lemma esz_list_app_const minf m l1 l2 :
  (forall b, minf b = m) -> esz_list minf (l1 ++ l2) = esz_list minf l1 + esz_list minf l2.
Proof.
  intros H. induction l1 as [|f r IH]; [reflexivity|].
  change ((f :: r) ++ l2) with (f :: (r ++ l2)). cbn [esz_list]. rewrite !H, IH. lia.
Qed.

Lemma esz_draft m : m = 4 \/ m = 16 -> esz m draft_field = 28.
Proof. intros [->| ->]; reflexivity. Qed.

Definition is_the_draft (f : field) : bool :=
  match f with FDraft d => if list_eq_dec Z.eq_dec d draft_bytes then true else false | _ => false end.
Definition draft_bonus (l : list field) : Z := if has_draft l then 28 else 0.

Lemma has_draft_cons f r : has_draft (f :: r) = is_the_draft f || has_draft r.
Proof. reflexivity. Qed.

Lemma has_draft_app a b : has_draft (a ++ b) = has_draft a || has_draft b.
Proof. unfold has_draft. apply existsb_app. Qed.

Lemma is_the_draft_wire f : is_the_draft f = true -> fwire f = 28.
Proof.
  destruct f; try discriminate. unfold is_the_draft. destruct (list_eq_dec Z.eq_dec d draft_bytes); [|discriminate].
  subst d. reflexivity.
Qed.

Lemma slot_wire_nonneg fresh l : 0 <= fresh -> 0 <= slot_wire fresh l.
Proof.
  intros F. induction l as [|f r IH]; [cbn; lia|]. unfold slot_wire in *. cbn [map]. rewrite sumZ_cons.
  destruct (big_slot fresh f); lia.
Qed.

Lemma slot_wire_cons fresh f r :
  slot_wire fresh (f :: r) = (if big_slot fresh f then fresh + 4 else 0) + slot_wire fresh r.
Proof. reflexivity. Qed.

Lemma len_firstn_Z {A} n (l : list A) : 0 <= n -> len (firstn (Z.to_nat n) l) <= n.
Proof. intros H. pose proof (len_firstn_le (Z.to_nat n) l). lia. Qed.

(* per-field accounting for NTPv5 answers: echoed unique identifiers and reference-id responses,
   fresh cookies and the draft identification are each paid for by a distinct field of the request *)
Lemma v5_cost fresh minf m flt l :
  0 <= fresh -> (forall b, minf b = m) ->
  forallb (field_ok true) l = true -> short_uid minf (echo_uid l) = false ->
  esz_list minf (echo_v5 flt l) + slot_wire fresh l + draft_bonus l <= fields_wire l.
Proof.
  intros F0 HM. induction l as [|f r IH]; [intros _ _; cbn; lia|].
  cbn [forallb]. intros H HS. apply andb_prop in H. destruct H as [H1 H2].
  destruct (field_ok_fwire _ _ H1) as [P0 _].
  assert (DB: draft_bonus (f :: r) <= (if is_the_draft f then 28 else 0) + draft_bonus r).
  { unfold draft_bonus. rewrite has_draft_cons. destruct (is_the_draft f), (has_draft r); cbn; lia. }
  rewrite fields_wire_cons, slot_wire_cons.
  destruct f; cbn [echo_v5 big_slot is_the_draft] in *; try (specialize (IH H2 HS); lia).
  - (* unique identifier *)
    unfold echo_uid in HS. cbn [filter is_uid] in HS. cbn [short_uid] in HS. apply orb_false_elim in HS. destruct HS as [S1 S2].
    specialize (IH H2 S2). cbn [esz_list]. rewrite HM in *. unfold esz, fwire in *.
    replace (len d + 4) with (4 + len d) by lia. lia.
  - specialize (IH H2 HS). unfold fwire in *. pose proof (next4_ge (4 + n)). destruct (fresh <=? n) eqn:E; lia.
  - specialize (IH H2 HS). unfold fwire in *. pose proof (next4_ge (4 + n)). destruct (fresh <=? n) eqn:E; lia.
  - (* draft identification *)
    specialize (IH H2 HS).
    destruct (list_eq_dec Z.eq_dec d draft_bytes) as [->|NE]; [|lia].
    change (fwire (FDraft draft_bytes)) with 28 in *. lia.
  - (* reference id request *)
    specialize (IH H2 HS). unfold field_ok in H1.
    destruct (refid_response flt plen off) as [x|] eqn:ER; [|lia].
    apply refid_response_spec in ER. destruct ER as [-> [R1 R2]].
    cbn [esz_list]. unfold esz, fwire in *.
    pose proof (len_firstn_Z plen (skipn (Z.to_nat off) flt) ltac:(lia)).
    pose proof (next4_mono (len (firstn (Z.to_nat plen) (skipn (Z.to_nat off) flt)) + 4) (4 + plen) ltac:(lia)). lia.
Qed.

Lemma echo_v5_nil_filter l : forallb (field_ok true) l = true -> echo_v5 [] l = echo_uid l.
Proof.
  induction l as [|f r IH]; [reflexivity|]. cbn [forallb]. intros H. apply andb_prop in H. destruct H as [H1 H2].
  specialize (IH H2). unfold echo_uid in *. destruct f; cbn [echo_v5 filter is_uid]; rewrite ?IH; try reflexivity.
  unfold field_ok in H1. unfold refid_response. change (len (@nil Z)) with 0.
  destruct ((off <=? 0) && (plen <=? 0 - off)) eqn:E; [lia|reflexivity].
Qed.

Lemma draft_le l : forallb (field_ok true) l = true -> has_draft l = true -> 28 <= fields_wire l.
Proof.
  induction l as [|f r IH]; [discriminate|]. cbn [forallb]. intros H HD. apply andb_prop in H. destruct H as [H1 H2].
  rewrite has_draft_cons in HD. rewrite fields_wire_cons. destruct (field_ok_fwire _ _ H1) as [P0 _].
  destruct (fields_wire_ok _ _ H2) as [R0 _].
  destruct (is_the_draft f) eqn:E.
  - rewrite (is_the_draft_wire f E). lia.
  - cbn [orb] in HD. specialize (IH H2 HD). lia.
Qed.

Lemma echo_v5_encodable flt l : forallb (field_ok true) l = true -> Forall encodable (echo_v5 flt l).
Proof.
  induction l as [|f r IH]; [constructor|]. cbn [forallb]. intros H. apply andb_prop in H. destruct H as [H1 H2].
  specialize (IH H2). destruct f; cbn [echo_v5]; auto.
  - constructor; auto. unfold field_ok in H1. unfold encodable. lia.
  - destruct (refid_response flt plen off) as [x|] eqn:ER; auto.
    apply refid_response_spec in ER. destruct ER as [-> [R1 R2]]. constructor; auto.
    unfold field_ok in H1. unfold encodable.
    pose proof (len_firstn_Z plen (skipn (Z.to_nat off) flt) ltac:(lia)). lia.
Qed.

Lemma encodable_draft : encodable draft_field.
Proof. unfold encodable, draft_field. vm_compute. discriminate. Qed.

Lemma esz_list_nonneg minf l : Forall encodable l -> 0 <= esz_list minf l.
Proof.
  induction l as [|f r IH]; [cbn; lia|]. intros H. inversion H; subst. specialize (IH H3). cbn [esz_list].
  assert (0 <= esz (minf (is_nil r)) f).
  { destruct f; unfold encodable in H2; try contradiction; unfold esz; try pose proof (len_nonneg d);
      match goal with |- 0 <= next4 ?x => pose proof (next4_ge x); lia end. }
  lia.
Qed.

Lemma wf_v5_facts q :
  wf_request q = true -> q_version q = 5 ->
  forallb (field_ok true) (q_untrusted q) = true /\ forallb (field_ok true) (q_auth q) = true
  /\ forallb (field_ok true) (q_enc q) = true /\ forallb auth_ok (q_auths q) = true
  /\ q_mac q = 0 /\ len (q_xmit q) = 8 /\ request_len q <= 65535
  /\ (q_decrypt_failed q = false -> has_draft (q_untrusted q ++ q_auth q) = true)
  /\ (q_decrypt_failed q = false -> forall alg, q_cookie q = Some alg ->
        1 <= len (q_auths q) /\
        sumZ (map (fun a => snd (fst a)) (q_auths q)) = fields_wire (q_enc q) + 16 * len (q_auths q)).
Proof.
  intros WF V. unfold wf_request in WF. cbv zeta in WF. split_andb WF.
  assert ((q_version q =? 5) = true) as E5 by lia. rewrite E5 in *.
  split_andb W1.
  repeat split; auto; try lia.
  - intros HD. rewrite HD in *. cbn [orb] in W12. exact W12.
  - rewrite H in W0. rewrite H0 in W0. split_andb W0.
    destruct (q_auths q); [discriminate|]. rewrite len_cons. pose proof (len_nonneg l). lia.
  - rewrite H in W0. rewrite H0 in W0. split_andb W0. lia.
Qed.

Lemma fits_v5 tf cfg st q recv now k alg stats :
  wf_request q = true -> wf_env st recv now -> (c_intended cfg = 1 \/ c_intended cfg = 3) ->
  q_version q = 5 ->
  decision cfg q = inl (Some (k, alg, stats)) -> known_class_C17 q k = false ->
  exists w, handle tf cfg st q recv now (request_len q) (request_len q) = ORespond stats w.
Proof.
  intros WF WE HI V5 HD HC.
  pose proof (decision_cases _ _ _ _ _ HI HD) as DC.
  destruct (wf_v5_facts q WF V5) as [FU [FA [FE [FX [MAC [XM [RL [HDR HNTS]]]]]]]].
  assert (E3: (q_version q =? 3) = false) by lia. assert (E4: (q_version q =? 4) = false) by lia.
  assert (E5: (q_version q =? 5) = true) by lia.
  assert (HV3: q_version q = 3 \/ q_version q = 4 \/ q_version q = 5) by lia.
  destruct (fields_wire_ok _ _ FU) as [U0 U4]. destruct (fields_wire_ok _ _ FA) as [A0 A4].
  destruct (fields_wire_ok _ _ FE) as [N0 N4]. destruct (auths_ok _ FX) as [X0 X4].
  assert (RL4: request_len q mod 4 = 0) by (unfold request_len; consts; lia).
  unfold known_class_C17 in HC. rewrite E5 in HC.
  destruct (is_nts_kind k) eqn:HK.
  - (* NTS answers *)
    assert (q_decrypt_failed q = false /\ q_cookie q = Some alg) as [HDF HCK] by (destruct k; try discriminate; tauto).
    apply orb_false_elim in HC. destruct HC as [HC1 HC2].
    destruct (HNTS HDF alg HCK) as [NL SC]. pose proof (auths_sum _ FX HC2) as AS.
    specialize (HDR HDF). rewrite has_draft_app in HDR.
    set (fresh := cookie_len alg) in *.
    assert (FR: (fresh = 104 \/ fresh = 168)) by apply cookie_len_cases.
    assert (exists hdr flt e d, build tf k alg st q recv now (request_len q)
              = Ok (mk_answer 5 hdr [] (echo_v5 flt (q_auth q) ++ [draft_field]) e true d)
              /\ len e <= len (filter (big_slot fresh) (q_auth q ++ q_enc q))
              /\ Forall (fun f => f = FCookie fresh) e
              /\ (d = None \/ d = Some (request_len q))) as [hdr [flt [e [d [HB [EL [EF HDS]]]]]]].
    { unfold build. rewrite E3, E4. destruct k; try discriminate; cbv zeta.
      - destruct (fresh_cookies_bounds tf alg q) as [_ [B2 B3]]. exists (hdr5_time st q recv now), (s_filter st). eauto 8.
      - rewrite <- (echo_v5_nil_filter _ FA). do 4 eexists. split; [reflexivity|].
        split; [change (len (@nil field)) with 0; apply len_nonneg|]. split; [constructor|auto].
      - rewrite <- (echo_v5_nil_filter _ FA). do 4 eexists. split; [reflexivity|].
        split; [change (len (@nil field)) with 0; apply len_nonneg|]. split; [constructor|auto]. }
    pose proof (header_len _ _ _ _ _ _ _ _ _ HV3 WE XM HB) as HL. cbn [a_header mk_answer] in HL.
    assert (ENC: Forall encodable (echo_v5 flt (q_auth q) ++ [draft_field])).
    { apply Forall_app. split; [apply echo_v5_encodable; auto|]. constructor; [apply encodable_draft|constructor]. }
    assert (ENE: Forall encodable e).
    { eapply Forall_impl; [|exact EF]. intros f Hf. cbv beta in Hf. subst f. unfold encodable. lia. }
    pose proof (v5_cost fresh min_auth MIN_AUTHENTICATED flt (q_auth q) ltac:(lia) ltac:(reflexivity) FA HC1) as VC.
    assert ((fresh + 4) * len e <= slot_wire fresh (q_auth q ++ q_enc q)) as SL by (rewrite <- slot_wire_filter; nia).
    rewrite slot_wire_app in SL.
    pose proof (slot_le true fresh (q_enc q) ltac:(lia) FE) as SE.
    assert (DR: 28 <= draft_bonus (q_auth q) + fields_wire (q_untrusted q)).
    { unfold draft_bonus. destruct (has_draft (q_auth q)); [lia|]. rewrite orb_false_r in HDR.
      pose proof (draft_le _ FU HDR). lia. }
    assert (RAW: raw_size (mk_answer 5 hdr [] (echo_v5 flt (q_auth q) ++ [draft_field]) e true d)
                 = 48 + esz_list min_auth (echo_v5 flt (q_auth q)) + 28 + 40 + (fresh + 4) * len e).
    { unfold raw_size, auth_present. cbn [a_ver a_untrusted a_auth a_enc a_cipher a_header a_desired mk_answer].
      assert (is_nil (echo_v5 flt (q_auth q) ++ [draft_field]) = false) as -> by (destruct (echo_v5 flt (q_auth q)); reflexivity).
      cbn [negb orb esz_list]. rewrite HL.
      rewrite (esz_list_app_const min_auth MIN_AUTHENTICATED) by reflexivity.
      cbn [esz_list]. unfold min_auth at 2. rewrite (esz_draft MIN_AUTHENTICATED) by (consts; lia).
      rewrite (esz_all_cookies fresh e) by (auto; lia).
      rewrite (next4_id ((fresh + 4) * len e + 16)) by lia. consts. change (next4 16) with 16. lia. }
    pose proof (esz_list_nonneg min_auth _ (echo_v5_encodable flt _ FA)) as EN0.
    pose proof (esz_list_mod4 min_auth _ (Forall_encodable_np _ (echo_v5_encodable flt _ FA))) as EN4.
    pose proof (len_nonneg e) as LE0.
    destruct (serialize_ok (mk_answer 5 hdr [] (echo_v5 flt (q_auth q) ++ [draft_field]) e true d) (request_len q)) as [w HW];
      try rewrite RAW; cbn [a_ver a_untrusted a_auth a_enc a_cipher a_header a_desired mk_answer].
    + lia.
    + constructor.
    + exact ENC.
    + exact ENE.
    + reflexivity.
    + unfold request_len. consts. nia.
    + intros _ d0 Hd0. destruct HDS as [->| ->]; [discriminate|]. inversion Hd0; subst d0.
      repeat split; auto; try nia.
    + exists w. eapply handle_of_build; eauto.
  - (* plain answers *)
    assert (HDRAFT: has_draft (q_untrusted q ++ q_auth q) = true).
    { destruct (q_decrypt_failed q) eqn:HDF; [|auto].
      cbn [andb] in HC. apply orb_false_elim in HC. destruct HC as [_ HC]. destruct (has_draft _); [reflexivity|discriminate]. }
    apply orb_false_elim in HC. destruct HC as [HC1 _].
    assert (FO: forallb (field_ok true) (q_untrusted q ++ q_auth q) = true) by (rewrite forallb_app, FU, FA; reflexivity).
    assert (exists hdr flt d, build tf k alg st q recv now (request_len q)
              = Ok (mk_answer 5 hdr (echo_v5 flt (q_untrusted q ++ q_auth q) ++ [draft_field]) [] [] false d)
              /\ (d = None \/ d = Some (request_len q))) as [hdr [flt [d [HB HDS]]]].
    { unfold build. rewrite E3, E4. destruct k; try discriminate; try contradiction; cbv zeta.
      - exists (hdr5_time st q recv now), (s_filter st). eauto.
      - rewrite <- (echo_v5_nil_filter _ FO). eauto 6.
      - rewrite <- (echo_v5_nil_filter _ FO). eauto 6. }
    pose proof (header_len _ _ _ _ _ _ _ _ _ HV3 WE XM HB) as HL. cbn [a_header mk_answer] in HL.
    pose proof (v5_cost 0 (min_untrusted true) MIN_UNTRUSTED_V5 flt (q_untrusted q ++ q_auth q) ltac:(lia) ltac:(reflexivity) FO HC1) as VC.
    pose proof (slot_wire_nonneg 0 (q_untrusted q ++ q_auth q) ltac:(lia)) as SN.
    unfold draft_bonus in VC. rewrite HDRAFT in VC. rewrite fields_wire_app in VC.
    assert (RAW: raw_size (mk_answer 5 hdr (echo_v5 flt (q_untrusted q ++ q_auth q) ++ [draft_field]) [] [] false d)
                 = 48 + esz_list (min_untrusted true) (echo_v5 flt (q_untrusted q ++ q_auth q)) + 28).
    { unfold raw_size, auth_present. cbn [a_ver a_untrusted a_auth a_enc a_cipher a_header a_desired mk_answer is_nil negb orb].
      change (5 =? 5) with true. rewrite HL.
      rewrite (esz_list_app_const (min_untrusted true) MIN_UNTRUSTED_V5) by reflexivity.
      cbn [esz_list]. change (min_untrusted true (is_nil [])) with MIN_UNTRUSTED_V5.
      rewrite (esz_draft MIN_UNTRUSTED_V5) by (consts; lia). lia. }
    pose proof (esz_list_nonneg (min_untrusted true) _ (echo_v5_encodable flt _ FO)) as EN0.
    pose proof (esz_list_mod4 (min_untrusted true) _ (Forall_encodable_np _ (echo_v5_encodable flt _ FO))) as EN4.
    destruct (serialize_ok (mk_answer 5 hdr (echo_v5 flt (q_untrusted q ++ q_auth q) ++ [draft_field]) [] [] false d) (request_len q)) as [w HW];
      try rewrite RAW; cbn [a_ver a_untrusted a_auth a_enc a_cipher a_header a_desired mk_answer].
    + lia.
    + apply Forall_app. split; [apply echo_v5_encodable; auto|]. constructor; [apply encodable_draft|constructor].
    + constructor.
    + constructor.
    + unfold auth_present. cbn. discriminate.
    + unfold request_len. consts. lia.
    + intros _ d0 Hd0. destruct HDS as [->| ->]; [discriminate|]. inversion Hd0; subst d0.
      repeat split; auto; try lia.
    + exists w. eapply handle_of_build; eauto.
Qed.

(* all versions *)
Theorem fits_all tf cfg st q recv now k alg stats :
  wf_request q = true -> wf_env st recv now -> (c_intended cfg = 1 \/ c_intended cfg = 3) ->
  decision cfg q = inl (Some (k, alg, stats)) -> known_class_C17 q k = false ->
  exists w, handle tf cfg st q recv now (request_len q) (request_len q) = ORespond stats w.
Proof.
  intros WF WE HI HD HC. destruct (Z.eq_dec (q_version q) 5) as [V5|V5].
  - eapply fits_v5; eauto.
  - eapply fits_v34; eauto.
Qed.
