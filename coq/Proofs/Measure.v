(* Lemmas about Model/Measure.v (C05). *)
From V Require Import Model.TimeTypes Model.Measure Proofs.TimeTypes.
From Coq Require Import ZifyBool.
Local Open Scope Z_scope.

(* the values the wrapper computes from the four on-wire timestamps *)
Definition wire_delay (T1 T2 T3 T4 : Z) : Z := dsub (tsub T4 T1) (tsub T3 T2).
Definition wire_offset (T1 T2 T3 T4 : Z) : Z := ddiv2 (dadd (tsub T2 T1) (tsub T3 T4)).

Lemma dadd_tsub_in_i64 : forall a b c d, in_i64 (dadd (tsub a b) (tsub c d)).
Proof. intros. apply dadd_range. Qed.

(* one exchange, from any prior wrapper state: exactly one measurement is
   delivered, computed from this exchange's four timestamps only, and the
   stored outgoing measurement is consumed *)
Lemma twoway_exchange_step : forall s id T1 T2 T3 T4 rest,
  id <> clock_system ->
  twoway_run s (exchange_meas id T1 T2 T3 T4 ++ rest) =
  do outs <- twoway_run None rest;
  Ok (mkIMeas (Some (wire_delay T1 T2 T3 T4)) (wire_offset T1 T2 T3 T4) T4 :: outs).
Proof.
  intros s id T1 T2 T3 T4 rest Hid.
  unfold exchange_meas, measurements_from_packet.
  cbn [app twoway_run]. unfold twoway_handle at 1. cbn [m_sender_id].
  rewrite Z.eqb_refl. cbn [res_bind].
  unfold twoway_handle at 1. cbn [m_sender_id m_sender_ts m_receiver_ts].
  destruct (Z.eqb_spec id clock_system) as [E|_]; [contradiction|].
  rewrite ddiv_2 by apply dadd_range. cbn [res_bind].
  unfold wire_delay, wire_offset.
  destruct (twoway_run None rest); reflexivity.
Qed.

Lemma twoway_exchange : forall s id T1 T2 T3 T4,
  id <> clock_system ->
  twoway_run s (exchange_meas id T1 T2 T3 T4) =
  Ok [mkIMeas (Some (wire_delay T1 T2 T3 T4)) (wire_offset T1 T2 T3 T4) T4].
Proof.
  intros. rewrite <- (app_nil_r (exchange_meas id T1 T2 T3 T4)).
  rewrite twoway_exchange_step by assumption. reflexivity.
Qed.

(* a whole history of exchanges of one source *)
Record exchange : Type := mkEx { ex_t1 : Z; ex_t2 : Z; ex_t3 : Z; ex_t4 : Z }.

Definition exchange_result (e : exchange) : imeas :=
  mkIMeas (Some (wire_delay (ex_t1 e) (ex_t2 e) (ex_t3 e) (ex_t4 e)))
          (wire_offset (ex_t1 e) (ex_t2 e) (ex_t3 e) (ex_t4 e)) (ex_t4 e).

Lemma twoway_history : forall id exs s,
  id <> clock_system ->
  twoway_run s (flat_map (fun e => exchange_meas id (ex_t1 e) (ex_t2 e) (ex_t3 e) (ex_t4 e)) exs)
  = Ok (map exchange_result exs).
Proof.
  intros id exs. induction exs as [|e exs IH]; intros s Hid.
  - reflexivity.
  - cbn [flat_map map]. rewrite twoway_exchange_step by assumption.
    rewrite IH by assumption. reflexivity.
Qed.

(* the wrapper never panics, whatever the measurement sequence *)
Lemma twoway_handle_no_panic : forall s m, exists r, twoway_handle s m = Ok r.
Proof.
  intros s m. unfold twoway_handle.
  destruct (m_sender_id m =? clock_system); [eauto|].
  destruct s as [lo|]; [|eauto].
  rewrite ddiv_2 by apply dadd_range. cbn [res_bind]. eauto.
Qed.

Lemma twoway_run_no_panic : forall ms s, exists r, twoway_run s ms = Ok r.
Proof.
  induction ms as [|m ms IH]; intros s; [cbn; eauto|].
  cbn [twoway_run]. destruct (twoway_handle_no_panic s m) as [[s' o] ->].
  cbn [res_bind]. destruct (IH s') as [r ->]. cbn [res_bind]. eauto.
Qed.

(* an incoming measurement without a stored outgoing one delivers nothing;
   an outgoing measurement only replaces the stored one *)
Lemma twoway_incoming_without_outgoing : forall m,
  m_sender_id m <> clock_system -> twoway_handle None m = Ok (None, None).
Proof.
  intros m H. unfold twoway_handle. destruct (Z.eqb_spec (m_sender_id m) clock_system); [contradiction|reflexivity].
Qed.

Lemma twoway_outgoing : forall s m,
  m_sender_id m = clock_system -> twoway_handle s m = Ok (Some m, None).
Proof. intros s m H. unfold twoway_handle. rewrite H, Z.eqb_refl. reflexivity. Qed.

(* ------------------------------------------------------------------ *)
(* the on-wire formulas, for true (unbounded) instants t1..t4 observed
   modulo 2^64                                                          *)

Notation T x := (x mod 2 ^ 64) (only parsing).

Lemma wire_offset_exact : forall t1 t2 t3 t4,
  in_i64 (t2 - t1) -> in_i64 (t3 - t4) -> in_i64 ((t2 - t1) + (t3 - t4)) ->
  wire_offset (T t1) (T t2) (T t3) (T t4) = Z.quot ((t2 - t1) + (t3 - t4)) 2.
Proof.
  intros t1 t2 t3 t4 H21 H34 Hs. unfold wire_offset, ddiv2.
  rewrite !tsub_era by assumption.
  destruct (dadd_saturates (t2 - t1) (t3 - t4)) as [He _]. rewrite He by assumption. reflexivity.
Qed.

Lemma wire_delay_exact : forall t1 t2 t3 t4,
  in_i64 (t4 - t1) -> in_i64 (t3 - t2) -> in_i64 ((t4 - t1) - (t3 - t2)) ->
  wire_delay (T t1) (T t2) (T t3) (T t4) = (t4 - t1) - (t3 - t2).
Proof.
  intros t1 t2 t3 t4 H41 H32 Hs. unfold wire_delay.
  rewrite !tsub_era by assumption.
  destruct (dsub_saturates (t4 - t1) (t3 - t2)) as [He _]. rewrite He by assumption. reflexivity.
Qed.

(* when the individual differences are representable but their combination
   is not, the combination saturates with the sign of the true value *)
Lemma wire_offset_saturated : forall t1 t2 t3 t4,
  in_i64 (t2 - t1) -> in_i64 (t3 - t4) ->
  ((t2 - t1) + (t3 - t4) >= 2 ^ 63 ->
     wire_offset (T t1) (T t2) (T t3) (T t4) = Z.quot (2 ^ 63 - 1) 2) /\
  ((t2 - t1) + (t3 - t4) < - 2 ^ 63 ->
     wire_offset (T t1) (T t2) (T t3) (T t4) = Z.quot (- 2 ^ 63) 2).
Proof.
  intros t1 t2 t3 t4 H21 H34. unfold wire_offset, ddiv2.
  rewrite !tsub_era by assumption.
  destruct (dadd_saturates (t2 - t1) (t3 - t4)) as [_ [Hhi Hlo]].
  split; intro H; [rewrite Hhi by assumption|rewrite Hlo by assumption]; reflexivity.
Qed.

Lemma wire_delay_saturated : forall t1 t2 t3 t4,
  in_i64 (t4 - t1) -> in_i64 (t3 - t2) ->
  ((t4 - t1) - (t3 - t2) >= 2 ^ 63 ->
     wire_delay (T t1) (T t2) (T t3) (T t4) = 2 ^ 63 - 1) /\
  ((t4 - t1) - (t3 - t2) < - 2 ^ 63 ->
     wire_delay (T t1) (T t2) (T t3) (T t4) = - 2 ^ 63).
Proof.
  intros t1 t2 t3 t4 H41 H32. unfold wire_delay.
  rewrite !tsub_era by assumption.
  destruct (dsub_saturates (t4 - t1) (t3 - t2)) as [_ [Hhi Hlo]].
  split; intro H; [rewrite Hhi by assumption|rewrite Hlo by assumption]; reflexivity.
Qed.

Lemma wire_saturation : forall t1 t2 t3 t4,
  (in_i64 (t2 - t1) -> in_i64 (t3 - t4) ->
     ((t2 - t1) + (t3 - t4) >= 2 ^ 63 ->
        wire_offset (T t1) (T t2) (T t3) (T t4) = Z.quot (2 ^ 63 - 1) 2) /\
     ((t2 - t1) + (t3 - t4) < - 2 ^ 63 ->
        wire_offset (T t1) (T t2) (T t3) (T t4) = Z.quot (- 2 ^ 63) 2)) /\
  (in_i64 (t4 - t1) -> in_i64 (t3 - t2) ->
     ((t4 - t1) - (t3 - t2) >= 2 ^ 63 ->
        wire_delay (T t1) (T t2) (T t3) (T t4) = 2 ^ 63 - 1) /\
     ((t4 - t1) - (t3 - t2) < - 2 ^ 63 ->
        wire_delay (T t1) (T t2) (T t3) (T t4) = - 2 ^ 63)).
Proof.
  intros. split; intros; [apply wire_offset_saturated|apply wire_delay_saturated]; assumption.
Qed.

(* the halving truncates toward zero: the doubled offset differs from the
   sum by at most one unit, never exceeds it in magnitude, and an exact half is exact *)
Lemma quot2_spec : forall s,
  Z.abs (s - 2 * Z.quot s 2) <= 1 /\ Z.abs (2 * Z.quot s 2) <= Z.abs s /\
  (Z.even s = true -> 2 * Z.quot s 2 = s).
Proof.
  intro s. pose proof (Z.quot_rem s 2 ltac:(lia)) as Hq.
  pose proof (Z.rem_bound_abs s 2 ltac:(lia)).
  assert (Hsgn : 0 <= Z.rem s 2 * s) by (apply Z.rem_sign_mul; lia).
  repeat split; try nia.
  intro He. apply Z.even_spec in He. destruct He as [k ->].
  replace (2 * k) with (k * 2) by lia. rewrite Z.quot_mul by lia. lia.
Qed.

(* end to end: the measurement handed to the inner controller by one
   accepted response *)
Lemma exchange_delivers_formulas : forall s id t1 t2 t3 t4,
  id <> clock_system ->
  in_i64 (t2 - t1) -> in_i64 (t3 - t4) -> in_i64 ((t2 - t1) + (t3 - t4)) ->
  in_i64 (t4 - t1) -> in_i64 (t3 - t2) -> in_i64 ((t4 - t1) - (t3 - t2)) ->
  twoway_run s (exchange_meas id (T t1) (T t2) (T t3) (T t4)) =
  Ok [mkIMeas (Some ((t4 - t1) - (t3 - t2))) (Z.quot ((t2 - t1) + (t3 - t4)) 2) (T t4)].
Proof.
  intros. rewrite twoway_exchange by assumption.
  rewrite wire_offset_exact, wire_delay_exact by assumption. reflexivity.
Qed.

(* one-way sources: offset = remote (sender) time minus local (receiver) time *)
Lemma oneway_offset : forall ts tr id,
  in_i64 (ts - tr) ->
  oneway_handle (mkMeas id (T ts) (T tr)) = mkIMeas None (ts - tr) (T tr).
Proof.
  intros. unfold oneway_handle. cbn [m_sender_ts m_receiver_ts].
  rewrite tsub_era by assumption. reflexivity.
Qed.

(* without the representability hypothesis: still the shortest signed difference *)
Lemma oneway_offset_shortest : forall S R id,
  im_offset (oneway_handle (mkMeas id S R)) = tsub S R.
Proof. reflexivity. Qed.
