(* C41, parse then serialise: the whole message. *)
From V Require Import Model.PtpWire Proofs.WireBytes Proofs.TlvSet Proofs.PtpWireHeader
     Proofs.PtpWireDeSer1 Proofs.PtpWireDeSer2 Proofs.PtpWireDeSer3 Proofs.PtpWireSerDe.
From Coq Require Import ZifyBool.

Lemma de_body_len : forall ty c b, de_body ty c = Ok b -> (type_size ty <= length c)%nat.
Proof.
  intros ty c b H. unfold de_body in H. destruct (length c <? type_size ty)%nat eqn:E; [discriminate|].
  apply Nat.ltb_ge in E. exact E.
Qed.

Lemma bytes_ok_app : forall a b, bytes_ok (a ++ b) -> bytes_ok a /\ bytes_ok b.
Proof. intros a b H. apply Forall_app in H. exact H. Qed.

Definition de_ser_stmt (buf : bytes) (m : message) (n : nat) : Prop :=
  msg_serialize m (repeat 0 n) = Ok (normalise (firstn (message_length buf) buf))
  /\ header_ok (m_header m) /\ body_ok (m_body m) /\ tlv_valid (m_suffix m).

Lemma de_ser_split :
  forall b0 b1 b2 b3 b4 b5 b6 b7 b8 b9 b10 b11 b12 b13 b14 b15 b16 b17 b18 b19 b20 b21 b22 b23 b24 b25 b26 b27 b28 b29
         b30 b31 b32 b33 rest m n,
  let l34 := [b0; b1; b2; b3; b4; b5; b6; b7; b8; b9; b10; b11; b12; b13; b14; b15; b16; b17; b18; b19; b20; b21; b22; b23;
              b24; b25; b26; b27; b28; b29; b30; b31; b32; b33] in
  bytes_ok (l34 ++ rest) ->
  msg_deserialize (l34 ++ rest) = Ok m ->
  (message_length (l34 ++ rest) <= n)%nat ->
  de_ser_stmt (l34 ++ rest) m n.
Proof.
  intros b0 b1 b2 b3 b4 b5 b6 b7 b8 b9 b10 b11 b12 b13 b14 b15 b16 b17 b18 b19 b20 b21 b22 b23 b24 b25 b26 b27 b28 b29
         b30 b31 b32 b33 rest m n l34 Hb H Hn.
  destruct (bytes_ok_app _ _ Hb) as [Hb34 Hbrest].
  assert (length l34 = 34%nat) as L34 by reflexivity.
  assert (message_length (l34 ++ rest) = Z.to_nat (unbe [b2; b3])) as Eml by reflexivity.
  rewrite Eml in Hn. unfold de_ser_stmt. rewrite Eml.
  unfold msg_deserialize in H.
  destruct (length (l34 ++ rest) <? 34)%nat eqn:E1; [discriminate|].
  destruct (de_header (l34 ++ rest)) as [[h ty] mlen] eqn:Eh.
  destruct (header_back _ _ _ _ _ _ _ _ _ _ _ _ _ _ _ _ _ _ _ _ _ _ _ _ _ _ _ _ _ _ _ _ _ _ _ _ _ _ Hb34 Eh)
    as (HS & Hok & Hver & Ety & Emlen).
  destruct (msgtype_ok ty) eqn:Et; cbn [negb] in H; [|discriminate].
  pose proof (msgtype_in _ Et) as Hin.
  destruct (mlen <? 34) eqn:E2; [discriminate|]. apply Z.ltb_ge in E2.
  destruct (length (l34 ++ rest) <? Z.to_nat mlen)%nat eqn:E3; [discriminate|]. apply Nat.ltb_ge in E3.
  rewrite app_length, L34 in E3.
  assert (slice 34 (Z.to_nat mlen) (l34 ++ rest) = firstn (Z.to_nat mlen - 34) rest) as Ec by reflexivity.
  rewrite Ec in H. set (content := firstn (Z.to_nat mlen - 34) rest) in *.
  assert (length content = (Z.to_nat mlen - 34)%nat) as Lc by (unfold content; rewrite firstn_length; lia).
  assert (bytes_ok content) as Hbc by (unfold content; apply Forall_firstn_; exact Hbrest).
  destruct (de_body ty content) as [b| |] eqn:Eb; cbn [res_bind] in H; try discriminate.
  pose proof (de_body_len _ _ _ Eb) as Lb.
  destruct (tlvset_de (skipn (body_size b) content)) as [sf| |] eqn:Es; cbn [res_bind] in H; try discriminate.
  apply Ok_inj_ in H. subst m. cbn [m_header m_body m_suffix].
  apply tlvset_de_ok in Es. destruct Es as [-> Hvalid].
  set (d := firstn (type_size ty) content). set (sfx := skipn (type_size ty) content).
  assert (content = d ++ sfx) as Ecs by (symmetry; apply firstn_skipn).
  assert (length d = type_size ty) as Ld by (unfold d; rewrite firstn_length; lia).
  assert (bytes_ok d) as Hbd by (unfold d; apply Forall_firstn_; exact Hbc).
  assert (forall i, byte i (slice 34 (34 + type_size ty) (repeat 0 n)) = 0) as Hold by (intros; apply zeros_byte).
  rewrite Ecs in Eb.
  destruct (body_back ty d sfx b _ Hin Hold Hbd Ld Eb) as (SB & Benc & Bty & Bok).
  assert (body_size b = type_size ty) as Ebs by (unfold body_size; rewrite Bty; reflexivity).
  rewrite Ebs in *. fold sfx in Hvalid. fold sfx.
  assert (length sfx = (Z.to_nat mlen - 34 - type_size ty)%nat) as Ls by (unfold sfx; rewrite skipn_length; lia).
  assert (0 <= mlen < 65536) as Rm.
  { rewrite Emlen. assert (bytes_ok [b2; b3]) as K by (pose proof Hb34 as Hq; unfold l34 in Hq; split_bytes Hq; bytes_solve).
    pose proof (unbe_range _ K) as R. cbn [length] in R. change (256 ^ Z.of_nat 2) with 65536 in R. exact R. }
  rewrite <- Emlen in *.
  split; [|split; [exact Hok|split; [exact Bok|exact Hvalid]]].
  (* serialise *)
  unfold msg_serialize. cbv zeta. cbn [m_header m_body m_suffix]. rewrite repeat_length, Ebs, Bty.
  replace (n <? 34)%nat with false by (symmetry; apply Nat.ltb_ge; lia).
  replace (n - 34 <? type_size ty)%nat with false by (symmetry; apply Nat.ltb_ge; lia).
  assert (Z.of_nat (34 + type_size ty + length sfx) = mlen) as Etot by lia.
  rewrite Etot.
  replace (65535 <? mlen) with false by lia.
  rewrite Hver, Benc. cbn [negb].
  replace (n - 34 - type_size ty <? length sfx)%nat with false by (symmetry; apply Nat.ltb_ge; lia).
  f_equal. rewrite HS, SB.
  (* the mask *)
  assert (firstn (Z.to_nat mlen) (l34 ++ rest) = l34 ++ d ++ sfx) as Ef.
  { rewrite firstn_app, L34. rewrite (firstn_all2 l34) by (rewrite L34; lia). fold content. rewrite Ecs. reflexivity. }
  rewrite Ef. unfold normalise.
  assert (Z.land (byte 0 (l34 ++ d ++ sfx)) 15 = ty) as Ety' by (rewrite Ety; reflexivity).
  rewrite Ety'. rewrite mapi_from_app, L34. unfold l34. rewrite (norm_header ty) by exact Hin.
  rewrite mapi_from_app. cbn [plus]. f_equal. f_equal.
  symmetry. apply mapi_from_id. intros j x Hj. apply norm_tail; [exact Hin|lia].
Qed.

Lemma explicit34 : forall (l : bytes), length l = 34%nat ->
  exists b0 b1 b2 b3 b4 b5 b6 b7 b8 b9 b10 b11 b12 b13 b14 b15 b16 b17 b18 b19 b20 b21 b22 b23 b24 b25 b26 b27 b28 b29
         b30 b31 b32 b33,
    l = [b0; b1; b2; b3; b4; b5; b6; b7; b8; b9; b10; b11; b12; b13; b14; b15; b16; b17; b18; b19; b20; b21; b22; b23;
         b24; b25; b26; b27; b28; b29; b30; b31; b32; b33].
Proof.
  intros l H. do 34 (destruct l as [|? l]; [discriminate|]). destruct l; [|discriminate]. do 34 eexists. reflexivity.
Qed.

(* C41_de_ser *)
Theorem de_ser : forall buf m n,
  bytes_ok buf -> msg_deserialize buf = Ok m -> (message_length buf <= n)%nat -> de_ser_stmt buf m n.
Proof.
  intros buf m n Hb H Hn.
  assert (34 <= length buf)%nat as L.
  { unfold msg_deserialize in H. destruct (length buf <? 34)%nat eqn:E; [discriminate|]. apply Nat.ltb_ge in E. exact E. }
  assert (length (firstn 34 buf) = 34%nat) as L34 by (rewrite firstn_length; lia).
  destruct (explicit34 _ L34) as (b0 & b1 & b2 & b3 & b4 & b5 & b6 & b7 & b8 & b9 & b10 & b11 & b12 & b13 & b14 & b15 & b16
    & b17 & b18 & b19 & b20 & b21 & b22 & b23 & b24 & b25 & b26 & b27 & b28 & b29 & b30 & b31 & b32 & b33 & E).
  pose proof (firstn_skipn 34 buf) as Eb. rewrite E in Eb.
  remember (skipn 34 buf) as rest eqn:Er. clear Er E L34 L. subst buf.
  eapply de_ser_split; eauto.
Qed.

(* the mask is the identity on inputs whose reserved positions are zero and whose enumeration
   bytes are canonical: then re-serialisation gives the parsed prefix literally *)
Definition reserved_clear (b : bytes) : Prop := normalise b = b.

(* parse, serialise, parse again *)
Theorem de_ser_de : forall buf m n,
  bytes_ok buf -> msg_deserialize buf = Ok m -> (message_length buf <= n)%nat ->
  exists out, msg_serialize m (repeat 0 n) = Ok out /\ msg_deserialize out = Ok m.
Proof.
  intros buf m n Hb H Hn. destruct (de_ser buf m n Hb H Hn) as (S & Hh & Hbo & Hv).
  eexists. split; [exact S|]. destruct m as [h b sf]. cbn [m_header m_body m_suffix] in *.
  rewrite <- (app_nil_r (normalise _)). eapply ser_de_valid; eauto.
Qed.
