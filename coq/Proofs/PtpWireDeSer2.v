(* C41, parse then serialise: the header. *)
From V Require Import Model.PtpWire Proofs.WireBytes Proofs.PtpWireHeader Proofs.PtpWireDeSer1.
From Coq Require Import ZifyBool.

Ltac bytes_solve := repeat (apply Forall_cons; [unfold is_byte in *; lia|]); apply Forall_nil.

Lemma header_back :
  forall b0 b1 b2 b3 b4 b5 b6 b7 b8 b9 b10 b11 b12 b13 b14 b15 b16 b17 b18 b19 b20 b21 b22 b23 b24 b25 b26 b27 b28 b29
         b30 b31 b32 b33 rest h ty mlen,
  bytes_ok [b0; b1; b2; b3; b4; b5; b6; b7; b8; b9; b10; b11; b12; b13; b14; b15; b16; b17; b18; b19; b20; b21; b22; b23;
            b24; b25; b26; b27; b28; b29; b30; b31; b32; b33] ->
  de_header ([b0; b1; b2; b3; b4; b5; b6; b7; b8; b9; b10; b11; b12; b13; b14; b15; b16; b17; b18; b19; b20; b21; b22; b23;
              b24; b25; b26; b27; b28; b29; b30; b31; b32; b33] ++ rest) = (h, ty, mlen) ->
  ser_header h ty mlen =
    [b0; b1; b2; b3; b4; b5; Z.land b6 103; Z.land b7 127; b8; b9; b10; b11; b12; b13; b14; b15; 0; 0; 0; 0;
     b20; b21; b22; b23; b24; b25; b26; b27; b28; b29; b30; b31; 0; b33]
  /\ header_ok h /\ version_encodable h = true /\ ty = Z.land b0 15 /\ mlen = unbe [b2; b3].
Proof.
  intros b0 b1 b2 b3 b4 b5 b6 b7 b8 b9 b10 b11 b12 b13 b14 b15 b16 b17 b18 b19 b20 b21 b22 b23 b24 b25 b26 b27 b28 b29
         b30 b31 b32 b33 rest h ty mlen Hb H.
  unfold bytes_ok in Hb.
  repeat match goal with H : Forall _ (_ :: _) |- _ => let A := fresh "Y" in let B := fresh "F" in inversion H as [|? ? A B]; clear H; subst end.
  unfold is_byte in *.
  unfold de_header, pid_de in H. unfold slice, byte in H.
  cbn [app nth firstn skipn Nat.sub] in H.
  injection H as <- <- <-.
  destruct (byte0_back b0 b5 ltac:(assumption) ltac:(assumption)) as (Z0 & Z5 & Zs). cbv zeta in Z0, Z5, Zs.
  destruct (version_byte_back b1 ltac:(assumption)) as (V & Vmaj & Vmin).
  pose proof (flags6_back b6 ltac:(assumption)) as F6.
  pose proof (flags7_back b7 ltac:(assumption)) as F7.
  assert (bytes_ok [b8; b9; b10; b11; b12; b13; b14; b15]) as K8 by bytes_solve.
  assert (bytes_ok [b2; b3]) as K2 by bytes_solve.
  assert (bytes_ok [b28; b29]) as K28 by bytes_solve.
  assert (bytes_ok [b30; b31]) as K30 by bytes_solve.
  assert (bytes_ok [b33]) as K33 by bytes_solve.
  split; [|split; [|split; [|split; reflexivity]]].
  - unfold ser_header, flags6, flags7, pid_ser.
    cbn [h_sdo h_vmajor h_vminor h_domain h_alt_master h_two_step h_unicast h_prof1 h_prof2
         h_leap61 h_leap59 h_utc_valid h_ptp_timescale h_time_traceable h_freq_traceable h_sync_uncertain
         h_correction h_source h_seq h_log_interval pid_clock pid_port].
    rewrite Z0, Z5, V, F6, F7.
    pose proof (be_unbe [b2; b3] K2) as U2. cbn [length] in U2. rewrite U2.
    pose proof (be_unbe [b28; b29] K28) as U28. cbn [length] in U28. rewrite U28.
    pose proof (be_unbe [b30; b31] K30) as U30. cbn [length] in U30. rewrite U30.
    pose proof (be_signed [b8; b9; b10; b11; b12; b13; b14; b15] K8 ltac:(cbn; lia)) as U8. cbn [length] in U8.
    change (8 * Z.of_nat 8) with 64 in U8. rewrite U8.
    pose proof (wrap_to_signed 8 b33 ltac:(lia) ltac:(lia)) as U33. change (2 ^ 8) with 256 in U33. rewrite U33.
    reflexivity.
  - unfold header_ok, pid_ok, is_byte.
    cbn [h_sdo h_vmajor h_vminor h_domain h_correction h_source h_seq h_log_interval pid_clock pid_port length].
    pose proof (to_signed_range 64 (unbe [b8; b9; b10; b11; b12; b13; b14; b15]) ltac:(lia)) as R64.
    pose proof (to_signed_range 8 b33 ltac:(lia)) as R8.
    pose proof (unbe_range _ K28) as R28. pose proof (unbe_range _ K30) as R30. cbn [length] in R28, R30.
    change (256 ^ Z.of_nat 2) with 65536 in *. change (2 ^ (64 - 1)) with (2 ^ 63) in R64. change (2 ^ (8 - 1)) with 128 in R8.
    repeat split; try lia; try reflexivity. bytes_solve.
  - unfold version_encodable. cbn [h_vmajor h_vminor]. lia.
Qed.

(* the header positions of the mask do not depend on the message type *)
Lemma norm_header :
  forall ty b0 b1 b2 b3 b4 b5 b6 b7 b8 b9 b10 b11 b12 b13 b14 b15 b16 b17 b18 b19 b20 b21 b22 b23 b24 b25 b26 b27 b28 b29
         b30 b31 b32 b33,
  In ty types ->
  mapi_from (norm_byte ty) 0
    [b0; b1; b2; b3; b4; b5; b6; b7; b8; b9; b10; b11; b12; b13; b14; b15; b16; b17; b18; b19; b20; b21; b22; b23;
     b24; b25; b26; b27; b28; b29; b30; b31; b32; b33] =
    [b0; b1; b2; b3; b4; b5; Z.land b6 103; Z.land b7 127; b8; b9; b10; b11; b12; b13; b14; b15; 0; 0; 0; 0;
     b20; b21; b22; b23; b24; b25; b26; b27; b28; b29; b30; b31; 0; b33].
Proof.
  intros ty b0 b1 b2 b3 b4 b5 b6 b7 b8 b9 b10 b11 b12 b13 b14 b15 b16 b17 b18 b19 b20 b21 b22 b23 b24 b25 b26 b27 b28 b29
         b30 b31 b32 b33 Hin.
  unfold types in Hin. cbn [In] in Hin.
  repeat (destruct Hin as [<-|Hin]; [reflexivity|]). destruct Hin.
Qed.
