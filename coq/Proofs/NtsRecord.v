From V Require Import Model.NtsRecord.
Lemma placeholder_nts : True. Proof. exact I. Qed.
