(* Lemmas about the byte-level record model (Model/NtsRecord.v): totality,
   what the parser leaves unread, round trip. *)
From V Require Import Model.NtsRecord Gen.ConstNts.
From Coq Require Import ZifyBool.
Ltac Zify.zify_post_hook ::= Z.div_mod_to_equations.

(* ---- well-formed records: the invariant of everything the parser returns,
        and what the round trip needs ---- *)
Definition known_type (rt : Z) : bool :=
  (rt =? RT_END_OF_MESSAGE) || (rt =? RT_NEXT_PROTOCOL) || (rt =? RT_ERROR) || (rt =? RT_WARNING)
  || (rt =? RT_AEAD_ALGORITHM) || (rt =? RT_NEW_COOKIE) || (rt =? RT_SERVER) || (rt =? RT_PORT)
  || (rt =? RT_KEEP_ALIVE) || (rt =? RT_SUPPORTED_NEXT_PROTOCOL_LIST)
  || (rt =? RT_SUPPORTED_ALGORITHM_LIST) || (rt =? RT_FIXED_KEY_REQUEST)
  || (rt =? RT_NTP_SERVER_DENY) || (rt =? RT_AUTHENTICATION).

Definition wf_record (r : record) : Prop :=
  match r with
  | ServerR s | NtpServerDenyR s | AuthenticationR s => utf8_valid s = true
  | UnknownR ty _ _ => 0 <= ty < 32768 /\ known_type ty = false
  | FixedKeyRequestR a b => length a = length b
  | _ => True
  end.

(* ---- arithmetic and list basics ---- *)
Lemma u16_be16 v : u16 (v / 256) (v mod 256) = v.
Proof. unfold u16. lia. Qed.

Lemma zlen_app {A} (a b : list A) : zlen (a ++ b) = zlen a + zlen b.
Proof. unfold zlen. rewrite app_length. lia. Qed.

Lemma zlen_nonneg {A} (a : list A) : 0 <= zlen a.
Proof. unfold zlen. lia. Qed.

Lemma zlen_cons {A} (x : A) (a : list A) : zlen (x :: a) = 1 + zlen a.
Proof. unfold zlen. cbn [length]. lia. Qed.

Lemma to_nat_zlen {A} (a : list A) : Z.to_nat (zlen a) = length a.
Proof. unfold zlen. apply Nat2Z.id. Qed.

Lemma firstn_exact {A} (a t : list A) : firstn (length a) (a ++ t) = a.
Proof. rewrite firstn_app, Nat.sub_diag, firstn_all. cbn. apply app_nil_r. Qed.

Lemma skipn_exact {A} (a t : list A) : skipn (length a) (a ++ t) = t.
Proof. rewrite skipn_app, Nat.sub_diag, skipn_all. reflexivity. Qed.

Lemma u16s_flat ids : u16s (flat_map be16 ids) = Some ids.
Proof.
  induction ids as [|v r IH]; [reflexivity|].
  cbn [flat_map be16 app u16s]. rewrite IH, u16_be16. reflexivity.
Qed.

Lemma zlen_flat_be16 ids : zlen (flat_map be16 ids) = 2 * zlen ids.
Proof.
  induction ids as [|v r IH]; [reflexivity|].
  cbn [flat_map be16 app]. rewrite !zlen_cons, IH. lia.
Qed.

(* strong induction two elements at a time *)
Lemma list_ind2 {A} (P : list A -> Prop) :
  P [] -> (forall x, P [x]) -> (forall x y l, P l -> P (x :: y :: l)) -> forall l, P l.
Proof.
  intros H0 H1 H2. fix IH 1. intros [|x [|y l]]; [exact H0|apply H1|apply H2, IH].
Qed.

Lemma u16s_len w : forall l, u16s w = Some l -> zlen w = 2 * zlen l.
Proof.
  induction w as [| x | hi lo r IH] using list_ind2; intros l H.
  - inversion H. reflexivity.
  - discriminate.
  - cbn [u16s] in H. destruct (u16s r) as [l'|] eqn:E; [|discriminate].
    inversion H. subst. rewrite !zlen_cons, (IH l' eq_refl). lia.
Qed.

Lemma pairs_len l : forall p, pairs l = Some p -> zlen l = 2 * zlen p.
Proof.
  induction l as [| x | a b r IH] using list_ind2; intros p H.
  - inversion H. reflexivity.
  - discriminate.
  - cbn [pairs] in H. destruct (pairs r) as [p'|] eqn:E; [|discriminate].
    inversion H. subst. rewrite !zlen_cons, (IH p' eq_refl). lia.
Qed.

Lemma zlen_flat_pairs ds : zlen (flat_map ser_pair ds) = 4 * zlen ds.
Proof.
  induction ds as [|d r IH]; [reflexivity|].
  cbn [flat_map]. rewrite zlen_app, zlen_cons, IH. unfold ser_pair, be16, zlen. cbn [app length]. lia.
Qed.

Lemma u16s_pairs_flat ds :
  u16s (flat_map ser_pair ds) = Some (flat_map enc_pair ds) /\ pairs (flat_map enc_pair ds) = Some ds.
Proof.
  induction ds as [|[a b] r [IH1 IH2]]; [split; reflexivity|].
  cbn [flat_map ser_pair enc_pair be16 app fst snd u16s pairs].
  rewrite IH1, IH2, !u16_be16. split; reflexivity.
Qed.

(* ---- the header ---- *)
Lemma parse_record_ser ty body t :
  parse_record (be16 ty ++ be16 (zlen body) ++ body ++ t) =
  (let '(x, wrest) := parse_body (ty mod 32768) (32768 <=? ty) (zlen body) body in (x, wrest ++ t)).
Proof.
  unfold parse_record, be16. cbn [app].
  rewrite !u16_be16, to_nat_zlen, firstn_exact, skipn_exact.
  change (TYPE_MASK + 1) with 32768. change CRITICAL_MASK with 32768. reflexivity.
Qed.

Lemma truncated_self w : truncated (zlen w) w = false.
Proof. unfold truncated. apply Z.ltb_irrefl. Qed.

Lemma parse_body_unknown rt crit size w :
  known_type rt = false -> parse_body rt crit size w = body_bytes (UnknownR rt crit) size w.
Proof.
  unfold known_type, parse_body. intros H.
  repeat (apply orb_false_elim in H; destruct H as [H ?]).
  repeat match goal with E : (_ =? _) = false |- _ => rewrite E; clear E end. reflexivity.
Qed.

(* ---- round trip ---- *)
Lemma record_roundtrip r t : wf_record r -> parse_record (ser_record r ++ t) = (Ok r, t).
Proof.
  intros W. unfold ser_record. rewrite <- !app_assoc, parse_record_ser.
  destruct r; cbn [rec_type rec_body wf_record] in *.
  - reflexivity.
  - change ((ST_NEXT_PROTOCOL + CRITICAL_BIT) mod 32768) with 1.
    unfold parse_body. cbn [Z.eqb RT_END_OF_MESSAGE RT_NEXT_PROTOCOL Pos.eqb].
    unfold body_u16s. rewrite u16s_flat, truncated_self. reflexivity.
  - change ((ST_ERROR + CRITICAL_BIT) mod 32768) with 2. unfold parse_body, body_one, be16.
    cbn -[Z.div Z.modulo u16]. rewrite u16_be16. reflexivity.
  - change ((ST_WARNING + CRITICAL_BIT) mod 32768) with 3. unfold parse_body, body_one, be16.
    cbn -[Z.div Z.modulo u16]. rewrite u16_be16. reflexivity.
  - change ((ST_AEAD_ALGORITHM + CRITICAL_BIT) mod 32768) with 4.
    unfold parse_body. cbn [Z.eqb RT_END_OF_MESSAGE RT_NEXT_PROTOCOL RT_ERROR RT_WARNING RT_AEAD_ALGORITHM Pos.eqb].
    unfold body_u16s. rewrite u16s_flat, truncated_self. reflexivity.
  - change (ST_NEW_COOKIE mod 32768) with 5.
    unfold parse_body. cbn [Z.eqb RT_END_OF_MESSAGE RT_NEXT_PROTOCOL RT_ERROR RT_WARNING RT_AEAD_ALGORITHM RT_NEW_COOKIE Pos.eqb].
    unfold body_bytes. rewrite truncated_self. rewrite app_nil_l. reflexivity.
  - change ((ST_SERVER + CRITICAL_BIT) mod 32768) with 6.
    unfold parse_body. cbn [Z.eqb RT_END_OF_MESSAGE RT_NEXT_PROTOCOL RT_ERROR RT_WARNING RT_AEAD_ALGORITHM RT_NEW_COOKIE RT_SERVER Pos.eqb].
    unfold body_string. rewrite W, truncated_self. reflexivity.
  - change ((ST_PORT + CRITICAL_BIT) mod 32768) with 7. unfold parse_body, body_one, be16.
    cbn -[Z.div Z.modulo u16]. rewrite u16_be16. reflexivity.
  - destruct W as [Hr Hk].
    replace ((ty + (if critical then CRITICAL_BIT else 0)) mod 32768) with ty
      by (destruct critical; change CRITICAL_BIT with 32768; lia).
    replace (32768 <=? ty + (if critical then CRITICAL_BIT else 0)) with critical
      by (destruct critical; change CRITICAL_BIT with 32768; lia).
    rewrite parse_body_unknown by exact Hk. unfold body_bytes. rewrite truncated_self. reflexivity.
  - reflexivity.
  - change ((ST_SUPPORTED_NEXT_PROTOCOL_LIST + CRITICAL_BIT) mod 32768) with 9.
    unfold parse_body. cbn [Z.eqb RT_END_OF_MESSAGE RT_NEXT_PROTOCOL RT_ERROR RT_WARNING RT_AEAD_ALGORITHM RT_NEW_COOKIE RT_SERVER RT_PORT RT_KEEP_ALIVE RT_SUPPORTED_NEXT_PROTOCOL_LIST Pos.eqb].
    unfold body_u16s. rewrite u16s_flat, truncated_self. reflexivity.
  - change ((ST_SUPPORTED_ALGORITHM_LIST + CRITICAL_BIT) mod 32768) with 10.
    unfold parse_body. cbn [Z.eqb RT_END_OF_MESSAGE RT_NEXT_PROTOCOL RT_ERROR RT_WARNING RT_AEAD_ALGORITHM RT_NEW_COOKIE RT_SERVER RT_PORT RT_KEEP_ALIVE RT_SUPPORTED_NEXT_PROTOCOL_LIST RT_SUPPORTED_ALGORITHM_LIST Pos.eqb].
    unfold body_pairs. destruct (u16s_pairs_flat descs) as [E1 E2]. rewrite E1, E2, truncated_self. reflexivity.
  - change ((ST_FIXED_KEY_REQUEST + CRITICAL_BIT) mod 32768) with 12.
    unfold parse_body. cbn [Z.eqb RT_END_OF_MESSAGE RT_NEXT_PROTOCOL RT_ERROR RT_WARNING RT_AEAD_ALGORITHM RT_NEW_COOKIE RT_SERVER RT_PORT RT_KEEP_ALIVE RT_SUPPORTED_NEXT_PROTOCOL_LIST RT_SUPPORTED_ALGORITHM_LIST RT_FIXED_KEY_REQUEST Pos.eqb].
    unfold body_fixed. rewrite zlen_app.
    assert (Hl : zlen c2s = zlen s2c) by (unfold zlen; lia).
    replace ((zlen c2s + zlen s2c) / 2) with (zlen c2s) by lia.
    replace (zlen c2s + zlen s2c <? 2 * zlen c2s) with false by lia.
    replace (zlen c2s + zlen s2c =? 2 * zlen c2s) with true by lia.
    rewrite to_nat_zlen, firstn_exact, skipn_exact.
    rewrite <- (app_nil_r s2c) at 1 2. rewrite W at 1 2. rewrite firstn_exact, skipn_exact. reflexivity.
  - change (ST_NTP_SERVER_DENY mod 32768) with 13.
    unfold parse_body. cbn [Z.eqb RT_END_OF_MESSAGE RT_NEXT_PROTOCOL RT_ERROR RT_WARNING RT_AEAD_ALGORITHM RT_NEW_COOKIE RT_SERVER RT_PORT RT_KEEP_ALIVE RT_SUPPORTED_NEXT_PROTOCOL_LIST RT_SUPPORTED_ALGORITHM_LIST RT_FIXED_KEY_REQUEST RT_NTP_SERVER_DENY Pos.eqb].
    unfold body_string. rewrite W, truncated_self. reflexivity.
  - change (ST_AUTHENTICATION mod 32768) with 14.
    unfold parse_body. cbn [Z.eqb RT_END_OF_MESSAGE RT_NEXT_PROTOCOL RT_ERROR RT_WARNING RT_AEAD_ALGORITHM RT_NEW_COOKIE RT_SERVER RT_PORT RT_KEEP_ALIVE RT_SUPPORTED_NEXT_PROTOCOL_LIST RT_SUPPORTED_ALGORITHM_LIST RT_FIXED_KEY_REQUEST RT_NTP_SERVER_DENY RT_AUTHENTICATION Pos.eqb].
    unfold body_string. rewrite W, truncated_self. reflexivity.
Qed.

(* ---- what a body parser returns: never a panic; the unread bytes are a
        suffix of the window; an accepted record is well formed and its body
        is not longer than what was read ---- *)
Definition body_spec (size : Z) (w : list Z) (o : res record * list Z) : Prop :=
  (forall s, fst o <> Panic s) /\
  (exists c, w = c ++ snd o /\
     forall r, fst o = Ok r -> wf_record r /\ zlen (rec_body r) <= zlen c).

Lemma spec_err size w e : body_spec size w (Err e, []).
Proof.
  split; [discriminate|]. exists w. rewrite app_nil_r. split; [reflexivity|discriminate].
Qed.

Lemma spec_ok_all size w r :
  wf_record r -> zlen (rec_body r) <= zlen w -> body_spec size w (Ok r, []).
Proof.
  intros W L. split; [discriminate|]. exists w. rewrite app_nil_r. split; [reflexivity|].
  intros r' E. inversion E. subst. split; assumption.
Qed.

Lemma body_discard_spec r size w :
  wf_record r -> rec_body r = [] -> body_spec size w (body_discard r size w).
Proof.
  intros W B. unfold body_discard. destruct (truncated size w); [apply spec_err|].
  apply spec_ok_all; [exact W|]. rewrite B. apply zlen_nonneg.
Qed.

Lemma body_u16s_spec mk size w :
  (forall l, wf_record (mk l) /\ rec_body (mk l) = flat_map be16 l) ->
  body_spec size w (body_u16s mk size w).
Proof.
  intros M. unfold body_u16s. destruct (u16s w) as [l|] eqn:E; [|apply spec_err].
  destruct (truncated size w); [apply spec_err|].
  destruct (M l) as [W B]. apply spec_ok_all; [exact W|].
  rewrite B, zlen_flat_be16, (u16s_len _ _ E). lia.
Qed.

Lemma body_pairs_spec size w : body_spec size w (body_pairs SupportedAlgorithmListR size w).
Proof.
  unfold body_pairs. destruct (u16s w) as [l|] eqn:E; [|apply spec_err].
  destruct (pairs l) as [p|] eqn:P; [|apply spec_err].
  destruct (truncated size w); [apply spec_err|].
  apply spec_ok_all; [exact I|]. cbn [rec_body].
  rewrite zlen_flat_pairs, (u16s_len _ _ E), (pairs_len _ _ P). lia.
Qed.

Lemma body_one_spec mk size w :
  (forall c, wf_record (mk c) /\ rec_body (mk c) = be16 c) ->
  body_spec size w (body_one mk size w).
Proof.
  intros M. unfold body_one. destruct w as [|hi [|lo r]]; try apply spec_err.
  destruct (size =? 2).
  - split; [discriminate|]. exists [hi; lo]. split; [reflexivity|].
    intros r' E. inversion E. subst. destruct (M (u16 hi lo)) as [W B]. split; [exact W|].
    rewrite B. unfold be16, zlen. cbn [length]. lia.
  - split; [discriminate|]. exists [hi; lo]. split; [reflexivity|discriminate].
Qed.

Lemma body_bytes_spec mk size w :
  (forall d, rec_body (mk d) = d) -> wf_record (mk w) -> body_spec size w (body_bytes mk size w).
Proof.
  intros M W. unfold body_bytes. destruct (truncated size w); [apply spec_err|].
  apply spec_ok_all; [exact W|]. rewrite M. lia.
Qed.

Lemma body_string_spec mk size w :
  (forall d, rec_body (mk d) = d) -> (utf8_valid w = true -> wf_record (mk w)) ->
  body_spec size w (body_string mk size w).
Proof.
  intros M W. unfold body_string. destruct (utf8_valid w); [|apply spec_err].
  destruct (truncated size w); [apply spec_err|].
  apply spec_ok_all; [apply W; reflexivity|]. rewrite M. lia.
Qed.

Lemma body_fixed_spec size w : body_spec size w (body_fixed size w).
Proof.
  unfold body_fixed. set (h := size / 2). set (hn := Z.to_nat h).
  destruct (zlen w <? 2 * h) eqn:L; [apply spec_err|].
  assert (D : w = (firstn hn w ++ firstn hn (skipn hn w)) ++ skipn hn (skipn hn w)).
  { rewrite <- app_assoc, firstn_skipn, firstn_skipn. reflexivity. }
  destruct (size =? 2 * h).
  - split; [discriminate|]. eexists. split; [exact D|].
    intros r E. inversion E. subst r. cbn [wf_record rec_body]. split; [|lia].
    rewrite !firstn_length, skipn_length. unfold zlen in L. subst hn. lia.
  - split; [discriminate|]. eexists. split; [exact D|discriminate].
Qed.

Lemma parse_body_spec rt crit size w :
  0 <= rt < 32768 -> body_spec size w (parse_body rt crit size w).
Proof.
  intros R. destruct (known_type rt) eqn:K.
  - unfold parse_body. unfold known_type in K.
    destruct (rt =? RT_END_OF_MESSAGE); [apply body_discard_spec; [exact I|reflexivity]|].
    destruct (rt =? RT_NEXT_PROTOCOL); [apply body_u16s_spec; intros; split; [exact I|reflexivity]|].
    destruct (rt =? RT_ERROR); [apply body_one_spec; intros; split; [exact I|reflexivity]|].
    destruct (rt =? RT_WARNING); [apply body_one_spec; intros; split; [exact I|reflexivity]|].
    destruct (rt =? RT_AEAD_ALGORITHM); [apply body_u16s_spec; intros; split; [exact I|reflexivity]|].
    destruct (rt =? RT_NEW_COOKIE); [apply body_bytes_spec; [reflexivity|exact I]|].
    destruct (rt =? RT_SERVER); [apply body_string_spec; [reflexivity|intros U; exact U]|].
    destruct (rt =? RT_PORT); [apply body_one_spec; intros; split; [exact I|reflexivity]|].
    destruct (rt =? RT_KEEP_ALIVE); [apply body_discard_spec; [exact I|reflexivity]|].
    destruct (rt =? RT_SUPPORTED_NEXT_PROTOCOL_LIST); [apply body_u16s_spec; intros; split; [exact I|reflexivity]|].
    destruct (rt =? RT_SUPPORTED_ALGORITHM_LIST); [apply body_pairs_spec|].
    destruct (rt =? RT_FIXED_KEY_REQUEST); [apply body_fixed_spec|].
    destruct (rt =? RT_NTP_SERVER_DENY); [apply body_string_spec; [reflexivity|intros U; exact U]|].
    destruct (rt =? RT_AUTHENTICATION); [apply body_string_spec; [reflexivity|intros U; exact U]|].
    discriminate K.
  - rewrite parse_body_unknown by exact K.
    apply body_bytes_spec; [reflexivity|]. cbn [wf_record]. split; assumption.
Qed.

(* ---- NtsRecord::parse ---- *)
Lemma zlen_ser_record r : zlen (ser_record r) = 4 + zlen (rec_body r).
Proof. unfold ser_record, be16. cbn [app]. rewrite !zlen_cons. lia. Qed.

Lemma parse_record_spec inp :
  (forall s, fst (parse_record inp) <> Panic s) /\
  (exists c, inp = c ++ snd (parse_record inp) /\
     forall r, fst (parse_record inp) = Ok r -> wf_record r /\ zlen (ser_record r) <= zlen c).
Proof.
  unfold parse_record.
  destruct inp as [|t1 [|t0 [|s1 [|s0 r2]]]];
    try (split; [discriminate|]; eexists; rewrite app_nil_r; split; [reflexivity|discriminate]).
  set (ty := u16 t1 t0). set (size := u16 s1 s0). set (n := Z.to_nat size).
  assert (R : 0 <= ty mod (TYPE_MASK + 1) < 32768)
    by (change (TYPE_MASK + 1) with 32768; apply Z.mod_pos_bound; lia).
  pose proof (parse_body_spec (ty mod (TYPE_MASK + 1)) (CRITICAL_MASK <=? ty) size (firstn n r2) R) as S.
  unfold body_spec in S.
  destruct (parse_body _ _ size (firstn n r2)) as [x wrest]. cbn beta iota delta [fst snd] in *.
  destruct S as [NP [c [D A]]]. split; [exact NP|].
  exists ([t1; t0; s1; s0] ++ c). split.
  - rewrite <- app_assoc. cbn [app]. do 4 f_equal.
    rewrite app_assoc, <- D. symmetry. apply firstn_skipn.
  - intros r E. destruct (A r E) as [W L]. split; [exact W|].
    rewrite zlen_ser_record, zlen_app. unfold zlen at 2. cbn [length]. lia.
Qed.

Lemma parse_record_total inp s : fst (parse_record inp) <> Panic s.
Proof. apply parse_record_spec. Qed.

Lemma parse_record_suffix inp x rest :
  parse_record inp = (x, rest) -> exists c, inp = c ++ rest.
Proof.
  intros E. destruct (parse_record_spec inp) as [_ [c [D _]]]. rewrite E in D. exists c. exact D.
Qed.

Lemma parse_record_ok inp r rest :
  parse_record inp = (Ok r, rest) ->
  wf_record r /\ exists c, inp = c ++ rest /\ zlen (ser_record r) <= zlen c.
Proof.
  intros E. destruct (parse_record_spec inp) as [_ [c [D A]]]. rewrite E in D, A. cbn [fst snd] in *.
  destruct (A r eq_refl) as [W L]. split; [exact W|]. exists c. split; assumption.
Qed.

(* the statement of the property for records: whatever is accepted
   re-serialises to bytes that parse back to the same record, whatever follows *)
Lemma record_reparse inp r rest :
  parse_record inp = (Ok r, rest) -> forall t, parse_record (ser_record r ++ t) = (Ok r, t).
Proof.
  intros E t. apply record_roundtrip. apply (parse_record_ok _ _ _ E).
Qed.

Lemma ser_fits_parsed inp r rest :
  zlen inp <= 65539 -> parse_record inp = (Ok r, rest) -> ser_fits r.
Proof.
  intros L E. destruct (parse_record_ok _ _ _ E) as [_ [c [D B]]].
  unfold ser_fits. rewrite zlen_ser_record in B. subst inp. rewrite zlen_app in L.
  pose proof (zlen_nonneg rest). lia.
Qed.
