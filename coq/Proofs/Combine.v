From V Require Import Model.Combine.
From Coq Require Import Permutation.

Lemma count_nonneg l sel : 0 <= count l sel.
Proof. induction sel as [|x r IH]; cbn [count]; [lia|]. destruct (leap_eqb x l); lia. Qed.

Lemma count_total sel :
  count NoWarning sel + count Leap61 sel + count Leap59 sel + count Unknown sel
  + count Unsynchronized sel = Z.of_nat (length sel).
Proof.
  induction sel as [|x r IH]; [reflexivity|].
  cbn [count length]. rewrite Nat2Z.inj_succ. destruct x; cbn [leap_eqb]; lia.
Qed.

Lemma existsb_unsync sel :
  existsb (leap_eqb Unsynchronized) sel = true <-> In Unsynchronized sel.
Proof.
  rewrite existsb_exists. split.
  - intros [x [Hin Hx]]. destruct x; cbn in Hx; try discriminate. exact Hin.
  - intros Hin. exists Unsynchronized. split; [exact Hin|reflexivity].
Qed.

Lemma count_unsync_zero sel : ~ In Unsynchronized sel -> count Unsynchronized sel = 0.
Proof.
  induction sel as [|x r IH]; intros Hn; [reflexivity|].
  cbn [count]. destruct x; cbn [leap_eqb];
    try (rewrite IH; [reflexivity| intros H; apply Hn; right; exact H]).
  exfalso. apply Hn. left. reflexivity.
Qed.

Definition votable (L : leap) : Prop := L = NoWarning \/ L = Leap59 \/ L = Leap61.

(* the property's majority: strictly more than half of the selected sources
   whose leap status is known *)
Definition majority (L : leap) (sel : list leap) : Prop :=
  2 * count L sel > Z.of_nat (length sel) - count Unknown sel.

Lemma majority_unique L1 L2 sel :
  votable L1 -> votable L2 -> majority L1 sel -> majority L2 sel -> L1 = L2.
Proof.
  unfold votable, majority. intros H1 H2 M1 M2.
  pose proof (count_total sel) as T.
  pose proof (count_nonneg NoWarning sel). pose proof (count_nonneg Leap61 sel).
  pose proof (count_nonneg Leap59 sel). pose proof (count_nonneg Unsynchronized sel).
  destruct H1 as [-> | [-> | ->]], H2 as [-> | [-> | ->]]; try reflexivity; exfalso; lia.
Qed.

Lemma vote_majority sel L :
  vote_leap sel = Ok (Some L) <->
  (votable L /\ ~ In Unsynchronized sel /\ majority L sel).
Proof.
  unfold vote_leap.
  destruct (existsb (leap_eqb Unsynchronized) sel) eqn:E.
  - split; [discriminate|]. intros [_ [Hn _]]. exfalso. apply Hn. apply existsb_unsync. exact E.
  - assert (Hn : ~ In Unsynchronized sel).
    { intros Hin. apply existsb_unsync in Hin. congruence. }
    pose proof (count_total sel) as T. rewrite (count_unsync_zero sel Hn) in T.
    pose proof (count_nonneg NoWarning sel). pose proof (count_nonneg Leap61 sel).
    pose proof (count_nonneg Leap59 sel). pose proof (count_nonneg Unknown sel).
    unfold majority, votable.
    destruct (count NoWarning sel * 2 >? _) eqn:A;
      [| destruct (count Leap59 sel * 2 >? _) eqn:B;
         [| destruct (count Leap61 sel * 2 >? _) eqn:C]];
      rewrite ?Z.gtb_ltb, ?Z.ltb_lt, ?Z.ltb_ge in *;
      (split; [ intros Heq; inversion Heq; subst; (split; [tauto|]); (split; [exact Hn|]); lia
              | intros [[-> | [-> | ->]] [_ M]]; try reflexivity; exfalso; lia ]).
Qed.

Lemma vote_none sel :
  vote_leap sel = Ok None <->
  (~ In Unsynchronized sel /\ forall L, votable L -> ~ majority L sel).
Proof.
  split.
  - intros Hv. assert (Hn : ~ In Unsynchronized sel).
    { intros Hin. apply existsb_unsync in Hin. unfold vote_leap in Hv. rewrite Hin in Hv. discriminate. }
    split; [exact Hn|]. intros L HL M.
    assert (vote_leap sel = Ok (Some L)) as E by (apply vote_majority; tauto).
    congruence.
  - intros [Hn Hall].
    destruct (vote_leap sel) as [[L|]| |] eqn:E.
    + apply vote_majority in E. exfalso. apply (Hall L); tauto.
    + reflexivity.
    + exfalso. unfold vote_leap in E. destruct (existsb _ sel); [discriminate|].
      repeat match type of E with context [if ?c then _ else _] => destruct c end; discriminate.
    + exfalso. unfold vote_leap in E. destruct (existsb _ sel) eqn:X.
      * apply existsb_unsync in X. tauto.
      * repeat match type of E with context [if ?c then _ else _] => destruct c end; discriminate.
Qed.

Lemma vote_panic_iff sel :
  (exists s, vote_leap sel = Panic s) <-> In Unsynchronized sel.
Proof.
  unfold vote_leap. destruct (existsb (leap_eqb Unsynchronized) sel) eqn:E.
  - split; [intros _; apply existsb_unsync; exact E| intros _; eexists; reflexivity].
  - split.
    + intros [s Hs]. repeat match type of Hs with context [if ?c then _ else _] => destruct c end; discriminate.
    + intros Hin. apply existsb_unsync in Hin. congruence.
Qed.

Lemma vote_never_err sel e : vote_leap sel <> Err e.
Proof.
  unfold vote_leap. destruct (existsb _ sel); [discriminate|].
  repeat match goal with |- context [if ?c then _ else _] => destruct c end; discriminate.
Qed.

(* the vote only looks at the multiset of indicators *)
Lemma count_perm l s1 s2 : Permutation s1 s2 -> count l s1 = count l s2.
Proof.
  induction 1 as [| x a b _ IH | x y a | a b c _ IH1 _ IH2]; cbn [count]; try lia.
Qed.

Lemma vote_perm s1 s2 : Permutation s1 s2 -> vote_leap s1 = vote_leap s2.
Proof.
  intros P. unfold vote_leap.
  assert (existsb (leap_eqb Unsynchronized) s1 = existsb (leap_eqb Unsynchronized) s2) as ->.
  { apply eq_true_iff_eq. rewrite !existsb_unsync.
    split; intros H; [apply (Permutation_in _ P H)
                     | apply (Permutation_in _ (Permutation_sym P) H)]. }
  rewrite (Permutation_length P).
  rewrite !(count_perm _ _ _ P). reflexivity.
Qed.

(* applying the vote: indicator changes only to the voted one; none => kept, no call *)
Lemma apply_vote_spec prev v :
  apply_vote prev v = match v with Some l => (l, [l]) | None => (prev, []) end.
Proof. reflexivity. Qed.
