(* C02, second part: on Coq's primitive binary64 floats, through Flocq's PrimFloat <-> BinarySingleNaN bridge,
   (1) every slew started leaves |desired_freq| <= slew_maximum_frequency_offset (multiplication by
       signum(change) = +-1.0 is exact, the slew frequency min(slew_max, |change| / duration) is in [0, slew_max]);
   (2) no NaN is ever handed to set_frequency: the clamp argument (1+f)(1+c)-1 is not NaN for a finite f > -1
       and a non-NaN c; every later f is a clamp output in [-M, M], M < 1; every c the controller forms is not NaN
       unless BOTH estimate - desired_freq and sqrt(p11) * steer_frequency_leftover overflow (inf - inf), which
       the hypothesis |estimate| + slew_max < inf excludes.  [no_nan_refuted]: without that hypothesis a history
       of finite inputs under a finite configuration with positive limits applies NaN. *)
From V Require Import Model.TimeTypes Model.Controller Proofs.Controller Proofs.ControllerFreq.
From Coq Require Import ZArith Reals Floats Bool Lia Lra List.
From Flocq Require Import Core IEEE754.BinarySingleNaN IEEE754.PrimFloat Plus_error.
Import ListNotations.
Open Scope Z_scope.

#[local] Existing Instance Hprec.
#[local] Existing Instance Hmax.


Notation NE := mode_NE.

Lemma fin_nn : forall x : B, is_finite x = true -> is_nan x = false.
Proof. intros [ | | | ]; cbn; congruence. Qed.

Lemma fins_fin : forall x : B, is_finite_strict x = true -> is_finite x = true.
Proof. intros [ | | | ]; cbn; congruence. Qed.

Lemma overflow_nn : forall (z : B) m s, B2SF z = binary_overflow prec emax m s -> is_nan z = false.
Proof.
  intros z m s H. rewrite <- is_nan_SF_B2SF, H. apply is_nan_binary_overflow.
Qed.

Lemma overflow_NE_inf : forall (z : B) s, B2SF z = binary_overflow prec emax NE s -> is_finite z = false.
Proof.
  intros z s H. rewrite <- is_finite_SF_B2SF, H. reflexivity.
Qed.

Lemma Bplus_ff_nn : forall x y : B, is_finite x = true -> is_finite y = true ->
  is_nan (Bplus NE x y) = false.
Proof.
  intros x y Fx Fy. generalize (Bplus_correct _ _ _ _ NE x y Fx Fy).
  destruct (Rlt_bool _ _).
  - intros (_ & F & _). apply fin_nn; auto.
  - intros (H & _). eapply overflow_nn; eauto.
Qed.

Lemma Bplus_nn : forall x y : B, is_nan x = false -> is_nan y = false ->
  (is_finite x = true \/ is_finite y = true) -> is_nan (Bplus NE x y) = false.
Proof.
  intros x y Nx Ny F.
  destruct (is_finite x) eqn:Fx, (is_finite y) eqn:Fy.
  - apply Bplus_ff_nn; auto.
  - destruct x, y; cbn in *; try discriminate; auto.
  - destruct x, y; cbn in *; try discriminate; auto.
  - destruct F; discriminate.
Qed.

Lemma Bminus_ff_nn : forall x y : B, is_finite x = true -> is_finite y = true ->
  is_nan (Bminus NE x y) = false.
Proof.
  intros x y Fx Fy. generalize (Bminus_correct _ _ _ _ NE x y Fx Fy).
  destruct (Rlt_bool _ _).
  - intros (_ & F & _). apply fin_nn; auto.
  - intros (H & _). eapply overflow_nn; eauto.
Qed.

Lemma Bminus_nn : forall x y : B, is_nan x = false -> is_nan y = false ->
  (is_finite x = true \/ is_finite y = true) -> is_nan (Bminus NE x y) = false.
Proof.
  intros x y Nx Ny F.
  destruct (is_finite x) eqn:Fx, (is_finite y) eqn:Fy.
  - apply Bminus_ff_nn; auto.
  - destruct x, y; cbn in *; try discriminate; auto.
  - destruct x, y; cbn in *; try discriminate; auto.
  - destruct F; discriminate.
Qed.

Lemma Bmult_ff_nn : forall x y : B, is_finite x = true -> is_finite y = true ->
  is_nan (Bmult NE x y) = false.
Proof.
  intros x y Fx Fy. generalize (Bmult_correct _ _ _ _ NE x y).
  destruct (Rlt_bool _ _).
  - intros (_ & F & _). apply fin_nn. rewrite F, Fx, Fy. reflexivity.
  - intros H. eapply overflow_nn; eauto.
Qed.

(* a finite non-zero factor never produces NaN from a non-NaN one *)
Lemma Bmult_nn_l : forall x y : B, is_finite_strict x = true -> is_nan y = false ->
  is_nan (Bmult NE x y) = false.
Proof.
  intros x y Fx Ny. destruct (is_finite y) eqn:Fy.
  - apply Bmult_ff_nn; auto. apply fins_fin; auto.
  - destruct x, y; cbn in *; try discriminate; auto.
Qed.

Lemma Bmult_nn_r : forall x y : B, is_nan x = false -> is_finite_strict y = true ->
  is_nan (Bmult NE x y) = false.
Proof.
  intros x y Nx Fy. destruct (is_finite x) eqn:Fx.
  - apply Bmult_ff_nn; auto. apply fins_fin; auto.
  - destruct x, y; cbn in *; try discriminate; auto.
Qed.


Notation fexp := (SpecFloat.fexp prec emax).
#[local] Instance fexp_valid : Valid_exp fexp := fexp_correct prec emax _.
#[local] Instance fexp_mono : Monotone_exp fexp := fexp_monotone prec emax.
Notation rnd := (round radix2 fexp ZnearestE).

Lemma Rlt_bool_finite_plus : forall x y : B, is_finite x = true -> is_finite y = true ->
  is_finite (Bplus NE x y) = true ->
  (B2R (Bplus NE x y) = rnd (B2R x + B2R y))%R.
Proof.
  intros x y Fx Fy F. generalize (Bplus_correct _ _ _ _ NE x y Fx Fy).
  destruct (Rlt_bool _ _).
  - intros (E & _). exact E.
  - intros (H & _). apply overflow_NE_inf in H. congruence.
Qed.

(* 1 + f for a finite f above -1 is finite and not zero *)
Lemma one_plus_strict : forall f : B, is_finite f = true -> (-1 < B2R f)%R ->
  is_finite_strict (Bplus NE Bone f) = true.
Proof.
  intros f Ff Hf.
  assert (F1 : is_finite (Bone : B) = true) by apply is_finite_Bone.
  generalize (Bplus_correct _ _ _ _ NE Bone f F1 Ff).
  rewrite Bone_correct. change (round_mode NE) with ZnearestE.
  assert (Hov : (Rabs (rnd (1 + B2R f)) < bpow radix2 emax)%R).
  { destruct (round_N_pt radix2 fexp (fun x => negb (Z.even x)) (1 + B2R f)) as [_ Hn].
    specialize (Hn (B2R f) (generic_format_B2R _ _ f)).
    pose proof (abs_B2R_le_emax_minus_prec prec emax _ f) as Hb.
    assert (H2 : (2 < bpow radix2 (emax - prec))%R).
    { apply Rlt_le_trans with (bpow radix2 2). cbn; lra. apply bpow_le. unfold emax, prec. lia. }
    fold ZnearestE in Hn.
    assert (H1 : (Rabs (B2R f - (1 + B2R f)) = 1)%R).
    { replace (B2R f - (1 + B2R f))%R with (-1)%R by ring. unfold Rabs; destruct Rcase_abs; lra. }
    rewrite H1 in Hn. clear H1.
    unfold Rabs in *. repeat destruct Rcase_abs; lra. }
  rewrite (Rlt_bool_true _ _ Hov).
  intros (E & F & _).
  apply is_finite_strict_B2R. rewrite E.
  apply round_plus_neq_0; auto with typeclass_instances.
  - rewrite <- (Bone_correct prec emax _ _). apply generic_format_B2R.
  - apply generic_format_B2R.
  - lra.
Qed.


(* no overflow of x - d when |x| + m is finite and |d| <= m *)
Lemma Bminus_finite_bound : forall x d m : B,
  is_finite x = true -> is_finite d = true -> is_finite m = true ->
  (Rabs (B2R d) <= B2R m)%R ->
  is_finite (Bplus NE (Babs x) m) = true ->
  is_finite (Bminus NE x d) = true.
Proof.
  intros x d m Fx Fd Fm Hd Hs.
  assert (Fa : is_finite (Babs x) = true) by (rewrite is_finite_Babs; auto).
  pose proof (Rlt_bool_finite_plus _ _ Fa Fm Hs) as E. rewrite B2R_Babs in E.
  pose proof (abs_B2R_lt_emax _ _ (Bplus NE (Babs x) m)) as Hlt. rewrite E in Hlt.
  generalize (Bminus_correct _ _ _ _ NE x d Fx Fd). change (round_mode NE) with ZnearestE.
  assert (Hov : (Rabs (rnd (B2R x - B2R d)) < bpow radix2 emax)%R).
  { rewrite <- round_NE_abs; auto with typeclass_instances.
    apply Rle_lt_trans with (2 := Hlt).
    apply Rle_trans with (rnd (Rabs (B2R x) + B2R m)).
    - apply round_le; auto with typeclass_instances.
      unfold Rabs in *; repeat destruct Rcase_abs; lra.
    - apply Rle_abs. }
  rewrite (Rlt_bool_true _ _ Hov). intros (_ & F & _). exact F.
Qed.

(* multiplication by +-1 is exact up to the sign: |x * y| = |x| for |y| = 1 *)
Lemma Babs_mult_unit : forall x y : B, is_finite_strict y = true -> (Rabs (B2R y) = 1)%R ->
  Babs (Bmult NE x y) = Babs x.
Proof.
  intros x y Fy Hy.
  destruct x as [sx | sx | | sx mx ex Hx] eqn:Ex;
    try (destruct y; try discriminate; reflexivity).
  rewrite <- Ex.
  assert (Fx : is_finite x = true) by (subst; reflexivity).
  generalize (Bmult_correct _ _ _ _ NE x y). change (round_mode NE) with ZnearestE.
  assert (G : generic_format radix2 fexp (B2R x * B2R y)).
  { revert Hy. unfold Rabs. destruct Rcase_abs; intro Hy.
    - replace (B2R x * B2R y)%R with (- B2R x)%R by (replace (B2R y) with (-1)%R by lra; ring).
      apply generic_format_opp. apply generic_format_B2R.
    - rewrite Hy, Rmult_1_r. apply generic_format_B2R. }
  rewrite (round_generic _ _ _ _ G).
  assert (Hov : (Rabs (B2R x * B2R y) < bpow radix2 emax)%R).
  { rewrite Rabs_mult, Hy, Rmult_1_r. apply abs_B2R_lt_emax. }
  rewrite (Rlt_bool_true _ _ Hov). intros (E & F & _).
  rewrite Fx, (fins_fin _ Fy) in F. cbn in F.
  apply B2R_Bsign_inj.
  - rewrite is_finite_Babs; auto.
  - rewrite is_finite_Babs; auto.
  - rewrite !B2R_Babs, E, Rabs_mult, Hy, Rmult_1_r. reflexivity.
  - rewrite !Bsign_Babs. reflexivity.
Qed.

(* the sign of |a| / d for d > 0 (d = +inf included): NaN or sign bit clear *)
Lemma Bdiv_abs_sign : forall a d : B, Bsign d = false -> is_nan d = false ->
  is_finite_strict d = true \/ is_finite d = false ->
  is_nan (Bdiv NE (Babs a) d) = true \/ Bsign (Bdiv NE (Babs a) d) = false.
Proof.
  intros a d Sd Nd Zd.
  destruct d as [sd | sd | | sd md ed Hd] eqn:Ed; cbn in Sd, Nd; try discriminate.
  - destruct Zd; discriminate.
  - subst sd. destruct a; cbn; auto.
  - subst sd. clear Ed Zd. set (d0 := B754_finite false md ed Hd).
    assert (Rd : B2R d0 <> 0%R) by (apply F2R_neq_0; discriminate).
    generalize (Bdiv_correct _ _ _ _ NE (Babs a) d0 Rd).
    destruct (Rlt_bool _ _).
    + intros (_ & _ & S). destruct (is_nan (Bdiv NE (Babs a) d0)) eqn:N; auto.
      right. rewrite (S eq_refl), Bsign_Babs. reflexivity.
    + intro H. right. rewrite Bsign_Babs in H. cbn in H.
      destruct (Bdiv NE (Babs a) d0); cbn in H; try discriminate; inversion H; reflexivity.
Qed.


(* `x.is_finite()` as a hardware comparison: |x| < inf *)
Definition f_finite (x : PrimFloat.float) : bool := PrimFloat.ltb (PrimFloat.abs x) infinity.

Lemma P_one : Prim2B fone = Bone.
Proof. unfold fone. change 1%float with one. rewrite one_equiv. apply Prim2B_B2Prim. Qed.
Lemma P_mone : Prim2B (-1)%float = Bopp Bone.
Proof. change (-1)%float with (- one)%float. rewrite opp_equiv, one_equiv, Prim2B_B2Prim. reflexivity. Qed.
Lemma P_zero : Prim2B 0%float = B754_zero false.
Proof. change 0%float with zero. rewrite zero_equiv. apply Prim2B_B2Prim. Qed.
Lemma P_inf : Prim2B infinity = B754_infinity false.
Proof. rewrite infinity_equiv. apply Prim2B_B2Prim. Qed.

Lemma f_finite_spec : forall x, f_finite x = is_finite (Prim2B x).
Proof.
  intro x. unfold f_finite. rewrite ltb_equiv, abs_equiv, P_inf.
  destruct (Prim2B x) as [s | s | | s m e H]; reflexivity.
Qed.

Lemma ltb_R : forall x y, is_finite (Prim2B x) = true -> is_finite (Prim2B y) = true ->
  PrimFloat.ltb x y = Rlt_bool (B2R (Prim2B x)) (B2R (Prim2B y)).
Proof. intros. rewrite ltb_equiv. apply Bltb_correct; auto. Qed.
Lemma leb_R : forall x y, is_finite (Prim2B x) = true -> is_finite (Prim2B y) = true ->
  PrimFloat.leb x y = Rle_bool (B2R (Prim2B x)) (B2R (Prim2B y)).
Proof. intros. rewrite leb_equiv. apply Bleb_correct; auto. Qed.

Lemma R_one : B2R (Bone : B) = 1%R.
Proof. apply Bone_correct. Qed.

(* the clamp argument (1+f)(1+c)-1 is not NaN for a finite f above -1 and a non-NaN c *)
Lemma arg_nn : forall f c,
  f_finite f = true -> PrimFloat.ltb (-1)%float f = true -> f_is_nan c = false ->
  f_is_nan (PrimFloat.sub (PrimFloat.mul (PrimFloat.add fone f) (PrimFloat.add fone c)) fone) = false.
Proof.
  intros f c Ff Hf Nc. rewrite f_finite_spec in Ff. rewrite nan_prim in Nc.
  rewrite ltb_R in Hf; [| rewrite P_mone, is_finite_Bopp; apply is_finite_Bone | exact Ff].
  rewrite P_mone, B2R_Bopp, R_one in Hf.
  assert (Hr : (-1 < B2R (Prim2B f))%R).
  { revert Hf. case Rlt_bool_spec; [intros; lra | discriminate]. }
  rewrite nan_prim, sub_equiv, mul_equiv, !add_equiv, P_one.
  apply Bminus_nn.
  - apply Bmult_nn_l.
    + apply one_plus_strict; auto.
    + apply Bplus_nn; [apply is_nan_Bone | exact Nc | left; apply is_finite_Bone].
  - apply is_nan_Bone.
  - right. apply is_finite_Bone.
Qed.


Lemma P_one' : Prim2B 1%float = Bone.
Proof. exact P_one. Qed.

Lemma Bltb_inf_l : forall y : B, Bltb (B754_infinity false) y = false.
Proof. intro y. unfold Bltb, SFltb. cbn. destruct (B2SF y) as [ | [|] | | ]; reflexivity. Qed.

Lemma Bleb_refl : forall b : B, is_nan b = false -> Bleb b b = true.
Proof.
  intros b H. unfold Bleb, SFleb. pose proof (cmp_refl b H) as E. unfold Bcompare in E.
  rewrite E. reflexivity.
Qed.

(* a clamp output under 0 < M < 1 is finite and above -1 *)
Lemma range_ok : forall M r,
  PrimFloat.ltb 0%float M = true -> PrimFloat.ltb M 1%float = true ->
  PrimFloat.leb (PrimFloat.opp M) r = true -> PrimFloat.leb r M = true ->
  f_finite r = true /\ PrimFloat.ltb (-1)%float r = true.
Proof.
  intros M r H0 H1 Hl Hu.
  assert (Fm : is_finite (Prim2B M) = true).
  { rewrite ltb_equiv in H0, H1. rewrite P_zero in H0.
    destruct (Prim2B M) as [ | [|] | | ]; try reflexivity; try (cbn in H0; discriminate).
    all: try (rewrite Bltb_inf_l in H1; discriminate). }
  assert (Fr : is_finite (Prim2B r) = true).
  { rewrite leb_equiv in Hl, Hu. rewrite opp_equiv in Hl.
    destruct (Prim2B M) as [ | | | ]; try discriminate;
      destruct (Prim2B r) as [ | [|] | | ]; try reflexivity; cbn in Hl, Hu; discriminate. }
  assert (F1 : is_finite (Prim2B 1%float) = true) by (rewrite P_one'; apply is_finite_Bone).
  assert (Fo : is_finite (Prim2B (- M)%float) = true) by (rewrite opp_equiv, is_finite_Bopp; auto).
  rewrite ltb_R in H1 by auto. rewrite leb_R in Hl by auto.
  rewrite opp_equiv, B2R_Bopp in Hl. rewrite P_one', R_one in H1.
  split; [rewrite f_finite_spec; exact Fr |].
  rewrite ltb_R; [| rewrite P_mone, is_finite_Bopp; apply is_finite_Bone | exact Fr].
  rewrite P_mone, B2R_Bopp, R_one. apply Rlt_bool_true.
  revert H1 Hl. case Rlt_bool_spec; [| discriminate]. case Rle_bool_spec; [| discriminate].
  intros. lra.
Qed.

Lemma abs_pos_id : forall q, f_is_nan q = false -> Bsign (Prim2B q) = false -> PrimFloat.abs q = q.
Proof.
  intros q N S. apply Prim2B_inj. rewrite abs_equiv.
  destruct (Prim2B q); cbn in *; subst; reflexivity.
Qed.

Lemma abs_self_le : forall x, PrimFloat.leb 0%float x = true -> PrimFloat.leb (PrimFloat.abs x) x = true.
Proof.
  intros x H. rewrite leb_equiv in *. rewrite abs_equiv. rewrite P_zero in H.
  destruct (Prim2B x) as [[|] | [|] | | [|] m e Hb]; try (cbn in H; discriminate); try reflexivity.
  cbn [Babs]. apply Bleb_refl. reflexivity.
Qed.

(* the slew frequency min(slew_max, |change| / duration) lies in [-slew_max, slew_max] -- in fact in
   [0, slew_max] -- as soon as 0 <= slew_max and 0 < duration (+inf allowed for both) *)
Lemma slew_freq_abs : forall c ch,
  PrimFloat.leb 0%float (c_slew_max c) = true -> PrimFloat.ltb 0%float (c_slew_min_dur c) = true ->
  PrimFloat.leb (PrimFloat.abs (slew_freq c ch)) (c_slew_max c) = true.
Proof.
  intros c ch Hs Hd. unfold slew_freq, f_min.
  destruct (leb_not_nan _ _ Hs) as [_ Ns]. rewrite Ns.
  set (q := PrimFloat.div (PrimFloat.abs ch) (c_slew_min_dur c)).
  destruct (f_is_nan q) eqn:Nq; [apply abs_self_le; auto |].
  destruct (PrimFloat.ltb (c_slew_max c) q) eqn:L; [apply abs_self_le; auto |].
  rewrite abs_pos_id; auto.
  - apply not_ltb_leb; auto.
  - assert (D : is_nan (Prim2B q) = true \/ Bsign (Prim2B q) = false).
    { subst q. rewrite div_equiv, abs_equiv. rewrite ltb_equiv, P_zero in Hd.
      apply Bdiv_abs_sign;
        destruct (Prim2B (c_slew_min_dur c)) as [[|] | [|] | | [|] m e Hb]; cbn in Hd; try discriminate; auto. }
    destruct D as [D | D]; auto. rewrite <- nan_prim in D. congruence.
Qed.

(* -freq * signum(change) has the magnitude of freq: multiplying by +-1.0 is exact *)
Lemma desired_abs : forall fr ch, f_is_nan ch = false ->
  PrimFloat.abs (PrimFloat.mul (PrimFloat.opp fr) (f_signum ch)) = PrimFloat.abs fr.
Proof.
  intros fr ch N. unfold f_signum. rewrite N. apply Prim2B_inj.
  destruct (get_sign ch); rewrite !abs_equiv, mul_equiv, opp_equiv.
  - rewrite P_mone, Babs_mult_unit; [apply Babs_Bopp | |].
    + rewrite is_finite_strict_Bopp. apply is_finite_strict_Bone.
    + rewrite B2R_Bopp, R_one, Rabs_Ropp. apply Rabs_R1.
  - rewrite P_one', Babs_mult_unit; [apply Babs_Bopp | |].
    + apply is_finite_strict_Bone.
    + rewrite R_one. apply Rabs_R1.
Qed.

Lemma abs_le_finite : forall d m, f_finite m = true -> PrimFloat.leb (PrimFloat.abs d) m = true ->
  is_finite (Prim2B d) = true /\ (Rabs (B2R (Prim2B d)) <= B2R (Prim2B m))%R.
Proof.
  intros d m Fm H. rewrite f_finite_spec in Fm.
  assert (Fd : is_finite (Prim2B d) = true).
  { rewrite leb_equiv, abs_equiv in H.
    destruct (Prim2B m) as [ | | | ]; try discriminate;
      destruct (Prim2B d) as [ | [|] | | ]; try reflexivity; cbn in H; discriminate. }
  split; auto.
  rewrite leb_R in H; [| rewrite abs_equiv, is_finite_Babs; auto | auto].
  rewrite abs_equiv, B2R_Babs in H. revert H. case Rle_bool_spec; [auto | discriminate].
Qed.

(* desired_freq - new_freq + freq_delta is not NaN when the three are finite *)
Lemma change_nn : forall d nf fd, f_finite d = true -> f_finite nf = true -> f_finite fd = true ->
  f_is_nan (PrimFloat.add (PrimFloat.sub d nf) fd) = false.
Proof.
  intros d nf fd Fd Fn Ff. rewrite f_finite_spec in *.
  rewrite nan_prim, add_equiv, sub_equiv.
  apply Bplus_nn; [apply Bminus_ff_nn; auto | apply fin_nn; auto | right; auto].
Qed.

(* estimate - desired_freq does not overflow when |estimate| + slew_max does not *)
Lemma delta_finite : forall ef d sm,
  f_finite (PrimFloat.add (PrimFloat.abs ef) sm) = true -> f_finite sm = true ->
  PrimFloat.leb (PrimFloat.abs d) sm = true ->
  f_finite (PrimFloat.sub ef d) = true.
Proof.
  intros ef d sm Hs Fs Hd.
  destruct (abs_le_finite _ _ Fs Hd) as [Fd Rd].
  rewrite f_finite_spec in *. rewrite add_equiv, abs_equiv in Hs. rewrite sub_equiv.
  assert (Fe : is_finite (Prim2B ef) = true).
  { destruct (Prim2B ef) as [ | | | ]; try reflexivity;
      destruct (Prim2B sm) as [ | | | ]; try discriminate; cbn in Hs; discriminate. }
  apply Bminus_finite_bound with (m := Prim2B sm); auto.
Qed.

(* the frequency request of update_clock: delta - (sqrt(p11) * leftover) * signum(delta) *)
Lemma upd_change_nn : forall fdl p11 thr left,
  f_finite fdl = true -> f_finite p11 = true -> f_finite left = true ->
  PrimFloat.ltb (PrimFloat.mul (PrimFloat.sqrt p11) thr) (PrimFloat.abs fdl) = true ->
  f_is_nan (PrimFloat.sub fdl (PrimFloat.mul (PrimFloat.mul (PrimFloat.sqrt p11) left) (f_signum fdl))) = false.
Proof.
  intros fdl p11 thr left Ff Fp Fl Hlt. rewrite f_finite_spec in *.
  assert (Nm : f_is_nan (PrimFloat.mul (PrimFloat.sqrt p11) thr) = false).
  { destruct (f_is_nan _) eqn:N; auto. rewrite (ltb_nan_l _ _ N) in Hlt. discriminate. }
  rewrite nan_prim, mul_equiv, sqrt_equiv in Nm.
  assert (Fu : is_finite (Bsqrt NE (Prim2B p11)) = true).
  { destruct (Bsqrt_correct _ _ _ _ NE (Prim2B p11)) as (_ & F & _). rewrite F.
    destruct (Prim2B p11) as [ | | | [|] m e Hb]; try discriminate; try reflexivity.
    all: try (cbn in Nm; discriminate). }
  assert (Nf : f_is_nan fdl = false) by (rewrite nan_prim; apply fin_nn; auto).
  rewrite nan_prim, sub_equiv, !mul_equiv, sqrt_equiv.
  apply Bminus_nn; [apply fin_nn; auto | | left; auto].
  unfold f_signum. rewrite Nf.
  apply Bmult_nn_r; [apply Bmult_ff_nn; auto |].
  destruct (get_sign fdl).
  - rewrite P_mone, is_finite_strict_Bopp. apply is_finite_strict_Bone.
  - rewrite P_one'. apply is_finite_strict_Bone.
Qed.


(* ------------------------------------------------------------------ *)
(* vocabulary of C02_slew_bound / C02_no_nan                            *)

Definition nonnan (f : PrimFloat.float) : Prop := f_is_nan f = false.

(* the running slew stays within the configured maximum *)
Definition slew_ok (c : cfg) (s : st) : Prop :=
  PrimFloat.leb (PrimFloat.abs (desired_freq s)) (c_slew_max c) = true.

(* the frequency in force is finite and above -1 (a clock never runs backwards) *)
Definition freq_ok (s : st) : Prop :=
  f_finite (freq_offset s) = true /\ PrimFloat.ltb (-1)%float (freq_offset s) = true.

(* positive slew limits: 0 <= slew_max (+inf allowed), 0 < slew_minimum_duration (+inf allowed) *)
Definition slew_cfg (c : cfg) : Prop :=
  PrimFloat.leb 0%float (c_slew_max c) = true /\ PrimFloat.ltb 0%float (c_slew_min_dur c) = true.

(* what the NaN-freeness needs of the configuration *)
Definition nan_cfg (c : cfg) : Prop :=
  PrimFloat.ltb 0%float (c_max_freq c) = true /\ PrimFloat.ltb (c_max_freq c) 1%float = true /\
  slew_cfg c /\ f_finite (c_slew_max c) = true /\ f_finite (c_freq_left c) = true.

(* ... and of the inputs *)
Definition op_ok (c : cfg) (o : op) : Prop :=
  match o with
  | Update None _ => True
  | Update (Some e) _ =>
      f_finite (e_p11 e) = true /\
      f_finite (PrimFloat.add (PrimFloat.abs (e_freq e)) (c_slew_max c)) = true
  | TimeUpdate => True
  | SteerOffset _ fd => f_finite fd = true
  | SteerFreq ch => f_is_nan ch = false
  end.

(* ------------------------------------------------------------------ *)
(* update_clock, decomposed once                                        *)

Definition upd_fdl (s : st) (e : est) := PrimFloat.sub (e_freq e) (desired_freq s).

Lemma update_clock_cases : forall ar c s e l cs r,
  update_clock ar c s e l = (cs, r) ->
  exists cs1 r1,
    ((exists ch, steer_offset ar c s ch (upd_fdl s e) = (cs1, r1)) \/
     (PrimFloat.ltb (PrimFloat.mul (PrimFloat.sqrt (e_p11 e)) (c_freq_thr c)) (PrimFloat.abs (upd_fdl s e)) = true /\
      steer_frequency c s
        (PrimFloat.sub (upd_fdl s e)
           (PrimFloat.mul (PrimFloat.mul (PrimFloat.sqrt (e_p11 e)) (c_freq_left c)) (f_signum (upd_fdl s e))))
        = (cs1, r1)) \/
     (cs1, r1) = ([], Ok s)) /\
    freqs_of cs = freqs_of cs1 /\
    (forall s', r = Ok s' -> exists s1, r1 = Ok s1 /\ s' = set_startup s1 false).
Proof.
  intros ar c s e l cs r H. unfold update_clock in H. cbv zeta in H.
  set (pre := if in_startup s then [DisableNtp] else []) in *.
  assert (Hpre : freqs_of pre = []) by (subst pre; destruct (in_startup s); reflexivity).
  unfold Controller.seq at 1 in H.
  match type of H with
  | (let (_, _) := Controller.seq ?steer ?k in _) = _ => remember steer as st0 eqn:Est; destruct st0 as [cs1 r1]
  end.
  exists cs1, r1. split; [| split].
  - symmetry in Est. fold (upd_fdl s e) in Est.
    destruct (_ && _) in Est.
    + left. eexists. exact Est.
    + destruct (PrimFloat.ltb _ _) eqn:E2 in Est.
      * right; left. split; [exact E2 | exact Est].
      * right; right. symmetry; exact Est.
  - assert (Hl : freqs_of (ErrEst :: (if l then [Status] else [])) = []) by (destruct l; reflexivity).
    unfold Controller.seq in H.
    destruct r1 as [s1 | e1 | p1]; cbn in H; inversion H; subst; clear H.
    + rewrite !freqs_of_app, Hpre, Hl, app_nil_r. reflexivity.
    + rewrite freqs_of_app, Hpre. reflexivity.
    + rewrite freqs_of_app, Hpre. reflexivity.
  - intros s' E. subst r. unfold Controller.seq in H.
    destruct r1 as [s1 | e1 | p1]; cbn in H; inversion H; subst; clear H.
    eexists; split; reflexivity.
Qed.

Lemma check_step_desired : forall ar c s d s', check_step ar c s d = Ok s' -> desired_freq s' = desired_freq s.
Proof.
  intros ar c s d s' H. unfold check_step in H.
  destruct (in_startup s).
  - destruct (is_within _ _ _); inversion H; auto.
  - destruct (negb _ || _); inversion H; auto.
Qed.

(* ------------------------------------------------------------------ *)
(* (1) every slew started leaves |desired_freq| <= slew_max             *)

Lemma slew_started_bound : forall ar c s ch fd cs s',
  slew_cfg c ->
  PrimFloat.ltb (c_step_threshold c) (PrimFloat.abs ch) = false ->
  steer_offset ar c s ch fd = (cs, Ok s') ->
  slew_ok c s'.
Proof.
  intros ar c s ch fd cs s' [Hs Hd] Hlt H.
  destruct (slew_started _ _ _ _ _ _ _ Hlt H) as [E N].
  unfold slew_ok. rewrite E, desired_abs by exact N. apply slew_freq_abs; auto.
Qed.

Lemma steer_offset_slew_ok : forall ar c s ch fd cs s',
  slew_cfg c -> slew_ok c s -> steer_offset ar c s ch fd = (cs, Ok s') -> slew_ok c s'.
Proof.
  intros ar c s ch fd cs s' Hc Hs H.
  destruct (PrimFloat.ltb (c_step_threshold c) (PrimFloat.abs ch)) eqn:Hlt.
  - unfold steer_offset in H. rewrite Hlt in H.
    destruct (check_step _ _ _ _) as [s1 | e1 | p1] eqn:E; inversion H; subst.
    unfold slew_ok. rewrite (check_step_desired _ _ _ _ _ E). exact Hs.
  - eapply slew_started_bound; eauto.
Qed.

Lemma leb_zero_abs_zero : forall m, PrimFloat.leb 0%float m = true ->
  PrimFloat.leb (PrimFloat.abs fzero) m = true.
Proof. intros m H. exact H. Qed.

Lemma step_slew_ok : forall ar c s o cs s',
  slew_cfg c -> slew_ok c s -> step ar c s o = (cs, Ok s') -> slew_ok c s'.
Proof.
  intros ar c s o cs s' Hc Hs H. destruct o as [[e |] l | | ch fd | ch]; cbn [step] in H.
  - apply update_clock_cases in H. destruct H as (cs1 & r1 & Hcase & _ & Hr).
    destruct (Hr s' eq_refl) as (s1 & E1 & E2). subst r1 s'.
    unfold slew_ok. cbn [set_startup desired_freq].
    destruct Hcase as [[ch Hcase] | [[_ Hcase] | Hcase]].
    + eapply steer_offset_slew_ok; eauto.
    + apply steer_frequency_effect in Hcase. destruct Hcase as [_ Hcase].
      destruct (Hcase s1 eq_refl) as (_ & _ & D). rewrite D. exact Hs.
    + inversion Hcase; subst. exact Hs.
  - inversion H; subst. exact Hs.
  - apply change_desired_effect in H. destruct H as [_ H].
    destruct (H s' eq_refl) as (_ & _ & D). unfold slew_ok. rewrite D.
    apply leb_zero_abs_zero. apply Hc.
  - eapply steer_offset_slew_ok; eauto.
  - apply steer_frequency_effect in H. destruct H as [_ H].
    destruct (H s' eq_refl) as (_ & _ & D). unfold slew_ok. rewrite D. exact Hs.
Qed.

Lemma run_slew_ok : forall ar c, slew_cfg c -> forall ops s s',
  slew_ok c s -> snd (run ar c s ops) = Ok s' -> slew_ok c s'.
Proof.
  intros ar c Hc. induction ops as [| o r IH]; intros s s' Hs H.
  - cbn in H. inversion H; subst. exact Hs.
  - cbn [run] in H. unfold Controller.seq in H.
    destruct (step ar c s o) as [cs rr] eqn:E.
    destruct rr as [s1 | e | p]; cbn [snd] in H; try discriminate.
    specialize (IH s1 s'). destruct (run ar c s1 r) as [cs2 r2]. cbn [snd] in *.
    apply IH; auto. eapply step_slew_ok; eauto.
Qed.

(* every state an operation of the history starts in *)
Lemma trace_slew_ok : forall ar c, slew_cfg c -> forall ops s,
  slew_ok c s -> Forall (fun x => slew_ok c (fst x)) (fst (trace ar c s ops)).
Proof.
  intros ar c Hc. induction ops as [| o r IH]; intros s Hs; [constructor |].
  rewrite trace_cons. destruct (step ar c s o) as [cs rr] eqn:E.
  destruct rr as [s1 | e | p].
  - specialize (IH s1 (step_slew_ok _ _ _ _ _ _ Hc Hs E)).
    destruct (trace ar c s1 r) as [t x]. cbn [fst] in *. constructor; auto.
  - cbn. constructor; auto.
  - cbn. constructor; auto.
Qed.


Lemma slew_bound_all : forall ar c ops s,
  slew_cfg c -> slew_ok c s ->
  Forall (fun x => slew_ok c (fst x)) (fst (trace ar c s ops)) /\
  (forall s', snd (run ar c s ops) = Ok s' -> slew_ok c s').
Proof.
  intros ar c ops s Hc Hs. split.
  - apply trace_slew_ok; auto.
  - intros s' H. eapply run_slew_ok; eauto.
Qed.

(* ------------------------------------------------------------------ *)
(* (2) no NaN is handed to set_frequency                                *)

Lemma le_finite : forall d m, f_finite m = true -> PrimFloat.leb (PrimFloat.abs d) m = true ->
  f_finite d = true.
Proof. intros d m Fm H. rewrite f_finite_spec. apply (abs_le_finite _ _ Fm H). Qed.

Definition nan_effect (c : cfg) (s : st) (cs : list call) (r : res st) : Prop :=
  Forall nonnan (freqs_of cs) /\ (forall s', r = Ok s' -> freq_ok s').

Lemma steer_frequency_nonan : forall c s ch cs r,
  nan_cfg c -> freq_ok s -> f_is_nan ch = false ->
  steer_frequency c s ch = (cs, r) -> nan_effect c s cs r.
Proof.
  intros c s ch cs r (M0 & M1 & _) [Ff Hf] Nc H. unfold steer_frequency in H.
  destruct (f_clamp _ _ _) as [nf | e | p] eqn:E; inversion H; subst; clear H;
    try (split; [constructor | intros; discriminate]).
  destruct (clamp_range _ _ _ _ E) as [[N _] | (_ & A & B)].
  - rewrite (arg_nn _ _ Ff Hf Nc) in N. discriminate.
  - split.
    + cbn. constructor; [| constructor]. apply (leb_not_nan _ _ B).
    + intros s' E'. inversion E'; subst. unfold freq_ok. cbn [set_freq_offset freq_offset].
      eapply range_ok; eauto.
Qed.

Lemma change_desired_nonan : forall c s nf fd cs r,
  nan_cfg c -> freq_ok s -> f_finite (desired_freq s) = true -> f_finite nf = true -> f_finite fd = true ->
  change_desired_frequency c s nf fd = (cs, r) -> nan_effect c s cs r.
Proof.
  intros c s nf fd cs r Hc Hf Fd Fn Ff H. unfold change_desired_frequency in H.
  eapply steer_frequency_nonan in H; eauto.
  apply change_nn; auto.
Qed.

Lemma duration_ok_nonnan : forall ch fr u,
  duration_check (PrimFloat.div (PrimFloat.abs ch) fr) = Ok u -> f_is_nan ch = false.
Proof.
  intros ch fr u D. destruct (f_is_nan ch) eqn:N; auto. exfalso.
  unfold duration_check in D.
  assert (Nq : f_is_nan (PrimFloat.div (PrimFloat.abs ch) fr) = true).
  { rewrite nan_prim, div_equiv, abs_equiv. rewrite nan_prim in N.
    destruct (Prim2B ch); try discriminate. reflexivity. }
  rewrite (ltb_nan_l _ _ Nq) in D. rewrite (ltb_nan_l _ _ Nq) in D. discriminate.
Qed.

Lemma steer_offset_nonan : forall ar c s ch fd cs r,
  nan_cfg c -> freq_ok s -> slew_ok c s -> f_finite fd = true ->
  steer_offset ar c s ch fd = (cs, r) -> nan_effect c s cs r.
Proof.
  intros ar c s ch fd cs r Hc Hf Hs Ff H.
  pose proof Hc as (_ & _ & [S0 D0] & Fs & _).
  unfold steer_offset in H.
  destruct (PrimFloat.ltb _ _).
  - destruct (check_step _ _ _ _) as [s1 | e1 | p1] eqn:E; inversion H; subst;
      (split; [constructor | intros s' E'; try discriminate]).
    inversion E'; subst. unfold freq_ok. rewrite (check_step_freq _ _ _ _ _ E). exact Hf.
  - destruct (duration_check _) as [u | e1 | p1] eqn:D;
      try (inversion H; subst; split; [constructor | intros; discriminate]).
    apply duration_ok_nonnan in D.
    eapply change_desired_nonan; [exact Hc | exact Hf | | | exact Ff | exact H].
    + apply le_finite with (m := c_slew_max c); auto.
    + apply le_finite with (m := c_slew_max c); auto.
      rewrite desired_abs by exact D. apply slew_freq_abs; auto.
Qed.

Lemma nan_effect_startup : forall c s cs1 s1,
  nan_effect c s cs1 (Ok s1) -> freq_ok (set_startup s1 false).
Proof. intros c s cs1 s1 [_ H]. apply (H s1 eq_refl). Qed.

Lemma update_clock_nonan : forall ar c s e l cs r,
  nan_cfg c -> freq_ok s -> slew_ok c s -> op_ok c (Update (Some e) l) ->
  update_clock ar c s e l = (cs, r) -> nan_effect c s cs r.
Proof.
  intros ar c s e l cs r Hc Hf Hs [Fp Fe] H.
  pose proof Hc as (_ & _ & _ & Fs & Fl).
  assert (Fd : f_finite (upd_fdl s e) = true) by (unfold upd_fdl; eapply delta_finite; eauto).
  apply update_clock_cases in H. destruct H as (cs1 & r1 & Hcase & Hfq & Hr).
  assert (N1 : nan_effect c s cs1 r1).
  { destruct Hcase as [[ch Hcase] | [[Hlt Hcase] | Hcase]].
    - eapply steer_offset_nonan; eauto.
    - eapply steer_frequency_nonan; eauto. eapply upd_change_nn; eauto.
    - inversion Hcase; subst. split; [constructor |]. intros s' E; inversion E; subst; auto. }
  split.
  - rewrite Hfq. apply N1.
  - intros s' E. destruct (Hr s' E) as (s1 & E1 & E2). subst r1 s'.
    eapply nan_effect_startup; eauto.
Qed.

Lemma step_nonan : forall ar c s o cs r,
  nan_cfg c -> freq_ok s -> slew_ok c s -> op_ok c o ->
  step ar c s o = (cs, r) -> nan_effect c s cs r.
Proof.
  intros ar c s o cs r Hc Hf Hs Ho H.
  pose proof Hc as (_ & _ & [S0 D0] & Fs & _).
  destruct o as [[e |] l | | ch fd | ch]; cbn [step] in H.
  - eapply update_clock_nonan; [exact Hc | exact Hf | exact Hs | exact Ho | exact H].
  - inversion H; subst. split; [constructor |]. intros s' E; inversion E; subst; auto.
  - eapply change_desired_nonan; [exact Hc | exact Hf | | | | exact H]; try reflexivity.
    apply le_finite with (m := c_slew_max c); auto.
  - eapply steer_offset_nonan; [exact Hc | exact Hf | exact Hs | exact Ho | exact H].
  - eapply steer_frequency_nonan; [exact Hc | exact Hf | exact Ho | exact H].
Qed.

Lemma run_nonan : forall ar c, nan_cfg c -> forall ops s,
  freq_ok s -> slew_ok c s -> Forall (op_ok c) ops ->
  Forall nonnan (freqs_of (fst (run ar c s ops))).
Proof.
  intros ar c Hc. pose proof Hc as (_ & _ & Hsc & _).
  induction ops as [| o r IH]; intros s Hf Hs Ho; [constructor |].
  inversion Ho as [| ? ? Ho1 Ho2]; subst.
  cbn [run]. unfold Controller.seq.
  destruct (step ar c s o) as [cs rr] eqn:E.
  pose proof (step_nonan _ _ _ _ _ _ Hc Hf Hs Ho1 E) as [F1 F2].
  destruct rr as [s1 | e | p]; cbn [fst]; auto.
  specialize (IH s1 (F2 s1 eq_refl) (step_slew_ok _ _ _ _ _ _ Hsc Hs E) Ho2).
  destruct (run ar c s1 r) as [cs2 r2]. cbn [fst] in *.
  rewrite freqs_of_app. apply Forall_app. split; auto.
Qed.

(* the full statement: every applied frequency is a number within +-M *)
Definition freq_within (c : cfg) (f : PrimFloat.float) : Prop :=
  f_is_nan f = false /\
  PrimFloat.leb (PrimFloat.opp (c_max_freq c)) f = true /\ PrimFloat.leb f (c_max_freq c) = true.

Lemma run_freqs_within : forall ar c ops s,
  nan_cfg c -> freq_ok s -> slew_ok c s -> Forall (op_ok c) ops ->
  Forall (freq_within c) (freqs_of (fst (run ar c s ops))).
Proof.
  intros ar c ops s Hc Hf Hs Ho.
  pose proof (run_nonan ar c Hc ops s Hf Hs Ho) as A.
  pose proof (run_freqs_in_range ar c ops s) as R.
  rewrite Forall_forall in *. intros f I. specialize (A f I). specialize (R f I).
  destruct R as [R | R]; [unfold nonnan in A; congruence |].
  split; [exact A | exact R].
Qed.


Definition cfg_floats (c : cfg) : list PrimFloat.float :=
  [c_step_threshold c; c_slew_max c; c_slew_min_dur c; c_max_freq c; c_off_thr c; c_off_left c;
   c_freq_thr c; c_freq_left c].
Definition op_floats (o : op) : list PrimFloat.float :=
  match o with
  | Update None _ => []
  | Update (Some e) _ => [e_off e; e_freq e; e_p00 e; e_p11 e]
  | TimeUpdate => []
  | SteerOffset a b => [a; b]
  | SteerFreq a => [a]
  end.

Definition nan_witness_cfg : cfg :=
  {| c_startup := no_thr; c_single := no_thr; c_acc := None;
     c_step_threshold := 1.7e308%float; c_slew_max := 1e308%float; c_slew_min_dur := 1%float;
     c_max_freq := 0.5%float; c_off_thr := 1%float; c_off_left := 1%float;
     c_freq_thr := 1%float; c_freq_left := 1e200%float |}.
Definition nan_witness_ops : list op :=
  [SteerOffset 1.5e308%float 0%float;
   Update (Some {| e_off := 0%float; e_freq := 1e308%float; e_p00 := 0%float; e_p11 := 1e300%float |}) false].

Lemma no_nan_refuted :
  exists c f0 ops,
    forallb f_finite (cfg_floats c) = true /\
    forallb (PrimFloat.ltb 0%float) (cfg_floats c) = true /\
    PrimFloat.ltb (c_max_freq c) 1%float = true /\
    f_finite f0 = true /\ PrimFloat.ltb (-1)%float f0 = true /\
    forallb f_finite (flat_map op_floats ops) = true /\
    existsb f_is_nan (freqs_of (fst (run repo_arith c (init_st f0) ops))) = true.
Proof.
  exists nan_witness_cfg, 0%float, nan_witness_ops. vm_compute. repeat split.
Qed.


(* a history for the non-vacuity example of Props/C02.v: a frequency steer, a slew, a consensus update while the
   slew runs, the end of the slew, and two infinite (non-NaN) requests *)
Definition nv_ops : list op :=
  [SteerFreq 1e-9%float; SteerOffset 0.009%float 1e-7%float;
   Update (Some {| e_off := 1e-4%float; e_freq := 2e-6%float; e_p00 := 1e-10%float; e_p11 := 1e-16%float |}) true;
   TimeUpdate; SteerFreq infinity; SteerFreq neg_infinity].
