(* C31, part 3: sorting, the split into nibble segments, and what the
   inset / outset bitmaps of one node mean. *)
From V Require Import Model.IpFilter Gen.ConstIpFilter Proofs.IpFilterArith Proofs.IpFilterPrefix.
From Coq Require Import ZifyBool Sorting.Sorted Permutation.

(* ---- data.sort() ---- *)
Lemma insert_perm : forall x l, Permutation (insert_sorted x l) (x :: l).
Proof.
  induction l as [| y r IH]; simpl. reflexivity.
  destruct (entry_leb x y). reflexivity.
  rewrite IH. apply perm_swap.
Qed.

Lemma sort_perm : forall l, Permutation (sort_entries l) l.
Proof.
  induction l; simpl. reflexivity. rewrite insert_perm. constructor. exact IHl.
Qed.

Lemma insert_ssorted : forall x l, StronglySorted entry_le l -> StronglySorted entry_le (insert_sorted x l).
Proof.
  induction l as [| y r IH]; simpl; intros H.
  - constructor; constructor.
  - destruct (entry_leb x y) eqn:E.
    + apply entry_leb_le in E. inversion H; subst. constructor. exact H.
      constructor. exact E. eapply Forall_impl; [| exact H3]. intros z Hz. eapply entry_le_trans; eauto.
    + apply entry_le_total in E. inversion H; subst. constructor. apply IH; assumption.
      eapply Permutation_Forall. symmetry. apply insert_perm. constructor; assumption.
Qed.

Lemma sort_ssorted : forall l, StronglySorted entry_le (sort_entries l).
Proof. induction l; simpl. constructor. apply insert_ssorted. exact IHl. Qed.

(* ---- generic list facts ---- *)
Lemma ssorted_filter : forall (A : Type) (R : A -> A -> Prop) f l,
  StronglySorted R l -> StronglySorted R (filter f l).
Proof.
  induction l; simpl; intros H. constructor. inversion H; subst.
  destruct (f a). constructor. auto. apply Forall_forall. intros x Hx. apply filter_In in Hx.
  rewrite Forall_forall in H3. apply H3. tauto. auto.
Qed.

Lemma ssorted_map : forall (A B : Type) (R : A -> A -> Prop) (S : B -> B -> Prop) (g : A -> B) l,
  (forall x y, In x l -> In y l -> R x y -> S (g x) (g y)) ->
  StronglySorted R l -> StronglySorted S (map g l).
Proof.
  induction l; simpl; intros Hg H. constructor. inversion H; subst. constructor.
  - apply IHl; auto.
  - apply Forall_forall. intros y Hy. apply in_map_iff in Hy. destruct Hy as (x & <- & Hx).
    rewrite Forall_forall in H3. apply Hg; auto.
Qed.

Lemma firstn_app_exact : forall (A : Type) (l1 l2 : list A), firstn (length l1) (l1 ++ l2) = l1.
Proof. induction l1; simpl; intros. reflexivity. f_equal. apply IHl1. Qed.

Lemma skipn_app_exact : forall (A : Type) (l1 l2 : list A), skipn (length l1) (l1 ++ l2) = l2.
Proof. induction l1; simpl; intros. reflexivity. apply IHl1. Qed.

Lemma filter_none : forall (A : Type) (f : A -> bool) l, (forall x, In x l -> f x = false) -> filter f l = [].
Proof.
  induction l; simpl; intros. reflexivity. rewrite H by auto. apply IHl. auto.
Qed.

Lemma filter_all : forall (A : Type) (f : A -> bool) l, (forall x, In x l -> f x = true) -> filter f l = l.
Proof.
  induction l; simpl; intros. reflexivity. rewrite H by auto. f_equal. apply IHl. auto.
Qed.

Lemma filter_filter_sub : forall (A : Type) (f g : A -> bool) l,
  (forall x, f x = true -> g x = true) -> filter f (filter g l) = filter f l.
Proof.
  induction l; simpl; intros H. reflexivity.
  destruct (g a) eqn:G; simpl.
  - destruct (f a); rewrite IHl; auto.
  - destruct (f a) eqn:F. apply H in F. congruence. auto.
Qed.

Lemma combine_map_r : forall (A B : Type) (f : A -> B) l, combine l (map f l) = map (fun x => (x, f x)) l.
Proof. induction l; simpl. reflexivity. f_equal. exact IHl. Qed.

Lemma existsb_map : forall (A B : Type) (f : B -> bool) (g : A -> B) l,
  existsb f (map g l) = existsb (fun x => f (g x)) l.
Proof. induction l; simpl. reflexivity. rewrite IHl. reflexivity. Qed.

Lemma existsb_ext_in : forall (A : Type) (f g : A -> bool) l,
  (forall x, In x l -> f x = g x) -> existsb f l = existsb g l.
Proof. induction l; simpl; intros. reflexivity. rewrite H, IHl; auto. Qed.

Lemma existsb_perm : forall (A : Type) (f : A -> bool) l1 l2, Permutation l1 l2 -> existsb f l1 = existsb f l2.
Proof.
  intros A f l1 l2 H. induction H; simpl.
  - reflexivity.
  - rewrite IHPermutation. reflexivity.
  - destruct (f x), (f y); reflexivity.
  - congruence.
Qed.

(* ---- the nibble segments ---- *)
Definition key (e : entry) : Z := top_nibble (fst e).
Arguments key : simpl never.
Arguments top_nibble : simpl never.
Definition key_le (a b : entry) : Prop := key a <= key b.
Definition seg_of (data : list entry) (i : Z) : list entry := filter (fun e => key e =? i) data.

Lemma entry_le_key : forall a b, in128 (fst a) -> in128 (fst b) -> entry_le a b -> key_le a b.
Proof.
  intros [v1 l1] [v2 l2] H1 H2 H. unfold key_le, key, entry_le in *. cbn [fst snd] in *.
  rewrite !top_nibble_div by auto. apply Z.div_le_mono. reflexivity. lia.
Qed.

Lemma sorted_keys : forall data, (forall e, In e data -> in128 (fst e)) ->
  StronglySorted entry_le data -> StronglySorted key_le data.
Proof.
  intros data Hw H. rewrite <- (map_id data). eapply ssorted_map; [| exact H].
  intros. apply entry_le_key; auto.
Qed.

(* a key-sorted list whose keys are all >= a starts with exactly its key-a elements *)
Lemma head_split : forall a rem, StronglySorted key_le rem -> (forall e, In e rem -> a <= key e) ->
  rem = filter (fun e => key e =? a) rem ++ filter (fun e => negb (key e =? a)) rem.
Proof.
  induction rem as [| x r IH]; intros Hs Hk. reflexivity.
  inversion Hs; subst. cbn [filter]. destruct (Z.eqb_spec (key x) a); cbn [negb app].
  - f_equal. apply IH; auto. intros; apply Hk; right; assumption.
  - assert (Hgt : forall e, In e r -> (key e =? a) = false).
    { intros e He. rewrite Forall_forall in H2. specialize (H2 e He). unfold key_le in H2.
      specialize (Hk x (or_introl eq_refl)). lia. }
    rewrite filter_none by exact Hgt. cbn [app]. f_equal. symmetry. apply filter_all.
    intros e He. rewrite Hgt by exact He. reflexivity.
Qed.

Lemma split_spec : forall n a data rem,
  StronglySorted key_le rem -> (forall e, In e rem -> Z.of_nat a <= key e) ->
  (forall i, Z.of_nat a <= i -> filter (fun e => key e =? i) rem = seg_of data i) ->
  split_segments (map (fun i => nib_count i data) (map Z.of_nat (seq a n))) rem =
  Ok (map (seg_of data) (map Z.of_nat (seq a n))).
Proof.
  induction n; intros a data rem Hs Hk Hf. reflexivity.
  simpl seq. simpl map. simpl split_segments.
  set (c := nib_count (Z.of_nat a) data).
  assert (Hc : c = length (filter (fun e => key e =? Z.of_nat a) rem)).
  { unfold c, nib_count. rewrite Hf by lia. reflexivity. }
  pose proof (head_split (Z.of_nat a) rem Hs Hk) as Hsplit.
  set (l1 := filter (fun e => key e =? Z.of_nat a) rem) in *.
  set (l2 := filter (fun e => negb (key e =? Z.of_nat a)) rem) in *.
  assert (Hlen : (length rem <? c)%nat = false).
  { apply Nat.ltb_ge. rewrite Hsplit, app_length. lia. }
  assert (HS : skipn c rem = l2 /\ firstn c rem = l1).
  { rewrite Hc. clear Hc Hlen. clearbody l1 l2. clear c. subst rem. split; [apply skipn_app_exact | apply firstn_app_exact]. }
  destruct HS as [HS1 HS2]. rewrite Hlen, HS1, HS2.
  rewrite (IHn (S a) data l2).
  - simpl. unfold l1. rewrite Hf by lia. reflexivity.
  - apply ssorted_filter. exact Hs.
  - intros e He. apply filter_In in He. destruct He as [He Hne]. specialize (Hk e He). lia.
  - intros i Hi. unfold l2. rewrite filter_filter_sub. apply Hf; lia. intros x Hx. lia.
Qed.

Lemma key_range : forall e, in128 (fst e) -> 0 <= key e < 16.
Proof. intros. apply top_nibble_range. assumption. Qed.

Lemma segments_spec : forall data, (forall e, In e data -> in128 (fst e)) -> StronglySorted entry_le data ->
  split_segments (counts data) data = Ok (map (seg_of data) (zseq 16)).
Proof.
  intros data Hw Hs. unfold counts, zseq. apply split_spec.
  - apply sorted_keys; assumption.
  - intros e He. pose proof (key_range e (Hw e He)). lia.
  - reflexivity.
Qed.

Lemma in_seg_of : forall data i e, In e (seg_of data i) <-> In e data /\ key e = i.
Proof. intros. unfold seg_of. rewrite filter_In, Z.eqb_eq. tauto. Qed.

Lemma seg_of_head_min : forall data i e rest, StronglySorted entry_le data ->
  seg_of data i = e :: rest -> forall e', In e' (seg_of data i) -> entry_le e e'.
Proof.
  intros data i e rest Hs He e' Hin. pose proof (ssorted_filter _ entry_le (fun e => key e =? i) data Hs) as H.
  fold (seg_of data i) in H. rewrite He in *. inversion H; subst. destruct Hin as [<- | Hin].
  apply entry_le_refl. rewrite Forall_forall in H3. auto.
Qed.

(* ---- the bitmaps computed by the first loop of fill_node ---- *)
Definition in_contrib (i : Z) (seg : list entry) (n : Z) : bool :=
  match seg with
  | [] => false
  | (_, len) :: _ =>
    if len <=? NIBBLE_BITS then (i <=? n) && (n <? i + 2 ^ (NIBBLE_BITS - len))
    else (n =? i) && (2 ^ TOP_SHIFT <=? sweep i seg)
  end.
Definition out_contrib (i : Z) (seg : list entry) (n : Z) : bool :=
  match seg with [] => n =? i | _ => false end.

Lemma run_bits : forall (m : nat) i ins n, 0 <= i -> i + Z.of_nat m <= 16 -> 0 <= n < 16 ->
  Z.testbit (fold_left (fun acc j => Z.lor acc (shl 16 1 (i + j))) (zseq m) ins) n =
  Z.testbit ins n || ((i <=? n) && (n <? i + Z.of_nat m)).
Proof.
  induction m; intros i ins n Hi Hm Hn.
  - simpl. destruct (Z.testbit ins n); simpl; lia.
  - rewrite zseq_S, fold_left_app. simpl fold_left at 1. rewrite Z.lor_spec, IHm by lia.
    rewrite shl16_one, Z.pow2_bits_eqb by lia. destruct (Z.testbit ins n); simpl; lia.
Qed.

Definition seg_side (i : Z) (seg : list entry) : Prop :=
  0 <= i < 16 /\ forall v len rest, seg = (v, len) :: rest -> len <= 4 -> 0 <= len /\ i + 2 ^ (4 - len) <= 16.

Lemma seg_step_bits : forall ins outs i seg n, 0 <= n < 16 -> seg_side i seg ->
  Z.testbit (fst (seg_step (ins, outs) (i, seg))) n = Z.testbit ins n || in_contrib i seg n /\
  Z.testbit (snd (seg_step (ins, outs) (i, seg))) n = Z.testbit outs n || out_contrib i seg n.
Proof.
  intros ins outs i seg n Hn [Hi Hside]. unfold seg_step, in_contrib, out_contrib, NIBBLE_BITS, TOP_SHIFT.
  destruct seg as [| [v len] rest]; cbn [fst snd].
  - rewrite Z.lor_spec, shl16_one, Z.pow2_bits_eqb by lia. rewrite orb_false_r. split. reflexivity.
    rewrite (Z.eqb_sym n i). reflexivity.
  - destruct (Z.leb_spec len 4); cbn [fst snd].
    + destruct (Hside v len rest eq_refl H) as [Hl0 Hb].
      assert (0 < 2 ^ (4 - len)) by (apply Z.pow_pos_nonneg; lia).
      rewrite run_bits by lia. rewrite Z2Nat.id by lia. rewrite orb_false_r. split; reflexivity.
    + match goal with |- context [2 ^ 124 <=? ?s] => destruct (Z.leb_spec (2 ^ 124) s) end; cbn [fst snd].
      * rewrite Z.lor_spec, shl16_one, Z.pow2_bits_eqb by lia. rewrite andb_true_r, orb_false_r, (Z.eqb_sym n i).
        split; reflexivity.
      * rewrite andb_false_r, !orb_false_r. split; reflexivity.
Qed.

Lemma fold_seg_bits : forall l ins outs n, 0 <= n < 16 ->
  (forall p, In p l -> seg_side (fst p) (snd p)) ->
  Z.testbit (fst (fold_left seg_step l (ins, outs))) n =
    Z.testbit ins n || existsb (fun p => in_contrib (fst p) (snd p) n) l /\
  Z.testbit (snd (fold_left seg_step l (ins, outs))) n =
    Z.testbit outs n || existsb (fun p => out_contrib (fst p) (snd p) n) l.
Proof.
  induction l as [| [i seg] l IH]; intros ins outs n Hn Hs.
  - simpl. rewrite !orb_false_r. split; reflexivity.
  - cbn [fold_left existsb fst snd].
    destruct (seg_step_bits ins outs i seg n Hn (Hs (i, seg) (or_introl eq_refl))) as [E1 E2].
    destruct (seg_step (ins, outs) (i, seg)) as [ins' outs'] eqn:ES. cbn [fst snd] in E1, E2.
    destruct (IH ins' outs' n Hn (fun p H => Hs p (or_intror H))) as [F1 F2].
    rewrite F1, F2, E1, E2, !orb_assoc. split; reflexivity.
Qed.

(* ---- meaning of the bitmaps of the node built from [data] ---- *)
Definition isegs_of (data : list entry) : list (Z * list entry) :=
  map (fun i => (i, seg_of data i)) (zseq 16).
Definition node_ins (data : list entry) : Z := fst (fold_left seg_step (isegs_of data) (0, 0)).
Definition node_outs0 (data : list entry) : Z := snd (fold_left seg_step (isegs_of data) (0, 0)).
Definition node_outs (data : list entry) : Z := Z.land (node_outs0 data) (not16 (node_ins data)).
Definition node_known (data : list entry) : Z := Z.lor (node_ins data) (node_outs data).

Lemma nibble_lower : forall v, in128 v -> top_nibble v * 2 ^ 124 <= v < top_nibble v * 2 ^ 124 + 2 ^ 124.
Proof. intros v H. rewrite top_nibble_div by auto. unfold in128 in H. norm_pows. dm. lia. Qed.

Section NodeSem.
  Variable data : list entry.
  Hypothesis Hwf : forall e, In e data -> wf_entry e.
  Hypothesis Hsorted : StronglySorted entry_le data.

  Lemma seg_wf : forall i e, In e (seg_of data i) -> wf_entry e /\ key e = i.
  Proof. intros i e H. apply in_seg_of in H. destruct H. split; auto. Qed.

  Lemma isegs_side : forall p, In p (isegs_of data) -> seg_side (fst p) (snd p).
  Proof.
    intros p Hp. unfold isegs_of in Hp. apply in_map_iff in Hp. destruct Hp as (i & <- & Hi).
    apply in_zseq in Hi. cbn [fst snd]. split. lia.
    intros v len rest E Hl. assert (Hin : In (v, len) (seg_of data i)) by (rewrite E; left; reflexivity).
    destruct (seg_wf i _ Hin) as [W K]. pose proof W as (_ & Hl0 & _). cbn [fst snd] in *.
    destruct (short_prefix (v, len) 0 W Hl) as (_ & Hb & _). unfold in128; norm_pows; lia.
    unfold key in K. cbn [fst snd] in *. rewrite K in Hb. lia.
  Qed.

  Lemma ins_bit : forall n, 0 <= n < 16 ->
    Z.testbit (node_ins data) n = existsb (fun i => in_contrib i (seg_of data i) n) (zseq 16).
  Proof.
    intros n Hn. unfold node_ins. destruct (fold_seg_bits (isegs_of data) 0 0 n Hn isegs_side) as [E _].
    rewrite E, Z.bits_0, orb_false_l. clear E. unfold isegs_of. rewrite existsb_map. reflexivity.
  Qed.

  Lemma outs0_bit : forall n, 0 <= n < 16 ->
    Z.testbit (node_outs0 data) n = match seg_of data n with [] => true | _ => false end.
  Proof.
    intros n Hn. unfold node_outs0. destruct (fold_seg_bits (isegs_of data) 0 0 n Hn isegs_side) as [_ E].
    rewrite E, Z.bits_0, orb_false_l. clear E. unfold isegs_of. rewrite existsb_map. cbn [fst snd].
    destruct (seg_of data n) eqn:S.
    - apply existsb_exists. exists n. split. apply in_zseq. lia. unfold out_contrib. rewrite S. apply Z.eqb_refl.
    - destruct (existsb _ _) eqn:X; auto. apply existsb_exists in X. destruct X as (i & _ & Hc).
      unfold out_contrib in Hc. destruct (seg_of data i) eqn:S'; try discriminate.
      apply Z.eqb_eq in Hc. subst. congruence.
  Qed.

  Lemma outs_bit : forall n, 0 <= n < 16 ->
    Z.testbit (node_outs data) n = Z.testbit (node_outs0 data) n && negb (Z.testbit (node_ins data) n).
  Proof. intros. unfold node_outs. rewrite Z.land_spec, not16_spec by lia. reflexivity. Qed.

  Lemma known_bit : forall n, 0 <= n < 16 ->
    Z.testbit (node_known data) n = Z.testbit (node_ins data) n || Z.testbit (node_outs data) n.
  Proof. intros. unfold node_known. apply Z.lor_spec. Qed.

  (* when the first prefix of a segment is longer than 4 bits, all of them are *)
  Lemma seg_long : forall i v len rest, seg_of data i = (v, len) :: rest -> 4 < len ->
    forall e', In e' (seg_of data i) -> 4 < snd e'.
  Proof.
    intros i v len rest E Hl e' Hin. destruct (Z.lt_ge_cases 4 (snd e')) as [| Hs]; auto. exfalso.
    pose proof (seg_of_head_min data i _ _ Hsorted E e' Hin) as Hle.
    assert (Hin0 : In (v, len) (seg_of data i)) by (rewrite E; left; reflexivity).
    destruct (seg_wf i _ Hin) as [W' K']. destruct (seg_wf i _ Hin0) as [W K].
    destruct (short_prefix e' 0 W' ltac:(lia)) as (Hv' & _ & _). unfold in128; norm_pows; lia.
    destruct W as (Hv & _). pose proof (nibble_lower v Hv) as Hlow.
    unfold key in K, K'. cbn [fst snd] in *. rewrite K in Hlow. rewrite K' in Hv'.
    unfold entry_le in Hle. cbn [fst snd] in Hle. lia.
  Qed.

  (* a short prefix that contains [a] marks a's nibble in the inset *)
  Lemma short_hit : forall e' a, In e' data -> snd e' <= 4 -> in128 a -> econtains a e' = true ->
    Z.testbit (node_ins data) (top_nibble a) = true.
  Proof.
    intros e' a Hin Hs Ha Hc. pose proof (top_nibble_range a Ha) as Hn.
    pose proof (Hwf e' Hin) as W'. pose proof (key_range e' (proj1 W')) as Hj.
    rewrite ins_bit by lia. apply existsb_exists. exists (key e'). split. apply in_zseq. lia.
    assert (Hin' : In e' (seg_of data (key e'))) by (apply in_seg_of; auto).
    destruct (seg_of data (key e')) as [| [v len] rest] eqn:E. destruct Hin'.
    pose proof (seg_of_head_min data _ _ _ Hsorted E e' ltac:(rewrite E; exact Hin')) as Hle.
    assert (Hin0 : In (v, len) (seg_of data (key e'))) by (rewrite E; left; reflexivity).
    destruct (seg_wf _ _ Hin0) as [W K].
    destruct (short_prefix e' a W' Hs Ha) as (Hv' & Hb' & Hc'). rewrite Hc in Hc'.
    pose proof W as (Hv & Hl & _). pose proof (nibble_lower v Hv) as Hlow.
    unfold key in *. cbn [fst snd] in *. rewrite K in Hlow.
    assert (Hlen : len <= snd e') by (unfold entry_le in Hle; cbn [fst snd] in Hle; lia).
    unfold in_contrib, NIBBLE_BITS. destruct (Z.leb_spec len 4); [| lia].
    assert (2 ^ (4 - snd e') <= 2 ^ (4 - len)) by (apply Z.pow_le_mono_r; destruct W' as (_ & ? & _); lia).
    lia.
  Qed.

  (* (a) a nibble in the inset: every address below it is listed *)
  Lemma ins_sound : forall a, in128 a -> Z.testbit (node_ins data) (top_nibble a) = true ->
    existsb (econtains a) data = true.
  Proof.
    intros a Ha Hb. pose proof (top_nibble_range a Ha) as Hn. rewrite ins_bit in Hb by lia.
    apply existsb_exists in Hb. destruct Hb as (i & Hi & Hc). apply in_zseq in Hi.
    unfold in_contrib, NIBBLE_BITS in Hc. destruct (seg_of data i) as [| [v len] rest] eqn:E; try discriminate.
    assert (Hin0 : In (v, len) (seg_of data i)) by (rewrite E; left; reflexivity).
    destruct (seg_wf _ _ Hin0) as [W K]. apply existsb_exists.
    destruct (Z.leb_spec len 4).
    - exists (v, len). split. apply in_seg_of in Hin0. tauto.
      destruct (short_prefix (v, len) a W H Ha) as (_ & _ & ->). unfold key in K. cbn [fst snd] in *. rewrite K. exact Hc.
    - apply andb_prop in Hc. destruct Hc as [Hc1 Hc2]. apply Z.eqb_eq in Hc1. apply Z.leb_le in Hc2.
      destruct (sweep_sound i (seg_of data i) a ltac:(lia) Ha ltac:(lia)) as (e & He & Hce).
      + intros e He. destruct (seg_wf _ _ He). split; auto. split; auto. eapply seg_long; eauto.
      + rewrite E. exact Hc2.
      + exists e. split; auto. apply in_seg_of in He. tauto.
  Qed.

  (* prefixes longer than 4 bits that contain [a] are in a's segment *)
  Lemma long_hit : forall e' a, In e' data -> 4 < snd e' -> in128 a -> econtains a e' = true ->
    In e' (seg_of data (top_nibble a)).
  Proof.
    intros e' a Hin Hl Ha Hc. destruct (long_prefix e' a (Hwf e' Hin) Hl Ha) as (_ & Hn & _).
    apply in_seg_of. split; auto. unfold key. symmetry. auto.
  Qed.

  (* (b) a nibble in the outset: no address below it is listed *)
  Lemma outs_sound : forall a, in128 a -> Z.testbit (node_outs data) (top_nibble a) = true ->
    existsb (econtains a) data = false.
  Proof.
    intros a Ha Hb. pose proof (top_nibble_range a Ha) as Hn. rewrite outs_bit, outs0_bit in Hb by lia.
    apply andb_prop in Hb. destruct Hb as [Hempty Hni].
    destruct (existsb (econtains a) data) eqn:X; auto. exfalso.
    apply existsb_exists in X. destruct X as (e' & Hin & Hc).
    destruct (Z.lt_ge_cases 4 (snd e')).
    - pose proof (long_hit e' a Hin H Ha Hc) as Hs. destruct (seg_of data (top_nibble a)). destruct Hs. discriminate.
    - rewrite (short_hit e' a Hin ltac:(lia) Ha Hc) in Hni. discriminate.
  Qed.

  (* (c) an undecided nibble: the decision is that of the shifted segment *)
  Lemma undecided : forall a, in128 a -> Z.testbit (node_known data) (top_nibble a) = false ->
    (forall e, In e (seg_of data (top_nibble a)) -> 4 < snd e) /\
    existsb (econtains a) data =
    existsb (econtains (shl 128 a 4)) (map shift_entry (seg_of data (top_nibble a))).
  Proof.
    intros a Ha Hb. pose proof (top_nibble_range a Ha) as Hn. set (n := top_nibble a) in *.
    rewrite known_bit, outs_bit, outs0_bit in Hb by lia.
    apply orb_false_iff in Hb. destruct Hb as [Hi Ho]. rewrite Hi in Ho. simpl in Ho. rewrite andb_true_r in Ho.
    destruct (seg_of data n) as [| [v len] rest] eqn:E; try discriminate.
    assert (Hlen : 4 < len).
    { destruct (Z.lt_ge_cases 4 len); auto. exfalso.
      rewrite ins_bit in Hi by lia. assert (X : existsb (fun i => in_contrib i (seg_of data i) n) (zseq 16) = true).
      { apply existsb_exists. exists n. split. apply in_zseq; lia. unfold in_contrib, NIBBLE_BITS. rewrite E.
        destruct (Z.leb_spec len 4); [| lia].
        assert (0 < 2 ^ (4 - len)). { apply Z.pow_pos_nonneg. lia.
          assert (Hin0 : In (v, len) (seg_of data n)) by (rewrite E; left; reflexivity).
          destruct (seg_wf _ _ Hin0) as [(_ & ? & _) _]. cbn [snd] in *. lia. }
        lia. }
      congruence. }
    assert (Hall : forall e, In e (seg_of data n) -> 4 < snd e) by (intros; eapply seg_long; eauto).
    rewrite <- E in *. split. exact Hall.
    rewrite existsb_map.
    transitivity (existsb (econtains a) (seg_of data n)).
    - destruct (existsb (econtains a) data) eqn:X; symmetry.
      + apply existsb_exists in X. destruct X as (e' & Hin & Hc). apply existsb_exists. exists e'. split; auto.
        destruct (Z.lt_ge_cases 4 (snd e')). apply long_hit; auto.
        pose proof (short_hit e' a Hin ltac:(lia) Ha Hc) as Hh. fold n in Hh. congruence.
      + destruct (existsb (econtains a) (seg_of data n)) eqn:Y; auto.
        apply existsb_exists in Y. destruct Y as (e' & Hin & Hc). apply in_seg_of in Hin.
        assert (existsb (econtains a) data = true) by (apply existsb_exists; exists e'; tauto). congruence.
    - apply existsb_ext_in. intros e He. destruct (seg_wf _ _ He) as [W K].
      destruct (long_prefix e a W (Hall e He) Ha) as (_ & _ & Heq). apply Heq. unfold key in K. auto.
  Qed.

  (* the shifted segment is again a well-formed sorted prefix list, 4 bits shorter *)
  Lemma shifted_ok : forall n, (forall e, In e (seg_of data n) -> 4 < snd e) ->
    (forall e, In e (map shift_entry (seg_of data n)) -> wf_entry e) /\
    StronglySorted entry_le (map shift_entry (seg_of data n)) /\
    (forall e, In e (map shift_entry (seg_of data n)) -> exists e0, In e0 (seg_of data n) /\ snd e = snd e0 - 4).
  Proof.
    intros n Hall. split; [| split].
    - intros e He. apply in_map_iff in He. destruct He as (e0 & <- & He0). destruct (seg_wf _ _ He0) as [W _].
      destruct (long_prefix e0 0 W (Hall e0 He0)) as (Hw & _). unfold in128; norm_pows; lia. exact Hw.
    - eapply ssorted_map; [| apply ssorted_filter; exact Hsorted].
      intros x y Hx Hy Hle. destruct (seg_wf _ _ Hx) as [(Hvx & Hlx & _) Kx]. destruct (seg_wf _ _ Hy) as [(Hvy & Hly & _) Ky].
      apply shift_entry_le; auto. split. apply Hall; auto. lia. split. apply Hall; auto. lia.
      unfold key in *. congruence.
    - intros e He. apply in_map_iff in He. destruct He as (e0 & <- & He0). exists e0. destruct (seg_wf _ _ He0) as [(_ & Hl & _) _].
      split. exact He0. apply shift_entry_len. split. apply Hall; auto. lia.
  Qed.
End NodeSem.
