(* Basic facts about the source model shared by the proofs of C07-C10, C12, C14. *)
From V Require Import Model.Source Gen.ConstSource Gen.ConstSourceS2.
From Coq Require Import ZifyBool.
Open Scope Z_scope.

Ltac Zify.zify_post_hook ::= Z.div_mod_to_equations.

Lemma st_eta : forall s,
  mkSt (s_nts s) (s_stash s) (s_last_poll s) (s_remote_min s) (s_req s) (s_nsent s) (s_deny s)
       (s_stratum s) (s_reach s) (s_tries s) (s_ver s) = s.
Proof. destruct s; reflexivity. Qed.

Lemma set_ver_same : forall s, set_ver s (s_ver s) = s.
Proof. destruct s; reflexivity. Qed.

(* ---------------- check_uid / uid_ok ---------------- *)

Definition uid_bound (p : pkt) (id : Z) : Prop :=
  uids_auth p ++ uids_encr p <> [] /\ Forall (eq id) (uids_auth p ++ uids_encr p).

Lemma forallb_eqb_Forall : forall id l, forallb (Z.eqb id) l = true -> Forall (eq id) l.
Proof.
  induction l; simpl; intros H; constructor.
  - apply andb_prop in H. destruct H as [H _]. now apply Z.eqb_eq in H.
  - apply andb_prop in H. tauto.
Qed.

Lemma Forall_forallb_eqb : forall id l, Forall (eq id) l -> forallb (Z.eqb id) l = true.
Proof.
  induction 1; simpl; auto. subst. rewrite Z.eqb_refl. auto.
Qed.

Lemma check_uid_not_false : forall l id,
  is_some_false (check_uid l id) = false -> Forall (eq id) l.
Proof.
  intros l id. unfold check_uid. destruct l as [|x l]; [constructor|].
  remember (x :: l) as l'. simpl. destruct (forallb (Z.eqb id) l') eqn:E; [|discriminate].
  intros _. now apply forallb_eqb_Forall.
Qed.

Lemma check_uid_some : forall l id, is_some (check_uid l id) = true <-> l <> [].
Proof.
  intros l id. unfold check_uid. destruct l; simpl; split; intros; congruence.
Qed.

Lemma check_uid_nil : forall id, check_uid [] id = None.
Proof. reflexivity. Qed.

(* a valid response that is not an NTS NAK carries, for an NTS source, the
   request's unique identifier under the authenticator *)
Lemma uid_ok_bound : forall p id,
  uid_ok p id true = true -> is_kiss_ntsn p = false -> uid_bound p id.
Proof.
  intros p id H N. unfold uid_ok in H. rewrite N in H. simpl in H.
  apply andb_prop in H. destruct H as [H HD].
  apply andb_prop in H. destruct H as [H _].
  apply andb_prop in H. destruct H as [HA HB].
  apply negb_true_iff in HA. apply negb_true_iff in HB.
  apply check_uid_not_false in HA. apply check_uid_not_false in HB.
  split.
  - rewrite ?andb_false_r, ?orb_false_r in HD.
    apply orb_prop in HD. destruct HD as [A|A]; apply check_uid_some in A;
      intros E; apply app_eq_nil in E; tauto.
  - apply Forall_app; auto.
Qed.

Lemma uid_bound_authenticated : forall p id, uid_bound p id -> authenticated p = true.
Proof.
  intros p id [H _]. unfold uids_auth, uids_encr, authenticated in *.
  destruct (p_sealed p); auto; simpl in H; congruence.
Qed.

(* without a successful authenticator, only an NTS NAK can be a valid response of an NTS source *)
Lemma unauth_valid_is_ntsn : forall p id,
  authenticated p = false -> valid_response p id true = true -> is_kiss_ntsn p = true.
Proof.
  intros p id A V. unfold valid_response in V. apply andb_prop in V. destruct V as [V _].
  destruct (is_kiss_ntsn p) eqn:N; auto.
  apply uid_ok_bound in V; auto. apply uid_bound_authenticated in V. congruence.
Qed.

(* ---------------- kiss predicates ---------------- *)

Lemma deny_not_rate : forall p own, is_kiss_deny p = true -> is_kiss_rate p own = false.
Proof.
  intros p own. unfold is_kiss_deny, is_kiss_rate, KISS_DENY, KISS_RATE, POLL_NEVER.
  destruct (is_kiss p); simpl; auto. destruct (is_v5 p); intros; lia.
Qed.

Lemma rstr_not_rate : forall p own, is_kiss_rstr p = true -> is_kiss_rate p own = false.
Proof.
  intros p own. unfold is_kiss_rstr, is_kiss_rate, KISS_RSTR, KISS_RATE.
  destruct (is_kiss p); simpl; auto. destruct (is_v5 p); intros; [discriminate|lia].
Qed.

Lemma kiss_of_deny : forall p, is_kiss_deny p = true -> is_kiss p = true.
Proof. unfold is_kiss_deny. intros p H. apply andb_prop in H. tauto. Qed.
Lemma kiss_of_rstr : forall p, is_kiss_rstr p = true -> is_kiss p = true.
Proof. unfold is_kiss_rstr. intros p H. apply andb_prop in H. tauto. Qed.
Lemma kiss_of_rate : forall p o, is_kiss_rate p o = true -> is_kiss p = true.
Proof. unfold is_kiss_rate. intros p o H. apply andb_prop in H. tauto. Qed.
Lemma kiss_of_ntsn : forall p, is_kiss_ntsn p = true -> is_kiss p = true.
Proof. unfold is_kiss_ntsn. intros p H. apply andb_prop in H. tauto. Qed.

(* ---------------- the acceptance test of handle_incoming ---------------- *)

(* the request a decoded packet is accepted for: pending, inside its window,
   expected version, valid_server_response *)
Definition accepts (s : st) (now : Z) (p : pkt) : option Z :=
  if expected (s_ver s) (p_ver p) then
    match s_req s with
    | Some (id, dl) => if (dl >=? now) && valid_response p id (s_nts s) then Some id else None
    | None => None
    end
  else None.

Lemma accepts_spec : forall s now p id,
  accepts s now p = Some id <->
  exists dl, s_req s = Some (id, dl) /\ now <= dl /\ expected (s_ver s) (p_ver p) = true
             /\ valid_response p id (s_nts s) = true.
Proof.
  intros s now p id. unfold accepts. split.
  - destruct (expected (s_ver s) (p_ver p)); [|discriminate].
    destruct (s_req s) as [[i dl]|]; [|discriminate].
    destruct (dl >=? now) eqn:D; simpl; [|discriminate].
    destruct (valid_response p i (s_nts s)) eqn:V; [|discriminate].
    intros E. inversion E; subst. exists dl. repeat split; auto. lia.
  - intros (dl & R & D & E & V). rewrite E, R, V.
    assert (dl >=? now = true) as -> by lia. reflexivity.
Qed.

(* the body of handle_incoming after the acceptance test *)
Definition dispatch (c : cfg) (s : st) (id : Z) (p : pkt) : st * list action :=
  let s := set_ver s (ver_after_valid (s_ver s) p) in
  if is_kiss_ntsn p then (s, [])
  else if is_kiss_rate p (s_last_poll s) then
    (set_remote_min s (Z.max (poll_inc c (s_remote_min s)) (s_last_poll s)), [])
  else if is_kiss_rstr p || is_kiss_deny p then
    if s_nts s then (s, [Demobilize]) else (set_deny s true, [])
  else if is_kiss p then (s, [])
  else if p_stratum p >? MAX_STRATUM then (s, [])
  else if negb (p_mode p =? MODE_SERVER) then (s, [])
  else process_message s id p.

Lemma step_incoming_accepts : forall c s now p,
  step_incoming c s now (Some p) =
  match accepts s now p with Some id => dispatch c s id p | None => (s, []) end.
Proof.
  intros c s now p. unfold step_incoming, accepts, dispatch.
  destruct (expected (s_ver s) (p_ver p)); simpl; auto.
  destruct (s_req s) as [[id dl]|]; auto.
  destruct (dl >=? now); simpl; auto.
  destruct (valid_response p id (s_nts s)); simpl; auto.
Qed.

Lemma step_incoming_none : forall c s now, step_incoming c s now None = (s, []).
Proof. reflexivity. Qed.

(* fields that handle_incoming never touches *)
Lemma step_incoming_frame : forall c s now op s' acts,
  step_incoming c s now op = (s', acts) ->
  s_nts s' = s_nts s /\ s_last_poll s' = s_last_poll s /\ s_nsent s' = s_nsent s /\ s_tries s' = s_tries s.
Proof.
  intros c s now [p|] s' acts H; [|inversion H; subst; auto].
  rewrite step_incoming_accepts in H. destruct (accepts s now p) as [id|]; [|inversion H; subst; auto].
  unfold dispatch, process_message in H.
  repeat match type of H with
  | (if ?b then _ else _) = _ => destruct b
  end; inversion H; subst; simpl; auto.
Qed.

(* ---------------- the timer step ---------------- *)

(* the timer neither resets nor demobilises: it tries to build a request *)
Definition timer_polls (s : st) : bool :=
  negb ((s_reach s =? 0) && (STARTUP_TRIES_THRESHOLD <=? s_tries s)).

Definition ver_at_timer (s : st) : pver :=
  match s_ver s with
  | Upgraded => if unanswered_at_least (s_reach s) AFTER_UPGRADE_TRIES_THRESHOLD then V4 else Upgraded
  | v => v
  end.

(* the state after a timer step that went on to build a request (or failed to) *)
Definition polled (s : st) (lp : Z) (req : option (Z * Z)) (nsent : Z) : st :=
  mkSt (s_nts s) (if s_nts s then tl (s_stash s) else s_stash s) lp (s_remote_min s) req nsent
       (s_deny s) (s_stratum s) (reach_poll (s_reach s)) (Z.min (s_tries s + 1) usize_max) (ver_at_timer s).

(* complete case analysis of handle_timer *)
Lemma step_timer_inv : forall c s now d s' acts,
  step_timer c s now d = Ok (s', acts) ->
  (timer_polls s = false /\ s' = s /\ acts = [if s_deny s then Demobilize else Reset]) \/
  (timer_polls s = true /\ s_nts s = true /\ acts = [Reset]
   /\ s' = polled s (s_last_poll s) (s_req s) (s_nsent s)) \/
  (timer_polls s = true /\ exists r,
     acts = [Send r; SetTimer (system_duration_secs (Z.max d (s_remote_min s)))]
     /\ s' = polled s (Z.max d (s_remote_min s)) (Some (s_nsent s, now + POLL_WINDOW_SECS * 1000)) (s_nsent s + 1)
     /\ r_poll r = Z.max d (s_remote_min s) /\ r_id r = s_nsent s
     /\ r_ver r = (if request_v5 (s_nts s) (ver_at_timer s) then 5 else 4)
     /\ r_upgrade r = request_upgrade (s_nts s) (ver_at_timer s)
     /\ r_len r <= SEND_BUFFER_SIZE).
Proof.
  intros c s now d s' acts. unfold step_timer, timer_polls, polled.
  destruct ((s_reach s =? 0) && (STARTUP_TRIES_THRESHOLD <=? s_tries s)); cbv zeta.
  - intros H. injection H as <- <-. left. auto.
  - fold (ver_at_timer s). destruct (s_nts s) eqn:N.
    + destruct (s_stash s) as [|k rest] eqn:S.
      * intros H. injection H as <- <-. right. left. auto.
      * match goal with |- context [if ?b then _ else _] => destruct b end.
        { intros H. injection H as <- <-. right. left. auto. }
        match goal with |- context [if ?b then _ else _] => destruct b eqn:F end;
          [|discriminate].
        intros H. injection H as <- <-. right. right. split; auto.
        eexists. split; [reflexivity|].
        apply andb_prop in F. destruct F as [F _].
        cbn [r_poll r_id r_ver r_upgrade r_len tl request_upgrade].
        repeat split; auto. apply Z.leb_le. exact F.
    + match goal with |- context [if ?b then _ else _] => destruct b eqn:F end; [|discriminate].
      intros H. injection H as <- <-. right. right. split; auto.
      eexists. split; [reflexivity|].
      cbn [r_poll r_id r_ver r_upgrade r_len].
      repeat split; auto. apply Z.leb_le. exact F.
Qed.

Lemma step_timer_ver : forall c s now d s' acts,
  step_timer c s now d = Ok (s', acts) ->
  s_ver s' = if timer_polls s then ver_at_timer s else s_ver s.
Proof.
  intros c s now d s' acts H. apply step_timer_inv in H.
  destruct H as [(P & -> & _)|[(P & _ & _ & ->)|(P & r & _ & -> & _)]]; rewrite P; reflexivity.
Qed.

(* fields a timer step never touches *)
Lemma step_timer_frame : forall c s now d s' acts,
  step_timer c s now d = Ok (s', acts) ->
  s_nts s' = s_nts s /\ s_deny s' = s_deny s /\ s_stratum s' = s_stratum s /\ s_remote_min s' = s_remote_min s.
Proof.
  intros c s now d s' acts H. apply step_timer_inv in H.
  destruct H as [(P & -> & _)|[(P & _ & _ & ->)|(P & r & _ & -> & _)]]; simpl; auto.
Qed.

(* ---------------- runs ---------------- *)

Lemma run_cons : forall c s e evs s' tr,
  run c s (e :: evs) = Ok (s', tr) ->
  exists s1 a tr', step c s e = Ok (s1, a) /\ run c s1 evs = Ok (s', tr') /\ tr = a :: tr'.
Proof.
  intros c s e evs s' tr H. simpl in H.
  destruct (step c s e) as [[s1 a]| |] eqn:E1; try discriminate.
  destruct (run c s1 evs) as [[s2 tr']| |] eqn:E2; try discriminate.
  injection H as <- <-. exists s1, a, tr'. auto.
Qed.

(* a property of single steps that is an invariant holds along every run *)
Lemma run_invariant : forall (I : st -> Prop) c,
  (forall s e s' a, I s -> step c s e = Ok (s', a) -> I s') ->
  forall evs s s' tr, I s -> run c s evs = Ok (s', tr) -> I s'.
Proof.
  intros I c Hstep. induction evs as [|e evs IH]; intros s s' tr Hi H.
  - inversion H; subst; auto.
  - apply run_cons in H. destruct H as (s1 & a & tr' & H1 & H2 & _). eauto.
Qed.
