(* The protocol version state machine (C12). *)
From V Require Import Model.Source Gen.ConstSource Gen.ConstSourceS2 Proofs.SourceBase Proofs.SourceIncoming.
From Coq Require Import ZifyBool.
Open Scope Z_scope.

Ltac Zify.zify_post_hook ::= Z.div_mod_to_equations.

(* ---------------- how one step moves the version ---------------- *)

Lemma outcome_ver : forall c s id p s' acts,
  outcome c s id p s' acts -> s_ver s' = ver_after_valid (s_ver s) p.
Proof. intros c s id p s' acts O. inversion O; subst; reflexivity. Qed.

(* handle_incoming: the version moves exactly when the packet is accepted *)
Theorem incoming_ver : forall c s now op s' acts,
  step_incoming c s now op = (s', acts) ->
  s_ver s' = match op with
             | Some p => match accepts s now p with
                         | Some _ => ver_after_valid (s_ver s) p
                         | None => s_ver s
                         end
             | None => s_ver s
             end.
Proof.
  intros c s now op s' acts H. apply step_incoming_cases in H.
  destruct H as [(-> & _ & [-> |(p & -> & ->)])|(p & id & -> & A & O)]; auto.
  rewrite A. eapply outcome_ver; eauto.
Qed.

(* a packet of a version the source does not expect is ignored *)
Theorem expected_only : forall c s now p,
  expected (s_ver s) (p_ver p) = false -> step_incoming c s now (Some p) = (s, []).
Proof.
  intros c s now p E. rewrite step_incoming_accepts. unfold accepts. now rewrite E.
Qed.

Lemma expected_table : forall v pv,
  expected v pv = true <->
  match v with
  | V4 => pv = 4 \/ pv = 3
  | Upgrading _ => pv = 4
  | Upgraded | V5 => pv = 5
  end.
Proof. intros v pv. destruct v; simpl; lia. Qed.

(* ---------------- fixed versions ---------------- *)

Definition send_ok (ver : Z) (upg : bool) (a : action) : Prop :=
  match a with Send r => r_ver r = ver /\ r_upgrade r = upg | _ => True end.

Lemma ver_at_timer_fixed : forall s, s_ver s = V4 \/ s_ver s = V5 -> ver_at_timer s = s_ver s.
Proof. intros s [E|E]; unfold ver_at_timer; rewrite E; reflexivity. Qed.

Lemma fixed_step : forall c s e s' acts v,
  v = V4 \/ v = V5 -> s_ver s = v -> step c s e = Ok (s', acts) ->
  s_ver s' = v /\ Forall (send_ok (match v with V4 => 4 | _ => 5 end) false) acts.
Proof.
  intros c s e s' acts v Hv E H. destruct e as [now d|now op]; simpl in H.
  - pose proof (step_timer_ver _ _ _ _ _ _ H) as V.
    assert (F : ver_at_timer s = v) by (rewrite ver_at_timer_fixed; subst; auto).
    split. { rewrite V. destruct (timer_polls s); congruence. }
    apply step_timer_inv in H.
    destruct H as [(_ & _ & ->)|[(_ & _ & -> & _)|(_ & r & -> & _ & _ & _ & Rv & Ru & _)]].
    + destruct (s_deny s); repeat constructor.
    + repeat constructor.
    + repeat constructor; simpl.
      * rewrite Rv, F. destruct Hv as [-> | ->]; destruct (s_nts s); reflexivity.
      * rewrite Ru, F. destruct Hv as [-> | ->]; destruct (s_nts s); reflexivity.
  - injection H as H. pose proof (incoming_ver _ _ _ _ _ _ H) as V. split.
    + rewrite V. destruct op as [p|]; auto. destruct (accepts s now p); auto.
      rewrite E. now apply ver_after_valid_fixed.
    + apply step_incoming_req in H.
      destruct H as [([->| ->] & _)|(id & dl & -> & _)]; repeat constructor.
Qed.

(* a source in state V4 (V5) stays there and only ever sends NTPv4 (NTPv5)
   requests without upgrade marker -- plain or NTS *)
Theorem fixed_version : forall c evs s s' tr v,
  v = V4 \/ v = V5 -> s_ver s = v -> run c s evs = Ok (s', tr) ->
  s_ver s' = v /\ Forall (send_ok (match v with V4 => 4 | _ => 5 end) false) (concat tr).
Proof.
  intros c. induction evs as [|e evs IH]; intros s s' tr v Hv E H.
  - injection H as <- <-. split; auto. constructor.
  - apply run_cons in H. destruct H as (s1 & a & tr' & H1 & H2 & ->).
    destruct (fixed_step _ _ _ _ _ _ Hv E H1) as [E1 F1].
    destruct (IH _ _ _ _ Hv E1 H2) as [E2 F2].
    split; auto. simpl. apply Forall_app. auto.
Qed.

(* ---------------- automatic mode ---------------- *)

(* while upgrading, requests are NTPv4 with the upgrade marker *)
Theorem upgrading_sends_v4_marker : forall c s now d s' acts t r,
  s_nts s = false -> s_ver s = Upgrading t -> step_timer c s now d = Ok (s', acts) ->
  In (Send r) acts -> r_ver r = 4 /\ r_upgrade r = true /\ s_ver s' = Upgrading t.
Proof.
  intros c s now d s' acts t r N E H I.
  assert (F : ver_at_timer s = Upgrading t) by (unfold ver_at_timer; now rewrite E).
  apply step_timer_inv in H.
  destruct H as [(_ & _ & ->)|[(_ & _ & -> & _)|(_ & r' & -> & -> & _ & _ & Rv & Ru & _)]].
  - destruct (s_deny s); destruct I as [I|[]]; discriminate.
  - destruct I as [I|[]]; discriminate.
  - destruct I as [I|[I|[]]]; [|discriminate]. injection I as <-.
    rewrite Rv, Ru, F, N. simpl. auto.
Qed.

(* Upgrading -> Upgraded exactly on an accepted answer carrying the marker *)
Theorem switch_only_on_marker : forall c s e s' acts t,
  s_ver s = Upgrading t -> step c s e = Ok (s', acts) ->
  (s_ver s' = Upgraded <->
   exists now p id, e = Incoming now (Some p) /\ accepts s now p = Some id /\ is_upgrade p = true).
Proof.
  intros c s e s' acts t E H. destruct e as [now d|now op]; simpl in H.
  - apply step_timer_ver in H. unfold ver_at_timer in H. rewrite E in H.
    split.
    + intros X. rewrite X in H. destruct (timer_polls s); discriminate.
    + intros (n & p & id & X & _). discriminate.
  - injection H as H. apply incoming_ver in H. split.
    + intros X. rewrite X in H. destruct op as [p|]; [|congruence].
      destruct (accepts s now p) as [id|] eqn:A; [|congruence].
      exists now, p, id. repeat split; auto.
      rewrite E in H. simpl in H. destruct (is_upgrade p); auto.
      destruct (Z.max 0 (t - 1) =? 0); discriminate.
    + intros (n & p & id & X & A & U). injection X as -> ->.
      rewrite A, E in H. simpl in H. now rewrite U in H.
Qed.

(* an accepted answer without the marker counts the tries down; the last one returns to V4 *)
Theorem upgrading_countdown : forall c s now p id s' acts t,
  s_ver s = Upgrading t -> accepts s now p = Some id -> is_upgrade p = false ->
  step_incoming c s now (Some p) = (s', acts) ->
  s_ver s' = if t <=? 1 then V4 else Upgrading (t - 1).
Proof.
  intros c s now p id s' acts t E A U H. apply incoming_ver in H.
  rewrite A, E in H. simpl in H. rewrite U in H. rewrite H.
  destruct (t <=? 1) eqn:T.
  - assert (Z.max 0 (t - 1) =? 0 = true) as -> by lia. reflexivity.
  - assert (Z.max 0 (t - 1) =? 0 = false) as -> by lia. f_equal. lia.
Qed.

(* ... so that from V4UpgradingToV5{tries_left: t} exactly the t-th accepted answer
   without marker ends the negotiation (t = DEFAULT_UPGRADE_TRIES = 8 initially) *)
Theorem give_up_after : forall ps t,
  1 <= t -> Forall (fun p => is_upgrade p = false) ps ->
  fold_left ver_after_valid ps (Upgrading t) =
  if Z.of_nat (length ps) <? t then Upgrading (t - Z.of_nat (length ps)) else V4.
Proof.
  induction ps as [|p ps IH]; intros t T F.
  - simpl. assert (0 <? t = true) as -> by lia. f_equal. lia.
  - inversion F as [|? ? U F']; subst. cbn [fold_left ver_after_valid]. rewrite U.
    destruct (Z.max 0 (t - 1) =? 0) eqn:Z0.
    + assert (t = 1) by lia. subst.
      assert (Z.of_nat (length (p :: ps)) <? 1 = false) as -> by (simpl length; lia).
      clear. induction ps; simpl; auto.
    + replace (Z.max 0 (t - 1)) with (t - 1) by lia.
      rewrite IH; auto; try lia.
      simpl length. rewrite Nat2Z.inj_succ.
      destruct (Z.of_nat (length ps) <? t - 1) eqn:L.
      * assert (Z.succ (Z.of_nat (length ps)) <? t = true) as -> by lia. f_equal. lia.
      * assert (Z.succ (Z.of_nat (length ps)) <? t = false) as -> by lia. reflexivity.
Qed.

(* timers and unaccepted datagrams leave the countdown alone *)
Theorem upgrading_unchanged : forall c s e s' acts t,
  s_ver s = Upgrading t -> step c s e = Ok (s', acts) ->
  (forall now p, e = Incoming now (Some p) -> accepts s now p = None) ->
  s_ver s' = Upgrading t.
Proof.
  intros c s e s' acts t E H NA. destruct e as [now d|now op]; simpl in H.
  - apply step_timer_ver in H. unfold ver_at_timer in H. rewrite E in H.
    destruct (timer_polls s); congruence.
  - injection H as H. apply incoming_ver in H. destruct op as [p|]; [|congruence].
    rewrite (NA now p eq_refl) in H. congruence.
Qed.

(* after the switch: the first accepted NTPv5 answer confirms NTPv5 ... *)
Theorem upgraded_to_v5 : forall c s now p id s' acts,
  s_ver s = Upgraded -> accepts s now p = Some id ->
  step_incoming c s now (Some p) = (s', acts) -> s_ver s' = V5 /\ p_ver p = 5.
Proof.
  intros c s now p id s' acts E A H. split.
  - apply incoming_ver in H. rewrite A, E in H. exact H.
  - apply accepts_spec in A. destruct A as (dl & _ & _ & X & _). rewrite E in X. simpl in X. lia.
Qed.

(* ... and a timer finding the last two polls unanswered falls back to NTPv4 *)
Theorem fallback_two_misses : forall c s now d s' acts,
  s_ver s = Upgraded -> step_timer c s now d = Ok (s', acts) ->
  (s_ver s' = V4 <-> timer_polls s = true /\ s_reach s mod 2 ^ AFTER_UPGRADE_TRIES_THRESHOLD = 0)
  /\ (s_ver s' = V4 \/ s_ver s' = Upgraded).
Proof.
  intros c s now d s' acts E H. apply step_timer_ver in H.
  unfold ver_at_timer, unanswered_at_least in H. rewrite E in H.
  destruct (timer_polls s); destruct (s_reach s mod 2 ^ AFTER_UPGRADE_TRIES_THRESHOLD =? 0) eqn:M;
    rewrite H; split; auto; split; try (intros [? ?]); try lia; try discriminate; auto; intros; discriminate.
Qed.

Theorem fallback_request : forall c s now d s' acts r,
  s_nts s = false -> s_ver s = Upgraded -> step_timer c s now d = Ok (s', acts) -> In (Send r) acts ->
  if s_reach s mod 2 ^ AFTER_UPGRADE_TRIES_THRESHOLD =? 0
  then r_ver r = 4 /\ r_upgrade r = false /\ s_ver s' = V4
  else r_ver r = 5 /\ r_upgrade r = false /\ s_ver s' = Upgraded.
Proof.
  intros c s now d s' acts r N E H I.
  pose proof (step_timer_ver _ _ _ _ _ _ H) as V.
  apply step_timer_inv in H.
  destruct H as [(_ & _ & ->)|[(_ & _ & -> & _)|(P & r' & -> & _ & _ & _ & Rv & Ru & _)]].
  - destruct (s_deny s); destruct I as [I|[]]; discriminate.
  - destruct I as [I|[]]; discriminate.
  - destruct I as [I|[I|[]]]; [|discriminate]. injection I as <-.
    rewrite P in V. rewrite Rv, Ru, V, N. unfold ver_at_timer, unanswered_at_least. rewrite E.
    destruct (s_reach s mod 2 ^ AFTER_UPGRADE_TRIES_THRESHOLD =? 0); simpl; auto.
Qed.

(* the reach register: two polls without an accepted answer in between, and only
   that, make the two low bits zero *)
Lemma reach_two_misses : forall r, reach_poll (reach_poll r) mod 4 = 0.
Proof. intros r. unfold reach_poll. lia. Qed.
Lemma reach_answered : forall r, 0 <= r < 256 -> reach_received r mod 4 <> 0.
Proof. intros r R. unfold reach_received. destruct (Z.even r) eqn:E.
  - apply Z.even_spec in E. destruct E as [k ->]. lia.
  - assert (O : Z.odd r = true) by (rewrite <- Z.negb_even, E; reflexivity).
    apply Z.odd_spec in O. destruct O as [k ->]. lia.
Qed.
Lemma reach_one_miss : forall r, 0 <= r < 256 -> reach_poll (reach_received r) mod 4 <> 0.
Proof. intros r R. unfold reach_poll, reach_received. destruct (Z.even r) eqn:E.
  - apply Z.even_spec in E. destruct E as [k ->]. lia.
  - assert (O : Z.odd r = true) by (rewrite <- Z.negb_even, E; reflexivity).
    apply Z.odd_spec in O. destruct O as [k ->]. lia.
Qed.

(* Upgraded can only be left towards V4 (timer) or V5 (accepted answer) *)
Theorem upgraded_moves : forall c s e s' acts,
  s_ver s = Upgraded -> step c s e = Ok (s', acts) ->
  s_ver s' = Upgraded \/ s_ver s' = V4 \/ s_ver s' = V5.
Proof.
  intros c s e s' acts E H. destruct e as [now d|now op]; simpl in H.
  - destruct (fallback_two_misses _ _ _ _ _ _ E H) as [_ [X|X]]; auto.
  - injection H as H. apply incoming_ver in H. destruct op as [p|]; [|left; congruence].
    destruct (accepts s now p); rewrite H, E; simpl; auto.
Qed.

(* an NTS source keeps the version negotiated by key exchange *)
Theorem nts_version : forall c evs s s' tr,
  nts_ver_ok s -> s_nts s = true -> run c s evs = Ok (s', tr) ->
  s_ver s' = s_ver s /\ nts_ver_ok s'.
Proof.
  intros c evs s s' tr W N H. destruct (W N) as [E|E].
  - destruct (fixed_version c evs s s' tr V4 (or_introl eq_refl) E H) as [X _].
    split; [congruence|]. intros _. left. congruence.
  - destruct (fixed_version c evs s s' tr V5 (or_intror eq_refl) E H) as [X _].
    split; [congruence|]. intros _. right. congruence.
Qed.
