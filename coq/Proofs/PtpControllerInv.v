(* The invariant of the modelled controller over every history of the operations of
   Model/PtpControllerRun.v: the estimator is well formed (Proofs/Estimator.WF), the steered
   clocks are pairwise distinct and all internal clocks of the estimator. *)
From V Require Import Model.PtpControllerRun Proofs.Estimator Proofs.EstimatorAbsorb Proofs.PtpController.

Definition neutral (o : fop) : bool :=
  match o with OpAddClock _ _ _ _ _ _ | OpRemoveClock _ => false | _ => true end.

(* the estimator moved by operations that neither add nor remove a clock *)
Inductive nsteps : fest -> fest -> Prop :=
| ns_refl st : nsteps st st
| ns_step st o st1 st2 : neutral o = true -> apply FO o st = Ok st1 -> nsteps st1 st2 -> nsteps st st2.

Lemma ns_one st o st1 : neutral o = true -> apply FO o st = Ok st1 -> nsteps st st1.
Proof. intros. eapply ns_step; eauto. constructor. Qed.

Lemma ns_trans a b c : nsteps a b -> nsteps b c -> nsteps a c.
Proof. induction 1; auto. intros. eapply ns_step; eauto. Qed.

Lemma existsb_map_id {X} (p : X -> bool) (g : X -> X) l :
  (forall x, p (g x) = p x) -> existsb p (map g l) = existsb p l.
Proof. intros H. induction l; cbn; auto. now rewrite H, IHl. Qed.

Lemma neutral_internal (o : fop) (st st' : fest) : neutral o = true -> WF st ->
  apply FO o st = Ok st' -> forall id, is_internal_clock st' id = is_internal_clock st id.
Proof.
  intros Hn W H id. unfold is_internal_clock. destruct o; cbn [apply neutral] in *; try discriminate.
  - destruct (progress_time_shape FO _ _ _ H) as (_ & _ & [->|(s & u & -> & _)]); reflexivity.
  - destruct (absorb_frequency_shape FO _ _ _ _ H) as (c & s & _ & _ & ->). reflexivity.
  - destruct (absorb_offset_shape FO _ _ _ _ H) as (c & s & _ & _ & ->). reflexivity.
  - destruct (absorb_system_shape FO _ _ _ _ H) as (c & s & _ & _ & ->). reflexivity.
  - destruct (measurement_shape FO _ _ _ _ _ _ _ H) as (s & u' & -> & _). reflexivity.
  - destruct (add_external_shape _ _ _ H) as [_ ->]. reflexivity.
  - destruct (remove_external_shape _ _ _ H) as (x & e & _ & ->). reflexivity.
  - destruct (add_link_shape FO _ _ _ _ _ _ W H) as (_ & _ & _ & ->). reflexivity.
  - destruct (remove_link_shape FO _ _ _ W H) as (x & e & _ & ->). cbn [removed_state e_clocks].
    apply existsb_map_id. reflexivity.
Qed.

Lemma nsteps_keep st st' : nsteps st st' -> WF st ->
  WF st' /\ forall id, is_internal_clock st' id = is_internal_clock st id.
Proof.
  induction 1; intros W; auto.
  pose proof (WF_apply FO _ _ _ W H0) as W1. destruct (IHnsteps W1) as [W2 Hi].
  split; auto. intros id. rewrite Hi. eapply neutral_internal; eauto.
Qed.

(* ------------------------------------------- filter operations as neutral steps *)
Lemma on_est_ns (o : fop) f f' : neutral o = true -> on_est (apply FO o) f = Ok f' ->
  nsteps (f_est f) (f_est f') /\ f_links f' = f_links f.
Proof.
  unfold on_est, res_bind. intros Hn H. destruct (apply FO o (f_est f)) as [e| |] eqn:E; try discriminate.
  inversion H. cbn. split; auto. eapply ns_one; eauto.
Qed.

Lemma f_remove_link_ns id f f' : f_remove_link id f = Ok f' -> nsteps (f_est f) (f_est f').
Proof.
  unfold f_remove_link, res_bind. destruct (remove_first _ _) as [[l rest]|]; [|discriminate].
  destruct (fl_active l && fl_tracked l).
  - destruct (remove_link FO id (f_est f)) as [e| |] eqn:E; try discriminate.
    intros H; inversion H. cbn. apply (ns_one _ (OpRemoveLink id)); auto.
  - intros H; inversion H. constructor.
Qed.

Lemma f_add_link_ns tr a b n d f r : f_add_link tr a b n d f = Ok r -> f_est (fst r) = f_est f.
Proof.
  unfold f_add_link. repeat match goal with |- context [if ?x then _ else _] => destruct x end;
    intros H; try discriminate; inversion H; reflexivity.
Qed.

Lemma f_activate_ns l delay noise f f1 : f_activate l delay noise f = Ok f1 -> nsteps (f_est f) (f_est f1).
Proof.
  unfold f_activate, res_bind. destruct (fl_active l); [intros H; inversion H; constructor|].
  destruct (fl_tracked l).
  - destruct (add_link FO (fl_id l) delay noise (fl_decay l) (f_est f)) as [e| |] eqn:E; try discriminate.
    intros H; inversion H. cbn. apply (ns_one _ (OpAddLink (fl_id l) delay noise (fl_decay l))); auto.
  - intros H; inversion H. constructor.
Qed.

Lemma f_deactivate_ns l f f1 : f_deactivate l f = Ok f1 -> nsteps (f_est f) (f_est f1).
Proof.
  unfold f_deactivate, res_bind. destruct (fl_active l); [|intros H; inversion H; constructor].
  destruct (fl_tracked l).
  - destruct (remove_link FO (fl_id l) (f_est f)) as [e| |] eqn:E; try discriminate.
    intros H; inversion H. cbn. apply (ns_one _ (OpRemoveLink (fl_id l))); auto.
  - intros H; inversion H. constructor.
Qed.

Lemma f_measure_ns l fwd v u noise f f1 : f_measure l fwd v u noise f = Ok f1 -> nsteps (f_est f) (f_est f1).
Proof.
  intros H. unfold f_measure in H.
  apply (on_est_ns (OpMeasure (fl_id l) fwd v (add_uncertainty u noise) (fl_tracked l))) in H; auto. tauto.
Qed.

Lemma f_measurement_ns o id fwd v u f f' : f_measurement o id fwd v u f = Ok f' ->
  nsteps (f_est f) (f_est f').
Proof.
  unfold f_measurement. destruct (find _ (f_links f)) as [l|]; [|discriminate].
  destruct (if fl_tracked l then mo_estimates o else Some (0%float, 0%float)) as [[delay noise]|];
    [|intros H; inversion H; constructor].
  assert (Hboth : forall f1, (do f1' <- f_activate l delay noise f; f_measure l fwd v u noise f1') = Ok f1 ->
                             nsteps (f_est f) (f_est f1)).
  { intros f1. unfold res_bind. destruct (f_activate l delay noise f) as [fa| |] eqn:Ea; try discriminate.
    intros H. eapply ns_trans; [eapply f_activate_ns; eauto|eapply f_measure_ns; eauto]. }
  destruct (fl_external l); auto.
  destruct (mo_consensus o) as [[|]|]; auto.
  - apply f_deactivate_ns.
  - intros H; inversion H. constructor.
Qed.

Lemma apply_change_ns id chg flt flt' : apply_change id chg flt = Ok flt' ->
  nsteps (f_est flt) (f_est flt').
Proof.
  destruct chg as [ch|ch|d]; cbn [apply_change]; intros H.
  - apply (on_est_ns (OpAbsorbFreq id ch)) in H; tauto.
  - apply (on_est_ns (OpAbsorbOffset id ch)) in H; tauto.
  - apply (on_est_ns (OpAbsorbSystem id d)) in H; tauto.
Qed.

Lemma steer_loop_ns old : forall ids index ans acc acc',
  steer_loop old index ids ans acc = Ok acc' -> nsteps (f_est (fst acc)) (f_est (fst acc')).
Proof.
  induction ids as [|id ids IH]; intros index ans acc acc' H; cbn [steer_loop] in H.
  - inversion H. constructor.
  - unfold res_bind in H at 1. destruct (steer_one old index id _ acc) as [acc1| |] eqn:H1; try discriminate.
    unfold steer_one, res_bind in H1.
    destruct (steer_decision old index id _) as [dc| |]; try discriminate.
    destruct (apply_change id (snd dc) (fst acc)) as [flt1| |] eqn:Ha; try discriminate.
    inversion H1; subst acc1. apply apply_change_ns in Ha.
    eapply ns_trans; [exact Ha|]. apply (IH _ _ _ _ H).
Qed.

Lemma steer_clocks_ns now ans c c' calls : steer_clocks now ans c = Ok (c', calls) ->
  c_clocks c' = c_clocks c /\ nsteps (f_est (c_filter c)) (f_est (c_filter c')).
Proof.
  unfold steer_clocks, res_bind. destruct (f_progress_time now (c_filter c)) as [flt| |] eqn:Hp; try discriminate.
  destruct (steer_loop _ 0 _ ans (flt, [])) as [r| |] eqn:Hl; try discriminate.
  intros H; inversion H. cbn. split; auto.
  apply (on_est_ns (OpProgress now)) in Hp; auto. destruct Hp as [Hp _].
  eapply ns_trans; [exact Hp|]. apply (steer_loop_ns _ _ _ _ _ _ Hl).
Qed.

(* ------------------------------------------------------------ the invariant *)
Record CtlWF (c : ctl) : Prop := {
  cw_est : WF (f_est (c_filter c));
  cw_nodup : NoDup (c_clocks c);
  cw_int : forall id, In id (c_clocks c) -> is_internal_clock (f_est (c_filter c)) id = true;
}.

Lemma CtlWF_ns c f' : CtlWF c -> nsteps (f_est (c_filter c)) (f_est f') ->
  CtlWF {| c_clocks := c_clocks c; c_filter := f' |}.
Proof.
  intros [W N I] H. destruct (nsteps_keep _ _ H W) as [W' Hi].
  constructor; cbn; auto. intros id Hin. rewrite Hi. auto.
Qed.

Lemma CtlWF_add c id ov ou fv fu w f' : CtlWF c ->
  f_add_clock id ov ou fv fu w (c_filter c) = Ok f' ->
  CtlWF {| c_clocks := c_clocks c ++ [id]; c_filter := f' |}.
Proof.
  intros [W N I] H. unfold f_add_clock, on_est, res_bind in H.
  destruct (add_clock FO id ov ou fv fu w (f_est (c_filter c))) as [e| |] eqn:E; try discriminate.
  inversion H; subst f'. clear H. cbn.
  pose proof (WF_add_clock FO _ _ _ _ _ _ _ _ W E) as W'.
  destruct (add_clock_shape FO _ _ _ _ _ _ _ _ W E) as [Hk He].
  assert (Hint : forall x, is_internal_clock e x = is_internal_clock (f_est (c_filter c)) x || (id =? x)).
  { intros x. rewrite He. unfold is_internal_clock. cbn [e_clocks]. rewrite existsb_app. cbn.
    now rewrite orb_false_r. }
  unfold is_known_clock in Hk. apply orb_false_iff in Hk. destruct Hk as [Hk _].
  constructor; cbn [c_clocks c_filter with_est f_est].
  - exact W'.
  - apply NoDup_app_one; auto. intros Hc. rewrite (I _ Hc) in Hk. discriminate.
  - intros x Hx. rewrite Hint. apply in_app_iff in Hx. destruct Hx as [Hx|[<-|[]]].
    + now rewrite (I _ Hx).
    + rewrite Z.eqb_refl. apply orb_true_r.
Qed.

Lemma CtlWF_new now id maxf w c : ctl_new now id maxf w = Ok c -> CtlWF c.
Proof.
  unfold ctl_new, res_bind. destruct (f_add_clock _ _ _ _ _ _ (f_empty now)) as [f| |] eqn:E; try discriminate.
  intros H; inversion H; subst c.
  assert (W0 : CtlWF {| c_clocks := []; c_filter := f_empty now |}).
  { constructor; cbn; [apply WF_empty|constructor|intros ? []]. }
  apply (CtlWF_add _ _ _ _ _ _ _ _ W0 E).
Qed.

Lemma CtlWF_remove c id c' : CtlWF c -> ctl_remove_clock id c = Ok c' -> CtlWF c'.
Proof.
  intros [W N I] H. unfold ctl_remove_clock in H.
  destruct (c_clocks c) as [|sys rest0] eqn:Hcl; [discriminate|].
  destruct (sys =? id); [discriminate|].
  destruct (remove_first (Z.eqb id) (sys :: rest0)) as [[x rest]|] eqn:Hr; [|discriminate].
  unfold res_bind, f_remove_clock, on_est in H.
  destruct (existsb _ (f_links (c_filter c))); [discriminate|].
  unfold res_bind in H.
  destruct (remove_clock FO id (f_est (c_filter c))) as [e| |] eqn:E; try discriminate.
  inversion H; subst c'. clear H. cbn.
  rewrite <- Hcl in *.
  destruct (remove_first_some _ _ _ _ Hr) as (Hp & _ & Hsub & _).
  apply Z.eqb_eq in Hp. subst x.
  destruct (remove_first_nodup _ (fun z : Z => z) _ _ _ Hr) as [Hn Hne]; [now rewrite map_id|].
  rewrite map_id in Hn.
  pose proof (WF_remove_clock FO _ _ _ W E) as W'.
  destruct (remove_clock_shape FO _ _ _ W E) as (removed & restc & Hrc & He).
  destruct (remove_clock_facts _ _ _ _ W Hrc) as (Hid & _ & _ & _ & _ & _ & Hcases).
  constructor; cbn [c_clocks c_filter with_est f_est]; auto.
  intros y Hy. specialize (I y (Hsub y Hy)). specialize (Hne y Hy).
  rewrite He. unfold is_internal_clock in *. cbn [removed_state e_clocks].
  rewrite existsb_map_id by reflexivity.
  apply existsb_exists in I. destruct I as [ci [Hci1 Hci2]]. apply Z.eqb_eq in Hci2.
  apply existsb_exists. exists ci. split; [|now apply Z.eqb_eq].
  destruct (Hcases ci Hci1) as [->|]; auto. exfalso. apply Hne. cbn. congruence.
Qed.

Lemma with_filter_eta c f : with_filter c f = {| c_clocks := c_clocks c; c_filter := f |}.
Proof. reflexivity. Qed.

Lemma ctl_measurement_CtlWF o id fwd s r u n1 n2 ans c : CtlWF c ->
  CtlWF (fst (fst (ctl_measurement o id fwd s r u n1 n2 ans c))).
Proof.
  intros Wc. unfold ctl_measurement.
  destruct (f_progress_time n1 (c_filter c)) as [f1| |] eqn:H1; cbn; auto.
  apply (on_est_ns (OpProgress n1)) in H1; auto. destruct H1 as [H1 _].
  pose proof (CtlWF_ns c f1 Wc H1) as W1. rewrite <- with_filter_eta in W1.
  destruct (f_measurement o id fwd _ _ f1) as [f2| |] eqn:H2; cbn; auto.
  apply f_measurement_ns in H2.
  pose proof (CtlWF_ns c f2 Wc (ns_trans _ _ _ H1 H2)) as W2. rewrite <- with_filter_eta in W2.
  destruct (steer_clocks n2 ans (with_filter c f2)) as [[c3 calls]| |] eqn:H3; cbn; auto.
  destruct (steer_clocks_ns _ _ _ _ _ H3) as [Hc Hs]. cbn in Hc, Hs.
  pose proof (CtlWF_ns _ (c_filter c3) W2 Hs) as W3. cbn in W3. rewrite <- Hc in W3.
  destruct c3; exact W3.
Qed.

Theorem cstep_CtlWF (o : cop) (c : ctl) : CtlWF c -> CtlWF (fst (cstep o c)).
Proof.
  intros Wc.
  assert (Hkeep : forall r : res ctl, (forall c', r = Ok c' -> CtlWF c') ->
            CtlWF (fst (match r with
                        | Ok c' => (c', (([0], []) : list Z * list float))
                        | Err e => (c, ([e], []))
                        | Panic _ => (c, ([-1], [])) end))).
  { intros r Hr. destruct r; cbn; auto. }
  assert (Hop : forall (g : PtpController.filter -> res PtpController.filter),
            (forall f', g (c_filter c) = Ok f' -> nsteps (f_est (c_filter c)) (f_est f')) ->
            forall c', ctl_filter_op g c = Ok c' -> CtlWF c').
  { intros g Hg c'. unfold ctl_filter_op, res_bind. destruct (g (c_filter c)) as [f'| |] eqn:E; try discriminate.
    intros H; inversion H. apply (CtlWF_ns c f' Wc (Hg _ eq_refl)). }
  destruct o; cbn [cstep].
  - apply Hkeep. apply Hop. intros f' H. apply (on_est_ns (OpAddExternal id)) in H; tauto.
  - apply Hkeep. apply Hop. intros f' H. apply (on_est_ns (OpRemoveExternal id)) in H; tauto.
  - apply Hkeep. intros c'. unfold ctl_add_clock, res_bind.
    destruct (f_add_clock _ _ _ _ _ _ _) as [f| |] eqn:E; try discriminate.
    intros H; inversion H. eapply CtlWF_add; eauto.
  - apply Hkeep. intros c'. unfold res_bind.
    destruct (f_add_clock _ _ _ _ _ _ _) as [f| |] eqn:E; try discriminate.
    intros H; inversion H. eapply CtlWF_add; eauto.
  - apply Hkeep. intros c' E. eapply CtlWF_remove; eauto.
  - apply Hkeep. intros c'. unfold ctl_create_link, res_bind.
    destruct (f_add_link _ _ _ _ _ _) as [r| |] eqn:E; try discriminate.
    intros H; inversion H. apply f_add_link_ns in E. apply (CtlWF_ns c (fst r) Wc). rewrite E. constructor.
  - cbn. unfold ctl_drop_link. destruct (f_remove_link id (c_filter c)) as [f| |] eqn:E; auto.
    apply f_remove_link_ns in E. apply (CtlWF_ns c f Wc E).
  - apply Hkeep. apply Hop. intros f' H. unfold f_external_data_update in H.
    destruct (find _ _) as [l|]; [|discriminate]. destruct (fl_external l); [|discriminate].
    inversion H. constructor.
  - pose proof (ctl_measurement_CtlWF o id forward send recv unc now1 now2 ans c Wc) as H.
    destruct (ctl_measurement o id forward send recv unc now1 now2 ans c) as [[c' code] calls].
    exact H.
  - destruct (steer_clocks now ans c) as [[c' calls]| |] eqn:E; cbn; auto.
    destruct (steer_clocks_ns _ _ _ _ _ E) as [Hc Hs].
    pose proof (CtlWF_ns c (c_filter c') Wc Hs) as W'. rewrite <- Hc in W'. destruct c'; exact W'.
  - apply Hkeep. apply Hop. intros f' H. apply (on_est_ns (OpAbsorbOffset id x)) in H; tauto.
  - apply Hkeep. apply Hop. intros f' H. apply (on_est_ns (OpAbsorbFreq id x)) in H; tauto.
  - apply Hkeep. apply Hop. intros f' H. apply (on_est_ns (OpProgress t)) in H; tauto.
  - exact Wc.
Qed.

(* the controller after a history *)
Fixpoint cstate (ops : list cop) (c : ctl) : ctl :=
  match ops with [] => c | o :: r => cstate r (fst (cstep o c)) end.

Theorem history_CtlWF now id maxf w c (ops : list cop) :
  ctl_new now id maxf w = Ok c -> CtlWF (cstate ops c).
Proof.
  intros H. apply CtlWF_new in H. revert c H.
  induction ops as [|o ops IH]; intros c H; cbn; auto. apply IH. now apply cstep_CtlWF.
Qed.
