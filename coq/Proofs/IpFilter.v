(* Proofs about the model of the nibble trie (Model/IpFilter.v). *)
From V Require Import Model.IpFilter.
