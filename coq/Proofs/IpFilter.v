(* C31, part 4: the node array built by fill_node represents its prefix list
   (layout: children of a node are contiguous, indexed by popcount), create and
   lookup, IpFilter::new / is_in against naive containment, and IpSubnet::from_str. *)
From V Require Import Model.IpFilter Gen.ConstIpFilter.
From V Require Import Proofs.IpFilterArith Proofs.IpFilterPrefix Proofs.IpFilterNode.
From Coq Require Import ZifyBool Sorting.Sorted Permutation.

Arguments top_nibble : simpl never.
Arguments shl : simpl never.
Arguments wrap : simpl never.

(* ---- arrays ---- *)
Lemma set_nth_length : forall (A : Type) n (x : A) l, (n < length l)%nat -> length (set_nth n x l) = length l.
Proof.
  induction n; intros x l H; destruct l; simpl in H; try lia. reflexivity.
  change (set_nth (S n) x (a :: l)) with (a :: set_nth n x l). simpl. f_equal. apply IHn. lia.
Qed.

Lemma set_nth_same : forall (A : Type) n (x : A) l, (n < length l)%nat -> nth_error (set_nth n x l) n = Some x.
Proof.
  induction n; intros x l H; destruct l; simpl in H; try lia. reflexivity.
  change (set_nth (S n) x (a :: l)) with (a :: set_nth n x l). simpl. apply IHn. lia.
Qed.

Lemma set_nth_other : forall (A : Type) n (x : A) l p, (n < length l)%nat -> p <> n ->
  nth_error (set_nth n x l) p = nth_error l p.
Proof.
  induction n; intros x l p H Hp; destruct l; simpl in H; try lia.
  - destruct p. lia. reflexivity.
  - change (set_nth (S n) x (a :: l)) with (a :: set_nth n x l). destruct p. reflexivity. simpl. apply IHn; lia.
Qed.

Lemma nth_error_repeat : forall (A : Type) (x : A) n p, (p < n)%nat -> nth_error (repeat x n) p = Some x.
Proof. induction n; intros. lia. destruct p; simpl. reflexivity. apply IHn. lia. Qed.

Lemma filter_map_comm : forall (A B : Type) (f : B -> bool) (g : A -> B) l,
  filter f (map g l) = map g (filter (fun x => f (g x)) l).
Proof. induction l; simpl. reflexivity. destruct (f (g a)); simpl; rewrite IHl; reflexivity. Qed.

Lemma filter_ext_in : forall (A : Type) (f g : A -> bool) l, (forall x, In x l -> f x = g x) -> filter f l = filter g l.
Proof. induction l; simpl; intros. reflexivity. rewrite H, IHl by auto. reflexivity. Qed.

(* position of n among the selected elements of 0..m-1 *)
Lemma nth_filter_zseq : forall (g : Z -> bool) (m : nat) n, 0 <= n < Z.of_nat m -> g n = true ->
  nth_error (filter g (zseq m)) (length (filter g (zseq (Z.to_nat n)))) = Some n.
Proof.
  induction m; intros n Hn Hg. lia.
  rewrite zseq_S, filter_app. destruct (Z.eq_dec n (Z.of_nat m)).
  - subst n. rewrite Nat2Z.id. rewrite nth_error_app2 by lia. rewrite Nat.sub_diag. simpl. rewrite Hg. reflexivity.
  - assert (H : nth_error (filter g (zseq m)) (length (filter g (zseq (Z.to_nat n)))) = Some n) by (apply IHm; auto; lia).
    rewrite nth_error_app1. exact H. apply nth_error_Some. congruence.
Qed.

(* ---- the subtree below a node, stable under changes elsewhere ---- *)
Definition Subtree (f : nat) (nodes : list node) (idx lo hi : nat) (data : list entry) : Prop :=
  (hi <= length nodes)%nat /\
  forall nodes2, (forall p, p = idx \/ (lo <= p < hi)%nat -> nth_error nodes2 p = nth_error nodes p) ->
  forall a, in128 a -> lookup_from f nodes2 (Z.of_nat idx) a = Ok (existsb (econtains a) data).

Lemma Subtree_stable : forall f nodes nodes1 idx lo hi data,
  Subtree f nodes idx lo hi data -> (hi <= length nodes1)%nat ->
  (forall p, p = idx \/ (lo <= p < hi)%nat -> nth_error nodes1 p = nth_error nodes p) ->
  Subtree f nodes1 idx lo hi data.
Proof.
  intros f nodes nodes1 idx lo hi data [Hh Hs] Hl Hag. split. exact Hl.
  intros nodes2 H2 a Ha. apply Hs; auto. intros p Hp. rewrite H2 by exact Hp. apply Hag. exact Hp.
Qed.

(* what fill_node (or the recursive call inside fill_children) guarantees *)
Definition fill_ok (f : nat) (rec : list node -> list entry -> nat -> res (list node))
    (nodes : list node) (data : list entry) (idx : nat) : Prop :=
  exists nodes', rec nodes data idx = Ok nodes' /\
    (length nodes <= length nodes')%nat /\
    (length nodes' <= length nodes + f * length data)%nat /\
    (forall p, (p < length nodes)%nat -> p <> idx -> nth_error nodes' p = nth_error nodes p) /\
    Subtree f nodes' idx (length nodes) (length nodes') data.

Definition fill_pre (nodes : list node) (idx : nat) : Prop :=
  (idx < length nodes)%nat /\ nth_error nodes idx = Some default_node.

Definition seglen (l : list (Z * list entry)) : nat := fold_right (fun p acc => length (snd p) + acc)%nat O l.

Definition unknown_of (known : Z) (isegs : list (Z * list entry)) : list (Z * list entry) :=
  filter (fun p => negb (bit16 known (fst p))) isegs.

Lemma children_spec : forall f rec known isegs nodes child,
  (forall i seg, In (i, seg) (unknown_of known isegs) -> forall nodes idx, fill_pre nodes idx ->
     Z.of_nat (length nodes) + Z.of_nat f * Z.of_nat (length seg) < 2 ^ 32 ->
     fill_ok f rec nodes (map shift_entry seg) idx) ->
  (child + length (unknown_of known isegs) <= length nodes)%nat ->
  (forall p, (child <= p < child + length (unknown_of known isegs))%nat -> nth_error nodes p = Some default_node) ->
  Z.of_nat (length nodes) + Z.of_nat f * Z.of_nat (seglen (unknown_of known isegs)) < 2 ^ 32 ->
  exists nodes', fill_children rec known isegs nodes child = Ok nodes' /\
    (length nodes <= length nodes')%nat /\
    (length nodes' <= length nodes + f * seglen (unknown_of known isegs))%nat /\
    (forall p, (p < length nodes)%nat -> ~ (child <= p < child + length (unknown_of known isegs))%nat ->
       nth_error nodes' p = nth_error nodes p) /\
    (forall m i seg, nth_error (unknown_of known isegs) m = Some (i, seg) ->
       exists lo hi, (length nodes <= lo)%nat /\ (hi <= length nodes')%nat /\
         Subtree f nodes' (child + m) lo hi (map shift_entry seg)).
Proof.
  intros f rec known. induction isegs as [| [i seg] rest IH]; intros nodes child Hrec Hroom Hdef Hsize.
  - simpl. exists nodes. split. reflexivity. split. lia. split. simpl. lia. split. auto.
    intros m i seg H. destruct m; discriminate.
  - unfold unknown_of in *. cbn [fill_children filter fst] in *. destruct (bit16 known i) eqn:B; cbn [negb] in *.
    + apply IH; auto.
    + cbn [length seglen fold_right snd] in *. fold (seglen (filter (fun p => negb (bit16 known (fst p))) rest)) in *.
      set (us := filter (fun p => negb (bit16 known (fst p))) rest) in *.
      destruct (Hrec i seg (or_introl eq_refl) nodes child) as (nodes1 & E1 & L1 & L1' & U1 & S1).
      { split. lia. apply Hdef. lia. }
      { nia. }
      rewrite E1. cbn [res_bind]. rewrite map_length in L1'.
      destruct (IH nodes1 (S child)) as (nodes' & E2 & L2 & L2' & U2 & S2).
      { intros i' seg' Hin. apply (Hrec i' seg'). right. exact Hin. }
      { lia. }
      { intros p Hp. rewrite U1 by lia. apply Hdef. lia. }
      { nia. }
      exists nodes'. split. exact E2. split. lia. split. nia. split.
      * intros p Hp Hn. rewrite U2 by lia. apply U1; lia.
      * intros m i' seg' Hm. destruct m.
        -- simpl in Hm. inversion Hm; subst i' seg'. exists (length nodes), (length nodes1).
           split. lia. split. lia. rewrite Nat.add_0_r. eapply Subtree_stable. exact S1. lia.
           intros p Hp. apply U2; lia.
        -- simpl in Hm. destruct (S2 m i' seg' Hm) as (lo & hi & Hlo & Hhi & Hs).
           exists lo, hi. split. lia. split. lia. replace (child + S m)%nat with (S child + m)%nat by lia. exact Hs.
Qed.

(* ---- bookkeeping of segment sizes (for the u32 child offsets) ---- *)
Lemma seglen_cons_data : forall x r (l : list Z),
  seglen (map (fun i => (i, seg_of (x :: r) i)) l) =
  (seglen (map (fun i => (i, seg_of r i)) l) + length (filter (fun i => (key x =? i)%Z) l))%nat.
Proof.
  induction l as [| i l IH]. reflexivity.
  cbn [map seglen fold_right snd filter]. fold (seglen (map (fun i => (i, seg_of (x :: r) i)) l)).
  fold (seglen (map (fun i => (i, seg_of r i)) l)). rewrite IH.
  unfold seg_of at 1. cbn [filter]. fold (seg_of r i). destruct (key x =? i); cbn [length]; lia.
Qed.

Lemma one_hit : forall (m : nat) k, 0 <= k < Z.of_nat m -> length (filter (fun i => k =? i) (zseq m)) = 1%nat.
Proof.
  induction m; intros k Hk. lia.
  rewrite zseq_S, filter_app, app_length. cbn [filter]. destruct (Z.eqb_spec k (Z.of_nat m)).
  - rewrite filter_none. reflexivity. intros x Hx. apply in_zseq in Hx. lia.
  - rewrite IHm by lia. reflexivity.
Qed.

Lemma seglen_isegs : forall data : list entry, (forall e, In e data -> in128 (fst e)) -> seglen (isegs_of data) = length data.
Proof.
  induction data as [| x r IH]; intros H.
  - reflexivity.
  - unfold isegs_of. rewrite seglen_cons_data. fold (isegs_of r). rewrite IH by (intros; apply H; right; assumption).
    rewrite one_hit. cbn [length]. lia. apply (key_range x). apply H. left. reflexivity.
Qed.

Lemma seglen_filter : forall g l, (seglen (filter g l) <= seglen l)%nat.
Proof. induction l; cbn [filter seglen fold_right]. lia. destruct (g a); cbn [seglen fold_right]; fold (seglen l); fold (seglen (filter g l)); lia. Qed.

Lemma seglen_nonempty : forall l, (forall p, In p l -> snd p <> []) -> (length l <= seglen l)%nat.
Proof.
  induction l as [| p l IH]; intros H. cbn. lia.
  cbn [seglen fold_right length]. fold (seglen l). specialize (IH (fun q Hq => H q (or_intror Hq))).
  specialize (H p (or_introl eq_refl)). destruct (snd p). congruence. cbn [length]. lia.
Qed.

(* ---- the undecided segments of a node ---- *)
Lemma unknown_of_spec : forall known data,
  unknown_of known (isegs_of data) =
  map (fun i => (i, seg_of data i)) (filter (fun i => negb (Z.testbit known i)) (zseq 16)).
Proof.
  intros. unfold unknown_of, isegs_of. rewrite filter_map_comm. f_equal. cbn [fst].
  apply filter_ext_in. intros i Hi. apply in_zseq in Hi. rewrite bit16_testbit by lia. reflexivity.
Qed.

Lemma unknown_of_length : forall known data,
  length (unknown_of known (isegs_of data)) = Z.to_nat (count_zeros16 known).
Proof.
  intros. rewrite unknown_of_spec, map_length, count_zeros16_spec, bcount_filter. lia.
Qed.

Lemma undecided_seg : forall data, (forall e, In e data -> wf_entry e) -> StronglySorted entry_le data ->
  forall n, 0 <= n < 16 -> Z.testbit (node_known data) n = false ->
  seg_of data n <> [] /\ forall e, In e (seg_of data n) -> 4 < snd e.
Proof.
  intros data Hwf Hs n Hn Hk.
  assert (Ha : in128 (n * 2 ^ 124)) by (unfold in128; norm_pows; lia).
  assert (Hna : top_nibble (n * 2 ^ 124) = n) by (rewrite top_nibble_div by exact Ha; apply Z.div_mul; norm_pows; lia).
  split.
  - rewrite known_bit, outs_bit, outs0_bit in Hk by (auto; lia). apply orb_false_iff in Hk. destruct Hk as [Hi Ho].
    rewrite Hi in Ho. cbn [negb] in Ho. rewrite andb_true_r in Ho. intro E. rewrite E in Ho. discriminate.
  - destruct (undecided data Hwf Hs (n * 2 ^ 124) Ha) as [Hall _]. rewrite Hna. exact Hk. rewrite Hna in Hall. exact Hall.
Qed.

(* ---- fill_node ---- *)
Definition data_ok (f : nat) (data : list entry) : Prop :=
  (forall e, In e data -> wf_entry e /\ snd e <= 4 * Z.of_nat f) /\ StronglySorted entry_le data.

Lemma in128_shl4 : forall a, in128 (shl 128 a 4).
Proof. intros. rewrite shl128_4. unfold in128. apply Z.mod_pos_bound. reflexivity. Qed.

Lemma fill_node_step : forall f data nodes idx,
  data_ok (S f) data -> fill_pre nodes idx ->
  Z.of_nat (length nodes) + Z.of_nat (S f) * Z.of_nat (length data) < 2 ^ 32 ->
  (forall d nodes idx, data_ok f d -> d <> [] -> (forall e, In e d -> 1 <= snd e) -> fill_pre nodes idx ->
     Z.of_nat (length nodes) + Z.of_nat f * Z.of_nat (length d) < 2 ^ 32 ->
     fill_ok f (fill_node f) nodes d idx) ->
  fill_ok (S f) (fill_node (S f)) nodes data idx.
Proof.
  intros f data nodes idx [Hok Hsorted] [Hidx Hdef] Hsize Hchild.
  assert (Hwf : forall e, In e data -> wf_entry e) by (intros e He; apply Hok; exact He).
  assert (H128 : forall e, In e data -> in128 (fst e)) by (intros e He; apply Hwf; exact He).
  unfold fill_ok. cbn [fill_node]. rewrite segments_spec by auto. cbn [res_bind].
  rewrite combine_map_r. fold (isegs_of data). rewrite Hdef. cbn [inset outset default_node].
  destruct (fold_left seg_step (isegs_of data) (0, 0)) as [ins outs0] eqn:EF.
  assert (Eins : ins = node_ins data) by (unfold node_ins; rewrite EF; reflexivity).
  assert (Eouts0 : outs0 = node_outs0 data) by (unfold node_outs0; rewrite EF; reflexivity).
  subst ins outs0. fold (node_outs data). fold (node_known data). clear EF.
  set (known := node_known data).
  set (newnode := mk_node (wrap 32 (Z.of_nat (length nodes))) (node_ins data) (node_outs data)).
  set (U := Z.to_nat (count_zeros16 known)).
  set (nodes2 := set_nth idx newnode nodes ++ repeat default_node U).
  set (us := unknown_of known (isegs_of data)).
  assert (HU : length us = U) by apply unknown_of_length.
  assert (Hus : forall i seg, In (i, seg) us -> 0 <= i < 16 /\ seg = seg_of data i /\ Z.testbit known i = false).
  { intros i seg Hin. unfold us in Hin. rewrite unknown_of_spec in Hin. apply in_map_iff in Hin.
    destruct Hin as (j & Ej & Hj). inversion Ej; subst. apply filter_In in Hj. destruct Hj as [Hj1 Hj2].
    apply in_zseq in Hj1. split. lia. split. reflexivity. destruct (Z.testbit known i); auto; discriminate. }
  assert (Hseglen : (seglen us <= length data)%nat).
  { unfold us, unknown_of. rewrite <- (seglen_isegs data H128). apply seglen_filter. }
  assert (HUle : (U <= seglen us)%nat).
  { rewrite <- HU. apply seglen_nonempty. intros [i seg] Hp. cbn [snd]. destruct (Hus i seg Hp) as (Hi & -> & Hk).
    apply (undecided_seg data Hwf Hsorted i Hi Hk). }
  assert (Hlen2 : length nodes2 = (length nodes + U)%nat).
  { unfold nodes2. rewrite app_length, set_nth_length, repeat_length by exact Hidx. reflexivity. }
  destruct (children_spec f (fill_node f) known (isegs_of data) nodes2 (length nodes)) as (nodes' & E & L & L' & Un & Sub).
  { intros i seg Hin nodes0 idx0 Hpre Hsz. destruct (Hus i seg Hin) as (Hi & -> & Hk).
    destruct (undecided_seg data Hwf Hsorted i Hi Hk) as [Hne Hlong].
    destruct (shifted_ok data Hwf Hsorted i Hlong) as (Swf & Ssorted & Slen).
    apply Hchild.
    - split; [| exact Ssorted]. intros e He. split. apply Swf; exact He. destruct (Slen e He) as (e0 & He0 & ->).
      apply in_seg_of in He0. destruct (Hok e0 (proj1 He0)). lia.
    - destruct (seg_of data i). congruence. discriminate.
    - intros e He. destruct (Slen e He) as (e0 & He0 & ->). specialize (Hlong e0 He0). lia.
    - exact Hpre.
    - rewrite map_length. exact Hsz. }
  { fold us. lia. }
  { fold us. intros p Hp. unfold nodes2. rewrite nth_error_app2; rewrite set_nth_length by exact Hidx; [| lia].
    apply nth_error_repeat. lia. }
  { fold us. nia. }
  fold us in L', Un, Sub. rewrite E.
  exists nodes'. split. reflexivity.
  assert (Hnode : nth_error nodes' idx = Some newnode).
  { rewrite Un by lia. unfold nodes2. rewrite nth_error_app1 by (rewrite set_nth_length; lia).
    apply set_nth_same. exact Hidx. }
  split. lia. split. nia. split.
  - intros p Hp Hne. rewrite Un by lia. unfold nodes2. rewrite nth_error_app1 by (rewrite set_nth_length; lia).
    apply set_nth_other; auto.
  - split. lia. intros nodes3 Hag a Ha.
    pose proof (top_nibble_range a Ha) as Hn. set (n := top_nibble a) in *.
    cbn [lookup_from]. rewrite Nat2Z.id. rewrite Hag by (left; reflexivity). rewrite Hnode.
    cbn [inset outset child_offset newnode]. fold n. rewrite !lookup_bit by exact Hn.
    destruct (Z.testbit (node_ins data) n) eqn:Bi.
    { cbn [negb]. f_equal. symmetry. apply ins_sound; auto. }
    destruct (Z.testbit (node_outs data) n) eqn:Bo.
    { cbn [negb]. f_equal. symmetry. apply outs_sound; auto. }
    cbn [negb].
    assert (Hk : Z.testbit known n = false) by (unfold known; rewrite known_bit, Bi, Bo by exact Hn; reflexivity).
    destruct (undecided data Hwf Hsorted a Ha Hk) as [_ Heq]. fold n in Heq. rewrite Heq.
    fold (node_known data). fold known. rewrite rank_spec by exact Hn. rewrite bcount_filter.
    set (m := length (filter (fun k => negb (Z.testbit known k)) (zseq (Z.to_nat n)))).
    assert (Hm : nth_error us m = Some (n, seg_of data n)).
    { unfold us. rewrite unknown_of_spec. apply (map_nth_error (fun i => (i, seg_of data i))). apply nth_filter_zseq. lia. rewrite Hk. reflexivity. }
    assert (Hmlt : (m < U)%nat) by (rewrite <- HU; apply nth_error_Some; congruence).
    destruct (Sub m n (seg_of data n) Hm) as (lo & hi & Hlo & Hhi & Hs).
    assert (Enext : wrap 32 (wrap 32 (Z.of_nat (length nodes)) + Z.of_nat m) = Z.of_nat (length nodes + m)).
    { unfold wrap. rewrite (Z.mod_small (Z.of_nat (length nodes))) by nia. rewrite Z.mod_small by nia. lia. }
    rewrite Enext. destruct Hs as [_ Hs]. apply Hs. 2: apply in128_shl4.
    intros p Hp. apply Hag. right. lia.
Qed.

Lemma fill_node_spec : forall f data nodes idx,
  data_ok (S f) data -> fill_pre nodes idx ->
  Z.of_nat (length nodes) + Z.of_nat (S f) * Z.of_nat (length data) < 2 ^ 32 ->
  fill_ok (S f) (fill_node (S f)) nodes data idx.
Proof.
  induction f; intros data nodes idx Hd Hp Hs; apply fill_node_step; try assumption.
  - intros d nodes0 idx0 [Hok _] Hne Hlen _ _. exfalso. destruct d as [| e d]. congruence.
    destruct (Hok e (or_introl eq_refl)) as [_ H1]. specialize (Hlen e (or_introl eq_refl)). lia.
  - intros d nodes0 idx0 Hd0 _ _ Hp0 Hs0. apply IHf; assumption.
Qed.

(* ---- BitTree::create followed by BitTree::lookup ---- *)
Definition entry_in_range (e : entry) : Prop := in128 (fst e) /\ 0 <= snd e <= 128.

(* the naive test: equal under the mask of the prefix length *)
Definition naive (a : Z) (e : entry) : bool := fst e / psize (snd e) =? a / psize (snd e).

Lemma create_spec : forall data, Forall entry_in_range data ->
  1 + 33 * Z.of_nat (length data) < 2 ^ 32 ->
  exists nodes, create data = Ok nodes /\
    forall a, in128 a -> lookup nodes a = Ok (existsb (naive a) data).
Proof.
  intros data Hr Hsize. unfold create.
  set (masked := map (fun e => (apply_mask (fst e) (snd e), snd e)) data).
  set (sorted := sort_entries masked).
  assert (Hperm : Permutation sorted masked) by apply sort_perm.
  assert (Hmasked : forall e, In e masked -> wf_entry e /\ snd e <= 128).
  { intros e He. unfold masked in He. apply in_map_iff in He. destruct He as (e0 & <- & He0).
    rewrite Forall_forall in Hr. destruct (Hr e0 He0) as [H1 H2]. split. apply apply_mask_wf; assumption.
    cbn [snd]. lia. }
  assert (Hok : data_ok 33 sorted).
  { split. intros e He. destruct (Hmasked e (Permutation_in _ Hperm He)). split. assumption. lia.
    apply sort_ssorted. }
  assert (Hlen : length sorted = length data).
  { rewrite (Permutation_length Hperm). unfold masked. apply map_length. }
  destruct (fill_node_spec 32 sorted [default_node] 0%nat Hok) as (nodes & E & _ & _ & _ & Hsub).
  { split. cbn. lia. reflexivity. }
  { rewrite Hlen. cbn [length]. lia. }
  change CREATE_FUEL with 33%nat. rewrite E. exists nodes. split. reflexivity.
  intros a Ha. unfold lookup. change LOOKUP_FUEL with 33%nat. destruct Hsub as [_ Hs].
  change 0 with (Z.of_nat 0). rewrite Hs; auto. f_equal.
  rewrite (existsb_perm _ _ _ _ Hperm). unfold masked. rewrite existsb_map.
  apply existsb_ext_in. intros e He. rewrite Forall_forall in Hr. destruct (Hr e He).
  unfold naive. symmetry. apply contains_interval; assumption.
Qed.

(* ---- IpFilter::new / is_in ---- *)
Lemma existsb_flat_map : forall (A B : Type) (f : B -> bool) (g : A -> list B) l,
  existsb f (flat_map g l) = existsb (fun x => existsb f (g x)) l.
Proof. induction l; simpl. reflexivity. rewrite existsb_app, IHl. reflexivity. Qed.

Lemma flat_map_length_le : forall (A B : Type) (g : A -> list B) l,
  (forall x, length (g x) <= 1)%nat -> (length (flat_map g l) <= length l)%nat.
Proof. induction l; simpl; intros. lia. rewrite app_length. specialize (IHl H). specialize (H a). lia. Qed.

Lemma canonical_range : forall a, wf_addr a ->
  match to_canonical a with V4 x => 0 <= x < 2 ^ 32 | V6 x => in128 x end.
Proof.
  intros [x | x] H; cbn [to_canonical wf_addr] in *. exact H.
  destruct (x / 2 ^ 32 =? 65535). apply Z.mod_pos_bound. reflexivity. exact H.
Qed.

Lemma v4_embed : forall x, 0 <= x < 2 ^ 32 -> shl 128 x V4_SHIFT = x * 2 ^ 96 /\ in128 (x * 2 ^ 96).
Proof.
  intros x H. unfold shl, wrap, V4_SHIFT, in128. change (96 mod 128) with 96.
  assert (0 <= x * 2 ^ 96 < 2 ^ 128) by (norm_pows; lia). rewrite Z.mod_small by assumption. auto.
Qed.

Lemma v4_naive : forall n x m, 0 <= m <= 32 ->
  naive (x * 2 ^ 96) (n * 2 ^ 96, m) = (n / 2 ^ (32 - m) =? x / 2 ^ (32 - m)).
Proof.
  intros n x m Hm. unfold naive, psize. cbn [fst snd].
  replace (128 - m) with ((32 - m) + 96) by lia. rewrite Z.pow_add_r by lia.
  assert (0 < 2 ^ (32 - m)) by (apply Z.pow_pos_nonneg; lia).
  rewrite !Z.div_mul_cancel_r by (norm_pows; lia). reflexivity.
Qed.

Theorem lookup_spec : forall subnets a,
  Forall wf_subnet subnets -> wf_addr a ->
  1 + 33 * Z.of_nat (length subnets) < 2 ^ 32 ->
  (do f <- filter_new subnets; is_in f a) = Ok (existsb (fun s => contains s a) subnets).
Proof.
  intros subnets a Hs Ha Hsize. rewrite Forall_forall in Hs.
  destruct (create_spec (v4_entries subnets)) as (t4 & E4 & L4).
  { apply Forall_forall. intros e He. unfold v4_entries in He. apply in_flat_map in He. destruct He as (s & Hin & He).
    destruct (Hs s Hin) as [Hw Hm]. destruct (s_addr s) as [n | n]; [| destruct He]. destruct He as [<- | []].
    cbn [wf_addr] in Hw. change V4_SHIFT_NEW with V4_SHIFT. destruct (v4_embed n Hw) as [-> Hr].
    split; cbn [fst snd]. exact Hr. lia. }
  { assert (length (v4_entries subnets) <= length subnets)%nat.
    { apply flat_map_length_le. intros s. destruct (s_addr s); cbn; lia. } lia. }
  destruct (create_spec (v6_entries subnets)) as (t6 & E6 & L6).
  { apply Forall_forall. intros e He. unfold v6_entries in He. apply in_flat_map in He. destruct He as (s & Hin & He).
    destruct (Hs s Hin) as [Hw Hm]. destruct (s_addr s) as [n | n]; [destruct He |]. destruct He as [<- | []].
    cbn [wf_addr] in Hw. split; cbn [fst snd]. exact Hw. lia. }
  { assert (length (v6_entries subnets) <= length subnets)%nat.
    { apply flat_map_length_le. intros s. destruct (s_addr s); cbn; lia. } lia. }
  unfold filter_new. rewrite E4, E6. cbn [res_bind]. unfold is_in. cbn [f4 f6].
  pose proof (canonical_range a Ha) as Hc. unfold contains.
  destruct (to_canonical a) as [x | x].
  - destruct (v4_embed x Hc) as [-> Hr]. rewrite L4 by exact Hr. f_equal.
    unfold v4_entries. rewrite existsb_flat_map. apply existsb_ext_in. intros s Hin.
    destruct (Hs s Hin) as [Hw Hm]. destruct (s_addr s) as [n | n]; [| reflexivity].
    cbn [wf_addr] in Hw. change V4_SHIFT_NEW with V4_SHIFT. destruct (v4_embed n Hw) as [-> _].
    cbn [existsb]. rewrite orb_false_r. apply v4_naive. exact Hm.
  - rewrite L6 by exact Hc. f_equal.
    unfold v6_entries. rewrite existsb_flat_map. apply existsb_ext_in. intros s Hin.
    destruct (s_addr s) as [n | n]; [reflexivity |]. cbn [existsb]. rewrite orb_false_r. reflexivity.
Qed.

(* the census of panic sites of the modelled functions (see tools/consts/ipfilter.py) *)
Lemma panic_site_census : IPFILTER_INDEX_SITES = 3 /\ IPFILTER_SPLIT_SITES = 1.
Proof. split; reflexivity. Qed.

(* ---- IpSubnet::from_str ---- *)
Definition mask_fits (a : ipaddr) (m : Z) : Prop :=
  match a, to_canonical a with
  | V6 _, V4 _ => 96 <= m <= 128
  | V4 _, _ => m <= 32
  | V6 _, _ => m <= 128
  end.

Definition canonical_subnet (a : ipaddr) (m : Z) : subnet :=
  match a, to_canonical a with
  | V6 _, V4 c => mk_subnet (V4 c) (m - 96)
  | _, _ => mk_subnet a m
  end.

Lemma from_str_spec : forall split addr mask s,
  from_str split addr mask = Ok s <->
  split = true /\ exists a m, addr = Some a /\ mask = Some m /\ mask_fits a m /\ s = canonical_subnet a m.
Proof.
  intros split addr mask s. unfold from_str, mask_fits, canonical_subnet, MAPPED_PREFIX, MAX_MASK_V4, MAX_MASK_V6.
  destruct split; cbn [negb].
  2: { split. discriminate. intros [H _]. discriminate. }
  destruct addr as [a |].
  2: { split. discriminate. intros (_ & a & m & H & _). discriminate. }
  destruct mask as [m |].
  2: { split. discriminate. intros (_ & a' & m & _ & H & _). discriminate. }
  assert (R : forall P : ipaddr -> Z -> Prop,
    (true = true /\ exists a' m', Some a = Some a' /\ Some m = Some m' /\ P a' m') <-> P a m).
  { intros P. split. intros (_ & a' & m' & E1 & E2 & H). inversion E1; inversion E2; subst. exact H.
    intros H. split. reflexivity. exists a, m. auto. }
  rewrite (R (fun a m => _ /\ s = _)). clear R.
  destruct a as [x | x]; cbn [to_canonical].
  - cbn [res_bind fst snd]. destruct (Z.gtb_spec m 32); split; try discriminate.
    + intros [H1 _]. lia.
    + intros E. inversion E. split. lia. reflexivity.
    + intros [_ ->]. reflexivity.
  - destruct (x / 2 ^ 32 =? 65535).
    + destruct (Z.ltb_spec m 96); cbn [res_bind fst snd].
      * split. discriminate. intros [H1 _]. lia.
      * destruct (Z.gtb_spec (m - 96) 32); split; try discriminate.
        -- intros [H1 _]. lia.
        -- intros E. inversion E. split. lia. reflexivity.
        -- intros [_ ->]. reflexivity.
    + cbn [res_bind fst snd]. destruct (Z.gtb_spec m 128); split; try discriminate.
      * intros [H1 _]. lia.
      * intros E. inversion E. split. lia. reflexivity.
      * intros [_ ->]. reflexivity.
Qed.

(* which error is reported *)
Lemma from_str_errors : forall split addr mask,
  (split = false -> from_str split addr mask = Err E_SUBNET) /\
  (split = true -> addr = None -> from_str split addr mask = Err E_IP) /\
  (forall a, split = true -> addr = Some a -> mask = None -> from_str split addr mask = Err E_MASK) /\
  (forall x m, split = true -> addr = Some (V6 x) -> mask = Some m -> x / 2 ^ 32 = 65535 -> m < 96 ->
     from_str split addr mask = Err E_MASK_V4_RANGE).
Proof.
  intros. repeat split; intros; subst; try reflexivity.
  unfold from_str, MAPPED_PREFIX. cbn [negb to_canonical]. rewrite H2. cbn. 
  destruct (Z.ltb_spec m 96). reflexivity. lia.
Qed.

(* an accepted subnet satisfies the precondition of the lookup theorem and is canonical *)
Lemma from_str_wf : forall split a m s, wf_addr a -> 0 <= m < 256 ->
  from_str split (Some a) (Some m) = Ok s -> wf_subnet s /\ to_canonical (s_addr s) = s_addr s.
Proof.
  intros split a m s Ha Hm H. apply from_str_spec in H. destruct H as (_ & a' & m' & E1 & E2 & Hf & ->).
  inversion E1; inversion E2; subst a' m'. unfold mask_fits in Hf. unfold canonical_subnet, wf_subnet.
  pose proof (canonical_range a Ha) as Hc.
  destruct a as [x | x]; cbn [to_canonical] in *.
  - cbn [s_addr s_mask wf_addr to_canonical]. split. split. exact Ha. lia. reflexivity.
  - destruct (x / 2 ^ 32 =? 65535) eqn:E.
    + cbn [s_addr s_mask wf_addr to_canonical]. split. split. exact Hc. lia. reflexivity.
    + cbn [s_addr s_mask wf_addr to_canonical]. rewrite E. split. split. exact Ha. lia. reflexivity.
Qed.

(* an IPv4-mapped IPv6 address is looked up as the IPv4 address it embeds *)
Lemma mapped_canonical : forall x, 0 <= x < 2 ^ 32 -> to_canonical (V6 (65535 * 2 ^ 32 + x)) = V4 x.
Proof.
  intros x H. cbn [to_canonical].
  assert (E1 : (65535 * 2 ^ 32 + x) / 2 ^ 32 = 65535) by (norm_pows; dm; lia).
  assert (E2 : (65535 * 2 ^ 32 + x) mod 2 ^ 32 = x) by (norm_pows; dm; lia).
  rewrite E1, E2. reflexivity.
Qed.

Lemma mapped_is_in : forall f x, 0 <= x < 2 ^ 32 -> is_in f (V6 (65535 * 2 ^ 32 + x)) = is_in f (V4 x).
Proof. intros. unfold is_in. rewrite mapped_canonical by assumption. reflexivity. Qed.
