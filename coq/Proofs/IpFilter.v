(* C31, part 4: the node array built by fill_node represents its prefix list
   (layout: children of a node are contiguous, indexed by popcount), create and
   lookup, IpFilter::new / is_in against naive containment, and IpSubnet::from_str. *)
From V Require Import Model.IpFilter Gen.ConstIpFilter.
From V Require Import Proofs.IpFilterArith Proofs.IpFilterPrefix Proofs.IpFilterNode.
From Coq Require Import ZifyBool Sorting.Sorted Permutation.

Arguments top_nibble : simpl never.
Arguments shl : simpl never.
Arguments wrap : simpl never.

(* ---- arrays ---- *)
Lemma set_nth_length : forall (A : Type) n (x : A) l, (n < length l)%nat -> length (set_nth n x l) = length l.
Proof.
  induction n; intros x l H; destruct l; simpl in H; try lia. reflexivity.
  change (set_nth (S n) x (a :: l)) with (a :: set_nth n x l). simpl. f_equal. apply IHn. lia.
Qed.

Lemma set_nth_same : forall (A : Type) n (x : A) l, (n < length l)%nat -> nth_error (set_nth n x l) n = Some x.
Proof.
  induction n; intros x l H; destruct l; simpl in H; try lia. reflexivity.
  change (set_nth (S n) x (a :: l)) with (a :: set_nth n x l). simpl. apply IHn. lia.
Qed.

Lemma set_nth_other : forall (A : Type) n (x : A) l p, (n < length l)%nat -> p <> n ->
  nth_error (set_nth n x l) p = nth_error l p.
Proof.
  induction n; intros x l p H Hp; destruct l; simpl in H; try lia.
  - destruct p. lia. reflexivity.
  - change (set_nth (S n) x (a :: l)) with (a :: set_nth n x l). destruct p. reflexivity. simpl. apply IHn; lia.
Qed.

Lemma nth_error_repeat : forall (A : Type) (x : A) n p, (p < n)%nat -> nth_error (repeat x n) p = Some x.
Proof. induction n; intros. lia. destruct p; simpl. reflexivity. apply IHn. lia. Qed.

Lemma filter_map_comm : forall (A B : Type) (f : B -> bool) (g : A -> B) l,
  filter f (map g l) = map g (filter (fun x => f (g x)) l).
Proof. induction l; simpl. reflexivity. destruct (f (g a)); simpl; rewrite IHl; reflexivity. Qed.

Lemma filter_ext_in : forall (A : Type) (f g : A -> bool) l, (forall x, In x l -> f x = g x) -> filter f l = filter g l.
Proof. induction l; simpl; intros. reflexivity. rewrite H, IHl by auto. reflexivity. Qed.

(* position of n among the selected elements of 0..m-1 *)
Lemma nth_filter_zseq : forall (g : Z -> bool) (m : nat) n, 0 <= n < Z.of_nat m -> g n = true ->
  nth_error (filter g (zseq m)) (length (filter g (zseq (Z.to_nat n)))) = Some n.
Proof.
  induction m; intros n Hn Hg. lia.
  rewrite zseq_S, filter_app. destruct (Z.eq_dec n (Z.of_nat m)).
  - subst n. rewrite Nat2Z.id. rewrite nth_error_app2 by lia. rewrite Nat.sub_diag. simpl. rewrite Hg. reflexivity.
  - assert (H : nth_error (filter g (zseq m)) (length (filter g (zseq (Z.to_nat n)))) = Some n) by (apply IHm; auto; lia).
    rewrite nth_error_app1. exact H. apply nth_error_Some. congruence.
Qed.

(* ---- the subtree below a node, stable under changes elsewhere ---- *)
Definition Subtree (f : nat) (nodes : list node) (idx lo hi : nat) (data : list entry) : Prop :=
  (hi <= length nodes)%nat /\
  forall nodes2, (forall p, p = idx \/ (lo <= p < hi)%nat -> nth_error nodes2 p = nth_error nodes p) ->
  forall a, in128 a -> lookup_from f nodes2 (Z.of_nat idx) a = Ok (existsb (econtains a) data).

Lemma Subtree_stable : forall f nodes nodes1 idx lo hi data,
  Subtree f nodes idx lo hi data -> (hi <= length nodes1)%nat ->
  (forall p, p = idx \/ (lo <= p < hi)%nat -> nth_error nodes1 p = nth_error nodes p) ->
  Subtree f nodes1 idx lo hi data.
Proof.
  intros f nodes nodes1 idx lo hi data [Hh Hs] Hl Hag. split. exact Hl.
  intros nodes2 H2 a Ha. apply Hs; auto. intros p Hp. rewrite H2 by exact Hp. apply Hag. exact Hp.
Qed.

(* what fill_node (or the recursive call inside fill_children) guarantees *)
Definition fill_ok (f : nat) (rec : list node -> list entry -> nat -> res (list node))
    (nodes : list node) (data : list entry) (idx : nat) : Prop :=
  exists nodes', rec nodes data idx = Ok nodes' /\
    (length nodes <= length nodes')%nat /\
    (length nodes' <= length nodes + f * length data)%nat /\
    (forall p, (p < length nodes)%nat -> p <> idx -> nth_error nodes' p = nth_error nodes p) /\
    Subtree f nodes' idx (length nodes) (length nodes') data.

Definition fill_pre (nodes : list node) (idx : nat) : Prop :=
  (idx < length nodes)%nat /\ nth_error nodes idx = Some default_node.

Definition seglen (l : list (Z * list entry)) : nat := fold_right (fun p acc => length (snd p) + acc)%nat O l.

Definition unknown_of (known : Z) (isegs : list (Z * list entry)) : list (Z * list entry) :=
  filter (fun p => negb (bit16 known (fst p))) isegs.

Lemma children_spec : forall f rec known isegs nodes child,
  (forall i seg, In (i, seg) (unknown_of known isegs) -> forall nodes idx, fill_pre nodes idx ->
     Z.of_nat (length nodes) + Z.of_nat f * Z.of_nat (length seg) < 2 ^ 32 ->
     fill_ok f rec nodes (map shift_entry seg) idx) ->
  (child + length (unknown_of known isegs) <= length nodes)%nat ->
  (forall p, (child <= p < child + length (unknown_of known isegs))%nat -> nth_error nodes p = Some default_node) ->
  Z.of_nat (length nodes) + Z.of_nat f * Z.of_nat (seglen (unknown_of known isegs)) < 2 ^ 32 ->
  exists nodes', fill_children rec known isegs nodes child = Ok nodes' /\
    (length nodes <= length nodes')%nat /\
    (length nodes' <= length nodes + f * seglen (unknown_of known isegs))%nat /\
    (forall p, (p < length nodes)%nat -> ~ (child <= p < child + length (unknown_of known isegs))%nat ->
       nth_error nodes' p = nth_error nodes p) /\
    (forall m i seg, nth_error (unknown_of known isegs) m = Some (i, seg) ->
       exists lo hi, (length nodes <= lo)%nat /\ (hi <= length nodes')%nat /\
         Subtree f nodes' (child + m) lo hi (map shift_entry seg)).
Proof.
  intros f rec known. induction isegs as [| [i seg] rest IH]; intros nodes child Hrec Hroom Hdef Hsize.
  - simpl. exists nodes. split. reflexivity. split. lia. split. simpl. lia. split. auto.
    intros m i seg H. destruct m; discriminate.
  - unfold unknown_of in *. cbn [fill_children filter fst] in *. destruct (bit16 known i) eqn:B; cbn [negb] in *.
    + apply IH; auto.
    + cbn [length seglen fold_right snd] in *. fold (seglen (filter (fun p => negb (bit16 known (fst p))) rest)) in *.
      set (us := filter (fun p => negb (bit16 known (fst p))) rest) in *.
      destruct (Hrec i seg (or_introl eq_refl) nodes child) as (nodes1 & E1 & L1 & L1' & U1 & S1).
      { split. lia. apply Hdef. lia. }
      { nia. }
      rewrite E1. cbn [res_bind]. rewrite map_length in L1'.
      destruct (IH nodes1 (S child)) as (nodes' & E2 & L2 & L2' & U2 & S2).
      { intros i' seg' Hin. apply (Hrec i' seg'). right. exact Hin. }
      { lia. }
      { intros p Hp. rewrite U1 by lia. apply Hdef. lia. }
      { nia. }
      exists nodes'. split. exact E2. split. lia. split. nia. split.
      * intros p Hp Hn. rewrite U2 by lia. apply U1; lia.
      * intros m i' seg' Hm. destruct m.
        -- simpl in Hm. inversion Hm; subst i' seg'. exists (length nodes), (length nodes1).
           split. lia. split. lia. rewrite Nat.add_0_r. eapply Subtree_stable. exact S1. lia.
           intros p Hp. apply U2; lia.
        -- simpl in Hm. destruct (S2 m i' seg' Hm) as (lo & hi & Hlo & Hhi & Hs).
           exists lo, hi. split. lia. split. lia. replace (child + S m)%nat with (S child + m)%nat by lia. exact Hs.
Qed.

(* ---- bookkeeping of segment sizes (for the u32 child offsets) ---- *)
Lemma seglen_cons_data : forall x r (l : list Z),
  seglen (map (fun i => (i, seg_of (x :: r) i)) l) =
  (seglen (map (fun i => (i, seg_of r i)) l) + length (filter (fun i => (key x =? i)%Z) l))%nat.
Proof.
  induction l as [| i l IH]. reflexivity.
  cbn [map seglen fold_right snd filter]. fold (seglen (map (fun i => (i, seg_of (x :: r) i)) l)).
  fold (seglen (map (fun i => (i, seg_of r i)) l)). rewrite IH.
  unfold seg_of at 1. cbn [filter]. fold (seg_of r i). destruct (key x =? i); cbn [length]; lia.
Qed.

Lemma one_hit : forall (m : nat) k, 0 <= k < Z.of_nat m -> length (filter (fun i => k =? i) (zseq m)) = 1%nat.
Proof.
  induction m; intros k Hk. lia.
  rewrite zseq_S, filter_app, app_length. cbn [filter]. destruct (Z.eqb_spec k (Z.of_nat m)).
  - rewrite filter_none. reflexivity. intros x Hx. apply in_zseq in Hx. lia.
  - rewrite IHm by lia. reflexivity.
Qed.

Lemma seglen_isegs : forall data : list entry, (forall e, In e data -> in128 (fst e)) -> seglen (isegs_of data) = length data.
Proof.
  induction data as [| x r IH]; intros H.
  - reflexivity.
  - unfold isegs_of. rewrite seglen_cons_data. fold (isegs_of r). rewrite IH by (intros; apply H; right; assumption).
    rewrite one_hit. cbn [length]. lia. apply (key_range x). apply H. left. reflexivity.
Qed.

Lemma seglen_filter : forall g l, (seglen (filter g l) <= seglen l)%nat.
Proof. induction l; cbn [filter seglen fold_right]. lia. destruct (g a); cbn [seglen fold_right]; fold (seglen l); fold (seglen (filter g l)); lia. Qed.

Lemma seglen_nonempty : forall l, (forall p, In p l -> snd p <> []) -> (length l <= seglen l)%nat.
Proof.
  induction l as [| p l IH]; intros H. cbn. lia.
  cbn [seglen fold_right length]. fold (seglen l). specialize (IH (fun q Hq => H q (or_intror Hq))).
  specialize (H p (or_introl eq_refl)). destruct (snd p). congruence. cbn [length]. lia.
Qed.

(* ---- the undecided segments of a node ---- *)
Lemma unknown_of_spec : forall known data,
  unknown_of known (isegs_of data) =
  map (fun i => (i, seg_of data i)) (filter (fun i => negb (Z.testbit known i)) (zseq 16)).
Proof.
  intros. unfold unknown_of, isegs_of. rewrite filter_map_comm. f_equal. cbn [fst].
  apply filter_ext_in. intros i Hi. apply in_zseq in Hi. rewrite bit16_testbit by lia. reflexivity.
Qed.

Lemma unknown_of_length : forall known data,
  length (unknown_of known (isegs_of data)) = Z.to_nat (count_zeros16 known).
Proof.
  intros. rewrite unknown_of_spec, map_length, count_zeros16_spec, bcount_filter. lia.
Qed.

Lemma undecided_seg : forall data, (forall e, In e data -> wf_entry e) -> StronglySorted entry_le data ->
  forall n, 0 <= n < 16 -> Z.testbit (node_known data) n = false ->
  seg_of data n <> [] /\ forall e, In e (seg_of data n) -> 4 < snd e.
Proof.
  intros data Hwf Hs n Hn Hk.
  assert (Ha : in128 (n * 2 ^ 124)) by (unfold in128; norm_pows; lia).
  assert (Hna : top_nibble (n * 2 ^ 124) = n) by (rewrite top_nibble_div by exact Ha; apply Z.div_mul; norm_pows; lia).
  split.
  - rewrite known_bit, outs_bit, outs0_bit in Hk by (auto; lia). apply orb_false_iff in Hk. destruct Hk as [Hi Ho].
    rewrite Hi in Ho. cbn [negb] in Ho. rewrite andb_true_r in Ho. intro E. rewrite E in Ho. discriminate.
  - destruct (undecided data Hwf Hs (n * 2 ^ 124) Ha) as [Hall _]. rewrite Hna. exact Hk. rewrite Hna in Hall. exact Hall.
Qed.

(* ---- fill_node ---- *)
Definition data_ok (f : nat) (data : list entry) : Prop :=
  (forall e, In e data -> wf_entry e /\ snd e <= 4 * Z.of_nat f) /\ StronglySorted entry_le data.

Lemma in128_shl4 : forall a, in128 (shl 128 a 4).
Proof. intros. rewrite shl128_4. unfold in128. apply Z.mod_pos_bound. reflexivity. Qed.

Lemma fill_node_step : forall f data nodes idx,
  data_ok (S f) data -> fill_pre nodes idx ->
  Z.of_nat (length nodes) + Z.of_nat (S f) * Z.of_nat (length data) < 2 ^ 32 ->
  (forall d nodes idx, data_ok f d -> d <> [] -> (forall e, In e d -> 1 <= snd e) -> fill_pre nodes idx ->
     Z.of_nat (length nodes) + Z.of_nat f * Z.of_nat (length d) < 2 ^ 32 ->
     fill_ok f (fill_node f) nodes d idx) ->
  fill_ok (S f) (fill_node (S f)) nodes data idx.
Proof.
  intros f data nodes idx [Hok Hsorted] [Hidx Hdef] Hsize Hchild.
  assert (Hwf : forall e, In e data -> wf_entry e) by (intros e He; apply Hok; exact He).
  assert (H128 : forall e, In e data -> in128 (fst e)) by (intros e He; apply Hwf; exact He).
  unfold fill_ok. cbn [fill_node]. rewrite segments_spec by auto. cbn [res_bind].
  rewrite combine_map_r. fold (isegs_of data). rewrite Hdef. cbn [inset outset default_node].
  destruct (fold_left seg_step (isegs_of data) (0, 0)) as [ins outs0] eqn:EF.
  assert (Eins : ins = node_ins data) by (unfold node_ins; rewrite EF; reflexivity).
  assert (Eouts0 : outs0 = node_outs0 data) by (unfold node_outs0; rewrite EF; reflexivity).
  subst ins outs0. fold (node_outs data). fold (node_known data). clear EF.
  set (known := node_known data).
  set (newnode := mk_node (wrap 32 (Z.of_nat (length nodes))) (node_ins data) (node_outs data)).
  set (U := Z.to_nat (count_zeros16 known)).
  set (nodes2 := set_nth idx newnode nodes ++ repeat default_node U).
  set (us := unknown_of known (isegs_of data)).
  assert (HU : length us = U) by apply unknown_of_length.
  assert (Hus : forall i seg, In (i, seg) us -> 0 <= i < 16 /\ seg = seg_of data i /\ Z.testbit known i = false).
  { intros i seg Hin. unfold us in Hin. rewrite unknown_of_spec in Hin. apply in_map_iff in Hin.
    destruct Hin as (j & Ej & Hj). inversion Ej; subst. apply filter_In in Hj. destruct Hj as [Hj1 Hj2].
    apply in_zseq in Hj1. split. lia. split. reflexivity. destruct (Z.testbit known i); auto; discriminate. }
  assert (Hseglen : (seglen us <= length data)%nat).
  { unfold us, unknown_of. rewrite <- (seglen_isegs data H128). apply seglen_filter. }
  assert (HUle : (U <= seglen us)%nat).
  { rewrite <- HU. apply seglen_nonempty. intros [i seg] Hp. cbn [snd]. destruct (Hus i seg Hp) as (Hi & -> & Hk).
    apply (undecided_seg data Hwf Hsorted i Hi Hk). }
  assert (Hlen2 : length nodes2 = (length nodes + U)%nat).
  { unfold nodes2. rewrite app_length, set_nth_length, repeat_length by exact Hidx. reflexivity. }
  destruct (children_spec f (fill_node f) known (isegs_of data) nodes2 (length nodes)) as (nodes' & E & L & L' & Un & Sub).
  { intros i seg Hin nodes0 idx0 Hpre Hsz. destruct (Hus i seg Hin) as (Hi & -> & Hk).
    destruct (undecided_seg data Hwf Hsorted i Hi Hk) as [Hne Hlong].
    destruct (shifted_ok data Hwf Hsorted i Hlong) as (Swf & Ssorted & Slen).
    apply Hchild; auto.
    - split; auto. intros e He. split. apply Swf; exact He. destruct (Slen e He) as (e0 & He0 & ->).
      apply in_seg_of in He0. destruct (Hok e0 (proj1 He0)). lia.
    - destruct (seg_of data i). congruence. discriminate.
    - intros e He. destruct (Slen e He) as (e0 & He0 & ->). specialize (Hlong e0 He0). lia.
    - rewrite map_length. exact Hsz. }
  { fold us. lia. }
  { fold us. intros p Hp. unfold nodes2. rewrite nth_error_app2; rewrite set_nth_length by exact Hidx; [| lia].
    apply nth_error_repeat. lia. }
  { fold us. nia. }
  fold us in L', Un, Sub. rewrite E.
  exists nodes'. split. reflexivity.
  assert (Hnode : nth_error nodes' idx = Some newnode).
  { rewrite Un by lia. unfold nodes2. rewrite nth_error_app1 by (rewrite set_nth_length; lia).
    apply set_nth_same. exact Hidx. }
  split. lia. split. nia. split.
  - intros p Hp Hne. rewrite Un by lia. unfold nodes2. rewrite nth_error_app1 by (rewrite set_nth_length; lia).
    apply set_nth_other; auto.
  - split. lia. intros nodes3 Hag a Ha.
    pose proof (top_nibble_range a Ha) as Hn. set (n := top_nibble a) in *.
    cbn [lookup_from]. rewrite Nat2Z.id. rewrite Hag by (left; reflexivity). rewrite Hnode.
    cbn [inset outset child_offset newnode]. fold n. rewrite !lookup_bit by exact Hn.
    destruct (Z.testbit (node_ins data) n) eqn:Bi.
    { cbn [negb]. f_equal. symmetry. apply ins_sound; auto. }
    destruct (Z.testbit (node_outs data) n) eqn:Bo.
    { cbn [negb]. f_equal. symmetry. apply outs_sound; auto. }
    cbn [negb].
    assert (Hk : Z.testbit known n = false) by (unfold known; rewrite known_bit, Bi, Bo by exact Hn; reflexivity).
    destruct (undecided data Hwf Hsorted a Ha Hk) as [_ Heq]. fold n in Heq. rewrite Heq.
    fold (node_known data). fold known. rewrite rank_spec by exact Hn. rewrite bcount_filter.
    set (m := length (filter (fun k => negb (Z.testbit known k)) (zseq (Z.to_nat n)))).
    assert (Hm : nth_error us m = Some (n, seg_of data n)).
    { unfold us. rewrite unknown_of_spec. apply map_nth_error. apply nth_filter_zseq. lia. rewrite Hk. reflexivity. }
    assert (Hmlt : (m < U)%nat) by (rewrite <- HU; apply nth_error_Some; congruence).
    destruct (Sub m n (seg_of data n) Hm) as (lo & hi & Hlo & Hhi & Hs).
    assert (Enext : wrap 32 (wrap 32 (Z.of_nat (length nodes)) + Z.of_nat m) = Z.of_nat (length nodes + m)).
    { unfold wrap. rewrite (Z.mod_small (Z.of_nat (length nodes))) by nia. rewrite Z.mod_small by nia. lia. }
    rewrite Enext. destruct Hs as [_ Hs]. apply Hs. 2: apply in128_shl4.
    intros p Hp. apply Hag. right. lia.
Qed.
