(* Proofs for C24, second half: the re-encoding of an accepted packet decodes to a packet
   that encodes to the same bytes (parse-of-print for headers, every field kind, MAC). *)
From V Require Import Model.Packet Proofs.Bytes Proofs.Packet Proofs.RoundTrip Proofs.Tamper.
From V Require Import Gen.ConstPacket.
From Coq Require Import ZifyBool.
Ltac Zify.zify_post_hook ::= Z.div_mod_to_equations.

Lemma to_be2 : forall x, to_be 2 x = [(x / 256) mod 256; x mod 256].
Proof. reflexivity. Qed.

Lemma btake_app_exact : forall a b, btake (blen a) (a ++ b) = a.
Proof.
  intros a b. unfold btake, blen. rewrite Nat2Z.id. rewrite firstn_app, Nat.sub_diag, firstn_all. cbn. apply app_nil_r.
Qed.

Lemma bdrop_app_exact : forall a b, bdrop (blen a) (a ++ b) = b.
Proof. intros a b. unfold bdrop, blen. rewrite Nat2Z.id. induction a as [|x a IH]; cbn; auto. Qed.

Lemma bdrop_app_exact' : forall n a b, blen a = n -> bdrop n (a ++ b) = b.
Proof. intros n a b <-. apply bdrop_app_exact. Qed.

(* parsing a raw field whose wire image starts the buffer *)
Lemma raw_print : forall tid fl X v5, 0 <= tid < 65536 -> 4 <= fl < 65536 ->
  (v5 = false -> fl mod 4 = 0) -> nm4 fl - 4 <= blen X ->
  raw_deserialize (to_be 2 tid ++ to_be 2 fl ++ X) 4 v5 = Ok (tid, btake (fl - 4) X).
Proof.
  intros tid fl X v5 Ht Hf Hm Hx. rewrite !to_be2. cbn [app]. unfold raw_deserialize.
  replace (tid / 256 mod 256 * 256 + tid mod 256) with tid by lia.
  replace (fl / 256 mod 256 * 256 + fl mod 256) with fl by lia.
  replace (fl <? 4) with false by lia.
  replace (negb v5 && negb (fl mod 4 =? 0)) with false by (destruct v5; [reflexivity|specialize (Hm eq_refl); cbn; lia]).
  pose proof (nm4_ge fl). pose proof (blen_nonneg X).
  set (whole := tid / 256 mod 256 :: tid mod 256 :: fl / 256 mod 256 :: fl mod 256 :: X).
  assert (blen whole = 4 + blen X) as Hw by (unfold whole; rewrite !blen_cons; lia).
  rewrite slice_in by lia. rewrite slice_in by lia.
  reflexivity.
Qed.

Definition msgb (v5 : bool) (minimum : Z) (d : bytes) : bytes :=
  if v5 then d else d ++ zeros (Z.max (blen d + 4) minimum - blen d - 4).

Definition min_ok (v5 : bool) (minimum : Z) : Prop :=
  if v5 then minimum = 4 else (minimum = 16 \/ minimum = 28).

Lemma bytes_print : forall v5 minimum tid d rest, data_ok v5 d -> min_ok v5 minimum -> 0 <= tid < 65536 ->
  raw_deserialize (bytes_field_wire tid d minimum v5 ++ rest) 4 v5 = Ok (tid, msgb v5 minimum d) /\
  wire_length (msgb v5 minimum d) = blen (bytes_field_wire tid d minimum v5) /\
  blen (msgb v5 minimum d) <= 65531 /\ (v5 = false -> blen (msgb v5 minimum d) mod 4 = 0) /\
  bytes_field_wire tid (msgb v5 minimum d) minimum v5 = bytes_field_wire tid d minimum v5.
Proof.
  intros v5 minimum tid d rest (Hwf & Hlen & Hmod) Hmin Htid.
  pose proof (blen_nonneg d) as Hd0. pose proof (blen_nonneg rest) as Hr0.
  unfold bytes_field_wire, EF_HEADER_LENGTH, msgb, wire_length.
  replace ((blen d + 4) mod 65536) with (blen d + 4) by lia.
  destruct v5; unfold min_ok in Hmin.
  - subst minimum. replace (Z.max (blen d + 4) 4) with (blen d + 4) by lia.
    pose proof (nm4_ge (blen d + 4)). pose proof (nm4_lt (blen d + 4)).
    rewrite <- !app_assoc.
    rewrite raw_print by first [ lia | (intros; discriminate) | (rewrite !blen_app, blen_zeros by lia; lia) ].
    replace (blen d + 4 - 4) with (blen d) by lia. rewrite btake_app_exact.
    rewrite !blen_app, !blen_to_be, blen_zeros by lia. replace (2 + 2 + blen d) with (blen d + 4) by lia.
    split; [reflexivity|]. split; [lia|]. split; [lia|]. split; [intros; discriminate|].
    replace ((blen d + 4) mod 65536) with (blen d + 4) by lia. replace (Z.max (blen d + 4) 4) with (blen d + 4) by lia. reflexivity.
  - specialize (Hmod eq_refl).
    set (A := Z.max (blen d + 4) minimum).
    assert (A mod 4 = 0 /\ blen d + 4 <= A /\ A < 65536 /\ minimum <= A) as (HA4 & HAd & HAu & HAm) by (unfold A; lia).
    assert (nm4_u16 A = A) as -> by (unfold nm4_u16; rewrite HA4; reflexivity).
    rewrite (nm4_fix A HA4).
    replace (to_be 2 tid ++ to_be 2 A ++ d ++ zeros (A - blen d - 4)) with
            (to_be 2 tid ++ to_be 2 A ++ (d ++ zeros (A - blen d - 4))) by reflexivity.
    rewrite <- !app_assoc.
    assert (blen (d ++ zeros (A - blen d - 4)) = A - 4) as Hb by (rewrite blen_app, blen_zeros by lia; lia).
    replace (d ++ zeros (A - blen d - 4) ++ rest) with ((d ++ zeros (A - blen d - 4)) ++ rest) by (rewrite <- app_assoc; reflexivity).
    rewrite raw_print by first [ lia | (intros; lia) | (rewrite (nm4_fix A HA4), blen_app; lia) ].
    rewrite <- Hb at 1. rewrite btake_app_exact.
    rewrite Hb. replace (2 + 2 + (A - 4)) with A by lia. rewrite (nm4_fix A HA4).
    rewrite !blen_app, !blen_to_be, blen_zeros by lia.
    split; [reflexivity|]. split; [lia|]. split; [lia|]. split; [intros _; lia|].
    (* idempotence of the padding *)
    replace ((A - 4 + 4) mod 65536) with A by lia.
    replace (Z.max (A - 4 + 4) minimum) with A by lia.
    replace (Z.max A minimum) with A by lia.
    assert (nm4_u16 A = A) as -> by (unfold nm4_u16; rewrite HA4; reflexivity).
    rewrite (nm4_fix A HA4). replace (A - (A - 4) - 4) with 0 by lia.
    change (zeros 0) with (@nil Z). rewrite app_nil_r. rewrite <- ?app_assoc. reflexivity.
Qed.

Lemma zeros_app : forall a b, 0 <= a -> 0 <= b -> zeros a ++ zeros b = zeros (a + b).
Proof. intros a b Ha Hb. unfold zeros. rewrite <- repeat_app. f_equal. lia. Qed.

Lemma all_zero_zeros_true : forall k, all_zero (zeros k) = true.
Proof.
  intros k. unfold zeros, all_zero. induction (Z.to_nat k) as [|n IH]; [reflexivity|]. cbn. exact IH.
Qed.

Lemma all_zero_app : forall a b, all_zero (a ++ b) = all_zero a && all_zero b.
Proof. intros a b. unfold all_zero. apply forallb_app. Qed.

Lemma data_ok_msgb : forall v5 minimum d, data_ok v5 d -> min_ok v5 minimum -> data_ok v5 (msgb v5 minimum d).
Proof.
  intros v5 minimum d Hd Hm. pose proof (bytes_print v5 minimum 0 d [] Hd Hm ltac:(lia)) as (_ & _ & Hl & Hmod & _).
  destruct Hd as (Hwf & _ & _). repeat split; try assumption.
  unfold msgb. destruct v5; [assumption|]. apply wf_app; [assumption|apply wf_zeros].
Qed.

Definition norm_field (v5 : bool) (minimum : Z) (f : ef) : ef :=
  match f with
  | EfUid d => EfUid (msgb v5 minimum d)
  | EfCookie d => EfCookie (msgb v5 minimum d)
  | EfPlaceholder n => EfPlaceholder (blen (msgb v5 minimum (zeros n)))
  | EfUnknown t d => EfUnknown t (msgb v5 minimum d)
  | other => other
  end.

Definition tid_of (f : ef) : Z :=
  match f with
  | EfUid _ => T_UID | EfCookie _ => T_COOKIE | EfPlaceholder _ => T_PLACEHOLDER | EfDraft _ => T_DRAFT
  | EfRefReq _ _ => T_REFREQ | EfRefResp _ => T_REFRESP | EfUnknown t _ => t | _ => 0
  end.

Definition msg_of (v5 : bool) (minimum : Z) (f : ef) : bytes :=
  match f with
  | EfUid d | EfCookie d | EfUnknown _ d | EfDraft d => msgb v5 minimum d
  | EfPlaceholder n => msgb v5 minimum (zeros n)
  | EfRefReq plen off => to_be 2 off ++ [0; 0] ++ zeros (4 * (plen / 4 - 1))
  | EfRefResp b => b
  | _ => []
  end.

Lemma field_print : forall v5 minimum f rest, field_ok v5 f -> min_ok v5 minimum ->
  raw_deserialize (field_wire v5 minimum f ++ rest) 4 v5 = Ok (tid_of f, msg_of v5 minimum f) /\
  wire_length (msg_of v5 minimum f) = blen (field_wire v5 minimum f) /\
  decode_field (tid_of f) (msg_of v5 minimum f) v5 = Ok (norm_field v5 minimum f) /\
  (tid_of f =? T_ENCRYPTED) = false /\
  field_ok v5 (norm_field v5 minimum f) /\
  field_wire v5 minimum (norm_field v5 minimum f) = field_wire v5 minimum f.
Proof.
  intros v5 minimum f rest Hf Hm. destruct f; cbn [field_ok] in Hf; try contradiction;
    cbn [field_wire tid_of msg_of norm_field].
  - (* Uid *)
    destruct (bytes_print v5 minimum T_UID b rest Hf Hm ltac:(unfold T_UID; lia)) as (H1 & H2 & _ & _ & H5).
    split; [exact H1|]. split; [exact H2|]. split; [reflexivity|]. split; [reflexivity|].
    split; [exact (data_ok_msgb v5 minimum b Hf Hm)|exact H5].
  - (* Cookie *)
    destruct (bytes_print v5 minimum T_COOKIE b rest Hf Hm ltac:(unfold T_COOKIE; lia)) as (H1 & H2 & _ & _ & H5).
    split; [exact H1|]. split; [exact H2|]. split; [reflexivity|]. split; [reflexivity|].
    split; [exact (data_ok_msgb v5 minimum b Hf Hm)|exact H5].
  - (* Placeholder *)
    destruct Hf as (Hn & Hnm).
    assert (data_ok v5 (zeros cookie_length)) as Hd.
    { repeat split; [apply wf_zeros|rewrite blen_zeros by lia; lia|intros Hv; rewrite blen_zeros by lia; auto]. }
    destruct (bytes_print v5 minimum T_PLACEHOLDER (zeros cookie_length) rest Hd Hm ltac:(unfold T_PLACEHOLDER; lia))
      as (H1 & H2 & H3 & H4 & H5).
    assert (all_zero (msgb v5 minimum (zeros cookie_length)) = true) as Hz.
    { unfold msgb. destruct v5; [apply all_zero_zeros_true|].
      rewrite all_zero_app, !all_zero_zeros_true. reflexivity. }
    pose proof (blen_nonneg (msgb v5 minimum (zeros cookie_length))) as H0.
    split; [exact H1|]. split; [exact H2|]. split.
    { unfold decode_field. change (T_PLACEHOLDER =? T_UID) with false. change (T_PLACEHOLDER =? T_COOKIE) with false.
      change (T_PLACEHOLDER =? T_PLACEHOLDER) with true. cbv iota. rewrite Hz.
      replace (blen (msgb v5 minimum (zeros cookie_length)) mod 65536) with (blen (msgb v5 minimum (zeros cookie_length))) by lia.
      reflexivity. }
    split; [reflexivity|]. split; [split; [lia|exact H4]|].
    rewrite <- (all_zero_zeros _ Hz). exact H5.
  - (* Draft *)
    destruct Hf as (-> & Hd & Ha). unfold min_ok in Hm. subst minimum.
    destruct (bytes_print true 4 T_DRAFT b rest Hd eq_refl ltac:(unfold T_DRAFT; lia)) as (H1 & H2 & _ & _ & H5).
    split; [exact H1|]. split; [exact H2|]. split.
    { unfold decode_field, msgb. change (T_DRAFT =? T_UID) with false. change (T_DRAFT =? T_COOKIE) with false.
      change (T_DRAFT =? T_PLACEHOLDER) with false. change ((T_DRAFT =? T_DRAFT) && true) with true. cbv iota.
      rewrite Ha. reflexivity. }
    split; [reflexivity|]. split; [split; [reflexivity|split; [exact Hd|exact Ha]]|reflexivity].
  - (* RefReq *)
    destruct Hf as (-> & Hp & Hp4 & Ho). unfold refreq_wire.
    set (body := to_be 2 offset ++ [0; 0] ++ zeros (4 * (payload_len / 4 - 1))).
    assert (blen body = payload_len) as Hb.
    { unfold body. rewrite !blen_app, blen_to_be, blen_zeros by lia. change (blen [0; 0]) with 2. lia. }
    replace ((payload_len + 4) mod 65536) with (payload_len + 4) by lia.
    rewrite <- !app_assoc.
    pose proof (blen_nonneg rest).
    rewrite raw_print by first [ (unfold T_REFREQ_to; lia) | lia | (intros; discriminate)
                               | (rewrite nm4_fix by lia; rewrite blen_app; lia) ].
    replace (payload_len + 4 - 4) with (blen body) by lia. rewrite btake_app_exact.
    split; [reflexivity|]. split.
    { unfold wire_length. rewrite Hb. rewrite nm4_fix by lia.
      rewrite !blen_app, !blen_to_be. fold body. rewrite Hb. lia. }
    split.
    { unfold decode_field. change (T_REFREQ =? T_UID) with false. change (T_REFREQ =? T_COOKIE) with false.
      change (T_REFREQ =? T_PLACEHOLDER) with false. change ((T_REFREQ =? T_DRAFT) && true) with false.
      change ((T_REFREQ =? T_REFREQ) && true) with true. cbv iota.
      unfold refreq_decode. rewrite Hb. replace (payload_len >? 65535) with false by lia.
      rewrite slice_in by lia. rewrite bdrop_0. replace (2 - 0) with (blen (to_be 2 offset)) by (rewrite blen_to_be; lia).
      unfold body. rewrite btake_app_exact. cbn [res_bind].
      rewrite be_to_be by (change (256 ^ Z.of_nat 2) with 65536; lia).
      replace (payload_len mod 4 =? 0) with true by lia. reflexivity. }
    split; [reflexivity|]. split; [repeat split; try assumption; lia|reflexivity].
  - (* RefResp *)
    destruct Hf as (-> & Hwf & Hl & _). unfold refresp_wire. cbv zeta.
    pose proof (blen_nonneg b). pose proof (blen_nonneg rest).
    replace ((blen b + 4) mod 65536) with (blen b + 4) by lia.
    set (pad := if (blen b + 4) mod 4 =? 0 then [] else zeros (4 - (blen b + 4) mod 4)).
    assert (blen pad = nm4 (blen b + 4) - (blen b + 4)) as Hp.
    { unfold pad, nm4. destruct ((blen b + 4) mod 4) eqn:E.
      - cbn. lia.
      - replace (Z.pos p =? 0) with false by lia. rewrite blen_zeros by lia. lia.
      - lia. }
    rewrite <- !app_assoc.
    rewrite raw_print by first [ (unfold T_REFRESP_to; lia) | lia | (intros; discriminate)
                               | (rewrite !blen_app; lia) ].
    replace (blen b + 4 - 4) with (blen b) by lia. rewrite btake_app_exact.
    split; [reflexivity|]. split.
    { unfold wire_length. rewrite !blen_app, !blen_to_be. replace (2 + 2 + blen b) with (blen b + 4) by lia. lia. }
    split.
    { unfold decode_field. change (T_REFRESP =? T_UID) with false. change (T_REFRESP =? T_COOKIE) with false.
      change (T_REFRESP =? T_PLACEHOLDER) with false. change ((T_REFRESP =? T_DRAFT) && true) with false.
      change ((T_REFRESP =? T_REFREQ) && true) with false. change ((T_REFRESP =? T_REFRESP) && true) with true.
      reflexivity. }
    split; [reflexivity|]. split; [repeat split; try assumption; discriminate|reflexivity].
  - (* Unknown *)
    destruct Hf as (Hd & Ht & Hne & Hpl).
    destruct (bytes_print v5 minimum type_id b rest Hd Hm Ht) as (H1 & H2 & _ & _ & H5).
    split; [exact H1|]. split; [exact H2|]. split; [apply Hpl|]. split; [lia|].
    split; [|exact H5]. split; [exact (data_ok_msgb v5 minimum b Hd Hm)|]. split; [exact Ht|]. split; [exact Hne|exact Hpl].
Qed.

(* ---- the field loop on printed fields ---- *)
Definition min_at (v5 : bool) (fs' : list ef) : Z :=
  if v5 then EF_MIN_V5 else match fs' with [] => EF_MIN_V4_LAST | _ => EF_MIN_V4 end.

Lemma min_at_ok : forall v5 fs', min_ok v5 (min_at v5 fs').
Proof. intros [|] fs'; cbn; [reflexivity|]. destruct fs'; [right|left]; reflexivity. Qed.

Fixpoint norm_fields (v5 : bool) (fs : list ef) : list ef :=
  match fs with
  | [] => []
  | f :: fs' => norm_field v5 (min_at v5 fs') f :: norm_fields v5 fs'
  end.

Lemma fields_wire_cons : forall v5 f fs', fields_wire v5 (f :: fs') = field_wire v5 (min_at v5 fs') f ++ fields_wire v5 fs'.
Proof. reflexivity. Qed.

Lemma norm_fields_nil_iff : forall v5 fs, norm_fields v5 fs = [] <-> fs = [].
Proof. intros v5 [|f fs]; cbn; split; intros H; try reflexivity; discriminate. Qed.

Lemma min_at_norm : forall v5 fs, min_at v5 (norm_fields v5 fs) = min_at v5 fs.
Proof. intros [|] [|f fs]; reflexivity. Qed.

Lemma norm_fields_ok : forall v5 fs, Forall (field_ok v5) fs ->
  Forall (field_ok v5) (norm_fields v5 fs) /\ fields_wire v5 (norm_fields v5 fs) = fields_wire v5 fs.
Proof.
  intros v5. induction fs as [|f fs IH]; intros H; [split; [constructor|reflexivity]|].
  inversion H; subst. destruct (IH H3) as (IH1 & IH2).
  destruct (field_print v5 (min_at v5 fs) f [] H2 (min_at_ok v5 fs)) as (_ & _ & _ & _ & Hok & Hw).
  cbn [norm_fields]. split; [constructor; assumption|].
  rewrite !fields_wire_cons. rewrite min_at_norm, Hw, IH2. reflexivity.
Qed.

Lemma field_wire_len : forall v5 minimum f, field_ok v5 f -> min_ok v5 minimum ->
  4 <= blen (field_wire v5 minimum f) /\ minimum <= blen (field_wire v5 minimum f).
Proof.
  intros v5 minimum f Hf Hm.
  destruct (field_print v5 minimum f [] Hf Hm) as (H1 & H2 & _).
  assert (4 <= blen (field_wire v5 minimum f)) as H4.
  { rewrite <- H2. unfold wire_length. pose proof (nm4_ge (2 + 2 + blen (msg_of v5 minimum f))).
    pose proof (blen_nonneg (msg_of v5 minimum f)). lia. }
  split; [exact H4|].
  destruct v5; unfold min_ok in Hm; [lia|].
  (* v4: only byte-string fields, padded up to the minimum *)
  assert (forall tid d, minimum <= blen (bytes_field_wire tid d minimum false)) as Hb.
  { intros tid d. unfold bytes_field_wire, EF_HEADER_LENGTH. rewrite !blen_app, !blen_to_be.
    pose proof (nm4_ge (Z.max (blen d + 4) minimum)). pose proof (blen_nonneg d).
    rewrite blen_zeros by lia. lia. }
  destruct f; cbn [field_ok] in Hf; try contradiction; cbn [field_wire]; try apply Hb.
  all: destruct Hf as (Hf & _); discriminate.
Qed.

Lemma fields_wire_len : forall v5 fs, Forall (field_ok v5) fs ->
  Z.of_nat (List.length fs) <= blen (fields_wire v5 fs) /\
  (fs <> [] -> (if v5 then 4 else 28) <= blen (fields_wire v5 fs)).
Proof.
  intros v5. induction fs as [|f fs IH]; intros H; [split; [cbn; lia|intros C; contradiction]|].
  inversion H; subst. destruct (IH H3) as (IH1 & IH2).
  destruct (field_wire_len v5 (min_at v5 fs) f H2 (min_at_ok v5 fs)) as (L4 & Lm).
  rewrite fields_wire_cons, blen_app. cbn [List.length]. split; [lia|]. intros _.
  pose proof (blen_nonneg (fields_wire v5 fs)).
  destruct v5; cbv iota; [lia|]. destruct fs as [|g fs].
  - unfold min_at, EF_MIN_V4_LAST in *. lia.
  - specialize (IH2 ltac:(discriminate)). lia.
Qed.

Definition final_state (st : lstate) (v5 : bool) (fs : list ef) (size : Z) : lstate :=
  mkL (mkEfdata (authenticated (l_ef st)) (encrypted (l_ef st)) (untrusted (l_ef st) ++ norm_fields v5 fs))
      size (l_valid st) (l_cookie st).

Lemma loop_print : forall dec data hs v5 tail, blen tail <= ef_cutoff v5 ->
  forall fs, Forall (field_ok v5) fs ->
  forall pre fuel st, (List.length fs < fuel)%nat -> l_size st = blen pre ->
  ef_loop fuel dec NoKeys data hs v5 (pre ++ fields_wire v5 fs ++ tail) (blen pre) st
  = Ok (final_state st v5 fs (blen pre + blen (fields_wire v5 fs))).
Proof.
  intros dec data hs v5 tail Htail. induction fs as [|f fs IH]; intros Hok pre fuel st Hfuel Hsz.
  - destruct fuel as [|fuel]; [cbn in Hfuel; lia|]. cbn [ef_loop fields_wire app].
    unfold stream_next. rewrite blen_app. pose proof (blen_nonneg tail). pose proof (blen_nonneg pre).
    replace (blen pre >? blen pre + blen tail) with false by lia.
    rewrite bdrop_app_exact. replace (blen tail <=? ef_cutoff v5) with true by lia.
    f_equal. unfold final_state. cbn [norm_fields fields_wire]. change (blen []) with 0.
    rewrite app_nil_r, Z.add_0_r, <- Hsz. destruct st as [[a e u] s v c]; reflexivity.
  - destruct fuel as [|fuel]; [cbn in Hfuel; lia|]. inversion Hok; subst.
    pose proof (min_at_ok v5 fs) as Hmin.
    set (fw := field_wire v5 (min_at v5 fs) f).
    set (rest := fields_wire v5 fs ++ tail).
    destruct (field_print v5 (min_at v5 fs) f rest H1 Hmin) as (P1 & P2 & P3 & P4 & _ & _).
    fold fw in P1, P2.
    destruct (fields_wire_len v5 (f :: fs) Hok) as (_ & Hlen). specialize (Hlen ltac:(discriminate)).
    rewrite fields_wire_cons in *. fold fw in Hlen |- *.
    cbn [ef_loop]. unfold EF_V4_UNENCRYPTED_MINIMUM_SIZE, stream_next.
    pose proof (blen_nonneg tail). pose proof (blen_nonneg pre). pose proof (blen_nonneg (fields_wire v5 fs)).
    replace (pre ++ (fw ++ fields_wire v5 fs) ++ tail) with (pre ++ fw ++ rest) by (unfold rest; rewrite <- !app_assoc; reflexivity).
    rewrite !blen_app. pose proof (blen_nonneg fw). pose proof (blen_nonneg rest).
    replace (blen pre >? blen pre + (blen fw + blen rest)) with false by lia.
    rewrite bdrop_app_exact.
    assert (blen (fw ++ rest) <=? ef_cutoff v5 = false) as Hcut.
    { rewrite blen_app in Hlen. unfold rest. rewrite !blen_app.
      unfold ef_cutoff, EF_CUTOFF_V5, MAC_MAXIMUM_SIZE in *. destruct v5; lia. }
    rewrite Hcut, P1, P4, P3. cbn [res_bind].
    rewrite P2.
    replace (pre ++ fw ++ rest) with ((pre ++ fw) ++ fields_wire v5 fs ++ tail) by (unfold rest; rewrite <- !app_assoc; reflexivity).
    replace (blen pre + blen fw) with (blen (pre ++ fw)) by (rewrite blen_app; reflexivity).
    rewrite IH; [|assumption|cbn [List.length] in Hfuel; lia|reflexivity].
    f_equal. unfold final_state, push_untrusted, set_size. cbn [l_ef l_size l_valid l_cookie authenticated encrypted untrusted norm_fields].
    rewrite <- app_assoc. cbn [app]. rewrite !blen_app. f_equal. lia.
Qed.

(* ---- re-reading a printed header ---- *)
Lemma btake_app_l : forall k a x, 0 <= k <= blen a -> btake k (a ++ x) = btake k a.
Proof.
  intros k a x H. unfold btake, blen in *. rewrite firstn_app.
  replace (Z.to_nat k - List.length a)%nat with 0%nat by lia. cbn [firstn]. apply app_nil_r.
Qed.

Lemma bdrop_app_l : forall k a x, 0 <= k <= blen a -> bdrop k (a ++ x) = bdrop k a ++ x.
Proof.
  intros k a x H. unfold bdrop, blen in *. rewrite skipn_app.
  replace (Z.to_nat k - List.length a)%nat with 0%nat by lia. reflexivity.
Qed.

Lemma nth_error_firstn_lt : forall (l : bytes) n i, (i < n)%nat -> nth_error (firstn n l) i = nth_error l i.
Proof.
  induction l as [|x l IH]; intros n i H; destruct n; try lia; [destruct i; reflexivity|].
  destruct i; [reflexivity|]. cbn. apply IH. lia.
Qed.

Lemma idx_prefix : forall data X i s, 0 <= i < 48 -> 48 <= blen data ->
  idx (btake 48 data ++ X) i s = idx data i s.
Proof.
  intros data X i s Hi Hl. unfold idx.
  assert (List.length (btake 48 data) = 48%nat) as Hlen.
  { pose proof (blen_btake 48 data ltac:(lia)) as Hb. unfold blen in Hb. lia. }
  rewrite nth_error_app1 by lia. unfold btake. rewrite nth_error_firstn_lt by lia. reflexivity.
Qed.

Lemma range_prefix : forall data X lo hi s, 0 <= lo -> lo <= hi -> hi <= 48 -> 48 <= blen data ->
  range (btake 48 data ++ X) lo hi s = range data lo hi s.
Proof.
  intros data X lo hi s H0 H1 H2 Hl.
  pose proof (blen_btake 48 data ltac:(lia)) as Hb. pose proof (blen_nonneg X).
  rewrite !range_ok by (rewrite ?blen_app; lia). f_equal.
  rewrite bdrop_app_l by lia. rewrite btake_app_l by (rewrite blen_bdrop by lia; lia).
  rewrite bdrop_btake by lia. rewrite btake_btake by lia. reflexivity.
Qed.

Lemma hdr34_reparse : forall data h X, hdr34_deserialize data = Ok h ->
  hdr34_deserialize (btake 48 data ++ X) = Ok h.
Proof.
  intros data h X H. pose proof (hdr34_ok_len _ _ H) as Hl.
  pose proof (blen_btake 48 data ltac:(lia)) as Hb. pose proof (blen_nonneg X).
  unfold hdr34_deserialize, HDR34_WIRE_LENGTH, field in *.
  replace (blen data <? 48) with false in H by lia.
  replace (blen (btake 48 data ++ X) <? 48) with false by (rewrite blen_app; lia).
  rewrite !idx_prefix, !range_prefix by lia. exact H.
Qed.

(* ---- decoding hw ++ fields ++ tail ---- *)
Lemma efdata_print : forall dec v5 hw fs tail, blen hw = 48 -> Forall (field_ok v5) fs ->
  blen tail <= ef_cutoff v5 ->
  efdata_deserialize dec NoKeys (hw ++ fields_wire v5 fs ++ tail) 48 v5
  = Ok (mkEfdata [] [] (norm_fields v5 fs), tail, None, true).
Proof.
  intros dec v5 hw fs tail Hhw Hok Htail. unfold efdata_deserialize.
  set (buf := fields_wire v5 fs ++ tail).
  pose proof (blen_nonneg buf) as Hb0. pose proof (blen_nonneg tail). pose proof (blen_nonneg (fields_wire v5 fs)).
  rewrite range_ok by (rewrite ?blen_app; lia). cbn [res_bind].
  replace (bdrop 48 (hw ++ buf)) with buf by (rewrite <- Hhw; symmetry; apply bdrop_app_exact).
  replace (blen (hw ++ buf) - 48) with (blen buf) by (rewrite blen_app; lia). rewrite btake_all.
  destruct (fields_wire_len v5 fs Hok) as (Hn & _).
  pose proof (loop_print dec (hw ++ buf) 48 v5 tail Htail fs Hok [] (S (List.length buf))
                (mkL efdata_empty 0 true None)) as HL.
  cbn [app] in HL. change (blen []) with 0 in HL. fold buf in HL.
  rewrite HL; [|unfold buf, blen in *; rewrite app_length in *; lia|reflexivity].
  cbn [res_bind]. unfold final_state. cbn [l_size l_ef l_valid l_cookie efdata_empty authenticated encrypted untrusted app].
  rewrite range_ok by (unfold buf; rewrite ?blen_app; lia). cbn [res_bind].
  replace (bdrop (48 + (0 + blen (fields_wire v5 fs))) (hw ++ buf)) with tail.
  2:{ unfold buf. rewrite app_assoc.
      replace (48 + (0 + blen (fields_wire v5 fs))) with (blen (hw ++ fields_wire v5 fs)) by (rewrite blen_app; lia).
      symmetry; apply bdrop_app_exact. }
  replace (blen (hw ++ buf) - (48 + (0 + blen (fields_wire v5 fs)))) with (blen tail) by (unfold buf; rewrite !blen_app; lia).
  rewrite btake_all. reflexivity.
Qed.

Lemma with_fields_print : forall dec v5 hw h fs tail m, blen hw = 48 -> Forall (field_ok v5) fs ->
  blen tail <= ef_cutoff v5 ->
  (forall h' d', construct_packet h' tail d' = Ok (mkPacket h' d' m)) ->
  with_fields dec NoKeys (hw ++ fields_wire v5 fs ++ tail) h 48 v5
  = Ok (Accept (mkPacket h (mkEfdata [] [] (norm_fields v5 fs)) m) None).
Proof.
  intros dec v5 hw h fs tail m Hhw Hok Htail Hc. unfold with_fields.
  rewrite efdata_print by assumption. cbn [res_bind]. rewrite Hc. reflexivity.
Qed.

Lemma nonempty_cons : forall l : bytes, 1 <= blen l -> exists y t, l = y :: t.
Proof. intros [|y t] H; [change (blen []) with 0 in H; lia|eauto]. Qed.

(* the packet printed and re-read: versions 3 and 4 *)
Theorem fixed_point_v34 : forall dec data p c, wf_bytes data ->
  deserialize dec NoKeys data = Ok (Accept p c) ->
  (match p_header p with HV5 _ => False | _ => True end) ->
  exists b1 p1,
    (forall enc cap, blen b1 <= cap -> serialize enc None cap None p = Ok b1) /\
    deserialize dec NoKeys b1 = Ok (Accept p1 None) /\
    (forall enc cap, blen b1 <= cap -> serialize enc None cap None p1 = Ok b1).
Proof.
  intros dec data p c Hwf H Hv. unfold deserialize in H.
  destruct data as [|x data']; [discriminate|]. remember (x :: data') as data eqn:Ed. clear Ed.
  inv_bind H. rename a into d0. rename E into Hd0.
  destruct (_ =? 3) eqn:V3.
  { inv_bind H. rename a into h. inv_bind H. inversion H; subst p c; clear H.
    pose proof (hdr34_ok_len _ _ E) as Hlen.
    pose proof (blen_btake 48 data ltac:(lia)) as Hb48.
    (* the MAC *)
    assert (exists tail, mac_wire a = tail /\
              (if HDR34_WIRE_LENGTH =? blen (btake 48 data ++ tail) then Ok None
               else do r <- range (btake 48 data ++ tail) HDR34_WIRE_LENGTH (blen (btake 48 data ++ tail)) S_V3_MAC_SLICE;
                    do m <- mac_deserialize r; Ok (Some m)) = Ok a) as (tail & Hm & Hre).
    { unfold HDR34_WIRE_LENGTH in *. destruct (48 =? blen data) eqn:E48.
      - inversion E0; subst a. exists []. split; [reflexivity|]. rewrite app_nil_r. replace (48 =? blen (btake 48 data)) with true by lia. reflexivity.
      - repeat inv_bind E0. inversion E0; subst a; clear E0.
        apply range_to_end in E1. destruct E1 as (Hr & _).
        assert (wf_bytes a0) as Hwr by (subst a0; apply wf_bdrop; assumption).
        pose proof (mac_deserialize_inv _ _ Hwr E2) as (Hw & Hl4 & _).
        exists a0. split; [exact Hw|]. rewrite blen_app.
        replace (48 =? blen (btake 48 data) + blen a0) with false by lia.
        rewrite range_ok by (rewrite ?blen_app; lia). cbn [res_bind].
        rewrite (bdrop_app_exact' 48 _ _ Hb48).
        replace (blen (btake 48 data) + blen a0 - 48) with (blen a0) by lia. rewrite btake_all, E2. reflexivity. }
    exists (btake 48 data ++ [] ++ tail), (mkPacket (HV3 h) efdata_empty a).
    assert (forall enc cap, blen (btake 48 data ++ [] ++ tail) <= cap ->
              serialize enc None cap None (mkPacket (HV3 h) efdata_empty a) = Ok (btake 48 data ++ [] ++ tail)) as Hser.
    { intros enc cap Hcap. apply serialize_parts; cbn [p_header p_ef p_mac]; try assumption.
      - intros w. eapply (proj1 (hdr34_serialize_eq data h d0 3 w Hwf E Hd0 ltac:(lia))).
      - intros w Hw. symmetry. apply wr_nil_room; assumption. }
    split; [exact Hser|]. split; [|exact Hser].
    cbn [app]. unfold deserialize.
    destruct (nonempty_cons (btake 48 data ++ tail)) as (y & l & Eb).
    { rewrite blen_app. pose proof (blen_nonneg tail). lia. }
    rewrite Eb. cbv iota. rewrite <- Eb. rewrite idx_prefix by lia. rewrite Hd0. cbn [res_bind]. rewrite V3.
    rewrite (hdr34_reparse data h tail E). cbn [res_bind]. rewrite Hre. reflexivity. }
  destruct (_ =? 4) eqn:V4.
  2:{ destruct (_ =? 5) eqn:V5; [|discriminate]. inv_bind H. pose proof (hdr5_ok_len _ _ E) as Hl5.
      inv_bind H. destruct a0 as [p' c'|p']; [|discriminate].
      assert (p' = p) as -> by (destruct (draft_id p'); [|discriminate]; destruct (bytes_eqb _ _); [|discriminate];
                                inversion H; reflexivity).
      unfold HDR5_WIRE_LENGTH in E0. apply with_fields_accept in E0; try assumption.
      destruct E0 as (_ & Hh & _). rewrite Hh in Hv. contradiction. }
  inv_bind H. rename a into h. pose proof (hdr34_ok_len _ _ E) as Hlen.
  pose proof (blen_btake 48 data ltac:(lia)) as Hb48.
  unfold HDR34_WIRE_LENGTH in H. apply with_fields_accept in H; try assumption.
  destruct H as (-> & Hh & tail & Ha & He & Hf & Hm & Htl & Hwt & Hcons).
  destruct (norm_fields_ok false _ Hf) as (Hnok & Hnw).
  exists (btake 48 data ++ fields_wire false (untrusted (p_ef p)) ++ tail),
         (mkPacket (HV4 h) (mkEfdata [] [] (norm_fields false (untrusted (p_ef p)))) (p_mac p)).
  split.
  { intros enc cap Hcap. apply serialize_parts; rewrite ?Hh; try assumption.
    - intros w. eapply (proj1 (hdr34_serialize_eq data h d0 4 w Hwf E Hd0 ltac:(lia))).
    - intros w Hw. apply efdata_serialize_eq; assumption. }
  split.
  { unfold deserialize.
    destruct (nonempty_cons (btake 48 data ++ fields_wire false (untrusted (p_ef p)) ++ tail)) as (y & l & Eb).
    { rewrite !blen_app. pose proof (blen_nonneg tail). pose proof (blen_nonneg (fields_wire false (untrusted (p_ef p)))). lia. }
    rewrite Eb. cbv iota. rewrite <- Eb. rewrite idx_prefix by lia. rewrite Hd0. cbn [res_bind]. rewrite V3, V4.
    rewrite (hdr34_reparse data h _ E). cbn [res_bind]. unfold HDR34_WIRE_LENGTH.
    apply with_fields_print; assumption. }
  intros enc cap Hcap. rewrite <- Hnw in Hcap |- *.
  apply serialize_parts; cbn [p_header p_ef p_mac untrusted authenticated encrypted]; try assumption.
  - intros w. eapply (proj1 (hdr34_serialize_eq data h d0 4 w Hwf E Hd0 ltac:(lia))).
  - intros w Hw. apply efdata_serialize_eq; cbn [untrusted authenticated encrypted]; try reflexivity; assumption.
Qed.

(* ---- version 5 ---- *)
Lemma norm_fields_v5 : forall fs, Forall (field_ok true) fs -> norm_fields true fs = fs.
Proof.
  induction fs as [|f fs IH]; intros H; [reflexivity|]. inversion H; subst.
  cbn [norm_fields]. rewrite IH by assumption. f_equal.
  destruct f; cbn [norm_field msgb]; try reflexivity.
  cbn [field_ok] in H2. rewrite blen_zeros by lia. reflexivity.
Qed.

Lemma bdrop_cons : forall k x l, 1 <= k -> bdrop k (x :: l) = bdrop (k - 1) l.
Proof.
  intros k x l H. unfold bdrop. replace (Z.to_nat k) with (S (Z.to_nat (k - 1))) by lia. reflexivity.
Qed.

Lemma nth_error_skipn1 : forall (l : bytes) k, nth_error (skipn 1 l) k = nth_error l (S k).
Proof. intros [|x l] k; [destruct k; reflexivity|reflexivity]. Qed.

Lemma idx_wire5 : forall data b X i s, 1 <= i < 48 -> 48 <= blen data ->
  idx ([b] ++ btake 47 (bdrop 1 data) ++ X) i s = idx data i s.
Proof.
  intros data b X i s Hi Hl. unfold idx. cbn [app].
  replace (Z.to_nat i) with (S (Z.to_nat (i - 1))) by lia. cbn [nth_error].
  assert (List.length (btake 47 (bdrop 1 data)) = 47%nat) as Hlen.
  { pose proof (blen_btake 47 (bdrop 1 data)) as Hb. rewrite blen_bdrop in Hb by lia.
    specialize (Hb ltac:(lia)). unfold blen in Hb. lia. }
  rewrite nth_error_app1 by lia. unfold btake, bdrop. rewrite nth_error_firstn_lt by lia.
  change (Z.to_nat 1) with 1%nat. rewrite nth_error_skipn1. reflexivity.
Qed.

Lemma range_wire5 : forall data b X lo hi s, 1 <= lo -> lo <= hi -> hi <= 48 -> 48 <= blen data ->
  range ([b] ++ btake 47 (bdrop 1 data) ++ X) lo hi s = range data lo hi s.
Proof.
  intros data b X lo hi s H0 H1 H2 Hl. cbn [app].
  assert (blen (btake 47 (bdrop 1 data)) = 47) as Hb.
  { rewrite blen_btake; [reflexivity|]. rewrite blen_bdrop; lia. }
  pose proof (blen_nonneg X).
  rewrite !range_ok by (rewrite ?blen_cons, ?blen_app; lia). f_equal.
  rewrite bdrop_cons by lia. rewrite bdrop_app_l by lia.
  rewrite btake_app_l by (rewrite blen_bdrop by lia; lia).
  rewrite bdrop_btake by lia. rewrite btake_btake by lia.
  rewrite bdrop_bdrop by lia. f_equal. f_equal. lia.
Qed.

Lemma hdr5_reparse : forall data h X, wf_bytes data -> hdr5_deserialize data = Ok h ->
  exists b0, hdr5_wire data h = [b0] ++ btake 47 (bdrop 1 data) /\ (b0 / 8) mod 8 = 5 /\
             hdr5_deserialize (hdr5_wire data h ++ X) = Ok h.
Proof.
  intros data h X Hwf H. pose proof (hdr5_ok_len _ _ H) as Hlen.
  unfold hdr5_wire. eexists. split; [reflexivity|].
  unfold hdr5_deserialize, HDR5_WIRE_LENGTH in H.
  replace (blen data <? 48) with false in H by lia.
  inv_bind H. destruct (negb _) eqn:Ever in H; [discriminate|].
  repeat inv_bind H. inversion H; subst h; clear H.
  cbn [v_leap v_mode].
  (* the values read from byte 0 *)
  unfold v5_mode_from_bits in E1. destruct (_ || _) eqn:Em in E1; [|discriminate]. inversion E1; subst a1; clear E1.
  assert (a0 = 0 \/ a0 = 1 \/ a0 = 2 \/ a0 = 4) as Hleap.
  { unfold leap_from_bits in E0.
    destruct (_ =? 0) in E0; [inversion E0; lia|]. destruct (_ =? 1) in E0; [inversion E0; lia|].
    destruct (_ =? 2) in E0; [inversion E0; lia|]. destruct (_ =? 3) in E0; [inversion E0; lia|discriminate]. }
  set (L := leap_to_bits (fix_leap a11 a0)).
  assert (0 <= L <= 3) as HL.
  { unfold L, leap_to_bits, fix_leap. destruct (a11 mod 2 =? 1); cbn [andb negb];
      destruct Hleap as [-> | [-> | [-> | ->]]]; cbn; lia. }
  set (b0 := L * 64 + HDR5_VERSION * 8 + a mod 8).
  assert (a mod 8 = 3 \/ a mod 8 = 4) as Hmode by lia.
  assert ((b0 / 8) mod 8 = 5 /\ (b0 / 64) mod 4 = L /\ b0 mod 8 = a mod 8) as (Hv5 & HbL & Hbm)
    by (unfold b0, HDR5_VERSION; lia).
  split; [exact Hv5|].
  assert (exists l', leap_from_bits L = Ok l' /\ fix_leap a11 l' = fix_leap a11 a0) as (l' & Hl1 & Hl2).
  { unfold L, fix_leap, leap_to_bits, leap_from_bits.
    destruct (a11 mod 2 =? 1) eqn:Es; cbn [andb negb];
      destruct Hleap as [-> | [-> | [-> | ->]]]; cbn; eexists; split; reflexivity. }
  pose proof (blen_nonneg X).
  assert (blen (btake 47 (bdrop 1 data)) = 47) as Hb47.
  { rewrite blen_btake; [reflexivity|]. rewrite blen_bdrop; lia. }
  unfold hdr5_deserialize, HDR5_WIRE_LENGTH, field.
  replace (blen (([b0] ++ btake 47 (bdrop 1 data)) ++ X) <? 48) with false
    by (rewrite !blen_app; change (blen [b0]) with 1; lia).
  rewrite <- app_assoc.
  assert (idx ([b0] ++ btake 47 (bdrop 1 data) ++ X) 0 S_HDR_INDEX = Ok b0) as -> by reflexivity.
  cbn [res_bind]. rewrite Hv5. cbn [Z.eqb negb Pos.eqb]. rewrite HbL, Hl1. cbn [res_bind].
  rewrite Hbm. unfold v5_mode_from_bits. rewrite Em. cbn [res_bind].
  rewrite !idx_wire5, !range_wire5 by lia.
  unfold field in E5, E6, E12, E13, E14, E15.
  rewrite E2, E3, E4. cbn [res_bind]. rewrite E5, E6. cbn [res_bind]. rewrite E7. cbn [res_bind].
  rewrite E8. cbn [res_bind]. rewrite E9, E10. cbn [res_bind]. rewrite E11. cbn [res_bind].
  rewrite E12, E13, E14, E15. cbn [res_bind]. rewrite Hl2. reflexivity.
Qed.

Theorem fixed_point_v5 : forall dec data p c, wf_bytes data ->
  deserialize dec NoKeys data = Ok (Accept p c) ->
  (match p_header p with HV5 _ => True | _ => False end) ->
  exists b1 p1,
    (forall enc cap, blen b1 <= cap -> serialize enc None cap None p = Ok b1) /\
    deserialize dec NoKeys b1 = Ok (Accept p1 None) /\
    (forall enc cap, blen b1 <= cap -> serialize enc None cap None p1 = Ok b1).
Proof.
  intros dec data p c Hwf H Hv. unfold deserialize in H.
  destruct data as [|x data']; [discriminate|]. remember (x :: data') as data eqn:Ed. clear Ed.
  inv_bind H. rename a into d0. rename E into Hd0.
  destruct (_ =? 3) eqn:V3.
  { inv_bind H. inv_bind H. inversion H; subst p. contradiction. }
  destruct (_ =? 4) eqn:V4.
  { inv_bind H. pose proof (hdr34_ok_len _ _ E) as Hlen. unfold HDR34_WIRE_LENGTH in H.
    apply with_fields_accept in H; try assumption. destruct H as (_ & Hh & _). rewrite Hh in Hv. contradiction. }
  destruct (_ =? 5) eqn:V5; [|discriminate].
  inv_bind H. rename a into h. pose proof (hdr5_ok_len _ _ E) as Hlen.
  inv_bind H. destruct a as [p' c'|p']; [|discriminate].
  destruct (draft_id p') as [id|] eqn:Hdraft; [|discriminate].
  destruct (bytes_eqb id draft_version_bytes) eqn:Hid; [|discriminate].
  inversion H; subst p' c'; clear H.
  unfold HDR5_WIRE_LENGTH in E0. apply with_fields_accept in E0; try assumption.
  destruct E0 as (-> & Hh & tail & Ha & He & Hf & Hm & Htl & Hwt & Hcons).
  pose proof (norm_fields_v5 _ Hf) as Hnorm.
  destruct (hdr5_reparse data h (fields_wire true (untrusted (p_ef p)) ++ tail) Hwf E) as (b0 & Hw & Hv5 & Hre).
  assert (blen (hdr5_wire data h) = 48) as Hb48.
  { rewrite Hw, blen_app. change (blen [b0]) with 1. rewrite blen_btake; [lia|]. rewrite blen_bdrop; lia. }
  assert (forall enc cap, blen (hdr5_wire data h ++ fields_wire true (untrusted (p_ef p)) ++ tail) <= cap ->
            serialize enc None cap None p = Ok (hdr5_wire data h ++ fields_wire true (untrusted (p_ef p)) ++ tail)) as Hser.
  { intros enc cap Hcap. apply serialize_parts; rewrite ?Hh; try assumption.
    - intros w. eapply (proj1 (hdr5_serialize_eq data h w Hwf E)).
    - intros w Hw'. apply efdata_serialize_eq; assumption. }
  exists (hdr5_wire data h ++ fields_wire true (untrusted (p_ef p)) ++ tail),
         (mkPacket (HV5 h) (mkEfdata [] [] (norm_fields true (untrusted (p_ef p)))) (p_mac p)).
  split; [exact Hser|]. split.
  { unfold deserialize.
    destruct (nonempty_cons (hdr5_wire data h ++ fields_wire true (untrusted (p_ef p)) ++ tail)) as (y & l & Eb).
    { rewrite !blen_app. pose proof (blen_nonneg tail). pose proof (blen_nonneg (fields_wire true (untrusted (p_ef p)))). lia. }
    rewrite Eb. cbv iota. rewrite <- Eb.
    assert (idx (hdr5_wire data h ++ fields_wire true (untrusted (p_ef p)) ++ tail) 0 S_DATA0 = Ok b0) as ->
      by (rewrite Hw; reflexivity).
    cbn [res_bind]. rewrite Hv5. cbn [Z.eqb Pos.eqb]. rewrite Hre. cbn [res_bind]. unfold HDR5_WIRE_LENGTH.
    rewrite (with_fields_print dec true (hdr5_wire data h) (HV5 h) _ tail (p_mac p) Hb48 Hf Htl Hcons).
    cbn [res_bind]. unfold draft_id. cbn [p_ef untrusted authenticated]. rewrite Hnorm.
    unfold draft_id in Hdraft. rewrite Ha in Hdraft. rewrite Hdraft, Hid. reflexivity. }
  intros enc cap Hcap. rewrite Hnorm.
  apply serialize_parts; cbn [p_header p_ef p_mac untrusted authenticated encrypted]; try assumption.
  - intros w. eapply (proj1 (hdr5_serialize_eq data h w Hwf E)).
  - intros w Hw'. apply (efdata_serialize_eq enc true (mkEfdata [] [] (untrusted (p_ef p))) w); cbn [untrusted authenticated encrypted]; try reflexivity; assumption.
Qed.

(* all versions *)
Theorem fixed_point : forall dec data p c, wf_bytes data ->
  deserialize dec NoKeys data = Ok (Accept p c) ->
  exists b1 p1,
    (forall enc cap, blen b1 <= cap -> serialize enc None cap None p = Ok b1) /\
    deserialize dec NoKeys b1 = Ok (Accept p1 None) /\
    (forall enc cap, blen b1 <= cap -> serialize enc None cap None p1 = Ok b1).
Proof.
  intros dec data p c Hwf H. destruct (p_header p) eqn:Eh.
  - eapply fixed_point_v34; try eassumption. rewrite Eh. exact I.
  - eapply fixed_point_v34; try eassumption. rewrite Eh. exact I.
  - eapply fixed_point_v5; try eassumption. rewrite Eh. exact I.
Qed.
