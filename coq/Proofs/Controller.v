(* Lemmas about Model/Controller.v: the integer threshold logic (C01). *)
From V Require Import Model.TimeTypes Model.Controller Gen.ConstController.
From Coq Require Import Floats.
Open Scope Z_scope.

(* the census of the modelled sites: one step_clock call, one set_frequency call, one
   check before the step, two exits, one write of each state variable *)
Lemma census :
  (STEP_CLOCK_SITES, SET_FREQUENCY_SITES, CHECK_OFFSET_STEER_CALLS, THRESHOLD_EXIT_SITES,
   THRESHOLD_PANIC_SITES, IN_STARTUP_WRITES, ACCUMULATED_STEPS_WRITES, FREQ_OFFSET_WRITES,
   DESIRED_FREQ_WRITES, STEER_OFFSET_CALLS, STEER_FREQUENCY_CALLS, CHANGE_DESIRED_FREQUENCY_CALLS)
  = (1, 1, 1, 2, 2, 1, 1, 1, 1, 1, 2, 2).
Proof. reflexivity. Qed.

(* ------------------------------------------------------------------ *)
(* ranges                                                              *)

Lemma to_signed64_range : forall z, in_i64 (to_signed 64 z).
Proof.
  intro z. unfold to_signed, in_i64.
  pose proof (Z.mod_pos_bound z (2 ^ 64) ltac:(lia)).
  destruct (Z.ltb_spec (z mod 2 ^ 64) (2 ^ (64 - 1))); lia.
Qed.

Lemma from_seconds_range : forall x, in_i64 (from_seconds x).
Proof.
  intro x. unfold from_seconds.
  destruct (Prim2SF x) as [s | s | | s m e]; try destruct s;
    unfold in_i64, i64_min, i64_max; try lia.
  all: repeat match goal with |- context [if ?b then _ else _] => destruct b end;
    try apply to_signed64_range; lia.
Qed.

Lemma dabs_k_exact : forall ar d, in_i64 d -> (sat_abs ar = true \/ d <> i64_min) ->
  k_abs ar d = Z.min (Z.abs d) i64_max.
Proof.
  intros ar d H Hs. unfold k_abs.
  destruct (sat_abs ar).
  - unfold dabs, sat_i64, clampZ, i64_min, i64_max, in_i64 in *. lia.
  - destruct Hs as [Hs | Hs]; [discriminate |].
    unfold dabs_wrap, to_signed, in_i64, i64_min, i64_max in *.
    assert (0 <= Z.abs d < 2 ^ 63) by lia.
    rewrite Z.mod_small by lia.
    destruct (Z.ltb_spec (Z.abs d) (2 ^ (64 - 1))); lia.
Qed.

Lemma mod64_neg : forall z, - 2 ^ 64 < z < 0 -> z mod 2 ^ 64 = z + 2 ^ 64.
Proof.
  intros z H. symmetry. apply (Z.mod_unique z (2 ^ 64) (-1) (z + 2 ^ 64)); lia.
Qed.

Lemma dneg_k_exact : forall ar b, in_i64 b -> (sat_neg ar = true \/ b <> i64_min) ->
  k_neg ar b = Z.min (- b) i64_max.
Proof.
  intros ar b H Hs. unfold k_neg.
  destruct (sat_neg ar).
  - unfold dneg, sat_i64, clampZ, i64_min, i64_max, in_i64 in *. lia.
  - destruct Hs as [Hs | Hs]; [discriminate |].
    unfold dneg_wrap, to_signed, in_i64, i64_min, i64_max in *.
    destruct (Z.le_gt_cases 0 (- b)).
    + rewrite Z.mod_small by lia.
      destruct (Z.ltb_spec (- b) (2 ^ (64 - 1))); lia.
    + rewrite mod64_neg by lia.
      destruct (Z.ltb_spec (- b + 2 ^ 64) (2 ^ (64 - 1))); lia.
Qed.

(* ------------------------------------------------------------------ *)
(* is_within computes the mathematical threshold test                  *)

Lemma is_within_spec : forall ar t d,
  thr_wf t -> neg_ok ar t -> in_i64 d ->
  (is_within ar t d = true <-> within t d).
Proof.
  intros ar t d [Hf Hb] Hn Hd. unfold is_within, within.
  destruct (fwd t) as [f |] eqn:Ef; destruct (bwd t) as [b |] eqn:Eb; cbn in Hf, Hb.
  - assert (Hk : k_neg ar b = Z.min (- b) i64_max).
    { apply dneg_k_exact; auto. destruct Hn as [Hn | Hn]; [left; auto | right; congruence]. }
    rewrite Hk, andb_true_iff, !Z.ltb_lt.
    unfold in_i64, i64_max in *. split.
    + intros [H1 H2]. split; intros ? E; inversion E; subst; lia.
    + intros [H1 H2]. specialize (H1 _ eq_refl). specialize (H2 _ eq_refl). lia.
  - rewrite andb_true_r, Z.ltb_lt. split.
    + intros H1. split; intros ? E; inversion E; subst; lia.
    + intros [H1 _]. apply H1; auto.
  - assert (Hk : k_neg ar b = Z.min (- b) i64_max).
    { apply dneg_k_exact; auto. destruct Hn as [Hn | Hn]; [left; auto | right; congruence]. }
    rewrite Hk. cbn [andb]. rewrite Z.ltb_lt. unfold in_i64, i64_max in *. split.
    + intros H2. split; intros ? E; inversion E; subst; lia.
    + intros [_ H2]. specialize (H2 _ eq_refl). lia.
  - split; auto. intros _. split; intros ? E; discriminate.
Qed.

Lemma within_dec : forall t d, within t d \/ ~ within t d.
Proof.
  intros t d. unfold within.
  destruct (fwd t) as [f |]; destruct (bwd t) as [b |].
  - destruct (Z.lt_ge_cases d f); destruct (Z.lt_ge_cases (- b) d).
    + left. split; intros ? E; inversion E; subst; lia.
    + right. intros [_ H2]. specialize (H2 _ eq_refl). lia.
    + right. intros [H1 _]. specialize (H1 _ eq_refl). lia.
    + right. intros [H1 _]. specialize (H1 _ eq_refl). lia.
  - destruct (Z.lt_ge_cases d f).
    + left. split; intros ? E; inversion E; subst; lia.
    + right. intros [H1 _]. specialize (H1 _ eq_refl). lia.
  - destruct (Z.lt_ge_cases (- b) d).
    + left. split; intros ? E; inversion E; subst; lia.
    + right. intros [_ H2]. specialize (H2 _ eq_refl). lia.
  - left. split; intros ? E; discriminate.
Qed.

(* ------------------------------------------------------------------ *)
(* check_step                                                          *)

Definition acc_ok (s : st) : Prop := 0 <= acc s <= i64_max.

Lemma dadd_acc : forall a k, 0 <= a <= i64_max -> 0 <= k <= i64_max ->
  dadd a k = Z.min (a + k) i64_max.
Proof. intros. unfold dadd, sat_i64, clampZ, i64_min, i64_max in *. lia. Qed.

(* the complete behaviour of the threshold check, in mathematical terms *)
Lemma check_step_spec : forall ar c s d,
  cfg_wf c -> neg_ok ar (c_startup c) -> neg_ok ar (c_single c) ->
  in_i64 d -> acc_ok s -> (sat_abs ar = true \/ d <> i64_min) ->
  (violates c s d /\ exists p, check_step ar c s d = Panic p /\ is_exit p = true) \/
  (~ violates c s d /\
   check_step ar c s d =
     Ok (if in_startup s then s else set_acc s (Z.min (acc s + Z.abs d) i64_max))).
Proof.
  intros ar c s d (Hws & Hwg & Hwa) Hns Hng Hd Ha Hs.
  unfold check_step, violates.
  destruct (in_startup s).
  - pose proof (is_within_spec ar (c_startup c) d Hws Hns Hd) as W.
    destruct (is_within ar (c_startup c) d).
    + right. split; [intro H; apply H; apply W; auto | reflexivity].
    + left. split; [intro H; apply W in H; discriminate |].
      exists site_exit_startup. split; reflexivity.
  - pose proof (is_within_spec ar (c_single c) d Hwg Hng Hd) as W.
    assert (Hk : k_abs ar d = Z.min (Z.abs d) i64_max) by (apply dabs_k_exact; auto).
    assert (Hsum : dadd (acc s) (k_abs ar d) = Z.min (acc s + Z.abs d) i64_max).
    { rewrite Hk. rewrite dadd_acc; unfold acc_ok, i64_max in *; lia. }
    rewrite Hsum.
    destruct (is_within ar (c_single c) d); cbn [negb orb].
    + destruct (c_acc c) as [a |] eqn:Ea.
      * destruct (Z.ltb_spec a (Z.min (acc s + Z.abs d) i64_max)).
        -- left. split; [right; exists a; auto |].
           exists site_exit_running. split; reflexivity.
        -- right. split; [| reflexivity].
           intros [H1 | (a' & E & H1)]; [apply H1, W; auto | inversion E; subst; lia].
      * right. split; [| reflexivity].
        intros [H1 | (a' & E & H1)]; [apply H1, W; auto | discriminate].
    + left. split; [left; intro H; apply W in H; discriminate |].
      exists site_exit_running. split; reflexivity.
Qed.

(* without any assumption on the arithmetic: what a passed check guarantees *)
Lemma check_step_ok_startup : forall ar c s d s',
  check_step ar c s d = Ok s' -> in_startup s = true ->
  is_within ar (c_startup c) d = true /\ s' = s.
Proof.
  intros ar c s d s' H E. unfold check_step in H. rewrite E in H.
  destruct (is_within ar (c_startup c) d); inversion H; auto.
Qed.

Lemma check_step_ok_running : forall ar c s d s',
  check_step ar c s d = Ok s' -> in_startup s = false ->
  is_within ar (c_single c) d = true /\
  s' = set_acc s (dadd (acc s) (k_abs ar d)) /\
  (forall a, c_acc c = Some a -> dadd (acc s) (k_abs ar d) <= a).
Proof.
  intros ar c s d s' H E. unfold check_step in H. rewrite E in H.
  destruct (is_within ar (c_single c) d); cbn [negb orb] in H; [| discriminate].
  destruct (c_acc c) as [a |].
  - destruct (Z.ltb_spec a (dadd (acc s) (k_abs ar d))); inversion H.
    repeat split; auto. intros a' E'. inversion E'. subst. lia.
  - inversion H. repeat split; auto. intros a' E'. discriminate.
Qed.

Lemma check_step_startup_flag : forall ar c s d s',
  check_step ar c s d = Ok s' -> in_startup s' = in_startup s.
Proof.
  intros ar c s d s' H. unfold check_step in H.
  destruct (in_startup s) eqn:E.
  - destruct (is_within ar (c_startup c) d); inversion H; subst; auto.
  - destruct (negb (is_within ar (c_single c) d) || _); inversion H; subst; auto.
Qed.

Lemma check_step_panic_exit : forall ar c s d p,
  check_step ar c s d = Panic p -> is_exit p = true.
Proof.
  intros ar c s d p H. unfold check_step in H.
  destruct (in_startup s).
  - destruct (is_within ar (c_startup c) d); inversion H; reflexivity.
  - destruct (negb (is_within ar (c_single c) d) || _); inversion H; reflexivity.
Qed.

(* ------------------------------------------------------------------ *)
(* one operation                                                       *)

(* what an operation does to the clock steps and to the integer state: either
   no step and no change of acc, or exactly one step d that passed check_step in
   the state the operation started in *)
Inductive op_effect (ar : arith) (c : cfg) (s : st) : list call -> res st -> Prop :=
| eff_none : forall cs r,
    steps_of cs = [] ->
    (forall s', r = Ok s' -> acc s' = acc s) ->
    op_effect ar c s cs r
| eff_step : forall cs d s1 s',
    steps_of cs = [d] -> in_i64 d ->
    check_step ar c s d = Ok s1 -> acc s' = acc s1 ->
    op_effect ar c s cs (Ok s').

Lemma steer_frequency_effect : forall c s ch cs r,
  steer_frequency c s ch = (cs, r) ->
  steps_of cs = [] /\
  (forall s', r = Ok s' -> acc s' = acc s /\ in_startup s' = in_startup s /\ desired_freq s' = desired_freq s).
Proof.
  intros c s ch cs r H. unfold steer_frequency in H.
  destruct (f_clamp _ _ _); inversion H; subst; split; auto; intros s' E; inversion E; subst; auto.
Qed.

Lemma change_desired_effect : forall c s nf fd cs r,
  change_desired_frequency c s nf fd = (cs, r) ->
  steps_of cs = [] /\
  (forall s', r = Ok s' -> acc s' = acc s /\ in_startup s' = in_startup s /\ desired_freq s' = nf).
Proof.
  intros c s nf fd cs r H. unfold change_desired_frequency in H.
  apply steer_frequency_effect in H. destruct H as [H1 H2]. split; [exact H1 |].
  intros s' E. destruct (H2 s' E) as (A & B & C). cbn in A, B, C. auto.
Qed.

Lemma steer_offset_effect : forall ar c s ch fd cs r,
  steer_offset ar c s ch fd = (cs, r) ->
  op_effect ar c s cs r /\ (forall s', r = Ok s' -> in_startup s' = in_startup s).
Proof.
  intros ar c s ch fd cs r H. unfold steer_offset in H.
  destruct (PrimFloat.ltb (c_step_threshold c) (PrimFloat.abs ch)).
  - destruct (check_step ar c s (from_seconds ch)) as [s1 | e | p] eqn:E; inversion H; subst.
    + split.
      * apply eff_step with (d := from_seconds ch) (s1 := s1);
          [reflexivity | apply from_seconds_range | exact E | reflexivity].
      * intros s' E'. inversion E'. subst. eapply check_step_startup_flag; eauto.
    + split; [apply eff_none; auto; intros; discriminate | intros; discriminate].
    + split; [apply eff_none; auto; intros; discriminate | intros; discriminate].
  - destruct (duration_check _).
    + apply change_desired_effect in H. destruct H as [H1 H2]. split.
      * apply eff_none; auto. intros s' E. apply H2 in E. tauto.
      * intros s' E. apply H2 in E. tauto.
    + inversion H; subst. split; [apply eff_none; auto; intros; discriminate | intros; discriminate].
    + inversion H; subst. split; [apply eff_none; auto; intros; discriminate | intros; discriminate].
Qed.

Lemma steps_of_app : forall a b, steps_of (a ++ b) = steps_of a ++ steps_of b.
Proof. intros. unfold steps_of. apply flat_map_app. Qed.

Lemma update_clock_effect : forall ar c s e l cs r,
  update_clock ar c s e l = (cs, r) ->
  op_effect ar c s cs r /\ (forall s', r = Ok s' -> in_startup s' = false).
Proof.
  intros ar c s e l cs r H. unfold update_clock in H.
  set (pre := if in_startup s then [DisableNtp] else []) in *.
  assert (Hpre : steps_of pre = []) by (subst pre; destruct (in_startup s); reflexivity).
  unfold seq at 1 in H.
  match type of H with
  | (let (_, _) := seq ?steer ?k in _) = _ => remember steer as st0 eqn:Est; destruct st0 as [cs1 r1]
  end.
  assert (Hst : op_effect ar c s cs1 r1 /\ (forall s', r1 = Ok s' -> in_startup s' = in_startup s)).
  { symmetry in Est.
    destruct (_ && _) in Est.
    - apply steer_offset_effect in Est. auto.
    - destruct (PrimFloat.ltb _ _) in Est.
      + apply steer_frequency_effect in Est. destruct Est as [H1 H2]. split.
        * apply eff_none; auto. intros s' E. apply H2 in E. tauto.
        * intros s' E. apply H2 in E. tauto.
      + inversion Est; subst. split; [apply eff_none; auto; intros s' E; inversion E; auto |].
        intros s' E; inversion E; auto. }
  destruct Hst as [Heff Hflag].
  unfold seq in H.
  assert (Hl : steps_of (ErrEst :: (if l then [Status] else [])) = []) by (destruct l; reflexivity).
  destruct Heff as [cs1 r1 Hs0 Ha0 | cs1 d s1 s2 Hs0 Hd Hc Ha0].
  - destruct r1 as [sa | e1 | p1]; cbn in H; inversion H; subst; clear H.
    + split; [| intros s' E; inversion E; reflexivity].
      apply eff_none.
      * rewrite !steps_of_app, Hpre, Hl, Hs0. reflexivity.
      * intros s' E. inversion E; subst. cbn. apply Ha0. reflexivity.
    + split; [| intros; discriminate].
      apply eff_none; [rewrite steps_of_app, Hpre, Hs0; reflexivity | intros; discriminate].
    + split; [| intros; discriminate].
      apply eff_none; [rewrite steps_of_app, Hpre, Hs0; reflexivity | intros; discriminate].
  - cbn in H; inversion H; subst; clear H.
    split; [| intros s' E; inversion E; reflexivity].
    apply eff_step with (d := d) (s1 := s1); auto.
    rewrite !steps_of_app, Hpre, Hl, Hs0. reflexivity.
Qed.


Lemma step_effect : forall ar c s o cs r,
  step ar c s o = (cs, r) ->
  op_effect ar c s cs r /\
  (forall s', r = Ok s' -> in_startup s' = in_startup s && negb (is_consensus_update o)).
Proof.
  intros ar c s o cs r H. destruct o as [[e |] l | | ch fd | ch]; cbn [step] in H.
  - apply update_clock_effect in H. destruct H as [H1 H2]. split; auto.
    intros s' E. rewrite (H2 s' E). cbn. rewrite andb_false_r. reflexivity.
  - inversion H; subst. split.
    + apply eff_none; auto. intros s' E; inversion E; auto.
    + intros s' E; inversion E; subst. cbn. rewrite andb_true_r. reflexivity.
  - apply change_desired_effect in H. destruct H as [H1 H2]. split.
    + apply eff_none; auto. intros s' E. apply H2 in E. tauto.
    + intros s' E. apply H2 in E. cbn. rewrite andb_true_r. tauto.
  - apply steer_offset_effect in H. destruct H as [H1 H2]. split; auto.
    intros s' E. cbn. rewrite andb_true_r. auto.
  - apply steer_frequency_effect in H. destruct H as [H1 H2]. split.
    + apply eff_none; auto. intros s' E. apply H2 in E. tauto.
    + intros s' E. apply H2 in E. cbn. rewrite andb_true_r. tauto.
Qed.

(* an operation that ends in a panic or in the exit has not stepped the clock *)
Lemma step_not_ok_no_step : forall ar c s o cs r,
  step ar c s o = (cs, r) -> (forall s', r <> Ok s') -> steps_of cs = [].
Proof.
  intros ar c s o cs r H N. apply step_effect in H. destruct H as [H _].
  inversion H; subst; auto. exfalso. eapply N; eauto.
Qed.

(* ------------------------------------------------------------------ *)
(* histories                                                           *)

Lemma trace_cons : forall ar c s o r,
  trace ar c s (o :: r) =
  match step ar c s o with
  | (cs, Ok s') => let (t, e) := trace ar c s' r in ((s, cs) :: t, e)
  | (cs, x) => ([(s, cs)], x)
  end.
Proof. reflexivity. Qed.

(* run is the trace without the annotation *)
Lemma run_trace : forall ar c ops s,
  run ar c s ops = (flat_map snd (fst (trace ar c s ops)), snd (trace ar c s ops)).
Proof.
  induction ops as [| o r IH]; intro s; [reflexivity |].
  cbn [run]. rewrite trace_cons. unfold seq.
  destruct (step ar c s o) as [cs [s' | e | p]]; cbn.
  - rewrite IH. destruct (trace ar c s' r) as [t e]. reflexivity.
  - rewrite app_nil_r. reflexivity.
  - rewrite app_nil_r. reflexivity.
Qed.

(* nothing happens after an exit or a panic *)
Lemma run_stops : forall ar c ops1 ops2 s,
  (forall s', snd (run ar c s ops1) <> Ok s') ->
  run ar c s (ops1 ++ ops2) = run ar c s ops1.
Proof.
  induction ops1 as [| o r IH]; intros ops2 s N.
  - cbn in N. exfalso. eapply N; eauto.
  - cbn [app run] in *. unfold seq in *.
    destruct (step ar c s o) as [cs1 [s' | e | p]]; auto.
    rewrite (IH ops2 s'); auto.
    intros s2 E. destruct (run ar c s' r) as [cs2 r2]. cbn in *. eapply N; eauto.
Qed.

Definition step_facts (ar : arith) (c : cfg) (x : st * list call) : Prop :=
  forall d, In d (steps_of (snd x)) ->
    in_i64 d /\
    (if in_startup (fst x) then is_within ar (c_startup c) d = true
     else is_within ar (c_single c) d = true).

(* every step of a history passed the threshold test of the state it was made in *)
Lemma trace_step_facts : forall ar c ops s,
  Forall (step_facts ar c) (fst (trace ar c s ops)).
Proof.
  induction ops as [| o r IH]; intro s; [constructor |].
  rewrite trace_cons.
  destruct (step ar c s o) as [cs rr] eqn:E.
  assert (Hh : step_facts ar c (s, cs)).
  { apply step_effect in E. destruct E as [E _].
    intros d Hd. cbn [fst snd] in *.
    destruct E as [cs rr Hn Ha | cs d0 s1 s' Hn Hr Hc Ha].
    - rewrite Hn in Hd. destruct Hd.
    - rewrite Hn in Hd. destruct Hd as [<- | []]. split; auto.
      destruct (in_startup s) eqn:Es.
      + eapply check_step_ok_startup; eauto.
      + eapply check_step_ok_running; eauto. }
  destruct rr as [s' | e | p].
  - specialize (IH s'). destruct (trace ar c s' r) as [t e]. cbn. constructor; auto.
  - cbn. constructor; auto.
  - cbn. constructor; auto.
Qed.

Lemma startup_steps_within : forall ar c ops s,
  cfg_wf c -> neg_ok ar (c_startup c) ->
  Forall (within (c_startup c)) (startup_steps (fst (trace ar c s ops))).
Proof.
  intros ar c ops s (Hw & _) Hn.
  pose proof (trace_step_facts ar c ops s) as F.
  induction F as [| x t Hx F IH]; [constructor |].
  unfold startup_steps. cbn [flat_map]. apply Forall_app. split; auto.
  destruct (in_startup (fst x)) eqn:E; [| constructor].
  apply Forall_forall. intros d Hd. destruct (Hx d Hd) as [R W]. rewrite E in W.
  apply (is_within_spec ar (c_startup c) d); auto.
Qed.

Lemma later_steps_within : forall ar c ops s,
  cfg_wf c -> neg_ok ar (c_single c) ->
  Forall (within (c_single c)) (later_steps (fst (trace ar c s ops))).
Proof.
  intros ar c ops s (_ & Hw & _) Hn.
  pose proof (trace_step_facts ar c ops s) as F.
  induction F as [| x t Hx F IH]; [constructor |].
  unfold later_steps. cbn [flat_map]. apply Forall_app. split; auto.
  destruct (in_startup (fst x)) eqn:E; [constructor |].
  apply Forall_forall. intros d Hd. destruct (Hx d Hd) as [R W]. rewrite E in W.
  apply (is_within_spec ar (c_single c) d); auto.
Qed.

Lemma sum_abs_app : forall a b, sum_abs (a ++ b) = sum_abs a + sum_abs b.
Proof.
  induction a as [| x a IH]; intro b; [reflexivity |].
  change (Z.abs x + sum_abs (a ++ b) = Z.abs x + sum_abs a + sum_abs b). rewrite IH. lia.
Qed.

Lemma sum_abs_nonneg : forall l, 0 <= sum_abs l.
Proof.
  induction l as [| x l IH]; [cbn; lia |].
  change (0 <= Z.abs x + sum_abs l). lia.
Qed.

(* the accumulated-step invariant: accumulated_steps is the mathematical sum of the
   later steps (clipped at i64::MAX), and it never passes the threshold *)
Lemma accumulated_invariant : forall ar c ops s,
  acc_ok s ->
  (sat_abs ar = true \/ Forall (fun d => d <> i64_min) (later_steps (fst (trace ar c s ops)))) ->
  (forall s', snd (trace ar c s ops) = Ok s' ->
     acc s' = Z.min (acc s + sum_abs (later_steps (fst (trace ar c s ops)))) i64_max) /\
  (forall a, c_acc c = Some a -> a < i64_max -> acc s <= a ->
     acc s + sum_abs (later_steps (fst (trace ar c s ops))) <= a).
Proof.
  induction ops as [| o r IH]; intros s Ha Hs.
  - cbn. split.
    + intros s' E. inversion E; subst. unfold acc_ok, i64_max in *. lia.
    + intros. lia.
  - rewrite trace_cons in *.
    destruct (step ar c s o) as [cs rr] eqn:E.
    pose proof E as E0. apply step_effect in E0. destruct E0 as [Eff _].
    destruct rr as [s1 | e | p].
    + destruct (trace ar c s1 r) as [t e] eqn:Et. cbn [fst snd] in *.
      assert (IH' := IH s1). rewrite Et in IH'. cbn [fst snd] in IH'.
      assert (Hl : later_steps ((s, cs) :: t) =
                   (if in_startup s then [] else steps_of cs) ++ later_steps t) by reflexivity.
      rewrite Hl in *. clear Hl.
      inversion Eff as [cs0 r0 Hn Hacc | cs0 d s2 s3 Hn Hr Hc Hacc]; subst.
      * (* no step *)
        rewrite Hn in *.
        assert (A1 : acc s1 = acc s) by (apply Hacc; reflexivity).
        assert (Ha1 : acc_ok s1) by (unfold acc_ok in *; lia).
        assert (Hs1 : sat_abs ar = true \/ Forall (fun d => d <> i64_min) (later_steps t)).
        { destruct (in_startup s); auto. }
        destruct (IH' Ha1 Hs1) as [I1 I2]. rewrite A1 in *.
        destruct (in_startup s); cbn [app]; split; auto.
      * (* one step d *)
        rewrite Hn in *.
        destruct (in_startup s) eqn:Es; cbn [app] in *.
        -- destruct (check_step_ok_startup _ _ _ _ _ Hc Es) as [_ ->].
           assert (Ha1 : acc_ok s1) by (unfold acc_ok in *; lia).
           destruct (IH' Ha1 Hs) as [I1 I2]. rewrite Hacc in *. split; auto.
        -- destruct (check_step_ok_running _ _ _ _ _ Hc Es) as (_ & -> & Hle).
           cbn [acc set_acc] in Hacc.
           assert (Hd : sat_abs ar = true \/ d <> i64_min).
           { destruct Hs as [Hs | Hs]; [left; auto | right]. inversion Hs; auto. }
           assert (Hs' : sat_abs ar = true \/ Forall (fun d => d <> i64_min) (later_steps t)).
           { destruct Hs as [Hs | Hs]; [left; auto | right]. inversion Hs; auto. }
           rewrite (dabs_k_exact ar d Hr Hd) in *.
           assert (Hk : 0 <= Z.min (Z.abs d) i64_max <= i64_max) by (unfold i64_max; lia).
           rewrite (dadd_acc _ _ Ha Hk) in *.
           assert (Ha1 : acc_ok s1) by (unfold acc_ok, i64_max in *; lia).
           destruct (IH' Ha1 Hs') as [I1 I2].
           pose proof (sum_abs_nonneg (later_steps t)) as P.
           change (sum_abs (d :: later_steps t)) with (Z.abs d + sum_abs (later_steps t)).
           split.
           ++ intros s' E'. rewrite (I1 s' E'), Hacc. unfold acc_ok, i64_max in *. lia.
           ++ intros a Ea La Lacc. specialize (Hle a Ea).
              assert (Hx : acc s1 <= a) by lia.
              specialize (I2 a Ea La Hx). rewrite Hacc in *. unfold acc_ok, i64_max in *. lia.
    + cbn [fst snd]. assert (Hn : steps_of cs = []).
      { inversion Eff; subst; auto. }
      unfold later_steps. cbn [flat_map fst snd]. rewrite Hn.
      destruct (in_startup s); cbn; split; intros; try discriminate; lia.
    + cbn [fst snd]. assert (Hn : steps_of cs = []).
      { inversion Eff; subst; auto. }
      unfold later_steps. cbn [flat_map fst snd]. rewrite Hn.
      destruct (in_startup s); cbn; split; intros; try discriminate; lia.
Qed.

Lemma accumulated_bound : forall ar c ops s a,
  acc s = 0 -> c_acc c = Some a -> 0 <= a < i64_max ->
  (sat_abs ar = true \/ Forall (fun d => d <> i64_min) (later_steps (fst (trace ar c s ops)))) ->
  sum_abs (later_steps (fst (trace ar c s ops))) <= a.
Proof.
  intros ar c ops s a H0 Ea Ha Hs.
  assert (Hok : acc_ok s) by (unfold acc_ok, i64_max; lia).
  destruct (accumulated_invariant ar c ops s Hok Hs) as [_ I2].
  specialize (I2 a Ea (proj2 Ha)). lia.
Qed.

(* with a finite backward single-step threshold no step of i64::MIN can pass, so the
   bound holds for the wrapping abs as well *)
Lemma accumulated_bound_finite_backward : forall ar c ops s a b,
  cfg_wf c -> neg_ok ar (c_single c) ->
  bwd (c_single c) = Some b -> b <> i64_min ->
  acc s = 0 -> c_acc c = Some a -> 0 <= a < i64_max ->
  sum_abs (later_steps (fst (trace ar c s ops))) <= a.
Proof.
  intros ar c ops s a b Hw Hn Eb Hb H0 Ea Ha.
  apply accumulated_bound with (ar := ar) (c := c); auto.
  right. pose proof (later_steps_within ar c ops s Hw Hn) as F.
  eapply Forall_impl; [| exact F].
  intros d [_ W]. specialize (W b Eb).
  destruct Hw as (_ & (_ & Hwb) & _). rewrite Eb in Hwb. cbn in Hwb.
  unfold in_i64, i64_min in *. lia.
Qed.

(* accumulated_steps stays a non-negative i64 *)
Lemma acc_ok_preserved : forall ar c ops s s',
  acc_ok s ->
  (sat_abs ar = true \/ Forall (fun d => d <> i64_min) (later_steps (fst (trace ar c s ops)))) ->
  snd (trace ar c s ops) = Ok s' -> acc_ok s'.
Proof.
  intros ar c ops s s' Ha Hs E.
  destruct (accumulated_invariant ar c ops s Ha Hs) as [I1 _].
  unfold acc_ok. rewrite (I1 s' E). pose proof (sum_abs_nonneg (later_steps (fst (trace ar c s ops)))).
  unfold acc_ok, i64_max in *. lia.
Qed.

(* the startup flag: cleared by the first completed update with a consensus, never set again *)
Lemma startup_flag : forall ar c s o cs s',
  step ar c s o = (cs, Ok s') ->
  in_startup s' = in_startup s && negb (is_consensus_update o).
Proof. intros ar c s o cs s' H. apply step_effect in H. destruct H as [_ H]. auto. Qed.

(* a request above step_threshold: exit without a step exactly when it would violate a
   threshold, otherwise exactly one step of the converted request *)
Lemma steer_offset_spec : forall ar c s ch fd,
  cfg_wf c -> neg_ok ar (c_startup c) -> neg_ok ar (c_single c) -> acc_ok s ->
  PrimFloat.ltb (c_step_threshold c) (PrimFloat.abs ch) = true ->
  (sat_abs ar = true \/ from_seconds ch <> i64_min) ->
  (violates c s (from_seconds ch) /\
   exists p, steer_offset ar c s ch fd = ([], Panic p) /\ is_exit p = true) \/
  (~ violates c s (from_seconds ch) /\
   steer_offset ar c s ch fd =
     ([Step (from_seconds ch)],
      Ok (if in_startup s then s
          else set_acc s (Z.min (acc s + Z.abs (from_seconds ch)) i64_max)))).
Proof.
  intros ar c s ch fd Hw Hns Hng Ha Hlt Hs.
  unfold steer_offset. rewrite Hlt.
  destruct (check_step_spec ar c s (from_seconds ch) Hw Hns Hng (from_seconds_range ch) Ha Hs)
    as [(V & p & E & X) | (V & E)]; rewrite E.
  - left. split; auto. exists p. auto.
  - right. split; auto.
Qed.

(* a request at or below step_threshold never steps *)
Lemma steer_offset_slew_no_step : forall ar c s ch fd cs r,
  PrimFloat.ltb (c_step_threshold c) (PrimFloat.abs ch) = false ->
  steer_offset ar c s ch fd = (cs, r) -> steps_of cs = [].
Proof.
  intros ar c s ch fd cs r Hlt H. unfold steer_offset in H. rewrite Hlt in H.
  destruct (duration_check _).
  - apply change_desired_effect in H. tauto.
  - inversion H; reflexivity.
  - inversion H; reflexivity.
Qed.

(* the only exits are the two threshold exits of check_offset_steer; they leave no call behind
   in the operation except disable_ntp_algorithm *)
Lemma steer_offset_exit_calls : forall ar c s ch fd cs p,
  steer_offset ar c s ch fd = (cs, Panic p) -> cs = [].
Proof.
  intros ar c s ch fd cs p H. unfold steer_offset in H.
  destruct (PrimFloat.ltb _ _).
  - destruct (check_step _ _ _ _); inversion H; reflexivity.
  - destruct (duration_check _).
    + unfold change_desired_frequency, steer_frequency in H.
      destruct (f_clamp _ _ _); inversion H; reflexivity.
    + inversion H.
    + inversion H; reflexivity.
Qed.

(* ntpd/src/daemon/clock.rs: (seconds, nanos) = as_seconds_nanos(d) is the step rounded down
   to a nanosecond *)
Lemma kernel_step : forall d, in_i64 d ->
  let (s, n) := d_secs_nanos d in
  s * 1000000000 + n = (d * 1000000000) / 2 ^ 32 /\ 0 <= n < 1000000000 /\
  - 2 ^ 31 <= s < 2 ^ 31.
Proof.
  intros d H. unfold d_secs_nanos.
  assert (Hq : - 2 ^ 31 <= d / 2 ^ 32 < 2 ^ 31).
  { unfold in_i64 in H. split.
    - apply Z.div_le_lower_bound; lia.
    - apply Z.div_lt_upper_bound; lia. }
  assert (Hs : to_signed 32 (d / 2 ^ 32) = d / 2 ^ 32).
  { unfold to_signed.
    destruct (Z.le_gt_cases 0 (d / 2 ^ 32)).
    - rewrite Z.mod_small by lia.
      destruct (Z.ltb_spec (d / 2 ^ 32) (2 ^ (32 - 1))); lia.
    - replace ((d / 2 ^ 32) mod 2 ^ 32) with (d / 2 ^ 32 + 2 ^ 32)
        by (apply (Z.mod_unique (d / 2 ^ 32) (2 ^ 32) (-1)); lia).
      destruct (Z.ltb_spec (d / 2 ^ 32 + 2 ^ 32) (2 ^ (32 - 1))); lia. }
  rewrite Hs.
  pose proof (Z.mod_pos_bound d (2 ^ 32) ltac:(lia)) as Hm.
  pose proof (Z.div_mod d (2 ^ 32) ltac:(lia)) as Hdm.
  repeat split; try lia.
  - rewrite Hdm at 3.
    replace ((2 ^ 32 * (d / 2 ^ 32) + d mod 2 ^ 32) * 1000000000)
      with ((d / 2 ^ 32) * 1000000000 * 2 ^ 32 + (d mod 2 ^ 32) * 1000000000) by ring.
    rewrite Z.div_add_l by lia. reflexivity.
  - apply Z.div_pos; lia.
  - apply Z.div_lt_upper_bound; lia.
Qed.

(* the unrepaired arithmetic: a step of i64::MIN makes accumulated_steps negative and
   lets the later steps pass the accumulated threshold *)
Definition wrap_arith : arith := {| sat_abs := false; sat_neg := false |}.
Definition sat_arith : arith := {| sat_abs := true; sat_neg := true |}.
Definition no_thr : thr := {| fwd := None; bwd := None |}.
Definition witness_cfg : cfg :=
  {| c_startup := no_thr; c_single := no_thr; c_acc := Some (1800 * 2 ^ 32);
     c_step_threshold := 0.01%float; c_slew_max := 0.0002%float; c_slew_min_dur := 8%float;
     c_max_freq := 0.000495%float; c_off_thr := 2%float; c_off_left := 1%float;
     c_freq_thr := 0%float; c_freq_left := 0%float |}.
Definition witness_ops : list op :=
  [SteerOffset (-2147483648)%float 0%float; SteerOffset 1000%float 0%float; SteerOffset (-1000)%float 0%float].
Definition running_st : st := set_startup (init_st 0%float) false.

Lemma accumulated_refuted_wrapping :
  let t := fst (trace wrap_arith witness_cfg running_st witness_ops) in
  later_steps t = [i64_min; 1000 * 2 ^ 32; - (1000 * 2 ^ 32)] /\
  sum_abs (later_steps t) > 1800 * 2 ^ 32 /\
  exists s', snd (trace wrap_arith witness_cfg running_st witness_ops) = Ok s' /\ acc s' < 0.
Proof.
  vm_compute. repeat split; try reflexivity. eexists. split; reflexivity.
Qed.

(* the same history under the saturating arithmetic stops at the first request *)
Lemma accumulated_witness_saturating :
  fst (run sat_arith witness_cfg running_st witness_ops) = [] /\
  snd (run sat_arith witness_cfg running_st witness_ops) = Panic site_exit_running.
Proof. vm_compute. split; reflexivity. Qed.

Lemma accumulated_bound_saturating : forall c ops s a,
  acc s = 0 -> c_acc c = Some a -> 0 <= a < i64_max ->
  sum_abs (later_steps (fst (trace sat_arith c s ops))) <= a.
Proof.
  intros c ops s a H0 Ea Ha.
  exact (accumulated_bound sat_arith c ops s a H0 Ea Ha (or_introl eq_refl)).
Qed.
