(* Proofs about Model/Bloom.v (C34; the membership lemmas are reused by C33) *)
From V Require Import Model.Bloom.
From V Require Import Gen.ConstSource.
From Coq Require Import Arith PeanoNat ZifyBool.
Ltac Zify.zify_post_hook ::= Z.div_mod_to_equations.

Local Arguments Z.pow : simpl never.
Local Arguments Z.lor : simpl never.
Local Arguments Z.land : simpl never.
Local Arguments Z.testbit : simpl never.

Lemma NBYTES_512 : NBYTES = 512%nat.
Proof. reflexivity. Qed.

(* two indexing sites in the code (set_bit, is_set) *)
Lemma bloom_site_census : N_BLOOM_INDEXING = 2.
Proof. reflexivity. Qed.

(* ---------- lists ---------- *)
Lemma length_updz : forall l i x, length (updz i x l) = length l.
Proof. induction l; destruct i; simpl; auto. Qed.

Lemma nth_updz_eq : forall l i x d, (i < length l)%nat -> nth i (updz i x l) d = x.
Proof. induction l; destruct i; simpl; intros; try lia; auto. apply IHl. lia. Qed.

Lemma nth_updz_neq : forall l i j x d, i <> j -> nth j (updz i x l) d = nth j l d.
Proof. induction l; destruct i; destruct j; simpl; intros; try congruence; auto. Qed.

(* ---------- bits ---------- *)
Definition bit (f : list Z) (idx : Z) : bool :=
  Z.testbit (nth (byte_of idx) f 0) (idx mod 8).

Lemma land_pow2 : forall b k, 0 <= k -> (Z.land b (2 ^ k) =? 0) = negb (Z.testbit b k).
Proof.
  intros b k Hk. destruct (Z.testbit b k) eqn:E; simpl.
  - apply Z.eqb_neq. intro H0.
    assert (Z.testbit (Z.land b (2 ^ k)) k = true) as Ht.
    { rewrite Z.land_spec, E, Z.pow2_bits_true; auto. }
    rewrite H0, Z.testbit_0_l in Ht. discriminate.
  - apply Z.eqb_eq. apply Z.bits_inj'. intros n Hn.
    rewrite Z.land_spec, Z.testbit_0_l, Z.pow2_bits_eqb by auto.
    destruct (Z.eqb_spec k n); [subst; rewrite E; reflexivity|apply andb_false_r].
Qed.

Lemma idx_byte : forall idx, 0 <= idx <= U12_MAX -> (byte_of idx < NBYTES)%nat.
Proof. intros idx H. unfold byte_of, U12_MAX in *. rewrite NBYTES_512. lia. Qed.

Lemma is_set_bit : forall f idx, length f = NBYTES -> 0 <= idx <= U12_MAX ->
  is_set f idx = Ok (bit f idx).
Proof.
  intros f idx Hl Hi. unfold is_set. pose proof (idx_byte idx Hi) as Hb. rewrite Hl.
  destruct (Nat.ltb_spec (byte_of idx) NBYTES); [|lia].
  unfold bit, mask_of. rewrite land_pow2 by lia. rewrite negb_involutive. reflexivity.
Qed.

Lemma same_index : forall i j, 0 <= i -> 0 <= j ->
  (i = j <-> byte_of i = byte_of j /\ i mod 8 = j mod 8).
Proof. intros. unfold byte_of. split; [intros ->; auto|]. intros [H1 H2]. lia. Qed.

Lemma set_bit_spec : forall f idx, length f = NBYTES -> 0 <= idx <= U12_MAX ->
  exists f', set_bit f idx = Ok f' /\ length f' = NBYTES /\
    forall j, 0 <= j -> bit f' j = (idx =? j) || bit f j.
Proof.
  intros f idx Hl Hi. unfold set_bit. pose proof (idx_byte idx Hi) as Hb. rewrite Hl.
  destruct (Nat.ltb_spec (byte_of idx) NBYTES); [|lia].
  eexists. split; [reflexivity|]. split; [rewrite length_updz; auto|].
  intros j Hj. unfold bit. destruct (Nat.eq_dec (byte_of idx) (byte_of j)) as [E|E].
  - rewrite <- E, nth_updz_eq by lia. unfold mask_of.
    rewrite Z.lor_spec, Z.pow2_bits_eqb by lia. rewrite orb_comm. f_equal.
    destruct (Z.eqb_spec idx j) as [->|N]; [apply Z.eqb_refl|].
    apply Z.eqb_neq. intro E2. apply N. apply same_index; try lia; auto.
  - rewrite nth_updz_neq by auto.
    destruct (Z.eqb_spec idx j) as [->|N]; [congruence|reflexivity].
Qed.

Lemma contains_id_spec : forall f id, length f = NBYTES -> id_ok id ->
  contains_id f id = Ok (forallb (bit f) id).
Proof.
  intros f id Hl Hid. induction Hid as [|i r Hi Hr IH]; [reflexivity|].
  cbn [contains_id forallb]. rewrite is_set_bit by auto. cbn [res_bind].
  destruct (bit f i); auto.
Qed.

Lemma add_id_spec : forall id f, length f = NBYTES -> id_ok id ->
  exists f', add_id f id = Ok f' /\ length f' = NBYTES /\
    forall j, 0 <= j -> bit f' j = existsb (fun i => i =? j) id || bit f j.
Proof.
  induction id as [|i r IH]; intros f Hl Hid.
  - exists f. repeat split; auto.
  - inversion Hid; subst. destruct (set_bit_spec f i Hl H1) as (f1 & E1 & L1 & B1).
    destruct (IH f1 L1 H2) as (f2 & E2 & L2 & B2).
    exists f2. cbn [add_id]. rewrite E1. cbn [res_bind]. split; auto. split; auto.
    intros j Hj. rewrite B2, B1 by auto. cbn [existsb].
    destruct (i =? j), (existsb (fun i0 => i0 =? j) r), (bit f j); reflexivity.
Qed.

(* C34_no_false_negative and monotonicity under add_id *)
Theorem add_id_contains : forall f id, length f = NBYTES -> id_ok id ->
  exists f', add_id f id = Ok f' /\ length f' = NBYTES /\
    contains_id f' id = Ok true /\
    (forall id', id_ok id' -> contains_id f id' = Ok true -> contains_id f' id' = Ok true).
Proof.
  intros f id Hl Hid. destruct (add_id_spec id f Hl Hid) as (f' & E & L & B).
  exists f'. split; auto. split; auto. split.
  - rewrite contains_id_spec by auto. f_equal. apply forallb_forall. intros j Hj.
    unfold id_ok in Hid. rewrite Forall_forall in Hid. specialize (Hid j Hj).
    rewrite B by lia. apply orb_true_iff. left. apply existsb_exists. exists j. split; auto. apply Z.eqb_refl.
  - intros id' Hid' H. rewrite contains_id_spec in * by auto. inversion H as [H1]. f_equal.
    rewrite H1. apply forallb_forall. intros j Hj. rewrite forallb_forall in H1.
    unfold id_ok in Hid'. rewrite Forall_forall in Hid'. specialize (Hid' j Hj).
    rewrite B by lia. rewrite (H1 j Hj). apply orb_true_r.
Qed.

Lemma length_bf_add : forall f g, length (bf_add f g) = length f.
Proof. induction f; destruct g; simpl; auto. Qed.

Lemma nth_bf_add : forall f g n, length f = length g ->
  nth n (bf_add f g) 0 = Z.lor (nth n f 0) (nth n g 0).
Proof.
  induction f; destruct g; simpl; intros; try discriminate.
  - destruct n; reflexivity.
  - destruct n; auto.
Qed.

Lemma bit_bf_add : forall f g j, length f = length g -> bit (bf_add f g) j = bit f j || bit g j.
Proof. intros. unfold bit. rewrite nth_bf_add by auto. apply Z.lor_spec. Qed.

(* monotonicity under union, both ways *)
Theorem bf_add_contains : forall f g id, length f = NBYTES -> length g = NBYTES -> id_ok id ->
  length (bf_add f g) = NBYTES /\
  (contains_id f id = Ok true -> contains_id (bf_add f g) id = Ok true) /\
  (contains_id g id = Ok true -> contains_id (bf_add f g) id = Ok true).
Proof.
  intros f g id Hf Hg Hid. assert (length (bf_add f g) = NBYTES) as Hl by (rewrite length_bf_add; auto).
  split; auto. rewrite !contains_id_spec by auto.
  split; intros H; inversion H as [H1]; f_equal; rewrite H1; apply forallb_forall; intros j Hj;
    rewrite forallb_forall in H1; rewrite bit_bf_add by congruence; rewrite (H1 j Hj);
    [reflexivity|apply orb_true_r].
Qed.

(* ---------- the server side ---------- *)
Theorem to_response_spec : forall f plen off, length f = NBYTES -> 0 <= plen -> 0 <= off ->
  to_response (mkReq plen off) f =
    (if off + plen <=? BLOOM_BYTES then Some (slice f (Z.to_nat off) (Z.to_nat plen)) else None) /\
  (forall b, to_response (mkReq plen off) f = Some b -> Z.of_nat (length b) = plen).
Proof.
  intros f plen off Hl Hp Ho. unfold to_response. cbn [req_offset payload_len]. rewrite Hl, NBYTES_512.
  unfold BLOOM_BYTES.
  destruct (Nat.leb_spec (Z.to_nat off) 512) as [A|A]; destruct (Z.leb_spec (off + plen) 512) as [B|B]; try lia.
  - destruct (Nat.leb_spec (Z.to_nat plen) (512 - Z.to_nat off)) as [D|D]; try lia. split; auto.
    intros b E. inversion E. unfold slice. rewrite firstn_length, skipn_length, Hl, NBYTES_512. lia.
  - destruct (Nat.leb_spec (Z.to_nat plen) (512 - Z.to_nat off)) as [D|D]; try lia. split; auto. discriminate.
  - split; auto. discriminate.
Qed.

(* ---------- the client side ---------- *)
Definition valid_chunk (cs : Z) : Prop := cs mod 4 = 0 /\ 0 < cs <= 512 /\ 512 mod cs = 0.

Lemma rbf_new_some : forall cs, 0 <= cs < 65536 ->
  (valid_chunk cs <-> exists r, rbf_new cs = Some r) /\
  (forall r, rbf_new cs = Some r -> r = mkRbf bf_new cs None 0 false).
Proof.
  intros cs Hc. unfold rbf_new, valid_chunk.
  destruct (Z.eqb_spec (cs mod 4) 0); cbn [negb].
  2:{ split; [split; [lia|intros [r0 X]; discriminate X]|discriminate]. }
  destruct (Z.eqb_spec cs 0); cbn [orb].
  { split; [split; [lia|intros [r0 X]; discriminate X]|discriminate]. }
  destruct (Z.gtb_spec cs 512).
  { split; [split; [lia|intros [r0 X]; discriminate X]|discriminate]. }
  destruct (Z.eqb_spec (512 mod cs) 0); cbn [negb].
  - split; [split; [eauto|lia]|intros r0 X; inversion X; reflexivity].
  - split; [split; [lia|intros [r0 X]; discriminate X]|discriminate].
Qed.

Definition rinv (cs : Z) (r : rbf) : Prop :=
  chunk r = cs /\ length (filter r) = NBYTES /\ 0 <= next r < 512 /\ next r mod cs = 0 /\
  (forall off c, last_req r = Some (off, c) -> off = next r).

Lemma chunk_arith : forall cs x, valid_chunk cs -> 0 <= x < 512 -> x mod cs = 0 ->
  x + cs <= 512 /\ ((x + cs) mod 512) mod cs = 0 /\ 0 <= (x + cs) mod 512 < 512.
Proof.
  intros cs x (H4 & Hr & Hd) Hx Hm.
  assert (x = cs * (x / cs)) as Ex by (apply Z_div_exact_2; lia).
  assert (512 = cs * (512 / cs)) as E5 by (apply Z_div_exact_2; lia).
  assert (x + cs <= 512) as Hle.
  { remember (x / cs) as a. remember (512 / cs) as n. clear Heqa Heqn Hm Hd H4.
    assert (a < n) by (apply (Z.mul_lt_mono_pos_l cs); lia).
    assert (cs * (a + 1) <= cs * n) by (apply Z.mul_le_mono_nonneg_l; lia). lia. }
  split; auto. split; [|apply Z.mod_pos_bound; lia].
  destruct (Z.eq_dec (x + cs) 512) as [E|E].
  - rewrite E, Z.mod_same by lia. apply Z.mod_0_l. lia.
  - assert (0 <= x + cs < 512) as Hsm by (clear Ex E5 Hm Hd H4; lia).
    rewrite (Z.mod_small (x + cs) 512) by exact Hsm. rewrite Ex at 1. replace (cs * (x / cs) + cs) with ((x / cs + 1) * cs) by ring.
    apply Z.mod_mul. clear Ex E5 Hm Hd H4; lia.
Qed.

Lemma rinv_new : forall cs, valid_chunk cs -> rinv cs (mkRbf bf_new cs None 0 false).
Proof.
  intros cs (H4 & Hr & Hd). unfold rinv; cbn [chunk filter next last_req].
  split; [reflexivity|]. split; [apply repeat_length|]. split; [lia|].
  split; [apply Z.mod_0_l; lia|discriminate].
Qed.

Lemma next_request_ok : forall cs r c, valid_chunk cs -> rinv cs r ->
  next_request r c = Ok (mkRbf (filter r) (chunk r) (Some (next r, c)) (next r) (filled r),
                         mkReq cs (next r)).
Proof.
  intros cs r c Hv (Hc & Hl & Hn & Hm & Hq). pose proof Hv as (H4 & Hr & Hd).
  destruct (chunk_arith cs (next r) Hv Hn Hm) as (Hle & _).
  unfold next_request, request_new. rewrite Hc.
  destruct (Z.eqb_spec (cs mod 4) 0); [|lia]. cbn [negb].
  unfold REQUEST_MAX_END. rewrite Z.mod_small by lia.
  destruct (Z.gtb_spec (cs + next r) 512); [lia|]. reflexivity.
Qed.

(* C34_accept_only_current *)
Theorem accept_iff : forall cs r c b, valid_chunk cs -> rinv cs r ->
  (accepted r (Resp c b) = true <->
     exists off, last_req r = Some (off, c) /\ Z.of_nat (length b) = chunk r) /\
  (forall s, handle_response r c b <> Panic s).
Proof.
  intros cs r c b Hv (Hc & Hl & Hn & Hm & Hq). unfold accepted, handle_response.
  destruct (last_req r) as [[off ec]|] eqn:El.
  2:{ split; [split; [discriminate|intros (o & H & _); discriminate]|discriminate]. }
  specialize (Hq off ec eq_refl). subst off.
  destruct (Z.eqb_spec c ec); cbn [negb].
  2:{ split; [split; [discriminate|intros (o & H & _); inversion H; congruence]|discriminate]. }
  destruct (Z.eqb_spec (Z.of_nat (length b)) (chunk r)); cbn [negb].
  2:{ split; [split; [discriminate|intros (o & _ & H); congruence]|discriminate]. }
  destruct (chunk_arith cs (next r) Hv Hn Hm) as (Hle & _).
  destruct (Nat.leb_spec (Z.to_nat (next r) + Z.to_nat (chunk r)) (length (filter r))) as [H|H].
  - split; [split; [subst; eauto|auto]|discriminate].
  - exfalso. rewrite Hl, NBYTES_512, Hc in H. destruct Hv as (_ & Hr & _). lia.
Qed.

(* what an accepted response does *)
Lemma handle_response_ok : forall cs r c b, valid_chunk cs -> rinv cs r ->
  accepted r (Resp c b) = true ->
  handle_response r c b =
    Ok (mkRbf (splice (filter r) (Z.to_nat (next r)) b) cs None ((next r + cs) mod 512)
              (filled r || ((next r + cs) mod 512 =? 0))).
Proof.
  intros cs r c b Hv Hi Ha. pose proof Hi as (Hc & Hl & Hn & Hm & Hq).
  destruct (accept_iff cs r c b Hv Hi) as [[H1 _] _]. destruct (H1 Ha) as (off & El & Eb).
  pose proof (Hq off c El). subst off.
  destruct (chunk_arith cs (next r) Hv Hn Hm) as (Hle & _). destruct Hv as (_ & Hr & _).
  unfold handle_response. rewrite El, Z.eqb_refl, Eb, Z.eqb_refl. cbn [negb].
  rewrite Hl, NBYTES_512, Hc.
  destruct (Nat.leb_spec (Z.to_nat (next r) + Z.to_nat cs) 512); [|lia].
  unfold BLOOM_BYTES. rewrite (Z.mod_small (next r + cs) 65536) by lia. reflexivity.
Qed.

Lemma length_splice : forall l off b, (off + length b <= length l)%nat ->
  length (splice l off b) = length l.
Proof.
  intros. unfold splice. rewrite !app_length, firstn_length, skipn_length. lia.
Qed.

Lemma skipn_skipn' : forall (l : list Z) a b, skipn a (skipn b l) = skipn (b + a) l.
Proof.
  intros l a b. revert l. induction b; intros l; [reflexivity|].
  destruct l; [rewrite !skipn_nil; reflexivity|]. simpl. apply IHb.
Qed.

Lemma splice_same : forall l off len, (off + len <= length l)%nat ->
  splice l off (slice l off len) = l.
Proof.
  intros l off len H. unfold splice, slice.
  rewrite firstn_length, skipn_length. replace (Nat.min len (length l - off)) with len by lia.
  rewrite <- (firstn_skipn off l) at 4. f_equal.
  rewrite <- (firstn_skipn len (skipn off l)) at 2. f_equal.
  rewrite skipn_skipn'. reflexivity.
Qed.

Lemma firstn_splice : forall l off b, (off + length b <= length l)%nat ->
  firstn (off + length b) (splice l off b) = firstn off l ++ b.
Proof.
  intros l off b H. unfold splice. rewrite app_assoc.
  rewrite firstn_app. rewrite app_length, firstn_length.
  replace (Nat.min off (length l)) with off by lia.
  replace (off + length b - (off + length b))%nat with 0%nat by lia.
  rewrite firstn_O, app_nil_r. apply firstn_all2. rewrite app_length, firstn_length. lia.
Qed.

Lemma firstn_slice : forall (l : list Z) off len,
  firstn (off + len) l = firstn off l ++ slice l off len.
Proof.
  intros. unfold slice. rewrite <- (firstn_skipn off l) at 1.
  rewrite firstn_app. rewrite firstn_firstn. replace (Nat.min (off + len) off) with off by lia.
  f_equal. rewrite firstn_length.
  destruct (Nat.le_gt_cases off (length l)).
  - replace (off + len - Nat.min off (length l))%nat with len by lia. reflexivity.
  - rewrite !skipn_all2 by lia. rewrite !firstn_nil. reflexivity.
Qed.

Definition agree (f : list Z) (r : rbf) : Prop :=
  if filled r then filter r = f
  else firstn (Z.to_nat (next r)) (filter r) = firstn (Z.to_nat (next r)) f.

Definition counted (cs : Z) (k : Z) (r : rbf) : Prop :=
  if filled r then 512 / cs <= k else next r = k * cs.

Lemma bstep_inv : forall cs f r e k, valid_chunk cs -> length f = NBYTES ->
  rinv cs r -> agree f r -> counted cs k r -> honest_step f r e ->
  exists r', bstep r e = Ok r' /\ rinv cs r' /\ agree f r' /\
    counted cs (k + (if accepted r e then 1 else 0)) r' /\
    (accepted r e = false -> filter r' = filter r /\ next r' = next r /\ filled r' = filled r).
Proof.
  intros cs f r e k Hv Hf Hi Ha Hk Hh. pose proof Hi as (Hc & Hl & Hn & Hm & Hq). destruct e as [c|c b].
  - (* request *)
    cbn [bstep accepted]. rewrite (next_request_ok cs r c Hv Hi). cbn [res_bind fst].
    eexists. split; [reflexivity|]. rewrite Z.add_0_r.
    split; [|split; [exact Ha|split; [exact Hk|intros _; cbn; auto]]].
    unfold rinv; cbn [chunk filter next last_req].
    split; [auto|split; [auto|split; [auto|split; [auto|intros off c0 E; inversion E; auto]]]].
  - destruct (accepted r (Resp c b)) eqn:Eacc.
    + pose proof (handle_response_ok cs r c b Hv Hi Eacc) as Eh.
      cbn [bstep]. rewrite Eh. eexists. split; [reflexivity|].
      destruct (accept_iff cs r c b Hv Hi) as [[H1 _] _]. destruct (H1 Eacc) as (off & El & Eb).
      pose proof (Hq off c El). subst off.
      destruct (chunk_arith cs (next r) Hv Hn Hm) as (Hle & Hm' & Hn').
      pose proof Hv as (_ & Hr & _).
      assert (length b = Z.to_nat cs) as Lb by lia.
      assert (Z.to_nat (next r) + length b <= length (filter r))%nat as Hfit
        by (rewrite Hl, NBYTES_512; lia).
      (* honesty: b is the server's chunk *)
      assert (b = slice f (Z.to_nat (next r)) (Z.to_nat cs)) as Hb.
      { unfold honest_step in Hh. rewrite El in Hh. specialize (Hh eq_refl Eb).
        rewrite Hc in Hh. destruct (to_response_spec f cs (next r) Hf ltac:(lia) ltac:(lia)) as [E _].
        rewrite E in Hh. unfold BLOOM_BYTES in Hh. destruct (Z.leb_spec (next r + cs) 512); [|lia].
        inversion Hh. reflexivity. }
      split; [|split; [|split]].
      * unfold rinv; cbn. repeat split; auto; try lia.
        -- rewrite length_splice; auto.
        -- discriminate.
      * unfold agree in *; cbn [filled filter next]. destruct (filled r) eqn:Ef; cbn [orb].
        -- rewrite Ha, Hb. apply splice_same. rewrite Hf, NBYTES_512. lia.
        -- destruct (Z.eqb_spec ((next r + cs) mod 512) 0) as [E0|E0].
           ++ (* the round is complete *)
              assert (next r + cs = 512) as E512 by lia.
              assert (Z.to_nat (next r) + length b = 512)%nat as En by lia.
              rewrite <- (firstn_all (splice (filter r) (Z.to_nat (next r)) b)).
              rewrite length_splice, Hl, NBYTES_512, <- En by auto.
              rewrite firstn_splice by auto. rewrite Ha, Hb.
              rewrite <- firstn_slice. replace (Z.to_nat (next r) + Z.to_nat cs)%nat with (length f)
                by (rewrite Hf, NBYTES_512; lia). apply firstn_all.
           ++ rewrite Z.mod_small by lia.
              replace (Z.to_nat (next r + cs)) with (Z.to_nat (next r) + length b)%nat by lia.
              rewrite firstn_splice by auto. rewrite Lb, Ha. rewrite Hb at 1. symmetry. apply firstn_slice.
      * unfold counted in *; cbn [filled next]. destruct (filled r) eqn:Ef; cbn [orb]; [lia|].
        destruct (Z.eqb_spec ((next r + cs) mod 512) 0) as [E0|E0].
        -- assert (next r + cs = 512) as E512 by lia. rewrite Hk in E512.
           replace 512 with ((k + 1) * cs) by lia. rewrite Z.div_mul by lia. lia.
        -- rewrite Z.mod_small by lia. lia.
      * discriminate.
    + cbn [bstep]. unfold accepted in Eacc.
      destruct (accept_iff cs r c b Hv Hi) as [_ Hnp].
      destruct (handle_response r c b) eqn:Eh; try discriminate.
      * exists r. rewrite Z.add_0_r. split; [reflexivity|split; [exact Hi|split; [exact Ha|split; [exact Hk|auto]]]].
      * exfalso. eapply Hnp; eauto.
Qed.

(* C34_complete / C34_not_before, for every interleaving of requests, genuine,
   stale, wrong-cookie and wrong-size responses *)
Theorem transfer : forall cs f evs r k, valid_chunk cs -> length f = NBYTES ->
  rinv cs r -> agree f r -> counted cs k r -> honest f r evs ->
  exists r', brun r evs = Ok r' /\ rinv cs r' /\ agree f r' /\
    counted cs (k + Z.of_nat (n_accepted r evs)) r'.
Proof.
  intros cs f evs. induction evs as [|e t IH]; intros r k Hv Hf Hi Ha Hk Hh.
  - exists r. cbn. rewrite Z.add_0_r. auto.
  - cbn [honest] in Hh. destruct Hh as [Hh1 Hh2].
    destruct (bstep_inv cs f r e k Hv Hf Hi Ha Hk Hh1) as (r1 & E1 & Hi1 & Ha1 & Hk1 & _).
    rewrite E1 in Hh2. destruct (IH r1 _ Hv Hf Hi1 Ha1 Hk1 Hh2) as (r' & E' & Hi' & Ha' & Hk').
    exists r'. cbn [brun n_accepted]. rewrite E1. cbn [res_bind]. split; auto. split; auto. split; auto.
    replace (k + Z.of_nat ((if accepted r e then 1 else 0) + n_accepted r1 t))
      with (k + (if accepted r e then 1 else 0) + Z.of_nat (n_accepted r1 t)); auto.
    destruct (accepted r e); lia.
Qed.

Theorem transfer_new : forall cs f evs r0, 0 <= cs < 65536 -> length f = NBYTES ->
  rbf_new cs = Some r0 -> honest f r0 evs ->
  exists r, brun r0 evs = Ok r /\
    (filled r = true <-> 512 / cs <= Z.of_nat (n_accepted r0 evs)) /\
    (forall g, full_filter r = Some g -> g = f) /\
    (filled r = false -> next r = Z.of_nat (n_accepted r0 evs) * cs /\
        firstn (Z.to_nat (next r)) (filter r) = firstn (Z.to_nat (next r)) f).
Proof.
  intros cs f evs r0 Hc Hf Hn Hh. destruct (rbf_new_some cs Hc) as [[_ Hv] Hr].
  assert (valid_chunk cs) as Hvc by (apply Hv; eauto). rewrite (Hr r0 Hn) in *.
  destruct (transfer cs f evs _ 0 Hvc Hf (rinv_new cs Hvc)) as (r & E & Hi & Ha & Hk); auto.
  - unfold agree; cbn. reflexivity.
  - unfold counted; cbn. lia.
  - exists r. split; auto. unfold agree, counted, full_filter in *. rewrite Z.add_0_l in Hk.
    destruct Hi as (_ & _ & Hnx & _). destruct Hvc as (_ & Hr5 & Hd).
    assert (512 = cs * (512 / cs)) as E5 by (apply Z_div_exact_2; lia).
    destruct (filled r).
    + split; [tauto|]. split; [intros g Eg; inversion Eg; subst; auto|discriminate].
    + split; [|split; [discriminate|auto]]. split; [discriminate|]. intros Hge. exfalso. nia.
Qed.

(* the fresh-cookie discipline implies honesty *)
Lemma disciplined_honest : forall cs f evs r seen, valid_chunk cs -> length f = NBYTES ->
  rinv cs r ->
  (forall off c, last_req r = Some (off, c) -> In (off, c) seen) ->
  disciplined f cs r seen evs -> honest f r evs.
Proof.
  intros cs f evs. induction evs as [|e t IH]; intros r seen Hv Hf Hi Hs Hd; [exact I|].
  pose proof Hi as (Hc & Hl & Hn & Hm & Hq).
  destruct e as [c|c b]; cbn [disciplined honest] in *.
  - destruct Hd as [Hfresh Hd]. split; [exact I|].
    cbn [bstep] in *. rewrite (next_request_ok cs r c Hv Hi) in *. cbn [res_bind fst] in *.
    eapply IH; eauto.
    + unfold rinv; cbn [chunk filter next last_req].
      split; [auto|split; [auto|split; [auto|split; [auto|intros off c0 E; inversion E; auto]]]].
    + cbn [last_req]. intros off c0 E. inversion E; subst. left; reflexivity.
  - destruct Hd as [Hans Hd]. split.
    + unfold honest_step. destruct (last_req r) as [[off ec]|] eqn:El; auto.
      intros -> Eb. rewrite Hc in *. apply Hans; auto.
    + assert (honest_step f r (Resp c b) -> True) by auto.
      destruct (bstep r (Resp c b)) as [r1| |] eqn:E1; auto.
      (* the next state keeps the invariants whether or not the response was accepted *)
      cbn [bstep] in E1. destruct (accepted r (Resp c b)) eqn:Ea.
      * rewrite (handle_response_ok cs r c b Hv Hi Ea) in E1. inversion E1; subst r1. clear E1.
        destruct (accept_iff cs r c b Hv Hi) as [[H1 _] _]. destruct (H1 Ea) as (off & El & Eb).
        pose proof (Hq off c El). subst off.
        destruct (chunk_arith cs (next r) Hv Hn Hm) as (Hle & Hm' & Hn'). pose proof Hv as (_ & Hr & _).
        eapply IH; eauto.
        -- unfold rinv; cbn. repeat split; auto; try lia.
           ++ rewrite length_splice; auto. rewrite Hl, NBYTES_512. lia.
           ++ discriminate.
        -- cbn. discriminate.
      * unfold accepted in Ea. destruct (handle_response r c b) eqn:Eh; try discriminate; inversion E1; subst.
        eapply IH; eauto.
Qed.

Theorem disciplined_transfer : forall cs f evs r0, 0 <= cs < 65536 -> length f = NBYTES ->
  rbf_new cs = Some r0 -> disciplined f cs r0 [] evs -> honest f r0 evs.
Proof.
  intros cs f evs r0 Hc Hf Hn Hd. destruct (rbf_new_some cs Hc) as [[_ Hv] Hr].
  assert (valid_chunk cs) as Hvc by (apply Hv; eauto). rewrite (Hr r0 Hn) in *.
  eapply disciplined_honest; eauto; [apply rinv_new; auto|cbn; discriminate].
Qed.

(* tactics for concrete examples of [disciplined] histories *)
Ltac step_disc :=
  cbn [disciplined];
  match goal with
  | |- context [bstep ?r ?e] =>
      let v := eval vm_compute in (bstep r e) in change (bstep r e) with v; cbv iota beta
  end.
Ltac solve_ans :=
  let off := fresh "off" in let Hin := fresh "Hin" in let L := fresh "L" in
  intros off Hin L; vm_compute in L; try discriminate L;
  repeat (destruct Hin as [Hin|Hin]; [inversion Hin; subst; vm_compute; reflexivity|]); destruct Hin.
