(* Lemmas about the f64 part of Model/Controller.v (C02): f64::clamp and f64::min on Coq's primitive
   binary64 floats, proved through Flocq's PrimFloat <-> BinarySingleNaN bridge, and the structural fact
   that every set_frequency argument of every history is a clamp output. *)
From V Require Import Model.TimeTypes Model.Controller Proofs.Controller.
From Coq Require Import ZArith Reals Floats Bool Lia Lra.
From Flocq Require Import Core IEEE754.BinarySingleNaN IEEE754.PrimFloat.
Open Scope Z_scope.

Notation B := (binary_float prec emax).

Lemma cmp_none : forall a b : B, Bcompare a b = None <-> (is_nan a = true \/ is_nan b = true).
Proof.
  intros a b. unfold Bcompare.
  destruct a as [sa | sa | | sa ma ea Ha], b as [sb | sb | | sb mb eb Hb]; cbn;
    try destruct sa; try destruct sb; cbn; split; intro H; try discriminate; auto;
    try (destruct H; discriminate).
  all: repeat match goal with
       | H : match ?x with _ => _ end = None |- _ => destruct x; try discriminate end.
Qed.

Lemma cmp_refl : forall a : B, is_nan a = false -> Bcompare a a = Some Eq.
Proof.
  intros a H. pose proof (Beqb_refl _ _ a) as E. rewrite H in E. cbn in E.
  unfold Beqb, SFeqb in E. fold (Bcompare a a) in E.
  destruct (Bcompare a a) as [[| |] |]; try discriminate; auto.
Qed.

Lemma ltb_cmp : forall x y, PrimFloat.ltb x y = true <-> Bcompare (Prim2B x) (Prim2B y) = Some Lt.
Proof.
  intros. rewrite ltb_equiv. unfold Bltb, SFltb. fold (Bcompare (Prim2B x) (Prim2B y)).
  destruct (Bcompare _ _) as [[| |] |]; split; intro H; try discriminate; auto.
Qed.

Lemma leb_cmp : forall x y, PrimFloat.leb x y = true <->
  (Bcompare (Prim2B x) (Prim2B y) = Some Lt \/ Bcompare (Prim2B x) (Prim2B y) = Some Eq).
Proof.
  intros. rewrite leb_equiv. unfold Bleb, SFleb. fold (Bcompare (Prim2B x) (Prim2B y)).
  destruct (Bcompare _ _) as [[| |] |]; split; intro H; try discriminate; auto;
    destruct H; discriminate.
Qed.

Lemma nan_prim : forall x, f_is_nan x = is_nan (Prim2B x).
Proof.
  intro x. unfold f_is_nan. rewrite eqb_equiv, Beqb_refl, negb_involutive. reflexivity.
Qed.

Lemma leb_refl : forall x, f_is_nan x = false -> PrimFloat.leb x x = true.
Proof. intros x H. apply leb_cmp. right. apply cmp_refl. rewrite <- nan_prim. auto. Qed.

Lemma leb_not_nan : forall x y, PrimFloat.leb x y = true -> f_is_nan x = false /\ f_is_nan y = false.
Proof.
  intros x y H. apply leb_cmp in H. rewrite !nan_prim.
  destruct (is_nan (Prim2B x)) eqn:A; destruct (is_nan (Prim2B y)) eqn:C; auto;
    assert (N : Bcompare (Prim2B x) (Prim2B y) = None) by (apply cmp_none; auto);
    rewrite N in H; destruct H; discriminate.
Qed.

(* not (a < b), both not NaN  ->  b <= a *)
Lemma not_ltb_leb : forall a b, f_is_nan a = false -> f_is_nan b = false ->
  PrimFloat.ltb a b = false -> PrimFloat.leb b a = true.
Proof.
  intros a b Ha Hb H. apply leb_cmp.
  rewrite (Bcompare_swap _ _ (Prim2B a) (Prim2B b)).
  destruct (Bcompare (Prim2B a) (Prim2B b)) as [[| |] |] eqn:E; cbn; auto.
  - apply ltb_cmp in E. congruence.
  - apply cmp_none in E. rewrite <- !nan_prim in E. destruct E; congruence.
Qed.

Lemma ltb_nan_l : forall a b, f_is_nan a = true -> PrimFloat.ltb a b = false.
Proof.
  intros a b H. destruct (PrimFloat.ltb a b) eqn:E; auto. apply ltb_cmp in E.
  assert (N : Bcompare (Prim2B a) (Prim2B b) = None) by (apply cmp_none; rewrite <- !nan_prim; auto).
  congruence.
Qed.
Lemma ltb_nan_r : forall a b, f_is_nan b = true -> PrimFloat.ltb a b = false.
Proof.
  intros a b H. destruct (PrimFloat.ltb a b) eqn:E; auto. apply ltb_cmp in E.
  assert (N : Bcompare (Prim2B a) (Prim2B b) = None) by (apply cmp_none; rewrite <- !nan_prim; auto).
  congruence.
Qed.

(* f64::clamp: the assert fails exactly when not (lo <= hi); otherwise NaN goes to NaN and everything else
   lands in [lo, hi] (hardware order) *)
Lemma clamp_range : forall x lo hi r,
  f_clamp x lo hi = Ok r ->
  (f_is_nan x = true /\ f_is_nan r = true) \/
  (f_is_nan x = false /\ PrimFloat.leb lo r = true /\ PrimFloat.leb r hi = true).
Proof.
  intros x lo hi r H. unfold f_clamp in H.
  destruct (PrimFloat.leb lo hi) eqn:L; [| discriminate].
  destruct (leb_not_nan _ _ L) as [Nlo Nhi].
  inversion H; subst; clear H.
  destruct (f_is_nan x) eqn:Nx.
  - left. split; auto. rewrite (ltb_nan_l x lo Nx). rewrite (ltb_nan_r hi x Nx). auto.
  - right. split; auto.
    destruct (PrimFloat.ltb x lo) eqn:A.
    + destruct (PrimFloat.ltb hi lo) eqn:C.
      * split; [auto | apply leb_refl; auto].
      * split; [apply leb_refl; auto | auto].
    + assert (Lx : PrimFloat.leb lo x = true) by (apply not_ltb_leb; auto).
      destruct (PrimFloat.ltb hi x) eqn:C.
      * split; [auto | apply leb_refl; auto].
      * split; [auto | apply not_ltb_leb; auto].
Qed.

Lemma clamp_panic_iff : forall x lo hi,
  (exists p, f_clamp x lo hi = Panic p) <-> PrimFloat.leb lo hi = false.
Proof.
  intros. unfold f_clamp. destruct (PrimFloat.leb lo hi); split; intro H.
  - destruct H; discriminate.
  - discriminate.
  - reflexivity.
  - eexists; reflexivity.
Qed.

(* f64::min with a non-NaN bound never exceeds the bound *)
Lemma min_bound : forall s q, f_is_nan s = false -> PrimFloat.leb (f_min s q) s = true.
Proof.
  intros s q Hs. unfold f_min. rewrite Hs.
  destruct (f_is_nan q) eqn:Hq; [apply leb_refl; auto |].
  destruct (PrimFloat.ltb s q) eqn:L; [apply leb_refl; auto |].
  apply not_ltb_leb; auto.
Qed.

(* ------------------------------------------------------------------ *)
(* every set_frequency argument is an output of the clamp              *)

Definition clamped (c : cfg) (f : PrimFloat.float) : Prop :=
  exists x, f_clamp x (PrimFloat.opp (c_max_freq c)) (c_max_freq c) = Ok f.

(* NaN, or inside [-M, M] in the hardware order *)
Definition freq_in_range (c : cfg) (f : PrimFloat.float) : Prop :=
  f_is_nan f = true \/
  (PrimFloat.leb (PrimFloat.opp (c_max_freq c)) f = true /\ PrimFloat.leb f (c_max_freq c) = true).

Lemma clamped_in_range : forall c f, clamped c f -> freq_in_range c f.
Proof.
  intros c f [x H]. destruct (clamp_range _ _ _ _ H) as [[_ N] | (_ & A & B)].
  - left; auto.
  - right; auto.
Qed.

Lemma freqs_of_app : forall a b, freqs_of (a ++ b) = freqs_of a ++ freqs_of b.
Proof. intros. unfold freqs_of. apply flat_map_app. Qed.

(* the frequency state after an operation: untouched, or the clamp output just applied *)
Definition freq_effect (c : cfg) (s : st) (cs : list call) (r : res st) : Prop :=
  Forall (clamped c) (freqs_of cs) /\
  (forall s', r = Ok s' ->
     (freqs_of cs = [] /\ freq_offset s' = freq_offset s) \/
     (exists f, freqs_of cs = [f] /\ freq_offset s' = f)).

Lemma steer_frequency_freq : forall c s ch cs r,
  steer_frequency c s ch = (cs, r) -> freq_effect c s cs r.
Proof.
  intros c s ch cs r H. unfold steer_frequency in H.
  destruct (f_clamp _ _ _) as [nf | e | p] eqn:E; inversion H; subst; split.
  - cbn. constructor; [eexists; eauto | constructor].
  - intros s' E'. inversion E'; subst. right. exists nf. split; reflexivity.
  - constructor.
  - intros; discriminate.
  - constructor.
  - intros; discriminate.
Qed.

Lemma change_desired_freq : forall c s nf fd cs r,
  change_desired_frequency c s nf fd = (cs, r) -> freq_effect c s cs r.
Proof.
  intros c s nf fd cs r H. unfold change_desired_frequency in H.
  apply steer_frequency_freq in H. exact H.
Qed.

Lemma check_step_freq : forall ar c s d s', check_step ar c s d = Ok s' -> freq_offset s' = freq_offset s.
Proof.
  intros ar c s d s' H. unfold check_step in H.
  destruct (in_startup s).
  - destruct (is_within _ _ _); inversion H; auto.
  - destruct (negb _ || _); inversion H; auto.
Qed.

Lemma steer_offset_freq : forall ar c s ch fd cs r,
  steer_offset ar c s ch fd = (cs, r) -> freq_effect c s cs r.
Proof.
  intros ar c s ch fd cs r H. unfold steer_offset in H.
  destruct (PrimFloat.ltb _ _).
  - destruct (check_step _ _ _ _) as [s1 | e1 | p1] eqn:E; inversion H; subst.
    + split; [constructor |].
      intros s2 E2. inversion E2; subst. left. split; auto. eapply check_step_freq; eauto.
    + split; [constructor | intros; discriminate].
    + split; [constructor | intros; discriminate].
  - destruct (duration_check _).
    + eapply change_desired_freq; eauto.
    + inversion H; subst. split; [constructor | intros; discriminate].
    + inversion H; subst. split; [constructor | intros; discriminate].
Qed.

Lemma update_clock_freq : forall ar c s e l cs r,
  update_clock ar c s e l = (cs, r) -> freq_effect c s cs r.
Proof.
  intros ar c s e l cs r H. unfold update_clock in H.
  set (pre := if in_startup s then [DisableNtp] else []) in *.
  assert (Hpre : freqs_of pre = []) by (subst pre; destruct (in_startup s); reflexivity).
  unfold seq at 1 in H.
  match type of H with
  | (let (_, _) := seq ?steer ?k in _) = _ => remember steer as st0 eqn:Est; destruct st0 as [cs1 r1]
  end.
  assert (Hst : freq_effect c s cs1 r1).
  { symmetry in Est.
    destruct (_ && _) in Est.
    - eapply steer_offset_freq; eauto.
    - destruct (PrimFloat.ltb _ _) in Est.
      + eapply steer_frequency_freq; eauto.
      + inversion Est; subst. split; [constructor |].
        intros s' E. inversion E; subst. left. auto. }
  destruct Hst as [F1 F2].
  assert (Hl : freqs_of (ErrEst :: (if l then [Status] else [])) = []) by (destruct l; reflexivity).
  unfold seq in H.
  destruct r1 as [s1 | e1 | p1]; cbn in H; inversion H; subst; clear H; split.
  - rewrite !freqs_of_app, Hpre, Hl, app_nil_r. exact F1.
  - intros s' E. inversion E; subst. rewrite !freqs_of_app, Hpre, Hl, app_nil_r. cbn.
    apply F2. reflexivity.
  - rewrite freqs_of_app, Hpre. exact F1.
  - intros; discriminate.
  - rewrite freqs_of_app, Hpre. exact F1.
  - intros; discriminate.
Qed.

Lemma step_freq : forall ar c s o cs r, step ar c s o = (cs, r) -> freq_effect c s cs r.
Proof.
  intros ar c s o cs r H. destruct o as [[e |] l | | ch fd | ch]; cbn [step] in H.
  - eapply update_clock_freq; eauto.
  - inversion H; subst. split; [constructor |]. intros s' E; inversion E; subst. left; auto.
  - eapply change_desired_freq; eauto.
  - eapply steer_offset_freq; eauto.
  - eapply steer_frequency_freq; eauto.
Qed.

(* all set_frequency arguments of a history *)
Lemma run_freqs_clamped : forall ar c ops s,
  Forall (clamped c) (freqs_of (fst (run ar c s ops))).
Proof.
  induction ops as [| o r IH]; intro s; [constructor |].
  cbn [run]. unfold seq.
  destruct (step ar c s o) as [cs rr] eqn:E. apply step_freq in E. destruct E as [F _].
  destruct rr as [s' | e | p]; cbn [fst]; auto.
  specialize (IH s'). destruct (run ar c s' r) as [cs2 r2]. cbn [fst] in *.
  rewrite freqs_of_app. apply Forall_app. split; auto.
Qed.

Lemma run_freqs_in_range : forall ar c ops s,
  Forall (freq_in_range c) (freqs_of (fst (run ar c s ops))).
Proof.
  intros. eapply Forall_impl; [| apply run_freqs_clamped]. apply clamped_in_range.
Qed.

(* the state variable freq_offset is the kernel value until the first set_frequency, and the last
   applied clamp output afterwards: in range as soon as anything was applied *)
Lemma run_freq_offset : forall ar c ops s s',
  snd (run ar c s ops) = Ok s' ->
  (freqs_of (fst (run ar c s ops)) = [] /\ freq_offset s' = freq_offset s) \/
  (freqs_of (fst (run ar c s ops)) <> [] /\ clamped c (freq_offset s')).
Proof.
  induction ops as [| o r IH]; intros s s' H.
  - cbn in *. inversion H; subst. left; auto.
  - cbn [run] in *. unfold seq in *.
    destruct (step ar c s o) as [cs rr] eqn:E. apply step_freq in E. destruct E as [F1 F2].
    destruct rr as [s1 | e | p]; cbn [snd] in H; try discriminate.
    specialize (IH s1). destruct (run ar c s1 r) as [cs2 r2]. cbn [fst snd] in *.
    rewrite freqs_of_app.
    destruct (IH s' H) as [[A B] | [A B]].
    + rewrite A, app_nil_r.
      destruct (F2 s1 eq_refl) as [[C D] | (f & C & D)].
      * left. split; auto. congruence.
      * right. rewrite C. split; [discriminate |]. rewrite B, D.
        rewrite C in F1. inversion F1; auto.
    + right. split; auto. intro N. apply app_eq_nil in N. tauto.
Qed.


(* ------------------------------------------------------------------ *)
(* slews                                                               *)

(* the slew frequency never exceeds slew_maximum_frequency_offset (any change, any duration, NaN included) *)
Lemma slew_freq_bound : forall c ch,
  f_is_nan (c_slew_max c) = false ->
  PrimFloat.leb (slew_freq c ch) (c_slew_max c) = true.
Proof. intros c ch H. unfold slew_freq. apply min_bound. exact H. Qed.

(* a started slew sets desired_freq to -freq * signum(change) with that frequency, and time_update ends it *)
Lemma slew_started : forall ar c s ch fd cs s',
  PrimFloat.ltb (c_step_threshold c) (PrimFloat.abs ch) = false ->
  steer_offset ar c s ch fd = (cs, Ok s') ->
  desired_freq s' = PrimFloat.mul (PrimFloat.opp (slew_freq c ch)) (f_signum ch) /\
  f_is_nan ch = false.
Proof.
  intros ar c s ch fd cs s' Hlt H. unfold steer_offset in H. rewrite Hlt in H.
  destruct (duration_check _) as [u | e | p] eqn:D; try (inversion H; fail).
  apply change_desired_effect in H. destruct H as [_ H]. destruct (H s' eq_refl) as (_ & _ & E).
  split; [exact E |].
  (* Duration::from_secs_f64 would have panicked on |NaN| / freq *)
  destruct (f_is_nan ch) eqn:N; auto. exfalso.
  unfold duration_check in D.
  assert (Nq : f_is_nan (PrimFloat.div (PrimFloat.abs ch) (slew_freq c ch)) = true).
  { rewrite nan_prim, div_equiv, abs_equiv. rewrite nan_prim in N.
    destruct (Prim2B ch); try discriminate. reflexivity. }
  rewrite (ltb_nan_l _ _ Nq) in D. rewrite (ltb_nan_l _ _ Nq) in D. discriminate.
Qed.

Lemma time_update_ends_slew : forall c s cs s',
  change_desired_frequency c s fzero fzero = (cs, Ok s') -> desired_freq s' = fzero.
Proof.
  intros c s cs s' H. apply change_desired_effect in H. destruct H as [_ H].
  destruct (H s' eq_refl) as (_ & _ & E). exact E.
Qed.
