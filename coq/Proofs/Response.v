(* Lemmas about the response model (builder P2b: C16, C17, C18, C19). *)
From V Require Import Model.Response Gen.ConstResponse.
From Coq Require Import ZifyBool.
Ltac Zify.zify_post_hook ::= Z.div_mod_to_equations.

Ltac consts :=
  unfold EF_HEADER_LENGTH, MIN_UNTRUSTED_V4_LAST, MIN_UNTRUSTED_V4, MIN_UNTRUSTED_V5, MIN_AUTHENTICATED,
    MIN_ENCRYPTED, MIN_V5_PADDING, NONCE_LEN_256, HEADER_V4_LENGTH, RESP_MAX_COOKIES, MAC_MAXIMUM_SIZE,
    AEAD_ID_256, AEAD_ID_512, COOKIE_KEYWIDTH_256, COOKIE_KEYWIDTH_512 in *.

(* ------------------------------------------------------------------ arithmetic and lists *)
Lemma len_app {A} (a b : list A) : len (a ++ b) = len a + len b.
Proof. unfold len. rewrite app_length. lia. Qed.
Lemma len_nonneg {A} (l : list A) : 0 <= len l.
Proof. unfold len. lia. Qed.
Lemma len_nil {A} : len (@nil A) = 0.
Proof. reflexivity. Qed.
Lemma len_cons {A} (x : A) l : len (x :: l) = 1 + len l.
Proof. unfold len. simpl length. lia. Qed.
Lemma len_zeros n : len (zeros n) = Z.max 0 n.
Proof. unfold len, zeros. rewrite repeat_length. lia. Qed.
Lemma len_be16 n : len (be16 n) = 2.
Proof. reflexivity. Qed.
Ltac lens := repeat (rewrite len_app || rewrite len_cons || rewrite len_zeros || rewrite len_nil || rewrite len_be16).
Lemma next4_ge n : n <= next4 n.
Proof. unfold next4. destruct (n mod 4 =? 0) eqn:E; lia. Qed.
Lemma next4_lt n : next4 n < n + 4.
Proof. unfold next4. destruct (n mod 4 =? 0) eqn:E; lia. Qed.
Lemma next4_mod n : next4 n mod 4 = 0.
Proof. unfold next4. destruct (n mod 4 =? 0) eqn:E; lia. Qed.
Lemma next4_id n : n mod 4 = 0 -> next4 n = n.
Proof. unfold next4. intros H. rewrite H. reflexivity. Qed.
Lemma next4_mono a b : a <= b -> next4 a <= next4 b.
Proof.
  intros H. pose proof (next4_mod a). pose proof (next4_mod b).
  pose proof (next4_ge a). pose proof (next4_ge b). pose proof (next4_lt a). pose proof (next4_lt b). lia.
Qed.
Lemma sumZ_app a b : sumZ (a ++ b) = sumZ a + sumZ b.
Proof. induction a; simpl; lia. Qed.
Lemma wrap_small bits z : 0 <= z < 2 ^ bits -> wrap bits z = z.
Proof. intros. unfold wrap. apply Z.mod_small. lia. Qed.

Lemma Ok_inj {A} (x y : A) : @Ok A x = Ok y -> x = y.
Proof. congruence. Qed.

(* ------------------------------------------------------------------ sizes of encoded fields *)
(* closed formula for the size of a re-encoded field *)
Definition esz (min : Z) (f : field) : Z :=
  match f with
  | FUid d | FDraft d => next4 (Z.max (len d + 4) min)
  | FCookie n | FPlaceholder n | FUnknown _ n => next4 (Z.max (Z.max 0 n + 4) min)
  | FRefResp d => next4 (len d + 4)
  | FRefReq plen _ => 8 + 4 * Z.max 0 (plen / 4 - 1)
  | FPadding n => next4 (Z.max n min)
  | FInvalidNts => 0
  end.
Fixpoint esz_list (minf : bool -> Z) (fs : list field) : Z :=
  match fs with [] => 0 | f :: r => esz (minf (is_nil r)) f + esz_list minf r end.

Lemma enc_generic_len ty data min v5 b :
  enc_generic ty data min v5 = Ok b -> len b = next4 (Z.max (len data + 4) min).
Proof.
  unfold enc_generic, enc_framing, enc_padding. consts.
  destruct (len data >? 65535 - 4) eqn:E; simpl; [discriminate|].
  intros H. inversion H; subst. unfold be16. lens.
  pose proof (next4_ge (Z.max (len data + 4) min)). lia.
Qed.

Lemma enc_generic_ok ty data min v5 :
  len data <= 65531 -> exists b, enc_generic ty data min v5 = Ok b.
Proof.
  intros H. unfold enc_generic, enc_framing, enc_padding. consts.
  destruct (len data >? 65535 - 4) eqn:E; [lia|]. simpl. eauto.
Qed.

Definition not_padding (f : field) : Prop := match f with FPadding _ => False | _ => True end.

Lemma encode_field_len v5 min f b :
  not_padding f -> encode_field v5 min f = Ok b -> len b = esz min f.
Proof.
  destruct f; unfold encode_field, esz, not_padding; intros NP H; try contradiction; try discriminate.
  - apply enc_generic_len in H. exact H.
  - apply enc_generic_len in H. rewrite len_zeros in H. exact H.
  - apply enc_generic_len in H. rewrite len_zeros in H. exact H.
  - apply enc_generic_len in H. exact H.
  - destruct (negb (plen mod 4 =? 0)); [discriminate|]. apply Ok_inj in H. rewrite <- H.
    unfold be16. lens. lia.
  - destruct (len d >? 65535) eqn:E; [discriminate|]. apply Ok_inj in H. rewrite <- H.
    unfold be16. lens. unfold wrap. change (2 ^ 16) with 65536. pose proof (len_nonneg d).
    unfold next4. destruct ((len d + 4) mod 4 =? 0) eqn:E2; lia.
  - apply enc_generic_len in H. rewrite len_zeros in H. exact H.
Qed.

Lemma esz_mod4 min f : not_padding f -> esz min f mod 4 = 0.
Proof.
  destruct f; unfold esz, not_padding; intros NP; try contradiction; try apply next4_mod; lia.
Qed.

Lemma encode_fields_len v5 minf fs b :
  Forall not_padding fs -> encode_fields v5 minf fs = Ok b -> len b = esz_list minf fs.
Proof.
  revert b. induction fs as [|f r IH]; simpl; intros b NP H.
  - inversion H. reflexivity.
  - inversion NP; subst.
    destruct (encode_field v5 (minf (is_nil r)) f) eqn:E1; simpl in H; try discriminate.
    destruct (encode_fields v5 minf r) eqn:E2; simpl in H; try discriminate.
    inversion H; subst. rewrite len_app. erewrite encode_field_len by eauto. rewrite (IH a0); auto.
Qed.

Lemma esz_list_mod4 minf fs : Forall not_padding fs -> esz_list minf fs mod 4 = 0.
Proof.
  induction fs as [|f r IH]; simpl; intros NP; [reflexivity|].
  inversion NP; subst. pose proof (esz_mod4 (minf (is_nil r)) f H1). specialize (IH H2). lia.
Qed.

(* fields that serialize re-encodes without error *)
Definition encodable (f : field) : Prop :=
  match f with
  | FUid d | FDraft d | FRefResp d => len d <= 65531
  | FCookie n => n <= 65531
  | _ => False
  end.

Lemma encode_field_ok v5 min f : encodable f -> exists b, encode_field v5 min f = Ok b.
Proof.
  destruct f; simpl; intros H; try contradiction.
  - apply enc_generic_ok; auto.
  - apply enc_generic_ok. rewrite len_zeros. lia.
  - apply enc_generic_ok; auto.
  - destruct (len d >? 65535) eqn:E; [lia|]. eauto.
Qed.

Lemma encodable_not_padding f : encodable f -> not_padding f.
Proof. destruct f; simpl; auto. Qed.

Lemma encode_fields_ok v5 minf fs : Forall encodable fs -> exists b, encode_fields v5 minf fs = Ok b.
Proof.
  induction fs as [|f r IH]; simpl; intros H; [eauto|].
  inversion H; subst. destruct (encode_field_ok v5 (minf (is_nil r)) f H2) as [a Ea].
  destruct (IH H3) as [b Eb]. rewrite Ea, Eb. simpl. eauto.
Qed.

(* the NTPv5 padding field *)
Lemma padding_len n b :
  4 <= n < 2 ^ 64 -> n mod 4 = 0 ->
  encode_field true MIN_V5_PADDING (FPadding n) = Ok b -> len b = n.
Proof.
  intros R M. simpl. unfold enc_framing, enc_padding. consts.
  rewrite (wrap_small 64 (n - 4)) by lia.
  destruct (n - 4 >? 65535 - 4) eqn:E; simpl; [discriminate|].
  intros H. inversion H; subst. unfold be16. lens.
  rewrite (next4_id (Z.max (n - 4 + 4) 4)) by lia. lia.
Qed.

Lemma padding_ok n :
  4 <= n <= 65535 -> exists b, encode_field true MIN_V5_PADDING (FPadding n) = Ok b.
Proof.
  intros R. simpl. unfold enc_framing, enc_padding. consts.
  rewrite (wrap_small 64 (n - 4)) by lia.
  destruct (n - 4 >? 65535 - 4) eqn:E; [lia|]. simpl. eauto.
Qed.

Lemma padding_small_err n :
  0 < n < 4 -> exists e, encode_field true MIN_V5_PADDING (FPadding n) = Err e.
Proof.
  intros R. simpl. unfold enc_framing. consts. unfold wrap.
  assert ((n - 4) mod 2 ^ 64 = 2 ^ 64 + n - 4) as -> by (symmetry; apply (Z.mod_unique _ _ (-1)); lia).
  destruct (2 ^ 64 + n - 4 >? 65535 - 4) eqn:E; [|lia]. simpl. eauto.
Qed.

(* ------------------------------------------------------------------ C16: bounded cursor *)
Ltac bind_step :=
  match goal with |- res_bind ?X _ = _ -> _ => destruct X eqn:?; cbn [res_bind]; try discriminate end.

Lemma serialize_le a B w : serialize a B = Ok w -> wire_len w <= B.
Proof.
  unfold serialize. cbv zeta. destruct (a_ver a =? 3).
  - destruct (len (a_header a) <=? B) eqn:E; [|discriminate]. intros H; inversion H; subst.
    unfold wire_len, wauth_len; cbn [w_prefix w_auth w_suffix]. unfold len in *. simpl. lia.
  - do 3 bind_step.
    match goal with |- (if ?c then _ else _) = _ -> _ => destruct c eqn:E; [|discriminate] end.
    intros H; inversion H; subst. lia.
Qed.

Lemma respond_le stats ra B s w : respond stats ra B = ORespond s w -> wire_len w <= B.
Proof.
  unfold respond. destruct ra as [a| |]; try discriminate.
  destruct (serialize a B) eqn:E; try discriminate. intros H; inversion H; subst. eapply serialize_le; eauto.
Qed.

Lemma handle_le tf cfg st q recv now m B s w :
  handle tf cfg st q recv now m B = ORespond s w -> wire_len w <= B.
Proof.
  unfold handle. destruct (decision cfg q) as [[[[k alg] stats]|]|]; try discriminate.
  apply respond_le.
Qed.

Lemma daemon_le tf cfg st q recv now s w :
  daemon_reply tf cfg st q recv now = ORespond s w -> wire_len w <= request_len q.
Proof. apply handle_le. Qed.

(* the part of serialize before the NTPv5 padding *)
Definition unpadded (a : answer) : res wire :=
  let v5 := a_ver a =? 5 in
  do ap <- (if negb (is_nil (a_auth a)) || negb (is_nil (a_enc a)) then
              if negb (a_cipher a) then Err 4 else
              do ab <- encode_fields v5 min_auth (a_auth a);
              do pb <- encode_fields v5 min_enc (a_enc a);
              let ct := len pb + 16 in
              Ok (ab, Some (8 + next4 NONCE_LEN_256 + next4 ct, NONCE_LEN_256, ct, map cookie_code (a_enc a)))
            else Ok ([], None));
  do ub <- encode_fields v5 (min_untrusted v5) (a_untrusted a);
  Ok {| w_prefix := a_header a ++ fst ap; w_auth := snd ap; w_suffix := ub |}.

(* NTPv5 answers with a desired size are never shorter than it, and exactly as long when the
   unpadded answer fits and both lengths are multiples of four *)
Lemma serialize_v5_exact a B w w0 d :
  a_ver a = 5 -> a_desired a = Some d -> 0 <= d < 2 ^ 64 ->
  unpadded a = Ok w0 -> 0 <= wire_len w0 -> wire_len w0 mod 4 = 0 -> d mod 4 = 0 ->
  serialize a B = Ok w ->
  (wire_len w0 <= d -> wire_len w = d) /\ (d <= wire_len w0 -> w = w0).
Proof.
  intros V D R U P0 M0 Md. unfold serialize. cbv zeta. rewrite V. change (5 =? 3) with false. change (5 =? 5) with true.
  unfold unpadded in U. cbv zeta in U. rewrite V in U. change (5 =? 5) with true in U.
  cbv iota.
  match type of U with res_bind ?X _ = _ => destruct X as [ap| |]; cbn [res_bind] in *; try discriminate end.
  match type of U with res_bind ?X _ = _ => destruct X as [ub| |]; cbn [res_bind] in *; try discriminate end.
  apply Ok_inj in U. subst w0. rewrite D.
  match goal with |- context [d >? ?X] => set (written := X) in * end.
  destruct (d >? written) eqn:G.
  - destruct (encode_field true MIN_V5_PADDING (FPadding (d - written))) as [p| |] eqn:EP; cbn [res_bind]; try discriminate.
    match goal with |- (if ?c then _ else _) = _ -> _ => destruct c eqn:LE; [|discriminate] end.
    intros H; apply Ok_inj in H; subst w.
    assert (4 <= d - written) by lia.
    apply padding_len in EP; [|lia|lia].
    split; [|lia]. intros _. unfold written, wire_len in *. cbn [w_prefix w_auth w_suffix] in *. rewrite !len_app in *. lia.
  - cbn [res_bind].
    match goal with |- (if ?c then _ else _) = _ -> _ => destruct c eqn:LE; [|discriminate] end.
    intros H; apply Ok_inj in H; subst w.
    split; [lia|auto].
Qed.

Lemma encode_fields_mod4 v5 minf fs b :
  Forall not_padding fs -> encode_fields v5 minf fs = Ok b -> len b mod 4 = 0.
Proof. intros NP H. rewrite (encode_fields_len _ _ _ _ NP H). apply esz_list_mod4; auto. Qed.

(* a padding field of 1..3 bytes cannot be written: the answer is dropped, never rounded up *)
Lemma serialize_v5_no_rounding a B w w0 d :
  a_ver a = 5 -> a_desired a = Some d -> unpadded a = Ok w0 ->
  0 < d - wire_len w0 < 4 -> serialize a B = Ok w -> False.
Proof.
  intros V D U R. unfold serialize. cbv zeta. rewrite V. change (5 =? 3) with false. change (5 =? 5) with true.
  unfold unpadded in U. cbv zeta in U. rewrite V in U. change (5 =? 5) with true in U.
  cbv iota.
  match type of U with res_bind ?X _ = _ => destruct X as [ap| |]; cbn [res_bind] in *; try discriminate end.
  match type of U with res_bind ?X _ = _ => destruct X as [ub| |]; cbn [res_bind] in *; try discriminate end.
  apply Ok_inj in U. subst w0. rewrite D.
  match goal with |- context [d >? ?X] => set (written := X) in * end.
  destruct (d >? written) eqn:G; [|lia].
  destruct (padding_small_err (d - written) R) as [e Ee]. rewrite Ee. cbn [res_bind]. discriminate.
Qed.

(* ------------------------------------------------------------------ C18: what an answer contains *)
Lemma echo_uid_In f l : In f (echo_uid l) -> (exists d, f = FUid d) /\ In f l.
Proof.
  unfold echo_uid. rewrite filter_In. intros [HI HU]. split; auto.
  destruct f; simpl in HU; try discriminate. eauto.
Qed.

Lemma echo_v5_In flt f l :
  In f (echo_v5 flt l) ->
  ((exists d, f = FUid d) /\ In f l)
  \/ (exists plen off, In (FRefReq plen off) l /\ refid_response flt plen off = Some f).
Proof.
  induction l as [|x r IH]; simpl; [tauto|].
  destruct x; simpl; try (intros H; destruct (IH H) as [[? ?]|[p [o [? ?]]]]; [left|right]; eauto 6; fail).
  - intros [H|H]; [subst; left; eauto|]. destruct (IH H) as [[? ?]|[p [o [? ?]]]]; [left|right]; eauto 6.
  - destruct (refid_response flt plen off) eqn:E.
    + intros [H|H]; [subst; right; eauto 6|]. destruct (IH H) as [[? ?]|[p [o [? ?]]]]; [left|right]; eauto 6.
    + intros H. destruct (IH H) as [[? ?]|[p [o [? ?]]]]; [left|right]; eauto 6.
Qed.

Lemma refid_response_spec flt plen off f :
  refid_response flt plen off = Some f ->
  f = FRefResp (firstn (Z.to_nat plen) (skipn (Z.to_nat off) flt)) /\ off <= len flt /\ plen <= len flt - off.
Proof.
  unfold refid_response. destruct ((off <=? len flt) && (plen <=? len flt - off)) eqn:E; [|discriminate].
  intros H; inversion H. split; auto. lia.
Qed.

Lemma filter_map_In {A B} (g : A -> option B) l y :
  In y (filter_map g l) -> exists x, In x l /\ g x = Some y.
Proof.
  induction l as [|x r IH]; simpl; [tauto|].
  destruct (g x) eqn:E.
  - intros [H|H]; [subst; eauto|]. destruct (IH H) as [x' [? ?]]. eauto.
  - intros H. destruct (IH H) as [x' [? ?]]. eauto.
Qed.

Lemma fresh_for_spec fresh x y :
  fresh_for fresh x = Some y ->
  y = FCookie fresh /\ ((exists n, x = FCookie n /\ fresh <= n) \/ (exists n, x = FPlaceholder n /\ fresh <= n)).
Proof.
  destruct x; simpl; try discriminate.
  - destruct (fresh >? n) eqn:E; [discriminate|]. intros H; inversion H. split; auto. left. exists n. split; auto. lia.
  - destruct (fresh >? n) eqn:E; [discriminate|]. intros H; inversion H. split; auto. right. exists n. split; auto. lia.
Qed.

Lemma firstn_In {A} n (l : list A) x : In x (firstn n l) -> In x l.
Proof. revert l. induction n; destruct l; simpl; try tauto. intros [H|H]; auto. Qed.

Lemma fresh_cookies_In tf alg q f :
  In f (fresh_cookies tf alg q) ->
  f = FCookie (cookie_len alg) /\
  exists x, In x (q_auth q ++ q_enc q) /\
    ((exists n, x = FCookie n /\ cookie_len alg <= n) \/ (exists n, x = FPlaceholder n /\ cookie_len alg <= n)).
Proof.
  unfold fresh_cookies. destruct tf; intros H.
  - apply firstn_In in H. apply filter_map_In in H. destruct H as [x [HI HG]].
    apply fresh_for_spec in HG. destruct HG. split; auto. eauto.
  - apply filter_map_In in H. destruct H as [x [HI HG]]. apply firstn_In in HI.
    apply fresh_for_spec in HG. destruct HG. split; auto. eauto.
Qed.

(* the fields of any answer: echoed unique identifiers of the request's untrusted or authenticated
   fields (never of its encrypted ones), reference-id responses cut from the server's filter for
   reference-id requests of the request (NTPv5 time answers), the draft identification (NTPv5),
   fresh cookies (encrypted part of NTS time answers); nothing else *)
Definition allowed_field (k : kind) (alg : Z) (st : sstate) (q : request) (f : field) : Prop :=
  ((exists d, f = FUid d) /\ In f (q_untrusted q ++ q_auth q))
  \/ (q_version q = 5 /\ (k = KTime \/ k = KNtsTime) /\
      exists plen off, In (FRefReq plen off) (q_untrusted q ++ q_auth q)
        /\ f = FRefResp (firstn (Z.to_nat plen) (skipn (Z.to_nat off) (s_filter st)))
        /\ off <= len (s_filter st) /\ plen <= len (s_filter st) - off)
  \/ (q_version q = 5 /\ f = draft_field).

Lemma Zeqb_cases a b : (a =? b) = true -> a = b.
Proof. lia. Qed.

Lemma build_fields tf k alg st q recv now mlen a :
  (q_version q = 3 \/ q_version q = 4 \/ q_version q = 5) ->
  build tf k alg st q recv now mlen = Ok a ->
  a_ver a = q_version q
  /\ Forall (allowed_field k alg st q) (a_untrusted a ++ a_auth a)
  /\ Forall (fun f => k = KNtsTime /\ f = FCookie (cookie_len alg) /\
        exists x, In x (q_auth q ++ q_enc q) /\
          ((exists n, x = FCookie n /\ cookie_len alg <= n) \/ (exists n, x = FPlaceholder n /\ cookie_len alg <= n)))
       (a_enc a)
  /\ (is_nts_kind k = true -> a_untrusted a = [] /\ a_cipher a = true /\
        Forall (fun f => (exists d, f = FUid d) -> In f (q_auth q)) (a_auth a))
  /\ (is_nts_kind k = false -> a_auth a = [] /\ a_enc a = [] /\ a_cipher a = false).
Proof.
  intros HVER.
  assert (UID: forall l, incl l (q_untrusted q ++ q_auth q) ->
     Forall (allowed_field k alg st q) (echo_uid l)).
  { intros l IL. apply Forall_forall. intros f HF. apply echo_uid_In in HF. destruct HF. left. split; auto. }
  assert (V5: forall l, q_version q = 5 -> (k = KTime \/ k = KNtsTime) -> incl l (q_untrusted q ++ q_auth q) ->
     Forall (allowed_field k alg st q) (echo_v5 (s_filter st) l ++ [draft_field])).
  { intros l HV HK IL. apply Forall_app. split.
    - apply Forall_forall. intros f HF. apply echo_v5_In in HF. destruct HF as [[? ?]|[p [o [? HR]]]].
      + left. split; auto.
      + apply refid_response_spec in HR. destruct HR as [? [? ?]]. right. left. split; auto. split; auto. exists p, o. auto.
    - constructor; [|constructor]. right. right. auto. }
  assert (DR: q_version q = 5 -> forall l, incl l (q_untrusted q ++ q_auth q) ->
     Forall (allowed_field k alg st q) (echo_uid l ++ [draft_field])).
  { intros HV l IL. apply Forall_app. split; [apply UID; auto|]. constructor; [|constructor]. right. right. auto. }
  assert (IA: incl (q_auth q) (q_untrusted q ++ q_auth q)) by (apply incl_appr, incl_refl).
  assert (FC: forall tf0, Forall (fun f => KNtsTime = KNtsTime /\ f = FCookie (cookie_len alg) /\
        exists x, In x (q_auth q ++ q_enc q) /\
          ((exists n, x = FCookie n /\ cookie_len alg <= n) \/ (exists n, x = FPlaceholder n /\ cookie_len alg <= n)))
       (fresh_cookies tf0 alg q)).
  { intros tf0. apply Forall_forall. intros f HF. apply fresh_cookies_In in HF. destruct HF. auto. }
  assert (AU: forall l, incl l (q_auth q) -> Forall (fun f => (exists d, f = FUid d) -> In f (q_auth q)) (echo_uid l)).
  { intros l IL. apply Forall_forall. intros f HF _. apply echo_uid_In in HF. destruct HF. auto. }
  assert (AU5: forall l, incl l (q_auth q) ->
     Forall (fun f => (exists d, f = FUid d) -> In f (q_auth q)) (echo_v5 (s_filter st) l ++ [draft_field])).
  { intros l IL. apply Forall_forall. intros f HF [d Hd]. subst f. apply in_app_or in HF. destruct HF as [HF|HF].
    - apply echo_v5_In in HF. destruct HF as [[? ?]|[p [o [? HR]]]]; auto.
      apply refid_response_spec in HR. destruct HR as [HR _]. discriminate.
    - simpl in HF. destruct HF as [HF|[]]. discriminate. }
  assert (AUD: forall l, incl l (q_auth q) ->
     Forall (fun f => (exists d, f = FUid d) -> In f (q_auth q)) (echo_uid l ++ [draft_field])).
  { intros l IL. apply Forall_app. split; [apply AU; auto|]. constructor; [|constructor]. intros [d Hd]. discriminate. }
  unfold build.
  destruct k; cbv zeta;
    destruct (q_version q =? 3) eqn:E3; try discriminate;
    try (destruct (q_version q =? 4) eqn:E4);
    intros H; apply Ok_inj in H; subst a; cbn [a_ver a_untrusted a_auth a_enc a_cipher mk_answer is_nts_kind];
    rewrite ?app_nil_r; cbn [app];
    repeat split; try discriminate; auto using Forall_nil, incl_refl; try lia.
  all: try (apply UID, incl_refl).
  all: try (apply V5; auto using incl_refl; lia).
  all: try (apply DR; auto using incl_refl; lia).
  all: try (apply UID; auto).
  all: try (apply V5; auto; lia).
  all: try (apply DR; auto; lia).
  all: try apply FC.
  all: try (apply AU, incl_refl).
  all: try (apply AU5, incl_refl).
  all: try (apply AUD, incl_refl).
Qed.

(* headers of time answers and of DENY / RATE / NTS-NAK answers, spelled out *)
Definition is_time_kind (k : kind) : bool := match k with KTime | KNtsTime => true | _ => false end.

Definition time_header (k : kind) (st : sstate) (q : request) (recv now : list Z) : list Z :=
  if q_version q =? 5 then
    [leap_bits (s_leap st) * 64 + 5 * 8 + 4; s_stratum st; q_poll q; s_precision st]
    ++ s_rdelay_t32 st ++ s_rdisp_t32 st ++ [0; 0; 0; if s_stratum st <? 16 then 1 else 0]
    ++ zeros 8 ++ q_xmit q ++ recv ++ now
  else
    [leap_bits (s_leap st) * 64 + q_version q * 8 + 4; s_stratum st; q_poll q; s_precision st]
    ++ s_rdelay_short st ++ s_rdisp_short st ++ s_refid st
    ++ (if (q_version q =? 4) && q_upgrade q && (match k with KTime => true | _ => false end)
        then bytes_of_string UPGRADE_TIMESTAMP else truncate_ref recv)
    ++ q_xmit q ++ recv ++ now.

Definition kiss_header (k : kind) (q : request) : list Z :=
  if q_version q =? 5 then
    [5 * 8 + 4; 0;
     match k with KDeny | KNtsDeny => 127 | KRate | KNtsRate => poll_force_inc (q_poll q) | _ => 0 end; 0]
    ++ zeros 4 ++ zeros 4 ++ [0; 0; 0; match k with KNak => 4 | _ => 0 end]
    ++ zeros 8 ++ q_xmit q ++ zeros 8 ++ zeros 8
  else
    [q_version q * 8 + 4; 0; 0; 0] ++ zeros 4 ++ zeros 4
    ++ bytes_of_string (match k with KDeny | KNtsDeny => KISS_DENY | KRate | KNtsRate => KISS_RATE | _ => KISS_NTSN end)
    ++ zeros 8 ++ q_xmit q ++ zeros 8 ++ zeros 8.

Lemma build_header tf k alg st q recv now mlen a :
  (q_version q = 3 \/ q_version q = 4 \/ q_version q = 5) ->
  build tf k alg st q recv now mlen = Ok a ->
  a_header a = if is_time_kind k then time_header k st q recv now else kiss_header k q.
Proof.
  intros HV. unfold build, time_header, kiss_header, hdr34_time, hdr34_kiss, hdr5_time, hdr5_kiss, zero8, zero4.
  destruct k; cbv zeta;
    destruct (q_version q =? 3) eqn:E3; try discriminate;
    try (destruct (q_version q =? 4) eqn:E4);
    try (destruct (q_version q =? 5) eqn:E5); try lia;
    intros H; apply Ok_inj in H; subst a; cbn [a_header mk_answer is_time_kind andb];
    try (apply Zeqb_cases in E3; rewrite E3); try (apply Zeqb_cases in E4; rewrite E4);
    try reflexivity; try (destruct (q_upgrade q); reflexivity).
Qed.

(* ------------------------------------------------------------------ C19 *)
Lemma decision_decrypt_failed cfg q k alg stats :
  q_decrypt_failed q = true -> decision cfg q = inl (Some (k, alg, stats)) ->
  (k = KNak /\ stats = [q_version q; 1; 2; 0]) \/ (k = KDeny /\ c_intended cfg = 1).
Proof.
  intros HD. unfold decision. rewrite HD. cbn [negb andb]. cbv zeta.
  destruct (negb (q_mode q =? 3)); [discriminate|].
  destruct (negb (existsb (Z.eqb (q_version q)) (c_accepted cfg))); [discriminate|].
  destruct (c_intended cfg =? 1) eqn:E1.
  - change (1 =? 0) with false. cbn [negb andb].
    destruct (c_require_nts cfg =? 1); [discriminate|].
    destruct (c_require_nts cfg =? 2); cbn [negb andb]; change (1 =? 0) with false; change (1 =? 1) with true; cbv iota;
      intros H; inversion H; right; split; auto; lia.
  - change (0 =? 0) with true. cbn [negb andb]. cbv iota. intros H; inversion H. left. auto.
Qed.

Lemma decision_nts_time cfg q alg stats :
  decision cfg q = inl (Some (KNtsTime, alg, stats)) ->
  q_decrypt_failed q = false /\ q_cookie q = Some alg /\ q_mode q = 3 /\ stats = [q_version q; 1; 4; c_intended cfg].
Proof.
  unfold decision. destruct (q_decrypt_failed q) eqn:HD; cbn [negb andb]; cbv zeta.
  - destruct (negb (q_mode q =? 3)); [discriminate|].
    destruct (negb (existsb (Z.eqb (q_version q)) (c_accepted cfg))); [discriminate|].
    destruct (c_intended cfg =? 1).
    + change (1 =? 0) with false. cbn [negb andb].
      destruct (c_require_nts cfg =? 1); [discriminate|].
      destruct (c_require_nts cfg =? 2); cbn [negb andb]; change (1 =? 0) with false; change (1 =? 1) with true; cbv iota;
        intros H; inversion H.
    + change (0 =? 0) with true. cbn [negb andb]. cbv iota. intros H; inversion H.
  - destruct (q_mode q =? 3) eqn:EM; cbn [negb]; [|discriminate].
    destruct (negb (existsb (Z.eqb (q_version q)) (c_accepted cfg))); [discriminate|].
    destruct (q_cookie q) as [al|] eqn:EC.
    + cbn [negb andb]. cbv iota.
      destruct (c_intended cfg =? 0) eqn:E0; [intros H; inversion H|].
      destruct (c_intended cfg =? 1) eqn:E1; intros H; inversion H; subst. repeat split; auto. lia.
    + destruct (c_intended cfg =? 0) eqn:E0; cbn [negb andb].
      * cbv iota. rewrite E0. intros H; inversion H.
      * destruct (c_require_nts cfg =? 1); [discriminate|].
        destruct (c_require_nts cfg =? 2); cbv iota.
        -- change (1 =? 0) with false. change (1 =? 1) with true. cbv iota. intros H; inversion H.
        -- rewrite E0. destruct (c_intended cfg =? 1); intros H; inversion H.
Qed.

Definition big_slot (fresh : Z) (f : field) : bool :=
  match f with FCookie n | FPlaceholder n => fresh <=? n | _ => false end.

Lemma filter_map_fresh_len fresh l :
  len (filter_map (fresh_for fresh) l) = len (filter (big_slot fresh) l).
Proof.
  induction l as [|x r IH]; [reflexivity|].
  destruct x; simpl; auto;
    destruct (fresh >? n) eqn:E; destruct (fresh <=? n) eqn:E'; try lia; rewrite ?len_cons, IH; reflexivity.
Qed.

Lemma len_filter_le {A} (p : A -> bool) l : len (filter p l) <= len l.
Proof. induction l as [|x r IH]; simpl; [lia|]. destruct (p x); rewrite ?len_cons; lia. Qed.

Lemma len_filter_firstn_le {A} (p : A -> bool) n l : len (filter p (firstn n l)) <= len (filter p l).
Proof.
  revert l. induction n; intros l; simpl; [apply len_nonneg|].
  destruct l as [|x r]; simpl; [lia|]. specialize (IHn r). destruct (p x); rewrite ?len_cons; lia.
Qed.

Lemma len_firstn_le {A} n (l : list A) : len (firstn n l) <= Z.of_nat n /\ len (firstn n l) <= len l.
Proof. unfold len. pose proof (firstn_le_length n l). rewrite firstn_length. lia. Qed.

Lemma fresh_cookies_bounds tf alg q :
  len (fresh_cookies tf alg q) <= RESP_MAX_COOKIES
  /\ len (fresh_cookies tf alg q) <= len (filter (big_slot (cookie_len alg)) (q_auth q ++ q_enc q))
  /\ Forall (fun f => f = FCookie (cookie_len alg)) (fresh_cookies tf alg q).
Proof.
  split; [|split].
  - unfold fresh_cookies. destruct tf.
    + pose proof (len_firstn_le (Z.to_nat RESP_MAX_COOKIES) (filter_map (fresh_for (cookie_len alg)) (q_auth q ++ q_enc q))).
      consts. lia.
    + rewrite filter_map_fresh_len.
      pose proof (len_filter_le (big_slot (cookie_len alg)) (firstn (Z.to_nat RESP_MAX_COOKIES) (q_auth q ++ q_enc q))).
      pose proof (len_firstn_le (Z.to_nat RESP_MAX_COOKIES) (q_auth q ++ q_enc q)). consts. lia.
  - unfold fresh_cookies. destruct tf.
    + pose proof (len_firstn_le (Z.to_nat RESP_MAX_COOKIES) (filter_map (fresh_for (cookie_len alg)) (q_auth q ++ q_enc q))).
      rewrite filter_map_fresh_len in H. lia.
    + rewrite filter_map_fresh_len. apply len_filter_firstn_le.
  - apply Forall_forall. intros f HF. apply fresh_cookies_In in HF. tauto.
Qed.

(* with the limit applied to the cookies handed out, the request's own cookie always yields one *)
Lemma fresh_nonempty alg q :
  existsb (fun f => match f with FCookie n => cookie_len alg <=? n | _ => false end) (q_auth q) = true ->
  fresh_cookies true alg q <> [].
Proof.
  intros H. unfold fresh_cookies.
  assert (N: filter_map (fresh_for (cookie_len alg)) (q_auth q ++ q_enc q) <> []).
  { apply existsb_exists in H. destruct H as [x [HI HX]].
    destruct x; try discriminate.
    assert (In (FCookie n) (q_auth q ++ q_enc q)) by (apply in_or_app; auto).
    clear HI. induction (q_auth q ++ q_enc q) as [|y r IH]; [contradiction|].
    simpl. destruct H as [H|H].
    - subst y. simpl. destruct (cookie_len alg >? n) eqn:E; [lia|]. discriminate.
    - destruct (fresh_for (cookie_len alg) y); [discriminate|]. auto. }
  destruct (filter_map (fresh_for (cookie_len alg)) (q_auth q ++ q_enc q)); [contradiction|].
  consts. simpl. discriminate.
Qed.

Lemma serialize_auth_present a B w :
  a_ver a <> 3 -> a_enc a <> [] -> serialize a B = Ok w ->
  a_cipher a = true /\
  exists fl ct, w_auth w = Some (fl, NONCE_LEN_256, ct, map cookie_code (a_enc a)).
Proof.
  intros V NE. unfold serialize. cbv zeta.
  destruct (a_ver a =? 3) eqn:E3; [lia|].
  assert (is_nil (a_enc a) = false) as -> by (destruct (a_enc a); [contradiction|reflexivity]).
  rewrite orb_true_r. cbn [negb].
  destruct (a_cipher a) eqn:EC; cbn [negb]; [|cbn [res_bind]; discriminate].
  destruct (encode_fields (a_ver a =? 5) min_auth (a_auth a)) as [ab| |]; cbn [res_bind]; try discriminate.
  destruct (encode_fields (a_ver a =? 5) min_enc (a_enc a)) as [pb| |]; cbn [res_bind]; try discriminate.
  destruct (encode_fields (a_ver a =? 5) (min_untrusted (a_ver a =? 5)) (a_untrusted a)) as [ub| |]; cbn [res_bind]; try discriminate.
  cbn [fst snd].
  match goal with |- res_bind ?X _ = _ -> _ => assert (HW: forall w1, X = Ok w1 -> w_auth w1 = Some (8 + next4 NONCE_LEN_256 + next4 (len pb + 16), NONCE_LEN_256, len pb + 16, map cookie_code (a_enc a))) end.
  { intros w1. destruct (a_ver a =? 5); [|intros H; apply Ok_inj in H; subst; reflexivity].
    destruct (a_desired a); [|intros H; apply Ok_inj in H; subst; reflexivity].
    match goal with |- (if ?c then _ else _) = _ -> _ => destruct c end; [|intros H; apply Ok_inj in H; subst; reflexivity].
    match goal with |- res_bind ?Y _ = _ -> _ => destruct Y; cbn [res_bind]; try discriminate end.
    intros H; apply Ok_inj in H; subst; reflexivity. }
  bind_step.
  match goal with |- (if ?c then _ else _) = _ -> _ => destruct c; [|discriminate] end.
  intros H; apply Ok_inj in H; subst. split; auto. eauto.
Qed.

(* cookies: encode / decode under the server's key set, ideal deterministic AEAD as Section hypotheses *)
Section Cookies.
  Variables key nonce : Type.
  Variable enc : key -> nonce -> list Z -> list Z.
  Variable dec : key -> nonce -> list Z -> option (list Z).
  Hypothesis dec_enc : forall k n p, dec k n (enc k n p) = Some p.

  Record keyset : Type := { ks_keys : list key; ks_offset : Z; ks_primary : Z }.
  (* cookie on the wire: key id, nonce, ciphertext; its plaintext: algorithm, s2c key, c2s key *)
  Definition cookie_plain (alg : Z) (s2c c2s : list Z) : list Z := be16 alg ++ s2c ++ c2s.
  Definition encode_cookie (ks : keyset) (n : nonce) (alg : Z) (s2c c2s : list Z) : res (Z * nonce * list Z) :=
    match nth_error (ks_keys ks) (Z.to_nat (ks_primary ks)) with
    | Some k => Ok (wrap 32 (ks_primary ks + ks_offset ks), n, enc k n (cookie_plain alg s2c c2s))
    | None => Panic 6              (* keys[primary] out of range *)
    end.
  Definition decode_cookie (ks : keyset) (c : Z * nonce * list Z) : option (list Z) :=
    match c with
    | (id, n, ct) =>
        match nth_error (ks_keys ks) (Z.to_nat (wrap 32 (id - ks_offset ks))) with
        | Some k => dec k n ct
        | None => None
        end
    end.

  Lemma cookie_roundtrip ks n alg s2c c2s c :
    0 <= ks_primary ks < 2 ^ 32 -> 0 <= ks_offset ks < 2 ^ 32 ->
    encode_cookie ks n alg s2c c2s = Ok c ->
    decode_cookie ks c = Some (cookie_plain alg s2c c2s).
  Proof.
    intros HP HO. unfold encode_cookie.
    destruct (nth_error (ks_keys ks) (Z.to_nat (ks_primary ks))) as [k|] eqn:E; [|discriminate].
    intros H. apply Ok_inj in H. subst c. unfold decode_cookie.
    assert (wrap 32 (wrap 32 (ks_primary ks + ks_offset ks) - ks_offset ks) = ks_primary ks) as ->.
    { unfold wrap. rewrite Zminus_mod_idemp_l. replace (ks_primary ks + ks_offset ks - ks_offset ks) with (ks_primary ks) by lia.
      apply Z.mod_small. lia. }
    rewrite E. apply dec_enc.
  Qed.
End Cookies.

(* ------------------------------------------------------------------ from handle back to the builders *)
Lemma handle_respond_inv tf cfg st q recv now mlen B stats w :
  handle tf cfg st q recv now mlen B = ORespond stats w ->
  exists k alg a, decision cfg q = inl (Some (k, alg, stats))
    /\ build tf k alg st q recv now mlen = Ok a /\ serialize a B = Ok w.
Proof.
  unfold handle. destruct (decision cfg q) as [[[[k alg] st0]|]|]; try discriminate.
  unfold respond. destruct (build tf k alg st q recv now mlen) as [a| |] eqn:EB; try discriminate.
  destruct (serialize a B) as [w0| |] eqn:ES; try discriminate.
  intros H. inversion H; subst. eauto 6.
Qed.

Lemma serialize_prefix a B w : serialize a B = Ok w -> exists rest, w_prefix w = a_header a ++ rest.
Proof.
  unfold serialize. cbv zeta. destruct (a_ver a =? 3).
  - destruct (len (a_header a) <=? B); [|discriminate]. intros H; apply Ok_inj in H; subst. exists []. simpl. rewrite app_nil_r. reflexivity.
  - match goal with |- res_bind ?X _ = _ -> _ => destruct X as [ap| |]; cbn [res_bind]; try discriminate end.
    match goal with |- res_bind ?X _ = _ -> _ => destruct X as [ub| |]; cbn [res_bind]; try discriminate end.
    match goal with |- res_bind ?X _ = _ -> _ => assert (HW: forall w1, X = Ok w1 -> w_prefix w1 = a_header a ++ fst ap) end.
    { intros w1. destruct (a_ver a =? 5); [|intros H; apply Ok_inj in H; subst; reflexivity].
      destruct (a_desired a); [|intros H; apply Ok_inj in H; subst; reflexivity].
      match goal with |- (if ?c then _ else _) = _ -> _ => destruct c end; [|intros H; apply Ok_inj in H; subst; reflexivity].
      match goal with |- res_bind ?Y _ = _ -> _ => destruct Y; cbn [res_bind]; try discriminate end.
      intros H; apply Ok_inj in H; subst; reflexivity. }
    bind_step.
    match goal with |- (if ?c then _ else _) = _ -> _ => destruct c; [|discriminate] end.
    intros H; apply Ok_inj in H; subst. eauto.
Qed.

Lemma build_time_header tf k alg st q recv now mlen a :
  (q_version q = 3 \/ q_version q = 4 \/ q_version q = 5) -> is_time_kind k = true ->
  build tf k alg st q recv now mlen = Ok a ->
  a_ver a = q_version q /\ a_header a = time_header k st q recv now.
Proof.
  intros HV HK HB. split.
  - apply (build_fields _ _ _ _ _ _ _ _ _ HV HB).
  - rewrite (build_header _ _ _ _ _ _ _ _ _ HV HB), HK. reflexivity.
Qed.

Lemma build_kiss_header tf k alg st q recv now mlen a :
  (q_version q = 3 \/ q_version q = 4 \/ q_version q = 5) -> is_time_kind k = false ->
  build tf k alg st q recv now mlen = Ok a ->
  a_ver a = q_version q /\ a_header a = kiss_header k q.
Proof.
  intros HV HK HB. split.
  - apply (build_fields _ _ _ _ _ _ _ _ _ HV HB).
  - rewrite (build_header _ _ _ _ _ _ _ _ _ HV HB), HK. reflexivity.
Qed.

(* the request with other encrypted fields *)
Definition with_enc (q : request) (e : list field) : request :=
  {| q_version := q_version q; q_mode := q_mode q; q_poll := q_poll q; q_xmit := q_xmit q; q_upgrade := q_upgrade q;
     q_untrusted := q_untrusted q; q_auth := q_auth q; q_enc := e; q_mac := q_mac q; q_cookie := q_cookie q;
     q_decrypt_failed := q_decrypt_failed q; q_auths := q_auths q |}.

Lemma build_ignores_encrypted tf k alg st q recv now mlen e :
  k <> KNtsTime -> build tf k alg st (with_enc q e) recv now mlen = build tf k alg st q recv now mlen.
Proof. destruct k; intros H; try congruence; reflexivity. Qed.

Lemma decision_ignores_encrypted cfg q e : decision cfg (with_enc q e) = decision cfg q.
Proof. reflexivity. Qed.

(* ------------------------------------------------------------------ C17: when serialize succeeds *)
Definition auth_present (a : answer) : bool := negb (is_nil (a_auth a)) || negb (is_nil (a_enc a)).
Definition raw_size (a : answer) : Z :=
  len (a_header a)
  + (if auth_present a
     then esz_list min_auth (a_auth a) + 8 + next4 NONCE_LEN_256 + next4 (esz_list min_enc (a_enc a) + 16)
     else 0)
  + esz_list (min_untrusted (a_ver a =? 5)) (a_untrusted a).

Lemma Forall_encodable_np l : Forall encodable l -> Forall not_padding l.
Proof. apply Forall_impl. exact encodable_not_padding. Qed.

Lemma serialize_ok a B :
  a_ver a <> 3 ->
  Forall encodable (a_untrusted a) -> Forall encodable (a_auth a) -> Forall encodable (a_enc a) ->
  (auth_present a = true -> a_cipher a = true) ->
  raw_size a <= B ->
  ((a_ver a =? 5) = true -> forall d, a_desired a = Some d ->
     d = B /\ B mod 4 = 0 /\ raw_size a mod 4 = 0 /\ 0 <= raw_size a /\ B <= 65535) ->
  exists w, serialize a B = Ok w.
Proof.
  intros V FU FA FE HC HR HP.
  destruct (encode_fields_ok (a_ver a =? 5) min_auth _ FA) as [ab Eab].
  destruct (encode_fields_ok (a_ver a =? 5) min_enc _ FE) as [pb Epb].
  destruct (encode_fields_ok (a_ver a =? 5) (min_untrusted (a_ver a =? 5)) _ FU) as [ub Eub].
  pose proof (encode_fields_len _ _ _ _ (Forall_encodable_np _ FA) Eab) as Lab.
  pose proof (encode_fields_len _ _ _ _ (Forall_encodable_np _ FE) Epb) as Lpb.
  pose proof (encode_fields_len _ _ _ _ (Forall_encodable_np _ FU) Eub) as Lub.
  unfold serialize. cbv zeta. destruct (a_ver a =? 3) eqn:E3; [lia|].
  unfold raw_size, auth_present in *.
  assert (exists ap,
    (if negb (is_nil (a_auth a)) || negb (is_nil (a_enc a))
     then if negb (a_cipher a) then Err 4
          else do ab0 <- encode_fields (a_ver a =? 5) min_auth (a_auth a);
               do pb0 <- encode_fields (a_ver a =? 5) min_enc (a_enc a);
               Ok (ab0, Some (8 + next4 NONCE_LEN_256 + next4 (len pb0 + 16), NONCE_LEN_256, len pb0 + 16, map cookie_code (a_enc a)))
     else Ok ([], None)) = Ok ap
    /\ len (fst ap) + wauth_len (snd ap) =
       (if negb (is_nil (a_auth a)) || negb (is_nil (a_enc a))
        then esz_list min_auth (a_auth a) + 8 + next4 NONCE_LEN_256 + next4 (esz_list min_enc (a_enc a) + 16) else 0)) as [ap [Eap Lap]].
  { destruct (negb (is_nil (a_auth a)) || negb (is_nil (a_enc a))) eqn:EP.
    - rewrite (HC eq_refl). cbn [negb]. rewrite Eab, Epb. cbn [res_bind]. eexists. split; [reflexivity|].
      cbn [fst snd wauth_len]. rewrite <- Lab, <- Lpb. lia.
    - eexists. split; [reflexivity|]. reflexivity. }
  rewrite Eap. cbn [res_bind]. rewrite Eub. cbn [res_bind].
  match goal with |- context [wire_len ?W] => set (w0 := W) end.
  assert (LW: wire_len w0 = len (a_header a) + (len (fst ap) + wauth_len (snd ap)) + len ub).
  { unfold w0, wire_len. cbn [w_prefix w_auth w_suffix]. rewrite len_app. lia. }
  destruct (a_ver a =? 5) eqn:E5.
  - destruct (a_desired a) as [d|] eqn:ED.
    + destruct (HP eq_refl d eq_refl) as [HD [HB4 [HR4 [HR0 HB]]]]. subst d.
      destruct (B >? wire_len w0) eqn:G.
      * assert (4 <= B - wire_len w0 <= 65535) by lia.
        destruct (padding_ok (B - wire_len w0) H) as [p Ep]. rewrite Ep. cbn [res_bind].
        apply padding_len in Ep; [|change (2 ^ 64) with 18446744073709551616; lia|lia].
        match goal with |- context [wire_len ?W <=? B] => assert (wire_len W = B) as -> end.
        { unfold w0 in *. unfold wire_len in *. cbn [w_prefix w_auth w_suffix] in *. rewrite !len_app in *. lia. }
        rewrite Z.leb_refl. eauto.
      * cbn [res_bind]. destruct (wire_len w0 <=? B) eqn:LE; [eauto|lia].
    + cbn [res_bind]. destruct (wire_len w0 <=? B) eqn:LE; [eauto|lia].
  - cbn [res_bind]. destruct (wire_len w0 <=? B) eqn:LE; [eauto|lia].
Qed.
