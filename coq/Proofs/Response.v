(* Lemmas about the response model (builder P2b). *)
From V Require Import Model.Response Gen.ConstResponse.
