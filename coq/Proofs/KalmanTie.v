(* C06 -- ties between the model's literal constants and the constants / site censuses
   regenerated from the Rust sources on every run (Gen/ConstKalman.v).  If the code gains a
   division, square root or matrix inverse, or changes one of these constants, this file stops
   compiling and the model has to be re-read against the code. *)
From V Require Import Gen.ConstKalman Model.Kalman.
From Coq Require Import String.
Open Scope Z_scope.

Lemma kalman_constants_tie :
  Kalman.MIN_DELAY = 2 ^ (32 + KALMAN_MIN_DELAY_EXP)
  /\ KALMAN_AVG_BUF_LEN = 8 /\ KALMAN_STABLE_AFTER = 8 /\ KALMAN_INIT_FREQ_UNC = 100
  /\ KALMAN_CHI_CONSTS = " const P: f64 = 0.3275911; const A1: f64 = 0.254829592; const A2: f64 = -0.284496736; const A3: f64 = 1.421413741; const A4: f64 = -1.453152027; const A5: f64 = 1.061405429; "%string
  /\ (KALMAN_SQRT_SITES_SOURCE, KALMAN_INVERSE_SITES_SOURCE, KALMAN_DIV_SITES_SOURCE,
      KALMAN_DIV_SITES_MATRIX, KALMAN_SQRT_SITES_MOD) = (6, 3, 26, 3, 5)
  /\ (TT_FROM_SECONDS_ROUNDS + TT_FROM_SECONDS_TRUNCS, TT_ABS_SATURATES + TT_ABS_WRAPS,
      TT_POLL_INC_SATURATES + TT_POLL_INC_WRAPS, TT_POLL_DEC_SATURATES + TT_POLL_DEC_WRAPS) = (1, 1, 1, 1).
Proof. repeat split. Qed.
