(* C22, answer construction: the panic sites that Model/Response.v (builder P2b's model of the response
   builders and of NtpPacket::serialize over PARSED requests) makes explicit are never reached.
     Panic 1  assert_eq!(payload_len % 4, 0)        ReferenceIdRequest::serialize
     Panic 2  self.bytes.len().try_into().unwrap()   ReferenceIdResponse::serialize
     Panic 3  unreachable!("NTS shouldn't work with NTPv3")   nts_timestamp_response
     Panic 4  the same in nts_nak_response
     Panic 5  the same in nts_deny_response / nts_rate_limit_response
   Model/Response.v was written for the sizes and contents of answers; it has no other panic sites (the
   slice arithmetic of encode_encrypted, the cipher, the cursor are not modelled as panic-capable there). *)
From V Require Import Model.Response Proofs.Response Gen.ConstResponse.

(* a field whose encoder cannot hit its assertion *)
Definition safe_field (f : field) : Prop :=
  match f with
  | FRefReq _ _ => False
  | FRefResp d => len d <= 65535
  | _ => True
  end.

Lemma enc_generic_np ty data min v5 s : enc_generic ty data min v5 <> Panic s.
Proof.
  unfold enc_generic, enc_framing, enc_padding.
  destruct (len data >? 65535 - EF_HEADER_LENGTH); cbn [res_bind]; discriminate.
Qed.

Lemma encode_field_np v5 min f s : safe_field f -> encode_field v5 min f <> Panic s.
Proof.
  destruct f; cbn [encode_field safe_field]; intros Hs; try apply enc_generic_np; try discriminate; try contradiction.
  - unfold enc_framing, enc_padding. destruct (wrap 64 (n - EF_HEADER_LENGTH) >? 65535 - EF_HEADER_LENGTH); cbn [res_bind]; discriminate.
  - destruct (len d >? 65535) eqn:E; [lia|]. discriminate.
Qed.

Lemma encode_fields_np v5 minf fs : Forall safe_field fs -> forall s, encode_fields v5 minf fs <> Panic s.
Proof.
  induction fs as [|f r IH]; cbn [encode_fields]; intros H s; [discriminate|].
  inversion H; subst.
  destruct (encode_field v5 (minf (is_nil r)) f) as [a|e|s'] eqn:Ef; cbn [res_bind]; try discriminate.
  - destruct (encode_fields v5 minf r) as [b|e|s'] eqn:Er; cbn [res_bind]; try discriminate.
    exfalso. exact (IH H3 s' eq_refl).
  - exfalso. exact (encode_field_np _ _ _ _ H2 Ef).
Qed.

Lemma serialize_np a B s :
  Forall safe_field (a_untrusted a) -> Forall safe_field (a_auth a) -> Forall safe_field (a_enc a) ->
  serialize a B <> Panic s.
Proof.
  intros HU HA HE. unfold serialize. cbv zeta.
  destruct (a_ver a =? 3); [destruct (len (a_header a) <=? B); discriminate|].
  match goal with |- res_bind ?X _ <> _ => destruct X as [ap|e|s'] eqn:Eap end; cbn [res_bind]; try discriminate.
  2:{ exfalso. destruct (negb (is_nil (a_auth a)) || negb (is_nil (a_enc a))); [|discriminate].
      destruct (negb (a_cipher a)); [discriminate|].
      destruct (encode_fields (a_ver a =? 5) min_auth (a_auth a)) as [ab|e|s''] eqn:Ea; cbn [res_bind] in Eap; try discriminate.
      - destruct (encode_fields (a_ver a =? 5) min_enc (a_enc a)) as [pb|e|s''] eqn:Ee; cbn [res_bind] in Eap; try discriminate.
        exact (encode_fields_np _ _ _ HE _ Ee).
      - exact (encode_fields_np _ _ _ HA _ Ea). }
  destruct (encode_fields (a_ver a =? 5) (min_untrusted (a_ver a =? 5)) (a_untrusted a)) as [ub|e|s'] eqn:Eu;
    cbn [res_bind]; try discriminate.
  2:{ exfalso. exact (encode_fields_np _ _ _ HU _ Eu). }
  match goal with |- res_bind ?X _ <> _ => destruct X as [w1|e|s'] eqn:Ew end; cbn [res_bind]; try discriminate.
  - match goal with |- (if ?c then _ else _) <> _ => destruct c end; discriminate.
  - exfalso. destruct (a_ver a =? 5); [|discriminate]. destruct (a_desired a) as [d|]; [|discriminate].
    match type of Ew with (if ?c then _ else _) = _ => destruct c; [|discriminate] end.
    match type of Ew with res_bind ?X _ = _ => destruct X as [p|e|s''] eqn:Ep end; cbn [res_bind] in Ew; try discriminate.
    refine (encode_field_np _ _ _ _ _ Ep). exact I.
Qed.

Lemma len_firstn_skipn_le (n m : nat) (l : list Z) : len (firstn n (skipn m l)) <= len l.
Proof.
  destruct (len_firstn_le n (skipn m l)) as (_ & H). unfold len in *. rewrite skipn_length in H. lia.
Qed.

Lemma allowed_safe k alg st q f : len (s_filter st) <= 65535 -> allowed_field k alg st q f -> safe_field f.
Proof.
  intros Hf [((d & ->) & _)|[(_ & _ & plen & off & _ & -> & _)|(_ & ->)]]; cbn [safe_field]; auto.
  - pose proof (len_firstn_skipn_le (Z.to_nat plen) (Z.to_nat off) (s_filter st)). lia.
  - exact I.
Qed.

(* which kinds the decision produces, and when *)
Lemma decision_kind cfg q k alg stats :
  (c_intended cfg = 1 \/ c_intended cfg = 3) ->
  decision cfg q = inl (Some (k, alg, stats)) ->
  match k with
  | KNak => q_decrypt_failed q = true
  | KNtsTime | KNtsDeny => q_decrypt_failed q = false /\ q_cookie q = Some alg
  | KRate | KNtsRate => False
  | KTime | KDeny => True
  end.
Proof.
  intros Hi. unfold decision. cbv zeta.
  destruct (negb (q_mode q =? 3)); [discriminate|].
  destruct (negb (existsb (Z.eqb (q_version q)) (c_accepted cfg))); [destruct (q_decrypt_failed q); discriminate|].
  destruct Hi as [-> | ->]; destruct (q_decrypt_failed q), (q_cookie q) as [al|],
    (c_require_nts cfg =? 1), (c_require_nts cfg =? 2); cbn; intros H; inversion H; subst; auto.
Qed.

Lemma build_panic tf k alg st q recv now mlen s :
  build tf k alg st q recv now mlen = Panic s ->
  q_version q = 3 /\ (k = KNtsTime \/ k = KNak \/ k = KNtsDeny \/ k = KNtsRate).
Proof.
  unfold build. cbv zeta.
  destruct k; destruct (q_version q =? 3) eqn:E3; try (destruct (q_version q =? 4)); try discriminate;
    intros _; (split; [lia|auto]).
Qed.

(* for every request whose NTPv3 form carries neither a cookie nor a failed authenticator (what the decoder
   guarantees: Proofs/ServerBytes.v deserialize_v3 at the byte level, wf_request at this level), every
   configuration reaching the parser (intended action Deny or ProvideTime), every server state whose
   reference-id filter is at most 65535 bytes (it is 512), every buffer: no panic site of the model is reached *)
Theorem answer_no_panic tf cfg st q recv now mlen B s :
  (q_version q = 3 \/ q_version q = 4 \/ q_version q = 5) ->
  (q_version q = 3 -> q_cookie q = None /\ q_decrypt_failed q = false) ->
  (c_intended cfg = 1 \/ c_intended cfg = 3) ->
  len (s_filter st) <= 65535 ->
  handle tf cfg st q recv now mlen B <> OPanic s.
Proof.
  intros HV H3 Hi Hf. unfold handle.
  destruct (decision cfg q) as [[[[k alg] stats]|]|stats] eqn:Ed; try discriminate.
  pose proof (decision_kind _ _ _ _ _ Hi Ed) as Hk.
  unfold respond.
  destruct (build tf k alg st q recv now mlen) as [a|e|s'] eqn:Eb; try discriminate.
  - destruct (build_fields _ _ _ _ _ _ _ _ _ HV Eb) as (_ & FA & FE & _).
    apply Forall_app in FA. destruct FA as [FU FA].
    assert (SU : Forall safe_field (a_untrusted a)) by (eapply Forall_impl; [|exact FU]; intros f; apply allowed_safe; exact Hf).
    assert (SA : Forall safe_field (a_auth a)) by (eapply Forall_impl; [|exact FA]; intros f; apply allowed_safe; exact Hf).
    assert (SE : Forall safe_field (a_enc a)).
    { eapply Forall_impl; [|exact FE]. intros f (_ & -> & _). exact I. }
    destruct (serialize a B) as [w|e|s''] eqn:Es; try discriminate.
    exfalso. exact (serialize_np _ _ _ SU SA SE Es).
  - exfalso. destruct (build_panic _ _ _ _ _ _ _ _ _ Eb) as (E3 & K). destruct (H3 E3) as (Hc & Hd).
    destruct K as [-> | [-> | [-> | ->]]]; cbn in Hk; try contradiction.
    + destruct Hk as (_ & Hk). congruence.
    + congruence.
    + destruct Hk as (_ & Hk). congruence.
Qed.

(* the request-level guarantee is part of the predicate the correspondence of C16-C19 checks on every decoded request *)
Lemma wf_request_versions q : wf_request q = true ->
  (q_version q = 3 \/ q_version q = 4 \/ q_version q = 5) /\
  (q_version q = 3 -> q_cookie q = None /\ q_decrypt_failed q = false).
Proof.
  unfold wf_request. cbv zeta. intros H.
  repeat (apply andb_prop in H; let H' := fresh "W" in destruct H as [H H']).
  destruct (q_version q =? 3) eqn:E3.
  - split; [left; lia|]. intros _.
    repeat (apply andb_prop in W2; let H' := fresh "X" in destruct W2 as [W2 H']).
    split; [destruct (q_cookie q); [discriminate|reflexivity]|].
    destruct (q_decrypt_failed q); [discriminate|reflexivity].
  - split; [|lia]. apply orb_prop in W2. lia.
Qed.

Corollary answer_no_panic_wf tf cfg st q recv now mlen B s :
  wf_request q = true -> (c_intended cfg = 1 \/ c_intended cfg = 3) -> len (s_filter st) <= 65535 ->
  handle tf cfg st q recv now mlen B <> OPanic s.
Proof.
  intros Hw. destruct (wf_request_versions q Hw) as (HV & H3). apply answer_no_panic; assumption.
Qed.
