(* Lemmas about the model of select (Model/Select.v). *)
From V Require Import Model.Select Gen.ConstSelect.
From Coq Require Import Sorting.Sorted.

(* ---------------------------------------------------------------- census *)
Module Census.
  Import Coq.Strings.String.
  Lemma select_census :
    SELECT_ASSERT_SITES = 1 /\ SELECT_OTHER_PANIC_SITES = 0 /\
    SELECT_CUR_INC = 1 /\ SELECT_CUR_DEC = 1 /\
    SELECT_RADIUS_EXPR = 2 /\ SELECT_LO_EXPR = 2 /\ SELECT_HI_EXPR = 2 /\
    SELECT_SORT = "sort_by(|a, b| a.0.total_cmp(&b.0))"%string.
  Proof. repeat split; reflexivity. Qed.
End Census.

(* ---------------------------------------------------------------- counting *)
Definition is_start (b : bound) : bool := match snd b with Start => true | End => false end.

Fixpoint countb (f : bound -> bool) (l : list bound) : Z :=
  match l with [] => 0 | b :: r => (if f b then 1 else 0) + countb f r end.

Fixpoint countc (f : cand -> bool) (l : list cand) : Z :=
  match l with [] => 0 | c :: r => (if f c then 1 else 0) + countc f r end.

Definition cntZ (l : list bound) : Z :=
  countb is_start l - countb (fun b => negb (is_start b)) l.

Lemma countb_app f l1 l2 : countb f (l1 ++ l2) = countb f l1 + countb f l2.
Proof. induction l1 as [|x r IH]; cbn [countb app]; [lia|]. rewrite IH. lia. Qed.

Lemma countb_nonneg f l : 0 <= countb f l.
Proof. induction l as [|x r IH]; cbn [countb]; [lia|]. destruct (f x); lia. Qed.

Lemma countb_le_length f l : countb f l <= Z.of_nat (length l).
Proof.
  induction l as [|x r IH]; cbn [countb length]; [lia|].
  rewrite Nat2Z.inj_succ. destruct (f x); lia.
Qed.

Lemma countb_insR f x l : countb f (insR x l) = countb f (x :: l).
Proof.
  induction l as [|y r IH]; [reflexivity|].
  cbn [insR]. destruct (fst y <=? fst x); [|reflexivity].
  cbn [countb] in *. rewrite IH. lia.
Qed.

Lemma countb_sort_from f l : forall acc,
  countb f (sort_from acc l) = countb f acc + countb f l.
Proof.
  unfold sort_from. induction l as [|x r IH]; intros acc; cbn [fold_left countb]; [lia|].
  rewrite IH, countb_insR. cbn [countb]. lia.
Qed.

Lemma countc_length f l : countc f l = Z.of_nat (length (filter f l)).
Proof.
  induction l as [|x r IH]; [reflexivity|].
  cbn [countc filter]. destruct (f x); cbn [length]; rewrite ?Nat2Z.inj_succ; lia.
Qed.

Lemma countc_nonneg f l : 0 <= countc f l.
Proof. rewrite countc_length. lia. Qed.

Lemma countc_le_length f l : countc f l <= Z.of_nat (length l).
Proof.
  induction l as [|x r IH]; cbn [countc length]; [lia|].
  rewrite Nat2Z.inj_succ. destruct (f x); lia.
Qed.

Lemma cntZ_app l1 l2 : cntZ (l1 ++ l2) = cntZ l1 + cntZ l2.
Proof. unfold cntZ. rewrite !countb_app. lia. Qed.

Lemma cntZ_one b : cntZ [b] = if is_start b then 1 else -1.
Proof. unfold cntZ. cbn [countb]. destruct (is_start b); reflexivity. Qed.

Lemma cntZ_le_length l : cntZ l <= Z.of_nat (length l).
Proof.
  unfold cntZ. pose proof (countb_le_length is_start l).
  pose proof (countb_nonneg (fun b => negb (is_start b)) l). lia.
Qed.

Lemma length_insR x l : length (insR x l) = S (length l).
Proof.
  induction l as [|y r IH]; [reflexivity|].
  cbn [insR]. destruct (fst y <=? fst x); cbn [length]; [rewrite IH|]; reflexivity.
Qed.

Lemma length_sort_from l : forall acc, length (sort_from acc l) = (length acc + length l)%nat.
Proof.
  unfold sort_from. induction l as [|x r IH]; intros acc; cbn [fold_left length]; [lia|].
  rewrite IH, length_insR. lia.
Qed.

(* ---------------------------------------------------------------- sortedness *)
Definition lek (x y : bound) : Prop := fst x <= fst y.

Lemma Forall_insR (P : bound -> Prop) x l : P x -> Forall P l -> Forall P (insR x l).
Proof.
  intros Hx Hl. induction Hl as [|y r Hy Hr IH]; cbn [insR].
  - constructor; [exact Hx|constructor].
  - destruct (fst y <=? fst x); constructor; auto.
Qed.

Lemma insR_sorted x l : StronglySorted lek l -> StronglySorted lek (insR x l).
Proof.
  induction l as [|y r IH]; intros Hs; cbn [insR].
  - constructor; constructor.
  - apply StronglySorted_inv in Hs. destruct Hs as [Hr Hy].
    destruct (Z.leb_spec (fst y) (fst x)) as [Hle|Hgt].
    + constructor; [apply IH; exact Hr|]. apply Forall_insR; [exact Hle|exact Hy].
    + constructor; [constructor; assumption|].
      constructor; [unfold lek; lia|].
      eapply Forall_impl; [|exact Hy]. unfold lek. intros a Ha. lia.
Qed.

Lemma sort_from_sorted l : forall acc, StronglySorted lek acc -> StronglySorted lek (sort_from acc l).
Proof.
  unfold sort_from. induction l as [|x r IH]; intros acc Hs; cbn [fold_left]; [exact Hs|].
  apply IH. apply insR_sorted. exact Hs.
Qed.

Lemma sorted_split P x R :
  StronglySorted lek (P ++ x :: R) ->
  Forall (fun y => fst y <= fst x) P /\ Forall (fun y => fst x <= fst y) R.
Proof.
  induction P as [|p P IH]; cbn [app]; intros Hs; apply StronglySorted_inv in Hs; destruct Hs as [Hr Hf].
  - split; [constructor|exact Hf].
  - destruct (IH Hr) as [H1 H2]. split; [|exact H2].
    constructor; [|exact H1].
    rewrite Forall_forall in Hf. apply (Hf x). apply in_or_app. right. left. reflexivity.
Qed.

(* ---------------------------------------------------------------- balance *)
Fixpoint balanced (n : Z) (l : list bound) : bool :=
  match l with
  | [] => true
  | b :: r => if is_start b then balanced (n + 1) r else (0 <? n) && balanced (n - 1) r
  end.

Lemma balanced_insR_end t : forall l n,
  0 <= n -> balanced n l = true -> balanced (n + 1) (insR (t, End) l) = true.
Proof.
  induction l as [|y r IH]; intros n Hn Hb; cbn [insR].
  - cbn. destruct (Z.ltb_spec 0 (n + 1)); [reflexivity|lia].
  - cbn [fst]. destruct (fst y <=? t).
    + cbn [balanced] in *. destruct (is_start y).
      * apply IH; [lia|exact Hb].
      * apply andb_true_iff in Hb. destruct Hb as [H0 Hb]. apply Z.ltb_lt in H0.
        apply andb_true_iff. split; [apply Z.ltb_lt; lia|].
        replace (n + 1 - 1) with (n - 1 + 1) by lia. apply IH; [lia|exact Hb].
    + change (balanced (n + 1) ((t, End) :: y :: r) = true).
      cbn [balanced is_start snd]. apply andb_true_iff. split; [apply Z.ltb_lt; lia|].
      replace (n + 1 - 1) with n by lia. exact Hb.
Qed.

Lemma balanced_insR_pair lo hi : lo <= hi -> forall l n,
  0 <= n -> balanced n l = true ->
  balanced n (insR (hi, End) (insR (lo, Start) l)) = true.
Proof.
  intros Hle. induction l as [|y r IH]; intros n Hn Hb.
  - cbn [insR fst]. destruct (Z.leb_spec lo hi); [|lia].
    cbn. destruct (Z.ltb_spec 0 (n + 1)); [reflexivity|lia].
  - cbn [insR fst]. destruct (Z.leb_spec (fst y) lo) as [H1|H1].
    + cbn [insR fst]. destruct (Z.leb_spec (fst y) hi) as [H2|H2]; [|lia].
      cbn [balanced] in *. destruct (is_start y).
      * apply IH; [lia|exact Hb].
      * apply andb_true_iff in Hb. destruct Hb as [H0 Hb]. rewrite H0. cbn [andb].
        apply Z.ltb_lt in H0. apply IH; [lia|exact Hb].
    + cbn [insR fst]. destruct (Z.leb_spec lo hi); [|lia].
      change (balanced n ((lo, Start) :: insR (hi, End) (y :: r)) = true).
      cbn [balanced is_start snd]. apply balanced_insR_end; assumption.
Qed.

Definition wellformed (cf : cfg) (cands : list cand) : Prop :=
  forall c, In c cands -> voter cf c = true -> c_lo c <= c_hi c.

Lemma balanced_sort_bounds cf cands : wellformed cf cands -> forall acc n,
  0 <= n -> balanced n acc = true ->
  balanced n (sort_from acc (bounds_of cf cands)) = true.
Proof.
  induction cands as [|c r IH]; intros Hw acc n Hn Hb; [exact Hb|].
  assert (Hwr : wellformed cf r) by (intros x Hx; apply Hw; right; exact Hx).
  cbn [bounds_of]. destruct (voter cf c) eqn:Hv; [|apply IH; assumption].
  unfold sort_from. cbn [fold_left]. apply (IH Hwr); [exact Hn|].
  apply balanced_insR_pair; [|exact Hn|exact Hb].
  apply Hw; [left; reflexivity|exact Hv].
Qed.

(* ---------------------------------------------------------------- the sweep *)
Definition M64 : Z := 18446744073709551616.
Lemma wrap64_small z : 0 <= z < M64 -> wrap 64 z = z.
Proof. intros H. unfold wrap. change (2 ^ 64) with M64. apply Z.mod_small. exact H. Qed.

Definition Inv (P : list bound) (st : sw) : Prop :=
  cur st = cntZ P /\ 0 <= cur st /\ 0 <= maxhigh st /\ maxhigh st <= maxlow st /\
  cur st <= maxlow st /\ (maxhigh st = maxlow st \/ cur st = maxlow st) /\
  underflow st = false /\
  (maxlow st = 0 \/ exists P1 R1, P = P1 ++ (tlow st, Start) :: R1 /\ maxlow st = cntZ P1 + 1).

Lemma step_inv P st b :
  Inv P st -> (is_start b = false -> 0 < cur st) -> cur st + 1 < M64 ->
  Inv (P ++ [b]) (step st b) /\ cur (step st b) = cur st + (if is_start b then 1 else -1).
Proof.
  intros (Hc & H0 & Hh0 & Hhl & Hcl & Hor & Huf & Hw) Hend Hlt.
  destruct b as [t k]. unfold step, Inv. rewrite cntZ_app, cntZ_one.
  destruct k; cbn [snd fst is_start] in *.
  - rewrite (wrap64_small (cur st + 1)) by lia.
    destruct (Z.gtb_spec (cur st + 1) (maxlow st)) as [Hg|Hg]; cbn [cur maxlow maxhigh tlow thigh underflow].
    + split; [|reflexivity]. repeat split; try lia; try assumption.
      right. exists P, []. split; [reflexivity|lia].
    + split; [|reflexivity]. repeat split; try lia; try assumption.
      destruct Hw as [Hz|(P1 & R1 & HP & Hm)]; [left; exact Hz|].
      right. exists P1, (R1 ++ [(t, Start)]). split; [|exact Hm].
      rewrite HP, <- app_assoc. reflexivity.
  - specialize (Hend eq_refl).
    rewrite (wrap64_small (cur st - 1)) by lia.
    assert (Hufn : (underflow st || (cur st =? 0)) = false).
    { rewrite Huf. cbn [orb]. apply Z.eqb_neq. lia. }
    assert (Hw' : maxlow st = 0 \/
                  exists P1 R1, P ++ [(t, End)] = P1 ++ (tlow st, Start) :: R1 /\ maxlow st = cntZ P1 + 1).
    { destruct Hw as [Hz|(P1 & R1 & HP & Hm)]; [left; exact Hz|].
      right. exists P1, (R1 ++ [(t, End)]). split; [|exact Hm].
      rewrite HP, <- app_assoc. reflexivity. }
    destruct (Z.gtb_spec (cur st) (maxhigh st)) as [Hg|Hg]; cbn [cur maxlow maxhigh tlow thigh underflow];
      (split; [|reflexivity]); repeat split; try lia; try assumption.
Qed.

Lemma sweep_inv_gen l : forall P st,
  Inv P st -> balanced (cur st) l = true ->
  Z.of_nat (length P) + Z.of_nat (length l) < M64 ->
  Inv (P ++ l) (fold_left step l st).
Proof.
  induction l as [|b r IH]; intros P st HI Hb Hlen.
  - rewrite app_nil_r. exact HI.
  - cbn [fold_left]. cbn [balanced length] in Hb, Hlen. rewrite Nat2Z.inj_succ in Hlen.
    assert (Hcur : cur st <= Z.of_nat (length P)).
    { destruct HI as (Hc & _). rewrite Hc. apply cntZ_le_length. }
    assert (Hend : is_start b = false -> 0 < cur st).
    { intros Hs. rewrite Hs in Hb. apply andb_true_iff in Hb. destruct Hb as [H0 _].
      apply Z.ltb_lt. exact H0. }
    destruct (step_inv P st b HI Hend) as [HI' Hc']; [lia|].
    replace (P ++ b :: r) with ((P ++ [b]) ++ r) by (rewrite <- app_assoc; reflexivity).
    apply IH; [exact HI'| |].
    + rewrite Hc'. destruct (is_start b); [exact Hb|].
      apply andb_true_iff in Hb. destruct Hb as [_ Hb].
      replace (cur st + -1) with (cur st - 1) by lia. exact Hb.
    + rewrite app_length. cbn [length]. lia.
Qed.

Lemma Inv_init : Inv [] sw_init.
Proof. unfold Inv, sw_init, cntZ. cbn. repeat split; lia. Qed.

Lemma sweep_inv l :
  balanced 0 l = true -> Z.of_nat (length l) < M64 -> Inv l (sweep l).
Proof.
  intros Hb Hl. unfold sweep. change l with ([] ++ l) at 1.
  apply sweep_inv_gen; [exact Inv_init|exact Hb|cbn; lia].
Qed.

(* ---------------------------------------------------------------- bounds of the candidates *)
Definition fS (t : Z) (b : bound) : bool := is_start b && (fst b <=? t).
Definition fE (t : Z) (b : bound) : bool := negb (is_start b) && (fst b <? t).

Lemma cS_bounds cf t cands :
  countb (fS t) (bounds_of cf cands) = countc (fun c => voter cf c && (c_lo c <=? t)) cands.
Proof.
  induction cands as [|c r IH]; [reflexivity|].
  cbn [bounds_of countc]. destruct (voter cf c); cbn [andb]; [|lia].
  cbn [countb]. rewrite IH. unfold fS, is_start. cbn [snd fst andb negb]. lia.
Qed.

Lemma cE_bounds cf t cands :
  countb (fE t) (bounds_of cf cands) = countc (fun c => voter cf c && (c_hi c <? t)) cands.
Proof.
  induction cands as [|c r IH]; [reflexivity|].
  cbn [bounds_of countc]. destruct (voter cf c); cbn [andb]; [|lia].
  cbn [countb]. rewrite IH. unfold fE, is_start. cbn [snd fst andb negb]. lia.
Qed.

Lemma start_bounds cf cands :
  countb is_start (bounds_of cf cands) = countc (voter cf) cands.
Proof.
  induction cands as [|c r IH]; [reflexivity|].
  cbn [bounds_of countc]. destruct (voter cf c); [|lia].
  cbn [countb]. rewrite IH. unfold is_start. cbn [snd]. lia.
Qed.

Lemma end_bounds cf cands :
  countb (fun b => negb (is_start b)) (bounds_of cf cands) = countc (voter cf) cands.
Proof.
  induction cands as [|c r IH]; [reflexivity|].
  cbn [bounds_of countc]. destruct (voter cf c); [|lia].
  cbn [countb]. rewrite IH. unfold is_start. cbn [snd negb]. lia.
Qed.

Lemma length_bounds cf cands :
  Z.of_nat (length (bounds_of cf cands)) = 2 * countc (voter cf) cands.
Proof.
  induction cands as [|c r IH]; [reflexivity|].
  cbn [bounds_of countc]. destruct (voter cf c); [|lia].
  cbn [length]. rewrite !Nat2Z.inj_succ. lia.
Qed.

Lemma agree_count cf t cands : wellformed cf cands ->
  countc (fun c => voter cf c && (c_lo c <=? t)) cands
  - countc (fun c => voter cf c && (c_hi c <? t)) cands
  = countc (fun c => voter cf c && (c_lo c <=? t) && (t <=? c_hi c)) cands.
Proof.
  induction cands as [|c r IH]; intros Hw; [reflexivity|].
  assert (Hwr : wellformed cf r) by (intros x Hx; apply Hw; right; exact Hx).
  specialize (IH Hwr). cbn [countc].
  destruct (voter cf c) eqn:Hv; cbn [andb]; [|lia].
  pose proof (Hw c (or_introl eq_refl) Hv) as Hle.
  destruct (Z.leb_spec (c_lo c) t), (Z.ltb_spec (c_hi c) t), (Z.leb_spec t (c_hi c)); cbn [andb]; lia.
Qed.

Lemma cnt_le t l :
  Forall (fun y => fst y <= t) l -> cntZ l <= countb (fS t) l - countb (fE t) l.
Proof.
  unfold cntZ. induction 1 as [|b r Hb Hr IH]; cbn [countb]; [lia|].
  unfold fS, fE in *. destruct (is_start b); cbn [andb negb].
  - destruct (Z.leb_spec (fst b) t); lia.
  - destruct (Z.ltb_spec (fst b) t); lia.
Qed.

Lemma cE_zero t l : Forall (fun y => t <= fst y) l -> countb (fE t) l = 0.
Proof.
  induction 1 as [|b r Hb Hr IH]; cbn [countb]; [reflexivity|].
  rewrite IH. unfold fE. destruct (Z.ltb_spec (fst b) t); [lia|].
  rewrite andb_false_r. reflexivity.
Qed.

(* the peak of the sweep is witnessed by that many voters around tlow *)
Lemma peak_bound cf cands P1 t R1 : wellformed cf cands ->
  sort_bounds (bounds_of cf cands) = P1 ++ (t, Start) :: R1 ->
  cntZ P1 + 1 <= countc (fun c => voter cf c && (c_lo c <=? t) && (t <=? c_hi c)) cands.
Proof.
  intros Hw HB.
  assert (Hs : StronglySorted lek (P1 ++ (t, Start) :: R1)).
  { rewrite <- HB. apply sort_from_sorted. constructor. }
  destruct (sorted_split _ _ _ Hs) as [HP HR]. cbn [fst] in HP, HR.
  assert (HP' : Forall (fun y => fst y <= t) (P1 ++ [(t, Start)])).
  { apply Forall_app. split; [exact HP|]. constructor; [cbn; lia|constructor]. }
  pose proof (cnt_le t _ HP') as Hc. rewrite cntZ_app, cntZ_one in Hc. cbn [is_start snd] in Hc.
  pose proof (cE_zero t R1 HR) as HE.
  pose proof (countb_nonneg (fS t) R1) as HS.
  pose proof (countb_sort_from (fS t) (bounds_of cf cands) []) as H1.
  pose proof (countb_sort_from (fE t) (bounds_of cf cands) []) as H2.
  fold (sort_bounds (bounds_of cf cands)) in H1, H2. rewrite HB in H1, H2.
  replace (P1 ++ (t, Start) :: R1) with ((P1 ++ [(t, Start)]) ++ R1) in H1, H2
    by (rewrite <- app_assoc; reflexivity).
  rewrite countb_app in H1, H2. cbn [countb] in H1, H2.
  rewrite cS_bounds in H1. rewrite cE_bounds in H2.
  rewrite <- (agree_count cf t cands Hw). lia.
Qed.

Definition small (cands : list cand) : Prop := Z.of_nat (length cands) < 2 ^ 61.

Lemma sorted_bounds_facts cf cands : wellformed cf cands -> small cands ->
  let B := sort_bounds (bounds_of cf cands) in
  Z.of_nat (length B) = 2 * countc (voter cf) cands /\
  Z.of_nat (length B) < 2 ^ 62 /\
  Inv B (sweep B) /\ cntZ B = 0.
Proof.
  intros Hw Hsm B.
  assert (HL : Z.of_nat (length B) = 2 * countc (voter cf) cands).
  { unfold B, sort_bounds. rewrite length_sort_from. cbn [length Nat.add]. apply length_bounds. }
  assert (HL2 : Z.of_nat (length B) < 2 ^ 62).
  { rewrite HL. pose proof (countc_le_length (voter cf) cands). unfold small in Hsm.
    change (2 ^ 62) with (2 * 2 ^ 61). lia. }
  split; [exact HL|]. split; [exact HL2|]. split.
  - apply sweep_inv.
    + unfold B, sort_bounds. apply balanced_sort_bounds; [exact Hw|lia|reflexivity].
    + unfold M64. change (2 ^ 62) with 4611686018427387904 in HL2. lia.
  - unfold cntZ, B, sort_bounds. rewrite !countb_sort_from. cbn [countb].
    rewrite start_bounds, end_bounds. lia.
Qed.

(* the assert_eq! and the subtraction are unreachable panics / wraps *)
Lemma sweep_balanced cf cands : wellformed cf cands -> small cands ->
  let st := sweep (sort_bounds (bounds_of cf cands)) in
  maxlow st = maxhigh st /\ underflow st = false /\ cur st = 0.
Proof.
  intros Hw Hsm st.
  destruct (sorted_bounds_facts cf cands Hw Hsm) as (_ & _ & HI & Hz).
  destruct HI as (Hc & H0 & Hh0 & Hhl & Hcl & Hor & Huf & _).
  fold st in Hc, H0, Hh0, Hhl, Hcl, Hor, Huf.
  rewrite Hz in Hc. repeat split; [|exact Huf|exact Hc].
  destruct Hor as [He|He]; lia.
Qed.

Lemma select_no_panic cf cands : wellformed cf cands -> small cands ->
  forall site, select cf cands <> Panic site.
Proof.
  intros Hw Hsm site. destruct (sweep_balanced cf cands Hw Hsm) as (He & _).
  unfold select. rewrite He, Z.eqb_refl. cbn [negb].
  destruct (_ && _); discriminate.
Qed.

(* ---------------------------------------------------------------- consensus *)
Definition agreeing (cf : cfg) (t : Z) (c : cand) : bool :=
  voter cf c && (c_lo c <=? t) && (t <=? c_hi c).

Lemma select_consensus cf cands sel :
  wellformed cf cands -> small cands ->
  select cf cands = Ok sel -> sel <> [] ->
  exists t,
    let S := filter (agreeing cf t) cands in
    let V := filter (voter cf) cands in
    1 <= Z.of_nat (length S) /\
    min_agreeing cf <= Z.of_nat (length S) /\
    Z.of_nat (length V) < 2 * Z.of_nat (length S) /\
    (forall s, In s S -> In s V /\ c_lo s <= t <= c_hi s).
Proof.
  intros Hw Hsm Hsel Hne.
  destruct (sorted_bounds_facts cf cands Hw Hsm) as (HL & HL2 & HI & _).
  unfold select in Hsel. set (B := sort_bounds (bounds_of cf cands)) in *.
  set (st := sweep B) in *.
  destruct (negb (maxlow st =? maxhigh st)); [discriminate|].
  destruct ((maxlow st >=? min_agreeing cf) && (wrap 64 (maxlow st * 4) >? Z.of_nat (length B))) eqn:Hcond;
    [|inversion Hsel; subst sel; contradiction].
  apply andb_true_iff in Hcond. destruct Hcond as [Hmin Hmaj].
  apply Z.geb_le in Hmin. apply Z.gtb_lt in Hmaj.
  destruct HI as (Hc & H0 & Hh0 & Hhl & Hcl & Hor & Huf & Hwit).
  destruct Hwit as [Hz|(P1 & R1 & HB & Hm)].
  { rewrite Hz in Hmaj. cbn in Hmaj. lia. }
  pose proof (peak_bound cf cands P1 (tlow st) R1 Hw HB) as Hpk.
  assert (Hml : maxlow st <= Z.of_nat (length B)).
  { rewrite Hm. rewrite HB. rewrite app_length. cbn [length]. rewrite Nat2Z.inj_add, Nat2Z.inj_succ.
    assert (cntZ P1 <= Z.of_nat (length P1)) by apply cntZ_le_length. lia. }
  rewrite wrap64_small in Hmaj
    by (unfold M64; change (2 ^ 62) with 4611686018427387904 in HL2; lia).
  exists (tlow st). cbv zeta.
  rewrite <- !countc_length. fold (agreeing cf (tlow st)) in Hpk.
  rewrite <- Hm in Hpk.
  repeat split; try lia.
  - apply filter_In in H. destruct H as [Hin Ha]. apply filter_In. split; [exact Hin|].
    unfold agreeing in Ha. apply andb_true_iff in Ha. destruct Ha as [Ha _].
    apply andb_true_iff in Ha. destruct Ha as [Ha _]. exact Ha.
  - apply filter_In in H. destruct H as [_ Ha]. unfold agreeing in Ha.
    apply andb_true_iff in Ha. destruct Ha as [Ha _]. apply andb_true_iff in Ha.
    destruct Ha as [_ Ha]. apply Z.leb_le. exact Ha.
  - apply filter_In in H. destruct H as [_ Ha]. unfold agreeing in Ha.
    apply andb_true_iff in Ha. destruct Ha as [_ Ha]. apply Z.leb_le. exact Ha.
Qed.

(* ---------------------------------------------------------------- members *)
Definition qualifying (cf : cfg) (c : cand) : bool :=
  c_sync c && fle (c_radius c) (max_unc cf).

Lemma in_range_qualifying cf st c : in_range cf st c = true -> qualifying cf c = true.
Proof.
  unfold in_range, qualifying. intros H.
  apply andb_true_iff in H. destruct H as [H Hs].
  apply andb_true_iff in H. destruct H as [H _].
  apply andb_true_iff in H. destruct H as [Hr _]. rewrite Hs, Hr. reflexivity.
Qed.

Lemma select_members cf cands sel :
  select cf cands = Ok sel ->
  (exists f, sel = filter f cands) /\
  forall s, In s sel ->
    In s cands /\ c_sync s = true /\ fle (c_radius s) (max_unc cf) = true /\
    isnan (c_radius s) = false.
Proof.
  unfold select. intros H.
  destruct (negb _); [discriminate|].
  destruct (_ && _).
  - inversion H; subst sel. split; [eexists; reflexivity|].
    intros s Hin. apply filter_In in Hin. destruct Hin as [Hin Hr].
    apply in_range_qualifying in Hr. unfold qualifying in Hr.
    apply andb_true_iff in Hr. destruct Hr as [Hs Hr].
    repeat split; try assumption.
    unfold fle in Hr. apply andb_true_iff in Hr. destruct Hr as [Hr _].
    apply andb_true_iff in Hr. destruct Hr as [Hr _]. apply negb_true_iff. exact Hr.
  - inversion H; subst sel. split; [exists (fun _ => false); induction cands; auto|].
    intros s [].
Qed.

(* ---------------------------------------------------------------- non-qualifying candidates are irrelevant *)
Definition nonan (cf : cfg) (cands : list cand) : Prop :=
  isnan (max_unc cf) = false /\ forall c, In c cands -> isnan (c_radius c) = false.

Lemma fgt_fle a b : isnan a = false -> isnan b = false -> fgt a b = negb (fle a b).
Proof.
  intros Ha Hb. unfold fgt, fle. rewrite Ha, Hb. cbn [negb andb].
  destruct (Z.gtb_spec (norm a) (norm b)), (Z.leb_spec (norm a) (norm b)); try reflexivity; lia.
Qed.

Lemma voter_qualifying cf c :
  isnan (max_unc cf) = false -> isnan (c_radius c) = false ->
  voter cf c = negb (c_periodic c) && qualifying cf c.
Proof.
  intros Hm Hr. unfold voter, qualifying. rewrite (fgt_fle _ _ Hr Hm).
  destruct (c_periodic c), (fle (c_radius c) (max_unc cf)), (c_sync c); reflexivity.
Qed.

Lemma bounds_of_filter_qualifying cf cands : nonan cf cands ->
  bounds_of cf (filter (qualifying cf) cands) = bounds_of cf cands.
Proof.
  intros [Hm Hr]. induction cands as [|c r IH]; [reflexivity|].
  assert (IH' : bounds_of cf (filter (qualifying cf) r) = bounds_of cf r)
    by (apply IH; intros x Hx; apply Hr; right; exact Hx).
  pose proof (voter_qualifying cf c Hm (Hr c (or_introl eq_refl))) as Hv.
  cbn [filter bounds_of]. destruct (qualifying cf c) eqn:Hq.
  - cbn [bounds_of]. rewrite IH'. reflexivity.
  - rewrite Hv, andb_false_r. exact IH'.
Qed.

Lemma filter_filter_implied {A} (p q : A -> bool) l :
  (forall x, p x = true -> q x = true) -> filter p (filter q l) = filter p l.
Proof.
  intros H. induction l as [|x r IH]; [reflexivity|].
  cbn [filter]. destruct (q x) eqn:Hq; cbn [filter]; rewrite IH.
  - reflexivity.
  - destruct (p x) eqn:Hp; [|reflexivity]. rewrite (H x Hp) in Hq. discriminate.
Qed.

Lemma select_unqualified_irrelevant cf cands : nonan cf cands ->
  select cf (filter (qualifying cf) cands) = select cf cands.
Proof.
  intros Hn. unfold select. rewrite (bounds_of_filter_qualifying cf cands Hn).
  destruct (negb _); [reflexivity|]. destruct (_ && _); [|reflexivity].
  f_equal. apply filter_filter_implied. intros x. apply in_range_qualifying.
Qed.

(* the agreeing voters themselves are returned (no NaN around): the selection
   contains the consensus set *)
