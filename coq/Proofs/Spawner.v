(* Proofs about Model/Spawner.v *)
From V Require Import Model.Spawner Gen.ConstSpawn.

(* site censuses the model was read against: spawner_task writes has_ticket in 3 places and
   last_ticket_time in 2, names NETWORK_WAIT_PERIOD 3 times (import, test, timeout);
   standard.rs writes has_spawned twice and resolved twice; nts.rs writes has_spawned twice *)
Example census_has_ticket : SPAWNER_TASK_SITES_HAS_TICKET = 3. Proof. reflexivity. Qed.
Example census_last_ticket : SPAWNER_TASK_SITES_LAST_TICKET = 2. Proof. reflexivity. Qed.
Example census_wait_period : SPAWNER_TASK_SITES_WAIT_PERIOD = 3. Proof. reflexivity. Qed.
Example census_std_has_spawned : STANDARD_SITES_HAS_SPAWNED = 2. Proof. reflexivity. Qed.
Example census_std_resolved : STANDARD_SITES_RESOLVED = 2. Proof. reflexivity. Qed.
Example census_nts_has_spawned : NTS_SITES_HAS_SPAWNED = 2. Proof. reflexivity. Qed.

Lemma W_pos : 0 < W.
Proof. reflexivity. Qed.
Lemma W_value : W = 1000.
Proof. reflexivity. Qed.
Global Opaque W.

(* ---------- the wait ---------- *)

Definition wait_time (w : waitres) : Z :=
  match w with WClosed t => t | WEvent t _ _ _ => t | WIdle t _ => t end.

Lemma wait_ge : forall ht l n evs tc ties, n <= wait_time (wait_step ht l n evs tc ties).
Proof.
  intros ht l n evs tc ties. unfold wait_step.
  set (arrival := match evs with [] => tc | (a, _) :: _ => a end).
  destruct ht.
  - destruct evs as [| [a e] r]; cbn; lia.
  - destruct (arrival <=? n) eqn:H1.
    { destruct evs as [| [a e] r]; cbn; lia. }
    apply Z.leb_gt in H1.
    destruct (arrival <? n + Z.max 0 (W - (n - l))) eqn:H2.
    { destruct evs as [| [a e] r]; cbn; lia. }
    destruct (arrival =? n + Z.max 0 (W - (n - l))) eqn:H3.
    + destruct ties as [| [|] ties']; try (destruct evs as [| [a e] r]); cbn; lia.
    + cbn; lia.
Qed.

(* without a ticket the wait never lasts beyond last + W, and a timeout is exactly there *)
Lemma wait_deadline : forall l n evs tc ties,
  l <= n -> n <= l + W ->
  let w := wait_step false l n evs tc ties in
  wait_time w <= l + W /\ (forall t ties', w = WIdle t ties' -> t = l + W).
Proof.
  intros l n evs tc ties Hl Hn. unfold wait_step.
  set (arrival := match evs with [] => tc | (a, _) :: _ => a end).
  assert (Hd : n + Z.max 0 (W - (n - l)) = l + W) by lia. rewrite Hd.
  destruct (arrival <=? n) eqn:H1.
  { destruct evs as [| [a e] r]; cbn; split; try lia; intros; discriminate. }
  destruct (arrival <? l + W) eqn:H2.
  { apply Z.ltb_lt in H2. destruct evs as [| [a e] r]; cbn; split; try lia; intros; discriminate. }
  destruct (arrival =? l + W) eqn:H3.
  - destruct ties as [| [|] ties']; try (destruct evs as [| [a e] r]); cbn; split; try lia;
      intros t0 ties0 H; try discriminate; inversion H; reflexivity.
  - cbn; split; [lia |]. intros t0 ties0 H; inversion H; reflexivity.
Qed.

(* with a ticket the loop waits for a message without timeout *)
Lemma wait_ticket_no_idle : forall l n evs tc ties t ties',
  wait_step true l n evs tc ties <> WIdle t ties'.
Proof. intros; unfold wait_step; destruct evs as [| [a e] r]; cbn; discriminate. Qed.

(* ---------- pace ---------- *)

Lemma paced_app_single : forall lastf e r, paced lastf ([e] ++ r) = paced lastf (e :: r).
Proof. reflexivity. Qed.

Definition InvP {S} (st : lstate S) (lastf : option Z) : Prop :=
  match lastf with
  | None => True
  | Some l => last st = l /\ (has_ticket st = true -> l + W <= now st)
  end.

Lemma loop_paced : forall S (P : spawner S) fuel st evs tc ties lastf,
  InvP st lastf -> paced lastf (loop P fuel st evs tc ties).
Proof.
  intros S P fuel; induction fuel as [| fuel IH]; intros st evs tc ties lastf HI; cbn [loop].
  - cbn; auto.
  - unfold attempt_step.
    destruct ((has_ticket st || (W <=? now st - last st)) && negb (sp_complete P (sp st))) eqn:Hatt.
    + (* an attempt is made now *)
      apply andb_true_iff in Hatt. destruct Hatt as [Hht _].
      assert (Hstart : match lastf with Some l => l + W <= now st | None => True end).
      { destruct lastf as [l |]; auto. destruct HI as [Hl Ht]. apply orb_true_iff in Hht.
        destruct Hht as [Hht | Hht]; [auto | apply Z.leb_le in Hht; lia]. }
      cbn [fst snd].
      set (r := sp_try P (sp st)). set (f := now st + Z.max 0 (snd (fst r))).
      assert (Hf : now st <= f) by (unfold f; lia).
      destruct (snd r) as [i |] eqn:Hr.
      * cbn [has_ticket last now sp].
        pose proof (wait_ge false f f evs tc ties) as Hw.
        destruct (wait_step false f f evs tc ties) as [t | t e evs' ties' | t ties'] eqn:Hws; cbn [wait_time] in Hw.
        -- cbn. auto.
        -- cbn [app paced]. split; [exact Hstart |]. split; [exact Hf |].
           apply IH. cbn. split; auto. intros; discriminate.
        -- cbn [app paced]. split; [exact Hstart |]. split; [exact Hf |].
           apply IH. cbn. split; auto. intros; discriminate.
      * cbn. auto.
    + (* no attempt *)
      cbn [fst snd has_ticket last now sp].
      set (ht := has_ticket st || (W <=? now st - last st)).
      pose proof (wait_ge ht (last st) (now st) evs tc ties) as Hw.
      assert (HI' : forall t (s' : S), now st <= t -> InvP (mklstate ht (last st) t s') lastf).
      { intros t s' Ht. destruct lastf as [l |]; cbn; auto. destruct HI as [Hl Hk]. split; auto.
        intros Hh. unfold ht in Hh. apply orb_true_iff in Hh. destruct Hh as [Hh | Hh].
        - specialize (Hk Hh). lia.
        - apply Z.leb_le in Hh. lia. }
      destruct (wait_step ht (last st) (now st) evs tc ties) as [t | t e evs' ties' | t ties']; cbn [wait_time] in Hw.
      * cbn. auto.
      * cbn [app paced]. apply IH. apply HI'; auto.
      * cbn [app paced]. apply IH. apply HI'; auto.
Qed.

Theorem task_paced : forall S (P : spawner S) fuel t0 s evs tc ties,
  paced None (task P fuel t0 s evs tc ties).
Proof. intros. unfold task. apply loop_paced. cbn. exact I. Qed.

(* from [paced] to a statement about any two attempts of a log *)
Lemma paced_later : forall log l t f i, paced (Some l) log -> In (Try t f i) log -> l + W <= t.
Proof.
  pose proof W_pos as HW.
  intros log; induction log as [| e r IH]; intros l t f i Hp Hin; [destruct Hin |].
  destruct Hin as [-> | Hin].
  - cbn in Hp. tauto.
  - destruct e as [t1 f1 i1 | | | |]; cbn in Hp; try (eapply IH; eauto; fail).
    destruct Hp as (H1 & H2 & H3). specialize (IH _ _ _ _ H3 Hin). lia.
Qed.

Lemma paced_weaken : forall log l, paced (Some l) log -> paced None log.
Proof.
  intros log; induction log as [| e r IH]; intros l Hp; cbn; auto.
  destruct e; cbn in *; try (eapply IH; eauto; fail). tauto.
Qed.

Lemma paced_pairs : forall log lastf pre t1 f1 i1 mid t2 f2 i2 post,
  paced lastf log -> log = pre ++ Try t1 f1 i1 :: mid ++ Try t2 f2 i2 :: post ->
  t1 <= f1 /\ f1 + W <= t2.
Proof.
  intros log lastf pre; revert log lastf; induction pre as [| e pre IH];
    intros log lastf t1 f1 i1 mid t2 f2 i2 post Hp ->.
  - cbn in Hp. destruct Hp as (_ & Hle & Hp). split; auto.
    eapply paced_later; [exact Hp |]. apply in_or_app; right; left; reflexivity.
  - cbn [app] in Hp. destruct e as [t f i | | | |]; cbn in Hp;
      try (eapply IH; [exact Hp | reflexivity]; fail).
    destruct Hp as (_ & _ & Hp). eapply IH; [exact Hp | reflexivity].
Qed.

Theorem task_pace : forall S (P : spawner S) fuel t0 s evs tc ties pre t1 f1 i1 mid t2 f2 i2 post,
  task P fuel t0 s evs tc ties = pre ++ Try t1 f1 i1 :: mid ++ Try t2 f2 i2 :: post ->
  f1 + W <= t2 /\ t1 + W <= t2.
Proof.
  intros. pose proof (task_paced S P fuel t0 s evs tc ties) as Hp.
  pose proof (paced_pairs _ _ _ _ _ _ _ _ _ _ _ Hp H) as [H1 H2]. lia.
Qed.

(* ---------- keeps trying ---------- *)

Definition never_complete {S} (P : spawner S) : Prop := forall s, sp_complete P s = false.

Lemma loop_nonempty_head : forall S (P : spawner S) fuel st evs tc ties,
  never_complete P -> W <= now st - last st \/ has_ticket st = true ->
  match loop P fuel st evs tc ties with Try t _ _ :: _ => t = now st | [OutOfFuel] => True | _ => False end.
Proof.
  intros S P fuel st evs tc ties HN Ht. destruct fuel as [| fuel]; cbn [loop]; auto.
  unfold attempt_step.
  assert (Hh : (has_ticket st || (W <=? now st - last st)) && negb (sp_complete P (sp st)) = true).
  { rewrite HN. cbn [negb]. rewrite andb_true_r.
    apply orb_true_iff. destruct Ht as [Ht | Ht]; [right; apply Z.leb_le; auto | left; auto]. }
  destruct ((has_ticket st || (W <=? now st - last st)) && negb (sp_complete P (sp st))); [| discriminate].
  cbn [fst snd].
  destruct (snd (sp_try P (sp st))); [| reflexivity].
  destruct (wait_step _ _ _ evs tc ties); reflexivity.
Qed.

(* state at the top of the loop, once an attempt has been made: no ticket, and not past the deadline *)
Lemma loop_periodic : forall S (P : spawner S) fuel st evs tc ties t0 l,
  never_complete P ->
  has_ticket st = false -> last st = l -> l <= now st -> now st <= l + W ->
  periodic t0 (Some l) (loop P fuel st evs tc ties).
Proof.
  pose proof W_pos as HW.
  intros S P fuel; induction fuel as [| fuel IH]; intros st evs tc ties t0 l HN Hht Hl Hlo Hhi; cbn [loop].
  - cbn. auto.
  - unfold attempt_step.
    assert (Hc : sp_complete P (sp st) = false) by apply HN.
    destruct ((has_ticket st || (W <=? now st - last st)) && negb (sp_complete P (sp st))) eqn:Hel;
      rewrite Hht, Hc in Hel; cbn [negb orb] in Hel; rewrite andb_true_r in Hel.
    + (* the deadline is reached: attempt at l + W *)
      apply Z.leb_le in Hel. assert (Hnow : now st = l + W) by lia.
      cbn [fst snd].
      set (r := sp_try P (sp st)). set (f := now st + Z.max 0 (snd (fst r))).
      assert (Hf : now st <= f) by (unfold f; lia).
      destruct (snd r) as [i |] eqn:Hr.
      * cbn [has_ticket last now sp].
        pose proof (wait_deadline f f evs tc ties (Z.le_refl f) ltac:(lia)) as Hwd. cbn zeta in Hwd.
        pose proof (wait_ge false f f evs tc ties) as Hw.
        destruct (wait_step false f f evs tc ties) as [t | t e evs' ties' | t ties'] eqn:Hws;
          cbn [wait_time] in Hw; destruct Hwd as [Hle Hidle]; cbn [wait_time] in Hle.
        -- cbn [app periodic]. repeat split; auto; lia.
        -- cbn [app periodic]. split; [exact Hnow |]. split; [exact Hf |].
           split; [exact Hle |]. apply IH; auto.
        -- specialize (Hidle t ties' eq_refl). subst t.
           cbn [app periodic]. split; [exact Hnow |]. split; [exact Hf |].
           split; [reflexivity |]. split.
           ++ pose proof (loop_nonempty_head S P fuel (mklstate false f (f + W) (fst (fst r))) evs tc ties' HN) as Hh.
              cbn [now last has_ticket] in Hh. specialize (Hh ltac:(left; lia)).
              destruct (loop P fuel (mklstate false f (f + W) (fst (fst r))) evs tc ties') as [| [ | | | |] q]; auto.
           ++ apply IH; auto; cbn; lia.
      * cbn. repeat split; auto.
    + (* before the deadline: wait on *)
      apply Z.leb_gt in Hel. cbn [fst snd has_ticket last now sp].
      rewrite Hl in *.
      assert (Hno : (W <=? now st - l) = false) by (apply Z.leb_gt; lia).
      rewrite Hht, Hno. cbn [orb].
      pose proof (wait_deadline l (now st) evs tc ties Hlo Hhi) as Hwd. cbn zeta in Hwd.
      pose proof (wait_ge false l (now st) evs tc ties) as Hw.
      destruct (wait_step false l (now st) evs tc ties) as [t | t e evs' ties' | t ties'] eqn:Hws;
        cbn [wait_time] in Hw; destruct Hwd as [Hle Hidle]; cbn [wait_time] in Hle.
      * cbn. auto.
      * cbn [app periodic]. split; [exact Hle |]. apply IH; auto; cbn; lia.
      * specialize (Hidle t ties' eq_refl). subst t.
        cbn [app periodic]. split; [reflexivity |]. split.
        -- pose proof (loop_nonempty_head S P fuel (mklstate false l (l + W) (sp st)) evs tc ties' HN) as Hh.
           cbn [now last has_ticket] in Hh. specialize (Hh ltac:(left; lia)).
           destruct (loop P fuel (mklstate false l (l + W) (sp st)) evs tc ties') as [| [ | | | |] q]; auto.
        -- apply IH; auto; cbn; lia.
Qed.

Theorem task_periodic : forall S (P : spawner S) fuel t0 s evs tc ties,
  never_complete P -> periodic t0 None (task P fuel t0 s evs tc ties).
Proof.
  pose proof W_pos as HW.
  intros S P fuel t0 s evs tc ties HN. unfold task, init.
  destruct fuel as [| fuel]; cbn [loop]; [cbn; auto |].
  unfold attempt_step. cbn [has_ticket now last sp orb].
  assert (Hc : sp_complete P s = false) by apply HN.
  destruct (true && negb (sp_complete P s)) eqn:Hatt; [| rewrite Hc in Hatt; discriminate].
  cbn [fst snd].
  set (r := sp_try P s). set (f := t0 + Z.max 0 (snd (fst r))).
  assert (Hf : t0 <= f) by (unfold f; lia).
  destruct (snd r) as [i |] eqn:Hr.
  - cbn [has_ticket last now sp].
    pose proof (wait_deadline f f evs tc ties (Z.le_refl f) ltac:(lia)) as Hwd. cbn zeta in Hwd.
    pose proof (wait_ge false f f evs tc ties) as Hw.
    destruct (wait_step false f f evs tc ties) as [t | t e evs' ties' | t ties'] eqn:Hws;
      cbn [wait_time] in Hw; destruct Hwd as [Hle Hidle]; cbn [wait_time] in Hle.
    + cbn. repeat split; auto.
    + cbn [app periodic]. split; [reflexivity |]. split; [exact Hf |]. split; [exact Hle |].
      apply loop_periodic; auto.
    + specialize (Hidle t ties' eq_refl). subst t.
      cbn [app periodic]. split; [reflexivity |]. split; [exact Hf |]. split; [reflexivity |]. split.
      * pose proof (loop_nonempty_head S P fuel (mklstate false f (f + W) (fst (fst r))) evs tc ties' HN) as Hh.
        cbn [now last has_ticket] in Hh. specialize (Hh ltac:(left; lia)).
        destruct (loop P fuel (mklstate false f (f + W) (fst (fst r))) evs tc ties') as [| [ | | | |] q]; auto.
      * apply loop_periodic; auto; cbn; lia.
  - cbn. repeat split; auto.
Qed.

(* ---------- keeps trying, any spawner (alternating between complete and incomplete too) ---------- *)

(* the second half of an iteration and everything after it *)
Definition tail {S} (P : spawner S) (fuel : nat) (st1 : lstate S) (evs : list (Z * sysev)) (tc : Z)
  (ties : list bool) : list entry :=
  match wait_step (has_ticket st1) (last st1) (now st1) evs tc ties with
  | WClosed t => [Closed t]
  | WEvent t e evs' ties' =>
      Handled t e :: loop P fuel (mklstate (has_ticket st1) (last st1) t (handle P (sp st1) e)) evs' tc ties'
  | WIdle t ties' => IdleAt t :: loop P fuel (mklstate (has_ticket st1) (last st1) t (sp st1)) evs tc ties'
  end.

Lemma loop_S : forall S (P : spawner S) fuel st evs tc ties,
  loop P (Datatypes.S fuel) st evs tc ties =
  if snd (attempt_step P st) then fst (fst (attempt_step P st))
  else fst (fst (attempt_step P st)) ++ tail P fuel (snd (fst (attempt_step P st))) evs tc ties.
Proof.
  intros. cbn [loop]. destruct (snd (attempt_step P st)); [reflexivity |].
  unfold tail. destruct (wait_step _ _ _ evs tc ties); reflexivity.
Qed.

(* top of the loop: the loop's variables against the ghost values of [keeps] *)
Definition InvK {S} (st : lstate S) (lastf : option Z) : Prop :=
  match lastf with
  | None => has_ticket st = true
  | Some l => last st = l /\ l <= now st /\ (has_ticket st = true -> l + W <= now st)
  end.
(* at the wait: has_ticket is exactly "an attempt is due" *)
Definition InvW {S} (st : lstate S) (lastf : option Z) : Prop :=
  has_ticket st = due lastf (now st)
  /\ match lastf with None => True | Some l => last st = l /\ l <= now st end.

Lemma InvW_next : forall S (st : lstate S) lastf t (s' : S),
  InvW st lastf -> now st <= t -> InvK (mklstate (has_ticket st) (last st) t s') lastf.
Proof.
  intros S st lastf t s' [Hh Hl] Ht. destruct lastf as [l |]; cbn in *.
  - destruct Hl as [Hl Hle]. repeat split; auto; try lia.
    intros H. rewrite H in Hh. symmetry in Hh. apply Z.leb_le in Hh. lia.
  - exact Hh.
Qed.

Lemma due_false : forall lastf cur, due lastf cur = false -> exists l, lastf = Some l /\ cur < l + W.
Proof.
  intros [l |] cur H; cbn in H; [| discriminate]. exists l. split; auto. apply Z.leb_gt in H. lia.
Qed.

Lemma wait_keeps : forall S (P : spawner S) fuel,
  (forall st evs tc ties lastf, InvK st lastf -> keeps P (sp st) lastf (now st) (loop P fuel st evs tc ties)) ->
  forall (st : lstate S) evs tc ties lastf,
  InvW st lastf -> (sp_complete P (sp st) = false -> due lastf (now st) = false) ->
  keeps P (sp st) lastf (now st) (tail P fuel st evs tc ties).
Proof.
  intros S P fuel IH st evs tc ties lastf HW Hc.
  pose proof (wait_ge (has_ticket st) (last st) (now st) evs tc ties) as Hge.
  assert (Hbd : forall l, lastf = Some l -> now st < l + W ->
            has_ticket st = false /\ last st = l
            /\ wait_time (wait_step false l (now st) evs tc ties) <= l + W
            /\ (forall t ties', wait_step false l (now st) evs tc ties = WIdle t ties' -> t = l + W)).
  { intros l -> Hlt. destruct HW as [Hh [Hl Hle]]. cbn in Hh. split.
    { rewrite Hh. apply Z.leb_gt. lia. }
    split; [exact Hl |]. apply wait_deadline; lia. }
  assert (Hby : forall t, wait_time (wait_step (has_ticket st) (last st) (now st) evs tc ties) = t ->
                          by_deadline lastf (now st) t).
  { intros t Ht. unfold by_deadline. destruct lastf as [l |]; auto. intros Hlt.
    destruct (Hbd l eq_refl Hlt) as (Hf & Hl & Hle & _). rewrite Hf, Hl in Ht. lia. }
  unfold tail.
  destruct (wait_step (has_ticket st) (last st) (now st) evs tc ties) as [t | t e evs' ties' | t ties'] eqn:Hws;
    cbn [wait_time] in Hge; cbn [keeps].
  - repeat split; auto.
  - split; [exact Hc |]. split; [exact Hge |]. split; [apply Hby; reflexivity |].
    match goal with |- keeps _ _ _ _ (loop _ _ ?s _ _ _) => apply (IH s) end.
    apply InvW_next; auto.
  - assert (Hl : exists l, lastf = Some l /\ now st < l + W).
    { destruct (has_ticket st) eqn:Hht.
      - exfalso. eapply wait_ticket_no_idle; exact Hws.
      - apply due_false. destruct HW as [Hh _]. rewrite <- Hh. exact Hht. }
    destruct Hl as (l & -> & Hlt).
    destruct (Hbd l eq_refl Hlt) as (Hf & Hl & _ & Hidle). rewrite Hf, Hl in Hws.
    specialize (Hidle _ _ Hws). split; [split; assumption |].
    match goal with |- keeps _ _ _ _ (loop _ _ ?s _ _ _) => apply (IH s) end.
    apply InvW_next; auto.
Qed.

Lemma loop_keeps : forall S (P : spawner S) fuel st evs tc ties lastf,
  InvK st lastf -> keeps P (sp st) lastf (now st) (loop P fuel st evs tc ties).
Proof.
  pose proof W_pos as HWp.
  intros S P fuel; induction fuel as [| fuel IH]; intros st evs tc ties lastf HI.
  - reflexivity.
  - rewrite loop_S.
    assert (Hdue : has_ticket st || (W <=? now st - last st) = due lastf (now st)).
    { destruct lastf as [l |]; cbn in HI |- *.
      - destruct HI as (Hl & Hle & Hk). subst l. destruct (has_ticket st); cbn [orb].
        + symmetry. apply Z.leb_le. auto.
        + destruct (Z.leb_spec W (now st - last st)), (Z.leb_spec (last st + W) (now st)); auto; lia.
      - rewrite HI. reflexivity. }
    unfold attempt_step. rewrite Hdue.
    destruct (due lastf (now st) && negb (sp_complete P (sp st))) eqn:Hatt.
    + apply andb_true_iff in Hatt. destruct Hatt as [Hd Hc]. apply negb_true_iff in Hc.
      destruct (sp_try P (sp st)) as [[s' d] i] eqn:Htry. cbn [fst snd].
      assert (Hf : now st <= now st + Z.max 0 d) by lia.
      destruct i as [i |]; cbn [app keeps]; rewrite Htry; cbn [fst snd].
      * repeat (split; [solve [auto] |]).
        apply (wait_keeps S P fuel IH (mklstate false (now st + Z.max 0 d) (now st + Z.max 0 d) s')).
        -- split; cbn; [| lia]. symmetry. apply Z.leb_gt. lia.
        -- intros _. cbn. apply Z.leb_gt. lia.
      * repeat (split; [solve [auto] |]). reflexivity.
    + cbn [fst snd app].
      apply (wait_keeps S P fuel IH (mklstate (due lastf (now st)) (last st) (now st) (sp st))).
      * split; cbn; [reflexivity |]. destruct lastf as [l |]; auto. cbn in HI. tauto.
      * cbn. intros Hc. rewrite Hc in Hatt. cbn [negb] in Hatt. rewrite andb_true_r in Hatt. exact Hatt.
Qed.

Theorem task_keeps : forall S (P : spawner S) fuel t0 s evs tc ties,
  keeps P s None t0 (task P fuel t0 s evs tc ties).
Proof. intros. unfold task. apply (loop_keeps S P fuel (init t0 s)). reflexivity. Qed.

(* [keeps] holds again, for the ghost values after the prefix, at every point of the log *)
Lemma keeps_suffix : forall S (P : spawner S) pre s lastf cur rest s' l' c',
  rest <> [] -> keeps P s lastf cur (pre ++ rest) -> replay P s lastf cur pre = (s', l', c') ->
  keeps P s' l' c' rest.
Proof.
  intros S P pre; induction pre as [| e pre IH]; intros s lastf cur rest s' l' c' Hne Hk Hr.
  - cbn in Hr. inversion Hr; subst. exact Hk.
  - assert (Hnil : pre ++ rest <> []) by (intros H; apply app_eq_nil in H; tauto).
    destruct e as [t f i | t e | t | t |]; cbn [app keeps replay] in Hk, Hr.
    + destruct Hk as (_ & _ & _ & _ & _ & Hk). destruct i; [eapply IH; eauto | contradiction].
    + destruct Hk as (_ & _ & _ & Hk). eapply IH; eauto.
    + destruct Hk as (_ & Hk). eapply IH; eauto.
    + destruct Hk as (_ & _ & _ & Hk). contradiction.
    + contradiction.
Qed.

(* what comes next at any point of a run at which the spawner is incomplete *)
Theorem task_keeps_next : forall S (P : spawner S) fuel t0 s evs tc ties pre x rest s' lastf cur,
  task P fuel t0 s evs tc ties = pre ++ x :: rest ->
  replay P s None t0 pre = (s', lastf, cur) -> sp_complete P s' = false ->
  match x with
  | Try t _ _ => t = cur /\ due lastf cur = true
  | Handled t _ | Closed t => exists l, lastf = Some l /\ cur < l + W /\ cur <= t <= l + W
  | IdleAt t => exists l, lastf = Some l /\ cur < l + W /\ t = l + W
  | OutOfFuel => rest = []
  end.
Proof.
  intros S P fuel t0 s evs tc ties pre x rest s' lastf cur Hlog Hr Hc.
  pose proof (task_keeps S P fuel t0 s evs tc ties) as Hk. rewrite Hlog in Hk.
  apply (keeps_suffix S P pre s None t0 (x :: rest) s' lastf cur ltac:(discriminate)) in Hk; [| exact Hr].
  destruct x as [t f i | t e | t | t |]; cbn [keeps] in Hk.
  - tauto.
  - destruct Hk as (Hnd & Hle & Hby & _). destruct (due_false _ _ (Hnd Hc)) as (l & -> & Hlt).
    exists l. cbn in Hby. repeat split; auto.
  - destruct Hk as (Hl & _). destruct lastf as [l |]; [| contradiction]. exists l. tauto.
  - destruct Hk as (Hnd & Hle & Hby & _). destruct (due_false _ _ (Hnd Hc)) as (l & -> & Hlt).
    exists l. cbn in Hby. repeat split; auto.
  - exact Hk.
Qed.

(* the instant of the next attempt: if the spawner is incomplete from some point of the run on
   until the next attempt, that attempt starts exactly at the later of that point and the
   deadline (previous return + W); whatever the loop does in between is not later *)
Definition not_after (t : Z) (e : entry) : Prop :=
  match entry_time e with Some u => u <= t | None => True end.

Lemma keeps_waiting_try : forall S (P : spawner S) mid s lastf cur t f i post,
  keeps P s lastf cur (mid ++ Try t f i :: post) -> waiting P s mid ->
  t = deadline lastf cur /\ Forall (not_after t) mid.
Proof.
  intros S P mid; induction mid as [| e mid IH]; intros s lastf cur t f i post Hk Hw.
  - cbn in Hk. destruct Hk as (_ & Hd & -> & _). split; [| constructor].
    destruct lastf as [l |]; cbn in *; auto. apply Z.leb_le in Hd. lia.
  - destruct Hw as [Hc Hw].
    destruct e as [t1 f1 i1 | u e | u | u |]; try contradiction; cbn [app keeps] in Hk.
    + destruct Hk as (Hnd & Hle & Hby & Hk). destruct (due_false _ _ (Hnd Hc)) as (l & -> & Hlt).
      cbn in Hby. specialize (Hby Hlt).
      destruct (IH _ _ _ _ _ _ _ Hk Hw) as [Ht Hall]. cbn in Ht |- *.
      split; [lia |]. constructor; [unfold not_after; cbn; lia | exact Hall].
    + destruct Hk as (Hl & Hk). destruct lastf as [l |]; [| contradiction]. destruct Hl as [Hlt ->].
      destruct (IH _ _ _ _ _ _ _ Hk Hw) as [Ht Hall]. cbn in Ht |- *.
      split; [lia |]. constructor; [unfold not_after; cbn; lia | exact Hall].
Qed.

Theorem task_next_attempt : forall S (P : spawner S) fuel t0 s evs tc ties pre mid t f i post s' lastf cur,
  task P fuel t0 s evs tc ties = pre ++ mid ++ Try t f i :: post ->
  replay P s None t0 pre = (s', lastf, cur) -> waiting P s' mid ->
  t = deadline lastf cur /\ Forall (not_after t) mid.
Proof.
  intros S P fuel t0 s evs tc ties pre mid t f i post s' lastf cur Hlog Hr Hw.
  pose proof (task_keeps S P fuel t0 s evs tc ties) as Hk. rewrite Hlog in Hk.
  apply (keeps_suffix S P pre s None t0 _ s' lastf cur) in Hk; [| destruct mid; discriminate | exact Hr].
  eapply keeps_waiting_try; eauto.
Qed.

(* the general local facts behind it, for every spawner: at the top of the loop an incomplete
   spawner is tried at once when a wait period has passed since the last attempt returned (or a
   ticket is held), and a wait without ticket ends at the deadline at the latest *)
Theorem attempt_when_due : forall S (P : spawner S) (st : lstate S),
  sp_complete P (sp st) = false -> (has_ticket st = true \/ last st + W <= now st) ->
  exists f i st1 failed, attempt_step P st = ([Try (now st) f i], st1, failed)
                         /\ has_ticket st1 = false /\ last st1 = f /\ now st1 = f /\ now st <= f.
Proof.
  intros S P st Hc Hd. unfold attempt_step. rewrite Hc. cbn [negb]. rewrite andb_true_r.
  assert (Hh : has_ticket st || (W <=? now st - last st) = true).
  { apply orb_true_iff. destruct Hd as [Hd | Hd]; [left; auto | right; apply Z.leb_le; lia]. }
  rewrite Hh. do 4 eexists. split; [reflexivity |]. cbn. repeat split; lia.
Qed.

Theorem no_attempt_otherwise : forall S (P : spawner S) (st : lstate S),
  sp_complete P (sp st) = true \/ (has_ticket st = false /\ now st < last st + W) ->
  fst (fst (attempt_step P st)) = [].
Proof.
  intros S P st H. unfold attempt_step. destruct H as [H | [H1 H2]].
  - rewrite H. cbn [negb]. rewrite andb_false_r. reflexivity.
  - rewrite H1. cbn [orb]. assert (Hl : (W <=? now st - last st) = false) by (apply Z.leb_gt; lia).
    rewrite Hl. reflexivity.
Qed.

(* ---------- the standard spawner ---------- *)

Lemma loop_std_ok : forall dns fuel st evs tc ties armed,
  (armed = false -> has_spawned (sp st) = true) ->
  std_ok armed (loop (Std dns) fuel st evs tc ties).
Proof.
  intros dns fuel; induction fuel as [| fuel IH]; intros st evs tc ties armed HI; cbn [loop].
  - cbn; auto.
  - unfold attempt_step. cbn [sp_complete Std].
    destruct ((has_ticket st || (W <=? now st - last st)) && negb (has_spawned (sp st))) eqn:Hatt.
    + apply andb_true_iff in Hatt. destruct Hatt as [_ Hns]. apply negb_true_iff in Hns.
      assert (Harm : armed = true) by (destruct armed; auto; specialize (HI eq_refl); congruence).
      cbn [fst snd sp_try Std].
      assert (Hinfo : exists i, snd (std_try dns (sp st)) = Some i
                /\ (spawned_info (Some i) = true -> has_spawned (fst (fst (std_try dns (sp st)))) = true)).
      { unfold std_try. destruct (resolved (sp st)); [eexists; split; [reflexivity | auto] |].
        destruct (dns (nres (sp st))); eexists; (split; [reflexivity |]); cbn; auto. discriminate. }
      destruct Hinfo as [i [Hi Hsp]]. rewrite Hi. cbn [has_ticket last now sp].
      assert (HI2 : (if spawned_info (Some i) then false else armed) = false ->
                    has_spawned (fst (fst (std_try dns (sp st)))) = true).
      { destruct (spawned_info (Some i)); [auto | rewrite Harm; discriminate]. }
      destruct (wait_step _ _ _ evs tc ties) as [t | t e evs' ties' | t ties'].
      * cbn [app std_ok]. auto.
      * cbn [app std_ok]. split; [exact Harm |].
        destruct e as [| [| |] |]; cbn [std_ok]; apply IH; cbn [sp handle Std sp_removed sp_registered std_removed has_spawned];
          auto; discriminate.
      * cbn [app std_ok]. split; [exact Harm |]. apply IH. cbn [sp]. exact HI2.
    + cbn [fst snd has_ticket last now sp].
      destruct (wait_step _ _ _ evs tc ties) as [t | t e evs' ties' | t ties'].
      * cbn. auto.
      * cbn [app]. destruct e as [| [| |] |]; cbn [std_ok]; apply IH; cbn; auto; try discriminate.
      * cbn [app std_ok]. apply IH. cbn. auto.
Qed.

Theorem task_std_ok : forall dns fuel t0 evs tc ties,
  std_ok true (task (Std dns) fuel t0 std0 evs tc ties).
Proof. intros. unfold task. apply loop_std_ok. discriminate. Qed.

Lemma loop_reresolves : forall dns fuel st evs tc ties,
  reresolves (resolved (sp st)) (loop (Std dns) fuel st evs tc ties).
Proof.
  intros dns fuel; induction fuel as [| fuel IH]; intros st evs tc ties; cbn [loop].
  - cbn; auto.
  - unfold attempt_step. cbn [sp_complete Std].
    destruct ((has_ticket st || (W <=? now st - last st)) && negb (has_spawned (sp st))) eqn:Hatt.
    + cbn [fst snd sp_try Std]. unfold std_try.
      destruct (resolved (sp st)) as [a |] eqn:Hres.
      * cbn [fst snd has_ticket last now sp].
        destruct (wait_step _ _ _ evs tc ties) as [t | t e evs' ties' | t ties'].
        -- cbn. auto.
        -- cbn [app reresolves]. split; [auto |].
           destruct e as [| [| |] |]; cbn [reresolves];
             match goal with |- reresolves ?c (loop _ _ ?s _ _ _) => apply (IH s) end.
        -- cbn [app reresolves]. split; [auto |].
           match goal with |- reresolves ?c (loop _ _ ?s _ _ _) => apply (IH s) end.
      * destruct (dns (nres (sp st))) as [a |]; cbn [fst snd has_ticket last now sp].
        -- destruct (wait_step _ _ _ evs tc ties) as [t | t e evs' ties' | t ties'].
           ++ cbn. auto.
           ++ cbn [app reresolves]. split; [auto |].
              destruct e as [| [| |] |]; cbn [reresolves];
                match goal with |- reresolves ?c (loop _ _ ?s _ _ _) => apply (IH s) end.
           ++ cbn [app reresolves]. split; [auto |].
              match goal with |- reresolves ?c (loop _ _ ?s _ _ _) => apply (IH s) end.
        -- destruct (wait_step _ _ _ evs tc ties) as [t | t e evs' ties' | t ties'].
           ++ cbn. auto.
           ++ cbn [app reresolves]. split; [auto |].
              destruct e as [| [| |] |]; cbn [reresolves];
                match goal with |- reresolves ?c (loop _ _ ?s _ _ _) => apply (IH s) end.
           ++ cbn [app reresolves]. split; [auto |].
              match goal with |- reresolves ?c (loop _ _ ?s _ _ _) => apply (IH s) end.
    + cbn [fst snd has_ticket last now sp].
      destruct (wait_step _ _ _ evs tc ties) as [t | t e evs' ties' | t ties'].
      * cbn. auto.
      * cbn [app]. destruct e as [| [| |] |]; cbn [reresolves];
          match goal with |- reresolves ?c (loop _ _ ?s _ _ _) => apply (IH s) end.
      * cbn [app reresolves].
        match goal with |- reresolves ?c (loop _ _ ?s _ _ _) => apply (IH s) end.
Qed.

Theorem task_reresolves : forall dns fuel t0 evs tc ties,
  reresolves None (task (Std dns) fuel t0 std0 evs tc ties).
Proof. intros. unfold task. apply (loop_reresolves dns fuel (init t0 std0)). Qed.

(* readable consequences on the state machine of the standard spawner alone *)
Theorem std_demobilized_stays_complete : forall s,
  has_spawned (std_removed s RDemobilized) = has_spawned s
  /\ resolved (std_removed s RDemobilized) = resolved s.
Proof. intros s; split; reflexivity. Qed.

Theorem std_unreachable_forgets : forall s,
  resolved (std_removed s RUnreachable) = None /\ has_spawned (std_removed s RUnreachable) = false.
Proof. intros s; split; reflexivity. Qed.

Theorem std_network_issue_keeps_address : forall s,
  resolved (std_removed s RNetworkIssue) = resolved s /\ has_spawned (std_removed s RNetworkIssue) = false.
Proof. intros s; split; reflexivity. Qed.

(* the NTS spawner does respawn after a Demobilized removal *)
Theorem nts_respawns_after_demobilized : forall ke s,
  sp_complete (Nts ke) (sp_removed (Nts ke) s RDemobilized) = false.
Proof. reflexivity. Qed.
