(* Proofs about Model/PtpController.v: the frequency query, the clamp of every frequency
   handed to a clock, and the absorption of every steering action into the filter. *)
From V Require Import Model.PtpController Proofs.Estimator Proofs.EstimatorAbsorb Proofs.F64Clamp.

Definition qo (f : filter) (id : Z) : res (float * float) := f_clock_offset f id.
Definition qf (f : filter) (id : Z) : res (float * float) := f_clock_frequency f id.

(* ------------------------------------------------------------ the queries *)
Lemma ctl_clock_frequency_spec (c : ctl) id ci :
  WF (f_est (c_filter c)) -> get_clock_info (f_est (c_filter c)) id = Some ci ->
  ctl_clock_frequency c id =
    Ok (mget FO (e_state (f_est (c_filter c))) (ci_base ci + 1) 0,
        sqrt (mget FO (e_unc (f_est (c_filter c))) (ci_base ci + 1) (ci_base ci + 1))) /\
  ctl_clock_offset c id =
    Ok (mget FO (e_state (f_est (c_filter c))) (ci_base ci) 0,
        sqrt (mget FO (e_unc (f_est (c_filter c))) (ci_base ci) (ci_base ci))).
Proof.
  intros W H. unfold ctl_clock_frequency, ctl_clock_offset, f_clock_frequency, f_clock_offset,
    clock_frequency, clock_offset. rewrite H.
  destruct (get_clock_info_some _ _ _ H) as [Hin _]. pose proof (wf_cb _ W ci Hin).
  unfold frequency_index, offset_index. rewrite !(entry_ok FO _ _ W) by lia. split; reflexivity.
Qed.

Lemma ctl_clock_frequency_unknown (c : ctl) id :
  get_clock_info (f_est (c_filter c)) id = None -> ctl_clock_frequency c id = Err E_UnknownClock.
Proof.
  intros H. unfold ctl_clock_frequency, f_clock_frequency, clock_frequency. now rewrite H.
Qed.

(* ------------------------------------------------- effect of one absorbed change *)
Definition effect_q (chg : change) (o f o' f' : res (float * float)) : Prop :=
  match chg with
  | FreqChange ch => bumped FO ch f f' /\ o' = o
  | OffsetChange ch => bumped FO ch o o' /\ f' = f
  | SystemStep d => bumped FO (duration_as_seconds d) o o' /\ f' = f
  end.
Definition effect (chg : change) (id : Z) (flt flt' : filter) : Prop :=
  effect_q chg (qo flt id) (qf flt id) (qo flt' id) (qf flt' id).

Lemma apply_change_spec id chg flt flt' : WF (f_est flt) -> apply_change id chg flt = Ok flt' ->
  WF (f_est flt') /\ f_links flt' = f_links flt /\
  effect chg id flt flt' /\
  (forall id', id' <> id -> qo flt' id' = qo flt id' /\ qf flt' id' = qf flt id').
Proof.
  intros W H. unfold apply_change, f_absorb_frequency_steer, f_absorb_offset_change, f_absorb_system,
    on_est, res_bind in H.
  unfold effect, effect_q, qo, qf, f_clock_offset, f_clock_frequency.
  destruct chg as [ch|ch|d].
  - destruct (absorb_frequency_steer FO id ch (f_est flt)) as [e| |] eqn:E; try discriminate.
    inversion H; subst flt'. cbn [with_est f_est f_links].
    destruct (absorb_frequency_shape FO _ _ _ _ E) as (c & s & Hc & Hb & He).
    destruct (absorb_at FO _ _ id c (frequency_index c) ch _ s W Hc (or_intror eq_refl) Hb He)
      as (W' & _ & _ & Hf & Ho & _).
    destruct (Hf eq_refl) as [H1 H2].
    split; [exact W'|]. split; [reflexivity|]. split; [split; assumption|]. intros id' Hne. apply Ho; auto.
  - destruct (absorb_offset_change FO id ch (f_est flt)) as [e| |] eqn:E; try discriminate.
    inversion H; subst flt'. cbn [with_est f_est f_links].
    destruct (absorb_offset_shape FO _ _ _ _ E) as (c & s & Hc & Hb & He).
    destruct (absorb_at FO _ _ id c (offset_index c) ch _ s W Hc (or_introl eq_refl) Hb He)
      as (W' & _ & Hf & _ & Ho & _).
    destruct (Hf eq_refl) as [H1 H2].
    split; [exact W'|]. split; [reflexivity|]. split; [split; assumption|]. intros id' Hne. apply Ho; auto.
  - destruct (absorb_system_clock_offset_change FO id d (f_est flt)) as [e| |] eqn:E; try discriminate.
    inversion H; subst flt'. cbn [with_est f_est f_links].
    destruct (absorb_system_shape FO _ _ _ _ E) as (c & s & Hc & Hb & He).
    destruct (absorb_at FO _ _ id c (offset_index c) (fdt FO d) _ s W Hc (or_introl eq_refl) Hb He)
      as (W' & _ & Hf & _ & Ho & _).
    destruct (Hf eq_refl) as [H1 H2].
    split; [exact W'|]. split; [reflexivity|]. split; [split; assumption|]. intros id' Hne. apply Ho; auto.
Qed.

(* ------------------------------------------------------------ the steering loop *)
Definition no_answers : clock_answers := {| ca_cur := 0; ca_max := 0 |}.

Lemma steer_loop_spec old : forall ids index ans acc acc',
  WF (f_est (fst acc)) -> NoDup ids ->
  steer_loop old index ids ans acc = Ok acc' ->
  WF (f_est (fst acc')) /\
  (forall id, ~ In id ids -> qo (fst acc') id = qo (fst acc) id /\ qf (fst acc') id = qf (fst acc) id) /\
  exists dcs : list (call * change),
    length dcs = length ids /\ snd acc' = snd acc ++ map fst dcs /\
    forall k id, nth_error ids k = Some id ->
      exists dc, nth_error dcs k = Some dc /\
        steer_decision old (index + k) id (nth k ans no_answers) = Ok dc /\
        effect (snd dc) id (fst acc) (fst acc').
Proof.
  induction ids as [|id ids IH]; intros index ans acc acc' W Hn H; cbn [steer_loop] in H.
  - inversion H; subst acc'. split; auto. split; auto.
    exists []. cbn. rewrite app_nil_r. split; [reflexivity|]. split; [reflexivity|].
    intros [|k] id' Hk; discriminate.
  - inversion Hn as [|? ? Hnin Hn']; subst.
    unfold res_bind in H at 1.
    destruct (steer_one old index id _ acc) as [acc1| |] eqn:H1; try discriminate.
    unfold steer_one, res_bind in H1.
    destruct (steer_decision old index id _) as [dc| |] eqn:Hd; try discriminate.
    destruct (apply_change id (snd dc) (fst acc)) as [flt1| |] eqn:Ha; try discriminate.
    inversion H1; subst acc1. clear H1.
    destruct (apply_change_spec _ _ _ _ W Ha) as (W1 & _ & He & Ho).
    destruct (IH (S index) (tl ans) (flt1, snd acc ++ [fst dc]) acc' W1 Hn' H) as (W' & Hrest & dcs & Hlen & Hcalls & Hk).
    cbn [fst snd] in *.
    split; auto. split.
    + intros id' Hnot. assert (id' <> id) by (intros ->; apply Hnot; now left).
      destruct (Hrest id') as [E1 E2]; [intros Hc; apply Hnot; now right|].
      destruct (Ho id' H0) as [E3 E4]. split; congruence.
    + exists (dc :: dcs). split; [cbn; congruence|]. split.
      { rewrite Hcalls. cbn [map]. rewrite <- app_assoc. reflexivity. }
      intros [|k] id' Hnth; cbn [nth_error] in Hnth.
      * inversion Hnth; subst id'. exists dc. split; [reflexivity|]. split.
        { rewrite Nat.add_0_r. destruct ans; exact Hd. }
        destruct (Hrest id Hnin) as [E1 E2]. unfold effect in *. rewrite E1, E2. exact He.
      * destruct (Hk k id' Hnth) as (dc' & N1 & N2 & N3). exists dc'. split; [exact N1|]. split.
        { replace (index + S k)%nat with (S index + k)%nat by lia.
          destruct ans; cbn [tl nth] in *; auto. destruct k; exact N2. }
        assert (id' <> id).
        { intros ->. apply Hnin. eapply nth_error_In; eauto. }
        destruct (Ho id' H0) as [E3 E4]. unfold effect in *. rewrite <- E3, <- E4. exact N3.
Qed.

Theorem steer_clocks_spec now ans (c c' : ctl) calls :
  WF (f_est (c_filter c)) -> NoDup (c_clocks c) ->
  steer_clocks now ans c = Ok (c', calls) ->
  exists flt (dcs : list (call * change)),
    f_progress_time now (c_filter c) = Ok flt /\
    c_clocks c' = c_clocks c /\ WF (f_est (c_filter c')) /\
    calls = map fst dcs /\ length dcs = length (c_clocks c) /\
    (forall id, ~ In id (c_clocks c) ->
       qo (c_filter c') id = qo flt id /\ qf (c_filter c') id = qf flt id) /\
    forall k id, nth_error (c_clocks c) k = Some id ->
      exists dc, nth_error dcs k = Some dc /\
        steer_decision (c_filter c) k id (nth k ans no_answers) = Ok dc /\
        effect (snd dc) id flt (c_filter c').
Proof.
  intros W Hn H. unfold steer_clocks, res_bind in H.
  destruct (f_progress_time now (c_filter c)) as [flt| |] eqn:Hp; try discriminate.
  destruct (steer_loop _ 0 _ ans (flt, [])) as [r| |] eqn:Hl; try discriminate.
  inversion H; subst c' calls. clear H.
  assert (Wf : WF (f_est flt)).
  { unfold f_progress_time, on_est, res_bind in Hp.
    destruct (progress_time FO now (f_est (c_filter c))) as [e| |] eqn:E; try discriminate.
    inversion Hp; subst flt. cbn. eapply WF_progress_time; eauto. }
  destruct (steer_loop_spec (c_filter c) (c_clocks c) 0 ans (flt, []) r Wf Hn Hl) as (W' & Hrest & dcs & Hlen & Hcalls & Hk).
  exists flt, dcs. cbn [fst snd with_filter c_clocks c_filter app] in *.
  split; [reflexivity|]. split; [reflexivity|]. split; [exact W'|]. split; [exact Hcalls|].
  split; [exact Hlen|]. split; [exact Hrest|]. exact Hk.
Qed.

(* ------------------------------------------------------------ the decision *)
Definition wanted_steer (a : clock_answers) (frequency offset : float) : float :=
  (ca_cur a - frequency - offset / 8)%float.

Lemma steer_decision_cases old index id a dc : steer_decision old index id a = Ok dc ->
  exists offset ou, qo old id = Ok (offset, ou) /\
  ((exists freq fu actual, qf old id = Ok (freq, fu) /\
      f64_clamp (wanted_steer a freq offset) (- ca_max a)%float (ca_max a) = Ok actual /\
      dc = (SetFrequency id actual, FreqChange (actual - ca_cur a)%float)) \/
   (let step := duration_from_f64_seconds (- offset)%float in
    dc = (StepClock id step, if (index =? 0)%nat then SystemStep step else OffsetChange (- offset)%float))).
Proof.
  unfold steer_decision, res_bind, qo, qf. intros H.
  destruct (f_clock_offset old id) as [[offset ou]| |]; try discriminate.
  exists offset, ou. split; auto. cbn [fst snd] in H.
  destruct ((offset <? 10)%float && (5 * ou <? offset)%float).
  - left. destruct (f_clock_frequency old id) as [[freq fu]| |]; try discriminate. cbn [fst] in H.
    destruct (f64_clamp _ _ _) as [actual| |] eqn:Hc; try discriminate.
    inversion H. exists freq, fu, actual. repeat split; auto.
  - right. inversion H. reflexivity.
Qed.

(* every frequency handed to a clock by a completed steer_clocks *)
Theorem steer_frequency_clamped now ans (c c' : ctl) calls id f :
  WF (f_est (c_filter c)) -> NoDup (c_clocks c) ->
  steer_clocks now ans c = Ok (c', calls) -> In (SetFrequency id f) calls ->
  exists k offset ou freq fu,
    nth_error (c_clocks c) k = Some id /\
    qo (c_filter c) id = Ok (offset, ou) /\ qf (c_filter c) id = Ok (freq, fu) /\
    let a := nth k ans no_answers in
    let wanted := wanted_steer a freq offset in
    fnan (ca_max a) = false /\
    (fnan wanted = true -> fnan f = true) /\
    (fnan wanted = false ->
       fnan f = false /\ (- ca_max a <=? f)%float = true /\ (f <=? ca_max a)%float = true).
Proof.
  intros W Hn H Hin.
  destruct (steer_clocks_spec _ _ _ _ _ W Hn H) as (flt & dcs & _ & _ & _ & Hcalls & Hlen & _ & Hk).
  subst calls. apply in_map_iff in Hin. destruct Hin as [dc [Hfst Hdc]].
  apply In_nth_error in Hdc. destruct Hdc as [k Hnth].
  assert (Hlt : (k < length (c_clocks c))%nat).
  { rewrite <- Hlen. apply nth_error_Some. congruence. }
  destruct (nth_error (c_clocks c) k) as [id'|] eqn:Hid; [|apply nth_error_None in Hid; lia].
  destruct (Hk k id' Hid) as (dc' & N1 & N2 & _). rewrite Hnth in N1. inversion N1; subst dc'.
  destruct (steer_decision_cases _ _ _ _ _ N2) as (offset & ou & Ho & [(freq & fu & actual & Hf & Hc & Hd)|Hd]).
  - subst dc. cbn in Hfst. inversion Hfst; subst id' actual.
    exists k, offset, ou, freq, fu. split; auto. split; auto. split; auto.
    cbv zeta. apply clamp_sym_in_range. exact Hc.
  - cbv zeta in Hd. subst dc. cbn in Hfst. discriminate.
Qed.
