(* Proofs about Model/Stratum.v (C33) *)
From V Require Import Model.Bloom Model.Stratum Proofs.Bloom.
From V Require Import Gen.ConstSource.
From Coq Require Import ZifyBool.

(* call sites of accept_synchronization: handle_timer, process_message (+1 unit test) *)
Lemma accept_site_census : N_ACCEPT_SYNC_CALLS = 3.
Proof. reflexivity. Qed.

Lemma is_local_In : forall ids id, is_local ids id = true <-> In id ids.
Proof.
  intros. unfold is_local. rewrite existsb_exists. split.
  - intros (x & Hx & E). apply Z.eqb_eq in E. subst. auto.
  - intros H. exists id. split; auto. apply Z.eqb_refl.
Qed.

(* exact characterisation of the accept decision *)
Theorem accept_ok_iff : forall ls ids s,
  accept_synchronization ls ids s = None <->
  s_stratum s < ls /\
  (s_stratum s <> 1 -> ~ In (s_source_id s) ids /\ ~ In (s_reference_id s) ids) /\
  s_bloom s <> Some true /\
  s_reach s <> 0.
Proof.
  intros ls ids s. unfold accept_synchronization.
  destruct (Z.geb_spec (s_stratum s) ls) as [Hs|Hs].
  { split; [discriminate|]. intros (H & _). lia. }
  set (f := fun l => (l =? s_source_id s) || (l =? s_reference_id s)).
  destruct (Z.eqb_spec (s_stratum s) 1) as [E1|E1]; cbn [negb andb].
  - (* stratum 1: no address comparison *)
    destruct (s_bloom s) as [[|]|].
    + split; [discriminate|]. intros (_ & _ & H & _). congruence.
    + destruct (Z.eqb_spec (s_reach s) 0) as [R|R].
      * split; [discriminate|intros (_ & _ & _ & H); contradiction].
      * split; [intros _; split; [lia|split; [intros X; contradiction|split; [discriminate|exact R]]]|reflexivity].
    + destruct (Z.eqb_spec (s_reach s) 0) as [R|R].
      * split; [discriminate|intros (_ & _ & _ & H); contradiction].
      * split; [intros _; split; [lia|split; [intros X; contradiction|split; [discriminate|exact R]]]|reflexivity].
  - destruct (existsb f ids) eqn:Ee.
    { split; [discriminate|]. intros (_ & H & _). destruct (H E1) as [H1 H2]. exfalso.
      apply existsb_exists in Ee. destruct Ee as (l & Hl & E). unfold f in E.
      apply orb_true_iff in E. destruct E as [E|E]; apply Z.eqb_eq in E; subst; auto. }
    assert (~ In (s_source_id s) ids /\ ~ In (s_reference_id s) ids) as N.
    { split; intro Hin; (assert (existsb f ids = true); [|congruence]); apply existsb_exists.
      - exists (s_source_id s). split; auto. unfold f. rewrite Z.eqb_refl. reflexivity.
      - exists (s_reference_id s). split; auto. unfold f. rewrite Z.eqb_refl. apply orb_true_r. }
    destruct (s_bloom s) as [[|]|].
    + split; [discriminate|]. intros (_ & _ & H & _). congruence.
    + destruct (Z.eqb_spec (s_reach s) 0) as [R|R].
      * split; [discriminate|intros (_ & _ & _ & H); contradiction].
      * split; [intros _; split; [lia|split; [intros _; exact N|split; [discriminate|exact R]]]|reflexivity].
    + destruct (Z.eqb_spec (s_reach s) 0) as [R|R].
      * split; [discriminate|intros (_ & _ & _ & H); contradiction].
      * split; [intros _; split; [lia|split; [intros _; exact N|split; [discriminate|exact R]]]|reflexivity].
Qed.

Theorem accept_error_cases : forall ls ids s e,
  accept_synchronization ls ids s = Some e ->
  match e with
  | Stratum => ls <= s_stratum s
  | Loop => (s_stratum s <> 1 /\ (In (s_source_id s) ids \/ In (s_reference_id s) ids)) \/ s_bloom s = Some true
  | ServerUnreachable => s_reach s = 0
  | Distance => False
  end.
Proof.
  intros ls ids s e. unfold accept_synchronization.
  destruct (Z.geb_spec (s_stratum s) ls) as [Hs|Hs]; [intros E; inversion E; lia|].
  set (f := fun l => (l =? s_source_id s) || (l =? s_reference_id s)).
  destruct (negb (s_stratum s =? 1) && existsb f ids) eqn:Ee.
  { intros E; inversion E. apply andb_true_iff in Ee. destruct Ee as [X1 X2]. left. split.
    - intro Y. rewrite Y in X1. discriminate.
    - apply existsb_exists in X2. destruct X2 as (l & Hl & X). unfold f in X.
      apply orb_true_iff in X. destruct X as [X|X]; apply Z.eqb_eq in X; subst; auto. }
  destruct (s_bloom s) as [[|]|]; [intros E; inversion E; auto| |];
    (destruct (Z.eqb_spec (s_reach s) 0); intros E; inversion E; auto).
Qed.

(* the own-address test is skipped for stratum 1: a reachable stratum-1 source at
   one of our own addresses is accepted (the reading of "this daemon itself"
   the code implements; see the report) *)
Lemma self_stratum1_accepted :
  exists ls ids s, In (s_source_id s) ids /\ s_stratum s = 1 /\ accept_synchronization ls ids s = None.
Proof. exists 16, [2130706433], (mkSnap 1 2130706433 1196446464 1 None). repeat split. left. reflexivity. Qed.

(* ---------- advertisement ---------- *)
Lemma fold_bf_add_length : forall fs f, length f = NBYTES -> Forall (fun g => length g = NBYTES) fs ->
  length (fold_left bf_add fs f) = NBYTES.
Proof.
  induction fs; simpl; intros; auto. inversion H0; subst. apply IHfs; auto.
  rewrite length_bf_add. auto.
Qed.

Lemma fold_bf_add_keeps : forall fs f id, length f = NBYTES -> Forall (fun g => length g = NBYTES) fs ->
  id_ok id -> contains_id f id = Ok true -> contains_id (fold_left bf_add fs f) id = Ok true.
Proof.
  induction fs; simpl; intros; auto. inversion H0; subst.
  destruct (bf_add_contains f a id H H5 H1) as (L & K1 & _). apply IHfs; auto.
Qed.

Lemma fold_bf_add_member : forall fs f g id, length f = NBYTES -> Forall (fun g => length g = NBYTES) fs ->
  id_ok id -> In g fs -> contains_id g id = Ok true -> contains_id (fold_left bf_add fs f) id = Ok true.
Proof.
  induction fs; simpl; intros f g id Hf Hfs Hid Hin Hc; [contradiction|]. inversion Hfs; subst.
  destruct (bf_add_contains f a id Hf H1 Hid) as (L & _ & K2).
  destruct Hin as [->|Hin].
  - apply fold_bf_add_keeps; auto.
  - eapply IHfs; eauto.
Qed.

Lemma bf_new_length : length bf_new = NBYTES.
Proof. apply repeat_length. Qed.

(* C33_advertise *)
Theorem from_used_sources_spec : forall ls sid used,
  id_ok sid -> Forall (fun g => length g = NBYTES) (filters_of used) ->
  exists p, from_used_sources ls sid used = Ok p /\
    (a_stratum p, a_reference_id p) =
      match used with
      | [] => (ls, REFID_NONE)
      | x :: _ => (Z.min (fst (first_of x) + 1) 255, snd (first_of x))
      end /\
    length (a_filter p) = NBYTES /\
    contains_id (a_filter p) sid = Ok true /\
    (forall g id, In g (filters_of used) -> id_ok id -> contains_id g id = Ok true ->
                  contains_id (a_filter p) id = Ok true).
Proof.
  intros ls sid used Hid Hfs. unfold from_used_sources.
  set (u := fold_left bf_add (filters_of used) bf_new).
  assert (length u = NBYTES) as Lu by (apply fold_bf_add_length; auto; apply bf_new_length).
  destruct (add_id_contains u sid Lu Hid) as (f' & E & L' & C1 & C2).
  destruct used as [|x r].
  - rewrite E. cbn [res_bind]. eexists. split; [reflexivity|]. cbn. repeat split; auto.
    intros g id [].
  - destruct (first_of x) as [s i] eqn:Ef. rewrite E. cbn [res_bind]. eexists. split; [reflexivity|].
    cbn [a_stratum a_reference_id a_filter fst snd]. repeat split; auto.
    intros g id Hin Hok Hc. apply C2; auto. unfold u. eapply fold_bf_add_member; eauto; try apply bf_new_length.
Qed.

Lemma resolve_some_iff : forall table used,
  (exists l, resolve table used = Some l) <-> all_reported table used.
Proof.
  intros table used. unfold all_reported. induction used as [|[id ty] r IH]; cbn [resolve].
  - split; [intros _ id []|eauto].
  - destruct ty; cbn [option_map];
      try (destruct IH as [IH1 IH2]; split;
           [intros [l Hl] id0 [X|X]; [inversion X|];
            apply IH1; auto; destruct (resolve table r); [eauto|discriminate]
           |intros H; destruct IH2 as [l Hl]; [intros id0 Hin; apply H; right; auto|]; rewrite Hl; cbn; eauto]).
    destruct (lookup table id) eqn:El.
    + destruct IH as [IH1 IH2]. split.
      * intros [l Hl] id0 [X|X]; [inversion X; subst; congruence|].
        apply IH1; auto. destruct (resolve table r); [eauto|discriminate].
      * intros H. destruct IH2 as [l Hl]; [intros id0 Hin; apply H; right; auto|]. rewrite Hl. cbn. eauto.
    + split; [intros [l Hl]; discriminate|]. intros H. exfalso. apply (H id); auto. left; reflexivity.
Qed.

Lemma resolve_shape : forall table used l, resolve table used = Some l ->
  length l = length used /\
  (forall x, In x l -> (exists st id, x = SExternal st id) \/ (exists k, lookup table k = Some x)).
Proof.
  intros table used. induction used as [|[id ty] r IH]; cbn [resolve]; intros l H.
  - inversion H. split; auto. intros x [].
  - destruct ty; cbn [option_map] in H;
      try (destruct (resolve table r) as [l'|] eqn:Er; [|discriminate]; inversion H; subst;
           destruct (IH l' eq_refl) as [I1 I2]; split; [simpl; lia|];
           intros x [<-|Hx]; [left; eauto|auto]).
    destruct (lookup table id) eqn:El; [|discriminate].
    destruct (resolve table r) as [l'|] eqn:Er; [|discriminate]. inversion H; subst.
    destruct (IH l' eq_refl) as [I1 I2]. split; [simpl; lia|].
    intros x [<-|Hx]; [right; eauto|auto].
Qed.

(* once all used NTP sources have reported, the published snapshot is the one
   computed from the used list; otherwise the previous one stays *)
Theorem update_used_sources_spec : forall ls sid table pub used,
  (all_reported table used ->
     exists l, resolve table used = Some l /\
       update_used_sources ls sid table pub used = from_used_sources ls sid l) /\
  (~ all_reported table used -> update_used_sources ls sid table pub used = Ok pub).
Proof.
  intros. unfold update_used_sources. split.
  - intros H. apply resolve_some_iff in H. destruct H as [l Hl]. exists l. rewrite Hl. auto.
  - intros H. destruct (resolve table used) eqn:E; auto. exfalso. apply H. apply resolve_some_iff. eauto.
Qed.

(* the first element of the resolved list is what the first used entry denotes *)
Lemma resolve_first : forall table id ty r l, resolve table ((id, ty) :: r) = Some l ->
  exists x l', l = x :: l' /\
    x = match ty with
        | TPps => SExternal 0 REFID_PPS
        | TSock => SExternal 0 REFID_SOCK
        | TCsptp => SExternal 0 REFID_CSPTP
        | TNtp => match lookup table id with Some v => v | None => x end
        end.
Proof.
  intros table id ty r l H. cbn [resolve] in H.
  destruct ty; cbn [option_map] in H;
    try (destruct (resolve table r) as [l'|]; [|discriminate]; inversion H; eauto).
  destruct (lookup table id) eqn:El; [|discriminate].
  destruct (resolve table r) as [l'|]; [|discriminate]. inversion H. eauto.
Qed.
