(* Lemmas about the NTS-KE decision model (Model/NtsKe.v). *)
From V Require Import Model.NtsKe Proofs.NtsRecord Proofs.NtsMsg Gen.ConstNts.
From Coq Require Import ZifyBool.

(* ---- membership tests ---- *)
Lemma zlist_eqb_eq a : forall b, zlist_eqb a b = true <-> a = b.
Proof.
  induction a as [|x a IH]; intros [|y b]; cbn [zlist_eqb]; split; intros H; try reflexivity; try discriminate.
  - apply andb_prop in H. destruct H as [H1 H2]. apply Z.eqb_eq in H1. apply IH in H2. subst. reflexivity.
  - inversion H. subst. rewrite Z.eqb_refl. cbn. apply IH. reflexivity.
Qed.

Lemma token_ok_in cfg auth : token_ok cfg auth = true <-> In auth (c_tokens cfg).
Proof.
  unfold token_ok. rewrite existsb_exists. split.
  - intros [t [Hin E]]. apply zlist_eqb_eq in E. subst. exact Hin.
  - intros Hin. exists auth. split; [exact Hin|]. apply zlist_eqb_eq. reflexivity.
Qed.

Lemma zmem_in x l : zmem x l = true <-> In x l.
Proof.
  unfold zmem. rewrite existsb_exists. split.
  - intros [y [Hin E]]. apply Z.eqb_eq in E. subst. exact Hin.
  - intros Hin. exists x. split; [exact Hin|apply Z.eqb_refl].
Qed.

(* ---- first element with a property ---- *)
Definition first_such {A} (P : A -> bool) (l : list A) (x : A) : Prop :=
  exists pre post, l = pre ++ x :: post /\ P x = true /\ forall y, In y pre -> P y = false.

Lemma find_first {A} (P : A -> bool) l x : find P l = Some x <-> first_such P l x.
Proof.
  induction l as [|y l IH]; cbn [find].
  - split; [discriminate|]. intros [pre [post [E _]]]. destruct pre; discriminate.
  - destruct (P y) eqn:Py.
    + split.
      * intros H. inversion H. subst. exists [], l. repeat split; [exact Py|intros z []].
      * intros [pre [post [E [Px Hpre]]]]. destruct pre as [|z pre].
        -- inversion E. reflexivity.
        -- inversion E. subst. rewrite (Hpre z (or_introl eq_refl)) in Py. discriminate.
    + rewrite IH. split.
      * intros [pre [post [E [Px Hpre]]]]. exists (y :: pre), post. subst. repeat split; [exact Px|].
        intros z [<-|Hz]; [exact Py|apply Hpre; exact Hz].
      * intros [pre [post [E [Px Hpre]]]]. destruct pre as [|z pre].
        -- inversion E. subst. congruence.
        -- inversion E. subst. exists pre, post. repeat split; [exact Px|].
           intros w Hw. apply Hpre. right. exact Hw.
Qed.

Lemma find_none_iff {A} (P : A -> bool) l : find P l = None <-> forall y, In y l -> P y = false.
Proof.
  split; [apply find_none|]. induction l as [|y l IH]; intros H; [reflexivity|].
  cbn [find]. rewrite (H y (or_introl eq_refl)). apply IH. intros z Hz. apply H. right. exact Hz.
Qed.

(* ---- C29: pool requests and the token ---- *)
Definition req_auth (q : request) : option (list Z) :=
  match q with
  | FixedKey a _ _ _ _ _ | Support a _ _ _ => Some a
  | KeyExchange _ _ _ => None
  end.
Definition req_keep_alive (q : request) : bool :=
  match q with
  | FixedKey _ _ _ _ _ ka | Support _ _ _ ka => ka
  | KeyExchange _ _ _ => false
  end.

Definition is_cookie (i : ritem) : bool := match i with RCookie _ _ _ => true | RRec (NewCookieR _) => true | _ => false end.
Definition is_keep_alive (i : ritem) : bool := match i with RRec KeepAliveR => true | _ => false end.

Lemma token_required cfg export permit q auth :
  req_auth q = Some auth -> ~ In auth (c_tokens cfg) ->
  handle_new cfg export permit (Ok q) = (bad_request, Closed E_NOT_PERMITTED, false).
Proof.
  intros A N. assert (T : token_ok cfg auth = false).
  { destruct (token_ok cfg auth) eqn:E; [|reflexivity]. apply token_ok_in in E. contradiction. }
  destruct q; cbn [req_auth] in A; inversion A; subst; cbn [handle_new]; rewrite T; reflexivity.
Qed.

Lemma bad_request_shape :
  bad_request = [RRec (ErrorR ERR_BAD_REQUEST); RRec EndOfMessage] /\ existsb is_cookie bad_request = false
  /\ existsb is_keep_alive bad_request = false.
Proof. repeat split; reflexivity. Qed.

Lemma cookies_no_keep_alive a c s : existsb is_keep_alive (cookies_for a c s) = false.
Proof. unfold cookies_for. induction n_cookies; [reflexivity|]. cbn. exact IHn. Qed.

Lemma ke_response_keep_alive cfg p a c s g :
  existsb is_keep_alive (ke_response cfg p a (cookies_for a c s) g) = g.
Proof.
  unfold ke_response. rewrite !existsb_app, cookies_no_keep_alive.
  destruct (c_server cfg), (c_port cfg), g; reflexivity.
Qed.

Lemma supports_response_keep_alive cfg wp wa g :
  existsb is_keep_alive (supports_response cfg wp wa g) = g.
Proof. unfold supports_response. destruct wp, wa, g; reflexivity. Qed.

Lemma on_parse_error_no_ka e : existsb is_keep_alive (fst (on_parse_error e)) = false.
Proof.
  unfold on_parse_error.
  destruct (e =? E_INVALID); [reflexivity|]. destruct (e =? E_NOT_PERMITTED); [reflexivity|].
  destruct (e =? E_CRITICAL); reflexivity.
Qed.

(* a pool request with a configured token *)
Lemma kept_open_pool cfg export permit q auth :
  req_auth q = Some auth -> In auth (c_tokens cfg) ->
  exists resp,
    handle_new cfg export permit (Ok q) =
      (resp, if req_keep_alive q && permit then KeptOpen else Closed 0, req_keep_alive q)
    /\ existsb is_keep_alive resp = req_keep_alive q && permit.
Proof.
  intros A T. destruct q as [als ps dn | a c2s s2c alg p ka | a wp wa ka]; cbn [req_auth] in A; inversion A; subst;
    apply token_ok_in in T; cbn [handle_new req_keep_alive]; rewrite T; eexists; (split; [reflexivity|]).
  - apply ke_response_keep_alive.
  - apply supports_response_keep_alive.
Qed.

(* anything else: closed, the permit is not asked for, no keep-alive record *)
Lemma closed_otherwise cfg export permit pr :
  (forall q auth, pr = Ok q -> req_auth q = Some auth -> ~ In auth (c_tokens cfg)) ->
  exists resp c, handle_new cfg export permit pr = (resp, Closed c, false)
                 /\ existsb is_keep_alive resp = false.
Proof.
  intros N. destruct pr as [q|e|s].
  - destruct q as [als ps dn | a c2s s2c alg p ka | a wp wa ka].
    + cbn [handle_new]. destruct (find _ ps) as [p|]; [destruct (find _ als) as [al|]|].
      * destruct (export p al) as [c2s s2c]. eexists; eexists; split; [reflexivity|apply ke_response_keep_alive].
      * eexists; eexists; split; reflexivity.
      * eexists; eexists; split; reflexivity.
    + rewrite (token_required cfg export permit (FixedKey a c2s s2c alg p ka) a eq_refl
                 (N (FixedKey a c2s s2c alg p ka) a eq_refl eq_refl)).
      eexists; eexists; split; reflexivity.
    + rewrite (token_required cfg export permit (Support a wp wa ka) a eq_refl
                 (N (Support a wp wa ka) a eq_refl eq_refl)).
      eexists; eexists; split; reflexivity.
  - cbn [handle_new]. pose proof (on_parse_error_no_ka e) as K. destruct (on_parse_error e) as [resp code]. cbn [fst] in K.
    eexists; eexists; split; [reflexivity|exact K].
  - cbn [handle_new]. eexists; eexists; split; reflexivity.
Qed.

Lemma pool_classify cfg pr :
  (exists q auth, pr = Ok q /\ req_auth q = Some auth /\ In auth (c_tokens cfg))
  \/ (forall q auth, pr = Ok q -> req_auth q = Some auth -> ~ In auth (c_tokens cfg)).
Proof.
  destruct pr as [q|e|s]; try (right; intros; discriminate).
  destruct (req_auth q) as [auth|] eqn:A; [|right; intros q' au E; inversion E; subst; congruence].
  destruct (token_ok cfg auth) eqn:T.
  - left. exists q, auth. apply token_ok_in in T. repeat split; assumption.
  - right. intros q' au E A'. inversion E. subst. rewrite A in A'. inversion A'. subst.
    intros H. apply token_ok_in in H. congruence.
Qed.

(* the connection is kept open exactly when a pool request carries a configured
   token, asks for it, and a permit is available; the permit is asked for
   exactly when token and wish are there; the keep-alive record says so *)
Lemma kept_open_iff cfg export permit pr resp e asked :
  handle_new cfg export permit pr = (resp, e, asked) ->
  (e = KeptOpen <->
     exists q auth, pr = Ok q /\ req_auth q = Some auth /\ In auth (c_tokens cfg)
                    /\ req_keep_alive q = true /\ permit = true)
  /\ (asked = true <->
     exists q auth, pr = Ok q /\ req_auth q = Some auth /\ In auth (c_tokens cfg)
                    /\ req_keep_alive q = true)
  /\ (existsb is_keep_alive resp = true <-> e = KeptOpen).
Proof.
  intros H. destruct (pool_classify cfg pr) as [[q [auth [E [A T]]]]|N].
  - subst pr. destruct (kept_open_pool cfg export permit q auth A T) as [resp' [H' K]].
    rewrite H in H'. inversion H'. subst resp' e asked. clear H'.
    split; [|split].
    + split.
      * intros Ek. exists q, auth. destruct (req_keep_alive q), permit; cbn in Ek; try discriminate. repeat split; assumption.
      * intros [q' [au [E' [_ [_ [Kq P]]]]]]. inversion E'. subst q'. rewrite Kq, P. reflexivity.
    + split.
      * intros Ek. exists q, auth. repeat split; assumption.
      * intros [q' [au [E' [_ [_ Kq]]]]]. inversion E'. subst q'. exact Kq.
    + rewrite K. destruct (req_keep_alive q && permit); split; intros; try reflexivity; discriminate.
  - destruct (closed_otherwise cfg export permit pr N) as [resp' [c [H' K]]].
    rewrite H in H'. inversion H'. subst resp' e asked. clear H'.
    split; [|split].
    + split; [discriminate|]. intros [q [au [E [A [T _]]]]]. exfalso. apply (N q au E A T).
    + split; [discriminate|]. intros [q [au [E [A [T _]]]]]. exfalso. apply (N q au E A T).
    + rewrite K. split; discriminate.
Qed.

(* served (anything but the bad-request answer) only with a configured token *)
Lemma served_only_with_token cfg export permit q auth :
  req_auth q = Some auth ->
  In auth (c_tokens cfg) \/
  handle_new cfg export permit (Ok q) = (bad_request, Closed E_NOT_PERMITTED, false).
Proof.
  intros A. destruct (token_ok cfg auth) eqn:T.
  - left. apply token_ok_in. exact T.
  - right. apply (token_required cfg export permit q auth A). intros H. apply token_ok_in in H. congruence.
Qed.

(* a plain key-exchange request on a kept-open connection *)
Lemma no_plain_on_longterm cfg als ps dn :
  lt_step cfg (Ok (KeyExchange als ps dn)) = (bad_request, Some E_INVALID).
Proof. reflexivity. Qed.

Lemma longterm_plain_first f cfg stream als ps dn rest :
  parse_request stream = (Ok (KeyExchange als ps dn), rest) ->
  longterm (S f) cfg stream = (bad_request, E_INVALID).
Proof. intros H. cbn [longterm]. rewrite H. reflexivity. Qed.

(* the whole connection of a pool request without a configured token *)
Lemma serve_tokenless cfg export permit stream q rest auth :
  parse_request stream = (Ok q, rest) -> req_auth q = Some auth -> ~ In auth (c_tokens cfg) ->
  serve cfg export permit stream = (bad_request, Closed E_NOT_PERMITTED, false, None).
Proof.
  intros P A N. unfold serve. rewrite P, (token_required cfg export permit q auth A N). reflexivity.
Qed.

(* handle_longterm never consults the token list nor the permit: its answers to
   pool requests do not depend on them (the check was made on the first request) *)
Lemma lt_step_ignores_tokens cfg toks pr :
  lt_step (mkCfg (c_protocols cfg) toks (c_server cfg) (c_port cfg)) pr = lt_step cfg pr.
Proof. destruct pr as [[| |]| |]; reflexivity. Qed.

(* ---- C28: the server's choice ---- *)
Definition accepts (cfg : srv_cfg) (p : Z) : bool := zmem p (c_protocols cfg).

Lemma server_choice cfg export permit als ps dn :
  (forall p a, first_such (accepts cfg) ps p -> first_such known_algorithm als a ->
     handle_new cfg export permit (Ok (KeyExchange als ps dn)) =
     (ke_response cfg p a (cookies_for a (fst (export p a)) (snd (export p a))) false, Closed 0, false))
  /\ ((forall p, In p ps -> accepts cfg p = false) ->
     handle_new cfg export permit (Ok (KeyExchange als ps dn)) =
     ([RRec (NextProtocolR []); RRec EndOfMessage], Closed E_NO_PROTOCOL, false))
  /\ (forall p, first_such (accepts cfg) ps p -> (forall a, In a als -> known_algorithm a = false) ->
     handle_new cfg export permit (Ok (KeyExchange als ps dn)) =
     ([RRec (NextProtocolR [p]); RRec (AeadAlgorithmR []); RRec EndOfMessage], Closed E_NO_ALGORITHM, false)).
Proof.
  cbn [handle_new]. fold (accepts cfg). repeat split.
  - intros p a Fp Fa. apply find_first in Fp. apply find_first in Fa. rewrite Fp, Fa.
    destruct (export p a). reflexivity.
  - intros N. apply find_none_iff in N. rewrite N. reflexivity.
  - intros p Fp N. apply find_first in Fp. apply find_none_iff in N. rewrite Fp, N. reflexivity.
Qed.

Lemma accepts_in cfg p : accepts cfg p = true <-> In p (c_protocols cfg).
Proof. apply zmem_in. Qed.

Lemma known_algorithm_iff a :
  known_algorithm a = true <-> a = AEAD_AES_SIV_CMAC_256 \/ a = AEAD_AES_SIV_CMAC_512.
Proof. unfold known_algorithm. lia. Qed.

Lemma cookies_for_spec a c s :
  length (cookies_for a c s) = 8%nat /\ forall i, In i (cookies_for a c s) -> i = RCookie a c s.
Proof.
  unfold cookies_for. split; [apply repeat_length|]. intros i H. apply repeat_spec in H. exact H.
Qed.

(* every cookie the server issues on a new key-exchange connection carries the
   keys exported for the chosen protocol and algorithm *)
Lemma server_cookies cfg export permit als ps dn resp e asked :
  handle_new cfg export permit (Ok (KeyExchange als ps dn)) = (resp, e, asked) ->
  forall i, In i resp -> is_cookie i = true ->
  exists p a, first_such (accepts cfg) ps p /\ first_such known_algorithm als a
              /\ i = RCookie a (fst (export p a)) (snd (export p a))
              /\ length (filter is_cookie resp) = 8%nat.
Proof.
  cbn [handle_new]. fold (accepts cfg).
  destruct (find (accepts cfg) ps) as [p|] eqn:Fp.
  - destruct (find known_algorithm als) as [a|] eqn:Fa.
    + destruct (export p a) as [c2s s2c] eqn:X. intros H. inversion H. subst. clear H.
      intros i Hin Hc. exists p, a. apply find_first in Fp. apply find_first in Fa.
      rewrite X. cbn [fst snd]. repeat split; try assumption.
      * unfold ke_response in Hin. rewrite !in_app_iff in Hin.
        destruct Hin as [Hin|[Hin|[Hin|[Hin|[Hin|Hin]]]]].
        -- destruct Hin as [<-|[<-|[]]]; discriminate.
        -- apply (cookies_for_spec a c2s s2c). exact Hin.
        -- destruct (c_server cfg); [destruct Hin as [<-|[]]; discriminate|destruct Hin].
        -- destruct (c_port cfg); [destruct Hin as [<-|[]]; discriminate|destruct Hin].
        -- destruct Hin.
        -- destruct Hin as [<-|[]]. discriminate.
      * unfold ke_response. cbn [app filter is_cookie]. rewrite !filter_app.
        assert (F : filter is_cookie (cookies_for a c2s s2c) = cookies_for a c2s s2c).
        { unfold cookies_for. induction n_cookies; [reflexivity|]. cbn. rewrite IHn. reflexivity. }
        rewrite F. destruct (c_server cfg), (c_port cfg); cbn; rewrite app_nil_r; apply cookies_for_spec.
    + intros H. inversion H. subst. intros i [<-|[<-|[<-|[]]]]; discriminate.
  - intros H. inversion H. subst. intros i [<-|[<-|[]]]; discriminate.
Qed.

(* ---- C28: the client ---- *)
Lemma client_offered protos algs export name resp k :
  client_process protos algs export name resp = Ok k ->
  In (k_protocol k) protos /\ In (k_algorithm k) algs
  /\ (k_c2s k, k_s2c k) = export (k_protocol k) (k_algorithm k)
  /\ known_algorithm (k_algorithm k) = true
  /\ ((k_version k = 4 /\ k_protocol k = PROTO_NTPV4) \/ (k_version k = 5 /\ k_protocol k = PROTO_DRAFT_NTPV5))
  /\ k_cookies k <> [].
Proof.
  unfold client_process. destruct (fst (parse_response resp)) as [r|e|s]; cbn [res_bind]; try discriminate.
  destruct (negb (zmem (p_protocol r) protos) || negb (zmem (p_algorithm r) algs)) eqn:M; [discriminate|].
  apply orb_false_elim in M. destruct M as [M1 M2].
  apply negb_false_iff in M1. apply negb_false_iff in M2. apply zmem_in in M1. apply zmem_in in M2.
  destruct (negb (known_algorithm (p_algorithm r))) eqn:K; [discriminate|]. apply negb_false_iff in K.
  destruct (export (p_protocol r) (p_algorithm r)) as [c2s s2c] eqn:X.
  destruct (p_cookies r) as [|ck cks] eqn:C; [discriminate|].
  destruct (p_protocol r =? PROTO_NTPV4) eqn:P4.
  - intros H. inversion H. subst. cbn. rewrite X. repeat split; try assumption; [left; split; [reflexivity|lia]|discriminate].
  - destruct (p_protocol r =? PROTO_DRAFT_NTPV5) eqn:P5; [|discriminate].
    intros H. inversion H. subst. cbn. rewrite X. repeat split; try assumption; [right; split; [reflexivity|lia]|discriminate].
Qed.

(* what the client sends is a key-exchange request with exactly its lists *)
Lemma client_request_parses protos algs denied t :
  Forall utf8_ok denied -> zlen (client_request protos algs denied) <= MAX_MESSAGE_SIZE ->
  parse_request (client_request protos algs denied ++ t) = (Ok (KeyExchange algs protos denied), t).
Proof.
  intros U L. unfold client_request, parse_request. apply capped_roundtrip; [|exact L].
  intros t'. apply request_roundtrip_raw. exact U.
Qed.

(* ---- C28: both ends obtain the same keys ---- *)
Section SameKeys.
(* how the key set turns the i-th symbolic cookie of a response into bytes
   (random nonce, AEAD) and back: any pair with the C26 round trip *)
Variable enc_cookie : nat -> Z -> list Z -> list Z -> list Z.
Variable dec_cookie : list Z -> option (Z * list Z * list Z).
Hypothesis dec_enc : forall i a c s, dec_cookie (enc_cookie i a c s) = Some (a, c, s).

Fixpoint realize (i : nat) (items : list ritem) : list (list Z) :=
  match items with
  | [] => []
  | RRec r :: rest => ser_record r :: realize i rest
  | RCookie a c s :: rest => ser_record (NewCookieR (enc_cookie i a c s)) :: realize (S i) rest
  end.
Definition wire (items : list ritem) : list Z := concat (realize 0 items).

Fixpoint cookie_bytes (i : nat) (n : nat) (a : Z) (c s : list Z) : list (list Z) :=
  match n with O => [] | S n' => enc_cookie i a c s :: cookie_bytes (S i) n' a c s end.

Lemma realize_cookies n : forall i a c s rest,
  realize i (repeat (RCookie a c s) n ++ rest) =
  map (fun b => ser_record (NewCookieR b)) (cookie_bytes i n a c s) ++ realize (i + n) rest.
Proof.
  induction n as [|n IH]; intros i a c s rest; cbn [repeat app realize cookie_bytes map].
  - rewrite Nat.add_0_r. reflexivity.
  - rewrite IH. rewrite Nat.add_succ_r. reflexivity.
Qed.

Lemma cookie_bytes_dec n : forall i a c s ck,
  In ck (cookie_bytes i n a c s) -> dec_cookie ck = Some (a, c, s).
Proof.
  induction n as [|n IH]; intros i a c s ck H; [destruct H|].
  destruct H as [<-|H]; [apply dec_enc|apply (IH _ _ _ _ _ H)].
Qed.

Lemma cookie_bytes_length n i a c s : length (cookie_bytes i n a c s) = n.
Proof. revert i. induction n as [|n IH]; intros i; [reflexivity|]. cbn. rewrite IH. reflexivity. Qed.

Lemma wire_ke_response cfg p a c s :
  wire (ke_response cfg p a (cookies_for a c s) false) =
  ser_response (mkResp p a (cookie_bytes 0 n_cookies a c s) (c_server cfg) (c_port cfg) false).
Proof.
  unfold wire, ke_response, ser_response, cookies_for.
  cbn [app realize concat p_protocol p_algorithm p_cookies p_server p_port p_keep_alive].
  rewrite realize_cookies, concat_app, <- flat_map_concat_map. do 3 f_equal.
  destruct (c_server cfg), (c_port cfg); cbn [opt_item keep_alive_item app realize concat]; rewrite ?app_nil_r; reflexivity.
Qed.

(* A client with lists [protos]/[algs] against a server with configuration
   [cfg] over one TLS session (one exporter): if the exchange succeeds, the
   adopted protocol and algorithm are the first client-listed ones the server
   accepts/supports, the client's keys are the exported keys for them, and each
   of the eight cookies decodes to exactly those keys. *)
Lemma same_keys cfg export protos algs denied name k resp e asked :
  (forall n, c_server cfg = Some n -> utf8_ok n) ->
  handle_new cfg export false (Ok (KeyExchange algs protos denied)) = (resp, e, asked) ->
  zlen (wire resp) <= MAX_MESSAGE_SIZE ->
  client_process protos algs export name (wire resp) = Ok k ->
  first_such (accepts cfg) protos (k_protocol k) /\ first_such known_algorithm algs (k_algorithm k)
  /\ (k_c2s k, k_s2c k) = export (k_protocol k) (k_algorithm k)
  /\ length (k_cookies k) = 8%nat
  /\ (forall ck, In ck (k_cookies k) -> dec_cookie ck = Some (k_algorithm k, k_c2s k, k_s2c k))
  /\ e = Closed 0.
Proof.
  intros Us H L C. cbn [handle_new] in H. fold (accepts cfg) in H.
  destruct (find (accepts cfg) protos) as [p|] eqn:Fp.
  - destruct (find known_algorithm algs) as [a|] eqn:Fa.
    + destruct (export p a) as [c2s s2c] eqn:X. inversion H. subst resp e asked. clear H.
      rewrite wire_ke_response in C, L.
      set (R := mkResp p a (cookie_bytes 0 n_cookies a c2s s2c) (c_server cfg) (c_port cfg) false) in *.
      assert (W : wf_response R).
      { split; [exact Us|]. cbn [p_cookies R]. unfold zlen. rewrite cookie_bytes_length. reflexivity. }
      assert (PR : parse_response (ser_response R) = (Ok R, [])).
      { rewrite <- (app_nil_r (ser_response R)) at 1. unfold parse_response.
        apply capped_roundtrip; [|exact L]. intros t. apply response_roundtrip_raw. exact W. }
      unfold client_process in C. rewrite PR in C. cbn [fst res_bind] in C.
      cbn [p_protocol p_algorithm p_cookies p_server p_port R] in C.
      destruct (negb (zmem p protos) || negb (zmem a algs)); [discriminate|].
      destruct (negb (known_algorithm a)); [discriminate|]. rewrite X in C.
      apply find_first in Fp. apply find_first in Fa.
      assert (CB : cookie_bytes 0 n_cookies a c2s s2c <> []).
      { intros E. apply (f_equal (@length _)) in E. rewrite cookie_bytes_length in E. discriminate. }
      destruct (cookie_bytes 0 n_cookies a c2s s2c) as [|ck cks] eqn:CK; [contradiction|].
      assert (Fin : forall v, Ok (mkKex v p a
                      match c_port cfg with Some v0 => v0 | None => NTP_DEFAULT_PORT_Z end
                      match c_server cfg with Some n => n | None => name end c2s s2c (ck :: cks)) = Ok k ->
                    first_such (accepts cfg) protos (k_protocol k) /\ first_such known_algorithm algs (k_algorithm k)
                    /\ (k_c2s k, k_s2c k) = export (k_protocol k) (k_algorithm k)
                    /\ length (k_cookies k) = 8%nat
                    /\ (forall ck0, In ck0 (k_cookies k) -> dec_cookie ck0 = Some (k_algorithm k, k_c2s k, k_s2c k))
                    /\ Closed 0 = Closed 0).
      { intros v E. inversion E. subst k. cbn [k_protocol k_algorithm k_c2s k_s2c k_cookies]. rewrite X, <- CK.
        split; [exact Fp|]. split; [exact Fa|]. split; [reflexivity|].
        split; [apply cookie_bytes_length|]. split; [|reflexivity].
        intros ck0 Hin. apply (cookie_bytes_dec _ _ _ _ _ _ Hin). }
      destruct (p =? PROTO_NTPV4); [apply (Fin 4 C)|].
      destruct (p =? PROTO_DRAFT_NTPV5); [apply (Fin 5 C)|discriminate].
    + inversion H. subst. exfalso. revert C. unfold client_process.
      replace (fst (parse_response (wire [RRec (NextProtocolR [p]); RRec (AeadAlgorithmR []); RRec EndOfMessage])))
        with (@Err response E_NO_ALGORITHM); [discriminate|].
      unfold wire. cbn [realize concat app]. vm_compute. reflexivity.
  - inversion H. subst. exfalso. revert C. unfold client_process.
    replace (fst (parse_response (wire [RRec (NextProtocolR []); RRec EndOfMessage])))
      with (@Err response E_NO_PROTOCOL); [discriminate|].
    vm_compute. reflexivity.
Qed.

End SameKeys.

(* census of the decision constructs the model mirrors *)
Lemma ntske_census : TOKEN_TESTS = 2 /\ PROTOCOL_FIND = 1 /\ ALGORITHM_FIND = 1 /\ DEFAULT_NUMBER_OF_COOKIES = 8.
Proof. repeat split; reflexivity. Qed.
