(* Lemmas about Model/KeySet.v (C26).  The AEAD is a Section variable pair with
   the hypotheses of an ideal deterministic AEAD; nothing is an axiom. *)
From V Require Import Model.KeySet Gen.ConstKeyset.
From Coq Require Import ZifyBool.
Ltac Zify.zify_post_hook ::= Z.div_mod_to_equations.

(* ---------------------------------------------------------------- site census
   (numbers regenerated from the sources on every run; see tools/consts/keyset.py).
   The model has exactly one panic site (the index in encode_cookie); every other
   counted site was read and is guarded (unwraps on slices of checked length,
   `.expect` on encrypt into a buffer of sufficient size and on the clock).
   A change of these counts means the code has a site the model does not know. *)
Example census_keyset_rs :
  (CENSUS_UNWRAP, CENSUS_EXPECT, CENSUS_KEYS_INDEX, CENSUS_OUTPUT_INDEX, CENSUS_COOKIE_INDEX,
   CENSUS_BUF_INDEX) = (12, 2, 2, 3, 5, 6).
Proof. reflexivity. Qed.
Example layout_constants :
  (COOKIE_ID_LEN, COOKIE_LEN_LEN, COOKIE_NONCE_LEN, ENCODE_TAG_LEN, ENCODE_NONCE_LEN, FILE_HEADER_LEN, FILE_KEY_LEN)
  = (4, 2, 16, 16, 16, 20, 64).
Proof. reflexivity. Qed.

(* ---------------------------------------------------------------- lists *)

Lemma firstn_app_len {A} (a b : list A) n : length a = n -> firstn n (a ++ b) = a.
Proof.
  intros <-. rewrite firstn_app, Nat.sub_diag, firstn_all. cbn. apply app_nil_r.
Qed.

Lemma skipn_app_len {A} (a b : list A) n : length a = n -> skipn n (a ++ b) = b.
Proof.
  intros <-. rewrite skipn_app, Nat.sub_diag, skipn_all. reflexivity.
Qed.

Lemma skipn_app_le {A} (a b : list A) n : (n <= length a)%nat -> skipn n (a ++ b) = skipn n a ++ b.
Proof.
  intros H. rewrite skipn_app. replace (n - length a)%nat with 0%nat by lia. reflexivity.
Qed.

Lemma nth_error_skipn {A} (l : list A) n i : nth_error (skipn n l) i = nth_error l (n + i).
Proof.
  revert l. induction n; intros l; [reflexivity|]. destruct l; cbn; [destruct i; reflexivity|]. apply IHn.
Qed.

Lemma skipn_add {A} (l : list A) x y : skipn x (skipn y l) = skipn (y + x) l.
Proof.
  revert l. induction y; intros l; [reflexivity|]. destruct l; cbn; [apply skipn_nil|apply IHy].
Qed.

Lemma Ok_inj {A} (a b : A) : Ok a = Ok b -> a = b.
Proof. congruence. Qed.

Lemma lenZ_app {A} (a b : list A) : lenZ (a ++ b) = lenZ a + lenZ b.
Proof. unfold lenZ. rewrite app_length. lia. Qed.

Lemma lenZ_nonneg {A} (a : list A) : 0 <= lenZ a.
Proof. unfold lenZ. lia. Qed.

(* ---------------------------------------------------------------- big endian *)

Lemma be_enc_length n z : length (be_enc n z) = n.
Proof. revert z. induction n; intros; cbn; [reflexivity|]. rewrite app_length, IHn. cbn. lia. Qed.

Lemma be_dec_snoc l b : be_dec (l ++ [b]) = be_dec l * 256 + b.
Proof. unfold be_dec. rewrite fold_left_app. reflexivity. Qed.

Lemma be_dec_enc n z : be_dec (be_enc n z) = z mod 256 ^ Z.of_nat n.
Proof.
  revert z. induction n; intros z.
  - cbn. rewrite Z.mod_1_r. reflexivity.
  - cbn [be_enc]. rewrite be_dec_snoc, IHn.
    rewrite Nat2Z.inj_succ, Z.pow_succ_r by lia.
    rewrite Z.rem_mul_r by lia. lia.
Qed.

Lemma be_enc_bytes_ok n z : bytes_ok (be_enc n z).
Proof.
  revert z. induction n; intros z; cbn; [constructor|].
  apply Forall_app. split; [apply IHn|]. constructor; [|constructor]. unfold is_byte. lia.
Qed.

Lemma be_dec_range l : bytes_ok l -> 0 <= be_dec l < 256 ^ lenZ l.
Proof.
  induction l using rev_ind; intros H.
  - cbn. lia.
  - apply Forall_app in H. destruct H as [H1 H2]. inversion H2; subst.
    rewrite be_dec_snoc, lenZ_app. change (lenZ [x]) with 1.
    rewrite Z.pow_add_r by (try apply lenZ_nonneg; lia).
    specialize (IHl H1). unfold is_byte in *. nia.
Qed.

Lemma be_enc_dec l : bytes_ok l -> be_enc (length l) (be_dec l) = l.
Proof.
  induction l using rev_ind; intros H; [reflexivity|].
  apply Forall_app in H. destruct H as [H1 H2]. inversion H2; subst. unfold is_byte in *.
  rewrite app_length, be_dec_snoc. cbn [length]. rewrite Nat.add_1_r. cbn [be_enc].
  replace ((be_dec l * 256 + x) / 256) with (be_dec l) by lia.
  replace ((be_dec l * 256 + x) mod 256) with x by lia.
  rewrite IHl by assumption. reflexivity.
Qed.

Lemma bytes_ok_firstn n l : bytes_ok l -> bytes_ok (firstn n l).
Proof.
  intros H. unfold bytes_ok in *. rewrite Forall_forall in *. intros x Hx. apply H.
  rewrite <- (firstn_skipn n l). apply in_or_app. left. exact Hx.
Qed.

Lemma bytes_ok_skipn n l : bytes_ok l -> bytes_ok (skipn n l).
Proof.
  intros H. unfold bytes_ok in *. rewrite Forall_forall in *. intros x Hx. apply H.
  rewrite <- (firstn_skipn n l). apply in_or_app. right. exact Hx.
Qed.

(* ---------------------------------------------------------------- cookie layout *)

Lemma cookie_fields (I L N R : bytes) :
  length I = 4%nat -> length L = 2%nat -> length N = 16%nat ->
  let b := I ++ L ++ N ++ R in
  ck_id b = be_dec I /\ ck_len b = be_dec L /\ ck_nonce b = N /\
  skipn (Z.to_nat hdr_len) b = R /\ lenZ b = hdr_len + lenZ R.
Proof.
  intros HI HL HN b. subst b. unfold ck_id, ck_len, ck_nonce, hdr_len.
  change (Z.to_nat COOKIE_ID_LEN) with 4%nat. change (Z.to_nat COOKIE_LEN_LEN) with 2%nat.
  change (Z.to_nat COOKIE_NONCE_LEN) with 16%nat.
  change (Z.to_nat (COOKIE_ID_LEN + COOKIE_LEN_LEN)) with 6%nat.
  change (Z.to_nat (COOKIE_ID_LEN + COOKIE_LEN_LEN + COOKIE_NONCE_LEN)) with 22%nat.
  change (COOKIE_ID_LEN + COOKIE_LEN_LEN + COOKIE_NONCE_LEN) with 22.
  repeat split.
  - rewrite firstn_app_len by assumption. reflexivity.
  - rewrite skipn_app_len by assumption. rewrite firstn_app_len by assumption. reflexivity.
  - rewrite (app_assoc I L). rewrite skipn_app_len by (rewrite app_length; lia).
    apply firstn_app_len. assumption.
  - rewrite (app_assoc I L), (app_assoc (I ++ L) N).
    apply skipn_app_len. rewrite !app_length. lia.
  - rewrite !lenZ_app. unfold lenZ. lia.
Qed.

(* every byte string of at least 22 bytes splits into the four fields *)
Lemma cookie_split (b : bytes) :
  hdr_len <= lenZ b ->
  exists I L N R, b = I ++ L ++ N ++ R /\ length I = 4%nat /\ length L = 2%nat /\ length N = 16%nat.
Proof.
  unfold hdr_len, lenZ. change (COOKIE_ID_LEN + COOKIE_LEN_LEN + COOKIE_NONCE_LEN) with 22. intros H.
  exists (firstn 4 b), (firstn 2 (skipn 4 b)), (firstn 16 (skipn 6 b)), (skipn 22 b).
  repeat split.
  - rewrite <- (firstn_skipn 4 b) at 1. f_equal.
    rewrite <- (firstn_skipn 2 (skipn 4 b)) at 1. f_equal. rewrite skipn_add. cbn [Nat.add].
    rewrite <- (firstn_skipn 16 (skipn 6 b)) at 1. f_equal. rewrite skipn_add. reflexivity.
  - rewrite firstn_length. lia.
  - rewrite firstn_length, skipn_length. lia.
  - rewrite firstn_length, skipn_length. lia.
Qed.

Lemma parse_plaintext_ok c : wf_cookie c -> parse_plaintext (plaintext c) = Ok c.
Proof.
  destruct c as [alg s c]. unfold wf_cookie, plaintext, lenZ. cbn [c_alg c_s2c c_c2s].
  intros (_ & _ & [[-> [Hs Hc]] | [-> [Hs Hc]]]).
  - change (be_enc 2 ALG_SIV_CMAC_256) with [0; 15]. cbn [app parse_plaintext].
    change (be_dec [0; 15] =? ALG_SIV_CMAC_256) with true. cbv iota.
    unfold lenZ. rewrite app_length.
    replace (Z.of_nat (length s + length c) =? 2 * KEY_WIDTH_256) with true by (symmetry; apply Z.eqb_eq; lia).
    rewrite firstn_app_len, skipn_app_len by lia. reflexivity.
  - change (be_enc 2 ALG_SIV_CMAC_512) with [0; 17]. cbn [app parse_plaintext].
    change (be_dec [0; 17] =? ALG_SIV_CMAC_256) with false.
    change (be_dec [0; 17] =? ALG_SIV_CMAC_512) with true. cbv iota.
    unfold lenZ. rewrite app_length.
    replace (Z.of_nat (length s + length c) =? 2 * KEY_WIDTH_512) with true by (symmetry; apply Z.eqb_eq; lia).
    rewrite firstn_app_len, skipn_app_len by lia. reflexivity.
Qed.

Lemma parse_plaintext_inv p c : bytes_ok p -> parse_plaintext p = Ok c -> p = plaintext c /\ wf_cookie c.
Proof.
  intros Hp. destruct p as [|b0 [|b1 kb]]; try discriminate. cbn [parse_plaintext].
  assert (Hkb : bytes_ok kb).
  { unfold bytes_ok in *. rewrite Forall_forall in *. intros x Hx. apply Hp. cbn. auto. }
  assert (Hb : be_enc 2 (be_dec [b0; b1]) = [b0; b1]).
  { apply (be_enc_dec [b0; b1]). unfold bytes_ok in *. rewrite Forall_forall in *.
    intros x [<-|[<-|[]]]; apply Hp; cbn; auto. }
  destruct (be_dec [b0; b1] =? ALG_SIV_CMAC_256) eqn:E1.
  - destruct (lenZ kb =? 2 * KEY_WIDTH_256) eqn:E2; [|discriminate]. intros Hc.
    assert (Hc' : c = {| c_alg := be_dec [b0; b1]; c_s2c := firstn (Z.to_nat KEY_WIDTH_256) kb;
                         c_c2s := skipn (Z.to_nat KEY_WIDTH_256) kb |}) by congruence.
    subst c. clear Hc.
    apply Z.eqb_eq in E1, E2. unfold plaintext, wf_cookie. cbn [c_alg c_s2c c_c2s]. split.
    + rewrite Hb, firstn_skipn. reflexivity.
    + split; [apply bytes_ok_firstn, Hkb|]. split; [apply bytes_ok_skipn, Hkb|].
      left. unfold lenZ in *. rewrite firstn_length, skipn_length. change (Z.to_nat KEY_WIDTH_256) with 32%nat.
      change KEY_WIDTH_256 with 32 in *. lia.
  - destruct (be_dec [b0; b1] =? ALG_SIV_CMAC_512) eqn:E3; [|discriminate].
    destruct (lenZ kb =? 2 * KEY_WIDTH_512) eqn:E2; [|discriminate]. intros Hc.
    assert (Hc' : c = {| c_alg := be_dec [b0; b1]; c_s2c := firstn (Z.to_nat KEY_WIDTH_512) kb;
                         c_c2s := skipn (Z.to_nat KEY_WIDTH_512) kb |}) by congruence.
    subst c. clear Hc.
    apply Z.eqb_eq in E3, E2. unfold plaintext, wf_cookie. cbn [c_alg c_s2c c_c2s]. split.
    + rewrite Hb, firstn_skipn. reflexivity.
    + split; [apply bytes_ok_firstn, Hkb|]. split; [apply bytes_ok_skipn, Hkb|].
      right. unfold lenZ in *. rewrite firstn_length, skipn_length. change (Z.to_nat KEY_WIDTH_512) with 64%nat.
      change KEY_WIDTH_512 with 64 in *. lia.
Qed.

Lemma parse_plaintext_err p : parse_plaintext p = Err err_decrypt \/ exists c, parse_plaintext p = Ok c.
Proof.
  destruct p as [|b0 [|b1 kb]]; cbn [parse_plaintext]; auto.
  repeat match goal with |- context [if ?x then _ else _] => destruct x end; eauto.
Qed.

Lemma plaintext_len c : wf_cookie c -> lenZ (plaintext c) = 66 \/ lenZ (plaintext c) = 130.
Proof.
  intros H. unfold plaintext. rewrite !lenZ_app.
  assert (lenZ (be_enc 2 (c_alg c)) = 2) by (unfold lenZ; rewrite be_enc_length; reflexivity).
  destruct H as (_ & _ & H). change KEY_WIDTH_256 with 32 in H. change KEY_WIDTH_512 with 64 in H. lia.
Qed.

Lemma plaintext_bytes_ok c : wf_cookie c -> bytes_ok (plaintext c).
Proof.
  intros (H1 & H2 & _). unfold plaintext. apply Forall_app. split; [apply be_enc_bytes_ok|].
  apply Forall_app. split; assumption.
Qed.

(* ---------------------------------------------------------------- rotation *)

Lemma wrap_range z : 0 <= wrap 32 z < 2 ^ 32.
Proof. unfold wrap. apply Z.mod_pos_bound. reflexivity. Qed.

Lemma wrap_small z : 0 <= z < 2 ^ 32 -> wrap 32 z = z.
Proof. unfold wrap. intros. apply Z.mod_small. assumption. Qed.

Lemma wrap_add_l a b : wrap 32 (a + wrap 32 b) = wrap 32 (a + b).
Proof. unfold wrap. rewrite Zplus_mod_idemp_r. reflexivity. Qed.

Lemma wrap_add_ll a b : wrap 32 (wrap 32 a + b) = wrap 32 (a + b).
Proof. unfold wrap. rewrite Zplus_mod_idemp_l. reflexivity. Qed.

Lemma wrap_sub a o d : wrap 32 (wrap 32 (a + o) - wrap 32 (o + d)) = wrap 32 (a - d).
Proof. unfold wrap. rewrite <- Zminus_mod. f_equal. lia. Qed.

Lemma rotate_keys h ks f : keys (rotate h ks f) = skipn (length (keys ks) - h) (keys ks ++ [f]).
Proof. cbn. rewrite skipn_app_le by lia. reflexivity. Qed.

Lemma rotate_many_cons h ks f fs : rotate_many h ks (f :: fs) = rotate_many h (rotate h ks f) fs.
Proof. reflexivity. Qed.

Lemma rotate_many_snoc h ks fs f : rotate_many h ks (fs ++ [f]) = rotate h (rotate_many h ks fs) f.
Proof. unfold rotate_many. rewrite fold_left_app. reflexivity. Qed.

(* closed form of any non-empty sequence of rotations *)
Lemma rotate_many_closed fs : forall h ks, fs <> [] ->
  let D := (length (keys ks) + length fs - (h + 1))%nat in
  keys (rotate_many h ks fs) = skipn D (keys ks ++ fs) /\
  id_offset (rotate_many h ks fs) = wrap 32 (id_offset ks + Z.of_nat D).
Proof.
  induction fs as [|f fs IH]; intros h ks Hne; [congruence|].
  destruct fs as [|g fs'].
  - cbn [rotate_many fold_left length]. split.
    + rewrite rotate_keys. f_equal. lia.
    + cbn [rotate id_offset]. rewrite wrap_add_l. f_equal. f_equal. lia.
  - rewrite rotate_many_cons. destruct (IH h (rotate h ks f)) as [Hk Ho]; [discriminate|].
    cbv zeta. rewrite Hk, Ho. clear Hk Ho IH.
    set (d1 := (length (keys ks) - h)%nat).
    assert (Hl : length (keys (rotate h ks f)) = (length (keys ks) + 1 - d1)%nat).
    { rewrite rotate_keys, skipn_length, app_length. cbn. lia. }
    rewrite Hl. split.
    + rewrite rotate_keys. fold d1.
      rewrite <- skipn_app_le by (rewrite app_length; cbn; lia).
      rewrite <- app_assoc. cbn [app]. rewrite skipn_add. f_equal.
      cbn [length]. lia.
    + cbn [rotate id_offset]. fold d1. rewrite wrap_add_l, wrap_add_ll. f_equal.
      cbn [length]. lia.
Qed.

Lemma rotate_many_primary h ks fs : fs <> [] ->
  primary (rotate_many h ks fs) = wrap 32 (wrap 32 (lenZ (keys (rotate_many h ks fs))) - 1).
Proof.
  intros H. destruct (exists_last H) as [fs' [f ->]]. rewrite rotate_many_snoc. reflexivity.
Qed.

Lemma rotate_length_le h ks f : lenZ (keys (rotate h ks f)) <= lenZ (keys ks) + 1.
Proof. unfold lenZ. rewrite rotate_keys, skipn_length, app_length. cbn. lia. Qed.

Lemma rotate_many_length_le h fs : forall ks, lenZ (keys (rotate_many h ks fs)) <= lenZ (keys ks) + lenZ fs.
Proof.
  induction fs as [|f fs IH]; intros ks.
  - cbn. unfold lenZ. cbn. lia.
  - rewrite rotate_many_cons. specialize (IH (rotate h ks f)). pose proof (rotate_length_le h ks f).
    unfold lenZ in *. cbn [length]. lia.
Qed.

Lemma rotate_newest h ks f : lenZ (keys ks) + 1 < 2 ^ 32 -> newest (rotate h ks f).
Proof.
  intros H. pose proof (rotate_length_le h ks f) as Hl.
  assert (H1 : 1 <= lenZ (keys (rotate h ks f))).
  { unfold lenZ. rewrite rotate_keys, skipn_length, app_length. cbn. lia. }
  assert (Hp : primary (rotate h ks f) = lenZ (keys (rotate h ks f)) - 1).
  { cbn [rotate primary]. change (skipn (length (keys ks) - h) (keys ks) ++ [f]) with (keys (rotate h ks f)).
    rewrite (wrap_small (lenZ _)) by lia. apply wrap_small. lia. }
  unfold newest, KeysOk. rewrite Hp. repeat split; try lia.
  - cbn [rotate id_offset]. apply wrap_range.
  - cbn [rotate id_offset]. apply wrap_range.
Qed.

Lemma rotate_many_newest h fs ks :
  newest ks -> lenZ (keys ks) + lenZ fs < 2 ^ 32 -> newest (rotate_many h ks fs).
Proof.
  intros Hn Hb. destruct fs as [|f0 fs0] eqn:E; [exact Hn|]. rewrite <- E in *.
  assert (Hne : fs <> []) by (rewrite E; discriminate).
  destruct (exists_last Hne) as [fs' [f ->]]. rewrite rotate_many_snoc. apply rotate_newest.
  pose proof (rotate_many_length_le h fs' ks). rewrite lenZ_app in Hb. change (lenZ [f]) with 1 in Hb. lia.
Qed.

Lemma new_keyset_newest k : newest (new_keyset k).
Proof. unfold newest, KeysOk, new_keyset, lenZ. cbn. lia. Qed.

Lemma nth_key_nth_error l i : 0 <= i -> nth_key l i = nth_error l (Z.to_nat i).
Proof.
  intros H. unfold nth_key. destruct ((0 <=? i) && (i <? lenZ l)) eqn:E; [reflexivity|].
  symmetry. apply nth_error_None. unfold lenZ in *. lia.
Qed.

(* ---------------------------------------------------------------- encode / decode *)

Section AEAD.
  Variable enc : bytes -> bytes -> bytes -> bytes -> bytes.
  Variable dec : bytes -> bytes -> bytes -> bytes -> option bytes.

  Hypothesis dec_enc : aead_correct enc dec.
  Hypothesis dec_sound : aead_sound enc dec.
  Hypothesis enc_len : aead_tag16 enc.
  Hypothesis dec_bytes : aead_bytes dec.
  Hypothesis key_sep : aead_key_separation enc dec.

  Lemma encode_ok ks c nonce :
    KeysOk ks -> exists k, nth_error (keys ks) (Z.to_nat (primary ks)) = Some k /\
      encode_cookie enc ks c nonce =
        Ok (be_enc 4 (wrap 32 (primary ks + id_offset ks))
            ++ be_enc 2 (wrap 16 (lenZ (enc k nonce [] (plaintext c)))) ++ nonce ++ enc k nonce [] (plaintext c)).
  Proof using dec enc.
    clear dec_enc dec_sound enc_len dec_bytes key_sep.
    intros [Hp _]. unfold encode_cookie. rewrite nth_key_nth_error by lia.
    destruct (nth_error (keys ks) (Z.to_nat (primary ks))) as [k|] eqn:E.
    - exists k. split; reflexivity.
    - apply nth_error_None in E. unfold lenZ in Hp. lia.
  Qed.

  Lemma encode_panic_iff ks c nonce :
    0 <= primary ks ->
    ((exists s, encode_cookie enc ks c nonce = Panic s) <-> lenZ (keys ks) <= primary ks).
  Proof using dec enc.
    clear dec_enc dec_sound enc_len dec_bytes key_sep.
    intros H0. unfold encode_cookie. rewrite nth_key_nth_error by lia.
    destruct (nth_error (keys ks) (Z.to_nat (primary ks))) as [k|] eqn:E.
    - split; [intros [s Hs]; discriminate|]. intros H.
      assert (nth_error (keys ks) (Z.to_nat (primary ks)) <> None) by congruence.
      apply nth_error_Some in H1. unfold lenZ in H. lia.
    - split; [|eauto]. intros _. apply nth_error_None in E. unfold lenZ. lia.
  Qed.

  Lemma decode_total ks b : decode_cookie dec ks b = Err err_decrypt \/ exists c, decode_cookie dec ks b = Ok c.
  Proof using dec enc.
    clear dec_enc dec_sound enc_len dec_bytes key_sep.
    unfold decode_cookie.
    destruct (lenZ b <? hdr_len); auto.
    destruct (nth_key (keys ks) _); auto.
    destruct (lenZ (skipn (Z.to_nat hdr_len) b) <? ck_len b); auto.
    destruct (dec _ _ _ _); auto. apply parse_plaintext_err.
  Qed.

  (* decoding the bytes of a genuine cookie under a key set [ks'] *)
  Lemma decode_genuine_bytes ks' c nonce k id :
    wf_cookie c -> lenZ nonce = 16 -> 0 <= id < 2 ^ 32 ->
    let ct := enc k nonce [] (plaintext c) in
    let b := be_enc 4 id ++ be_enc 2 (wrap 16 (lenZ ct)) ++ nonce ++ ct in
    decode_cookie dec ks' b =
      match nth_error (keys ks') (Z.to_nat (wrap 32 (id - id_offset ks'))) with
      | None => Err err_decrypt
      | Some k' => match dec k' nonce [] ct with None => Err err_decrypt | Some p => parse_plaintext p end
      end.
  Proof using dec enc_len.
    clear dec_enc dec_sound dec_bytes key_sep.
    intros Hwf Hn Hid ct b.
    assert (Hct : lenZ ct = 82 \/ lenZ ct = 146).
    { unfold ct. rewrite enc_len. change ENCODE_TAG_LEN with 16. destruct (plaintext_len c Hwf); lia. }
    destruct (cookie_fields (be_enc 4 id) (be_enc 2 (wrap 16 (lenZ ct))) nonce ct) as (Fi & Fl & Fn & Fr & Flen);
      try apply be_enc_length. { unfold lenZ in Hn. lia. }
    fold b in Fi, Fl, Fn, Fr, Flen.
    assert (Hl : ck_len b = lenZ ct).
    { rewrite Fl, be_dec_enc. unfold wrap. change (256 ^ Z.of_nat 2) with 65536. change (2 ^ 16) with 65536.
      rewrite Z.mod_mod by lia. apply Z.mod_small. lia. }
    unfold decode_cookie. rewrite nth_key_nth_error by apply (proj1 (wrap_range _)).
    unfold ck_ct. rewrite Fr, Hl, Fn, Fi, Flen.
    replace (hdr_len + lenZ ct <? hdr_len) with false by (symmetry; apply Z.ltb_ge; lia).
    rewrite be_dec_enc. change (256 ^ Z.of_nat 4) with (2 ^ 32). rewrite (Z.mod_small id) by assumption.
    destruct (nth_error (keys ks') _) as [k'|]; [|reflexivity].
    rewrite Z.ltb_irrefl. unfold lenZ. rewrite Nat2Z.id, firstn_all. reflexivity.
  Qed.

  (* a cookie issued by [ks] decodes under [ks'] iff its id selects the issuing key there *)
  Lemma decode_encode_hit ks ks' c nonce b k :
    KeysOk ks -> wf_cookie c -> lenZ nonce = 16 ->
    encode_cookie enc ks c nonce = Ok b ->
    nth_error (keys ks) (Z.to_nat (primary ks)) = Some k ->
    nth_error (keys ks') (Z.to_nat (wrap 32 (wrap 32 (primary ks + id_offset ks) - id_offset ks'))) = Some k ->
    decode_cookie dec ks' b = Ok c.
  Proof using dec dec_enc enc_len.
    clear dec_sound dec_bytes key_sep.
    intros Hok Hwf Hn He Hk Hk'. destruct (encode_ok ks c nonce Hok) as (k0 & Hk0 & He0).
    assert (k0 = k) by congruence. subst k0. rewrite He in He0. apply Ok_inj in He0. subst b.
    rewrite decode_genuine_bytes by (try assumption; apply wrap_range).
    rewrite Hk', dec_enc by (apply plaintext_bytes_ok; assumption). apply parse_plaintext_ok. assumption.
  Qed.

  Lemma decode_encode_miss ks ks' c nonce b :
    KeysOk ks -> wf_cookie c -> lenZ nonce = 16 ->
    encode_cookie enc ks c nonce = Ok b ->
    nth_error (keys ks') (Z.to_nat (wrap 32 (wrap 32 (primary ks + id_offset ks) - id_offset ks'))) = None ->
    decode_cookie dec ks' b = Err err_decrypt.
  Proof using dec enc_len.
    clear dec_enc dec_sound dec_bytes key_sep.
    intros Hok Hwf Hn He Hk'. destruct (encode_ok ks c nonce Hok) as (k0 & Hk0 & He0).
    rewrite He in He0. apply Ok_inj in He0. subst b.
    rewrite decode_genuine_bytes by (try assumption; apply wrap_range).
    rewrite Hk'. reflexivity.
  Qed.

  Theorem roundtrip ks c nonce :
    KeysOk ks -> wf_cookie c -> lenZ nonce = 16 ->
    exists b, encode_cookie enc ks c nonce = Ok b /\ decode_cookie dec ks b = Ok c.
  Proof using dec dec_enc enc_len.
    clear dec_sound dec_bytes key_sep.
    intros Hok Hwf Hn. destruct (encode_ok ks c nonce Hok) as (k & Hk & He).
    eexists. split; [exact He|]. eapply decode_encode_hit; eauto.
    replace (wrap 32 (wrap 32 (primary ks + id_offset ks) - id_offset ks)) with (primary ks); [assumption|].
    destruct Hok as (Hp & Ho & Hl). unfold wrap. change (2 ^ 32) with 4294967296 in *. lia.
  Qed.

  (* the rotation window, for a cookie issued under any valid [primary] *)
  Theorem window_general h ks fs c nonce :
    KeysOk ks -> wf_cookie c -> lenZ nonce = 16 -> lenZ (keys ks) + lenZ fs < 2 ^ 32 ->
    exists b, encode_cookie enc ks c nonce = Ok b /\
      decode_cookie dec (rotate_many h ks fs) b =
        if (match fs with [] => true | _ => (length (keys ks) + length fs - (h + 1) <=? Z.to_nat (primary ks))%nat end)
        then Ok c else Err err_decrypt.
  Proof using dec dec_enc enc_len.
    clear dec_sound dec_bytes key_sep.
    intros Hok Hwf Hn Hb. destruct (roundtrip ks c nonce Hok Hwf Hn) as (b & He & Hd).
    exists b. split; [exact He|].
    destruct fs as [|f0 fs0] eqn:Efs; [exact Hd|]. rewrite <- Efs in *.
    assert (Hne : fs <> []) by (rewrite Efs; discriminate).
    destruct (rotate_many_closed fs h ks Hne) as [Hk Ho]. cbv zeta in Hk, Ho.
    set (D := (length (keys ks) + length fs - (h + 1))%nat) in *.
    destruct (encode_ok ks c nonce Hok) as (k & Hkp & _).
    destruct Hok as (Hp & Hoff & Hl). unfold lenZ in *.
    assert (Hidx : wrap 32 (wrap 32 (primary ks + id_offset ks) - id_offset (rotate_many h ks fs))
                   = wrap 32 (primary ks - Z.of_nat D)).
    { rewrite Ho. apply wrap_sub. }
    replace (match fs with [] => true | _ :: _ => (D <=? Z.to_nat (primary ks))%nat end)
      with (D <=? Z.to_nat (primary ks))%nat by (rewrite Efs; reflexivity).
    destruct (D <=? Z.to_nat (primary ks))%nat eqn:ED.
    - apply Nat.leb_le in ED.
      eapply decode_encode_hit; eauto; [unfold KeysOk, lenZ; lia|].
      rewrite Hidx, wrap_small by lia. rewrite Hk, nth_error_skipn.
      replace (D + Z.to_nat (primary ks - Z.of_nat D))%nat with (Z.to_nat (primary ks)) by lia.
      rewrite nth_error_app1 by lia. exact Hkp.
    - apply Nat.leb_gt in ED.
      eapply decode_encode_miss; eauto; [unfold KeysOk, lenZ; lia|].
      rewrite Hidx. apply nth_error_None. rewrite Hk, skipn_length, app_length.
      unfold wrap. change (2 ^ 32) with 4294967296 in *.
      assert (Z.of_nat D <= Z.of_nat (length (keys ks)) + Z.of_nat (length fs)) by lia.
      lia.
  Qed.

  (* the window for cookies issued under the newest key (what the provider does) *)
  Theorem window h ks0 fs1 fs2 c nonce :
    newest ks0 -> wf_cookie c -> lenZ nonce = 16 ->
    lenZ (keys ks0) + lenZ fs1 + lenZ fs2 < 2 ^ 32 ->
    let ks1 := rotate_many h ks0 fs1 in
    let ks2 := rotate_many h ks1 fs2 in
    exists b, encode_cookie enc ks1 c nonce = Ok b /\
      decode_cookie dec ks2 b = if (length fs2 <=? h)%nat then Ok c else Err err_decrypt.
  Proof using dec dec_enc enc_len.
    clear dec_sound dec_bytes key_sep.
    intros Hn Hwf Hnl Hb ks1 ks2.
    pose proof (lenZ_nonneg fs2) as Hf2. pose proof (lenZ_nonneg fs1) as Hf1.
    assert (Hn1 : newest ks1) by (apply rotate_many_newest; [assumption|lia]).
    pose proof (rotate_many_length_le h fs1 ks0) as Hl1. fold ks1 in Hl1.
    destruct Hn1 as [Hok1 Hp1].
    destruct (window_general h ks1 fs2 c nonce Hok1 Hwf Hnl) as (b & He & Hd); [lia|].
    exists b. split; [exact He|]. fold ks2 in Hd. rewrite Hd.
    destruct fs2 as [|f fs2']; [reflexivity|].
    destruct Hok1 as (Hp & _ & _). unfold lenZ in *.
    destruct (length (f :: fs2') <=? h)%nat eqn:E1.
    - apply Nat.leb_le in E1. replace (_ <=? _)%nat with true; [reflexivity|]. symmetry. apply Nat.leb_le. lia.
    - apply Nat.leb_gt in E1. replace (_ <=? _)%nat with false; [reflexivity|]. symmetry. apply Nat.leb_gt. lia.
  Qed.

  (* new cookies are issued under the newest key *)
  Theorem newest_key h ks fs f c nonce :
    lenZ (keys ks) + lenZ fs + 1 < 2 ^ 32 ->
    let ks' := rotate_many h ks (fs ++ [f]) in
    newest ks' /\ last (keys ks') [] = f /\
    encode_cookie enc ks' c nonce =
      Ok (be_enc 4 (wrap 32 (primary ks' + id_offset ks'))
          ++ be_enc 2 (wrap 16 (lenZ (enc f nonce [] (plaintext c)))) ++ nonce ++ enc f nonce [] (plaintext c)).
  Proof using dec enc.
    clear dec_enc dec_sound enc_len dec_bytes key_sep.
    intros Hb ks'. subst ks'. rewrite rotate_many_snoc.
    set (ks1 := rotate_many h ks fs).
    pose proof (rotate_many_length_le h fs ks) as Hl. fold ks1 in Hl.
    assert (Hn : newest (rotate h ks1 f)) by (apply rotate_newest; lia).
    split; [exact Hn|]. split.
    - cbn [rotate keys]. apply last_last.
    - destruct Hn as [Hok Hp]. destruct (encode_ok (rotate h ks1 f) c nonce Hok) as (k & Hk & He).
      rewrite He. replace k with f; [reflexivity|].
      rewrite Hp in Hk. cbn [rotate keys] in Hk. unfold lenZ in Hk.
      rewrite app_length in Hk. cbn [length] in Hk.
      rewrite nth_error_app2 in Hk by lia.
      replace (Z.to_nat (Z.of_nat (length (skipn (length (keys ks1) - h) (keys ks1)) + 1) - 1)
               - length (skipn (length (keys ks1) - h) (keys ks1)))%nat with 0%nat in Hk by lia.
      cbn in Hk. congruence.
  Qed.

  (* ---------------------------------------------------------------- integrity *)

  (* whatever decodes is, within its declared length, the encoding under one of
     the current keys of exactly what it decodes to *)
  Theorem decode_genuine ks b c :
    decode_cookie dec ks b = Ok c ->
    exists i k, nth_error (keys ks) i = Some k /\
      Z.of_nat i = wrap 32 (ck_id b - id_offset ks) /\
      hdr_len <= lenZ b /\ ck_len b <= lenZ (skipn (Z.to_nat hdr_len) b) /\
      dec k (ck_nonce b) [] (ck_ct b) = Some (plaintext c) /\
      ck_ct b = enc k (ck_nonce b) [] (plaintext c) /\ wf_cookie c.
  Proof using dec dec_sound dec_bytes.
    clear dec_enc enc_len key_sep.
    unfold decode_cookie. rewrite nth_key_nth_error by apply (proj1 (wrap_range _)).
    destruct (lenZ b <? hdr_len) eqn:E0; [discriminate|]. apply Z.ltb_ge in E0.
    destruct (nth_error (keys ks) _) as [k|] eqn:Ek; [|discriminate].
    destruct (lenZ (skipn (Z.to_nat hdr_len) b) <? ck_len b) eqn:E1; [discriminate|]. apply Z.ltb_ge in E1.
    destruct (dec k (ck_nonce b) [] (ck_ct b)) as [p|] eqn:Ed; [|discriminate].
    intros Hp. destruct (parse_plaintext_inv p c (dec_bytes _ _ _ _ _ Ed) Hp) as [-> Hwf].
    exists (Z.to_nat (wrap 32 (ck_id b - id_offset ks))), k.
    pose proof (wrap_range (ck_id b - id_offset ks)).
    split; [exact Ek|]. split; [lia|]. split; [lia|]. split; [lia|]. split; [exact Ed|].
    split; [apply dec_sound; exact Ed|exact Hwf].
  Qed.

  Theorem tamper ks c nonce b b' :
    KeysOk ks -> NoDup (keys ks) -> wf_cookie c -> lenZ nonce = 16 ->
    encode_cookie enc ks c nonce = Ok b ->
    bytes_ok (firstn 6 b') -> firstn (length b) b' <> b ->
    (forall k, nth_error (keys ks) (Z.to_nat (primary ks)) = Some k ->
       unforged dec ks [(k, nonce, enc k nonce [] (plaintext c))] b') ->
    decode_cookie dec ks b' = Err err_decrypt.
  Proof using dec dec_sound dec_bytes enc_len.
    clear dec_enc key_sep.
    intros Hok Hnd Hwf Hn He Hb' Hdiff Hunf.
    destruct (decode_total ks b') as [H|[c' Hd]]; [exact H|]. exfalso. apply Hdiff.
    destruct (encode_ok ks c nonce Hok) as (kp & Hkp & He0). rewrite He in He0. apply Ok_inj in He0. subst b.
    specialize (Hunf kp Hkp).
    destruct (decode_genuine ks b' c' Hd) as (i & k & Hk & Hi & Hlen & Hctl & Hdec & Hct & Hwf').
    specialize (Hunf k (plaintext c') (nth_error_In _ _ Hk) Hdec).
    destruct Hunf as [Heq|[]].
    assert (Hk_eq : k = kp) by congruence.
    assert (Hnonce : ck_nonce b' = nonce) by congruence.
    assert (Hcteq : ck_ct b' = enc kp nonce [] (plaintext c)) by congruence.
    clear Heq. subst k.
    (* same key, hence same index *)
    assert (Hip : i = Z.to_nat (primary ks)).
    { apply (proj1 (NoDup_nth_error (keys ks)) Hnd).
      - apply nth_error_Some. congruence.
      - congruence. }
    destruct Hok as (Hp & Ho & Hl).
    destruct (cookie_split b' Hlen) as (I & L & N & R & -> & HI & HL & HN).
    destruct (cookie_fields I L N R HI HL HN) as (Fi & Fl & Fn & Fr & Flen). cbv zeta in *.
    assert (HbIL : bytes_ok (I ++ L)).
    { rewrite (app_assoc I L) in Hb'. rewrite firstn_app_len in Hb' by (rewrite app_length; lia). exact Hb'. }
    apply Forall_app in HbIL. destruct HbIL as [HbI HbL].
    assert (Hid : ck_id (I ++ L ++ N ++ R) = wrap 32 (primary ks + id_offset ks)).
    { pose proof (be_dec_range I HbI) as RI. unfold lenZ in RI. rewrite HI in RI.
      change (256 ^ Z.of_nat 4) with 4294967296 in RI. rewrite <- Fi in RI.
      subst i. unfold wrap in *. change (2 ^ 32) with 4294967296 in *. lia. }
    set (CT := enc kp nonce [] (plaintext c)) in *.
    assert (HctR : ck_ct (I ++ L ++ N ++ R) = firstn (Z.to_nat (be_dec L)) R).
    { unfold ck_ct. rewrite Fr, Fl. reflexivity. }
    rewrite Fr, Fl in Hctl.
    assert (HL' : be_dec L = lenZ CT).
    { rewrite <- Hcteq, HctR. unfold lenZ in *. rewrite firstn_length.
      pose proof (be_dec_range L HbL) as [HL0 _]. lia. }
    assert (HCT : lenZ CT = 82 \/ lenZ CT = 146).
    { unfold CT. rewrite enc_len. change ENCODE_TAG_LEN with 16. destruct (plaintext_len c Hwf); lia. }
    rewrite !app_length, !be_enc_length. unfold lenZ in Hn.
    replace (4 + (2 + (length nonce + length CT)))%nat with (length (I ++ L ++ N) + length CT)%nat
      by (rewrite !app_length; lia).
    replace (I ++ L ++ N ++ R) with ((I ++ L ++ N) ++ R) by (rewrite <- !app_assoc; reflexivity).
    rewrite firstn_app_2. rewrite <- !app_assoc. f_equal; [|f_equal; [|f_equal]].
    - rewrite <- Hid, Fi. rewrite <- HI. symmetry. apply be_enc_dec. assumption.
    - unfold wrap. change (2 ^ 16) with 65536. rewrite Z.mod_small by lia.
      rewrite <- HL', <- HL. symmetry. apply be_enc_dec. assumption.
    - rewrite <- Hnonce, Fn. reflexivity.
    - transitivity (ck_ct (I ++ L ++ N ++ R)); [|exact Hcteq].
      rewrite HctR, HL'. unfold lenZ. rewrite Nat2Z.id. reflexivity.
  Qed.

  (* cookies made under a key that is not in the set do not decode *)
  Theorem foreign ks ksf c nonce b :
    KeysOk ksf -> wf_cookie c -> lenZ nonce = 16 ->
    encode_cookie enc ksf c nonce = Ok b ->
    Forall bytes_ok (keys ks) -> Forall bytes_ok (keys ksf) ->
    (forall k, nth_error (keys ksf) (Z.to_nat (primary ksf)) = Some k -> ~ In k (keys ks)) ->
    decode_cookie dec ks b = Err err_decrypt.
  Proof using dec enc_len key_sep.
    clear dec_enc dec_sound dec_bytes.
    intros Hok Hwf Hn He Hbk Hbkf Hnot.
    destruct (encode_ok ksf c nonce Hok) as (kf & Hkf & He0). rewrite He in He0. apply Ok_inj in He0. subst b.
    rewrite decode_genuine_bytes by (try assumption; apply wrap_range).
    destruct (nth_error (keys ks) _) as [k'|] eqn:Ek; [|reflexivity].
    destruct (dec k' nonce [] (enc kf nonce [] (plaintext c))) as [p|] eqn:Ed; [|reflexivity].
    exfalso. apply key_sep in Ed.
    2: { rewrite Forall_forall in Hbkf. apply Hbkf. eapply nth_error_In. exact Hkf. }
    2: { rewrite Forall_forall in Hbk. apply Hbk. eapply nth_error_In. exact Ek. }
    subst k'. apply (Hnot kf Hkf). eapply nth_error_In. exact Ek.
  Qed.
End AEAD.

(* ---------------------------------------------------------------- the hypotheses are satisfiable *)

Lemma bytes_eqb_eq a : forall b, bytes_eqb a b = true <-> a = b.
Proof.
  induction a as [|x a IH]; intros [|y b]; cbn; try (split; [discriminate|congruence]); [tauto|].
  rewrite andb_true_iff, Z.eqb_eq, IH. split; [intros [-> ->]; reflexivity|intros [= -> ->]; auto].
Qed.

Lemma all_bytes_ok p : all_bytes p = true <-> bytes_ok p.
Proof.
  unfold all_bytes, bytes_ok, is_byte. rewrite forallb_forall, Forall_forall.
  split; intros H x Hx; specialize (H x Hx); lia.
Qed.

Lemma app_inj_len {A} (a a' b b' : list A) : a ++ b = a' ++ b' -> length b = length b' -> a = a' /\ b = b'.
Proof.
  intros H Hl. assert (Hla : length a = length a').
  { apply (f_equal (@length A)) in H. rewrite !app_length in H. lia. }
  split.
  - rewrite <- (firstn_app_len a b (length a) eq_refl), H. apply firstn_app_len. auto.
  - rewrite <- (skipn_app_len a b (length a) eq_refl), H. apply skipn_app_len. auto.
Qed.

Lemma toy_dec_enc k n a p : bytes_ok p -> toy_dec k n a (toy_enc k n a p) = Some p.
Proof.
  intros Hp. unfold toy_dec. assert (Hl : length (toy_enc k n a p) = (length p + 16)%nat).
  { unfold toy_enc. rewrite app_length. reflexivity. }
  rewrite Hl. replace (length p + 16 - 16)%nat with (length p) by lia.
  assert (Hf : firstn (length p) (toy_enc k n a p) = p) by (apply firstn_app_len; reflexivity).
  rewrite Hf. replace (16 <=? length p + 16)%nat with true by (symmetry; apply Nat.leb_le; lia).
  rewrite (proj2 (bytes_eqb_eq _ _) eq_refl), (proj2 (all_bytes_ok p) Hp). reflexivity.
Qed.

Lemma toy_dec_inv k n a c p : toy_dec k n a c = Some p -> c = toy_enc k n a p /\ bytes_ok p.
Proof.
  unfold toy_dec. destruct (_ && _ && _) eqn:E; [|discriminate]. intros [= <-].
  apply andb_true_iff in E. destruct E as [E E3]. apply andb_true_iff in E. destruct E as [E1 E2].
  split; [apply bytes_eqb_eq; exact E2|apply all_bytes_ok; exact E3].
Qed.

Theorem toy_aead :
  aead_correct toy_enc toy_dec /\ aead_sound toy_enc toy_dec /\ aead_tag16 toy_enc /\
  aead_bytes toy_dec /\ aead_key_separation toy_enc toy_dec.
Proof.
  split; [exact toy_dec_enc|]. split; [|split; [|split]].
  - intros k n a c p H. apply toy_dec_inv in H. apply H.
  - intros k n a p. unfold toy_enc. rewrite lenZ_app. reflexivity.
  - intros k n a c p H. apply toy_dec_inv in H. apply H.
  - intros k k' n n' a a' p p' Hk Hk' H. apply toy_dec_inv in H. destruct H as [H _].
    unfold toy_enc in H. apply app_inj_len in H; [|reflexivity]. destruct H as [_ H].
    injection H as H1 H2 _. rewrite <- (be_enc_dec k Hk), <- (be_enc_dec k' Hk').
    unfold lenZ in H1. apply Nat2Z.inj in H1. rewrite H1, H2. reflexivity.
Qed.
