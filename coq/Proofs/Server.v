(* Lemmas about Model/Server.v (decision structure of Server::handle, ServerStats). *)
From V Require Import Model.RateCache Model.Server Proofs.RateCache.

(* ---- the two possible shapes of a result ---------------------------------- *)

Definition never_time (r : result) : Prop := o_out r <> ORespond ATime.

(* what a list action allows: nothing at all / at most a DENY kiss *)
Definition listed_outcome (a : faction) (rq : request) (r : result) : Prop :=
  match a with
  | FIgnore => o_out r = OIgnore /\ o_regs r = [(r_fbv rq, false, Policy, RIgnore)]
  | FDeny => o_out r = OIgnore \/ (o_out r = ORespond ADenyKiss /\ exists v n, o_regs r = [(v, n, Policy, RDeny)])
  end.

Definition env_ok (e : env) : Prop :=
  e_lock_ok e = true /\ e_clock_ok e = true /\ e_keys_ok e = true /\ e_root_delay_nonneg e = true.

(* guaranteed by the decoder: an NTPv3 packet has no extension fields, hence neither a
   cookie nor a failed authenticator *)
Definition req_ok (rq : request) : Prop :=
  r_ver rq = V3 -> r_parse rq <> PDecrypt /\ (r_parse rq = POk -> r_cookie rq = false).

Definition passes (e : env) : bool := negb (e_in_deny e) && e_in_allow e.

Ltac case_all :=
  repeat match goal with
  | |- context [match ?x with _ => _ end] =>
      match type of x with
      | sumbool _ _ => fail 1
      | _ => destruct x eqn:?; cbn [res_bind negb andb orb response_eqb response_of_action ignore_with
                                     o_out o_regs o_cache fst snd] in *
      end
  end.

Ltac inv_ok :=
  repeat match goal with
  | H : Ok _ = Ok _ |- _ => inversion H; clear H; subst
  | H : Panic _ = Ok _ |- _ => discriminate H
  | H : Err _ = Ok _ |- _ => discriminate H
  end; cbn [o_out o_regs o_cache] in *.

(* ---- respond --------------------------------------------------------------- *)

Lemma respond_shape cfg c e rq action why cookie r :
  respond cfg c e rq action why cookie = Ok r ->
  o_cache r = c /\
  exists v n w a, o_regs r = [(v, n, w, a)] /\
    (o_out r = OIgnore /\ a = RIgnore /\ (w = Policy \/ w = InternalError)
     \/ (e_ser_ok e = true /\ n = (cookie || response_eqb action RNak) /\ v = version_u8 (r_ver rq) /\
         existsb (version_eqb (r_ver rq)) (c_accepted cfg) = true /\
         ((a = RProvideTime /\ o_out r = ORespond ATime /\ action = RProvideTime /\ w = why /\
            (c_require_nts cfg = None \/ n = true))
          \/ (a = RDeny /\ o_out r = ORespond ADenyKiss /\
               (action = RDeny /\ w = why \/ (n = false /\ c_require_nts cfg = Some FDeny /\ w = Policy)))
          \/ (a = RNak /\ o_out r = ORespond ANak /\ action = RNak /\ w = why)))).
Proof.
  unfold respond. intros H.
  destruct (existsb (version_eqb (r_ver rq)) (c_accepted cfg)) eqn:Eacc; cbn [negb] in H.
  2:{ unfold ignore_with in H. inv_ok. split; [reflexivity|]. do 4 eexists. split; [reflexivity|]. left. auto. }
  destruct cookie, action, (c_require_nts cfg) as [[|]|]; cbn in H; unfold ignore_with in H;
    repeat match type of H with
    | context [match ?x with _ => _ end] => destruct x eqn:?; cbn in H; try discriminate H
    end;
    inv_ok;
    (split; [reflexivity|]); do 4 eexists; (split; [reflexivity|]);
    first [ left; repeat split; auto; fail
          | right; repeat split; auto;
            first [ left; repeat split; auto; fail
                  | right; left; repeat split; auto; fail
                  | right; right; repeat split; auto; fail ] ].
Qed.

(* ---- intended_action -------------------------------------------------------- *)

Lemma intended_action_spec h cfg c e :
  (e_in_deny e = true /\ intended_action h cfg c e = Ok (c, response_of_action (c_deny_action cfg), Policy))
  \/ (e_in_deny e = false /\ e_in_allow e = false /\
      intended_action h cfg c e = Ok (c, response_of_action (c_allow_action cfg), Policy))
  \/ (e_in_deny e = false /\ e_in_allow e = true /\
      exists c' b, is_allowed h c (e_addr e) (e_now e) (c_cutoff cfg) = Ok (c', b) /\ length c' = length c /\
        intended_action h cfg c e = Ok (c', if b then RProvideTime else RIgnore, if b then Policy else RateLimit)).
Proof.
  unfold intended_action.
  destruct (e_in_deny e); [left; auto|].
  destruct (e_in_allow e); cbn [negb]; [|right; left; auto].
  right; right. repeat split.
  destruct (is_allowed_total h c (e_addr e) (e_now e) (c_cutoff cfg)) as (c' & b & E & L).
  exists c', b. rewrite E. cbn [res_bind]. destruct b; auto.
Qed.

Lemma intended_action_total h cfg c e : exists c' a w, intended_action h cfg c e = Ok (c', a, w).
Proof.
  destruct (intended_action_spec h cfg c e) as [(_ & E)|[(_ & _ & E)|(_ & _ & c' & b & _ & _ & E)]];
    rewrite E; eauto.
Qed.

(* ---- handle ------------------------------------------------------------------ *)

Lemma handle_shape h cfg c e rq r :
  handle h cfg c e rq = Ok r ->
  exists c' action why, intended_action h cfg c e = Ok (c', action, why) /\
    ( (action = RIgnore /\ o_cache r = c' /\ o_out r = OIgnore /\ o_regs r = [(r_fbv rq, false, why, RIgnore)])
    \/ (action <> RIgnore /\ (r_parse rq = PErr \/ r_client rq = false) /\
        o_cache r = c' /\ o_out r = OIgnore /\ o_regs r = [(r_fbv rq, false, ParseError, RIgnore)])
    \/ (action <> RIgnore /\ r_parse rq = POk /\ r_client rq = true /\
        respond cfg c' e rq action why (r_cookie rq) = Ok r)
    \/ (action <> RIgnore /\ action <> RDeny /\ r_parse rq = PDecrypt /\ r_client rq = true /\
        respond cfg c' e rq RNak InvalidCrypto false = Ok r)
    \/ (action = RDeny /\ r_parse rq = PDecrypt /\ r_client rq = true /\
        respond cfg c' e rq RDeny why false = Ok r) ).
Proof.
  unfold handle. intros H.
  destruct (intended_action_total h cfg c e) as (c' & a & w & E). rewrite E in H. cbn [res_bind] in H.
  exists c', a, w. split; [exact E|]. clear E.
  destruct a; cbn [response_eqb] in H;
    try (unfold ignore_with in H; inv_ok; left; auto; fail);
    destruct (r_parse rq) eqn:Ep, (r_client rq) eqn:Ec; cbn [negb] in H;
    try (unfold ignore_with in H; inv_ok; right; left; repeat split; auto; discriminate);
    try (right; right; left; repeat split; auto; discriminate);
    try (right; right; right; left; repeat split; auto; discriminate);
    try (right; right; right; right; repeat split; auto; fail).
Qed.

(* no path touches the cache after intended_action, and every path registers exactly once *)
Lemma handle_one_registration h cfg c e rq r :
  handle h cfg c e rq = Ok r ->
  exists v n w a, o_regs r = [(v, n, w, a)] /\
    (a = RProvideTime <-> o_out r = ORespond ATime) /\
    (a = RDeny <-> o_out r = ORespond ADenyKiss) /\
    (a = RNak <-> o_out r = ORespond ANak) /\
    (a = RIgnore <-> o_out r = OIgnore).
Proof.
  intros H. destruct (handle_shape _ _ _ _ _ _ H) as (c' & act & why & _ & D).
  assert (G : forall a0 w0 ck, respond cfg c' e rq a0 w0 ck = Ok r ->
    exists v n w a, o_regs r = [(v, n, w, a)] /\
    (a = RProvideTime <-> o_out r = ORespond ATime) /\
    (a = RDeny <-> o_out r = ORespond ADenyKiss) /\
    (a = RNak <-> o_out r = ORespond ANak) /\
    (a = RIgnore <-> o_out r = OIgnore)).
  { intros a0 w0 ck R. destruct (respond_shape _ _ _ _ _ _ _ _ R) as (_ & v & n & w & a & Hr & S).
    exists v, n, w, a. split; [exact Hr|].
    destruct S as [(Ho & Ha & _)|(_ & _ & _ & _ & [(Ha & Ho & _)|[(Ha & Ho & _)|(Ha & Ho & _)]])];
      rewrite Ho, Ha; repeat split; intros; congruence. }
  destruct D as [(_ & _ & Ho & Hr)|[(_ & _ & _ & Ho & Hr)|[(_ & _ & _ & R)|[(_ & _ & _ & _ & R)|(_ & _ & _ & R)]]]];
    try (eapply G; eassumption);
    do 4 eexists; (split; [exact Hr|]); rewrite Ho; repeat split; intros; congruence.
Qed.

(* ---- C15 ---------------------------------------------------------------------- *)

Definition with_allow (e : env) (b : bool) : env :=
  {| e_addr := e_addr e; e_in_deny := e_in_deny e; e_in_allow := b; e_now := e_now e;
     e_ser_ok := e_ser_ok e; e_buf_ge4 := e_buf_ge4 e; e_lock_ok := e_lock_ok e; e_clock_ok := e_clock_ok e;
     e_keys_ok := e_keys_ok e; e_root_delay_nonneg := e_root_delay_nonneg e |}.

Lemma deny_ignores_allow h cfg c e rq b :
  e_in_deny e = true -> handle h cfg c (with_allow e b) rq = handle h cfg c e rq.
Proof.
  intros H. unfold handle, intended_action, with_allow. cbn [e_in_deny e_in_allow]. rewrite H. reflexivity.
Qed.

Lemma action_outcome h cfg c e rq c' a w r :
  intended_action h cfg c e = Ok (c', response_of_action a, w) ->
  handle h cfg c e rq = Ok r ->
  o_cache r = c' /\
  match a with
  | FIgnore => o_out r = OIgnore /\ o_regs r = [(r_fbv rq, false, w, RIgnore)]
  | FDeny => o_out r = OIgnore \/ (o_out r = ORespond ADenyKiss /\ exists v n w', o_regs r = [(v, n, w', RDeny)] /\ (w' = w \/ w' = Policy))
  end.
Proof.
  intros Hi H. destruct (handle_shape _ _ _ _ _ _ H) as (c1 & act & why & Hi' & D).
  rewrite Hi in Hi'. inversion Hi'; subst c1 act why. clear Hi'.
  destruct a; cbn [response_of_action] in *.
  - destruct D as [(_ & Hc & Ho & Hr)|[(N & _)|[(N & _)|[(N & _)|(N & _)]]]]; try congruence. auto.
  - destruct D as [(N & _)|[(_ & _ & Hc & Ho & Hr)|[(_ & _ & _ & R)|[(_ & N & _)|(_ & _ & _ & R)]]]]; try congruence.
    + auto.
    + destruct (respond_shape _ _ _ _ _ _ _ _ R) as (Hc & v & n & w' & a & Hr & S). split; [exact Hc|].
      destruct S as [(Ho & _)|(_ & _ & _ & _ & [(_ & _ & N & _)|[(Ha & Ho & W)|(_ & _ & N & _)]])]; try congruence.
      * left; exact Ho.
      * right. split; [exact Ho|]. subst a. exists v, n, w'. split; [exact Hr|]. destruct W as [(_ & W)|(_ & _ & W)]; auto.
    + destruct (respond_shape _ _ _ _ _ _ _ _ R) as (Hc & v & n & w' & a & Hr & S). split; [exact Hc|].
      destruct S as [(Ho & _)|(_ & _ & _ & _ & [(_ & _ & N & _)|[(Ha & Ho & W)|(_ & _ & N & _)]])]; try congruence.
      * left; exact Ho.
      * right. split; [exact Ho|]. subst a. exists v, n, w'. split; [exact Hr|]. destruct W as [(_ & W)|(_ & _ & W)]; auto.
Qed.

Lemma denied_outcome h cfg c e rq r :
  e_in_deny e = true -> handle h cfg c e rq = Ok r ->
  o_cache r = c /\
  match c_deny_action cfg with
  | FIgnore => o_out r = OIgnore /\ o_regs r = [(r_fbv rq, false, Policy, RIgnore)]
  | FDeny => o_out r = OIgnore \/ (o_out r = ORespond ADenyKiss /\ exists v n, o_regs r = [(v, n, Policy, RDeny)])
  end.
Proof.
  intros Hd H.
  assert (Hi : intended_action h cfg c e = Ok (c, response_of_action (c_deny_action cfg), Policy)).
  { unfold intended_action. rewrite Hd. reflexivity. }
  destruct (action_outcome _ _ _ _ _ _ _ _ _ Hi H) as (Hc & G). split; [exact Hc|].
  destruct (c_deny_action cfg); [exact G|].
  destruct G as [G|(Ho & v & n & w' & Hr & [W|W])]; [left; exact G| |]; right; (split; [exact Ho|]); exists v, n; subst w'; exact Hr.
Qed.

Lemma not_allowed_outcome h cfg c e rq r :
  e_in_deny e = false -> e_in_allow e = false -> handle h cfg c e rq = Ok r ->
  o_cache r = c /\
  match c_allow_action cfg with
  | FIgnore => o_out r = OIgnore /\ o_regs r = [(r_fbv rq, false, Policy, RIgnore)]
  | FDeny => o_out r = OIgnore \/ (o_out r = ORespond ADenyKiss /\ exists v n, o_regs r = [(v, n, Policy, RDeny)])
  end.
Proof.
  intros Hd Ha H.
  assert (Hi : intended_action h cfg c e = Ok (c, response_of_action (c_allow_action cfg), Policy)).
  { unfold intended_action. rewrite Hd, Ha. reflexivity. }
  destruct (action_outcome _ _ _ _ _ _ _ _ _ Hi H) as (Hc & G). split; [exact Hc|].
  destruct (c_allow_action cfg); [exact G|].
  destruct G as [G|(Ho & v & n & w' & Hr & [W|W])]; [left; exact G| |]; right; (split; [exact Ho|]); exists v, n; subst w'; exact Hr.
Qed.

Lemma ignore_is_silent h cfg c e rq c' w r :
  intended_action h cfg c e = Ok (c', RIgnore, w) -> handle h cfg c e rq = Ok r ->
  o_out r = OIgnore /\ o_regs r = [(r_fbv rq, false, w, RIgnore)].
Proof. intros Hi H. exact (proj2 (action_outcome h cfg c e rq c' FIgnore w r Hi H)). Qed.

Lemma deny_at_most_deny h cfg c e rq c' w r :
  intended_action h cfg c e = Ok (c', RDeny, w) -> handle h cfg c e rq = Ok r ->
  o_out r = OIgnore \/ o_out r = ORespond ADenyKiss.
Proof.
  intros Hi H. destruct (proj2 (action_outcome h cfg c e rq c' FDeny w r Hi H)) as [G|(G & _)]; auto.
Qed.

Lemma unanswered h cfg c e rq r :
  (r_parse rq = PErr \/ r_client rq = false \/ existsb (version_eqb (r_ver rq)) (c_accepted cfg) = false) ->
  handle h cfg c e rq = Ok r -> o_out r = OIgnore.
Proof.
  intros Hyp H. destruct (handle_shape _ _ _ _ _ _ H) as (c1 & act & why & _ & D).
  assert (G : forall a0 w0 ck, r_parse rq <> PErr -> r_client rq = true -> respond cfg c1 e rq a0 w0 ck = Ok r -> o_out r = OIgnore).
  { intros a0 w0 ck P C R. destruct (respond_shape _ _ _ _ _ _ _ _ R) as (_ & v & n & w & a & _ & [(Ho & _)|(_ & _ & _ & Acc & _)]).
    - exact Ho.
    - destruct Hyp as [Q|[Q|Q]]; congruence. }
  destruct D as [(_ & _ & Ho & _)|[(_ & _ & _ & Ho & _)|[(_ & P & C & R)|[(_ & _ & P & C & R)|(_ & P & C & R)]]]]; auto;
    eapply G; try eassumption; congruence.
Qed.

Lemma respond_require_ignore cfg c e rq action why cookie r :
  c_require_nts cfg = Some FIgnore -> cookie || response_eqb action RNak = false ->
  respond cfg c e rq action why cookie = Ok r -> o_out r = OIgnore.
Proof.
  unfold respond. intros Hr Hn H. rewrite Hr, Hn in H.
  destruct (existsb (version_eqb (r_ver rq)) (c_accepted cfg)); cbn in H; inversion H; reflexivity.
Qed.

Lemma intended_never_nak h cfg c e c' a w : intended_action h cfg c e = Ok (c', a, w) -> a <> RNak.
Proof.
  intros H. destruct (intended_action_spec h cfg c e) as [(_ & E)|[(_ & _ & E)|(_ & _ & c1 & b & _ & _ & E)]];
    rewrite E in H; inversion H; subst.
  - destruct (c_deny_action cfg); discriminate.
  - destruct (c_allow_action cfg); discriminate.
  - destruct b; discriminate.
Qed.

Lemma require_nts_outcome h cfg c e rq r a :
  c_require_nts cfg = Some a -> (r_parse rq = POk -> r_cookie rq = false) ->
  handle h cfg c e rq = Ok r ->
  never_time r /\
  (r_parse rq = POk ->
   match a with FIgnore => o_out r = OIgnore | FDeny => o_out r = OIgnore \/ o_out r = ORespond ADenyKiss end).
Proof.
  intros Hreq Hck H. destruct (handle_shape _ _ _ _ _ _ H) as (c1 & act & why & Hi & D).
  pose proof (intended_never_nak _ _ _ _ _ _ _ Hi) as Hnn.
  unfold never_time.
  destruct D as [(_ & _ & Ho & _)|[(_ & _ & _ & Ho & _)|[(_ & P & C & R)|[(_ & _ & P & C & R)|(_ & P & C & R)]]]].
  - rewrite Ho. split; [discriminate|]. intros _. destruct a; auto.
  - rewrite Ho. split; [discriminate|]. intros _. destruct a; auto.
  - rewrite (Hck P) in R.
    assert (Hn : false || response_eqb act RNak = false) by (destruct act; try reflexivity; congruence).
    destruct (respond_shape _ _ _ _ _ _ _ _ R) as (_ & v & n & w & a' & _ & S).
    split.
    + destruct S as [(Ho & _)|(_ & Hn' & _ & _ & [(_ & Ho & _ & _ & Q)|[(_ & Ho & _)|(_ & Ho & _)]])]; rewrite Ho; try discriminate.
      exfalso. destruct Q as [Q|Q]; congruence.
    + intros _. destruct a.
      * eapply respond_require_ignore; eassumption.
      * destruct S as [(Ho & _)|(_ & Hn' & _ & _ & [(_ & Ho & _ & _ & Q)|[(_ & Ho & _)|(_ & Ho & N & _)]])]; auto.
        -- exfalso. destruct Q as [Q|Q]; congruence.
        -- congruence.
  - split; [|congruence].
    destruct (respond_shape _ _ _ _ _ _ _ _ R) as (_ & v & n & w & a' & _ & S).
    destruct S as [(Ho & _)|(_ & _ & _ & _ & [(_ & _ & N & _)|[(_ & Ho & _)|(_ & Ho & _)]])]; try rewrite Ho; try discriminate.
  - split; [|congruence].
    destruct (respond_shape _ _ _ _ _ _ _ _ R) as (_ & v & n & w & a' & _ & S).
    destruct S as [(Ho & _)|(_ & _ & _ & _ & [(_ & _ & N & _)|[(_ & Ho & _)|(_ & Ho & _)]])]; try rewrite Ho; try discriminate.
Qed.

Lemma served h cfg c e rq c' :
  e_in_deny e = false -> e_in_allow e = true ->
  is_allowed h c (e_addr e) (e_now e) (c_cutoff cfg) = Ok (c', true) ->
  r_parse rq = POk -> r_client rq = true ->
  existsb (version_eqb (r_ver rq)) (c_accepted cfg) = true ->
  (c_require_nts cfg = None \/ r_cookie rq = true) ->
  (r_ver rq = V3 -> r_cookie rq = false) ->
  env_ok e -> e_ser_ok e = true ->
  handle h cfg c e rq =
    Ok {| o_cache := c'; o_regs := [(version_u8 (r_ver rq), r_cookie rq, Policy, RProvideTime)]; o_out := ORespond ATime |}.
Proof.
  intros Hd Ha Hal Hp Hc Hacc Hreq Hv3 (Hl & Hk & Hy & Hrd) Hs.
  unfold handle, intended_action. rewrite Hd, Ha. cbn [negb]. rewrite Hal. cbn [res_bind negb response_eqb].
  rewrite Hp, Hc. unfold respond. rewrite Hacc, Hl, Hk, Hy, Hrd, Hs. cbn [negb response_eqb].
  rewrite Bool.orb_false_r, Bool.andb_false_r.
  destruct (r_cookie rq) eqn:Ck.
  - destruct (r_ver rq) eqn:Ev; [specialize (Hv3 eq_refl); discriminate| |];
      destruct (c_require_nts cfg) as [[|]|]; cbn; reflexivity.
  - destruct Hreq as [Hreq|Hreq]; [|discriminate]. rewrite Hreq. cbn. reflexivity.
Qed.

(* ---- C20: where the cache sits -------------------------------------------------- *)

Definition rate_refused (r : result) : bool :=
  existsb (fun g : registration => let '(_, _, w, _) := g in is_rate w) (o_regs r).

Lemma cache_untouched h cfg c e rq r :
  passes e = false -> handle h cfg c e rq = Ok r -> o_cache r = c /\ rate_refused r = false.
Proof.
  intros Hp H. unfold passes in Hp.
  destruct (e_in_deny e) eqn:Hd.
  - destruct (denied_outcome _ _ _ _ _ _ Hd H) as (Hc & G). split; [exact Hc|].
    unfold rate_refused. destruct (c_deny_action cfg).
    + destruct G as (_ & ->). reflexivity.
    + destruct (handle_one_registration _ _ _ _ _ _ H) as (v & n & w & a & Hr & _ & _ & _ & Hi).
      destruct G as [Ho|(_ & v' & n' & Hr')].
      * destruct (handle_shape _ _ _ _ _ _ H) as (c1 & act & why & Hia & D).
        unfold intended_action in Hia. rewrite Hd in Hia. inversion Hia; subst.
        destruct D as [(_ & _ & _ & ->)|[(_ & _ & _ & _ & ->)|[(_ & _ & _ & R)|[(_ & _ & _ & _ & R)|(_ & _ & _ & R)]]]]; try reflexivity;
          destruct (respond_shape _ _ _ _ _ _ _ _ R) as (_ & v1 & n1 & w1 & a1 & -> & S); cbn;
          destruct S as [(_ & _ & [-> | ->])|(_ & _ & _ & _ & [(_ & Ho' & _)|[(_ & Ho' & _)|(_ & Ho' & _)]])]; try reflexivity; congruence.
      * rewrite Hr'. reflexivity.
  - destruct (e_in_allow e) eqn:Ha; [discriminate|].
    destruct (not_allowed_outcome _ _ _ _ _ _ Hd Ha H) as (Hc & G). split; [exact Hc|].
    unfold rate_refused. destruct (c_allow_action cfg).
    + destruct G as (_ & ->). reflexivity.
    + destruct G as [Ho|(_ & v' & n' & Hr')].
      * destruct (handle_shape _ _ _ _ _ _ H) as (c1 & act & why & Hia & D).
        unfold intended_action in Hia. rewrite Hd, Ha in Hia. inversion Hia; subst.
        destruct D as [(_ & _ & _ & ->)|[(_ & _ & _ & _ & ->)|[(_ & _ & _ & R)|[(_ & _ & _ & _ & R)|(_ & _ & _ & R)]]]]; try reflexivity;
          destruct (respond_shape _ _ _ _ _ _ _ _ R) as (_ & v1 & n1 & w1 & a1 & -> & S); cbn;
          destruct S as [(_ & _ & [-> | ->])|(_ & _ & _ & _ & [(_ & Ho' & _)|[(_ & Ho' & _)|(_ & Ho' & _)]])]; try reflexivity; congruence.
      * rewrite Hr'. reflexivity.
Qed.

