(* Lemmas about Model/Server.v (decision structure of Server::handle, ServerStats). *)
From V Require Import Model.RateCache Model.Server Proofs.RateCache.

(* ---- the two possible shapes of a result ---------------------------------- *)

Definition never_time (r : result) : Prop := o_out r <> ORespond ATime.

(* what a list action allows: nothing at all / at most a DENY kiss *)
Definition listed_outcome (a : faction) (rq : request) (r : result) : Prop :=
  match a with
  | FIgnore => o_out r = OIgnore /\ o_regs r = [(r_fbv rq, false, Policy, RIgnore)]
  | FDeny => o_out r = OIgnore \/ (o_out r = ORespond ADenyKiss /\ exists v n, o_regs r = [(v, n, Policy, RDeny)])
  end.

Definition env_ok (e : env) : Prop :=
  e_lock_ok e = true /\ e_clock_ok e = true /\ e_keys_ok e = true /\ e_root_delay_nonneg e = true.

(* guaranteed by the decoder: an NTPv3 packet has no extension fields, hence neither a
   cookie nor a failed authenticator *)
Definition req_ok (rq : request) : Prop :=
  r_ver rq = V3 -> r_parse rq <> PDecrypt /\ (r_parse rq = POk -> r_cookie rq = false).

Definition passes (e : env) : bool := negb (e_in_deny e) && e_in_allow e.

Ltac case_all :=
  repeat match goal with
  | |- context [match ?x with _ => _ end] =>
      match type of x with
      | sumbool _ _ => fail 1
      | _ => destruct x eqn:?; cbn [res_bind negb andb orb response_eqb response_of_action ignore_with
                                     o_out o_regs o_cache fst snd] in *
      end
  end.

Ltac inv_ok :=
  repeat match goal with
  | H : Ok _ = Ok _ |- _ => inversion H; clear H; subst
  | H : Panic _ = Ok _ |- _ => discriminate H
  | H : Err _ = Ok _ |- _ => discriminate H
  end; cbn [o_out o_regs o_cache] in *.

(* ---- respond --------------------------------------------------------------- *)

Lemma respond_shape cfg c e rq action why cookie r :
  respond cfg c e rq action why cookie = Ok r ->
  o_cache r = c /\
  exists v n w a, o_regs r = [(v, n, w, a)] /\
    (o_out r = OIgnore /\ a = RIgnore /\ (w = Policy \/ w = InternalError)
     \/ (e_ser_ok e = true /\ n = (cookie || response_eqb action RNak) /\ v = version_u8 (r_ver rq) /\
         existsb (version_eqb (r_ver rq)) (c_accepted cfg) = true /\
         ((a = RProvideTime /\ o_out r = ORespond ATime /\ action = RProvideTime /\ w = why /\
            (c_require_nts cfg = None \/ n = true))
          \/ (a = RDeny /\ o_out r = ORespond ADenyKiss /\
               (action = RDeny /\ w = why \/ (n = false /\ c_require_nts cfg = Some FDeny /\ w = Policy)))
          \/ (a = RNak /\ o_out r = ORespond ANak /\ action = RNak /\ w = why)))).
Proof.
  unfold respond. intros H.
  destruct (existsb (version_eqb (r_ver rq)) (c_accepted cfg)) eqn:Eacc; cbn [negb] in H.
  2:{ unfold ignore_with in H. inv_ok. split; [reflexivity|]. do 4 eexists. split; [reflexivity|]. left. auto. }
  destruct cookie, action, (c_require_nts cfg) as [[|]|]; cbn in H; unfold ignore_with in H;
    repeat match type of H with
    | context [match ?x with _ => _ end] => destruct x eqn:?; cbn in H; try discriminate H
    end;
    inv_ok;
    (split; [reflexivity|]); do 4 eexists; (split; [reflexivity|]);
    first [ left; repeat split; auto; fail
          | right; repeat split; auto;
            first [ left; repeat split; auto; fail
                  | right; left; repeat split; auto; fail
                  | right; right; repeat split; auto; fail ] ].
Qed.

(* ---- intended_action -------------------------------------------------------- *)

Lemma intended_action_spec h cfg c e :
  (e_in_deny e = true /\ intended_action h cfg c e = Ok (c, response_of_action (c_deny_action cfg), Policy))
  \/ (e_in_deny e = false /\ e_in_allow e = false /\
      intended_action h cfg c e = Ok (c, response_of_action (c_allow_action cfg), Policy))
  \/ (e_in_deny e = false /\ e_in_allow e = true /\
      exists c' b, is_allowed h c (e_addr e) (e_now e) (c_cutoff cfg) = Ok (c', b) /\ length c' = length c /\
        intended_action h cfg c e = Ok (c', if b then RProvideTime else RIgnore, if b then Policy else RateLimit)).
Proof.
  unfold intended_action.
  destruct (e_in_deny e); [left; auto|].
  destruct (e_in_allow e); cbn [negb]; [|right; left; auto].
  right; right. repeat split.
  destruct (is_allowed_total h c (e_addr e) (e_now e) (c_cutoff cfg)) as (c' & b & E & L).
  exists c', b. rewrite E. cbn [res_bind]. destruct b; auto.
Qed.

Lemma intended_action_total h cfg c e : exists c' a w, intended_action h cfg c e = Ok (c', a, w).
Proof.
  destruct (intended_action_spec h cfg c e) as [(_ & E)|[(_ & _ & E)|(_ & _ & c' & b & _ & _ & E)]];
    rewrite E; eauto.
Qed.

(* ---- handle ------------------------------------------------------------------ *)

Lemma handle_shape h cfg c e rq r :
  handle h cfg c e rq = Ok r ->
  exists c' action why, intended_action h cfg c e = Ok (c', action, why) /\
    ( (action = RIgnore /\ o_cache r = c' /\ o_out r = OIgnore /\ o_regs r = [(r_fbv rq, false, why, RIgnore)])
    \/ (action <> RIgnore /\ (r_parse rq = PErr \/ r_client rq = false) /\
        o_cache r = c' /\ o_out r = OIgnore /\ o_regs r = [(r_fbv rq, false, ParseError, RIgnore)])
    \/ (action <> RIgnore /\ r_parse rq = POk /\ r_client rq = true /\
        respond cfg c' e rq action why (r_cookie rq) = Ok r)
    \/ (action <> RIgnore /\ action <> RDeny /\ r_parse rq = PDecrypt /\ r_client rq = true /\
        respond cfg c' e rq RNak InvalidCrypto false = Ok r)
    \/ (action = RDeny /\ r_parse rq = PDecrypt /\ r_client rq = true /\
        respond cfg c' e rq RDeny why false = Ok r) ).
Proof.
  unfold handle. intros H.
  destruct (intended_action_total h cfg c e) as (c' & a & w & E). rewrite E in H. cbn [res_bind] in H.
  exists c', a, w. split; [exact E|]. clear E.
  destruct a; cbn [response_eqb] in H;
    try (unfold ignore_with in H; inv_ok; left; auto; fail);
    destruct (r_parse rq) eqn:Ep, (r_client rq) eqn:Ec; cbn [negb] in H;
    try (unfold ignore_with in H; inv_ok; right; left; repeat split; auto; discriminate);
    try (right; right; left; repeat split; auto; discriminate);
    try (right; right; right; left; repeat split; auto; discriminate);
    try (right; right; right; right; repeat split; auto; fail).
Qed.

(* no path touches the cache after intended_action, and every path registers exactly once *)
Lemma handle_one_registration h cfg c e rq r :
  handle h cfg c e rq = Ok r ->
  exists v n w a, o_regs r = [(v, n, w, a)] /\
    (a = RProvideTime <-> o_out r = ORespond ATime) /\
    (a = RDeny <-> o_out r = ORespond ADenyKiss) /\
    (a = RNak <-> o_out r = ORespond ANak) /\
    (a = RIgnore <-> o_out r = OIgnore).
Proof.
  intros H. destruct (handle_shape _ _ _ _ _ _ H) as (c' & act & why & _ & D).
  assert (G : forall a0 w0 ck, respond cfg c' e rq a0 w0 ck = Ok r ->
    exists v n w a, o_regs r = [(v, n, w, a)] /\
    (a = RProvideTime <-> o_out r = ORespond ATime) /\
    (a = RDeny <-> o_out r = ORespond ADenyKiss) /\
    (a = RNak <-> o_out r = ORespond ANak) /\
    (a = RIgnore <-> o_out r = OIgnore)).
  { intros a0 w0 ck R. destruct (respond_shape _ _ _ _ _ _ _ _ R) as (_ & v & n & w & a & Hr & S).
    exists v, n, w, a. split; [exact Hr|].
    destruct S as [(Ho & Ha & _)|(_ & _ & _ & _ & [(Ha & Ho & _)|[(Ha & Ho & _)|(Ha & Ho & _)]])];
      rewrite Ho, Ha; repeat split; intros; congruence. }
  destruct D as [(_ & _ & Ho & Hr)|[(_ & _ & _ & Ho & Hr)|[(_ & _ & _ & R)|[(_ & _ & _ & _ & R)|(_ & _ & _ & R)]]]];
    try (eapply G; eassumption);
    do 4 eexists; (split; [exact Hr|]); rewrite Ho; repeat split; intros; congruence.
Qed.

(* ---- C15 ---------------------------------------------------------------------- *)

Definition with_allow (e : env) (b : bool) : env :=
  {| e_addr := e_addr e; e_in_deny := e_in_deny e; e_in_allow := b; e_now := e_now e;
     e_ser_ok := e_ser_ok e; e_buf_ge4 := e_buf_ge4 e; e_lock_ok := e_lock_ok e; e_clock_ok := e_clock_ok e;
     e_keys_ok := e_keys_ok e; e_root_delay_nonneg := e_root_delay_nonneg e |}.

Lemma deny_ignores_allow h cfg c e rq b :
  e_in_deny e = true -> handle h cfg c (with_allow e b) rq = handle h cfg c e rq.
Proof.
  intros H. unfold handle, intended_action, with_allow. cbn [e_in_deny e_in_allow]. rewrite H. reflexivity.
Qed.

Lemma action_outcome h cfg c e rq c' a w r :
  intended_action h cfg c e = Ok (c', response_of_action a, w) ->
  handle h cfg c e rq = Ok r ->
  o_cache r = c' /\
  match a with
  | FIgnore => o_out r = OIgnore /\ o_regs r = [(r_fbv rq, false, w, RIgnore)]
  | FDeny => o_out r = OIgnore \/ (o_out r = ORespond ADenyKiss /\ exists v n w', o_regs r = [(v, n, w', RDeny)] /\ (w' = w \/ w' = Policy))
  end.
Proof.
  intros Hi H. destruct (handle_shape _ _ _ _ _ _ H) as (c1 & act & why & Hi' & D).
  rewrite Hi in Hi'. inversion Hi'; subst c1 act why. clear Hi'.
  destruct a; cbn [response_of_action] in *.
  - destruct D as [(_ & Hc & Ho & Hr)|[(N & _)|[(N & _)|[(N & _)|(N & _)]]]]; try congruence. auto.
  - destruct D as [(N & _)|[(_ & _ & Hc & Ho & Hr)|[(_ & _ & _ & R)|[(_ & N & _)|(_ & _ & _ & R)]]]]; try congruence.
    + auto.
    + destruct (respond_shape _ _ _ _ _ _ _ _ R) as (Hc & v & n & w' & a & Hr & S). split; [exact Hc|].
      destruct S as [(Ho & _)|(_ & _ & _ & _ & [(_ & _ & N & _)|[(Ha & Ho & W)|(_ & _ & N & _)]])]; try congruence.
      * left; exact Ho.
      * right. split; [exact Ho|]. subst a. exists v, n, w'. split; [exact Hr|]. destruct W as [(_ & W)|(_ & _ & W)]; auto.
    + destruct (respond_shape _ _ _ _ _ _ _ _ R) as (Hc & v & n & w' & a & Hr & S). split; [exact Hc|].
      destruct S as [(Ho & _)|(_ & _ & _ & _ & [(_ & _ & N & _)|[(Ha & Ho & W)|(_ & _ & N & _)]])]; try congruence.
      * left; exact Ho.
      * right. split; [exact Ho|]. subst a. exists v, n, w'. split; [exact Hr|]. destruct W as [(_ & W)|(_ & _ & W)]; auto.
Qed.

Lemma denied_outcome h cfg c e rq r :
  e_in_deny e = true -> handle h cfg c e rq = Ok r ->
  o_cache r = c /\
  match c_deny_action cfg with
  | FIgnore => o_out r = OIgnore /\ o_regs r = [(r_fbv rq, false, Policy, RIgnore)]
  | FDeny => o_out r = OIgnore \/ (o_out r = ORespond ADenyKiss /\ exists v n, o_regs r = [(v, n, Policy, RDeny)])
  end.
Proof.
  intros Hd H.
  assert (Hi : intended_action h cfg c e = Ok (c, response_of_action (c_deny_action cfg), Policy)).
  { unfold intended_action. rewrite Hd. reflexivity. }
  destruct (action_outcome _ _ _ _ _ _ _ _ _ Hi H) as (Hc & G). split; [exact Hc|].
  destruct (c_deny_action cfg); [exact G|].
  destruct G as [G|(Ho & v & n & w' & Hr & [W|W])]; [left; exact G| |]; right; (split; [exact Ho|]); exists v, n; subst w'; exact Hr.
Qed.

Lemma not_allowed_outcome h cfg c e rq r :
  e_in_deny e = false -> e_in_allow e = false -> handle h cfg c e rq = Ok r ->
  o_cache r = c /\
  match c_allow_action cfg with
  | FIgnore => o_out r = OIgnore /\ o_regs r = [(r_fbv rq, false, Policy, RIgnore)]
  | FDeny => o_out r = OIgnore \/ (o_out r = ORespond ADenyKiss /\ exists v n, o_regs r = [(v, n, Policy, RDeny)])
  end.
Proof.
  intros Hd Ha H.
  assert (Hi : intended_action h cfg c e = Ok (c, response_of_action (c_allow_action cfg), Policy)).
  { unfold intended_action. rewrite Hd, Ha. reflexivity. }
  destruct (action_outcome _ _ _ _ _ _ _ _ _ Hi H) as (Hc & G). split; [exact Hc|].
  destruct (c_allow_action cfg); [exact G|].
  destruct G as [G|(Ho & v & n & w' & Hr & [W|W])]; [left; exact G| |]; right; (split; [exact Ho|]); exists v, n; subst w'; exact Hr.
Qed.

Lemma ignore_is_silent h cfg c e rq c' w r :
  intended_action h cfg c e = Ok (c', RIgnore, w) -> handle h cfg c e rq = Ok r ->
  o_out r = OIgnore /\ o_regs r = [(r_fbv rq, false, w, RIgnore)].
Proof. intros Hi H. exact (proj2 (action_outcome h cfg c e rq c' FIgnore w r Hi H)). Qed.

Lemma deny_at_most_deny h cfg c e rq c' w r :
  intended_action h cfg c e = Ok (c', RDeny, w) -> handle h cfg c e rq = Ok r ->
  o_out r = OIgnore \/ o_out r = ORespond ADenyKiss.
Proof.
  intros Hi H. destruct (proj2 (action_outcome h cfg c e rq c' FDeny w r Hi H)) as [G|(G & _)]; auto.
Qed.

Lemma unanswered h cfg c e rq r :
  (r_parse rq = PErr \/ r_client rq = false \/ existsb (version_eqb (r_ver rq)) (c_accepted cfg) = false) ->
  handle h cfg c e rq = Ok r -> o_out r = OIgnore.
Proof.
  intros Hyp H. destruct (handle_shape _ _ _ _ _ _ H) as (c1 & act & why & _ & D).
  assert (G : forall a0 w0 ck, r_parse rq <> PErr -> r_client rq = true -> respond cfg c1 e rq a0 w0 ck = Ok r -> o_out r = OIgnore).
  { intros a0 w0 ck P C R. destruct (respond_shape _ _ _ _ _ _ _ _ R) as (_ & v & n & w & a & _ & [(Ho & _)|(_ & _ & _ & Acc & _)]).
    - exact Ho.
    - destruct Hyp as [Q|[Q|Q]]; congruence. }
  destruct D as [(_ & _ & Ho & _)|[(_ & _ & _ & Ho & _)|[(_ & P & C & R)|[(_ & _ & P & C & R)|(_ & P & C & R)]]]]; auto;
    eapply G; try eassumption; congruence.
Qed.

Lemma respond_require_ignore cfg c e rq action why cookie r :
  c_require_nts cfg = Some FIgnore -> cookie || response_eqb action RNak = false ->
  respond cfg c e rq action why cookie = Ok r -> o_out r = OIgnore.
Proof.
  unfold respond. intros Hr Hn H. rewrite Hr, Hn in H.
  destruct (existsb (version_eqb (r_ver rq)) (c_accepted cfg)); cbn in H; inversion H; reflexivity.
Qed.

Lemma intended_never_nak h cfg c e c' a w : intended_action h cfg c e = Ok (c', a, w) -> a <> RNak.
Proof.
  intros H. destruct (intended_action_spec h cfg c e) as [(_ & E)|[(_ & _ & E)|(_ & _ & c1 & b & _ & _ & E)]];
    rewrite E in H; inversion H; subst.
  - destruct (c_deny_action cfg); discriminate.
  - destruct (c_allow_action cfg); discriminate.
  - destruct b; discriminate.
Qed.

Lemma require_nts_outcome h cfg c e rq r a :
  c_require_nts cfg = Some a -> (r_parse rq = POk -> r_cookie rq = false) ->
  handle h cfg c e rq = Ok r ->
  never_time r /\
  (r_parse rq = POk ->
   match a with FIgnore => o_out r = OIgnore | FDeny => o_out r = OIgnore \/ o_out r = ORespond ADenyKiss end).
Proof.
  intros Hreq Hck H. destruct (handle_shape _ _ _ _ _ _ H) as (c1 & act & why & Hi & D).
  pose proof (intended_never_nak _ _ _ _ _ _ _ Hi) as Hnn.
  unfold never_time.
  destruct D as [(_ & _ & Ho & _)|[(_ & _ & _ & Ho & _)|[(_ & P & C & R)|[(_ & _ & P & C & R)|(_ & P & C & R)]]]].
  - rewrite Ho. split; [discriminate|]. intros _. destruct a; auto.
  - rewrite Ho. split; [discriminate|]. intros _. destruct a; auto.
  - rewrite (Hck P) in R.
    assert (Hn : false || response_eqb act RNak = false) by (destruct act; try reflexivity; congruence).
    destruct (respond_shape _ _ _ _ _ _ _ _ R) as (_ & v & n & w & a' & _ & S).
    split.
    + destruct S as [(Ho & _)|(_ & Hn' & _ & _ & [(_ & Ho & _ & _ & Q)|[(_ & Ho & _)|(_ & Ho & _)]])]; rewrite Ho; try discriminate.
      exfalso. destruct Q as [Q|Q]; congruence.
    + intros _. destruct a.
      * eapply respond_require_ignore; eassumption.
      * destruct S as [(Ho & _)|(_ & Hn' & _ & _ & [(_ & Ho & _ & _ & Q)|[(_ & Ho & _)|(_ & Ho & N & _)]])]; auto.
        -- exfalso. destruct Q as [Q|Q]; congruence.
        -- congruence.
  - split; [|congruence].
    destruct (respond_shape _ _ _ _ _ _ _ _ R) as (_ & v & n & w & a' & _ & S).
    destruct S as [(Ho & _)|(_ & _ & _ & _ & [(_ & _ & N & _)|[(_ & Ho & _)|(_ & Ho & _)]])]; try rewrite Ho; try discriminate.
  - split; [|congruence].
    destruct (respond_shape _ _ _ _ _ _ _ _ R) as (_ & v & n & w & a' & _ & S).
    destruct S as [(Ho & _)|(_ & _ & _ & _ & [(_ & _ & N & _)|[(_ & Ho & _)|(_ & Ho & _)]])]; try rewrite Ho; try discriminate.
Qed.

Lemma served h cfg c e rq c' :
  e_in_deny e = false -> e_in_allow e = true ->
  is_allowed h c (e_addr e) (e_now e) (c_cutoff cfg) = Ok (c', true) ->
  r_parse rq = POk -> r_client rq = true ->
  existsb (version_eqb (r_ver rq)) (c_accepted cfg) = true ->
  (c_require_nts cfg = None \/ r_cookie rq = true) ->
  (r_ver rq = V3 -> r_cookie rq = false) ->
  env_ok e -> e_ser_ok e = true ->
  handle h cfg c e rq =
    Ok {| o_cache := c'; o_regs := [(version_u8 (r_ver rq), r_cookie rq, Policy, RProvideTime)]; o_out := ORespond ATime |}.
Proof.
  intros Hd Ha Hal Hp Hc Hacc Hreq Hv3 (Hl & Hk & Hy & Hrd) Hs.
  unfold handle, intended_action. rewrite Hd, Ha. cbn [negb]. rewrite Hal. cbn [res_bind negb response_eqb].
  rewrite Hp, Hc. unfold respond. rewrite Hacc, Hl, Hk, Hy, Hrd, Hs. cbn [negb response_eqb].
  rewrite Bool.orb_false_r, Bool.andb_false_r.
  destruct (r_cookie rq) eqn:Ck.
  - destruct (r_ver rq) eqn:Ev; [specialize (Hv3 eq_refl); discriminate| |];
      destruct (c_require_nts cfg) as [[|]|]; cbn; reflexivity.
  - destruct Hreq as [Hreq|Hreq]; [|discriminate]. rewrite Hreq. cbn. reflexivity.
Qed.

(* ---- C20: where the cache sits -------------------------------------------------- *)

Definition rate_refused (r : result) : bool :=
  existsb (fun g : registration => let '(_, _, w, _) := g in is_rate w) (o_regs r).

Lemma cache_untouched h cfg c e rq r :
  passes e = false -> handle h cfg c e rq = Ok r -> o_cache r = c /\ rate_refused r = false.
Proof.
  intros Hp H. unfold passes in Hp.
  destruct (e_in_deny e) eqn:Hd.
  - destruct (denied_outcome _ _ _ _ _ _ Hd H) as (Hc & G). split; [exact Hc|].
    unfold rate_refused. destruct (c_deny_action cfg).
    + destruct G as (_ & ->). reflexivity.
    + destruct (handle_one_registration _ _ _ _ _ _ H) as (v & n & w & a & Hr & _ & _ & _ & Hi).
      destruct G as [Ho|(_ & v' & n' & Hr')].
      * destruct (handle_shape _ _ _ _ _ _ H) as (c1 & act & why & Hia & D).
        unfold intended_action in Hia. rewrite Hd in Hia. inversion Hia; subst.
        destruct D as [(_ & _ & _ & ->)|[(_ & _ & _ & _ & ->)|[(_ & _ & _ & R)|[(_ & _ & _ & _ & R)|(_ & _ & _ & R)]]]]; try reflexivity;
          destruct (respond_shape _ _ _ _ _ _ _ _ R) as (_ & v1 & n1 & w1 & a1 & -> & S); cbn;
          destruct S as [(_ & _ & [-> | ->])|(_ & _ & _ & _ & [(_ & Ho' & _)|[(_ & Ho' & _)|(_ & Ho' & _)]])]; try reflexivity; congruence.
      * rewrite Hr'. reflexivity.
  - destruct (e_in_allow e) eqn:Ha; [discriminate|].
    destruct (not_allowed_outcome _ _ _ _ _ _ Hd Ha H) as (Hc & G). split; [exact Hc|].
    unfold rate_refused. destruct (c_allow_action cfg).
    + destruct G as (_ & ->). reflexivity.
    + destruct G as [Ho|(_ & v' & n' & Hr')].
      * destruct (handle_shape _ _ _ _ _ _ H) as (c1 & act & why & Hia & D).
        unfold intended_action in Hia. rewrite Hd, Ha in Hia. inversion Hia; subst.
        destruct D as [(_ & _ & _ & ->)|[(_ & _ & _ & _ & ->)|[(_ & _ & _ & R)|[(_ & _ & _ & _ & R)|(_ & _ & _ & R)]]]]; try reflexivity;
          destruct (respond_shape _ _ _ _ _ _ _ _ R) as (_ & v1 & n1 & w1 & a1 & -> & S); cbn;
          destruct S as [(_ & _ & [-> | ->])|(_ & _ & _ & _ & [(_ & Ho' & _)|[(_ & Ho' & _)|(_ & Ho' & _)]])]; try reflexivity; congruence.
      * rewrite Hr'. reflexivity.
Qed.



Lemma cache_consulted h cfg c e rq r :
  passes e = true -> handle h cfg c e rq = Ok r ->
  exists b, is_allowed h c (e_addr e) (e_now e) (c_cutoff cfg) = Ok (o_cache r, b)
            /\ b = negb (rate_refused r)
            /\ (b = false -> o_out r = OIgnore /\ o_regs r = [(r_fbv rq, false, RateLimit, RIgnore)]).
Proof.
  intros Hp H. unfold passes in Hp. apply Bool.andb_true_iff in Hp. destruct Hp as [Hd Ha].
  apply Bool.negb_true_iff in Hd.
  destruct (handle_shape _ _ _ _ _ _ H) as (c1 & act & why & Hia & D).
  destruct (intended_action_spec h cfg c e) as [(N & _)|[(_ & N & _)|(_ & _ & c' & b & Hal & _ & E)]]; try congruence.
  rewrite E in Hia. inversion Hia; subst c1 act why. clear Hia.
  exists b. unfold rate_refused.
  destruct b.
  - assert (G : forall a0 w0 ck, w0 <> RateLimit -> respond cfg c' e rq a0 w0 ck = Ok r ->
              o_cache r = c' /\ existsb (fun g : registration => let '(_, _, w, _) := g in is_rate w) (o_regs r) = false).
    { intros a0 w0 ck Hw R. destruct (respond_shape _ _ _ _ _ _ _ _ R) as (Hc & v1 & n1 & w1 & a1 & -> & S).
      split; [exact Hc|]. cbn.
      destruct S as [(_ & _ & [-> | ->])|(_ & _ & _ & _ & [(_ & _ & _ & -> & _)|[(_ & _ & [(_ & ->)|(_ & _ & ->)])|(_ & _ & _ & ->)]])];
        try reflexivity; destruct w0; try reflexivity; congruence. }
    destruct D as [(N & _)|[(_ & _ & Hc & _ & Hr)|[(_ & _ & _ & R)|[(_ & _ & _ & _ & R)|(N & _)]]]]; try discriminate.
    + rewrite Hc, Hr. cbn. repeat split; cbn; auto; try discriminate.
    + assert (Hw : Policy <> RateLimit) by discriminate.
      destruct (G _ _ _ Hw R) as (Hc & Hf). rewrite Hc, Hf. repeat split; cbn; auto; try discriminate.
    + assert (Hw : InvalidCrypto <> RateLimit) by discriminate.
      destruct (G _ _ _ Hw R) as (Hc & Hf). rewrite Hc, Hf. repeat split; cbn; auto; try discriminate.
  - destruct D as [(_ & Hc & Ho & Hr)|[(N & _)|[(N & _)|[(N & _)|(N & _)]]]]; try congruence.
    rewrite Hc, Hr. cbn. repeat split; auto.
Qed.

Definition call_of (x : env * request) : Z * Z := (e_addr (fst x), e_now (fst x)).
Definition passing (l : list (env * request)) : list (env * request) := filter (fun x => passes (fst x)) l.

(* verdicts of the list-passing calls of a history, read off the results *)
Fixpoint passing_verdicts (l : list (env * request)) (rs : list result) : list bool :=
  match l, rs with
  | x :: l', r :: rs' =>
    if passes (fst x) then negb (rate_refused r) :: passing_verdicts l' rs' else passing_verdicts l' rs'
  | _, _ => []
  end.

Lemma position_history h cfg l : forall c c' rs,
  handle_all h cfg c l = Ok (c', rs) ->
  length rs = length l /\
  run_from h (c_cutoff cfg) c (map call_of (passing l)) = Ok (c', passing_verdicts l rs).
Proof.
  induction l as [|[e rq] l IH]; intros c c' rs H; cbn [handle_all res_bind] in H.
  - inversion H; subst. split; reflexivity.
  - destruct (handle h cfg c e rq) as [r| |] eqn:Hh; cbn [res_bind] in H; try discriminate.
    destruct (handle_all h cfg (o_cache r) l) as [[c2 rs2]| |] eqn:Hr; cbn [res_bind fst snd] in H; try discriminate.
    inversion H; subst c' rs. clear H.
    destruct (IH _ _ _ Hr) as (Hlen & Hrun).
    split; [cbn [length]; congruence|].
    unfold passing in *. cbn [filter fst passing_verdicts].
    destruct (passes e) eqn:Hp.
    + destruct (cache_consulted _ _ _ _ _ _ Hp Hh) as (b & Hal & Hb & _).
      cbn [map run_from call_of fst res_bind]. rewrite Hal. cbn [res_bind]. rewrite Hrun. cbn [res_bind].
      rewrite Hb. reflexivity.
    + destruct (cache_untouched _ _ _ _ _ _ Hp Hh) as (Hc & _). rewrite <- Hc. exact Hrun.
Qed.

Lemma handle_all_app h cfg l1 : forall l2 c c' rs,
  handle_all h cfg c (l1 ++ l2) = Ok (c', rs) ->
  exists c1 rs1 rs2, handle_all h cfg c l1 = Ok (c1, rs1) /\ handle_all h cfg c1 l2 = Ok (c', rs2)
                     /\ rs = rs1 ++ rs2 /\ length rs1 = length l1.
Proof.
  induction l1 as [|[e rq] l1 IH]; intros l2 c c' rs H; cbn [app handle_all res_bind] in *.
  - exists c, [], rs. auto.
  - destruct (handle h cfg c e rq) as [r| |] eqn:Hh; cbn [res_bind] in *; try discriminate.
    destruct (handle_all h cfg (o_cache r) (l1 ++ l2)) as [[c2 rs2]| |] eqn:Hr; cbn [res_bind fst snd] in H; try discriminate.
    inversion H; subst c' rs. clear H.
    destruct (IH _ _ _ _ Hr) as (c1 & rs1 & rs2' & H1 & H2 & -> & Hl).
    rewrite H1. cbn [res_bind fst snd]. exists c1, (r :: rs1), rs2'. repeat split; auto. cbn [length]. congruence.
Qed.

(* the server-level reading of C20: in any history of datagrams through one server, a datagram that
   passed the lists is rate-limited iff the most recent earlier list-passing datagram on its slot came
   from the same address less than the cutoff before *)
Lemma server_refused_iff h cfg n pre e rq post c' rs r :
  handle_all h cfg (new_cache n) (pre ++ (e, rq) :: post) = Ok (c', rs) ->
  passes e = true ->
  nth_error rs (length pre) = Some r ->
  (rate_refused r = true <->
   0 < n /\ exists t', last_on_slot h n (slot_of h n (e_addr e)) (map call_of (passing pre)) = Some (e_addr e, t')
                       /\ dur_since (e_now e) t' < c_cutoff cfg).
Proof.
  intros H Hp Hn.
  destruct (handle_all_app _ _ _ _ _ _ _ H) as (c1 & rs1 & rs2 & H1 & H2 & -> & Hl).
  cbn [handle_all res_bind] in H2.
  destruct (handle h cfg c1 e rq) as [r0| |] eqn:Hh; cbn [res_bind] in H2; try discriminate.
  destruct (handle_all h cfg (o_cache r0) post) as [[c2 rs3]| |]; cbn [res_bind fst snd] in H2; try discriminate.
  inversion H2; subst c' rs2. clear H2.
  rewrite nth_error_app2 in Hn by lia. rewrite Hl, Nat.sub_diag in Hn. cbn in Hn. inversion Hn; subst r0. clear Hn.
  destruct (position_history _ _ _ _ _ _ H1) as (_ & Hrun).
  destruct (cache_consulted _ _ _ _ _ _ Hp Hh) as (b & Hal & Hb & _).
  destruct (Z_lt_le_dec 0 n) as [Hpos|Hneg].
  - destruct (run_inv h n (c_cutoff cfg) (map call_of (passing pre)) Hpos) as (cc & bs & Hrun' & Hinv & _).
    rewrite Hrun in Hrun'. inversion Hrun'; subst cc. 
    destruct (is_allowed_inv h n (c_cutoff cfg) c1 _ (e_addr e) (e_now e) Hpos Hinv) as (c'' & Hal' & _).
    rewrite Hal in Hal'. inversion Hal' as [[Hc Hbv]].
    rewrite <- verdict_spec_false_iff, <- Hbv, Hb.
    destruct (rate_refused r); cbn; split; intros; try tauto; try discriminate; destruct H0; auto; discriminate.
  - rewrite (new_cache_nonpos n Hneg), run_empty in Hrun. inversion Hrun; subst c1.
    cbn in Hal. inversion Hal; subst b. 
    destruct (rate_refused r); [discriminate|]. split; [discriminate|]. intros (? & _). lia.
Qed.



(* ---- C21 ------------------------------------------------------------------------ *)

Lemma respond_nts cfg c e rq action why cookie r v n w a :
  respond cfg c e rq action why cookie = Ok r -> o_regs r = [(v, n, w, a)] ->
  (o_out r <> OIgnore -> n = (cookie || response_eqb action RNak)) /\
  (n = true -> (cookie || response_eqb action RNak) = true /\ (o_out r = OIgnore -> w = InternalError)).
Proof.
  unfold respond. intros R Hr.
  destruct cookie, action; cbn in R; unfold ignore_with in R;
    repeat match type of R with
    | context [match ?x with _ => _ end] => destruct x eqn:?; cbn in R; try discriminate R
    end; inv_ok; cbn in Hr; inversion Hr; subst; cbn; repeat split; intros; try congruence; auto.
Qed.

Lemma nts_flag h cfg c e rq r v n w a :
  handle h cfg c e rq = Ok r -> o_regs r = [(v, n, w, a)] ->
  (r_parse rq = PErr -> n = false) /\
  (r_parse rq = POk -> r_cookie rq = false -> n = false) /\
  (r_parse rq = POk -> r_cookie rq = true -> o_out r <> OIgnore -> n = true) /\
  (r_parse rq = PDecrypt ->
     (o_out r = ORespond ANak -> n = true) /\
     (o_out r = ORespond ADenyKiss -> n = false) /\
     (n = true -> o_out r = ORespond ANak \/ (o_out r = OIgnore /\ w = InternalError))).
Proof.
  intros H Hr. destruct (handle_shape _ _ _ _ _ _ H) as (c1 & act & why & Hia & D).
  pose proof (intended_never_nak _ _ _ _ _ _ _ Hia) as Hnn.
  destruct D as [(_ & _ & Ho & Hr')|[(_ & _ & _ & Ho & Hr')|[(_ & P & C & R)|[(_ & Nd & P & C & R)|(Ad & P & C & R)]]]].
  - rewrite Hr in Hr'. inversion Hr'; subst. rewrite Ho. repeat split; intros; try reflexivity; try congruence.
  - rewrite Hr in Hr'. inversion Hr'; subst. rewrite Ho. repeat split; intros; try reflexivity; try congruence.
  - destruct (respond_nts _ _ _ _ _ _ _ _ _ _ _ _ R Hr) as (N1 & N2).
    assert (Q : response_eqb act RNak = false) by (destruct act; try reflexivity; congruence).
    rewrite Q, Bool.orb_false_r in *.
    split; [congruence|]. split; [|split; [|congruence]].
    + intros _ Ck. destruct n; [|reflexivity]. destruct (N2 eq_refl) as (N & _). congruence.
    + intros _ Ck Ho. rewrite (N1 Ho). exact Ck.
  - destruct (respond_nts _ _ _ _ _ _ _ _ _ _ _ _ R Hr) as (N1 & N2). cbn in N1, N2.
    destruct (respond_shape _ _ _ _ _ _ _ _ R) as (_ & v1 & n1 & w1 & a1 & Hr1 & S).
    rewrite Hr in Hr1. inversion Hr1; subst v1 n1 w1 a1. clear Hr1.
    split; [congruence|]. split; [congruence|]. split; [congruence|]. intros _.
    split; [|split].
    + intros Ho. apply N1. rewrite Ho. discriminate.
    + intros Ho. destruct S as [(Ho' & _)|(_ & _ & _ & _ & [(_ & Ho' & _)|[(_ & _ & [(N & _)|(N & _)])|(_ & Ho' & _)]])]; congruence.
    + intros Hn. destruct S as [(Ho' & _)|(_ & _ & _ & _ & [(_ & _ & N & _)|[(_ & _ & [(N & _)|(N & _)])|(_ & Ho' & _)]])]; try congruence.
      * right. split; [exact Ho'|]. apply (proj2 (N2 Hn)). exact Ho'.
      * left. exact Ho'.
  - destruct (respond_nts _ _ _ _ _ _ _ _ _ _ _ _ R Hr) as (N1 & N2). cbn in N1, N2.
    destruct (respond_shape _ _ _ _ _ _ _ _ R) as (_ & v1 & n1 & w1 & a1 & Hr1 & S).
    rewrite Hr in Hr1. inversion Hr1; subst v1 n1 w1 a1. clear Hr1.
    split; [congruence|]. split; [congruence|]. split; [congruence|]. intros _.
    split; [|split].
    + intros Ho. destruct S as [(Ho' & _)|(_ & _ & _ & _ & [(_ & Ho' & _)|[(_ & Ho' & _)|(_ & _ & N & _)]])]; congruence.
    + intros Ho. apply N1. rewrite Ho. discriminate.
    + intros Hn. destruct (N2 Hn) as (N & _). discriminate.
Qed.


(* ---- C21: the daemon's counters --------------------------------------------------- *)

Definition reg_nts (g : registration) : bool := let '(_, n, _, _) := g in n.
Definition reg_reason (g : registration) : reason := let '(_, _, w, _) := g in w.
Definition reg_resp (g : registration) : response := let '(_, _, _, a) := g in a.

Definition p_all (g : registration) := true.
Definition p_accepted g := response_eqb (reg_resp g) RProvideTime.
Definition p_denied g := response_eqb (reg_resp g) RDeny.
Definition p_ignored g := response_eqb (reg_resp g) RIgnore && negb (is_rate (reg_reason g)).
Definition p_rate g := response_eqb (reg_resp g) RIgnore && is_rate (reg_reason g).
Definition p_nak g := response_eqb (reg_resp g) RNak.
Definition p_nts g := reg_nts g.
Definition p_nts_accepted g := reg_nts g && p_accepted g.
Definition p_nts_denied g := reg_nts g && p_denied g.
Definition p_nts_rate g := reg_nts g && p_rate g.

Definition count (p : registration -> bool) (l : list registration) : nat := length (filter p l).

Lemma iter_inc_swap k x : Nat.iter k inc (inc x) = inc (Nat.iter k inc x).
Proof. induction k as [|k IH]; [reflexivity|]. change (inc (Nat.iter k inc (inc x)) = inc (inc (Nat.iter k inc x))). rewrite IH. reflexivity. Qed.

Lemma fold_field (f : stats -> Z) (p : registration -> bool) :
  (forall s g, f (register s g) = if p g then inc (f s) else f s) ->
  forall l s, f (register_all s l) = Nat.iter (count p l) inc (f s).
Proof.
  intros Hstep. unfold register_all, count. induction l as [|g l IH]; intros s; cbn [fold_left filter]; [reflexivity|].
  rewrite IH, Hstep. destruct (p g); cbn [length]; [|reflexivity].
  rewrite iter_inc_swap. reflexivity.
Qed.

Lemma iter_inc k x : 0 <= x < 2 ^ 64 -> Nat.iter k inc x = wrap 64 (x + Z.of_nat k).
Proof.
  intros Hx. unfold wrap. induction k as [|k IH].
  - cbn [Nat.iter]. rewrite Z.add_0_r, Z.mod_small; [reflexivity|exact Hx].
  - change (Nat.iter (S k) inc x) with (inc (Nat.iter k inc x)). rewrite IH. unfold inc, wrap. rewrite Zplus_mod_idemp_l. f_equal. lia.
Qed.

Ltac step_tac := intros s [[[v n] w] a]; destruct n, w, a; reflexivity.

Lemma counters l :
  let s := register_all stats0 l in
  received s = wrap 64 (Z.of_nat (count p_all l)) /\
  accepted s = wrap 64 (Z.of_nat (count p_accepted l)) /\
  denied s = wrap 64 (Z.of_nat (count p_denied l)) /\
  ignored s = wrap 64 (Z.of_nat (count p_ignored l)) /\
  rate_limited s = wrap 64 (Z.of_nat (count p_rate l)) /\
  nts_nak s = wrap 64 (Z.of_nat (count p_nak l)) /\
  nts_received s = wrap 64 (Z.of_nat (count p_nts l)) /\
  nts_accepted s = wrap 64 (Z.of_nat (count p_nts_accepted l)) /\
  nts_denied s = wrap 64 (Z.of_nat (count p_nts_denied l)) /\
  nts_rate_limited s = wrap 64 (Z.of_nat (count p_nts_rate l)) /\
  send_errors s = 0.
Proof.
  cbv zeta.
  assert (R : 0 <= 0 < 2 ^ 64) by (split; [lia|reflexivity]).
  repeat split.
  - rewrite (fold_field received p_all) by step_tac. apply (iter_inc _ 0 R).
  - rewrite (fold_field accepted p_accepted) by step_tac. apply (iter_inc _ 0 R).
  - rewrite (fold_field denied p_denied) by step_tac. apply (iter_inc _ 0 R).
  - rewrite (fold_field ignored p_ignored) by step_tac. apply (iter_inc _ 0 R).
  - rewrite (fold_field rate_limited p_rate) by step_tac. apply (iter_inc _ 0 R).
  - rewrite (fold_field nts_nak p_nak) by step_tac. apply (iter_inc _ 0 R).
  - rewrite (fold_field nts_received p_nts) by step_tac. apply (iter_inc _ 0 R).
  - rewrite (fold_field nts_accepted p_nts_accepted) by step_tac. apply (iter_inc _ 0 R).
  - rewrite (fold_field nts_denied p_nts_denied) by step_tac. apply (iter_inc _ 0 R).
  - rewrite (fold_field nts_rate_limited p_nts_rate) by step_tac. apply (iter_inc _ 0 R).
  - rewrite (fold_field send_errors (fun _ => false)) by step_tac.
    unfold count. induction l; cbn; auto.
Qed.

(* every registration lands in exactly one of the five outcome counters, and the NTS
   counters count sub-populations of the corresponding outcome counters *)
Lemma counters_partition l :
  (count p_all l = length l)%nat /\
  (count p_accepted l + count p_denied l + count p_ignored l + count p_rate l + count p_nak l = length l)%nat /\
  (count p_nts_accepted l <= count p_accepted l)%nat /\
  (count p_nts_denied l <= count p_denied l)%nat /\
  (count p_nts_rate l <= count p_rate l)%nat /\
  (count p_nts_accepted l + count p_nts_denied l + count p_nts_rate l <= count p_nts l)%nat.
Proof.
  unfold count. induction l as [|[[[v n] w] a] l IH]; [cbn; lia|].
  destruct IH as (I1 & I2 & I3 & I4 & I5 & I6).
  destruct n, w, a; cbn [filter p_all p_accepted p_denied p_ignored p_rate p_nak p_nts p_nts_accepted p_nts_denied p_nts_rate
                         reg_nts reg_reason reg_resp response_eqb is_rate andb negb length]; lia.
Qed.

(* the registrations of a history, one per datagram, in order *)
Lemma handle_all_each h cfg l : forall c c' rs,
  handle_all h cfg c l = Ok (c', rs) ->
  length rs = length l /\ Forall (fun r => exists c0 e rq, handle h cfg c0 e rq = Ok r) rs.
Proof.
  induction l as [|[e rq] l IH]; intros c c' rs H; cbn [handle_all res_bind] in H.
  - inversion H; subst. split; [reflexivity|constructor].
  - destruct (handle h cfg c e rq) as [r| |] eqn:Hh; cbn [res_bind] in H; try discriminate.
    destruct (handle_all h cfg (o_cache r) l) as [[c2 rs2]| |] eqn:Hr; cbn [res_bind fst snd] in H; try discriminate.
    inversion H; subst c' rs. destruct (IH _ _ _ Hr) as (Hl & Hf).
    split; [cbn [length]; congruence|]. constructor; [eauto|exact Hf].
Qed.

Definition out_is (o : output) (r : result) : bool :=
  match o, o_out r with
  | OIgnore, OIgnore => true
  | ORespond ATime, ORespond ATime => true
  | ORespond ADenyKiss, ORespond ADenyKiss => true
  | ORespond ANak, ORespond ANak => true
  | _, _ => false
  end.

Lemma history_counts h cfg l c c' rs :
  handle_all h cfg c l = Ok (c', rs) ->
  let regs := flat_map o_regs rs in
  length regs = length l /\
  count p_accepted regs = length (filter (out_is (ORespond ATime)) rs) /\
  count p_denied regs = length (filter (out_is (ORespond ADenyKiss)) rs) /\
  count p_nak regs = length (filter (out_is (ORespond ANak)) rs) /\
  (count p_ignored regs + count p_rate regs)%nat = length (filter (out_is OIgnore) rs).
Proof.
  intros H. destruct (handle_all_each _ _ _ _ _ _ H) as (Hl & Hf). cbv zeta. rewrite <- Hl. clear H Hl.
  unfold count. induction Hf as [|r rs (c0 & e & rq & Hh) Hf IH]; [cbn; auto|].
  destruct IH as (I1 & I2 & I3 & I4 & I5).
  destruct (handle_one_registration _ _ _ _ _ _ Hh) as (v & n & w & a & Hr & K1 & K2 & K3 & K4).
  assert (X : forall o b, (match o, o_out r with
                           | OIgnore, OIgnore => true
                           | ORespond ATime, ORespond ATime => true
                           | ORespond ADenyKiss, ORespond ADenyKiss => true
                           | ORespond ANak, ORespond ANak => true
                           | _, _ => false end) = b -> out_is o r = b) by (intros; assumption).
  cbn [flat_map]. rewrite Hr. cbn [app filter length].
  destruct a.
  - pose proof (proj1 K3 eq_refl) as Eo.
    rewrite (X (ORespond ATime) false), (X (ORespond ADenyKiss) false), (X (ORespond ANak) true), (X OIgnore false)
      by (rewrite Eo; reflexivity).
    destruct w; cbn; lia.
  - pose proof (proj1 K2 eq_refl) as Eo.
    rewrite (X (ORespond ATime) false), (X (ORespond ADenyKiss) true), (X (ORespond ANak) false), (X OIgnore false)
      by (rewrite Eo; reflexivity).
    destruct w; cbn; lia.
  - pose proof (proj1 K4 eq_refl) as Eo.
    rewrite (X (ORespond ATime) false), (X (ORespond ADenyKiss) false), (X (ORespond ANak) false), (X OIgnore true)
      by (rewrite Eo; reflexivity).
    destruct w; cbn; lia.
  - pose proof (proj1 K1 eq_refl) as Eo.
    rewrite (X (ORespond ATime) true), (X (ORespond ADenyKiss) false), (X (ORespond ANak) false), (X OIgnore false)
      by (rewrite Eo; reflexivity).
    destruct w; cbn; lia.
Qed.

(* ---- C22 --------------------------------------------------------------------------- *)

Lemma intended_action_range h cfg c e c' a w :
  intended_action h cfg c e = Ok (c', a, w) -> a = RIgnore \/ a = RDeny \/ a = RProvideTime.
Proof.
  intros H. destruct a; auto. exfalso. exact (intended_never_nak _ _ _ _ _ _ _ H eq_refl).
Qed.

Lemma respond_total cfg c e rq action why cookie :
  env_ok e -> action <> RIgnore ->
  (r_ver rq = V3 -> cookie = false /\ action <> RNak) ->
  exists r, respond cfg c e rq action why cookie = Ok r.
Proof.
  intros (Hl & Hk & Hy & Hrd) Hni Hv3. unfold respond. rewrite Hl, Hk, Hy, Hrd. cbn [negb]. rewrite Bool.andb_false_r.
  destruct (existsb (version_eqb (r_ver rq)) (c_accepted cfg)); cbn [negb]; [|eexists; reflexivity].
  destruct (r_ver rq) eqn:Ev.
  - destruct (Hv3 eq_refl) as (-> & Hnn).
    destruct action, (c_require_nts cfg) as [[|]|], (e_ser_ok e); cbn; try congruence; eexists; reflexivity.
  - destruct cookie, action, (c_require_nts cfg) as [[|]|], (e_ser_ok e); cbn; try congruence; eexists; reflexivity.
  - destruct cookie, action, (c_require_nts cfg) as [[|]|], (e_ser_ok e); cbn; try congruence; eexists; reflexivity.
Qed.

Lemma handle_total h cfg c e rq :
  env_ok e -> req_ok rq -> exists r, handle h cfg c e rq = Ok r.
Proof.
  intros He Hq. unfold handle.
  destruct (intended_action_total h cfg c e) as (c' & a & w & E). rewrite E. cbn [res_bind].
  destruct (intended_action_range _ _ _ _ _ _ _ E) as [-> | [-> | ->]]; cbn [response_eqb negb].
  - eexists; reflexivity.
  - destruct (r_parse rq) eqn:Ep; [destruct (r_client rq)| destruct (r_client rq)|]; cbn [negb]; try (eexists; reflexivity).
    + apply respond_total; [exact He|discriminate|]. intros Ev. destruct (Hq Ev) as (_ & Hc). split; [auto|discriminate].
    + apply respond_total; [exact He|discriminate|]. intros Ev. split; [reflexivity|discriminate].
  - destruct (r_parse rq) eqn:Ep; [destruct (r_client rq)| destruct (r_client rq)|]; cbn [negb]; try (eexists; reflexivity).
    + apply respond_total; [exact He|discriminate|]. intros Ev. destruct (Hq Ev) as (_ & Hc). split; [auto|discriminate].
    + apply respond_total; [exact He|discriminate|]. intros Ev. destruct (Hq Ev) as (Hc & _). congruence.
Qed.

(* which panic, and why: the only reachable sites are the four environment sites and the
   NTPv3 one; the cache index and the `unreachable!()` of the Ignore arm are never reached *)
Lemma handle_panic_sites h cfg c e rq s :
  handle h cfg c e rq = Panic s ->
  (s = panic_lock_poisoned /\ e_lock_ok e = false) \/
  (s = panic_clock /\ e_clock_ok e = false) \/
  (s = panic_keys /\ e_keys_ok e = false) \/
  (s = panic_root_delay /\ e_root_delay_nonneg e = false) \/
  (s = panic_nts_v3 /\ r_ver rq = V3 /\ (r_parse rq = PDecrypt \/ (r_parse rq = POk /\ r_cookie rq = true))).
Proof.
  unfold handle. intros H.
  destruct (intended_action_total h cfg c e) as (c' & a & w & E). rewrite E in H. cbn [res_bind] in H.
  destruct (r_cookie rq) eqn:Eck; destruct (c_require_nts cfg) as [[|]|] eqn:Erq;
  destruct (intended_action_range _ _ _ _ _ _ _ E) as [-> | [-> | ->]]; cbn [response_eqb negb] in H;
    unfold respond, ignore_with in H; rewrite ?Eck, ?Erq in H;
    repeat match type of H with
    | context [match ?x with _ => _ end] => destruct x eqn:?; cbn in H; try discriminate H
    end; inversion H; subst;
    repeat match goal with
    | Q : _ && _ = true |- _ => apply Bool.andb_true_iff in Q; destruct Q
    | Q : negb _ = true |- _ => apply Bool.negb_true_iff in Q
    | Q : negb _ = false |- _ => apply Bool.negb_false_iff in Q
    end; auto 12.
Qed.

Lemma handle_all_total h cfg l : forall c,
  Forall (fun x => env_ok (fst x) /\ req_ok (snd x)) l ->
  exists c' rs, handle_all h cfg c l = Ok (c', rs) /\ length rs = length l.
Proof.
  induction l as [|[e rq] l IH]; intros c Hf; cbn [handle_all].
  - exists c, []. auto.
  - inversion Hf as [|x l' (He & Hq) Hf']; subst. cbn [fst snd] in *.
    destruct (handle_total h cfg c e rq He Hq) as (r & Hr). rewrite Hr. cbn [res_bind].
    destruct (IH (o_cache r) Hf') as (c' & rs & Hrs & Hl). rewrite Hrs. cbn [res_bind fst snd].
    exists c', (r :: rs). split; [reflexivity|]. cbn [length]. congruence.
Qed.
