(* Proofs for C25: whatever the decoder reports as authenticated, encrypted or
   as recovered cookie keys comes from one successful AEAD decryption whose
   associated data is the datagram up to the authenticator field and whose
   nonce and ciphertext are the bytes at the positions the field announces. *)
From V Require Import Model.Packet Proofs.Bytes Proofs.Packet.
From V Require Import Gen.ConstPacket.
From Coq Require Import ZifyBool.
Ltac Zify.zify_post_hook ::= Z.div_mod_to_equations.

(* ---- more slicing lemmas ---- *)
Lemma skipn_add' : forall (a n : nat) (l : bytes), skipn (a + n) l = skipn n (skipn a l).
Proof.
  induction a as [|a IH]; intros n l; [reflexivity|].
  destruct l as [|x l]; cbn [Nat.add skipn]; [rewrite skipn_nil; reflexivity|apply IH].
Qed.

Lemma bdrop_bdrop : forall a b x, 0 <= a -> 0 <= b -> bdrop b (bdrop a x) = bdrop (a + b) x.
Proof. intros a b x Ha Hb. unfold bdrop. rewrite (Z2Nat.inj_add a b) by lia. rewrite skipn_add'. reflexivity. Qed.

Lemma bdrop_btake : forall a n x, 0 <= a <= n -> bdrop a (btake n x) = btake (n - a) (bdrop a x).
Proof.
  intros a n x H. unfold bdrop, btake. rewrite skipn_firstn_comm. f_equal. lia.
Qed.

Lemma btake_btake : forall a n x, 0 <= a <= n -> btake a (btake n x) = btake a x.
Proof.
  intros a n x H. unfold btake. rewrite firstn_firstn. f_equal. lia.
Qed.

Lemma range_to_end : forall data hs site buf, range data hs (blen data) site = Ok buf ->
  buf = bdrop hs data /\ 0 <= hs <= blen data.
Proof.
  intros data hs site buf H. apply range_inv in H. destruct H as (? & ? & _ & -> & _).
  split; [|lia]. rewrite <- (blen_bdrop hs data) by lia. apply btake_all.
Qed.

Lemma raw_inv3 : forall data v5 tid m, raw_deserialize data 4 v5 = Ok (tid, m) ->
  m = btake (blen m) (bdrop 4 data) /\ 4 + blen m <= blen data.
Proof.
  intros data v5 tid m H. unfold raw_deserialize in H.
  destruct data as [|b0 [|b1 [|b2 [|b3 rest]]]]; try discriminate.
  remember (b0 :: b1 :: b2 :: b3 :: rest) as data eqn:Ed.
  destruct (_ <? _); [discriminate|]. destruct (_ && _); [discriminate|].
  destruct (slice data 4 (nm4 _)) eqn:E3; [|discriminate].
  destruct (slice data 4 (b2 * 256 + b3)) eqn:E4; [|discriminate].
  clear Ed. inversion H; subst; clear H.
  apply slice_some in E4. destruct E4 as (_ & ? & ? & Hm & Hl).
  rewrite Hl. split; [exact Hm|lia].
Qed.

Lemma nm4_u16_nonneg : forall x, 0 <= x -> 0 <= nm4_u16 x.
Proof. intros x H. unfold nm4_u16. destruct (x mod 4) eqn:E; lia. Qed.

Lemma enc_from_message_inv : forall m nonce ct, enc_from_message m = Ok (nonce, ct) ->
  nonce = btake (blen nonce) (bdrop 4 m) /\ 4 + blen nonce <= blen m /\
  ct = btake (blen ct) (bdrop (4 + nm4_u16 (blen nonce)) m) /\
  0 <= nm4_u16 (blen nonce) /\ 4 + nm4_u16 (blen nonce) + blen ct <= blen m.
Proof.
  intros m nonce ct H. unfold enc_from_message in H.
  destruct m as [|b0 [|b1 [|b2 [|b3 rest]]]]; try discriminate.
  remember (b0 :: b1 :: b2 :: b3 :: rest) as m eqn:Em.
  assert (bdrop 4 m = rest /\ blen m = 4 + blen rest) as [Hr Hl].
  { subst m. split; [reflexivity|]. rewrite !blen_cons. lia. }
  destruct (slice rest 0 _) as [n|] eqn:E1; [|discriminate].
  destruct (slice m _ _) as [c|] eqn:E2; [|discriminate].
  inversion H; subst n c; clear H.
  apply slice_some in E1. destruct E1 as (_ & ? & ? & Hn & Hnl).
  apply slice_some in E2. destruct E2 as (? & ? & ? & Hc & Hcl).
  rewrite Z.sub_0_r in *. rewrite Hr. rewrite Hnl.
  replace (blen ct) with (4 + nm4_u16 (b0 * 256 + b1) + (b2 * 256 + b3) - (4 + nm4_u16 (b0 * 256 + b1))) by lia.
  pose proof (nm4_u16_nonneg (b0 * 256 + b1) ltac:(lia)).
  repeat split; try assumption; try lia.
Qed.

Section Tamper.
Variable dec : oracle.
Variables n0 a0 c0 : bytes.

(* ideal AEAD, one genuine authenticator: besides cookie encryptions (made with
   empty associated data) the only tuple that decrypts is (n0, a0, c0) *)
Hypothesis dec_genuine : forall key n a c p,
  dec key n a c = Some p -> a = [] \/ (n = n0 /\ a = a0 /\ c = c0).

Definition agrees (data : bytes) : Prop :=
  btake (blen a0) data = a0 /\
  slice data (blen a0 + 8) (blen a0 + 8 + blen n0) = Some n0 /\
  slice data (blen a0 + 8 + nm4_u16 (blen n0)) (blen a0 + 8 + nm4_u16 (blen n0) + blen c0) = Some c0.

Definition trusted_st (st : lstate) : Prop :=
  authenticated (l_ef st) <> [] \/ encrypted (l_ef st) <> [] \/ l_cookie st <> None.

Lemma loop_trusted : forall cx data hs v5 buf, 0 < hs -> buf = bdrop hs data -> hs <= blen data ->
  forall fuel offset st st', 0 <= offset <= blen buf ->
  (trusted_st st -> agrees data) ->
  ef_loop fuel dec cx data hs v5 buf offset st = Ok st' ->
  (trusted_st st' -> agrees data).
Proof.
  intros cx data hs v5 buf Hhs Hbuf Hle.
  assert (blen buf = blen data - hs) as Hbl by (subst buf; apply blen_bdrop; lia).
  induction fuel as [|fuel IH]; intros offset st st' Ho Hi H; [discriminate|].
  cbn [ef_loop] in H. unfold EF_V4_UNENCRYPTED_MINIMUM_SIZE in H.
  destruct (stream_next buf (ef_cutoff v5) 4 v5 offset) as [[e off']|] eqn:E.
  2:{ inversion H; subst; assumption. }
  destruct e as [[tid m]|e|s]; try discriminate.
  (* the raw field at this offset *)
  assert (m = btake (blen m) (bdrop (hs + offset + 4) data) /\ hs + offset + 4 + blen m <= blen data /\
          offset + 4 <= off' <= blen buf) as (Hm & Hml & Hoff).
  { unfold stream_next in E. destruct (_ >? _) eqn:E0 in E; [discriminate|]. destruct (_ <=? _) in E; [discriminate|].
    destruct (raw_deserialize _ _ _) as [[tid' m']|e'|s] eqn:Er; inversion E; subst; clear E.
    pose proof (raw_inv3 _ _ _ _ Er) as (Hm & Hl).
    rewrite blen_bdrop in Hl by lia.
    try subst buf. rewrite !bdrop_bdrop in Hm by lia. rewrite Hm at 1.
    replace (hs + offset + 4) with (hs + offset + 4) by lia.
    split; [f_equal; f_equal; lia|]. split; [lia|].
    unfold wire_length. pose proof (nm4_ge (2 + 2 + blen m)). pose proof (nm4_lt (2 + 2 + blen m)).
    pose proof (blen_nonneg m). split; [lia|].
    (* the padded length fits: second slice test of raw_deserialize *)
    unfold raw_deserialize in Er.
    destruct (bdrop offset (bdrop hs data)) as [|b0 [|b1 [|b2 [|b3 rest]]]] eqn:Eb; try discriminate.
    rewrite <- Eb in Er.
    destruct (_ <? _) in Er; [discriminate|]. destruct (_ && _) in Er; [discriminate|].
    destruct (slice _ 4 (nm4 _)) eqn:E3 in Er; [|discriminate].
    destruct (slice _ 4 (b2 * 256 + b3)) eqn:E4 in Er; [|discriminate].
    inversion Er; subst. apply slice_some in E3. apply slice_some in E4.
    destruct E3 as (_ & _ & E3 & _). destruct E4 as (_ & ? & ? & _ & E4).
    rewrite blen_bdrop in E3 by lia.
    replace (2 + 2 + blen m) with (b2 * 256 + b3) by lia. lia. }
  assert (forall st1, (trusted_st st1 -> agrees data) ->
            ef_loop fuel dec cx data hs v5 buf off' st1 = Ok st' -> trusted_st st' -> agrees data) as Hnext.
  { intros st1 H1 H2. eapply IH; [|exact H1|exact H2]. lia. }
  destruct (tid =? T_ENCRYPTED).
  - destruct (enc_from_message m) as [[nonce ct]|e|s] eqn:Ee; cbn [res_bind] in H; try discriminate.
    destruct (cipher_get _ _ _) as [h|e|s]; cbn [res_bind] in H; try discriminate.
    destruct h as [h|]; [|eapply Hnext; [|exact H]; exact Hi].
    destruct (range data 0 (hs + offset) S_EF_AAD) as [aad|e|s] eqn:Ea; cbn [res_bind] in H; try discriminate.
    destruct (dec (holder_key h) nonce aad ct) as [pt|] eqn:Ed; [|eapply Hnext; [|exact H]; exact Hi].
    (* a successful decryption: it must be the genuine tuple *)
    assert (agrees data) as Hag.
    { apply range_inv in Ea. destruct Ea as (_ & _ & ? & Haad & Hal).
      rewrite Z.sub_0_r, bdrop_0 in Haad. rewrite Z.sub_0_r in Hal.
      apply dec_genuine in Ed. destruct Ed as [Hnil|(Hn & Ha & Hc)].
      { subst aad. rewrite Hnil in Hal. change (blen []) with 0 in Hal. lia. }
      apply enc_from_message_inv in Ee. destruct Ee as (Hno & Hnl & Hct & Hpos & Hcl).
      assert (blen a0 = hs + offset) as HP by (rewrite <- Ha; exact Hal).
      pose proof (blen_nonneg nonce). pose proof (blen_nonneg ct). pose proof (blen_nonneg m).
      unfold agrees. rewrite HP. split; [rewrite <- Ha; symmetry; exact Haad|].
      rewrite <- Hn, <- Hc.
      rewrite Hm in Hno, Hct.
      rewrite bdrop_btake in Hno, Hct by lia.
      rewrite btake_btake in Hno, Hct by lia.
      rewrite bdrop_bdrop in Hno, Hct by lia.
      split.
      - rewrite slice_in by lia. f_equal. rewrite Hno at 2. f_equal; [lia|f_equal; lia].
      - rewrite slice_in by lia. f_equal. rewrite Hct at 2. f_equal; [lia|f_equal; lia]. }
    destruct (inner_fields _ _ _ _) as [fs|e|s]; cbn [res_bind] in H; try discriminate.
    eapply Hnext; [|exact H]. intros _; exact Hag.
  - destruct (decode_field tid m v5) as [f|e|s]; cbn [res_bind] in H; try discriminate.
    eapply Hnext; [|exact H]. exact Hi.
Qed.

Definition reports_trusted (r : res outcome) : Prop :=
  match r with
  | Ok (Accept p c) => authenticated (p_ef p) <> [] \/ encrypted (p_ef p) <> [] \/ c <> None
  | Ok (DecryptFailed p) => authenticated (p_ef p) <> [] \/ encrypted (p_ef p) <> []
  | _ => False
  end.

Lemma with_fields_trusted : forall cx data h v5, 48 <= blen data ->
  reports_trusted (with_fields dec cx data h 48 v5) -> agrees data.
Proof.
  intros cx data h v5 Hlen H. unfold with_fields in H.
  destruct (efdata_deserialize dec cx data 48 v5) as [[[[d remaining] ck] valid]|e|s] eqn:E;
    cbn [res_bind] in H; try contradiction.
  unfold efdata_deserialize in E.
  destruct (range data 48 (blen data) S_EF_DATA_HEADER) as [buf|e|s] eqn:Eb; cbn [res_bind] in E; try discriminate.
  apply range_to_end in Eb. destruct Eb as (Hbuf & _).
  destruct (ef_loop _ _ _ _ _ _ _ _ _) as [st|e|s] eqn:El; cbn [res_bind] in E; try discriminate.
  destruct (range data _ _ S_EF_REMAINING) as [r|e|s]; cbn [res_bind] in E; try discriminate.
  inversion E; subst d remaining ck valid; clear E.
  assert (trusted_st st -> agrees data) as Hst.
  { eapply (loop_trusted cx data 48 v5 buf ltac:(lia) Hbuf ltac:(lia)); [| |exact El].
    - pose proof (blen_nonneg buf); lia.
    - intros [Ht|[Ht|Ht]]; cbn in Ht; contradiction. }
  destruct (construct_packet h r (l_ef st)) as [p|e|s] eqn:Ep; cbn [res_bind] in H; try contradiction.
  assert (p_ef p = l_ef st) as Hp.
  { unfold construct_packet in Ep. destruct r; [inversion Ep; reflexivity|].
    destruct (mac_deserialize _); cbn [res_bind] in Ep; inversion Ep; reflexivity. }
  apply Hst. unfold trusted_st. rewrite <- Hp.
  destruct (l_valid st); cbn [reports_trusted] in H; tauto.
Qed.

Theorem tamper_protected : forall cx data,
  reports_trusted (deserialize dec cx data) -> agrees data.
Proof.
  intros cx data H. unfold deserialize in H.
  destruct data as [|x data']; [contradiction|]. remember (x :: data') as data eqn:Ed. clear Ed.
  destruct (idx data 0 S_DATA0) as [d0|e|s]; cbn [res_bind] in H; try contradiction.
  destruct (_ =? 3).
  { destruct (hdr34_deserialize data) as [h|e|s]; cbn [res_bind] in H; try contradiction.
    destruct (if _ =? _ then _ else _) as [m|e|s]; cbn [res_bind reports_trusted p_ef efdata_empty authenticated encrypted] in H;
      try contradiction. destruct H as [H|[H|H]]; contradiction. }
  destruct (_ =? 4).
  { destruct (hdr34_deserialize data) as [h|e|s] eqn:Eh; cbn [res_bind] in H; try contradiction.
    apply hdr34_ok_len in Eh. unfold HDR34_WIRE_LENGTH in H. eapply with_fields_trusted; eassumption. }
  destruct (_ =? 5); [|contradiction].
  destruct (hdr5_deserialize data) as [h|e|s] eqn:Eh; cbn [res_bind] in H; try contradiction.
  apply hdr5_ok_len in Eh. unfold HDR5_WIRE_LENGTH in H.
  destruct (with_fields dec cx data (HV5 h) 48 true) as [o|e|s] eqn:Ew; cbn [res_bind] in H; try contradiction.
  apply (with_fields_trusted cx data (HV5 h) true Eh). rewrite Ew.
  destruct o as [p ck|p]; [|exact H].
  destruct (draft_id p); [|contradiction]. destruct (bytes_eqb _ _); [exact H|contradiction].
Qed.

End Tamper.

Lemma bytes_eqb_true : forall a b, bytes_eqb a b = true -> a = b.
Proof.
  induction a as [|x a IH]; destruct b as [|y b]; cbn [bytes_eqb]; intros H; try discriminate; [reflexivity|].
  apply andb_prop in H. destruct H as [Hx Hr]. f_equal; [lia|apply IH; exact Hr].
Qed.

(* a one-entry table is an oracle with a single genuine tuple *)
Lemma table_single_genuine : forall k n0 a0 c0 p0 key n a c p,
  table_dec [(k, n0, a0, c0, p0)] key n a c = Some p -> a = [] \/ (n = n0 /\ a = a0 /\ c = c0).
Proof.
  intros k n0 a0 c0 p0 key n a c p H. cbn [table_dec] in H.
  destruct (_ && _) eqn:E; [|discriminate]. right.
  apply andb_prop in E. destruct E as [E Ec]. apply andb_prop in E. destruct E as [E Ea].
  apply andb_prop in E. destruct E as [_ En].
  repeat split; apply bytes_eqb_true; assumption.
Qed.
