(* C06 -- proofs about Model/Kalman.v instantiated at the real numbers: the covariance
   stays symmetric positive semidefinite under every filter operation, hence every divisor
   met is non-zero and every square-root argument is non-negative in exact arithmetic. *)
From V Require Import Model.Kalman.
From Coq Require Import Reals Lra Psatz.
Close Scope float_scope.
Open Scope R_scope.
Definition InvR (a b c d : R) : Prop := b = c /\ 0 <= a /\ 0 <= d /\ 0 <= a * d - b * c.

Lemma sq_le0 x : x * x <= 0 -> x = 0.
Proof. intros H. destruct (Req_dec x 0) as [|N]; auto. exfalso. assert (0 < x * x) by (apply Rsqr_pos_lt; auto). lra. Qed.

(* the quadratic form of a positive semidefinite matrix is non-negative *)
Lemma psd_form a b d t : 0 <= a -> 0 <= d -> 0 <= a * d - b * b -> 0 <= a + 2 * t * b + t * t * d.
Proof.
  intros Ha Hd Hdet.
  destruct (Req_dec d 0) as [E|N].
  - subst d. assert (b = 0) by (apply sq_le0; lra). subst b. lra.
  - assert (0 < d) by lra.
    assert (E : a + 2 * t * b + t * t * d = ((a * d - b * b) + (b + t * d) * (b + t * d)) / d) by (field; lra).
    rewrite E. apply Rmult_le_pos; [|left; apply Rinv_0_lt_compat; lra].
    assert (0 <= (b + t * d) * (b + t * d)) by apply Rle_0_sqr. lra.
Qed.

Lemma progress_psd a b c d w t :
  InvR a b c d -> 0 <= w -> 0 <= t ->
  InvR (a + t * c + (b + t * d) * t + w * t * t * t / 3) (b + t * d + w * t * t / 2)
       (c + d * t + w * t * t / 2) (d + w * t).
Proof.
  intros (E & Ha & Hd & Hdet) Hw Ht. subst c.
  assert (Hq := psd_form a b d t Ha Hd Hdet).
  assert (Hq2 := psd_form a b d (t / 2) Ha Hd Hdet).
  assert (0 <= w * t) by (apply Rmult_le_pos; auto).
  assert (0 <= t * t) by apply Rle_0_sqr.
  assert (0 <= w * t * (t * t)) by (apply Rmult_le_pos; auto).
  assert (0 <= (w * t) * (w * t) * (t * t)) by (apply Rmult_le_pos; auto; apply Rle_0_sqr).
  assert (0 <= t * t * d) by (apply Rmult_le_pos; auto).
  assert (0 <= w * t * (a + t * b + t * t * d / 3)).
  { apply Rmult_le_pos; auto. replace (a + t * b + t * t * d / 3) with ((a + 2 * (t / 2) * b + t / 2 * (t / 2) * d) + t * t * d / 12) by field. lra. }
  repeat split.
  - lra.
  - lra.
  - lra.
  - replace ((a + t * b + (b + t * d) * t + w * t * t * t / 3) * (d + w * t) - (b + t * d + w * t * t / 2) * (b + d * t + w * t * t / 2))
      with ((a * d - b * b) + w * t * (a + t * b + t * t * d / 3) + (w * t) * (w * t) * (t * t) / 12) by field.
    lra.
Qed.

Lemma progress_pos a b c d w t :
  InvR a b c d -> 0 < w -> 0 < t -> 0 < a + t * c + (b + t * d) * t + w * t * t * t / 3.
Proof.
  intros (E & Ha & Hd & Hdet) Hw Ht. subst c.
  assert (Hq := psd_form a b d t Ha Hd Hdet).
  assert (0 < w * t * t * t) by (repeat apply Rmult_lt_0_compat; auto).
  lra.
Qed.

(* measurement update with H = [1 0], noise r, S = a + r *)
Lemma absorb_psd a b c d r :
  InvR a b c d -> 0 <= r -> 0 < a + r ->
  let S := a + r in
  let k0 := a / S in let k1 := c / S in
  let n00 := (1 - k0) * a in let n01 := (1 - k0) * b in
  let n10 := (0 - k1) * a + c in let n11 := (0 - k1) * b + d in
  InvR ((n00 + n00) / 2) ((n01 + n10) / 2) ((n10 + n01) / 2) ((n11 + n11) / 2).
Proof.
  intros (E & Ha & Hd & Hdet) Hr HS. subst c. cbv zeta.
  assert (HS' : a + r <> 0) by lra.
  assert (Hi : 0 < / (a + r)) by (apply Rinv_0_lt_compat; auto).
  repeat split.
  - field; auto.
  - replace (((1 - a / (a + r)) * a + (1 - a / (a + r)) * a) / 2) with (a * r * / (a + r)) by (field; auto).
    apply Rmult_le_pos; [apply Rmult_le_pos|]; lra.
  - replace (((0 - b / (a + r)) * b + d + ((0 - b / (a + r)) * b + d)) / 2) with ((a * d - b * b + d * r) * / (a + r)) by (field; auto).
    apply Rmult_le_pos; [|lra]. assert (0 <= d * r) by (apply Rmult_le_pos; auto). lra.
  - match goal with |- 0 <= ?X => replace X with (r * (a * d - b * b) * / (a + r)) by (field; auto) end.
    apply Rmult_le_pos; [apply Rmult_le_pos|]; lra.
Qed.

(* merge: P1 (P1+P2)^-1 P2 *)
Lemma merge_psd a1 b1 c1 d1 a2 b2 c2 d2 :
  InvR a1 b1 c1 d1 -> InvR a2 b2 c2 d2 ->
  let D := (a1 + a2) * (d1 + d2) - (b1 + b2) * (c1 + c2) in
  0 < D ->
  let i := 1 / D in
  let m00 := i * (d1 + d2) in let m01 := - i * (b1 + b2) in
  let m10 := - i * (c1 + c2) in let m11 := i * (a1 + a2) in
  let x00 := a1 * m00 + b1 * m10 in let x01 := a1 * m01 + b1 * m11 in
  let x10 := c1 * m00 + d1 * m10 in let x11 := c1 * m01 + d1 * m11 in
  InvR (x00 * a2 + x01 * c2) (x00 * b2 + x01 * d2) (x10 * a2 + x11 * c2) (x10 * b2 + x11 * d2).
Proof.
  intros (E1 & Ha1 & Hd1 & Hdet1) (E2 & Ha2 & Hd2 & Hdet2). subst c1 c2. cbv zeta. intros HD.
  set (D := (a1 + a2) * (d1 + d2) - (b1 + b2) * (b1 + b2)) in *.
  assert (HD' : D <> 0) by lra.
  assert (Hi : 0 < / D) by (apply Rinv_0_lt_compat; auto).
  set (D1 := a1 * d1 - b1 * b1) in *. set (D2 := a2 * d2 - b2 * b2) in *.
  repeat split.
  - unfold D; field; fold D; auto.
  - match goal with |- 0 <= ?X => replace X with ((a1 * D2 + a2 * D1) * / D) by (unfold D, D1, D2; field; fold D; auto) end.
    apply Rmult_le_pos; [|lra].
    assert (0 <= a1 * D2) by (apply Rmult_le_pos; auto). assert (0 <= a2 * D1) by (apply Rmult_le_pos; auto). lra.
  - match goal with |- 0 <= ?X => replace X with ((d1 * D2 + d2 * D1) * / D) by (unfold D, D1, D2; field; fold D; auto) end.
    apply Rmult_le_pos; [|lra].
    assert (0 <= d1 * D2) by (apply Rmult_le_pos; auto). assert (0 <= d2 * D1) by (apply Rmult_le_pos; auto). lra.
  - match goal with |- 0 <= ?X => replace X with (D1 * D2 * / D) by (unfold D, D1, D2; field; fold D; auto) end.
    apply Rmult_le_pos; [apply Rmult_le_pos|]; auto; lra.
Qed.

(* the determinant of a sum of PSD matrices: positive as soon as one is positive definite *)
Lemma det_sum_pos a1 b1 d1 a2 b2 d2 :
  0 <= a1 -> 0 <= d1 -> 0 < a1 * d1 - b1 * b1 -> 0 <= a2 -> 0 <= d2 -> 0 <= a2 * d2 - b2 * b2 ->
  0 < (a1 + a2) * (d1 + d2) - (b1 + b2) * (b1 + b2).
Proof.
  intros Ha1 Hd1 H1 Ha2 Hd2 H2.
  (* a1 d2 + a2 d1 - 2 b1 b2 >= 0 *)
  assert (0 < a1) by nra. assert (0 < d1) by nra.
  assert (Hq := psd_form a2 b2 d2 (- b1 / d1) Ha2 Hd2 H2).
  assert (E : a1 * d2 + a2 * d1 - 2 * b1 * b2 =
              d1 * (a2 + 2 * (- b1 / d1) * b2 + - b1 / d1 * (- b1 / d1) * d2) + (a1 * d1 - b1 * b1) * d2 / d1) by (field; lra).
  assert (0 <= (a1 * d1 - b1 * b1) * d2 / d1).
  { apply Rmult_le_pos; [apply Rmult_le_pos; lra|]. left; apply Rinv_0_lt_compat; lra. }
  assert (0 <= d1 * (a2 + 2 * (- b1 / d1) * b2 + - b1 / d1 * (- b1 / d1) * d2)) by (apply Rmult_le_pos; lra).
  lra.
Qed.

(* TimeSnapshot::root_dispersion: base + t lin + t^2 quad + t^3 cubic with (base, lin, quad) = (P00, P01, P11) *)
Lemma root_dispersion_arg a b d w t :
  0 <= a -> 0 <= d -> 0 <= a * d - b * b -> 0 <= w -> 0 <= t ->
  0 <= a + t * b + t * t * d + t * (t * t) * w.
Proof.
  intros Ha Hd Hdet Hw Ht.
  assert (Hq := psd_form a b d t Ha Hd Hdet).
  assert (0 <= t * t) by apply Rle_0_sqr.
  assert (0 <= t * t * d) by (apply Rmult_le_pos; auto).
  assert (0 <= t * (t * t) * w) by (repeat apply Rmult_le_pos; auto).
  lra.
Qed.
Definition litR (f : float) : R :=
  match Prim2SF f with
  | S754_finite s m e =>
      (if s then -1 else 1) * IZR (Zpos m) * (if (0 <=? e)%Z then IZR (2 ^ e) else / IZR (2 ^ (- e)))
  | _ => 0
  end.
Definition Rltb (a b : R) : bool := if Rlt_dec a b then true else false.
Definition Rleb (a b : R) : bool := if Rle_dec a b then true else false.

Section Real.
Variable fs : R -> Z.          (* NtpDuration::from_seconds on reals: any function *)
Variable rem : R -> R -> R.    (* % on reals: any function *)

Definition ROps : NumOps R :=
  mkNum R litR Rplus Rminus Rmult Rdiv sqrt Ropp Rltb Rleb Rmax (fun _ => false) rem IZR fs.

Definition holds (o : oblig R) : Prop :=
  match o with NonZero x => x <> 0 | NonNeg x => 0 <= x end.

Definition sp {A} (m : M R A) (Q : A -> Prop) : Prop := Forall holds (snd m) /\ Q (fst m).

Lemma sp_ret A (a : A) (Q : A -> Prop) : Q a -> sp (ret a) Q.
Proof. intros; split; simpl; auto. Qed.
Lemma sp_bind A B (m : M R A) (f : A -> M R B) (Q : A -> Prop) (Q' : B -> Prop) :
  sp m Q -> (forall a, Q a -> sp (f a) Q') -> sp (bind m f) Q'.
Proof.
  intros [H1 H2] H. destruct (H _ H2) as [H3 H4]. split; simpl; auto.
  apply Forall_app; auto.
Qed.
Lemma sp_weaken A (m : M R A) (Q Q' : A -> Prop) : sp m Q -> (forall a, Q a -> Q' a) -> sp m Q'.
Proof. intros [H1 H2] H; split; auto. Qed.
Lemma sp_div a b (Q : R -> Prop) : b <> 0 -> Q (a / b) -> sp (divM ROps a b) Q.
Proof. intros; split; simpl; auto. Qed.
Lemma sp_sqrt a (Q : R -> Prop) : 0 <= a -> Q (sqrt a) -> sp (sqrtM ROps a) Q.
Proof. intros; split; simpl; auto. Qed.

Lemma c0_R : Kalman.c0 ROps = 0. Proof. unfold Kalman.c0; simpl; unfold litR. replace (Prim2SF 0) with (S754_zero false) by (vm_compute; reflexivity). reflexivity. Qed.
Lemma cn0_R : Kalman.cn0 ROps = 0. Proof. unfold Kalman.cn0; simpl; unfold litR. replace (Prim2SF (-0)) with (S754_zero true) by (vm_compute; reflexivity). reflexivity. Qed.
Ltac lit_tac v :=
  simpl; unfold litR;
  match goal with |- context [Prim2SF ?f] =>
    let x := eval vm_compute in (Prim2SF f) in replace (Prim2SF f) with x by (vm_compute; reflexivity) end;
  cbn [Z.leb Z.compare Z.opp Z.pow Z.pow_pos Pos.iter Z.mul Pos.mul]; 
  lra.
Lemma c1_R : Kalman.c1 ROps = 1. Proof. unfold Kalman.c1. lit_tac 1. Qed.
Lemma c2_R : Kalman.c2 ROps = 2. Proof. unfold Kalman.c2. lit_tac 1. Qed.
Lemma c3_R : Kalman.c3 ROps = 3. Proof. unfold Kalman.c3. lit_tac 1. Qed.
Lemma c4_R : Kalman.c4 ROps = 4. Proof. unfold Kalman.c4. lit_tac 1. Qed.
Lemma c7_R : Kalman.c7 ROps = 7. Proof. unfold Kalman.c7. lit_tac 1. Qed.
Lemma c8_R : Kalman.c8 ROps = 8. Proof. unfold Kalman.c8. lit_tac 1. Qed.
Lemma c100_R : Kalman.c100 ROps = 100. Proof. unfold Kalman.c100. lit_tac 1. Qed.
Lemma cu32_R : Kalman.cu32 ROps = 4294967295. Proof. unfold Kalman.cu32. lit_tac 1. Qed.
Lemma chiP_R : 0 < lit ROps CHI_P. Proof. lit_tac 1. Qed.

Lemma InvR_ext a b c d a' b' c' d' :
  a = a' -> b = b' -> c = c' -> d = d' -> InvR a' b' c' d' -> InvR a b c d.
Proof. intros; subst; auto. Qed.

Definition Inv (P : mat2 R) : Prop := InvR (a00 P) (a01 P) (a10 P) (a11 P).

Ltac consts := rewrite ?c0_R, ?cn0_R, ?c1_R, ?c2_R, ?c3_R, ?c4_R, ?c7_R, ?c8_R, ?c100_R, ?cu32_R.
Ltac unf := unfold mm22, mv22, madd2, msub2, transpose2, unit2, sum2, sum1, sqr, det2 in *;
            cbn [a00 a01 a10 a11 s0 s1 unc ktime fst snd fadd fsub fmul fdiv fneg fsqrt of_int ROps] in *.
(* one monadic division step whose divisor is visibly non-zero *)
Ltac spd tac := eapply sp_bind with (Q := fun x => x = _);
  [apply sp_div; [consts; tac | reflexivity] | intros ? ->].

Lemma ts_nonneg a b : is_before a b = false -> (0 <= IZR (ts_sub a b)).
Proof. unfold is_before. intros H. apply Z.ltb_ge in H. apply IZR_le. auto. Qed.

Lemma to_seconds_sp d (Q : R -> Prop) : Q (IZR d / 4294967295) -> sp (to_seconds ROps d) Q.
Proof. intros. unfold to_seconds. apply sp_div. consts; lra. unf. consts. auto. Qed.

Lemma cp_down_snd fuel x y p h : snd (cp_down ROps fuel x y p h) = y.
Proof. revert x y; induction fuel; intros; cbn [cp_down]; auto. destruct (fltb ROps h x); auto. rewrite IHfuel. unf. consts. lra. Qed.
Lemma cp_up_snd fuel x y p h : snd (cp_up ROps fuel x y p h) = y.
Proof. revert x y; induction fuel; intros; cbn [cp_up]; auto. destruct (fltb ROps x h); auto. rewrite IHfuel. unf. consts. lra. Qed.

Lemma cp_sp fuel k per :
  sp (correct_periodicity ROps fuel k per)
     (fun k' => unc k' = unc k /\ ktime k' = ktime k /\ s1 k' = s1 k /\ (per = None -> k' = k)).
Proof.
  unfold correct_periodicity. destruct per as [p|].
  - spd lra. spd lra.
    match goal with |- context [cp_down ?a ?b ?c ?d ?e ?f] =>
      assert (H1 := cp_down_snd b c d e f); destruct (cp_down a b c d e f) as [x y] eqn:E1 end.
    match goal with |- context [cp_up ?a ?b ?c ?d ?e ?f] =>
      assert (H2 := cp_up_snd b c d e f); destruct (cp_up a b c d e f) as [x' y'] eqn:E2 end.
    apply sp_ret. simpl. repeat split; try discriminate.
    simpl in *. congruence.
  - apply sp_ret. auto.
Qed.

Lemma progress_sp fuel k time w per :
  Inv (unc k) -> 0 <= w ->
  sp (progress_time ROps fuel k time w per)
     (fun k' => Inv (unc k') /\
                (0 < w -> (0 < ts_sub time (ktime k))%Z -> 0 < a00 (unc k'))).
Proof.
  intros HI Hw. unfold progress_time.
  destruct (is_before time (ktime k)) eqn:Hb.
  - apply sp_ret. split; auto. intros _ Hp. unfold is_before in Hb. apply Z.ltb_lt in Hb. lia.
  - apply ts_nonneg in Hb.
    eapply sp_bind. apply to_seconds_sp with (Q := fun x => x = IZR (ts_sub time (ktime k)) / 4294967295). reflexivity.
    intros dt ->. set (dt := IZR (ts_sub time (ktime k)) / 4294967295).
    assert (Hdt : 0 <= dt) by (unfold dt; apply Rmult_le_pos; [auto | lra]).
    spd lra. spd lra. spd lra.
    eapply sp_weaken. apply cp_sp. intros k' (E & _). rewrite E. clear E k'.
    destruct k as [x0 x1 [a b c d] tm]. unfold Inv in *. unf.
    split.
    + eapply InvR_ext. 5: { apply (progress_psd a b c d w dt); auto. } all: consts; field.
    + intros Hw' Hp. assert (0 < dt). { unfold dt. apply Rmult_lt_0_compat; [apply IZR_lt; auto | lra]. }
      assert (H' := progress_pos a b c d w dt HI Hw' H). consts.
      match goal with |- 0 < ?X => replace X with (a + dt * c + (b + dt * d) * dt + w * dt * dt * dt / 3) by field end. auto.
Qed.
(* ---- piece B ---- *)
Lemma chi1_sp e chi : 0 <= chi -> sp (chi_1 ROps e chi) (fun _ => True).
Proof.
  intros H. unfold chi_1. spd lra.
  eapply sp_bind with (Q := fun x => 0 <= x).
  { apply sp_sqrt. unf. consts. lra. apply sqrt_pos. }
  intros x Hx. eapply sp_bind with (Q := fun _ => True).
  { apply sp_div; auto. unf. consts. assert (P := chiP_R). unf.
    assert (0 <= lit ROps CHI_P * x) by (apply Rmult_le_pos; [lra | auto]). simpl in *. lra. }
  intros; apply sp_ret; auto.
Qed.

Lemma period_correction_sp fuel v pred per : sp (period_correction ROps fuel v pred per) (fun _ => True).
Proof.
  unfold period_correction. destruct per. spd lra. spd lra. apply sp_ret; auto. apply sp_ret; auto.
Qed.

Lemma symmetrize_sp (P : mat2 R) :
  sp (symmetrize ROps P)
     (fun S => S = mkMat ((a00 P + a00 P) / 2) ((a01 P + a10 P) / 2) ((a10 P + a01 P) / 2) ((a11 P + a11 P) / 2)).
Proof. unfold symmetrize. spd lra. spd lra. spd lra. spd lra. apply sp_ret. unf. consts. reflexivity. Qed.

Lemma absorb_sp fuel k value nz per corr e :
  Inv (unc k) -> 0 <= nz -> 0 < a00 (unc k) + nz ->
  sp (absorb ROps fuel k (Kalman.c1 ROps) (Kalman.c0 ROps) value nz per corr e)
     (fun r => Inv (unc (fst (fst r))) /\ ktime (fst (fst r)) = ktime k).
Proof.
  intros HI Hnz HS. unfold absorb.
  destruct k as [x0 x1 [a b c d] tm]. unfold Inv in *. unf.
  eapply sp_bind with (Q := fun _ => True).
  { destruct corr. apply period_correction_sp. apply sp_ret; auto. }
  intros cv _.
  spd lra. spd lra.
  eapply sp_bind with (Q := fun _ => True).
  { apply chi1_sp. consts.
    match goal with |- 0 <= 0 + ?D * (0 + 1 / ?DC * ?D) =>
      assert (0 < 1 / DC) by (apply Rdiv_lt_0_compat; lra);
      assert (0 <= D * D) by apply Rle_0_sqr;
      assert (0 <= 1 / DC * (D * D)) by (apply Rmult_le_pos; lra); lra end. }
  intros p _. spd lra.
  eapply sp_bind. apply symmetrize_sp. intros S ->. unf.
  eapply sp_bind. apply cp_sp. intros k' (E & Et & _).
  apply sp_ret. cbn [fst snd]. rewrite E, Et. cbn [unc ktime a00 a01 a10 a11]. split; auto.
  eapply InvR_ext. 5: { apply (absorb_psd a b c d nz); auto. } all: consts; field; lra.
Qed.

Lemma inverse2_sp (P : mat2 R) :
  a00 P * a11 P - a01 P * a10 P <> 0 ->
  sp (inverse2 ROps P)
     (fun I => let i := 1 / (a00 P * a11 P - a01 P * a10 P) in
               I = mkMat (i * a11 P) (- i * a01 P) (- i * a10 P) (i * a00 P)).
Proof. intros H. unfold inverse2. spd auto. apply sp_ret. unf. consts. reflexivity. Qed.

Lemma merge_sp (k1 k2 : kstate R) :
  Inv (unc k1) -> Inv (unc k2) ->
  0 < det2 ROps (madd2 ROps (unc k1) (unc k2)) ->
  sp (merge ROps k1 k2) (fun k' => Inv (unc k') /\ ktime k' = ktime k1).
Proof.
  intros H1 H2 HD. unfold merge.
  destruct k1 as [x0 x1 [a1 b1 c1 d1] t1]. destruct k2 as [y0 y1 [a2 b2 c2 d2] t2].
  unfold Inv in *. unf.
  eapply sp_bind. apply inverse2_sp. unf. lra.
  intros I ->. apply sp_ret. unf. split; auto.
  eapply InvR_ext. 5: { apply (merge_psd a1 b1 c1 d1 a2 b2 c2 d2); auto. } all: consts; field; lra.
Qed.

Lemma dispersion_inv (k : kstate R) disp :
  Inv (unc k) -> Inv (unc (add_server_dispersion ROps k disp)) /\
                 a00 (unc k) <= a00 (unc (add_server_dispersion ROps k disp)).
Proof.
  destruct k as [x0 x1 [a b c d] t]. unfold Inv, add_server_dispersion, InvR. unf. consts.
  intros (E & Ha & Hd & Hdet). subst c.
  assert (0 <= disp * disp) by apply Rle_0_sqr.
  assert (0 <= disp * disp * d) by (apply Rmult_le_pos; auto).
  repeat split; try lra.
Qed.

Lemma offset_steering_sp fuel k steer per :
  sp (k_offset_steering ROps fuel k steer per) (fun k' => unc k' = unc k).
Proof. unfold k_offset_steering. eapply sp_weaken. apply cp_sp. simpl. intros k' (E & _). auto. Qed.

Lemma frequency_steering_sp fuel k time steer w per :
  Inv (unc k) -> 0 <= w ->
  sp (k_frequency_steering ROps fuel k time steer w per) (fun k' => Inv (unc k')).
Proof.
  intros. unfold k_frequency_steering. eapply sp_bind. apply progress_sp; auto.
  intros k' (HI & _). apply sp_ret. auto.
Qed.

Lemma root_dispersion_sp base lin quad cubic t0 now :
  0 <= base -> 0 <= quad -> 0 <= base * quad - lin * lin -> 0 <= cubic -> is_before now t0 = false ->
  sp (root_dispersion ROps base lin quad cubic t0 now) (fun _ => True).
Proof.
  intros Ha Hd Hdet Hw Hb. unfold root_dispersion. apply ts_nonneg in Hb.
  eapply sp_bind. apply to_seconds_sp with (Q := fun x => x = IZR (ts_sub now t0) / 4294967295). reflexivity.
  intros t ->. set (t := IZR (ts_sub now t0) / 4294967295).
  assert (Ht : 0 <= t) by (unfold t; apply Rmult_le_pos; [auto | lra]).
  eapply sp_bind with (Q := fun _ => True).
  - apply sp_sqrt; auto. unf. apply root_dispersion_arg; auto.
  - intros; apply sp_ret; auto.
Qed.
End Real.
