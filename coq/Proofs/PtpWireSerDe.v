(* C41: serialise then parse gives the message back; builder-made TLV sets are valid. *)
From V Require Import Model.PtpWire Proofs.WireBytes Proofs.TlvSet Proofs.PtpWireHeader Proofs.PtpWireBody.
From Coq Require Import ZifyBool.

Lemma ser_header_length : forall h ty mlen, length (pid_clock (h_source h)) = 8%nat -> length (ser_header h ty mlen) = 34%nat.
Proof.
  intros h ty mlen H. unfold ser_header, pid_ser. rewrite !app_length, !be_length, H. reflexivity.
Qed.

Lemma ser_body_length : forall b old, body_ok b -> length (ser_body b old) = body_size b.
Proof.
  intros b old H. destruct b; unfold body_ok, pid_ok in H; cbn [ser_body body_size body_type type_size Z.eqb Pos.eqb];
    unfold ts_ser, pid_ser, cq_ser; rewrite ?app_length, ?be_length; cbn [length]; try reflexivity.
  all: try (destruct H as (_ & _ & -> & _); reflexivity).
  - destruct H as (_ & _ & _ & _ & _ & _ & -> & _). reflexivity.
  - destruct H as (_ & -> & _). reflexivity.
  - destruct H as ((_ & -> & _) & _). reflexivity.
Qed.

Lemma tlv_valid_de : forall set, tlv_valid set -> tlvset_de set = Ok set.
Proof.
  intros set [n H]. unfold tlvset_de. rewrite H. cbn [res_bind].
  apply tlv_scan_total_len in H. cbn in H. subst n. rewrite firstn_all. reflexivity.
Qed.

Lemma body_type_ok : forall b, msgtype_ok (body_type b) = true.
Proof. intros []; reflexivity. Qed.

Theorem ser_de_valid : forall h b set buf out pad,
  header_ok h -> body_ok b -> tlv_valid set ->
  msg_serialize (mkMsg h b set) buf = Ok out ->
  msg_deserialize (out ++ pad) = Ok (mkMsg h b set).
Proof.
  intros h b set buf out pad Hh Hb Hs H.
  unfold msg_serialize in H. cbv zeta in H. cbn [m_header m_body m_suffix] in H.
  destruct (length buf <? 34)%nat eqn:E1; [discriminate|].
  destruct (length buf - 34 <? body_size b)%nat eqn:E2; [discriminate|].
  destruct (65535 <? Z.of_nat (34 + body_size b + length set)) eqn:E3; [discriminate|].
  destruct (version_encodable h) eqn:E4; cbn [negb] in H; [|discriminate].
  destruct (body_encodable b) eqn:E5; cbn [negb] in H; [|discriminate].
  destruct (length buf - 34 - body_size b <? length set)%nat eqn:E6; [discriminate|].
  assert (out = ser_header h (body_type b) (Z.of_nat (34 + body_size b + length set)) ++ ser_body b (slice 34 (34 + body_size b) buf) ++ set) as -> by congruence.
  clear H.
  set (mlen := Z.of_nat (34 + body_size b + length set)) in *.
  set (old := slice 34 (34 + body_size b) buf).
  assert (length (pid_clock (h_source h)) = 8%nat) as Hck by (destruct Hh as (_ & _ & _ & _ & _ & (_ & L & _) & _); exact L).
  pose proof (ser_header_length h (body_type b) mlen Hck) as LH.
  pose proof (ser_body_length b old Hb) as LB.
  assert (0 <= mlen < 65536) as Hm by (apply Z.ltb_ge in E3; unfold mlen in *; lia).
  unfold msg_deserialize.
  rewrite <- !app_assoc.
  rewrite app_length, LH.
  match goal with |- context [(34 + ?x <? 34)%nat] => replace (34 + x <? 34)%nat with false by (symmetry; apply Nat.ltb_ge; lia) end.
  rewrite (de_ser_header h (body_type b) mlen _ Hh E4 (body_type_ok b) Hm).
  rewrite body_type_ok. cbn [negb].
  replace (mlen <? 34) with false by (unfold mlen; lia).
  rewrite !app_length, LB.
  replace (34 + (body_size b + (length set + length pad)) <? Z.to_nat mlen)%nat with false
    by (symmetry; apply Nat.ltb_ge; unfold mlen; lia).
  rewrite (app_assoc (ser_body b old) set pad).
  rewrite (slice_mid (ser_header h (body_type b) mlen) (ser_body b old ++ set) pad 34 (Z.to_nat mlen))
    by (rewrite ?app_length, ?LB; try exact LH; unfold mlen in *; lia).
  rewrite (de_ser_body b old set Hb E5). cbn [res_bind].
  rewrite skipn_app, skipn_all2 by lia. rewrite LB, Nat.sub_diag. cbn [skipn app].
  rewrite (tlv_valid_de set Hs). reflexivity.
Qed.

(* C41_ser_de: the TLV set is made by the builder from any list of TLVs (any type code the
   TlvType enumeration can yield, any value) in a backing buffer of any size *)
Lemma built_valid : forall cap ts set, Forall tlv_ok ts -> build_tlvs cap ts = Ok set -> tlv_valid set.
Proof.
  intros cap ts set Hok H. unfold build_tlvs in H. apply builder_add_all_ok in H.
  destruct H as (-> & Ev & Hl & _). cbn [app]. apply tlv_concat_valid; [|exact Ev].
  rewrite Forall_forall in *. intros t Hin. split; [apply (Hok t Hin)|apply (Hl t Hin)].
Qed.

Theorem ser_de_built : forall h b ts cap set buf out pad,
  header_ok h -> body_ok b -> Forall tlv_ok ts ->
  build_tlvs cap ts = Ok set ->
  msg_serialize (mkMsg h b set) buf = Ok out ->
  msg_deserialize (out ++ pad) = Ok (mkMsg h b set).
Proof. intros. eapply ser_de_valid; eauto. eapply built_valid; eauto. Qed.
